import Usual.C16.Lookup3
import Usual.C16.Lookup3Pub
/-! C16 — the `mix`/`final` macros as transcribed in the lookup3.c model are the published
rotation schedules in index form; the byte-wise block and tail additions agree; hence the
model-file spec `hashlittle2Spec` = `Lookup3Pub.hashlittle2`. -/
set_option maxRecDepth 8000
namespace UsualProofs.C16.L3Pub
open Usual.C16

def toL3 (s : Lookup3.St) : List UInt32 := [s.1, s.2.1, s.2.2]

theorem foldl_range6 {α : Type} (f : α → Nat → α) (h : α) :
    (List.range 6).foldl f h = f (f (f (f (f (f h 0) 1) 2) 3) 4) 5 := rfl
theorem foldl_range7 {α : Type} (f : α → Nat → α) (h : α) :
    (List.range 7).foldl f h = f (f (f (f (f (f (f h 0) 1) 2) 3) 4) 5) 6 := rfl

/-- `a -= c; a ^= rot(c,4); c += b;` -/
def mixLine0 (s : Lookup3.St) : Lookup3.St :=
  let (a, b, c) := s
  let a := a - c; let a := a ^^^ rol32 c 4; let c := c + b
  (a, b, c)
/-- `b -= a; b ^= rot(a,6); a += c;` -/
def mixLine1 (s : Lookup3.St) : Lookup3.St :=
  let (a, b, c) := s
  let b := b - a; let b := b ^^^ rol32 a 6; let a := a + c
  (a, b, c)
/-- `c -= b; c ^= rot(b,8); b += a;` -/
def mixLine2 (s : Lookup3.St) : Lookup3.St :=
  let (a, b, c) := s
  let c := c - b; let c := c ^^^ rol32 b 8; let b := b + a
  (a, b, c)
/-- `a -= c; a ^= rot(c,16); c += b;` -/
def mixLine3 (s : Lookup3.St) : Lookup3.St :=
  let (a, b, c) := s
  let a := a - c; let a := a ^^^ rol32 c 16; let c := c + b
  (a, b, c)
/-- `b -= a; b ^= rot(a,19); a += c;` -/
def mixLine4 (s : Lookup3.St) : Lookup3.St :=
  let (a, b, c) := s
  let b := b - a; let b := b ^^^ rol32 a 19; let a := a + c
  (a, b, c)
/-- `c -= b; c ^= rot(b,4); b += a;` -/
def mixLine5 (s : Lookup3.St) : Lookup3.St :=
  let (a, b, c) := s
  let c := c - b; let c := c ^^^ rol32 b 4; let b := b + a
  (a, b, c)
theorem mix_lines (a b c : UInt32) : Lookup3.mix (a, b, c) = (mixLine5 (mixLine4 (mixLine3 (mixLine2 (mixLine1 (mixLine0 (a, b, c))))))) := rfl
theorem mix_row0 (a b c : UInt32) : Lookup3Pub.mixRow [a, b, c] 0 = toL3 (mixLine0 (a, b, c)) := rfl
theorem mix_row1 (a b c : UInt32) : Lookup3Pub.mixRow [a, b, c] 1 = toL3 (mixLine1 (a, b, c)) := rfl
theorem mix_row2 (a b c : UInt32) : Lookup3Pub.mixRow [a, b, c] 2 = toL3 (mixLine2 (a, b, c)) := rfl
theorem mix_row3 (a b c : UInt32) : Lookup3Pub.mixRow [a, b, c] 3 = toL3 (mixLine3 (a, b, c)) := rfl
theorem mix_row4 (a b c : UInt32) : Lookup3Pub.mixRow [a, b, c] 4 = toL3 (mixLine4 (a, b, c)) := rfl
theorem mix_row5 (a b c : UInt32) : Lookup3Pub.mixRow [a, b, c] 5 = toL3 (mixLine5 (a, b, c)) := rfl
theorem toL3_eta (s : Lookup3.St) : toL3 s = [s.1, s.2.1, s.2.2] := rfl
/-- published `mix` (rotation schedule 4,6,8,16,19,4) = the macro of lookup3.c -/
theorem mix_eq (a b c : UInt32) : Lookup3Pub.mix [a, b, c] = toL3 (Lookup3.mix (a, b, c)) := by
  unfold Lookup3Pub.mix
  rw [foldl_range6, mix_row0, toL3_eta, mix_row1, toL3_eta, mix_row2, toL3_eta, mix_row3, toL3_eta,
    mix_row4, toL3_eta, mix_row5, mix_lines]

/-- `c ^= b; c -= rot(b,14);` -/
def finalLine0 (s : Lookup3.St) : Lookup3.St :=
  let (a, b, c) := s
  let c := c ^^^ b; let c := c - rol32 b 14
  (a, b, c)
/-- `a ^= c; a -= rot(c,11);` -/
def finalLine1 (s : Lookup3.St) : Lookup3.St :=
  let (a, b, c) := s
  let a := a ^^^ c; let a := a - rol32 c 11
  (a, b, c)
/-- `b ^= a; b -= rot(a,25);` -/
def finalLine2 (s : Lookup3.St) : Lookup3.St :=
  let (a, b, c) := s
  let b := b ^^^ a; let b := b - rol32 a 25
  (a, b, c)
/-- `c ^= b; c -= rot(b,16);` -/
def finalLine3 (s : Lookup3.St) : Lookup3.St :=
  let (a, b, c) := s
  let c := c ^^^ b; let c := c - rol32 b 16
  (a, b, c)
/-- `a ^= c; a -= rot(c,4);` -/
def finalLine4 (s : Lookup3.St) : Lookup3.St :=
  let (a, b, c) := s
  let a := a ^^^ c; let a := a - rol32 c 4
  (a, b, c)
/-- `b ^= a; b -= rot(a,14);` -/
def finalLine5 (s : Lookup3.St) : Lookup3.St :=
  let (a, b, c) := s
  let b := b ^^^ a; let b := b - rol32 a 14
  (a, b, c)
/-- `c ^= b; c -= rot(b,24);` -/
def finalLine6 (s : Lookup3.St) : Lookup3.St :=
  let (a, b, c) := s
  let c := c ^^^ b; let c := c - rol32 b 24
  (a, b, c)
theorem final_lines (a b c : UInt32) : Lookup3.final (a, b, c) = (finalLine6 (finalLine5 (finalLine4 (finalLine3 (finalLine2 (finalLine1 (finalLine0 (a, b, c)))))))) := rfl
theorem final_row0 (a b c : UInt32) : Lookup3Pub.finalRow [a, b, c] 0 = toL3 (finalLine0 (a, b, c)) := rfl
theorem final_row1 (a b c : UInt32) : Lookup3Pub.finalRow [a, b, c] 1 = toL3 (finalLine1 (a, b, c)) := rfl
theorem final_row2 (a b c : UInt32) : Lookup3Pub.finalRow [a, b, c] 2 = toL3 (finalLine2 (a, b, c)) := rfl
theorem final_row3 (a b c : UInt32) : Lookup3Pub.finalRow [a, b, c] 3 = toL3 (finalLine3 (a, b, c)) := rfl
theorem final_row4 (a b c : UInt32) : Lookup3Pub.finalRow [a, b, c] 4 = toL3 (finalLine4 (a, b, c)) := rfl
theorem final_row5 (a b c : UInt32) : Lookup3Pub.finalRow [a, b, c] 5 = toL3 (finalLine5 (a, b, c)) := rfl
theorem final_row6 (a b c : UInt32) : Lookup3Pub.finalRow [a, b, c] 6 = toL3 (finalLine6 (a, b, c)) := rfl
/-- published `final` (rotation schedule 14,11,25,16,4,14,24) = the macro of lookup3.c -/
theorem final_eq (a b c : UInt32) : Lookup3Pub.final [a, b, c] = toL3 (Lookup3.final (a, b, c)) := by
  unfold Lookup3Pub.final
  rw [foldl_range7, final_row0, toL3_eta, final_row1, toL3_eta, final_row2, toL3_eta, final_row3, toL3_eta,
    final_row4, toL3_eta, final_row5, toL3_eta, final_row6, final_lines]

/-- the twelve byte additions of a whole block -/
theorem block_eq (a b c : UInt32) (k : List UInt8) :
    Lookup3Pub.block [a, b, c] k = toL3 (Lookup3.specBlock (a, b, c) k) := by
  unfold Lookup3Pub.block Lookup3.specBlock
  have : (List.range 12).foldl (Lookup3Pub.addByte k) [a, b, c] =
      [a + b32 k 0 + (b32 k 1 <<< 8) + (b32 k 2 <<< 16) + (b32 k 3 <<< 24),
       b + b32 k 4 + (b32 k 5 <<< 8) + (b32 k 6 <<< 16) + (b32 k 7 <<< 24),
       c + b32 k 8 + (b32 k 9 <<< 8) + (b32 k 10 <<< 16) + (b32 k 11 <<< 24)] := by
    simp [List.range, List.range.loop, Lookup3Pub.addByte, Lookup3Pub.g]
  rw [this, mix_eq]

theorem blocks_eq (n : Nat) (s : Lookup3.St) (k : List UInt8) :
    Lookup3Pub.blocks n (toL3 s) k = toL3 (Lookup3.specLoop n s k) := by
  induction n generalizing s k with
  | zero => rfl
  | succ n ih =>
    obtain ⟨a, b, c⟩ := s
    simp only [Lookup3Pub.blocks, Lookup3.specLoop]
    rw [show toL3 (a, b, c) = [a, b, c] from rfl, block_eq, ih]

/-- the fall-through `switch(length)`: bytes `r-1` down to `0` -/
theorem tail_eq (r : Nat) (h1 : 1 ≤ r) (h12 : r ≤ 12) (a b c : UInt32) (k : List UInt8) :
    Lookup3Pub.tail r [a, b, c] k = toL3 (Lookup3.specTail r (a, b, c) k) := by
  have hr : r = 1 ∨ r = 2 ∨ r = 3 ∨ r = 4 ∨ r = 5 ∨ r = 6 ∨ r = 7 ∨ r = 8 ∨ r = 9 ∨ r = 10 ∨ r = 11
      ∨ r = 12 := by omega
  rcases hr with rfl | rfl | rfl | rfl | rfl | rfl | rfl | rfl | rfl | rfl | rfl | rfl <;>
    simp [Lookup3Pub.tail, List.range, List.range.loop, Lookup3Pub.addByte, Lookup3Pub.g,
      Lookup3.specTail, toL3]

theorem final_eq' (s : Lookup3.St) : Lookup3Pub.final (toL3 s) = toL3 (Lookup3.final s) :=
  final_eq s.1 s.2.1 s.2.2

theorem result_eq (s : Lookup3.St) :
    ((Lookup3Pub.g (toL3 s) 1).toUInt64 <<< 32) ||| (Lookup3Pub.g (toL3 s) 2).toUInt64 = Lookup3.result s := rfl

/-- the byte-wise spec of the model file = the published `hashlittle2` in index form -/
theorem spec_eq_pub (key : List UInt8) : Lookup3.hashlittle2Spec key = Lookup3Pub.hashlittle2 key := by
  unfold Lookup3.hashlittle2Spec Lookup3Pub.hashlittle2
  have hstart : [Lookup3Pub.initConst + UInt32.ofNat key.length, Lookup3Pub.initConst + UInt32.ofNat key.length,
      Lookup3Pub.initConst + UInt32.ofNat key.length] = toL3 (Lookup3.start key.length) := rfl
  simp only [hstart, blocks_eq]
  by_cases hr : key.length - 12 * ((key.length - 1) / 12) = 0
  · simp only [hr, if_true]
    exact (result_eq _).symm
  · simp only [hr, if_false]
    have hn : 12 * ((key.length - 1) / 12) ≤ key.length - 1 := Nat.mul_div_le ..
    have hlt : key.length - 12 * ((key.length - 1) / 12) ≤ 12 := by
      have := Nat.lt_mul_div_succ (key.length - 1) (show 0 < 12 by omega)
      omega
    generalize Lookup3.specLoop ((key.length - 1) / 12) (Lookup3.start key.length) key = s
    obtain ⟨a, b, c⟩ := s
    rw [show toL3 (a, b, c) = [a, b, c] from rfl, tail_eq _ (by omega) hlt, final_eq']
    exact (result_eq _).symm

end UsualProofs.C16.L3Pub
