import UsualProofs.C07.Order
import UsualProofs.C07.Height
/-! C07: the side-effecting code (`count`, release log) against the pure tree functions,
    walks, and the invariant of every reachable state. -/
set_option linter.unusedSimpArgs false
set_option linter.unusedVariables false
set_option linter.unusedSectionVars false
namespace UsualProofs.C07
open Usual.C07 Usual.C07.T

variable {α : Type}

/-! ### projections of the effectful functions -/

theorem insertSub_fst (cmp : α → α → Ordering) (t : T α) (k : α) (c : Int) :
    (insertSub cmp t k c).1 = ins cmp t k := by
  induction t with
  | nil => rfl
  | node l x v r ihl ihr =>
    unfold insertSub ins
    cases cmp k x <;> simp [ihl, ihr]

/-- `tree->count++` happens exactly when the search for the key fails -/
theorem insertSub_snd (cmp : α → α → Ordering) (t : T α) (k : α) (c : Int) :
    (insertSub cmp t k c).2 = if (search cmp t k).isNone then c + 1 else c := by
  induction t with
  | nil => rfl
  | node l x v r ihl ihr =>
    unfold insertSub search
    cases cmp k x <;> simp [ihl, ihr]

theorem removeSub_fst (cmp : α → α → Ordering) (t : T α) (k : α) (e : Eff α) :
    (removeSub cmp t k e).1 = del cmp t k := by
  induction t with
  | nil => rfl
  | node l x v r ihl ihr =>
    unfold removeSub del
    cases cmp k x <;> simp [ihl, ihr, dropThisNode]

/-- `release_cb(old); count--` happens exactly once, for the node the search finds -/
theorem removeSub_snd (cmp : α → α → Ordering) (t : T α) (k : α) (e : Eff α) :
    (removeSub cmp t k e).2 =
      match search cmp t k with
      | none => e
      | some x => { count := e.count - 1, log := e.log ++ [x] } := by
  induction t with
  | nil => rfl
  | node l x v r ihl ihr =>
    unfold removeSub search
    cases cmp k x <;> simp [ihl, ihr, dropThisNode]

/-! ### size -/

theorem size_eq_length (t : T α) : size t = (toList t).length := by
  induction t with
  | nil => rfl
  | node l k v r ihl ihr => simp only [size, toList, List.length_append, List.length_cons, ihl, ihr]; omega

/-! ### walks -/

theorem walk_inOrder (t : T α) : walkSub t .inOrder = toList t := by
  induction t with
  | nil => rfl
  | node l k v r ihl ihr => simp only [walkSub, toList, ihl, ihr]

theorem walk_preOrder_perm (t : T α) : List.Perm (walkSub t .preOrder) (toList t) := by
  induction t with
  | nil => exact List.Perm.refl _
  | node l k v r ihl ihr =>
    simp only [walkSub, toList]
    exact (List.Perm.cons k (List.Perm.append ihl ihr)).trans List.perm_middle.symm

theorem walk_postOrder_perm (t : T α) : List.Perm (walkSub t .postOrder) (toList t) := by
  induction t with
  | nil => exact List.Perm.refl _
  | node l k v r ihl ihr =>
    simp only [walkSub, toList]
    refine List.Perm.append ihl ?_
    refine (List.perm_append_comm).trans ?_
    exact List.Perm.cons k ihr

/-! ### invariant of reachable states -/

/-- what holds of `struct AATree` after every operation -/
structure Inv (cmp : α → α → Ordering) (s : State α) : Prop where
  sorted : Sorted cmp (toList s.root)
  aa : aa s.root = true
  count : s.count = (size s.root : Int)

/-- run a history from an arbitrary state -/
def runFrom (cmp : α → α → Ordering) (s : State α) (ops : List (Op α)) : State α :=
  ops.foldl (fun s o => (step cmp s o).1) s

theorem run_eq (cmp : α → α → Ordering) (ops : List (Op α)) : run cmp ops = runFrom cmp init ops := rfl

theorem runFrom_cons (cmp : α → α → Ordering) (s : State α) (o : Op α) (ops : List (Op α)) :
    runFrom cmp s (o :: ops) = runFrom cmp (step cmp s o).1 ops := rfl

theorem runFrom_append (cmp : α → α → Ordering) (s : State α) (a b : List (Op α)) :
    runFrom cmp s (a ++ b) = runFrom cmp (runFrom cmp s a) b := by
  simp [runFrom, List.foldl_append]

theorem inv_init (cmp : α → α → Ordering) : Inv cmp (init : State α) :=
  ⟨by simp [init, toList, Sorted], rfl, rfl⟩

section cmp
variable {cmp : α → α → Ordering} (hc : Consistent cmp)
include hc

theorem sorted_nodup (l : List α) (hs : Sorted cmp l) : l.Nodup := by
  unfold Sorted at hs
  exact List.Pairwise.imp (fun h => cmp_ne_of_lt hc h) hs

/-- `search` in terms of membership, for reachable trees -/
theorem search_isNone_iff (t : T α) (k : α) (hs : Sorted cmp (toList t)) :
    (search cmp t k).isNone = true ↔ k ∉ toList t := by
  have ⟨h1, h2⟩ := search_spec hc t k hs
  constructor
  · intro h hm; rw [h1 hm] at h; simp at h
  · intro hm; rw [h2 hm]; rfl

/-- in-order key list after one operation = reference operation on the in-order list -/
theorem toList_step (s : State α) (o : Op α) (hi : Inv cmp s) :
    toList (step cmp s o).1.root = refStep cmp (toList s.root) o := by
  cases o with
  | ins k => simp only [step, refStep, insertSub_fst]; exact toList_ins hc s.root k hi.sorted
  | rem k => simp only [step, refStep, removeSub_fst]; exact toList_del hc s.root k hi.sorted
  | find k => rfl
  | walk w => rfl
  | destroy => rfl
  | count => rfl

theorem inv_step (s : State α) (o : Op α) (hi : Inv cmp s) : Inv cmp (step cmp s o).1 := by
  have htl := toList_step hc s o hi
  cases o with
  | ins k =>
    refine ⟨?_, ?_, ?_⟩
    · rw [htl]; exact sorted_specInsert hc k _ hi.sorted
    · simp only [step, insertSub_fst]; exact (aa_ins cmp s.root k hi.aa).1
    · simp only [step, insertSub_fst, insertSub_snd]
      have hl : toList (ins cmp s.root k) = specInsert cmp k (toList s.root) :=
        toList_ins hc s.root k hi.sorted
      rw [size_eq_length, hl, hi.count, size_eq_length]
      by_cases hm : k ∈ toList s.root
      · have : (search cmp s.root k).isNone = false := by
          rw [(search_spec hc s.root k hi.sorted).1 hm]; rfl
        rw [this, specInsert_of_mem hc k _ hi.sorted hm]; simp
      · have : (search cmp s.root k).isNone = true := (search_isNone_iff hc s.root k hi.sorted).mpr hm
        rw [this, length_specInsert_of_not_mem hc k _ hm]; simp
  | rem k =>
    refine ⟨?_, ?_, ?_⟩
    · rw [htl]; exact sorted_specErase hc k _ hi.sorted
    · simp only [step, removeSub_fst]; exact aa_del cmp s.root k hi.aa
    · simp only [step, removeSub_fst, removeSub_snd]
      have hl : toList (del cmp s.root k) = specErase cmp k (toList s.root) :=
        toList_del hc s.root k hi.sorted
      rw [size_eq_length, hl, hi.count, size_eq_length]
      by_cases hm : k ∈ toList s.root
      · rw [(search_spec hc s.root k hi.sorted).1 hm]
        have := length_specErase_of_mem hc k _ hi.sorted hm
        simp only; omega
      · rw [(search_spec hc s.root k hi.sorted).2 hm, specErase_of_not_mem hc k _ hm]
  | find k => exact hi
  | walk w => exact hi
  | destroy => exact ⟨by simp [step, toList, Sorted], rfl, rfl⟩
  | count => exact hi

theorem inv_runFrom (s : State α) (ops : List (Op α)) (hi : Inv cmp s) : Inv cmp (runFrom cmp s ops) := by
  induction ops generalizing s with
  | nil => exact hi
  | cons o ops ih => rw [runFrom_cons]; exact ih _ (inv_step hc s o hi)

theorem inv_run (ops : List (Op α)) : Inv cmp (run cmp ops) :=
  inv_runFrom hc init ops (inv_init cmp)

theorem toList_runFrom (s : State α) (ops : List (Op α)) (hi : Inv cmp s) :
    toList (runFrom cmp s ops).root = ops.foldl (refStep cmp) (toList s.root) := by
  induction ops generalizing s with
  | nil => rfl
  | cons o ops ih =>
    rw [runFrom_cons, ih _ (inv_step hc s o hi), toList_step hc s o hi]; rfl

theorem toList_run (ops : List (Op α)) : toList (run cmp ops).root = refKeys cmp ops :=
  toList_runFrom hc init ops (inv_init cmp)

/-! ### no-op operations leave the whole header unchanged -/

theorem ins_of_mem (t : T α) (k : α) (hs : Sorted cmp (toList t)) (ha : aa t = true)
    (hm : k ∈ toList t) : ins cmp t k = t := by
  induction t with
  | nil => simp [toList] at hm
  | node l x v r ihl ihr =>
    have hs' := hs
    unfold Sorted at hs'
    simp only [toList, List.pairwise_append, List.pairwise_cons] at hs'
    obtain ⟨sl, ⟨hxr, sr⟩, hlr⟩ := hs'
    obtain ⟨hl, hr, _, _, _⟩ := (aa_node l r x v).mp ha
    have hsearch := (search_spec hc (node l x v r) k hs).1 hm
    unfold search at hsearch
    unfold ins
    cases h : cmp k x
    · -- k < x
      simp only [h] at hsearch ⊢
      have hml : k ∈ toList l := by
        apply Classical.byContradiction; intro hn
        rw [(search_spec hc l k sl).2 hn] at hsearch; cases hsearch
      rw [ihl sl hl hml]
      unfold rebalInsert
      rw [skew_of_aa _ ha, split_of_aa _ ha]
    · simp only [h]
    · simp only [h] at hsearch ⊢
      have hmr : k ∈ toList r := by
        apply Classical.byContradiction; intro hn
        rw [(search_spec hc r k sr).2 hn] at hsearch; cases hsearch
      rw [ihr sr hr hmr]
      unfold rebalInsert
      rw [skew_of_aa _ ha, split_of_aa _ ha]

theorem del_of_not_mem (t : T α) (k : α) (hs : Sorted cmp (toList t)) (ha : aa t = true)
    (hm : k ∉ toList t) : del cmp t k = t := by
  induction t with
  | nil => rfl
  | node l x v r ihl ihr =>
    have hs' := hs
    unfold Sorted at hs'
    simp only [toList, List.pairwise_append, List.pairwise_cons] at hs'
    obtain ⟨sl, ⟨hxr, sr⟩, hlr⟩ := hs'
    obtain ⟨hl, hr, _, _, _⟩ := (aa_node l r x v).mp ha
    simp only [toList, List.mem_append, List.mem_cons, not_or] at hm
    obtain ⟨hml, hmx, hmr⟩ := hm
    unfold del
    cases h : cmp k x
    · simp only; rw [ihl sl hl hml]; exact rebal_of_aa _ ha
    · exact absurd ((hc.eq_iff k x).mp h) hmx
    · simp only; rw [ihr sr hr hmr]; exact rebal_of_aa _ ha

end cmp

/-! ### the release callback: every linked node is either still in the tree or was released once -/

section release
variable {cmp : α → α → Ordering} (hc : Consistent cmp)
include hc

theorem present_iff (k : α) (l : List α) : present cmp k l = true ↔ k ∈ l := by
  unfold present
  rw [List.any_eq_true]
  constructor
  · rintro ⟨x, hx, he⟩
    have : cmp k x = .eq := by simpa using he
    rw [(hc.eq_iff k x).mp this]; exact hx
  · intro h; exact ⟨k, h, by rw [cmp_self hc k]; rfl⟩

theorem perm_specInsert_of_not_mem (k : α) (l : List α) (hm : k ∉ l) :
    List.Perm (specInsert cmp k l) (k :: l) := by
  induction l with
  | nil => exact List.Perm.refl _
  | cons a l ih =>
    simp only [List.mem_cons, not_or] at hm
    simp only [specInsert]
    cases hka : cmp k a
    · exact List.Perm.refl _
    · exact absurd ((hc.eq_iff k a).mp hka) hm.1
    · exact (List.Perm.cons a (ih hm.2)).trans (List.Perm.swap k a l)

theorem perm_specErase_of_mem (k : α) (l : List α) (hs : Sorted cmp l) (hm : k ∈ l) :
    List.Perm (k :: specErase cmp k l) l := by
  obtain ⟨a, b, rfl⟩ := List.append_of_mem hm
  rw [specErase_append_eq hc k k a b hs (cmp_self hc k)]
  exact List.perm_middle.symm

/-- what one operation appends to the release log -/
theorem log_step (s : State α) (o : Op α) (hi : Inv cmp s) :
    (step cmp s o).1.log = s.log ++
      (match o with
       | .rem k => if present cmp k (toList s.root) then [k] else []
       | .destroy => walkSub s.root .postOrder
       | _ => []) := by
  cases o with
  | ins k => simp [step]
  | rem k =>
    simp only [step, removeSub_snd]
    by_cases hm : k ∈ toList s.root
    · rw [(search_spec hc s.root k hi.sorted).1 hm, (present_iff hc k _).mpr hm]; rfl
    · have : present cmp k (toList s.root) = false := by
        cases h : present cmp k (toList s.root)
        · rfl
        · exact absurd ((present_iff hc k _).mp h) hm
      rw [(search_spec hc s.root k hi.sorted).2 hm, this]; simp
  | find k => simp [step]
  | walk w => simp [step]
  | destroy => rfl
  | count => simp [step]

theorem release_step_perm (s : State α) (o : Op α) (hi : Inv cmp s) :
    List.Perm ((step cmp s o).1.log ++ toList (step cmp s o).1.root)
      (s.log ++ toList s.root ++ linkedStep cmp (toList s.root) o) := by
  rw [log_step hc s o hi, toList_step hc s o hi]
  cases o with
  | ins k =>
    simp only [refStep, linkedStep, List.append_nil]
    by_cases hm : k ∈ toList s.root
    · rw [(present_iff hc k _).mpr hm, specInsert_of_mem hc k _ hi.sorted hm]; simp
    · have : present cmp k (toList s.root) = false := by
        cases h : present cmp k (toList s.root)
        · rfl
        · exact absurd ((present_iff hc k _).mp h) hm
      rw [this]
      simp only [Bool.false_eq_true, if_false, List.append_assoc]
      refine List.Perm.append_left _ ?_
      exact (perm_specInsert_of_not_mem hc k _ hm).trans (List.perm_append_singleton k _).symm
  | rem k =>
    simp only [refStep, linkedStep, List.append_nil]
    by_cases hm : k ∈ toList s.root
    · rw [(present_iff hc k _).mpr hm]
      simp only [if_true, List.append_assoc]
      refine List.Perm.append_left _ ?_
      exact perm_specErase_of_mem hc k _ hi.sorted hm
    · have : present cmp k (toList s.root) = false := by
        cases h : present cmp k (toList s.root)
        · rfl
        · exact absurd ((present_iff hc k _).mp h) hm
      rw [this, specErase_of_not_mem hc k _ hm]; simp
  | find k => simp [refStep, linkedStep]
  | walk w => simp [refStep, linkedStep]
  | destroy =>
    simp only [refStep, linkedStep, List.append_nil]
    exact List.Perm.append_left _ (walk_postOrder_perm s.root)
  | count => simp [refStep, linkedStep]

theorem release_runFrom (s : State α) (ops : List (Op α)) (hi : Inv cmp s) :
    List.Perm ((runFrom cmp s ops).log ++ toList (runFrom cmp s ops).root)
      (s.log ++ toList s.root ++ linkedFrom cmp (toList s.root) ops) := by
  induction ops generalizing s with
  | nil => simp [runFrom, linkedFrom]
  | cons o ops ih =>
    rw [runFrom_cons]
    refine (ih _ (inv_step hc s o hi)).trans ?_
    rw [toList_step hc s o hi]
    simp only [linkedFrom]
    rw [← toList_step hc s o hi, ← List.append_assoc]
    exact List.Perm.append_right _ (release_step_perm hc s o hi)

end release

end UsualProofs.C07
