import UsualProofs.C07.Insert
/-! C07: the AA level rules bound the height: `height t ≤ 2 * log2 (size t + 1)`. -/
set_option linter.unusedSimpArgs false
set_option linter.unusedVariables false
namespace UsualProofs.C07
open Usual.C07 Usual.C07.T

variable {α : Type}

/-- a tree of level v has at least 2^v - 1 nodes -/
theorem size_ge (t : T α) (h : aa t = true) : 2 ^ lvl t ≤ size t + 1 := by
  induction t with
  | nil => simp [size]
  | node l k v r ihl ihr =>
    obtain ⟨hl, hr, e1, e2, e3⟩ := (aa_node l r k v).mp h
    have h1 := ihl hl
    have h2 := ihr hr
    simp only [lvl_node, size]
    have hv : v = lvl l + 1 := by omega
    rw [hv, Nat.pow_succ]
    rcases e2 with e2 | e2
    · -- right child on the same level: it alone already has 2^v - 1 nodes … use its own children
      have : 2 ^ lvl l ≤ 2 ^ lvl r := Nat.pow_le_pow_right (by omega) (by omega)
      omega
    · have : lvl r = lvl l := by omega
      rw [this] at h2; omega

/-- height is at most twice the level (red links at most double a path), stated with the
    sharper "+ 1 only if the root has a red right child" form needed for the induction -/
theorem height_le (t : T α) (h : aa t = true) :
    height t ≤ 2 * lvl t ∧ (lvl (right t) < lvl t → height t + 1 ≤ 2 * lvl t ∨ t = nil) := by
  induction t with
  | nil => simp [height]
  | node l k v r ihl ihr =>
    obtain ⟨hl, hr, e1, e2, e3⟩ := (aa_node l r k v).mp h
    obtain ⟨a1, _⟩ := ihl hl
    obtain ⟨b1, b2⟩ := ihr hr
    simp only [height, lvl_node, right_node]
    constructor
    · rcases e2 with e2 | e2
      · -- red right child: it has no red right child itself, so its height is ≤ 2v - 1
        have hb := b2 (by omega)
        rcases hb with hb | hb
        · omega
        · subst hb; simp [height] at *; omega
      · omega
    · intro hlt
      left
      have : lvl r + 1 = v := by omega
      omega

theorem height_le_two_log (t : T α) (h : aa t = true) : height t ≤ 2 * Nat.log2 (size t + 1) := by
  have h1 := (height_le t h).1
  have h2 := size_ge t h
  have : lvl t ≤ Nat.log2 (size t + 1) := by
    rw [Nat.le_log2 (by omega)]; exact h2
  omega


end UsualProofs.C07
