import UsualProofs.C07.Remove
/-! C07: search-tree / ordered-set semantics for an abstract consistent comparator.
    The in-order key list of `ins`/`del` equals `specInsert`/`specErase` of the in-order list. -/
set_option linter.unusedSimpArgs false
set_option linter.unusedVariables false
set_option linter.unusedSectionVars false
namespace UsualProofs.C07
open Usual.C07 Usual.C07.T

variable {α : Type}

/-- strictly ascending w.r.t. the comparator -/
def Sorted (cmp : α → α → Ordering) (l : List α) : Prop := l.Pairwise (fun a b => cmp a b = .lt)

section cmp
variable {cmp : α → α → Ordering} (hc : Consistent cmp)
include hc

theorem cmp_self (a : α) : cmp a a = .eq := (hc.eq_iff a a).mpr rfl

theorem cmp_lt_irrefl (a : α) : cmp a a ≠ .lt := by rw [cmp_self hc a]; decide

theorem cmp_gt_of_lt {a b : α} (h : cmp a b = .lt) : cmp b a = .gt := (hc.gt_iff b a).mpr h

theorem cmp_lt_of_gt {a b : α} (h : cmp a b = .gt) : cmp b a = .lt := (hc.gt_iff a b).mp h

theorem cmp_ne_of_lt {a b : α} (h : cmp a b = .lt) : a ≠ b := by
  intro e; subst e; exact cmp_lt_irrefl hc a h

/-! ### the reference operations on a strictly ascending list -/

theorem specInsert_append_lt (k x : α) (l r : List α) (h : cmp k x = .lt) :
    specInsert cmp k (l ++ x :: r) = specInsert cmp k l ++ x :: r := by
  induction l with
  | nil => simp [specInsert, h]
  | cons a l ih =>
    simp only [List.cons_append, specInsert]
    cases hka : cmp k a <;> simp [ih]

theorem specInsert_append_gt (k x : α) (l r : List α) (hs : Sorted cmp (l ++ x :: r))
    (h : cmp k x = .gt) : specInsert cmp k (l ++ x :: r) = l ++ x :: specInsert cmp k r := by
  induction l with
  | nil => simp [specInsert, h]
  | cons a l ih =>
    unfold Sorted at hs
    simp only [List.cons_append, List.pairwise_cons] at hs
    obtain ⟨h1, h2⟩ := hs
    have hax : cmp a x = .lt := h1 x (by simp)
    have hak : cmp a k = .lt := hc.lt_trans a x k hax (cmp_lt_of_gt hc h)
    have hka : cmp k a = .gt := cmp_gt_of_lt hc hak
    simp only [List.cons_append, specInsert, hka]
    rw [ih h2]

theorem specInsert_append_eq (k x : α) (l r : List α) (hs : Sorted cmp (l ++ x :: r))
    (h : cmp k x = .eq) : specInsert cmp k (l ++ x :: r) = l ++ x :: r := by
  induction l with
  | nil => simp [specInsert, h]
  | cons a l ih =>
    unfold Sorted at hs
    simp only [List.cons_append, List.pairwise_cons] at hs
    obtain ⟨h1, h2⟩ := hs
    have hkx : k = x := (hc.eq_iff k x).mp h
    have hax : cmp a x = .lt := h1 x (by simp)
    have hka : cmp k a = .gt := by rw [hkx]; exact cmp_gt_of_lt hc hax
    simp only [List.cons_append, specInsert, hka]
    rw [ih h2]

theorem specErase_append_lt (k x : α) (l r : List α) (h : cmp k x = .lt) :
    specErase cmp k (l ++ x :: r) = specErase cmp k l ++ x :: r := by
  induction l with
  | nil => simp [specErase, h]
  | cons a l ih =>
    simp only [List.cons_append, specErase]
    cases hka : cmp k a <;> simp [ih]

theorem specErase_append_gt (k x : α) (l r : List α) (hs : Sorted cmp (l ++ x :: r))
    (h : cmp k x = .gt) : specErase cmp k (l ++ x :: r) = l ++ x :: specErase cmp k r := by
  induction l with
  | nil => simp [specErase, h]
  | cons a l ih =>
    unfold Sorted at hs
    simp only [List.cons_append, List.pairwise_cons] at hs
    obtain ⟨h1, h2⟩ := hs
    have hax : cmp a x = .lt := h1 x (by simp)
    have hak : cmp a k = .lt := hc.lt_trans a x k hax (cmp_lt_of_gt hc h)
    have hka : cmp k a = .gt := cmp_gt_of_lt hc hak
    simp only [List.cons_append, specErase, hka]
    rw [ih h2]

theorem specErase_append_eq (k x : α) (l r : List α) (hs : Sorted cmp (l ++ x :: r))
    (h : cmp k x = .eq) : specErase cmp k (l ++ x :: r) = l ++ r := by
  induction l with
  | nil => simp [specErase, h]
  | cons a l ih =>
    unfold Sorted at hs
    simp only [List.cons_append, List.pairwise_cons] at hs
    obtain ⟨h1, h2⟩ := hs
    have hkx : k = x := (hc.eq_iff k x).mp h
    have hax : cmp a x = .lt := h1 x (by simp)
    have hka : cmp k a = .gt := by rw [hkx]; exact cmp_gt_of_lt hc hax
    simp only [List.cons_append, specErase, hka]
    rw [ih h2]

theorem mem_specInsert (k : α) (l : List α) (y : α) :
    y ∈ specInsert cmp k l ↔ y = k ∨ y ∈ l := by
  induction l with
  | nil => simp [specInsert]
  | cons a l ih =>
    simp only [specInsert]
    cases hka : cmp k a
    · simp
    · have : k = a := (hc.eq_iff k a).mp hka
      subst this; simp
    · simp only [List.mem_cons, ih]
      constructor
      · rintro (h | h | h) <;> simp [h]
      · rintro (h | h | h) <;> simp [h]

theorem mem_specErase (k : α) (l : List α) (hs : Sorted cmp l) (y : α) :
    y ∈ specErase cmp k l ↔ y ≠ k ∧ y ∈ l := by
  induction l with
  | nil => simp [specErase]
  | cons a l ih =>
    unfold Sorted at hs
    rw [List.pairwise_cons] at hs
    obtain ⟨h1, h2⟩ := hs
    simp only [specErase]
    cases hka : cmp k a
    · -- k < a: k is below everything
      simp only [List.mem_cons]
      constructor
      · rintro (h | h)
        · subst h; exact ⟨fun e => cmp_ne_of_lt hc hka e.symm, Or.inl rfl⟩
        · have hay := h1 y h
          have := hc.lt_trans k a y hka hay
          exact ⟨fun e => cmp_ne_of_lt hc this e.symm, Or.inr h⟩
      · rintro ⟨_, h⟩; exact h
    · have hk : k = a := (hc.eq_iff k a).mp hka
      subst hk
      simp only [List.mem_cons]
      constructor
      · intro h; exact ⟨fun e => cmp_ne_of_lt hc (h1 y h) e.symm, Or.inr h⟩
      · rintro ⟨hne, h | h⟩
        · exact absurd h hne
        · exact h
    · simp only [List.mem_cons, ih h2]
      have hne : a ≠ k := fun e => by subst e; rw [cmp_self hc] at hka; cases hka
      constructor
      · rintro (h | ⟨h, h'⟩)
        · subst h; exact ⟨hne, Or.inl rfl⟩
        · exact ⟨h, Or.inr h'⟩
      · rintro ⟨h, h' | h'⟩
        · exact Or.inl h'
        · exact Or.inr ⟨h, h'⟩

theorem sorted_specInsert (k : α) (l : List α) (hs : Sorted cmp l) : Sorted cmp (specInsert cmp k l) := by
  induction l with
  | nil => simp [specInsert, Sorted]
  | cons a l ih =>
    unfold Sorted at hs ⊢
    rw [List.pairwise_cons] at hs
    obtain ⟨h1, h2⟩ := hs
    simp only [specInsert]
    cases hka : cmp k a
    · refine List.pairwise_cons.mpr ⟨?_, List.pairwise_cons.mpr ⟨h1, h2⟩⟩
      intro y hy
      rcases List.mem_cons.mp hy with h | h
      · subst h; exact hka
      · exact hc.lt_trans k a y hka (h1 y h)
    · exact List.pairwise_cons.mpr ⟨h1, h2⟩
    · refine List.pairwise_cons.mpr ⟨?_, ih h2⟩
      intro y hy
      rcases (mem_specInsert hc k l y).mp hy with h | h
      · subst h; exact cmp_lt_of_gt hc hka
      · exact h1 y h

theorem specErase_sublist (k : α) (l : List α) : List.Sublist (specErase cmp k l) l := by
  induction l with
  | nil => simp [specErase]
  | cons a l ih =>
    simp only [specErase]
    cases cmp k a
    · exact List.Sublist.refl _
    · exact List.sublist_cons_self a l
    · exact List.Sublist.cons_cons a ih

theorem sorted_specErase (k : α) (l : List α) (hs : Sorted cmp l) : Sorted cmp (specErase cmp k l) :=
  List.Pairwise.sublist (specErase_sublist hc k l) hs

/-- inserting a present key into the reference changes nothing -/
theorem specInsert_of_mem (k : α) (l : List α) (hs : Sorted cmp l) (hm : k ∈ l) :
    specInsert cmp k l = l := by
  obtain ⟨a, b, rfl⟩ := List.append_of_mem hm
  exact specInsert_append_eq hc k k a b hs (cmp_self hc k)

/-- erasing an absent key from the reference changes nothing -/
theorem specErase_of_not_mem (k : α) (l : List α) (hm : k ∉ l) : specErase cmp k l = l := by
  induction l with
  | nil => simp [specErase]
  | cons a l ih =>
    simp only [List.mem_cons, not_or] at hm
    simp only [specErase]
    cases hka : cmp k a
    · rfl
    · exact absurd ((hc.eq_iff k a).mp hka) hm.1
    · rw [ih hm.2]

theorem length_specInsert_of_not_mem (k : α) (l : List α) (hm : k ∉ l) :
    (specInsert cmp k l).length = l.length + 1 := by
  induction l with
  | nil => simp [specInsert]
  | cons a l ih =>
    simp only [List.mem_cons, not_or] at hm
    simp only [specInsert]
    cases hka : cmp k a
    · simp
    · exact absurd ((hc.eq_iff k a).mp hka) hm.1
    · simp [ih hm.2]

theorem length_specErase_of_mem (k : α) (l : List α) (hs : Sorted cmp l) (hm : k ∈ l) :
    (specErase cmp k l).length + 1 = l.length := by
  obtain ⟨a, b, rfl⟩ := List.append_of_mem hm
  rw [specErase_append_eq hc k k a b hs (cmp_self hc k)]
  simp only [List.length_append, List.length_cons]; omega

end cmp

/-! ### rotations do not touch the in-order sequence -/

theorem toList_setLvl (t : T α) (v : Nat) : toList (setLvl t v) = toList t := by
  cases t <;> rfl

theorem toList_setRight (t r' : T α) (h : toList r' = toList (right t)) :
    toList (setRight t r') = toList t := by
  cases t with
  | nil => rfl
  | node l k v r => simp only [setRight_node, toList, right_node] at h ⊢; rw [h]

theorem toList_rebalInsert (t : T α) : toList (rebalInsert t) = toList t := by
  unfold rebalInsert; rw [toList_split, toList_skew]

theorem toList_rebalRemove (t : T α) : toList (rebalRemove t) = toList t := by
  cases t with
  | nil => rfl
  | node l k v r =>
    by_cases hg : lvl l + 1 < v ∨ lvl r + 1 < v
    · rw [rebal_gap l r k v hg]
      have h1 : toList (skew (node l k (v - 1) (if lvl r > v - 1 then setLvl r (v - 1) else r)))
          = toList (node l k v r) := by
        rw [toList_skew]
        by_cases h : lvl r > v - 1
        · simp only [h, if_true, toList, toList_setLvl]
        · simp only [h, if_false, toList]
      simp only
      rw [toList_setRight _ _ (by rw [toList_split]), toList_split,
          toList_setRight _ _ (by rw [toList_setRight _ _ (by rw [toList_skew])]),
          toList_setRight _ _ (by rw [toList_skew]), h1]
    · rw [rebal_nogap l r k v hg]

/-! ### steal_leftmost / drop_this_node -/

theorem toList_steal (l : T α) (k : α) (v : Nat) (r : T α) :
    toList (node l k v r) = (stealLeftmost l k v r).2 :: toList (stealLeftmost l k v r).1 := by
  induction l generalizing k v r with
  | nil => simp [stealLeftmost, toList]
  | node a b c d iha _ =>
    simp only [stealLeftmost, toList_rebalRemove]
    have := iha b c d
    simp only [toList] at this ⊢
    rw [this]; simp

theorem toList_dropThis (l : T α) (x : α) (v : Nat) (r : T α) :
    toList (dropThis (node l x v r)) = toList l ++ toList r := by
  cases l with
  | nil => simp [dropThis, toList]
  | node a b c d =>
    cases r with
    | nil => simp [dropThis, toList]
    | node ra rk rv rb =>
      simp only [dropThis]
      have := toList_steal ra rk rv rb
      simp only [toList] at this ⊢
      rw [this]

/-! ### the tree operations refine the reference operations -/

section cmp2
variable {cmp : α → α → Ordering} (hc : Consistent cmp)
include hc

theorem toList_ins (t : T α) (k : α) (hs : Sorted cmp (toList t)) :
    toList (ins cmp t k) = specInsert cmp k (toList t) := by
  induction t with
  | nil => simp [ins, toList, specInsert]
  | node l x v r ihl ihr =>
    have hs' := hs
    unfold Sorted at hs'
    simp only [toList, List.pairwise_append, List.pairwise_cons] at hs'
    obtain ⟨sl, ⟨_, sr⟩, _⟩ := hs'
    unfold ins
    split
    · next h =>
      rw [toList_rebalInsert]
      simp only [toList]
      rw [ihr sr, specInsert_append_gt hc k x _ _ hs h]
    · next h =>
      rw [toList_rebalInsert]
      simp only [toList]
      rw [ihl sl, specInsert_append_lt hc k x _ _ h]
    · next h =>
      simp only [toList]
      rw [specInsert_append_eq hc k x _ _ hs h]

theorem toList_del (t : T α) (k : α) (hs : Sorted cmp (toList t)) :
    toList (del cmp t k) = specErase cmp k (toList t) := by
  induction t with
  | nil => simp [del, toList, specErase]
  | node l x v r ihl ihr =>
    have hs' := hs
    unfold Sorted at hs'
    simp only [toList, List.pairwise_append, List.pairwise_cons] at hs'
    obtain ⟨sl, ⟨_, sr⟩, _⟩ := hs'
    unfold del
    split
    · next h =>
      rw [toList_rebalRemove]
      simp only [toList]
      rw [ihr sr, specErase_append_gt hc k x _ _ hs h]
    · next h =>
      rw [toList_rebalRemove]
      simp only [toList]
      rw [ihl sl, specErase_append_lt hc k x _ _ h]
    · next h =>
      rw [toList_rebalRemove, toList_dropThis]
      simp only [toList]
      rw [specErase_append_eq hc k x _ _ hs h]

/-- `aatree_search` decides membership and returns the node with that key -/
theorem search_spec (t : T α) (k : α) (hs : Sorted cmp (toList t)) :
    (k ∈ toList t → search cmp t k = some k) ∧ (k ∉ toList t → search cmp t k = none) := by
  induction t with
  | nil => simp [search, toList]
  | node l x v r ihl ihr =>
    have hs' := hs
    unfold Sorted at hs'
    simp only [toList, List.pairwise_append, List.pairwise_cons] at hs'
    obtain ⟨sl, ⟨hxr, sr⟩, hlr⟩ := hs'
    have il := ihl sl
    have ir := ihr sr
    simp only [toList, List.mem_append, List.mem_cons, search]
    cases h : cmp k x
    · -- k < x: k is neither x nor in r
      have hnx : k ≠ x := cmp_ne_of_lt hc h
      have hnr : k ∉ toList r := fun hm => by
        have := hc.lt_trans k x k h (hxr k hm)
        exact cmp_lt_irrefl hc k this
      constructor
      · rintro (hm | hm | hm)
        · exact il.1 hm
        · exact absurd hm hnx
        · exact absurd hm hnr
      · intro hm; exact il.2 (fun h' => hm (Or.inl h'))
    · have hk : k = x := (hc.eq_iff k x).mp h
      subst hk
      exact ⟨fun _ => rfl, fun hm => absurd (Or.inr (Or.inl rfl)) hm⟩
    · have hxk := cmp_lt_of_gt hc h
      have hnx : k ≠ x := fun e => cmp_ne_of_lt hc hxk e.symm
      have hnl : k ∉ toList l := fun hm => by
        have := hlr k hm x (by simp)
        exact cmp_lt_irrefl hc k (hc.lt_trans k x k this hxk)
      constructor
      · rintro (hm | hm | hm)
        · exact absurd hm hnl
        · exact absurd hm hnx
        · exact ir.1 hm
      · intro hm; exact ir.2 (fun h' => hm (Or.inr (Or.inr h')))

end cmp2

end UsualProofs.C07
