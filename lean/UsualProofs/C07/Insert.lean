import Usual.C07.AATree
/-! C07: `aatree_insert` keeps the AA level rules (ported from probes/lean/AA.lean). -/
set_option linter.unusedSimpArgs false
set_option linter.unusedVariables false
namespace UsualProofs.C07
open Usual.C07 Usual.C07.T

variable {α : Type}

theorem lvl_skew (t : T α) : lvl (skew t) = lvl t := by
  unfold skew
  split
  · split <;> simp_all [lvl]
  · rfl

theorem toList_skew (t : T α) : toList (skew t) = toList t := by
  unfold skew
  split
  · split <;> simp [toList, List.append_assoc]
  · rfl

theorem toList_split (t : T α) : toList (split t) = toList t := by
  unfold split
  split
  · split <;> simp [toList, List.append_assoc]
  · rfl

/-- no horizontal right link at the root -/
def sngl (t : T α) : Bool := lvl (right t) < lvl t

@[simp] theorem lvl_nil : lvl (nil : T α) = 0 := rfl
@[simp] theorem lvl_node (l r : T α) (k : α) (v : Nat) : lvl (node l k v r) = v := rfl
@[simp] theorem right_nil : right (nil : T α) = nil := rfl
@[simp] theorem right_node (l r : T α) (k : α) (v : Nat) : right (node l k v r) = r := rfl
@[simp] theorem aa_nil : aa (nil : T α) = true := rfl

/-- unfolded form of the level rules, convenient for omega -/
theorem aa_node (l r : T α) (k : α) (v : Nat) :
    aa (node l k v r) = true ↔
      aa l = true ∧ aa r = true ∧ lvl l + 1 = v ∧ (lvl r = v ∨ lvl r + 1 = v) ∧ lvl (right r) < v := by
  simp [aa, and_assoc]

theorem sngl_node (l r : T α) (k : α) (v : Nat) : sngl (node l k v r) = true ↔ lvl r < v := by
  unfold sngl; rw [decide_eq_true_eq]; simp

theorem lvl_right_le (t : T α) (h : aa t = true) : lvl (right t) ≤ lvl t := by
  cases t with
  | nil => simp
  | node l k v r => have := (aa_node l r k v).mp h; simp; omega

/-- rebuilding after an insertion into the right subtree -/
theorem rebuild_right (l r' : T α) (x : α) (v : Nat) (hl : aa l = true) (hr' : aa r' = true)
    (hlv : lvl l + 1 = v) (hrv : lvl r' = v ∨ lvl r' + 1 = v) :
    aa (split (skew (node l x v r'))) = true ∧
    ((lvl r' = v ∧ lvl (right r') = v) →
        lvl (split (skew (node l x v r'))) = v + 1 ∧ sngl (split (skew (node l x v r'))) = true) ∧
    (¬ (lvl r' = v ∧ lvl (right r') = v) →
        lvl (split (skew (node l x v r'))) = v ∧
        (sngl (split (skew (node l x v r'))) = true ↔ lvl r' + 1 = v)) := by
  have hskew : skew (node l x v r') = node l x v r' := by
    cases l with
    | nil => rfl
    | node a ky ly b => simp [skew]; intro h; simp at hlv; omega
  rw [hskew]
  rcases r' with _ | ⟨b, ky, ly, rr⟩
  · simp only [split, aa_node, sngl_node, lvl_nil, lvl_node, right_nil, aa_nil, true_and, hl] at hrv ⊢
    omega
  · rcases rr with _ | ⟨c, kz, lz, d⟩
    · obtain ⟨hb1, _, e1, e2, e3⟩ := (aa_node b nil ky ly).mp hr'
      simp only [lvl_nil, lvl_node, right_nil, right_node] at e1 e2 e3 hrv
      simp only [split, aa_node, sngl_node, lvl_nil, lvl_node, right_nil, right_node, aa_nil, true_and, hl, hb1]
      omega
    · obtain ⟨hb1, hc1, e1, e2, e3⟩ := (aa_node b (node c kz lz d) ky ly).mp hr'
      obtain ⟨hc2, hd2, f1, f2, f3⟩ := (aa_node c d kz lz).mp hc1
      simp only [lvl_node, right_node] at e1 e2 e3 hrv
      have hb := lvl_right_le b hb1
      by_cases hsp : v = lz
      · subst hsp
        simp only [split, ↓reduceIte, aa_node, sngl_node, lvl_node, right_node, hl, hb1, hc2, hd2, true_and, and_true, true_or, or_true, true_imp_iff, not_true_eq_false, false_imp_iff]
        omega
      · simp only [split, hsp, ↓reduceIte, aa_node, sngl_node, lvl_node, right_node, hl, hb1, hc2, hd2, true_and, and_true, true_or, or_true, true_imp_iff, not_true_eq_false, false_imp_iff]
        omega

/-- rebuilding after an insertion into the left subtree -/
theorem rebuild_left (l' r : T α) (x : α) (v : Nat) (hl' : aa l' = true) (hr : aa r = true)
    (hlv : lvl l' + 1 = v ∨ (lvl l' = v ∧ sngl l' = true))
    (hrv : lvl r = v ∨ lvl r + 1 = v) (hrr : lvl (right r) < v) :
    aa (split (skew (node l' x v r))) = true ∧
    ((lvl l' = v ∧ lvl r = v) →
        lvl (split (skew (node l' x v r))) = v + 1 ∧ sngl (split (skew (node l' x v r))) = true) ∧
    (¬ (lvl l' = v ∧ lvl r = v) →
        lvl (split (skew (node l' x v r))) = v ∧
        (sngl (split (skew (node l' x v r))) = true → lvl r + 1 = v ∧ lvl l' + 1 = v)) := by
  have hrl := lvl_right_le r hr
  rcases l' with _ | ⟨a, ky, ly, b⟩
  · -- l' = nil: v = 1, nothing rotates
    simp only [lvl_nil, sngl, right_nil, Nat.lt_irrefl, decide_false, and_false, or_false] at hlv
    rcases r with _ | ⟨c, kz, lz, d⟩
    · simp only [skew, split, aa_node, sngl_node, lvl_nil, lvl_node, right_nil, aa_nil, true_and, and_true, true_or, or_true, true_imp_iff, not_true_eq_false, false_imp_iff] at hrv ⊢
      omega
    · obtain ⟨hc, hd, f1, f2, f3⟩ := (aa_node c d kz lz).mp hr
      simp only [lvl_node, right_node] at hrv hrr hrl
      rcases d with _ | ⟨da, dk, dl, db⟩
      · simp only [skew, split, aa_node, sngl_node, lvl_nil, lvl_node, right_nil, right_node, aa_nil, hc, true_and, and_true, true_or, or_true, true_imp_iff, not_true_eq_false, false_imp_iff] at f2 f3 ⊢
        omega
      · simp only [lvl_node] at hrr
        have hne : ¬ v = dl := by omega
        obtain ⟨hda, hdb, g1, g2, g3⟩ := (aa_node da db dk dl).mp hd
        simp only [skew, split, hne, ↓reduceIte, aa_node, sngl_node, lvl_nil, lvl_node, right_nil, right_node, aa_nil, hc, hda, hdb, true_and, and_true, true_or, or_true, true_imp_iff, not_true_eq_false, false_imp_iff] at f2 f3 ⊢
        omega
  · obtain ⟨ha, hb, e1, e2, e3⟩ := (aa_node a b ky ly).mp hl'
    simp only [lvl_node, sngl_node] at hlv
    have hbl := lvl_right_le b hb
    by_cases hsk : v = ly
    · subst hsk
      -- skew rotates; then split fires iff lvl r = v
      have hsk' : skew (node (node a ky v b) x v r) = node a ky v (node b x v r) := by simp [skew]
      rw [hsk']
      rcases r with _ | ⟨c, kz, lz, d⟩
      · simp only [split, aa_node, sngl_node, lvl_nil, lvl_node, right_nil, right_node, aa_nil, ha, hb, true_and, and_true, true_or, or_true, true_imp_iff, not_true_eq_false, false_imp_iff] at hrv hrr ⊢
        omega
      · obtain ⟨hc, hd, f1, f2, f3⟩ := (aa_node c d kz lz).mp hr
        simp only [lvl_node, right_node] at hrv hrr hrl
        by_cases hsp : v = lz
        · subst hsp
          simp only [split, ↓reduceIte, aa_node, sngl_node, lvl_node, right_node, ha, hb, hc, hd, true_and, and_true, true_or, or_true, true_imp_iff, not_true_eq_false, false_imp_iff]
          omega
        · simp only [split, hsp, ↓reduceIte, aa_node, sngl_node, lvl_node, right_node, ha, hb, hc, hd, true_and, and_true, true_or, or_true, true_imp_iff, not_true_eq_false, false_imp_iff]
          omega
    · have hsk' : skew (node (node a ky ly b) x v r) = node (node a ky ly b) x v r := by simp [skew, hsk]
      rw [hsk']
      rcases r with _ | ⟨c, kz, lz, d⟩
      · simp only [split, aa_node, sngl_node, lvl_nil, lvl_node, right_nil, right_node, aa_nil, ha, hb, true_and, and_true, true_or, or_true, true_imp_iff, not_true_eq_false, false_imp_iff] at hrv hrr ⊢
        omega
      · obtain ⟨hc, hd, f1, f2, f3⟩ := (aa_node c d kz lz).mp hr
        simp only [lvl_node, right_node] at hrv hrr hrl
        rcases d with _ | ⟨da, dk, dl, db⟩
        · simp only [split, aa_node, sngl_node, lvl_nil, lvl_node, right_nil, right_node, aa_nil, ha, hb, hc, true_and, and_true, true_or, or_true, true_imp_iff, not_true_eq_false, false_imp_iff] at f2 f3 ⊢
          omega
        · simp only [lvl_node] at hrr
          have hne : ¬ v = dl := by omega
          obtain ⟨hda, hdb, g1, g2, g3⟩ := (aa_node da db dk dl).mp hd
          simp only [split, hne, ↓reduceIte, aa_node, sngl_node, lvl_nil, lvl_node, right_nil, right_node, aa_nil, ha, hb, hc, hda, hdb, true_and, and_true, true_or, or_true, true_imp_iff, not_true_eq_false, false_imp_iff] at f2 f3 ⊢
          omega

/-- strengthened induction statement for insertion (after Nipkow's AA_Set) -/
def InsOK (t t' : T α) : Prop :=
  aa t' = true ∧ (lvl t' = lvl t ∨ (lvl t' = lvl t + 1 ∧ sngl t' = true)) ∧ (sngl t = true → lvl t' = lvl t)

theorem aa_ins (cmp : α → α → Ordering) (t : T α) (k : α) (h : aa t = true) : InsOK t (ins cmp t k) := by
  induction t with
  | nil => simp [ins, InsOK, aa_node, sngl_node, sngl]
  | node l x v r ihl ihr =>
    obtain ⟨hl, hr, e1, e2, e3⟩ := (aa_node l r x v).mp h
    have il := ihl hl
    have ir := ihr hr
    unfold ins
    split
    · -- insert right
      unfold rebalInsert
      obtain ⟨a1, a2, a3⟩ := ir
      have hs : sngl r = true ↔ lvl (right r) < lvl r := by simp [sngl]
      have hrv : lvl (ins cmp r k) = v ∨ lvl (ins cmp r k) + 1 = v := by
        rcases e2 with e2 | e2
        · have : sngl r = true := hs.mpr (by omega)
          have := a3 this; omega
        · rcases a2 with a2 | ⟨a2, _⟩ <;> omega
      obtain ⟨b1, b2, b3⟩ := rebuild_right l (ins cmp r k) x v hl a1 e1 hrv
      refine ⟨b1, ?_, ?_⟩
      · by_cases hc : lvl (ins cmp r k) = v ∧ lvl (right (ins cmp r k)) = v
        · right; simpa using b2 hc
        · left; simpa using (b3 hc).1
      · intro hsn
        rw [sngl_node] at hsn
        have hc : ¬ (lvl (ins cmp r k) = v ∧ lvl (right (ins cmp r k)) = v) := by
          intro ⟨c1, c2⟩
          rcases a2 with a2 | ⟨a2, a4⟩
          · omega
          · have : lvl (right (ins cmp r k)) < lvl (ins cmp r k) := by simpa [sngl] using a4
            omega
        simpa using (b3 hc).1
    · -- insert left
      unfold rebalInsert
      obtain ⟨a1, a2, a3⟩ := il
      have hlv : lvl (ins cmp l k) + 1 = v ∨ (lvl (ins cmp l k) = v ∧ sngl (ins cmp l k) = true) := by
        rcases a2 with a2 | ⟨a2, a4⟩
        · left; omega
        · right; exact ⟨by omega, a4⟩
      obtain ⟨b1, b2, b3⟩ := rebuild_left (ins cmp l k) r x v a1 hr hlv e2 e3
      refine ⟨b1, ?_, ?_⟩
      · by_cases hc : lvl (ins cmp l k) = v ∧ lvl r = v
        · right; simpa using b2 hc
        · left; simpa using (b3 hc).1
      · intro hsn
        rw [sngl_node] at hsn
        have hc : ¬ (lvl (ins cmp l k) = v ∧ lvl r = v) := by omega
        simpa using (b3 hc).1
    · exact ⟨h, Or.inl rfl, fun _ => rfl⟩

end UsualProofs.C07
