import UsualProofs.C07.Insert
/-! C07: `aatree_remove` keeps the AA level rules (ported from probes/lean/AArm4.lean):
    one lemma per pre-case of `rebalance_on_remove`, then Nipkow-style `post_del`. -/
set_option linter.unusedSimpArgs false
set_option linter.unusedVariables false
namespace UsualProofs.C07
open Usual.C07 Usual.C07.T

variable {α : Type}

@[simp] theorem left_nil : left (nil : T α) = nil := rfl
@[simp] theorem left_node (l r : T α) (k : α) (v : Nat) : left (node l k v r) = l := rfl
@[simp] theorem setLvl_node (l r : T α) (k : α) (v w : Nat) : setLvl (node l k v r) w = node l k w r := rfl
@[simp] theorem setLvl_nil (w : Nat) : setLvl (nil : T α) w = nil := rfl
@[simp] theorem setRight_node (l r r' : T α) (k : α) (v : Nat) : setRight (node l k v r) r' = node l k v r' := rfl
@[simp] theorem setRight_nil (r' : T α) : setRight (nil : T α) r' = nil := rfl
theorem skew_nil : skew (nil : T α) = nil := rfl
theorem skew_leftnil (k : α) (v : Nat) (r : T α) : skew (node nil k v r) = node nil k v r := rfl
theorem skew_node (a b c : T α) (ky : α) (ly : Nat) (kx : α) (lx : Nat) :
    skew (node (node a ky ly b) kx lx c) =
      if lx = ly then node a ky ly (node b kx lx c) else node (node a ky ly b) kx lx c := rfl
theorem split_nil : split (nil : T α) = nil := rfl
theorem split_r0 (a : T α) (k : α) (v : Nat) : split (node a k v nil) = node a k v nil := rfl
theorem split_r1 (a b : T α) (k : α) (v : Nat) (ky : α) (ly : Nat) : split (node a k v (node b ky ly nil)) = node a k v (node b ky ly nil) := rfl
theorem split_r2 (a b c d : T α) (kx : α) (lx : Nat) (ky : α) (ly : Nat) (kz : α) (lz : Nat) :
    split (node a kx lx (node b ky ly (node c kz lz d))) =
      if lx = lz then node (node a kx lx b) ky (ly + 1) (node c kz lz d)
      else node a kx lx (node b ky ly (node c kz lz d)) := rfl

/-- skew does nothing unless the left child sits on the node's own level -/
theorem skew_of_ne (l r : T α) (k : α) (v : Nat) (h : lvl l ≠ v) : skew (node l k v r) = node l k v r := by
  cases l with
  | nil => rfl
  | node a ky ly b => rw [skew_node, if_neg]; simp at h; omega

/-- split does nothing unless the right-right grandchild sits on the node's own level -/
theorem split_of_ne (l r : T α) (k : α) (v : Nat) (h : lvl (right r) ≠ v) : split (node l k v r) = node l k v r := by
  rcases r with _ | ⟨b, ky, ly, rr⟩
  · rfl
  · rcases rr with _ | ⟨c, kz, lz, d⟩
    · rfl
    · rw [split_r2, if_neg]; simp at h; omega

theorem skew_of_aa (t : T α) (h : aa t = true) : skew t = t := by
  cases t with
  | nil => rfl
  | node l k v r =>
    obtain ⟨_, _, e1, _, _⟩ := (aa_node l r k v).mp h
    exact skew_of_ne l r k v (by omega)

theorem split_of_aa (t : T α) (h : aa t = true) : split t = t := by
  cases t with
  | nil => rfl
  | node l k v r =>
    obtain ⟨_, _, _, _, e3⟩ := (aa_node l r k v).mp h
    exact split_of_ne l r k v (by omega)

theorem rebal_nogap (l r : T α) (k : α) (v : Nat) (h : ¬ (lvl l + 1 < v ∨ lvl r + 1 < v)) :
    rebalRemove (node l k v r) = node l k v r := by
  simp only [rebalRemove, h, if_false]

theorem rebal_gap (l r : T α) (k : α) (v : Nat) (h : lvl l + 1 < v ∨ lvl r + 1 < v) :
    rebalRemove (node l k v r) =
      (let r1 := if lvl r > v - 1 then setLvl r (v - 1) else r
       let c1 := skew (node l k (v - 1) r1)
       let c2 := setRight c1 (skew (right c1))
       let c3 := setRight c2 (setRight (right c2) (skew (right (right c2))))
       let c4 := split c3
       setRight c4 (split (right c4))) := by
  simp only [rebalRemove, h, if_true]

/-- the postcondition as a Prop on an explicit result -/
def Post (v : Nat) (os : Bool) (t' : T α) : Prop :=
  aa t' = true ∧ (lvl t' = v ∨ lvl t' + 1 = v) ∧ (lvl t' = v → os = true → sngl t' = true)

/-- P1/P2: no gap -/
theorem post_nogap (l r : T α) (k : α) (v : Nat) (os : Bool) (hl : aa l = true) (hr : aa r = true)
    (e : lvl l + 1 = v) (er : lvl r + 1 = v ∨ (lvl r = v ∧ lvl (right r) < v)) (hos : os = true → lvl r < v) :
    Post v os (rebalRemove (node l k v r)) := by
  have hrl := lvl_right_le r hr
  rw [rebal_nogap l r k v (by omega)]
  unfold Post
  simp only [aa_node, sngl_node, lvl_node, hl, hr, true_and, and_true, true_or, or_true, true_imp_iff]
  refine ⟨?_, hos⟩
  rcases er with er | ⟨er1, er2⟩ <;> omega

/-- P4: the left side dropped, right child one below the old level -/
theorem post_left_drop (l r : T α) (k : α) (v : Nat) (os : Bool) (hl : aa l = true) (hr : aa r = true)
    (e : lvl l + 2 = v) (er : lvl r + 1 = v) :
    Post v os (rebalRemove (node l k v r)) := by
  rw [rebal_gap l r k v (by omega)]
  have hv : v - 1 = lvl r := by omega
  simp only [hv, Nat.lt_irrefl, gt_iff_lt, if_false]
  rw [skew_of_ne l r k (lvl r) (by omega)]
  simp only [right_node, setRight_node, skew_of_aa r hr]
  rcases r with _ | ⟨ra, rk, rv, rb⟩
  · simp at er; omega
  · obtain ⟨hra, hrb, f1, f2, f3⟩ := (aa_node ra rb rk rv).mp hr
    simp only [lvl_node, right_node, setRight_node] at er f1 f2 f3 ⊢
    rw [skew_of_aa rb hrb]
    have hral := lvl_right_le ra hra
    have hrbl := lvl_right_le rb hrb
    by_cases hsp : lvl rb = rv
    · -- split fires
      rcases rb with _ | ⟨rba, rbk, rbv, rbb⟩
      · simp at hsp; omega
      · simp only [lvl_node, right_node] at hsp f2 f3 hrbl
        subst hsp
        obtain ⟨hrba, hrbb, g1, g2, g3⟩ := (aa_node rba rbb rbk rbv).mp hrb
        rw [split_r2, if_pos rfl]
        simp only [right_node, setRight_node]
        rw [split_of_aa _ hrb]
        unfold Post
        simp only [aa_node, sngl_node, lvl_node, right_node, hl, hra, hrba, hrbb, true_and, and_true, true_or, or_true, true_imp_iff]
        omega
    · rw [split_of_ne l _ k rv (by simpa using hsp)]
      simp only [right_node, setRight_node]
      rw [split_of_aa _ hr]
      unfold Post
      simp only [aa_node, sngl_node, lvl_node, right_node, hl, hra, hrb, true_and, and_true, true_or, or_true, true_imp_iff]
      rcases f2 with f2 | f2 <;> omega

/-- P3: the right side dropped to two below the node -/
theorem post_right_drop (l r : T α) (k : α) (v : Nat) (os : Bool) (hl : aa l = true) (hr : aa r = true)
    (e : lvl l + 1 = v) (er : lvl r + 2 = v) :
    Post v os (rebalRemove (node l k v r)) := by
  rw [rebal_gap l r k v (by omega)]
  have hrl := lvl_right_le r hr
  have hr1 : ¬ lvl r > v - 1 := by omega
  simp only [hr1, if_false]
  rcases l with _ | ⟨a, ky, ly, b⟩
  · simp at e; omega
  · obtain ⟨ha, hb, e1, e2, e3⟩ := (aa_node a b ky ly).mp hl
    simp only [lvl_node] at e
    have hv : v - 1 = ly := by omega
    rw [hv, skew_node, if_pos rfl]
    simp only [right_node, setRight_node]
    have hbl := lvl_right_le b hb
    by_cases hb2 : lvl b = ly
    · -- P3b: l had a horizontal right link, second skew fires, then the first split
      rcases b with _ | ⟨ba, bk, bv, bb⟩
      · simp at hb2; omega
      · simp only [lvl_node, right_node] at hb2 e2 e3 hbl
        subst hb2
        obtain ⟨hba, hbb, g1, g2, g3⟩ := (aa_node ba bb bk bv).mp hb
        rw [skew_node, if_pos rfl]
        simp only [right_node, setRight_node]
        rw [skew_of_ne bb r k bv (by omega)]
        rw [split_r2, if_pos rfl]
        simp only [right_node, setRight_node]
        rw [split_of_ne bb r k bv (by omega)]
        have hbal := lvl_right_le ba hba
        unfold Post
        simp only [aa_node, sngl_node, lvl_node, right_node, ha, hba, hbb, hr, true_and, and_true, true_or, or_true, true_imp_iff]
        omega
    · -- P3a: only the first skew fires
      rw [skew_of_ne b r k ly hb2]
      simp only [right_node, setRight_node]
      rw [skew_of_aa r hr]
      rw [split_of_ne a (node b k ly r) ky ly (by simp only [right_node]; omega)]
      simp only [right_node, setRight_node]
      rw [split_of_ne b r k ly (by omega)]
      unfold Post
      simp only [aa_node, sngl_node, lvl_node, right_node, ha, hb, hr, true_and, and_true, true_or, or_true, true_imp_iff]
      omega

/-- P5: the left side dropped while the right child sits on the node's own level -/
theorem post_left_drop_red (l r : T α) (k : α) (v : Nat) (os : Bool) (hl : aa l = true) (hr : aa r = true)
    (e : lvl l + 2 = v) (er : lvl r = v) (err : lvl (right r) < v) (hos : os = true → lvl r < v) :
    Post v os (rebalRemove (node l k v r)) := by
  rw [rebal_gap l r k v (by omega)]
  rcases r with _ | ⟨ra, rk, rv, rb⟩
  · simp at er; omega
  · obtain ⟨hra, hrb, f1, f2, f3⟩ := (aa_node ra rb rk rv).mp hr
    simp only [lvl_node, right_node] at er err hos
    subst er
    have hno : (os = true) = False := by
      apply propext; constructor
      · intro h; have := hos h; omega
      · intro h; exact h.elim
    have hgt : rv > rv - 1 := by omega
    simp only [lvl_node, hgt, if_true, setLvl_node]
    rw [skew_of_ne l _ k (rv - 1) (by omega)]
    simp only [right_node, setRight_node]
    -- ra sits on level rv - 1: it is a node and the second skew fires
    rcases ra with _ | ⟨raa, rak, rav, rab⟩
    · simp at f1; omega
    · obtain ⟨hraa, hrab, g1, g2, g3⟩ := (aa_node raa rab rak rav).mp hra
      simp only [lvl_node] at f1
      have hrav : rv - 1 = rav := by omega
      rw [hrav, skew_node, if_pos rfl]
      simp only [right_node, setRight_node]
      -- rb also sits on level rv - 1
      rcases rb with _ | ⟨rba, rbk, rbv, rbb⟩
      · simp at f2 err; omega
      · obtain ⟨hrba, hrbb, h1, h2, h3⟩ := (aa_node rba rbb rbk rbv).mp hrb
        simp only [lvl_node, right_node] at f2 f3 err
        have hrbv : rbv = rav := by omega
        subst hrbv
        have hraal := lvl_right_le raa hraa
        have hrbal := lvl_right_le rba hrba
        have hrabl := lvl_right_le rab hrab
        by_cases h3s : lvl rab = rbv
        · -- P5b: third skew fires, both splits fire
          rcases rab with _ | ⟨rabl, rabk, rabv, rabr⟩
          · simp at h3s; omega
          · simp only [lvl_node, right_node] at h3s g2 g3 hrabl
            subst h3s
            obtain ⟨hrabl', hrabr, i1, i2, i3⟩ := (aa_node rabl rabr rabk rabv).mp hrab
            rw [skew_node, if_pos rfl]
            try simp only [right_node, setRight_node]
            rw [split_r2, if_pos rfl]
            simp only [right_node, setRight_node]
            rw [split_r2, if_pos rfl]
            have hrabll := lvl_right_le rabl hrabl'
            unfold Post
            simp only [aa_node, sngl_node, lvl_node, right_node, hl, hraa, hrabl', hrabr, hrba, hrbb, hno, true_and, and_true, true_or, or_true, true_imp_iff, false_imp_iff, imp_true_iff]
            omega
        · -- P5a: third skew does nothing, first split fires
          rw [skew_of_ne rab _ rk rbv h3s]
          try simp only [right_node, setRight_node]
          rw [split_r2, if_pos rfl]
          simp only [right_node, setRight_node]
          by_cases h4 : lvl rbb = rbv
          · -- second split fires too
            rcases rbb with _ | ⟨rbba, rbbk, rbbv, rbbb⟩
            · simp at h4; omega
            · simp only [lvl_node, right_node] at h4 h2 h3
              subst h4
              obtain ⟨hrbba, hrbbb, j1, j2, j3⟩ := (aa_node rbba rbbb rbbk rbbv).mp hrbb
              rw [split_r2, if_pos rfl]
              unfold Post
              simp only [aa_node, sngl_node, lvl_node, right_node, hl, hraa, hrab, hrba, hrbba, hrbbb, hno, true_and, and_true, true_or, or_true, true_imp_iff, false_imp_iff, imp_true_iff]
              omega
          · rw [split_of_ne rab _ rk rbv (by simpa using h4)]
            unfold Post
            simp only [aa_node, sngl_node, lvl_node, right_node, hl, hraa, hrab, hrba, hrbb, hno, true_and, and_true, true_or, or_true, true_imp_iff, false_imp_iff, imp_true_iff]
            omega

/-- rebalance_on_remove repairs every node that satisfies Nipkow's pre_adjust -/
theorem rebal_post (l r : T α) (k : α) (v : Nat) (os : Bool) (hl : aa l = true) (hr : aa r = true)
    (hlev : (lvl l + 1 = v ∧ (lvl r + 1 = v ∨ lvl r + 2 = v ∨ (lvl r = v ∧ lvl (right r) < v))) ∨
            (lvl l + 2 = v ∧ (lvl r + 1 = v ∨ (lvl r = v ∧ lvl (right r) < v))))
    (hos : os = true → lvl r < v) :
    Post v os (rebalRemove (node l k v r)) := by
  rcases hlev with ⟨e, er⟩ | ⟨e, er⟩
  · rcases er with er | er | er
    · exact post_nogap l r k v os hl hr e (Or.inl er) hos
    · exact post_right_drop l r k v os hl hr e er
    · exact post_nogap l r k v os hl hr e (Or.inr er) hos
  · rcases er with er | ⟨er, err⟩
    · exact post_left_drop l r k v os hl hr e er
    · exact post_left_drop_red l r k v os hl hr e er err hos

/-- post_del: what a removal returns -/
def PostDel (t t' : T α) : Prop :=
  aa t' = true ∧ (lvl t' = lvl t ∨ lvl t' + 1 = lvl t) ∧ (lvl t' = lvl t → sngl t = true → sngl t' = true)

theorem rebal_of_aa (t : T α) (h : aa t = true) : rebalRemove t = t := by
  cases t with
  | nil => rfl
  | node l k v r =>
    obtain ⟨_, _, e1, e2, _⟩ := (aa_node l r k v).mp h
    exact rebal_nogap l r k v (by omega)

/-- rebuilding a node whose RIGHT subtree came back from a removal -/
theorem postDel_right (l r r' : T α) (k : α) (v : Nat) (h : aa (node l k v r) = true) (hp : PostDel r r') :
    PostDel (node l k v r) (rebalRemove (node l k v r')) := by
  obtain ⟨hl, hr, e1, e2, e3⟩ := (aa_node l r k v).mp h
  obtain ⟨p1, p2, p3⟩ := hp
  have hs : sngl r = true ↔ lvl (right r) < lvl r := by simp [sngl]
  have hs' : sngl r' = true ↔ lvl (right r') < lvl r' := by simp [sngl]
  have hrl := lvl_right_le r' p1
  have hlev : (lvl l + 1 = v ∧ (lvl r' + 1 = v ∨ lvl r' + 2 = v ∨ (lvl r' = v ∧ lvl (right r') < v))) ∨
            (lvl l + 2 = v ∧ (lvl r' + 1 = v ∨ (lvl r' = v ∧ lvl (right r') < v))) := by
    left; refine ⟨e1, ?_⟩
    rcases e2 with e2 | e2
    · -- r was red: it is sngl, so if the level stayed r' is sngl too
      rcases p2 with p2 | p2
      · right; right
        have := p3 p2 (hs.mpr (by omega))
        have := hs'.mp this
        exact ⟨by omega, by omega⟩
      · left; omega
    · rcases p2 with p2 | p2
      · left; omega
      · right; left; omega
  have hpost := rebal_post l r' k v (sngl (node l k v r)) hl p1 hlev
    (by intro h; rw [sngl_node] at h; rcases p2 with p2 | p2 <;> omega)
  unfold Post at hpost; unfold PostDel
  simpa only [lvl_node] using hpost

/-- rebuilding a node whose LEFT subtree came back from a removal -/
theorem postDel_left (l l' r : T α) (k : α) (v : Nat) (h : aa (node l k v r) = true) (hp : PostDel l l') :
    PostDel (node l k v r) (rebalRemove (node l' k v r)) := by
  obtain ⟨hl, hr, e1, e2, e3⟩ := (aa_node l r k v).mp h
  obtain ⟨p1, p2, _⟩ := hp
  have hlev : (lvl l' + 1 = v ∧ (lvl r + 1 = v ∨ lvl r + 2 = v ∨ (lvl r = v ∧ lvl (right r) < v))) ∨
            (lvl l' + 2 = v ∧ (lvl r + 1 = v ∨ (lvl r = v ∧ lvl (right r) < v))) := by
    rcases p2 with p2 | p2
    · left; refine ⟨by omega, ?_⟩
      rcases e2 with e2 | e2
      · right; right; exact ⟨e2, e3⟩
      · left; exact e2
    · right; refine ⟨by omega, ?_⟩
      rcases e2 with e2 | e2
      · right; exact ⟨e2, e3⟩
      · left; exact e2
  have hpost := rebal_post l' r k v (sngl (node l k v r)) p1 hr hlev
    (by intro h; rw [sngl_node] at h; exact h)
  unfold Post at hpost; unfold PostDel
  simpa only [lvl_node] using hpost

/-- dropping the root of a node without left child returns its right child, and vice versa -/
theorem postDel_take_right (r : T α) (k : α) (v : Nat) (h : aa (node nil k v r) = true) :
    PostDel (node nil k v r) r := by
  obtain ⟨_, hr, e1, e2, e3⟩ := (aa_node nil r k v).mp h
  simp only [lvl_nil] at e1
  refine ⟨hr, by simp only [lvl_node]; omega, ?_⟩
  intro h1 h2; simp only [lvl_node] at h1; rw [sngl_node] at h2; omega

theorem postDel_take_left (l : T α) (k : α) (v : Nat) (h : aa (node l k v nil) = true) :
    PostDel (node l k v nil) l := by
  obtain ⟨hl, _, e1, _, _⟩ := (aa_node l nil k v).mp h
  refine ⟨hl, by simp only [lvl_node]; omega, ?_⟩
  intro h1; simp only [lvl_node] at h1; omega

/-- steal_leftmost keeps the AA rules -/
theorem postDel_steal (l : T α) (k : α) (v : Nat) (r : T α) (h : aa (node l k v r) = true) :
    PostDel (node l k v r) (stealLeftmost l k v r).1 := by
  induction l generalizing k v r with
  | nil => simp only [stealLeftmost]; exact postDel_take_right r k v h
  | node a b c d iha _ =>
    obtain ⟨hl, _, _, _, _⟩ := (aa_node (node a b c d) r k v).mp h
    have ih := iha b c d hl
    simp only [stealLeftmost]
    exact postDel_left (node a b c d) _ r k v h ih

/-- MAIN: aatree_remove keeps the AA level rules (remove_sub, drop_this_node, steal_leftmost,
    rebalance_on_remove transcribed from aatree.c) -/
theorem aa_del_post (cmp : α → α → Ordering) (t : T α) (k : α) (h : aa t = true) :
    PostDel t (del cmp t k) := by
  induction t with
  | nil => simp [del, PostDel]
  | node l x v r ihl ihr =>
    obtain ⟨hl, hr, e1, e2, e3⟩ := (aa_node l r x v).mp h
    unfold del
    split
    · exact postDel_right l r _ x v h (ihr hr)
    · exact postDel_left l _ r x v h (ihl hl)
    · -- drop this node
      cases l with
      | nil =>
        simp only [dropThis]
        rw [rebal_of_aa r hr]; exact postDel_take_right r x v h
      | node a b c d =>
        cases r with
        | nil =>
          simp only [dropThis]
          rw [rebal_of_aa _ hl]; exact postDel_take_left _ x v h
        | node ra rk rv rb =>
          simp only [dropThis]
          have hs := postDel_steal ra rk rv rb hr
          have h' : aa (node (node a b c d) (stealLeftmost ra rk rv rb).2 v (node ra rk rv rb)) = true := by
            rw [aa_node]; exact ⟨hl, hr, e1, e2, e3⟩
          have := postDel_right (node a b c d) (node ra rk rv rb) _ (stealLeftmost ra rk rv rb).2 v h' hs
          simpa only [PostDel, lvl_node, sngl_node] using this

theorem aa_del (cmp : α → α → Ordering) (t : T α) (k : α) (h : aa t = true) : aa (del cmp t k) = true :=
  (aa_del_post cmp t k h).1

end UsualProofs.C07
