import UsualProofs.C07.Remove
/-! C07: the stores of `rebalance_on_insert` / `rebalance_on_remove` never target the shared
    `const` NIL node when the tree obeys the AA level rules. -/
set_option linter.unusedSimpArgs false
set_option linter.unusedVariables false
namespace UsualProofs.C07
open Usual.C07 Usual.C07.T

variable {α : Type}

/-- every real node has level ≥ 1 -/
def pos : T α → Bool
  | nil => true
  | node l _ v r => pos l && pos r && decide (1 ≤ v)

theorem pos_node (l r : T α) (k : α) (v : Nat) :
    pos (node l k v r) = true ↔ pos l = true ∧ pos r = true ∧ 1 ≤ v := by
  simp [pos, and_assoc]

theorem pos_of_aa (t : T α) (h : aa t = true) : pos t = true := by
  induction t with
  | nil => rfl
  | node l k v r ihl ihr =>
    obtain ⟨hl, hr, e1, _, _⟩ := (aa_node l r k v).mp h
    rw [pos_node]; exact ⟨ihl hl, ihr hr, by omega⟩

theorem pos_right (t : T α) (h : pos t = true) : pos (right t) = true := by
  cases t with
  | nil => rfl
  | node l k v r => exact ((pos_node l r k v).mp h).2.1

theorem pos_setRight (t r' : T α) (h : pos t = true) (h' : pos r' = true) : pos (setRight t r') = true := by
  cases t with
  | nil => rfl
  | node l k v r =>
    obtain ⟨a, _, c⟩ := (pos_node l r k v).mp h
    rw [setRight_node, pos_node]; exact ⟨a, h', c⟩

theorem pos_setLvl (t : T α) (w : Nat) (h : pos t = true) (hw : 1 ≤ w) : pos (setLvl t w) = true := by
  cases t with
  | nil => rfl
  | node l k v r =>
    obtain ⟨a, b, _⟩ := (pos_node l r k v).mp h
    rw [setLvl_node, pos_node]; exact ⟨a, b, hw⟩

theorem pos_skew (t : T α) (h : pos t = true) : pos (skew t) = true := by
  rcases t with _ | ⟨l, k, v, r⟩
  · exact h
  · rcases l with _ | ⟨a, ky, ly, b⟩
    · exact h
    · rw [skew_node]
      obtain ⟨hl, hr, hv⟩ := (pos_node _ r k v).mp h
      obtain ⟨ha, hb, hly⟩ := (pos_node a b ky ly).mp hl
      by_cases e : v = ly
      · rw [if_pos e, pos_node, pos_node]; exact ⟨ha, ⟨hb, hr, hv⟩, hly⟩
      · rw [if_neg e]; exact h

theorem pos_split (t : T α) (h : pos t = true) : pos (split t) = true := by
  rcases t with _ | ⟨a, kx, lx, r⟩
  · exact h
  · rcases r with _ | ⟨b, ky, ly, rr⟩
    · exact h
    · rcases rr with _ | ⟨c, kz, lz, d⟩
      · exact h
      · rw [split_r2]
        obtain ⟨ha, hr, hv⟩ := (pos_node a _ kx lx).mp h
        obtain ⟨hb, hrr, hly⟩ := (pos_node b _ ky ly).mp hr
        by_cases e : lx = lz
        · rw [if_pos e, pos_node, pos_node]; exact ⟨⟨ha, hb, hv⟩, hrr, by omega⟩
        · rw [if_neg e]; exact h

theorem skewNW_of_pos (t : T α) (h : pos t = true) : skewNW t = false := by
  rcases t with _ | ⟨l, k, v, r⟩
  · rfl
  · rcases l with _ | ⟨a, ky, ly, b⟩
    · obtain ⟨_, _, hv⟩ := (pos_node nil r k v).mp h
      simp only [skewNW, beq_eq_false_iff_ne, ne_eq]; omega
    · rfl

theorem splitNW_of_pos (t : T α) (h : pos t = true) : splitNW t = false := by
  rcases t with _ | ⟨l, k, v, r⟩
  · rfl
  · obtain ⟨_, _, hv⟩ := (pos_node l r k v).mp h
    rcases r with _ | ⟨b, ky, ly, rr⟩
    · simp only [splitNW, beq_eq_false_iff_ne, ne_eq]; omega
    · rcases rr with _ | ⟨c, kz, lz, d⟩
      · simp only [splitNW, beq_eq_false_iff_ne, ne_eq]; omega
      · rfl

theorem isNil_skew (t : T α) : isNil (skew t) = isNil t := by
  rcases t with _ | ⟨l, k, v, r⟩
  · rfl
  · rcases l with _ | ⟨a, ky, ly, b⟩
    · rfl
    · rw [skew_node]; by_cases e : v = ly
      · rw [if_pos e]; rfl
      · rw [if_neg e]

theorem isNil_of_lvl_pos (t : T α) (h : 1 ≤ lvl t) : isNil t = false := by
  cases t with
  | nil => simp at h
  | node => rfl

/-- Nipkow's `pre_adjust`: the shapes `rebalance_on_remove` is called on -/
def PreAdj (l : T α) (v : Nat) (r : T α) : Prop :=
  aa l = true ∧ aa r = true ∧
  ((lvl l + 1 = v ∧ (lvl r + 1 = v ∨ lvl r + 2 = v ∨ (lvl r = v ∧ lvl (right r) < v))) ∨
   (lvl l + 2 = v ∧ (lvl r + 1 = v ∨ (lvl r = v ∧ lvl (right r) < v))))

/-- `rebalance_on_insert` on a tree with positive levels stores only into real nodes -/
theorem rebalInsert_noNilWrite (t : T α) (h : pos t = true) : rebalInsertNilWrite t = false := by
  unfold rebalInsertNilWrite
  rw [skewNW_of_pos t h, splitNW_of_pos _ (pos_skew t h)]; rfl

/-- `rebalance_on_remove` under `pre_adjust` stores only into real nodes -/
theorem rebal_noNilWrite (l r : T α) (k : α) (v : Nat) (hp : PreAdj l v r) :
    rebalNilWrite (node l k v r) = false := by
  obtain ⟨hl, hr, hlev⟩ := hp
  by_cases hg : lvl l + 1 < v ∨ lvl r + 1 < v
  · have hv : 1 ≤ v - 1 := by omega
    have pl := pos_of_aa l hl
    have pr := pos_of_aa r hr
    -- r1
    have pr1 : pos (if lvl r > v - 1 then setLvl r (v - 1) else r) = true := by
      by_cases h : lvl r > v - 1
      · rw [if_pos h]; exact pos_setLvl r _ pr hv
      · rw [if_neg h]; exact pr
    have p0 : pos (node l k (v - 1) (if lvl r > v - 1 then setLvl r (v - 1) else r)) = true := by
      rw [pos_node]; exact ⟨pl, pr1, hv⟩
    have pc1 := pos_skew _ p0
    have pc2 := pos_setRight _ _ pc1 (pos_skew _ (pos_right _ pc1))
    have pc3 := pos_setRight _ _ pc2
      (pos_setRight _ _ (pos_right _ pc2) (pos_skew _ (pos_right _ (pos_right _ pc2))))
    have pc4 := pos_split _ pc3
    -- the one store whose target depends on the shape: current->right->right = …
    have hnil : isNil (right (setRight
        (skew (node l k (v - 1) (if lvl r > v - 1 then setLvl r (v - 1) else r)))
        (skew (right (skew (node l k (v - 1) (if lvl r > v - 1 then setLvl r (v - 1) else r))))))) = false := by
      have hright : ∀ (c : T α), isNil c = false → right (setRight c (skew (right c))) = skew (right c) := by
        intro c hc; cases c with
        | nil => simp [isNil] at hc
        | node => rfl
      rw [hright _ (by rw [isNil_skew]; rfl), isNil_skew]
      -- right c1 is a real node
      rcases l with _ | ⟨a, ky, ly, b⟩
      · -- l = nil: v = 2 is impossible with lvl l + 1 = v and a gap; so lvl l + 2 = v, r has level ≥ 1
        rw [skew_leftnil, right_node]
        simp only [lvl_nil] at hlev hg
        have hr1 : 1 ≤ lvl r := by omega
        by_cases h : lvl r > v - 1
        · rw [if_pos h]
          cases r with
          | nil => simp at hr1
          | node => rfl
        · rw [if_neg h]; exact isNil_of_lvl_pos r hr1
      · rw [skew_node]
        simp only [lvl_node] at hlev hg
        by_cases e : v - 1 = ly
        · rw [if_pos e]; rfl
        · rw [if_neg e, right_node]
          have hr1 : 1 ≤ lvl r := by omega
          by_cases h : lvl r > v - 1
          · rw [if_pos h]
            cases r with
            | nil => simp at hr1
            | node => rfl
          · rw [if_neg h]; exact isNil_of_lvl_pos r hr1
    simp only [rebalNilWrite, hg, if_true]
    rw [skewNW_of_pos _ p0, skewNW_of_pos _ (pos_right _ pc1), hnil,
        skewNW_of_pos _ (pos_right _ (pos_right _ pc2)), splitNW_of_pos _ pc3,
        splitNW_of_pos _ (pos_right _ pc4)]
    rfl
  · simp only [rebalNilWrite, hg, if_false]

theorem noNW_of_aa (t : T α) (h : aa t = true) : rebalNilWrite t = false := by
  cases t with
  | nil => rfl
  | node l k v r =>
    obtain ⟨_, _, e1, e2, _⟩ := (aa_node l r k v).mp h
    have hg : ¬ (lvl l + 1 < v ∨ lvl r + 1 < v) := by omega
    simp only [rebalNilWrite, hg, if_false]

/-- the node rebuilt around a RIGHT subtree that came back from a removal satisfies `pre_adjust` -/
theorem preAdj_right (l r r' : T α) (k : α) (v : Nat) (h : aa (node l k v r) = true)
    (hp : PostDel r r') : PreAdj l v r' := by
  obtain ⟨hl, hr, e1, e2, e3⟩ := (aa_node l r k v).mp h
  obtain ⟨p1, p2, p3⟩ := hp
  have hs : sngl r = true ↔ lvl (right r) < lvl r := by simp [sngl]
  have hs' : sngl r' = true ↔ lvl (right r') < lvl r' := by simp [sngl]
  refine ⟨hl, p1, ?_⟩
  left; refine ⟨e1, ?_⟩
  rcases e2 with e2 | e2
  · rcases p2 with p2 | p2
    · right; right
      have := p3 p2 (hs.mpr (by omega))
      have := hs'.mp this
      exact ⟨by omega, by omega⟩
    · left; omega
  · rcases p2 with p2 | p2
    · left; omega
    · right; left; omega

/-- the node rebuilt around a LEFT subtree that came back from a removal satisfies `pre_adjust` -/
theorem preAdj_left (l l' r : T α) (k : α) (v : Nat) (h : aa (node l k v r) = true)
    (hp : PostDel l l') : PreAdj l' v r := by
  obtain ⟨hl, hr, e1, e2, e3⟩ := (aa_node l r k v).mp h
  obtain ⟨p1, p2, _⟩ := hp
  refine ⟨p1, hr, ?_⟩
  rcases p2 with p2 | p2
  · left; refine ⟨by omega, ?_⟩
    rcases e2 with e2 | e2
    · right; right; exact ⟨e2, e3⟩
    · left; exact e2
  · right; refine ⟨by omega, ?_⟩
    rcases e2 with e2 | e2
    · right; exact ⟨e2, e3⟩
    · left; exact e2

theorem steal_noNilWrite (l : T α) (k : α) (v : Nat) (r : T α) (h : aa (node l k v r) = true) :
    stealNilWrite l k v r = false := by
  induction l generalizing k v r with
  | nil => rfl
  | node a b c d iha _ =>
    obtain ⟨hl, _, _, _, _⟩ := (aa_node (node a b c d) r k v).mp h
    simp only [stealNilWrite, iha b c d hl, Bool.false_or]
    exact rebal_noNilWrite _ r k v (preAdj_left (node a b c d) _ r k v h (postDel_steal a b c d hl))

theorem ins_noNilWrite (cmp : α → α → Ordering) (t : T α) (k : α) (h : aa t = true) :
    insNilWrite cmp t k = false := by
  induction t with
  | nil => rfl
  | node l x v r ihl ihr =>
    obtain ⟨hl, hr, e1, _, _⟩ := (aa_node l r x v).mp h
    unfold insNilWrite
    split
    · rw [ihr hr, Bool.false_or]
      apply rebalInsert_noNilWrite
      rw [pos_node]; exact ⟨pos_of_aa l hl, pos_of_aa _ (aa_ins cmp r k hr).1, by omega⟩
    · rw [ihl hl, Bool.false_or]
      apply rebalInsert_noNilWrite
      rw [pos_node]; exact ⟨pos_of_aa _ (aa_ins cmp l k hl).1, pos_of_aa r hr, by omega⟩
    · rfl

theorem del_noNilWrite (cmp : α → α → Ordering) (t : T α) (k : α) (h : aa t = true) :
    delNilWrite cmp t k = false := by
  induction t with
  | nil => rfl
  | node l x v r ihl ihr =>
    obtain ⟨hl, hr, e1, e2, e3⟩ := (aa_node l r x v).mp h
    unfold delNilWrite
    split
    · rw [ihr hr, Bool.false_or]
      exact rebal_noNilWrite l _ x v (preAdj_right l r _ x v h (aa_del_post cmp r k hr))
    · rw [ihl hl, Bool.false_or]
      exact rebal_noNilWrite _ r x v (preAdj_left l _ r x v h (aa_del_post cmp l k hl))
    · cases l with
      | nil =>
        simp only [dropNilWrite, dropThis, Bool.false_or]
        exact noNW_of_aa r hr
      | node a b c d =>
        cases r with
        | nil =>
          simp only [dropNilWrite, dropThis, Bool.false_or]
          exact noNW_of_aa _ hl
        | node ra rk rv rb =>
          simp only [dropNilWrite, dropThis]
          rw [steal_noNilWrite ra rk rv rb hr, Bool.false_or]
          have hs := postDel_steal ra rk rv rb hr
          have h' : aa (node (node a b c d) (stealLeftmost ra rk rv rb).2 v (node ra rk rv rb)) = true := by
            rw [aa_node]; exact ⟨hl, hr, e1, e2, e3⟩
          exact rebal_noNilWrite _ _ _ v (preAdj_right (node a b c d) (node ra rk rv rb) _ _ v h' hs)

end UsualProofs.C07
