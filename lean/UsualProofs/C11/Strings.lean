import UsualProofs.C11.GetChar
import UsualProofs.C11.PutChar
/-! # C11 helper lemmas: byte lists, the list form of the accept set, `validateString` -/
open Usual.C11
namespace UsualProofs.C11

theorem window_1 (rd : Nat → B) : window rd 1 = [rd 0] := rfl
theorem window_2 (rd : Nat → B) : window rd 2 = [rd 0, rd 1] := rfl
theorem window_3 (rd : Nat → B) : window rd 3 = [rd 0, rd 1, rd 2] := rfl
theorem window_4 (rd : Nat → B) : window rd 4 = [rd 0, rd 1, rd 2, rd 3] := rfl
theorem window_length (rd : Nat → B) (n : Nat) : (window rd n).length = n := by
  unfold window; rw [List.length_map, List.length_range]

theorem WF_length {s : List B} (h : WF s) : 1 ≤ s.length ∧ s.length ≤ 4 := by
  match s, h with
  | [_], _ => simp
  | [_, _], _ => simp
  | [_, _, _], _ => simp
  | [_, _, _, _], _ => simp

theorem window_rdOf (s : List B) (k : Nat) (hk : k ≤ s.length) : window (rdOf s) k = s.take k := by
  apply List.ext_getElem
  · rw [window_length, List.length_take]; omega
  · intro i h1 h2
    rw [window_length] at h1
    have hi : i < s.length := by omega
    simp only [window, rdOf, List.getElem_map, List.getElem_range, List.getElem_take,
      List.getD_eq_getElem?_getD, List.getElem?_eq_getElem hi, Option.getD_some]


theorem toNat_eq_iff (x : BitVec 32) (k : Nat) (hk : k < 2 ^ 32) :
    x.toNat = k ↔ x = BitVec.ofNat 32 k := by
  constructor
  · intro h; apply BitVec.eq_of_toNat_eq; rw [BitVec.toNat_ofNat, Nat.mod_eq_of_lt hk]; exact h
  · intro h; rw [h, BitVec.toNat_ofNat, Nat.mod_eq_of_lt hk]

theorem vs_toNat_le (rd : Nat → B) (avail : Nat) : (validateSeq rd avail).toNat ≤ 4 := by
  unfold validateSeq
  rcases vs_range (rd 0) (rd 1) (rd 2) (rd 3) avail with h | h | h | h | h <;> rw [h] <;> decide

/-- list form of the validator's accept set: it returns `n ≠ 0` exactly when the first `n`
bytes lie before `end`, form one row of Table 3-7 and are not the single byte NUL -/
theorem vs_accepts_iff (rd : Nat → B) (avail n : Nat) (ha : 1 ≤ avail) (hn : n ≠ 0) :
    (validateSeq rd avail).toNat = n ↔ n ≤ avail ∧ WF (window rd n) ∧ window rd n ≠ [0#8] := by
  match n, hn with
  | 1, _ =>
    rw [toNat_eq_iff _ 1 (by omega), window_1]; unfold validateSeq WF
    rw [vs1]
    simp only [ne_eq, List.cons.injEq, and_true]
    constructor
    · intro h; exact ⟨ha, h⟩
    · intro h; exact h.2
  | 2, _ =>
    rw [toNat_eq_iff _ 2 (by omega), window_2]; unfold validateSeq WF
    rw [vs2]
    simp only [ne_eq, List.cons.injEq, reduceCtorEq, and_false, not_false_eq_true, and_true]
  | 3, _ =>
    rw [toNat_eq_iff _ 3 (by omega), window_3]; unfold validateSeq WF
    rw [vs3]
    simp only [ne_eq, List.cons.injEq, reduceCtorEq, and_false, not_false_eq_true, and_true]
  | 4, _ =>
    rw [toNat_eq_iff _ 4 (by omega), window_4]; unfold validateSeq WF
    rw [vs4]
    simp only [ne_eq, List.cons.injEq, reduceCtorEq, and_false, not_false_eq_true, and_true]
  | k + 5, _ =>
    constructor
    · intro h; have := vs_toNat_le rd avail; omega
    · intro h; have := WF_length h.2.1; rw [window_length] at this; omega

/-! ## byte strings -/

theorem vsL_of_chunk (c t : List B) (hc : WF c) (h0 : c ≠ [0#8]) :
    (validateSeqL (c ++ t)).toNat = c.length := by
  have hl := WF_length hc
  unfold validateSeqL
  rw [vs_accepts_iff _ _ _ (by rw [List.length_append]; omega) (by omega)]
  have hk : c.length ≤ (c ++ t).length := by rw [List.length_append]; omega
  rw [window_rdOf _ _ hk, List.take_left']
  · exact ⟨hk, hc, h0⟩
  · rfl

theorem vsL_chunk (s : List B) (n : Nat) (hs : s ≠ []) (hn : n ≠ 0)
    (h : (validateSeqL s).toNat = n) : n ≤ s.length ∧ WF (s.take n) ∧ s.take n ≠ [0#8] := by
  have hl : 1 ≤ s.length := by
    cases s with
    | nil => exact absurd rfl hs
    | cons => simp
  unfold validateSeqL at h
  rw [vs_accepts_iff _ _ _ hl hn] at h
  rw [window_rdOf _ _ h.1] at h
  exact h

theorem WF_ascii (b : B) (t : List B) (h : WF (b :: t)) (hb : b.toNat < 128) : t = [] := by
  match t, h with
  | [], _ => rfl
  | [b1], h => unfold WF wf2 at h; u8nat; omega
  | [b1, b2], h => unfold WF wf3 at h; u8nat; omega
  | [b1, b2, b3], h => unfold WF wf4 at h; u8nat; omega

theorem WF_nonascii (b : B) (h : WF [b]) : b.toNat < 128 := by
  unfold WF wf1 at h; u8nat; omega

theorem WFString_nil : WFString [] := ⟨[], rfl, by intro c hc; cases hc⟩

theorem WFString_cons_chunk (c t : List B) (hc : WF c) (h0 : c ≠ [0#8]) (ht : WFString t) :
    WFString (c ++ t) := by
  obtain ⟨cs, e, hcs⟩ := ht
  refine ⟨c :: cs, by rw [List.flatten_cons, e], ?_⟩
  intro x hx
  rcases List.mem_cons.mp hx with rfl | hx
  · exact ⟨hc, h0⟩
  · exact hcs x hx

/-- a non-empty accepted string starts with a chunk -/
theorem WFString_uncons (s : List B) (hs : s ≠ []) (h : WFString s) :
    ∃ c t, s = c ++ t ∧ WF c ∧ c ≠ [0#8] ∧ WFString t := by
  obtain ⟨cs, e, hcs⟩ := h
  match cs, e, hcs with
  | [], e, _ => exact absurd e hs
  | c :: cs', e, hcs =>
    refine ⟨c, cs'.flatten, by rw [e, List.flatten_cons], (hcs c (List.mem_cons_self)).1,
      (hcs c (List.mem_cons_self)).2, cs', rfl, ?_⟩
    intro x hx; exact hcs x (List.mem_cons_of_mem _ hx)

theorem chunk_head (b : B) (rest c t : List B) (e : b :: rest = c ++ t) (hc : WF c) :
    ∃ t', c = b :: t' ∧ rest = t' ++ t := by
  match c, hc with
  | b' :: t', _ =>
    rw [List.cons_append] at e
    injection e with e1 e2
    exact ⟨t', by rw [e1], e2⟩

theorem validateStringF_spec : ∀ (fuel : Nat) (s : List B), s.length < fuel →
    (validateStringF fuel s = true ↔ WFString s) := by
  intro fuel
  induction fuel with
  | zero => intro s h; omega
  | succ fuel ih =>
    intro s hlen
    match s with
    | [] => unfold validateStringF; exact ⟨fun _ => WFString_nil, fun _ => rfl⟩
    | b :: rest =>
      unfold validateStringF
      simp only [BitVec.le_def, BitVec.toNat_ofNat, Nat.reducePow, Nat.reduceMod]
      by_cases hb : 128 ≤ b.toNat
      · rw [if_pos hb]
        by_cases hn : validateSeqL (b :: rest) = 0#32
        · simp only [hn, if_true, Bool.false_eq_true, false_iff]
          intro hw
          obtain ⟨c, t, e, hc, h0, _⟩ := WFString_uncons _ (by simp) hw
          have h1 := vsL_of_chunk c t hc h0
          rw [← e, hn] at h1
          have h2 := WF_length hc
          simp only [BitVec.toNat_ofNat, Nat.zero_mod] at h1
          omega
        · simp only [hn, if_false]
          have hn' : (validateSeqL (b :: rest)).toNat ≠ 0 := by
            intro h; apply hn; apply BitVec.eq_of_toNat_eq; rw [h]; rfl
          obtain ⟨n, hnE⟩ : ∃ n, (validateSeqL (b :: rest)).toNat = n := ⟨_, rfl⟩
          rw [hnE] at hn' ⊢
          obtain ⟨hle, hwf, hne⟩ := vsL_chunk (b :: rest) n (by simp) hn' hnE
          have hd : ((b :: rest).drop n).length < fuel := by
            rw [List.length_drop]; simp only [List.length_cons] at hlen hle ⊢; omega
          rw [ih _ hd]
          constructor
          · intro ht
            have := WFString_cons_chunk _ _ hwf hne ht
            rwa [List.take_append_drop] at this
          · intro hw
            obtain ⟨c, t, e, hc, h0, ht⟩ := WFString_uncons _ (by simp) hw
            have h1 := vsL_of_chunk c t hc h0
            rw [← e, hnE] at h1
            rw [e, List.drop_left' h1.symm]
            exact ht
      · rw [if_neg hb]
        have hb' : b.toNat < 128 := by omega
        by_cases h0 : b = 0#8
        · rw [if_pos h0]
          simp only [Bool.false_eq_true, false_iff]
          intro hw
          obtain ⟨c, t, e, hc, hc0, _⟩ := WFString_uncons _ (by simp) hw
          obtain ⟨t', e1, _⟩ := chunk_head b rest c t e hc
          rw [e1] at hc
          have := WF_ascii b t' hc hb'
          rw [this, h0] at e1
          exact hc0 e1
        · rw [if_neg h0]
          have hd : rest.length < fuel := by simp only [List.length_cons] at hlen; omega
          rw [ih _ hd]
          constructor
          · intro ht
            have hw : WF [b] := by unfold WF wf1; u8nat; omega
            have hne : [b] ≠ [0#8] := by intro h; injection h with h _; exact h0 h
            exact WFString_cons_chunk [b] rest hw hne ht
          · intro hw
            obtain ⟨c, t, e, hc, hc0, ht⟩ := WFString_uncons _ (by simp) hw
            obtain ⟨t', e1, e2⟩ := chunk_head b rest c t e hc
            rw [e1] at hc
            have := WF_ascii b t' hc hb'
            rw [this] at e2
            rw [e2]; exact ht

theorem validateString_iff (s : List B) : validateString s = true ↔ WFString s :=
  validateStringF_spec (s.length + 1) s (Nat.lt_succ_self _)

theorem not_WF_nil : ¬ WF ([] : List B) := by unfold WF; exact id

theorem z_eq (b : B) : z b = BitVec.ofNat 32 b.toNat := by
  apply BitVec.eq_of_toNat_eq
  rw [z_toNat, BitVec.toNat_ofNat]
  have := b.isLt
  omega

theorem neg_byte_toInt (b : B) : (-(z b)).toInt = -(b.toNat : Int) := by
  have key : ∀ n : Fin 256, (-(z (BitVec.ofNat 8 n.val))).toInt = -((BitVec.ofNat 8 n.val).toNat : Int) := by
    decide +kernel
  have := key ⟨b.toNat, b.isLt⟩
  simpa only [BitVec.ofNat_toNat, BitVec.setWidth_eq] using this

end UsualProofs.C11
