import UsualProofs.C11.Strings
/-! # C11 helper lemmas: code points of well-formed sequences, lead-byte witnesses -/
open Usual.C11
namespace UsualProofs.C11

theorem cp1_range (b0 : B) (h : wf1 b0) : cp1 b0 < 0x80 := by
  unfold wf1 at h; unfold cp1; u8nat; omega

theorem cp2_range (b0 b1 : B) (h : wf2 b0 b1) : 0x80 ≤ cp2 b0 b1 ∧ cp2 b0 b1 < 0x800 := by
  unfold wf2 at h; unfold cp2; u8nat; omega

theorem cp3_range (b0 b1 b2 : B) (h : wf3 b0 b1 b2) :
    0x800 ≤ cp3 b0 b1 b2 ∧ cp3 b0 b1 b2 < 0x10000 ∧ (cp3 b0 b1 b2 < 0xD800 ∨ 0xDFFF < cp3 b0 b1 b2) := by
  unfold wf3 at h; unfold cp3; u8nat; omega

theorem cp4_range (b0 b1 b2 b3 : B) (h : wf4 b0 b1 b2 b3) :
    0x10000 ≤ cp4 b0 b1 b2 b3 ∧ cp4 b0 b1 b2 b3 ≤ 0x10FFFF := by
  unfold wf4 at h; unfold cp4; u8nat; omega

/-- a well-formed sequence encodes a Unicode scalar value in its shortest form -/
theorem decode_WF (s : List B) (h : WF s) : isScalar (decode s) ∧ encLen (decode s) = s.length := by
  match s, h with
  | [b0], h =>
    have := cp1_range b0 h
    unfold decode isScalar encLen; simp only [List.length_cons, List.length_nil]
    constructor
    · omega
    · rw [if_pos this]
  | [b0, b1], h =>
    have := cp2_range b0 b1 h
    unfold decode isScalar encLen; simp only [List.length_cons, List.length_nil]
    constructor
    · omega
    · rw [if_neg (by omega), if_pos this.2]
  | [b0, b1, b2], h =>
    have := cp3_range b0 b1 b2 h
    unfold decode isScalar encLen; simp only [List.length_cons, List.length_nil]
    constructor
    · omega
    · rw [if_neg (by omega), if_neg (by omega), if_pos this.2.1]
  | [b0, b1, b2, b3], h =>
    have := cp4_range b0 b1 b2 b3 h
    unfold decode isScalar encLen; simp only [List.length_cons, List.length_nil]
    constructor
    · omega
    · rw [if_neg (by omega), if_neg (by omega), if_neg (by omega)]

theorem toInt_ofNat_small (n : Nat) (h : n < 2 ^ 31) : (BitVec.ofNat 32 n).toInt = (n : Int) := by
  rw [BitVec.toInt_eq_toNat_cond, BitVec.toNat_ofNat]
  have : n % 2 ^ 32 = n := Nat.mod_eq_of_lt (by omega)
  rw [this, if_pos (by omega)]

/-- for every lead byte but NUL, some continuation makes the validator return `seqSize b`
(second byte `A0` after `E0`, `90` after `F0`, else `80`; then `80 80`) -/
def leadWitness (b : B) : Nat → B := fun i =>
  if i = 0 then b else if i = 1 then (if b = 0xE0#8 then 0xA0#8 else if b = 0xF0#8 then 0x90#8 else 0x80#8)
  else 0x80#8

theorem seqSize_witness (b : B) (hb : b ≠ 0#8) : validateSeq (leadWitness b) 4 = seqSize b := by
  have key : ∀ n : Fin 256, n.val ≠ 0 →
      validateSeq (leadWitness (BitVec.ofNat 8 n.val)) 4 = seqSize (BitVec.ofNat 8 n.val) := by
    decide +kernel
  have := key ⟨b.toNat, b.isLt⟩ (by
    intro h; apply hb; apply BitVec.eq_of_toNat_eq; simpa using h)
  simpa only [BitVec.ofNat_toNat, BitVec.setWidth_eq] using this

/-- the validator's non-zero result is determined by the lead byte alone -/
theorem seqSize_of_accept (b0 b1 b2 b3 : B) (avail : Nat) (h : validateSeqW b0 b1 b2 b3 avail ≠ 0#32) :
    seqSize b0 = validateSeqW b0 b1 b2 b3 avail := by
  have c := seqSize_cases b0
  rcases vs_range b0 b1 b2 b3 avail with e | e | e | e | e
  · exact absurd e h
  · rw [e]; have := (vs1 b0 b1 b2 b3 avail).mp e; unfold wf1 at this; u8nat; exact c.1.mpr (by omega)
  · rw [e]; have := (vs2 b0 b1 b2 b3 avail).mp e; unfold wf2 at this; u8nat; exact c.2.1.mpr (by omega)
  · rw [e]; have := (vs3 b0 b1 b2 b3 avail).mp e; unfold wf3 at this; u8nat; exact c.2.2.1.mpr (by omega)
  · rw [e]; have := (vs4 b0 b1 b2 b3 avail).mp e; unfold wf4 at this; u8nat; exact c.2.2.2.1.mpr (by omega)

end UsualProofs.C11
