import UsualProofs.C11.Scalar
/-! # C11 helper lemmas: encoding the code point of a well-formed sequence gives the sequence back -/
open Usual.C11
namespace UsualProofs.C11

theorem ofNat_toNat_small (n : Nat) (h : n < 2 ^ 32) : (BitVec.ofNat 32 n).toNat = n := by
  rw [BitVec.toNat_ofNat, Nat.mod_eq_of_lt h]

theorem enc1_inv (b0 : B) (h : wf1 b0) : lo8 (BitVec.ofNat 32 (cp1 b0)) = b0 := by
  have r := cp1_range b0 h
  apply BitVec.eq_of_toNat_eq
  rw [lo8_self _ (by rw [ofNat_toNat_small _ (by omega)]; omega), ofNat_toNat_small _ (by omega)]
  rfl

theorem enc2_inv (b0 b1 : B) (h : wf2 b0 b1) :
    lo8 (0xC0#32 + BitVec.ofNat 32 (cp2 b0 b1) / 64#32) = b0 ∧
    lo8 (0x80#32 + BitVec.ofNat 32 (cp2 b0 b1) % 64#32) = b1 := by
  have r := cp2_range b0 b1 h
  have e := ofNat_toNat_small (cp2 b0 b1) (by omega)
  generalize BitVec.ofNat 32 (cp2 b0 b1) = c at *
  have a := lo8_add 0xC0 (c / 64#32) (by rw [div_toNat c 64 (by omega)]; omega)
  have b := lo8_add 0x80 (c % 64#32) (by rw [mod_toNat c 64 (by omega)]; omega)
  rw [div_toNat c 64 (by omega)] at a; rw [mod_toNat c 64 (by omega)] at b
  unfold wf2 at h; unfold cp2 at e r
  u8nat
  constructor
  · rw [a, e]; omega
  · rw [b, e]; omega

theorem enc3_inv (b0 b1 b2 : B) (h : wf3 b0 b1 b2) :
    lo8 (0xE0#32 + BitVec.ofNat 32 (cp3 b0 b1 b2) / 4096#32) = b0 ∧
    lo8 (0x80#32 + BitVec.ofNat 32 (cp3 b0 b1 b2) / 64#32 % 64#32) = b1 ∧
    lo8 (0x80#32 + BitVec.ofNat 32 (cp3 b0 b1 b2) % 64#32) = b2 := by
  have r := cp3_range b0 b1 b2 h
  have e := ofNat_toNat_small (cp3 b0 b1 b2) (by omega)
  generalize BitVec.ofNat 32 (cp3 b0 b1 b2) = c at *
  have e1 : (c / 64#32 % 64#32).toNat = c.toNat / 64 % 64 := by
    rw [mod_toNat _ 64 (by omega), div_toNat c 64 (by omega)]
  have a := lo8_add 0xE0 (c / 4096#32) (by rw [div_toNat c 4096 (by omega)]; omega)
  have b := lo8_add 0x80 (c / 64#32 % 64#32) (by rw [e1]; omega)
  have d := lo8_add 0x80 (c % 64#32) (by rw [mod_toNat c 64 (by omega)]; omega)
  rw [div_toNat c 4096 (by omega)] at a; rw [e1] at b; rw [mod_toNat c 64 (by omega)] at d
  unfold wf3 at h; unfold cp3 at e r
  u8nat
  refine ⟨?_, ?_, ?_⟩
  · rw [a, e]; omega
  · rw [b, e]; omega
  · rw [d, e]; omega

theorem enc4_inv (b0 b1 b2 b3 : B) (h : wf4 b0 b1 b2 b3) :
    lo8 (0xF0#32 + BitVec.ofNat 32 (cp4 b0 b1 b2 b3) / 262144#32) = b0 ∧
    lo8 (0x80#32 + BitVec.ofNat 32 (cp4 b0 b1 b2 b3) / 4096#32 % 64#32) = b1 ∧
    lo8 (0x80#32 + BitVec.ofNat 32 (cp4 b0 b1 b2 b3) / 64#32 % 64#32) = b2 ∧
    lo8 (0x80#32 + BitVec.ofNat 32 (cp4 b0 b1 b2 b3) % 64#32) = b3 := by
  have r := cp4_range b0 b1 b2 b3 h
  have e := ofNat_toNat_small (cp4 b0 b1 b2 b3) (by omega)
  generalize BitVec.ofNat 32 (cp4 b0 b1 b2 b3) = c at *
  have e1 : (c / 4096#32 % 64#32).toNat = c.toNat / 4096 % 64 := by
    rw [mod_toNat _ 64 (by omega), div_toNat c 4096 (by omega)]
  have e2 : (c / 64#32 % 64#32).toNat = c.toNat / 64 % 64 := by
    rw [mod_toNat _ 64 (by omega), div_toNat c 64 (by omega)]
  have a := lo8_add 0xF0 (c / 262144#32) (by rw [div_toNat c 262144 (by omega)]; omega)
  have b := lo8_add 0x80 (c / 4096#32 % 64#32) (by rw [e1]; omega)
  have d := lo8_add 0x80 (c / 64#32 % 64#32) (by rw [e2]; omega)
  have f := lo8_add 0x80 (c % 64#32) (by rw [mod_toNat c 64 (by omega)]; omega)
  rw [div_toNat c 262144 (by omega)] at a; rw [e1] at b; rw [e2] at d
  rw [mod_toNat c 64 (by omega)] at f
  unfold wf4 at h; unfold cp4 at e r
  u8nat
  refine ⟨?_, ?_, ?_, ?_⟩
  · rw [a, e]; omega
  · rw [b, e]; omega
  · rw [d, e]; omega
  · rw [f, e]; omega

/-- encoding the code point of a well-formed sequence stores exactly that sequence -/
theorem putChar_decode (s : List B) (room : Nat) (h : WF s) (hr : s.length ≤ room) :
    putChar room (BitVec.ofNat 32 (decode s)) = (true, s.length, s) := by
  match s, h with
  | [b0], h =>
    have r := cp1_range b0 h
    show putChar room (BitVec.ofNat 32 (cp1 b0)) = (true, 1, [b0])
    rw [pc1 room _ (by rw [ofNat_toNat_small _ (by omega)]; exact r) hr, enc1_inv b0 h]
  | [b0, b1], h =>
    have r := cp2_range b0 b1 h
    have i := enc2_inv b0 b1 h
    show putChar room (BitVec.ofNat 32 (cp2 b0 b1)) = (true, 2, [b0, b1])
    rw [pc2 room _ (by rw [ofNat_toNat_small _ (by omega)]; exact r.1)
      (by rw [ofNat_toNat_small _ (by omega)]; exact r.2) hr, i.1, i.2]
  | [b0, b1, b2], h =>
    have r := cp3_range b0 b1 b2 h
    have i := enc3_inv b0 b1 b2 h
    show putChar room (BitVec.ofNat 32 (cp3 b0 b1 b2)) = (true, 3, [b0, b1, b2])
    rw [pc3 room _ (by rw [ofNat_toNat_small _ (by omega)]; exact r.1)
      (by rw [ofNat_toNat_small _ (by omega)]; exact r.2.1)
      (by rw [ofNat_toNat_small _ (by omega)]; exact r.2.2) hr, i.1, i.2.1, i.2.2]
  | [b0, b1, b2, b3], h =>
    have r := cp4_range b0 b1 b2 b3 h
    have i := enc4_inv b0 b1 b2 b3 h
    show putChar room (BitVec.ofNat 32 (cp4 b0 b1 b2 b3)) = (true, 4, [b0, b1, b2, b3])
    rw [pc4 room _ (by rw [ofNat_toNat_small _ (by omega)]; exact r.1)
      (by rw [ofNat_toNat_small _ (by omega)]; exact r.2) hr, i.1, i.2.1, i.2.2.1, i.2.2.2]

end UsualProofs.C11
