import UsualProofs.C11.Lemmas
/-! # C11 helper lemmas: `getCharW` branch by branch (kernel-only: `simp`, `split`, `omega`) -/
open Usual.C11
namespace UsualProofs.C11

theorem dec2_cp (b0 b1 : B) (h : wf2 b0 b1) : dec2 b0 b1 = BitVec.ofNat 32 (cp2 b0 b1) := by
  apply BitVec.eq_of_toNat_eq
  unfold wf2 at h; unfold cp2
  u8nat
  have := b0.isLt; have := b1.isLt; omega

theorem dec3_cp (b0 b1 b2 : B) (h : wf3 b0 b1 b2) : dec3 b0 b1 b2 = BitVec.ofNat 32 (cp3 b0 b1 b2) := by
  apply BitVec.eq_of_toNat_eq
  unfold wf3 at h; unfold cp3
  u8nat
  have := b0.isLt; have := b1.isLt; have := b2.isLt; omega

theorem dec4_cp (b0 b1 b2 b3 : B) (h : wf4 b0 b1 b2 b3) :
    dec4 b0 b1 b2 b3 = BitVec.ofNat 32 (cp4 b0 b1 b2 b3) := by
  apply BitVec.eq_of_toNat_eq
  unfold wf4 at h; unfold cp4
  u8nat
  have := b0.isLt; have := b1.isLt; have := b2.isLt; have := b3.isLt; omega

theorem gc1 (b0 b1 b2 b3 : B) (avail : Nat) (h : wf1 b0) :
    getCharW b0 b1 b2 b3 avail = (z b0, 1) := by
  unfold getCharW; unfold wf1 at h
  u8nat
  rw [if_pos (by omega)]

theorem gc2 (b0 b1 b2 b3 : B) (avail : Nat) (ha : 2 ≤ avail) (h : wf2 b0 b1) :
    getCharW b0 b1 b2 b3 avail = (dec2 b0 b1, 2) := by
  unfold getCharW bad; unfold wf2 at h
  u8nat
  have h0 := b0.isLt; have h1 := b1.isLt
  generalize dec2 b0 b1 = d; generalize z b0 = zb
  generalize b0.toNat = n0 at *; generalize b1.toNat = n1 at *
  repeat' split
  all_goals first | rfl | (exfalso; omega)

theorem gc3 (b0 b1 b2 b3 : B) (avail : Nat) (ha : 3 ≤ avail) (h : wf3 b0 b1 b2) :
    getCharW b0 b1 b2 b3 avail = (dec3 b0 b1 b2, 3) := by
  unfold getCharW bad; unfold wf3 at h
  u8nat
  have h0 := b0.isLt; have h1 := b1.isLt; have h2 := b2.isLt
  generalize dec3 b0 b1 b2 = d; generalize dec2 b0 b1 = d2; generalize z b0 = zb
  generalize b0.toNat = n0 at *; generalize b1.toNat = n1 at *; generalize b2.toNat = n2 at *
  repeat' split
  all_goals first | rfl | (exfalso; omega)

theorem gc4 (b0 b1 b2 b3 : B) (avail : Nat) (ha : 4 ≤ avail) (h : wf4 b0 b1 b2 b3) :
    getCharW b0 b1 b2 b3 avail = (dec4 b0 b1 b2 b3, 4) := by
  unfold getCharW bad; unfold wf4 at h
  u8nat
  have h0 := b0.isLt; have h1 := b1.isLt; have h2 := b2.isLt; have h3 := b3.isLt
  generalize dec4 b0 b1 b2 b3 = d; generalize dec3 b0 b1 b2 = d3; generalize dec2 b0 b1 = d2
  generalize z b0 = zb
  generalize b0.toNat = n0 at *; generalize b1.toNat = n1 at *
  generalize b2.toNat = n2 at *; generalize b3.toNat = n3 at *
  repeat' split
  all_goals first | rfl | (exfalso; omega)

/-- no row of Table 3-7 fits the bytes before `end`: the decoder reports the lead byte -/
theorem gcbad (b0 b1 b2 b3 : B) (avail : Nat) (h1 : ¬ wf1 b0) (h2 : ¬ (2 ≤ avail ∧ wf2 b0 b1))
    (h3 : ¬ (3 ≤ avail ∧ wf3 b0 b1 b2)) (h4 : ¬ (4 ≤ avail ∧ wf4 b0 b1 b2 b3)) :
    getCharW b0 b1 b2 b3 avail = bad b0 := by
  unfold getCharW bad; unfold wf1 at h1; unfold wf2 at h2; unfold wf3 at h3; unfold wf4 at h4
  u8nat
  have k0 := b0.isLt; have k1 := b1.isLt; have k2 := b2.isLt; have k3 := b3.isLt
  generalize dec4 b0 b1 b2 b3 = d; generalize dec3 b0 b1 b2 = d3; generalize dec2 b0 b1 = d2
  generalize z b0 = zb
  generalize b0.toNat = n0 at *; generalize b1.toNat = n1 at *
  generalize b2.toNat = n2 at *; generalize b3.toNat = n3 at *
  repeat' split
  all_goals first | rfl | (exfalso; omega)

end UsualProofs.C11
