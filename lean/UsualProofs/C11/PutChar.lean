import UsualProofs.C11.Lemmas
/-! # C11 helper lemmas: `putChar`, `charSize`, `seqSize` (kernel-only) -/
open Usual.C11
namespace UsualProofs.C11

/-- a stored byte `K + x` with `x < 64`, `K ≤ 240` -/
theorem lo8_add (k : Nat) (x : BitVec 32) (hx : k + x.toNat < 256) :
    (lo8 (BitVec.ofNat 32 k + x)).toNat = k + x.toNat := by
  unfold lo8
  rw [BitVec.truncate_eq_setWidth, BitVec.toNat_setWidth, BitVec.toNat_add, BitVec.toNat_ofNat]
  simp only [Nat.reducePow]
  rw [Nat.mod_eq_of_lt (a := k) (by omega), Nat.mod_eq_of_lt (a := k + x.toNat) (by omega),
    Nat.mod_eq_of_lt hx]

theorem div_toNat (c : BitVec 32) (k : Nat) (hk : k < 2 ^ 32) :
    (c / BitVec.ofNat 32 k).toNat = c.toNat / k := by
  rw [BitVec.toNat_udiv, BitVec.toNat_ofNat, Nat.mod_eq_of_lt hk]

theorem mod_toNat (c : BitVec 32) (k : Nat) (hk : k < 2 ^ 32) :
    (c % BitVec.ofNat 32 k).toNat = c.toNat % k := by
  rw [BitVec.toNat_umod, BitVec.toNat_ofNat, Nat.mod_eq_of_lt hk]

theorem lo8_self (c : BitVec 32) (h : c.toNat < 256) : (lo8 c).toNat = c.toNat := by
  unfold lo8
  rw [BitVec.truncate_eq_setWidth, BitVec.toNat_setWidth]
  exact Nat.mod_eq_of_lt h

/-- rewrite comparisons on the code point into `Nat` arithmetic -/
macro "c32nat" : tactic => `(tactic|
  simp only [BitVec.lt_def, BitVec.le_def, BitVec.toNat_ofNat, Nat.reducePow, Nat.reduceMod] at *)

theorem charSize_eq (c : BitVec 32) : charSize c = BitVec.ofNat 32 (encLen c.toNat) := by
  unfold charSize encLen
  c32nat
  repeat' split
  all_goals rfl

/-! ### the four storing branches -/

theorem pc1 (room : Nat) (c : BitVec 32) (hc : c.toNat < 0x80) (hr : 1 ≤ room) :
    putChar room c = (true, 1, [lo8 c]) := by
  unfold putChar
  c32nat
  rw [if_pos hc, if_neg (by omega)]

theorem pc2 (room : Nat) (c : BitVec 32) (h1 : 0x80 ≤ c.toNat) (h2 : c.toNat < 0x800) (hr : 2 ≤ room) :
    putChar room c = (true, 2, [lo8 (0xC0#32 + c / 64#32), lo8 (0x80#32 + c % 64#32)]) := by
  unfold putChar
  c32nat
  rw [if_neg (by omega), if_pos h2, if_neg (by omega)]

theorem pc3 (room : Nat) (c : BitVec 32) (h1 : 0x800 ≤ c.toNat) (h2 : c.toNat < 0x10000)
    (hs : c.toNat < 0xD800 ∨ 0xDFFF < c.toNat) (hr : 3 ≤ room) :
    putChar room c = (true, 3, [lo8 (0xE0#32 + c / 4096#32), lo8 (0x80#32 + c / 64#32 % 64#32),
      lo8 (0x80#32 + c % 64#32)]) := by
  unfold putChar
  c32nat
  rw [if_neg (by omega), if_neg (by omega), if_pos h2, if_neg (by omega), if_pos hs]

theorem pc4 (room : Nat) (c : BitVec 32) (h1 : 0x10000 ≤ c.toNat) (h2 : c.toNat ≤ 0x10FFFF)
    (hr : 4 ≤ room) :
    putChar room c = (true, 4, [lo8 (0xF0#32 + c / 262144#32), lo8 (0x80#32 + c / 4096#32 % 64#32),
      lo8 (0x80#32 + c / 64#32 % 64#32), lo8 (0x80#32 + c % 64#32)]) := by
  unfold putChar
  c32nat
  rw [if_neg (by omega), if_neg (by omega), if_neg (by omega), if_pos h2, if_neg (by omega)]

/-! ### the stored bytes are the well-formed sequence of the code point -/

theorem enc2_ok (c : BitVec 32) (h1 : 0x80 ≤ c.toNat) (h2 : c.toNat < 0x800) :
    wf2 (lo8 (0xC0#32 + c / 64#32)) (lo8 (0x80#32 + c % 64#32)) ∧
    cp2 (lo8 (0xC0#32 + c / 64#32)) (lo8 (0x80#32 + c % 64#32)) = c.toNat := by
  have a := lo8_add 0xC0 (c / 64#32) (by rw [div_toNat c 64 (by omega)]; omega)
  have b := lo8_add 0x80 (c % 64#32) (by rw [mod_toNat c 64 (by omega)]; omega)
  rw [div_toNat c 64 (by omega)] at a; rw [mod_toNat c 64 (by omega)] at b
  unfold wf2 cp2
  simp only [BitVec.le_def, BitVec.toNat_ofNat, Nat.reducePow, Nat.reduceMod]
  rw [a, b]
  omega

theorem enc3_ok (c : BitVec 32) (h1 : 0x800 ≤ c.toNat) (h2 : c.toNat < 0x10000)
    (hs : c.toNat < 0xD800 ∨ 0xDFFF < c.toNat) :
    wf3 (lo8 (0xE0#32 + c / 4096#32)) (lo8 (0x80#32 + c / 64#32 % 64#32)) (lo8 (0x80#32 + c % 64#32)) ∧
    cp3 (lo8 (0xE0#32 + c / 4096#32)) (lo8 (0x80#32 + c / 64#32 % 64#32)) (lo8 (0x80#32 + c % 64#32))
      = c.toNat := by
  have e1 : (c / 64#32 % 64#32).toNat = c.toNat / 64 % 64 := by
    rw [mod_toNat _ 64 (by omega), div_toNat c 64 (by omega)]
  have a := lo8_add 0xE0 (c / 4096#32) (by rw [div_toNat c 4096 (by omega)]; omega)
  have b := lo8_add 0x80 (c / 64#32 % 64#32) (by rw [e1]; omega)
  have d := lo8_add 0x80 (c % 64#32) (by rw [mod_toNat c 64 (by omega)]; omega)
  rw [div_toNat c 4096 (by omega)] at a; rw [e1] at b; rw [mod_toNat c 64 (by omega)] at d
  unfold wf3 cp3
  simp only [BitVec.le_def, BitVec.toNat_ofNat, ← BitVec.toNat_inj, Nat.reducePow, Nat.reduceMod]
  rw [a, b, d]
  omega

theorem enc4_ok (c : BitVec 32) (h1 : 0x10000 ≤ c.toNat) (h2 : c.toNat ≤ 0x10FFFF) :
    wf4 (lo8 (0xF0#32 + c / 262144#32)) (lo8 (0x80#32 + c / 4096#32 % 64#32))
      (lo8 (0x80#32 + c / 64#32 % 64#32)) (lo8 (0x80#32 + c % 64#32)) ∧
    cp4 (lo8 (0xF0#32 + c / 262144#32)) (lo8 (0x80#32 + c / 4096#32 % 64#32))
      (lo8 (0x80#32 + c / 64#32 % 64#32)) (lo8 (0x80#32 + c % 64#32)) = c.toNat := by
  have e1 : (c / 4096#32 % 64#32).toNat = c.toNat / 4096 % 64 := by
    rw [mod_toNat _ 64 (by omega), div_toNat c 4096 (by omega)]
  have e2 : (c / 64#32 % 64#32).toNat = c.toNat / 64 % 64 := by
    rw [mod_toNat _ 64 (by omega), div_toNat c 64 (by omega)]
  have a := lo8_add 0xF0 (c / 262144#32) (by rw [div_toNat c 262144 (by omega)]; omega)
  have b := lo8_add 0x80 (c / 4096#32 % 64#32) (by rw [e1]; omega)
  have d := lo8_add 0x80 (c / 64#32 % 64#32) (by rw [e2]; omega)
  have e := lo8_add 0x80 (c % 64#32) (by rw [mod_toNat c 64 (by omega)]; omega)
  rw [div_toNat c 262144 (by omega)] at a; rw [e1] at b; rw [e2] at d
  rw [mod_toNat c 64 (by omega)] at e
  unfold wf4 cp4
  simp only [BitVec.le_def, BitVec.toNat_ofNat, ← BitVec.toNat_inj, Nat.reducePow, Nat.reduceMod]
  rw [a, b, d, e]
  omega

/-! ### what `putChar` does in general -/

/-- the advance equals the number of stored bytes, which never exceeds `room` -/
theorem pc_len (room : Nat) (c : BitVec 32) :
    (putChar room c).2.1 = (putChar room c).2.2.length ∧ (putChar room c).2.2.length ≤ room := by
  unfold putChar
  repeat' split
  all_goals simp only [List.length_cons, List.length_nil, Nat.zero_add, Nat.reduceAdd, true_and]
  all_goals omega

/-- nothing is stored and the pointer stays for surrogates and values above U+10FFFF -/
theorem pc_nonscalar (room : Nat) (c : BitVec 32) (h : ¬ isScalar c.toNat) :
    (putChar room c).2 = (0, []) := by
  unfold putChar; unfold isScalar at h
  c32nat
  repeat' split
  all_goals first | rfl | (exfalso; omega)

/-- `false` (the `no_room` exit) exactly when a value up to U+10FFFF needs more bytes than fit;
nothing is stored then -/
theorem pc_false_iff (room : Nat) (c : BitVec 32) :
    (putChar room c).1 = false ↔ c.toNat ≤ 0x10FFFF ∧ room < encLen c.toNat := by
  unfold putChar encLen
  c32nat
  repeat' split
  all_goals simp only [Bool.true_eq_false, false_iff, true_iff]
  all_goals omega

theorem pc_false_nothing (room : Nat) (c : BitVec 32) (h : (putChar room c).1 = false) :
    (putChar room c).2 = (0, []) := by
  unfold putChar at h ⊢
  repeat' split
  all_goals first | rfl | (exfalso; simp_all)

/-! ### utf8_seq_size -/

theorem seqSize_cases (b : B) :
    (seqSize b = 1#32 ↔ b.toNat < 0x80) ∧ (seqSize b = 2#32 ↔ 0xC2 ≤ b.toNat ∧ b.toNat < 0xE0) ∧
    (seqSize b = 3#32 ↔ 0xE0 ≤ b.toNat ∧ b.toNat < 0xF0) ∧
    (seqSize b = 4#32 ↔ 0xF0 ≤ b.toNat ∧ b.toNat < 0xF5) ∧
    (seqSize b = 0#32 ↔ (0x80 ≤ b.toNat ∧ b.toNat < 0xC2) ∨ 0xF5 ≤ b.toNat) := by
  unfold seqSize
  simp only [BitVec.lt_def, BitVec.toNat_ofNat, Nat.reducePow, Nat.reduceMod]
  have := b.isLt
  generalize b.toNat = n at *
  repeat' split
  all_goals simp only [BitVec.reduceEq, false_iff, true_iff]
  all_goals omega

end UsualProofs.C11
