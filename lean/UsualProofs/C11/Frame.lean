import Usual.C11.Spec
/-! # C11 helper lemmas: the readers' results do not depend on bytes at or after `end` -/
open Usual.C11
namespace UsualProofs.C11

theorem vsW_congr (b0 b1 b2 b3 c1 c2 c3 : B) (avail : Nat)
    (h1 : 2 ≤ avail → b1 = c1) (h2 : 3 ≤ avail → b2 = c2) (h3 : 4 ≤ avail → b3 = c3) :
    validateSeqW b0 b1 b2 b3 avail = validateSeqW b0 c1 c2 c3 avail := by
  by_cases a4 : 4 ≤ avail
  · rw [h1 (by omega), h2 (by omega), h3 a4]
  · have k4 : avail < 4 := by omega
    by_cases a3 : 3 ≤ avail
    · rw [h1 (by omega), h2 a3]; unfold validateSeqW; simp only [k4, ↓reduceIte]
    · have k3 : avail < 3 := by omega
      by_cases a2 : 2 ≤ avail
      · rw [h1 a2]; unfold validateSeqW; simp only [k3, k4, ↓reduceIte]
      · have k2 : avail < 2 := by omega
        unfold validateSeqW; simp only [k2, k3, k4, ↓reduceIte]

theorem gcW_congr (b0 b1 b2 b3 c1 c2 c3 : B) (avail : Nat)
    (h1 : 2 ≤ avail → b1 = c1) (h2 : 3 ≤ avail → b2 = c2) (h3 : 4 ≤ avail → b3 = c3) :
    getCharW b0 b1 b2 b3 avail = getCharW b0 c1 c2 c3 avail := by
  by_cases a4 : 4 ≤ avail
  · rw [h1 (by omega), h2 (by omega), h3 a4]
  · have k4 : avail < 4 := by omega
    by_cases a3 : 3 ≤ avail
    · rw [h1 (by omega), h2 a3]; unfold getCharW; simp only [k4, ↓reduceIte]
    · have k3 : avail < 3 := by omega
      by_cases a2 : 2 ≤ avail
      · rw [h1 a2]; unfold getCharW; simp only [k3, k4, ↓reduceIte]
      · have k2 : avail < 2 := by omega
        unfold getCharW; simp only [k2, k3, k4, ↓reduceIte]

end UsualProofs.C11
