import Usual.C11.Spec
open Usual.C11
namespace UsualProofs.C11

theorem z_toNat (b : B) : (z b).toNat = b.toNat := by
  unfold z; simp only [BitVec.truncate_eq_setWidth, BitVec.toNat_setWidth]; have := b.isLt; omega

/-- the machine-arithmetic negation used by the model is two's-complement negation of the
promoted byte (checked for all 256 bytes by kernel evaluation) -/
theorem negByte_eq (b : B) : negByte b = -(z b) := by
  have key : ∀ n : Fin 256, negByte (BitVec.ofNat 8 n.val) = -(z (BitVec.ofNat 8 n.val)) := by
    decide +kernel
  have := key ⟨b.toNat, b.isLt⟩
  simpa only [BitVec.ofNat_toNat, BitVec.setWidth_eq] using this

theorem bad_eq (b : B) : bad b = (-(z b), 1) := by unfold bad; rw [negByte_eq]

theorem zmm_toNat (b : B) (m k : Nat) (hm : m ≤ 256) (hm0 : 0 < m) (hk : k ≤ 262144) :
    (z b % BitVec.ofNat 32 m * BitVec.ofNat 32 k).toNat = b.toNat % m * k := by
  have := b.isLt
  have h1 : b.toNat % m < m := Nat.mod_lt _ hm0
  have h2 : b.toNat % m * k ≤ 255 * 262144 := Nat.mul_le_mul (by omega) hk
  simp only [BitVec.toNat_mul, BitVec.toNat_umod, z_toNat, BitVec.toNat_ofNat, Nat.reducePow]
  rw [Nat.mod_eq_of_lt (a := m) (by omega), Nat.mod_eq_of_lt (a := k) (by omega), Nat.mod_eq_of_lt (by omega)]

theorem zm_toNat (b : B) (m : Nat) (hm : m ≤ 256) (hm0 : 0 < m) :
    (z b % BitVec.ofNat 32 m).toNat = b.toNat % m := by
  simp only [BitVec.toNat_umod, z_toNat, BitVec.toNat_ofNat, Nat.reducePow]
  rw [Nat.mod_eq_of_lt (a := m) (by omega)]

theorem dec2_toNat (b0 b1 : B) : (dec2 b0 b1).toNat = b0.toNat % 32 * 64 + b1.toNat % 64 := by
  unfold dec2
  rw [BitVec.toNat_add, zmm_toNat b0 32 64 (by omega) (by omega) (by omega),
    zm_toNat b1 64 (by omega) (by omega)]
  have h0 : b0.toNat % 32 < 32 := Nat.mod_lt _ (by omega)
  have h1 : b1.toNat % 64 < 64 := Nat.mod_lt _ (by omega)
  generalize b0.toNat % 32 = x0 at *
  generalize b1.toNat % 64 = x1 at *
  omega

theorem dec3_toNat (b0 b1 b2 : B) :
    (dec3 b0 b1 b2).toNat = b0.toNat % 16 * 4096 + b1.toNat % 64 * 64 + b2.toNat % 64 := by
  unfold dec3
  rw [BitVec.toNat_add, BitVec.toNat_add, zmm_toNat b0 16 4096 (by omega) (by omega) (by omega),
    zmm_toNat b1 64 64 (by omega) (by omega) (by omega), zm_toNat b2 64 (by omega) (by omega)]
  have h0 : b0.toNat % 16 < 16 := Nat.mod_lt _ (by omega)
  have h1 : b1.toNat % 64 < 64 := Nat.mod_lt _ (by omega)
  have h2 : b2.toNat % 64 < 64 := Nat.mod_lt _ (by omega)
  generalize b0.toNat % 16 = x0 at *
  generalize b1.toNat % 64 = x1 at *
  generalize b2.toNat % 64 = x2 at *
  omega

theorem dec4_toNat (b0 b1 b2 b3 : B) :
    (dec4 b0 b1 b2 b3).toNat =
      b0.toNat % 8 * 262144 + b1.toNat % 64 * 4096 + b2.toNat % 64 * 64 + b3.toNat % 64 := by
  unfold dec4
  rw [BitVec.toNat_add, BitVec.toNat_add, BitVec.toNat_add,
    zmm_toNat b0 8 262144 (by omega) (by omega) (by omega),
    zmm_toNat b1 64 4096 (by omega) (by omega) (by omega),
    zmm_toNat b2 64 64 (by omega) (by omega) (by omega), zm_toNat b3 64 (by omega) (by omega)]
  have h0 : b0.toNat % 8 < 8 := Nat.mod_lt _ (by omega)
  have h1 : b1.toNat % 64 < 64 := Nat.mod_lt _ (by omega)
  have h2 : b2.toNat % 64 < 64 := Nat.mod_lt _ (by omega)
  have h3 : b3.toNat % 64 < 64 := Nat.mod_lt _ (by omega)
  generalize b0.toNat % 8 = x0 at *
  generalize b1.toNat % 64 = x1 at *
  generalize b2.toNat % 64 = x2 at *
  generalize b3.toNat % 64 = x3 at *
  omega

/-! ## byte classes as arithmetic on `toNat` -/

theorem isTail_iff (b : B) : isTail b = true ↔ 128 ≤ b.toNat ∧ b.toNat ≤ 191 := by
  unfold isTail
  simp only [Bool.and_eq_true, decide_eq_true_eq, BitVec.le_def, BitVec.toNat_ofNat, Nat.reducePow,
    Nat.reduceMod]

theorem isTail_false_iff (b : B) : isTail b = false ↔ ¬(128 ≤ b.toNat ∧ b.toNat ≤ 191) := by
  rw [← isTail_iff]; simp only [Bool.not_eq_true]

/-- rewrite byte comparisons, tail tests and decoder values into `Nat` arithmetic -/
macro "u8nat" : tactic => `(tactic|
  simp only [BitVec.lt_def, BitVec.le_def, BitVec.toNat_ofNat, ← BitVec.toNat_inj, Nat.reducePow,
    Nat.reduceMod, isTail_iff, isTail_false_iff, Bool.and_eq_true, Bool.or_eq_true,
    Bool.not_eq_true', ne_eq, dec2_toNat, dec3_toNat, dec4_toNat] at *)

/-! ## utf8_validate_seq -/

theorem vs_range (b0 b1 b2 b3 : B) (avail : Nat) :
    validateSeqW b0 b1 b2 b3 avail = 0#32 ∨ validateSeqW b0 b1 b2 b3 avail = 1#32 ∨
    validateSeqW b0 b1 b2 b3 avail = 2#32 ∨ validateSeqW b0 b1 b2 b3 avail = 3#32 ∨
    validateSeqW b0 b1 b2 b3 avail = 4#32 := by
  unfold validateSeqW
  repeat' split
  all_goals simp only [BitVec.reduceEq, or_true, or_false]

theorem vs1 (b0 b1 b2 b3 : B) (avail : Nat) :
    validateSeqW b0 b1 b2 b3 avail = 1#32 ↔ wf1 b0 ∧ b0 ≠ 0#8 := by
  unfold validateSeqW wf1
  u8nat
  have h0 := b0.isLt
  generalize b0.toNat = n0 at *
  repeat' split
  all_goals simp only [BitVec.toNat_ofNat, Nat.reducePow, Nat.reduceMod, Nat.reduceEqDiff, false_iff, true_iff]
  all_goals omega

theorem vs2 (b0 b1 b2 b3 : B) (avail : Nat) :
    validateSeqW b0 b1 b2 b3 avail = 2#32 ↔ 2 ≤ avail ∧ wf2 b0 b1 := by
  unfold validateSeqW wf2
  u8nat
  have h0 := b0.isLt; have h1 := b1.isLt
  generalize b0.toNat = n0 at *; generalize b1.toNat = n1 at *
  repeat' split
  all_goals simp only [BitVec.toNat_ofNat, Nat.reducePow, Nat.reduceMod, Nat.reduceEqDiff, false_iff, true_iff]
  all_goals omega

theorem vs3 (b0 b1 b2 b3 : B) (avail : Nat) :
    validateSeqW b0 b1 b2 b3 avail = 3#32 ↔ 3 ≤ avail ∧ wf3 b0 b1 b2 := by
  unfold validateSeqW wf3
  u8nat
  have h0 := b0.isLt; have h1 := b1.isLt; have h2 := b2.isLt
  generalize b0.toNat = n0 at *; generalize b1.toNat = n1 at *; generalize b2.toNat = n2 at *
  repeat' split
  all_goals simp only [BitVec.toNat_ofNat, Nat.reducePow, Nat.reduceMod, Nat.reduceEqDiff, false_iff, true_iff]
  all_goals omega

theorem vs4 (b0 b1 b2 b3 : B) (avail : Nat) :
    validateSeqW b0 b1 b2 b3 avail = 4#32 ↔ 4 ≤ avail ∧ wf4 b0 b1 b2 b3 := by
  unfold validateSeqW wf4
  u8nat
  have h0 := b0.isLt; have h1 := b1.isLt; have h2 := b2.isLt; have h3 := b3.isLt
  generalize b0.toNat = n0 at *; generalize b1.toNat = n1 at *
  generalize b2.toNat = n2 at *; generalize b3.toNat = n3 at *
  repeat' split
  all_goals simp only [BitVec.toNat_ofNat, Nat.reducePow, Nat.reduceMod, Nat.reduceEqDiff, false_iff, true_iff]
  all_goals omega

end UsualProofs.C11
