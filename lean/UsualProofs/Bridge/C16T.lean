import Std.Tactic.BVDecide
import Usual.Gen.C16T
import Usual.C16.SipHash
import Usual.C16.Lookup3
import Usual.C16.Spooky
import Usual.C16.Crc32
/-!
# C16 translation tie: the round / mix primitives of siphash.c, lookup3.c and crc32.c

`Usual.Gen.C16T.*` is regenerated on every run of `checks/C16.py`.  The round functions of
siphash.c, lookup3.c and spooky.c are macros used inside one big function each; they are instantiated
by ten one-line wrappers (`t_sip_round`, `t_sip_compress`, `t_sip_finalize`, `t_l3_mix`, `t_l3_final`,
`t_sp_short_mix`, `t_sp_short_end`, `t_sp_mix`, `t_sp_end_partial`, `t_sp_end`; text in
`extract/c2lean.py: C16_STUB`) that load the words from an array, expand the repository's macro
and store the words back — the macro text clang sees is the repository's.  crc32.c needs no glue:
`crc32()` with the table `crc_tab[256]` read from its initialiser, and the `while (len--)` loop of
`calc_crc32`.

* `bridge_sip_round/compress/finalize` → `SipHash.round/compress/finalize` (what `siphash24_eq_paper` builds on);
* `bridge_l3_mix/final` → `Lookup3.mix/final`;
* `bridge_sp_short_mix/short_end/mix/end_partial/end` → `Spooky.shortMix/shortEnd/mix/endPartial/endMix`
  (the mixing functions `spooky_eq_published` rests on);
* `crc_tab_eq` (the table clang reads = the regenerated `crcTab`), `bridge_crc32_step` → `Crc32.step`,
  `bridge_calc_crc32` (every fuel above the length) → `Crc32.calcCrc32`.

`bv_decide` only for "the translated rotation by k = the model's rotation by k" and two mask/shift
identities.  The surrounding loops / tail switches of siphash24, hash_lookup3 and spookyhash, and all of
xxhash, stay tied by the correspondence run.
-/
set_option linter.unusedSimpArgs false
namespace UsualProofs.Bridge.C16T
open Usual.C16 Usual.Gen.C16T

/-! ## siphash.c -/

def sipG (s : SipHash.St) : Array (BitVec 64) := #[s.v0.toBitVec, s.v1.toBitVec, s.v2.toBitVec, s.v3.toBitVec]

theorem rol64_13 (v : UInt64) : (Usual.C16.rol64 v 13).toBitVec = Usual.Gen.C16T.rol64 v.toBitVec (13#32) := by
  unfold Usual.Gen.C16T.rol64 Usual.C16.rol64; bv_decide
theorem rol64_32 (v : UInt64) : (Usual.C16.rol64 v 32).toBitVec = Usual.Gen.C16T.rol64 v.toBitVec (32#32) := by
  unfold Usual.Gen.C16T.rol64 Usual.C16.rol64; bv_decide
theorem rol64_16 (v : UInt64) : (Usual.C16.rol64 v 16).toBitVec = Usual.Gen.C16T.rol64 v.toBitVec (16#32) := by
  unfold Usual.Gen.C16T.rol64 Usual.C16.rol64; bv_decide
theorem rol64_21 (v : UInt64) : (Usual.C16.rol64 v 21).toBitVec = Usual.Gen.C16T.rol64 v.toBitVec (21#32) := by
  unfold Usual.Gen.C16T.rol64 Usual.C16.rol64; bv_decide
theorem rol64_17 (v : UInt64) : (Usual.C16.rol64 v 17).toBitVec = Usual.Gen.C16T.rol64 v.toBitVec (17#32) := by
  unfold Usual.Gen.C16T.rol64 Usual.C16.rol64; bv_decide

/-- `SIP_ROUND1` as clang expands it = the model's `round` -/
theorem bridge_sip_round (s : SipHash.St) : t_sip_round (sipG s) = sipG (SipHash.round s) := by
  simp [t_sip_round, sipG, SipHash.round, rol64_13, rol64_32, rol64_16, rol64_21, rol64_17]

/-- `sip_compress(2)` = the model's `compress` -/
theorem bridge_sip_compress (s : SipHash.St) (m : UInt64) :
    t_sip_compress (sipG s) m.toBitVec = sipG (SipHash.compress s m) := by
  simp [t_sip_compress, sipG, SipHash.compress, SipHash.round, rol64_13, rol64_32, rol64_16, rol64_21, rol64_17]

/-- `sip_finalize(4); return v0 ^ v1 ^ v2 ^ v3` = the model's `finalize` -/
theorem bridge_sip_finalize (s : SipHash.St) :
    t_sip_finalize (sipG s) = (SipHash.finalize s).toBitVec := by
  simp [t_sip_finalize, sipG, SipHash.finalize, SipHash.round, rol64_13, rol64_32, rol64_16, rol64_21, rol64_17]

theorem rol64_5 (v : UInt64) : (Usual.C16.rol64 v 5).toBitVec = Usual.Gen.C16T.rol64 v.toBitVec (5#32) := by
  unfold Usual.Gen.C16T.rol64 Usual.C16.rol64; bv_decide
theorem rol64_9 (v : UInt64) : (Usual.C16.rol64 v 9).toBitVec = Usual.Gen.C16T.rol64 v.toBitVec (9#32) := by
  unfold Usual.Gen.C16T.rol64 Usual.C16.rol64; bv_decide
theorem rol64_10 (v : UInt64) : (Usual.C16.rol64 v 10).toBitVec = Usual.Gen.C16T.rol64 v.toBitVec (10#32) := by
  unfold Usual.Gen.C16T.rol64 Usual.C16.rol64; bv_decide
theorem rol64_11 (v : UInt64) : (Usual.C16.rol64 v 11).toBitVec = Usual.Gen.C16T.rol64 v.toBitVec (11#32) := by
  unfold Usual.Gen.C16T.rol64 Usual.C16.rol64; bv_decide
theorem rol64_15 (v : UInt64) : (Usual.C16.rol64 v 15).toBitVec = Usual.Gen.C16T.rol64 v.toBitVec (15#32) := by
  unfold Usual.Gen.C16T.rol64 Usual.C16.rol64; bv_decide
theorem rol64_22 (v : UInt64) : (Usual.C16.rol64 v 22).toBitVec = Usual.Gen.C16T.rol64 v.toBitVec (22#32) := by
  unfold Usual.Gen.C16T.rol64 Usual.C16.rol64; bv_decide
theorem rol64_25 (v : UInt64) : (Usual.C16.rol64 v 25).toBitVec = Usual.Gen.C16T.rol64 v.toBitVec (25#32) := by
  unfold Usual.Gen.C16T.rol64 Usual.C16.rol64; bv_decide
theorem rol64_26 (v : UInt64) : (Usual.C16.rol64 v 26).toBitVec = Usual.Gen.C16T.rol64 v.toBitVec (26#32) := by
  unfold Usual.Gen.C16T.rol64 Usual.C16.rol64; bv_decide
theorem rol64_28 (v : UInt64) : (Usual.C16.rol64 v 28).toBitVec = Usual.Gen.C16T.rol64 v.toBitVec (28#32) := by
  unfold Usual.Gen.C16T.rol64 Usual.C16.rol64; bv_decide
theorem rol64_30 (v : UInt64) : (Usual.C16.rol64 v 30).toBitVec = Usual.Gen.C16T.rol64 v.toBitVec (30#32) := by
  unfold Usual.Gen.C16T.rol64 Usual.C16.rol64; bv_decide
theorem rol64_31 (v : UInt64) : (Usual.C16.rol64 v 31).toBitVec = Usual.Gen.C16T.rol64 v.toBitVec (31#32) := by
  unfold Usual.Gen.C16T.rol64 Usual.C16.rol64; bv_decide
theorem rol64_33 (v : UInt64) : (Usual.C16.rol64 v 33).toBitVec = Usual.Gen.C16T.rol64 v.toBitVec (33#32) := by
  unfold Usual.Gen.C16T.rol64 Usual.C16.rol64; bv_decide
theorem rol64_34 (v : UInt64) : (Usual.C16.rol64 v 34).toBitVec = Usual.Gen.C16T.rol64 v.toBitVec (34#32) := by
  unfold Usual.Gen.C16T.rol64 Usual.C16.rol64; bv_decide
theorem rol64_36 (v : UInt64) : (Usual.C16.rol64 v 36).toBitVec = Usual.Gen.C16T.rol64 v.toBitVec (36#32) := by
  unfold Usual.Gen.C16T.rol64 Usual.C16.rol64; bv_decide
theorem rol64_37 (v : UInt64) : (Usual.C16.rol64 v 37).toBitVec = Usual.Gen.C16T.rol64 v.toBitVec (37#32) := by
  unfold Usual.Gen.C16T.rol64 Usual.C16.rol64; bv_decide
theorem rol64_38 (v : UInt64) : (Usual.C16.rol64 v 38).toBitVec = Usual.Gen.C16T.rol64 v.toBitVec (38#32) := by
  unfold Usual.Gen.C16T.rol64 Usual.C16.rol64; bv_decide
theorem rol64_39 (v : UInt64) : (Usual.C16.rol64 v 39).toBitVec = Usual.Gen.C16T.rol64 v.toBitVec (39#32) := by
  unfold Usual.Gen.C16T.rol64 Usual.C16.rol64; bv_decide
theorem rol64_41 (v : UInt64) : (Usual.C16.rol64 v 41).toBitVec = Usual.Gen.C16T.rol64 v.toBitVec (41#32) := by
  unfold Usual.Gen.C16T.rol64 Usual.C16.rol64; bv_decide
theorem rol64_42 (v : UInt64) : (Usual.C16.rol64 v 42).toBitVec = Usual.Gen.C16T.rol64 v.toBitVec (42#32) := by
  unfold Usual.Gen.C16T.rol64 Usual.C16.rol64; bv_decide
theorem rol64_43 (v : UInt64) : (Usual.C16.rol64 v 43).toBitVec = Usual.Gen.C16T.rol64 v.toBitVec (43#32) := by
  unfold Usual.Gen.C16T.rol64 Usual.C16.rol64; bv_decide
theorem rol64_44 (v : UInt64) : (Usual.C16.rol64 v 44).toBitVec = Usual.Gen.C16T.rol64 v.toBitVec (44#32) := by
  unfold Usual.Gen.C16T.rol64 Usual.C16.rol64; bv_decide
theorem rol64_46 (v : UInt64) : (Usual.C16.rol64 v 46).toBitVec = Usual.Gen.C16T.rol64 v.toBitVec (46#32) := by
  unfold Usual.Gen.C16T.rol64 Usual.C16.rol64; bv_decide
theorem rol64_47 (v : UInt64) : (Usual.C16.rol64 v 47).toBitVec = Usual.Gen.C16T.rol64 v.toBitVec (47#32) := by
  unfold Usual.Gen.C16T.rol64 Usual.C16.rol64; bv_decide
theorem rol64_48 (v : UInt64) : (Usual.C16.rol64 v 48).toBitVec = Usual.Gen.C16T.rol64 v.toBitVec (48#32) := by
  unfold Usual.Gen.C16T.rol64 Usual.C16.rol64; bv_decide
theorem rol64_50 (v : UInt64) : (Usual.C16.rol64 v 50).toBitVec = Usual.Gen.C16T.rol64 v.toBitVec (50#32) := by
  unfold Usual.Gen.C16T.rol64 Usual.C16.rol64; bv_decide
theorem rol64_51 (v : UInt64) : (Usual.C16.rol64 v 51).toBitVec = Usual.Gen.C16T.rol64 v.toBitVec (51#32) := by
  unfold Usual.Gen.C16T.rol64 Usual.C16.rol64; bv_decide
theorem rol64_52 (v : UInt64) : (Usual.C16.rol64 v 52).toBitVec = Usual.Gen.C16T.rol64 v.toBitVec (52#32) := by
  unfold Usual.Gen.C16T.rol64 Usual.C16.rol64; bv_decide
theorem rol64_53 (v : UInt64) : (Usual.C16.rol64 v 53).toBitVec = Usual.Gen.C16T.rol64 v.toBitVec (53#32) := by
  unfold Usual.Gen.C16T.rol64 Usual.C16.rol64; bv_decide
theorem rol64_54 (v : UInt64) : (Usual.C16.rol64 v 54).toBitVec = Usual.Gen.C16T.rol64 v.toBitVec (54#32) := by
  unfold Usual.Gen.C16T.rol64 Usual.C16.rol64; bv_decide
theorem rol64_55 (v : UInt64) : (Usual.C16.rol64 v 55).toBitVec = Usual.Gen.C16T.rol64 v.toBitVec (55#32) := by
  unfold Usual.Gen.C16T.rol64 Usual.C16.rol64; bv_decide
theorem rol64_57 (v : UInt64) : (Usual.C16.rol64 v 57).toBitVec = Usual.Gen.C16T.rol64 v.toBitVec (57#32) := by
  unfold Usual.Gen.C16T.rol64 Usual.C16.rol64; bv_decide
theorem rol64_62 (v : UInt64) : (Usual.C16.rol64 v 62).toBitVec = Usual.Gen.C16T.rol64 v.toBitVec (62#32) := by
  unfold Usual.Gen.C16T.rol64 Usual.C16.rol64; bv_decide
theorem rol64_63 (v : UInt64) : (Usual.C16.rol64 v 63).toBitVec = Usual.Gen.C16T.rol64 v.toBitVec (63#32) := by
  unfold Usual.Gen.C16T.rol64 Usual.C16.rol64; bv_decide

/-! ## spooky.c -/
open Usual.C16.Spooky in
def s4G (s : Spooky.S4) : Array (BitVec 64) := #[s.h0.toBitVec, s.h1.toBitVec, s.h2.toBitVec, s.h3.toBitVec]
def s12G (s : Spooky.S12) : Array (BitVec 64) :=
  #[s.h0.toBitVec, s.h1.toBitVec, s.h2.toBitVec, s.h3.toBitVec, s.h4.toBitVec, s.h5.toBitVec,
    s.h6.toBitVec, s.h7.toBitVec, s.h8.toBitVec, s.h9.toBitVec, s.h10.toBitVec, s.h11.toBitVec]
/-- the twelve 64-bit words at the front of `p`, as the `data` array of the macros -/
def d12G (p : List UInt8) : Array (BitVec 64) :=
  #[(w64 p 0).toBitVec, (w64 p 1).toBitVec, (w64 p 2).toBitVec, (w64 p 3).toBitVec, (w64 p 4).toBitVec,
    (w64 p 5).toBitVec, (w64 p 6).toBitVec, (w64 p 7).toBitVec, (w64 p 8).toBitVec, (w64 p 9).toBitVec,
    (w64 p 10).toBitVec, (w64 p 11).toBitVec]

/-- `ShortMix` as clang expands it = the model's `shortMix` -/
theorem bridge_sp_short_mix (s : Spooky.S4) : t_sp_short_mix (s4G s) = s4G (Spooky.shortMix s) := by
  simp [t_sp_short_mix, s4G, Spooky.shortMix, rol64_5, rol64_9, rol64_10, rol64_11, rol64_13, rol64_15, rol64_16, rol64_17, rol64_21, rol64_22, rol64_25, rol64_26, rol64_28, rol64_30, rol64_31, rol64_32, rol64_33, rol64_34, rol64_36, rol64_37, rol64_38, rol64_39, rol64_41, rol64_42, rol64_43, rol64_44, rol64_46, rol64_47, rol64_48, rol64_50, rol64_51, rol64_52, rol64_53, rol64_54, rol64_55, rol64_57, rol64_62, rol64_63]

/-- `ShortEnd` = `shortEnd` -/
theorem bridge_sp_short_end (s : Spooky.S4) : t_sp_short_end (s4G s) = s4G (Spooky.shortEnd s) := by
  simp [t_sp_short_end, s4G, Spooky.shortEnd, rol64_5, rol64_9, rol64_10, rol64_11, rol64_13, rol64_15, rol64_16, rol64_17, rol64_21, rol64_22, rol64_25, rol64_26, rol64_28, rol64_30, rol64_31, rol64_32, rol64_33, rol64_34, rol64_36, rol64_37, rol64_38, rol64_39, rol64_41, rol64_42, rol64_43, rol64_44, rol64_46, rol64_47, rol64_48, rol64_50, rol64_51, rol64_52, rol64_53, rol64_54, rol64_55, rol64_57, rol64_62, rol64_63]

/-- `Mix(data, s0..s11)` = `mix` on the block whose words are `data` -/
theorem bridge_sp_mix (s : Spooky.S12) (p : List UInt8) : t_sp_mix (d12G p) (s12G s) = s12G (Spooky.mix s p) := by
  simp [t_sp_mix, s12G, d12G, Spooky.mix, rol64_5, rol64_9, rol64_10, rol64_11, rol64_13, rol64_15, rol64_16, rol64_17, rol64_21, rol64_22, rol64_25, rol64_26, rol64_28, rol64_30, rol64_31, rol64_32, rol64_33, rol64_34, rol64_36, rol64_37, rol64_38, rol64_39, rol64_41, rol64_42, rol64_43, rol64_44, rol64_46, rol64_47, rol64_48, rol64_50, rol64_51, rol64_52, rol64_53, rol64_54, rol64_55, rol64_57, rol64_62, rol64_63]

/-- `EndPartial` = `endPartial` -/
theorem bridge_sp_end_partial (s : Spooky.S12) : t_sp_end_partial (s12G s) = s12G (Spooky.endPartial s) := by
  simp [t_sp_end_partial, s12G, Spooky.endPartial, rol64_5, rol64_9, rol64_10, rol64_11, rol64_13, rol64_15, rol64_16, rol64_17, rol64_21, rol64_22, rol64_25, rol64_26, rol64_28, rol64_30, rol64_31, rol64_32, rol64_33, rol64_34, rol64_36, rol64_37, rol64_38, rol64_39, rol64_41, rol64_42, rol64_43, rol64_44, rol64_46, rol64_47, rol64_48, rol64_50, rol64_51, rol64_52, rol64_53, rol64_54, rol64_55, rol64_57, rol64_62, rol64_63]

/-- `End(data, h0..h11)` = `endMix` -/
theorem bridge_sp_end (s : Spooky.S12) (p : List UInt8) : t_sp_end (d12G p) (s12G s) = s12G (Spooky.endMix s p) := by
  simp [t_sp_end, s12G, d12G, Spooky.endMix, Spooky.endPartial, rol64_5, rol64_9, rol64_10, rol64_11, rol64_13, rol64_15, rol64_16, rol64_17, rol64_21, rol64_22, rol64_25, rol64_26, rol64_28, rol64_30, rol64_31, rol64_32, rol64_33, rol64_34, rol64_36, rol64_37, rol64_38, rol64_39, rol64_41, rol64_42, rol64_43, rol64_44, rol64_46, rol64_47, rol64_48, rol64_50, rol64_51, rol64_52, rol64_53, rol64_54, rol64_55, rol64_57, rol64_62, rol64_63]

/-! ## lookup3.c -/

def l3G (s : Lookup3.St) : Array (BitVec 32) := #[s.1.toBitVec, s.2.1.toBitVec, s.2.2.toBitVec]

theorem rot_4 (v : UInt32) : (Usual.C16.rol32 v 4).toBitVec =
    ((v.toBitVec <<< ((4#32)).toNat) ||| (v.toBitVec >>> (((32#32) - (4#32))).toNat)) := by
  unfold Usual.C16.rol32; bv_decide
theorem rot_6 (v : UInt32) : (Usual.C16.rol32 v 6).toBitVec =
    ((v.toBitVec <<< ((6#32)).toNat) ||| (v.toBitVec >>> (((32#32) - (6#32))).toNat)) := by
  unfold Usual.C16.rol32; bv_decide
theorem rot_8 (v : UInt32) : (Usual.C16.rol32 v 8).toBitVec =
    ((v.toBitVec <<< ((8#32)).toNat) ||| (v.toBitVec >>> (((32#32) - (8#32))).toNat)) := by
  unfold Usual.C16.rol32; bv_decide
theorem rot_16 (v : UInt32) : (Usual.C16.rol32 v 16).toBitVec =
    ((v.toBitVec <<< ((16#32)).toNat) ||| (v.toBitVec >>> (((32#32) - (16#32))).toNat)) := by
  unfold Usual.C16.rol32; bv_decide
theorem rot_19 (v : UInt32) : (Usual.C16.rol32 v 19).toBitVec =
    ((v.toBitVec <<< ((19#32)).toNat) ||| (v.toBitVec >>> (((32#32) - (19#32))).toNat)) := by
  unfold Usual.C16.rol32; bv_decide
theorem rot_14 (v : UInt32) : (Usual.C16.rol32 v 14).toBitVec =
    ((v.toBitVec <<< ((14#32)).toNat) ||| (v.toBitVec >>> (((32#32) - (14#32))).toNat)) := by
  unfold Usual.C16.rol32; bv_decide
theorem rot_11 (v : UInt32) : (Usual.C16.rol32 v 11).toBitVec =
    ((v.toBitVec <<< ((11#32)).toNat) ||| (v.toBitVec >>> (((32#32) - (11#32))).toNat)) := by
  unfold Usual.C16.rol32; bv_decide
theorem rot_25 (v : UInt32) : (Usual.C16.rol32 v 25).toBitVec =
    ((v.toBitVec <<< ((25#32)).toNat) ||| (v.toBitVec >>> (((32#32) - (25#32))).toNat)) := by
  unfold Usual.C16.rol32; bv_decide
theorem rot_24 (v : UInt32) : (Usual.C16.rol32 v 24).toBitVec =
    ((v.toBitVec <<< ((24#32)).toNat) ||| (v.toBitVec >>> (((32#32) - (24#32))).toNat)) := by
  unfold Usual.C16.rol32; bv_decide

/-- `mix(a, b, c)` as clang expands it = the model's `mix` -/
theorem bridge_l3_mix (s : Lookup3.St) : t_l3_mix (l3G s) = l3G (Lookup3.mix s) := by
  rcases s with ⟨a, b, c⟩
  simp [t_l3_mix, l3G, Lookup3.mix, rot_4, rot_6, rot_8, rot_16, rot_19]

/-- `final(a, b, c)` as clang expands it = the model's `final` -/
theorem bridge_l3_final (s : Lookup3.St) : t_l3_final (l3G s) = l3G (Lookup3.final s) := by
  rcases s with ⟨a, b, c⟩
  simp [t_l3_final, l3G, Lookup3.final, rot_14, rot_11, rot_25, rot_16, rot_4, rot_24]

/-! ## crc32.c -/

/-- the table clang reads in crc32.c is the table `checks/C16.py` regenerates for the model -/
theorem crc_tab_eq : crc_tab = Usual.Gen.C16Crc.crcTab.map UInt32.toBitVec := by decide +kernel

/-- `crc32(prev, c)`: one table step -/
theorem bridge_crc32_step (prev : UInt32) (c : UInt8) :
    Usual.Gen.C16T.crc32 prev.toBitVec c.toBitVec = (Crc32.step prev c).toBitVec := by
  unfold Usual.Gen.C16T.crc32 Crc32.step Crc32.tab
  rw [crc_tab_eq]
  have hidx : (((prev.toBitVec ^^^ (BitVec.zeroExtend 32 c.toBitVec)) &&& (255#32))).toNat =
      ((prev ^^^ c.toUInt32) &&& 0xFF).toNat := by
    have : (prev.toBitVec ^^^ (BitVec.zeroExtend 32 c.toBitVec)) &&& (255#32) = ((prev ^^^ c.toUInt32) &&& 0xFF).toBitVec := by
      bv_decide
    rw [this]; rfl
  rw [hidx]
  have hget : ∀ i, (Usual.Gen.C16Crc.crcTab.map UInt32.toBitVec).getD i 0#32 = (Usual.Gen.C16Crc.crcTab.getD i 0).toBitVec := by
    intro i
    simp [Array.getD_eq_getD_getElem?]
  rw [hget]
  have : prev.toBitVec >>> ((8#32)).toNat = (prev >>> 8).toBitVec := by bv_decide
  rw [this]
  simp

/-- the loop of `calc_crc32` from offset `p` over `len` more bytes -/
theorem crc_loop (rp : Nat → BitVec 8) (F d0 : Nat) (init : BitVec 32) :
    ∀ (fuel : Nat) (l : List UInt8) (p : Nat) (crc : UInt32),
      (∀ i, i < l.length → rp (p + i) = (l.getD i 0).toBitVec) → l.length < 2 ^ 64 → l.length < fuel →
      calc_crc32_loop1 rp F fuel d0 (BitVec.ofNat 64 l.length) init p crc.toBitVec =
        some ((l.foldl Crc32.step crc).toBitVec ^^^ (~~~(0#32))) := by
  intro fuel
  induction fuel with
  | zero => intro l _ _ _ _ h; omega
  | succ fuel ih =>
    intro l p crc hl h64 hf
    unfold calc_crc32_loop1
    cases l with
    | nil => simp
    | cons x xs =>
      have e1 : BitVec.ofNat 64 (x :: xs).length - 1#64 = BitVec.ofNat 64 xs.length := by
        apply BitVec.eq_of_toNat_eq; simp [BitVec.toNat_sub]; simp at h64; omega
      have e2 : (BitVec.ofNat 64 (x :: xs).length != 0#64) = true := by
        simp only [bne_iff_ne, ne_eq]
        intro h
        have := congrArg BitVec.toNat h
        simp at this h64; omega
      have hx : rp p = x.toBitVec := by simpa using hl 0 (by simp)
      simp only [e1, e2, ↓reduceIte, hx, bridge_crc32_step, List.foldl_cons]
      apply ih xs (p + 1) (Crc32.step crc x)
      · intro i hi
        have := hl (i + 1) (by simp; omega)
        simpa [Nat.add_assoc, Nat.add_comm 1 i] using this
      · simp at h64; omega
      · simp at hf; omega

/-- `calc_crc32(data, len, init)` as clang reads it today = the model's `calcCrc32` on the bytes
(for every fuel above the length) -/
theorem bridge_calc_crc32 (rp : Nat → BitVec 8) (p : Nat) (l : List UInt8) (init : UInt32)
    (hl : ∀ i, i < l.length → rp (p + i) = (l.getD i 0).toBitVec) (h64 : l.length < 2 ^ 64)
    (fuel : Nat) (hf : l.length < fuel) :
    calc_crc32 rp fuel p (BitVec.ofNat 64 l.length) init.toBitVec = some (Crc32.calcCrc32 l init).toBitVec := by
  unfold calc_crc32 Crc32.calcCrc32
  have e : init.toBitVec ^^^ (~~~(0#32)) = (init ^^^ 0xFFFFFFFF).toBitVec := by bv_decide
  rw [e, crc_loop rp fuel p init.toBitVec fuel l p _ hl h64 hf]
  congr 1

end UsualProofs.Bridge.C16T
