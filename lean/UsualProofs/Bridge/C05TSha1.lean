import Std.Tactic.BVDecide
import UsualProofs.Bridge.C05TSha1A
import Usual.C05.MDInst
/-!
# C05 translation tie, SHA-1 (part B): `sha1_core` = the model's `sha1Compress`

Part A folded the generated function into `finishG ctx (roundG 79 (… (roundG 0 (startG ctx buf))))`.
Here, as for SHA-256: the same rounds over `UInt32` (`roundM`; three `bv_decide` facts identify the
translated `rol32` with the model's at 1, 5, 30, one the translated `bswap32`; `k_eq`: the four
constants of `SHA1R0 … SHA1R3` are the regenerated `sha1K`), the model's schedule word by word
(`sched_lo`, `sched_hi`) and the invariant of the 80 rounds on the 16-word circular buffer
(`inv_step`).  `bridge_sha1_core`: the five chaining words after the call are
`Usual.C05.MD.sha1Compress st blk` — the `compress` of the `sha1` instance `md_chunking` is about.
-/
set_option linter.unusedSimpArgs false
set_option linter.unusedVariables false
namespace UsualProofs.Bridge.C05TSha1
open Usual.Gen.C05TSha1 Usual.C05.MD Usual.Gen.C05

structure S32 where
  a : UInt32
  b : UInt32
  c : UInt32
  d : UInt32
  e : UInt32
  w : Array UInt32

def toS (s : S32) : S :=
  { a := s.a.toBitVec, b := s.b.toBitVec, c := s.c.toBitVec, d := s.d.toBitVec, e := s.e.toBitVec,
    w := s.w.map UInt32.toBitVec }

/-- `bswap32` on `UInt32` -/
def bswapM (x : UInt32) : UInt32 :=
  (x <<< 24) ||| ((x &&& (65280 : UInt32)) <<< 8) ||| ((x >>> 8) &&& (65280 : UInt32)) ||| (x >>> 24)

theorem bswap_eq (x : UInt32) : usual_bswap32 x.toBitVec = (bswapM x).toBitVec := by
  unfold usual_bswap32 bswapM; bv_decide

theorem rol_1 (x : UInt32) : Usual.Gen.C05TSha1.rol32 x.toBitVec (1#32) = (Usual.C05.MD.rol32 x 1).toBitVec := by
  unfold Usual.Gen.C05TSha1.rol32 Usual.C05.MD.rol32; bv_decide
theorem rol_5 (x : UInt32) : Usual.Gen.C05TSha1.rol32 x.toBitVec (5#32) = (Usual.C05.MD.rol32 x 5).toBitVec := by
  unfold Usual.Gen.C05TSha1.rol32 Usual.C05.MD.rol32; bv_decide
theorem rol_30 (x : UInt32) : Usual.Gen.C05TSha1.rol32 x.toBitVec (30#32) = (Usual.C05.MD.rol32 x 30).toBitVec := by
  unfold Usual.Gen.C05TSha1.rol32 Usual.C05.MD.rol32; bv_decide

/-- the constants written in `SHA1R0 … SHA1R3` are the regenerated table `sha1K` -/
theorem k_eq (q : Nat) (hq : q < 4) : kG q = (sha1K.getD q 0).toBitVec := by
  match q, hq with
  | 0, _ => rfl
  | 1, _ => rfl
  | 2, _ => rfl
  | 3, _ => rfl

theorem f_eq (q : Nat) (b c d : UInt32) : fG q b.toBitVec c.toBitVec d.toBitVec = (sha1F q b c d).toBitVec := by
  unfold fG sha1F
  split <;> simp

theorem getD_map (a : Array UInt32) (i : Nat) : (a.map UInt32.toBitVec).getD i 0#32 = (a.getD i 0).toBitVec := by
  simp [Array.getD_eq_getD_getElem?]

theorem set_map (a : Array UInt32) (i : Nat) (v : UInt32) :
    (a.map UInt32.toBitVec).setIfInBounds i v.toBitVec = (a.setIfInBounds i v).map UInt32.toBitVec := by
  simp

def stepM (q : Nat) (wt : UInt32) (s : S32) (w' : Array UInt32) : S32 :=
  let tmp := Usual.C05.MD.rol32 s.a 5 + sha1F q s.b s.c s.d + s.e + wt + sha1K.getD q 0
  { a := tmp, b := s.a, c := Usual.C05.MD.rol32 s.b 30, d := s.c, e := s.d, w := w' }

def RloM (j : Nat) (s : S32) : S32 :=
  let w' := s.w.setIfInBounds j (bswapM (s.w.getD j 0))
  stepM 0 (w'.getD j 0) s w'

def RhiM (j q : Nat) (s : S32) : S32 :=
  let w' := s.w.setIfInBounds j (Usual.C05.MD.rol32 (s.w.getD ((j + 13) % 16) 0 ^^^ s.w.getD ((j + 8) % 16) 0 ^^^
    s.w.getD ((j + 2) % 16) 0 ^^^ s.w.getD j 0) 1)
  stepM q (w'.getD j 0) s w'

def roundM (t : Nat) (s : S32) : S32 := if t < 16 then RloM t s else RhiM (t % 16) (t / 20) s

theorem step_map (q : Nat) (hq : q < 4) (wt : UInt32) (s : S32) (w' : Array UInt32) :
    stepG q wt.toBitVec (toS s) (w'.map UInt32.toBitVec) = toS (stepM q wt s w') := by
  simp [stepG, stepM, toS, rol_5, rol_30, f_eq, k_eq q hq]

theorem round_map (t : Nat) (ht : t < 80) (s : S32) : roundG t (toS s) = toS (roundM t s) := by
  unfold roundG roundM
  split
  · unfold Rlo RloM
    have : (toS s).w = s.w.map UInt32.toBitVec := rfl
    rw [this]
    simp only [getD_map, bswap_eq, set_map, step_map 0 (by decide)]
  · unfold Rhi RhiM
    have : (toS s).w = s.w.map UInt32.toBitVec := rfl
    rw [this]
    simp only [getD_map, ← UInt32.toBitVec_xor, rol_1, set_map, step_map (t / 20) (by omega)]

theorem fold_map : ∀ (n : Nat), n ≤ 80 → ∀ (s : S32),
    (List.range n).foldl (fun s t => roundG t s) (toS s) = toS ((List.range n).foldl (fun s t => roundM t s) s) := by
  intro n
  induction n with
  | zero => intro _ s; rfl
  | succ n ih =>
    intro hn s
    rw [List.range_succ, List.foldl_append, List.foldl_append, ih (by omega)]
    simp only [List.foldl_cons, List.foldl_nil]
    exact round_map n (by omega) _

/-! ## the message schedule of the model, word by word -/

def F (w : Array UInt32) (t : Nat) : UInt32 :=
  Usual.C05.MD.rol32 (w.getD (t - 3) 0 ^^^ w.getD (t - 8) 0 ^^^ w.getD (t - 14) 0 ^^^ w.getD (t - 16) 0) 1

def schedN (w16 : List UInt32) (n : Nat) : Array UInt32 :=
  (List.range n).foldl (fun (w : Array UInt32) i => w.push (F w (i + 16))) w16.toArray

theorem sched_def (w16 : List UInt32) : sha1Sched w16 = schedN w16 64 := rfl

theorem schedN_succ (w16 : List UInt32) (n : Nat) :
    schedN w16 (n + 1) = (schedN w16 n).push (F (schedN w16 n) (n + 16)) := by
  unfold schedN
  rw [List.range_succ, List.foldl_append]
  rfl

theorem schedN_size (w16 : List UInt32) : ∀ n, (schedN w16 n).size = w16.length + n := by
  intro n
  induction n with
  | zero => simp [schedN]
  | succ n ih => rw [schedN_succ, Array.size_push, ih]; omega

theorem getD_push_lt (a : Array UInt32) (v : UInt32) (j : Nat) (h : j < a.size) :
    (a.push v).getD j 0 = a.getD j 0 := by
  have hne : j ≠ a.size := by omega
  simp [Array.getD_eq_getD_getElem?, Array.getElem?_push, h, hne]

theorem getD_push_eq (a : Array UInt32) (v : UInt32) : (a.push v).getD a.size 0 = v := by
  simp [Array.getD_eq_getD_getElem?]

theorem schedN_stable (w16 : List UInt32) (n j : Nat) (hj : j < w16.length + n) :
    ∀ m, n ≤ m → (schedN w16 m).getD j 0 = (schedN w16 n).getD j 0 := by
  intro m hm
  induction m with
  | zero => have : n = 0 := by omega
            subst this; rfl
  | succ m ih =>
    by_cases h : n = m + 1
    · subst h; rfl
    · rw [schedN_succ, getD_push_lt _ _ _ (by rw [schedN_size]; omega)]
      exact ih (by omega)

theorem sched_lo (w16 : List UInt32) (j : Nat) (hj : j < w16.length) :
    (schedN w16 64).getD j 0 = w16.getD j 0 := by
  rw [schedN_stable w16 0 j (by omega) 64 (by omega)]
  simp [schedN, Array.getD_eq_getD_getElem?, List.getD_eq_getElem?_getD]

theorem sched_hi (w16 : List UInt32) (hl : w16.length = 16) (t : Nat) (h1 : 16 ≤ t) (h2 : t < 80) :
    (schedN w16 64).getD t 0 = F (schedN w16 64) t := by
  obtain ⟨n, rfl⟩ : ∃ n, t = n + 16 := ⟨t - 16, by omega⟩
  rw [schedN_stable w16 (n + 1) (n + 16) (by omega) 64 (by omega), schedN_succ]
  have hs : n + 16 = (schedN w16 n).size := by rw [schedN_size]; omega
  rw [hs, getD_push_eq, ← hs]
  unfold F
  rw [schedN_stable w16 n (n + 16 - 3) (by omega) 64 (by omega),
    schedN_stable w16 n (n + 16 - 8) (by omega) 64 (by omega),
    schedN_stable w16 n (n + 16 - 14) (by omega) 64 (by omega),
    schedN_stable w16 n (n + 16 - 16) (by omega) 64 (by omega)]

/-! ## invariant of the 80 rounds -/

theorem getD_set (a : Array UInt32) (i j : Nat) (v : UInt32) (hi : i < a.size) :
    (a.setIfInBounds i v).getD j 0 = if j = i then v else a.getD j 0 := by
  by_cases h : j = i
  · subst h; simp [Array.getD_eq_getD_getElem?, hi]
  · have h' : ¬ i = j := fun e => h e.symm
    simp [Array.getD_eq_getD_getElem?, Array.getElem?_setIfInBounds, h, h']

section
variable (st : Array UInt32) (w16 : List UInt32) (raw : Array UInt32)

/-- the five working variables after `t` rounds of the model -/
def vM (t : Nat) : Array UInt32 := (List.range t).foldl (sha1Round (schedN w16 64)) st

structure Inv (t : Nat) (s : S32) : Prop where
  size : s.w.size = 16
  vars : #[s.a, s.b, s.c, s.d, s.e] = vM st w16 t
  buf : ∀ j, j < 16 → s.w.getD j 0 =
    if t ≤ j then raw.getD j 0 else (schedN w16 64).getD (j + 16 * ((t - 1 - j) / 16)) 0

theorem vM_succ (t : Nat) : vM st w16 (t + 1) = sha1Round (schedN w16 64) (vM st w16 t) t := by
  unfold vM
  rw [List.range_succ, List.foldl_append]
  rfl

variable (hl : w16.length = 16) (hraw : ∀ j, j < 16 → bswapM (raw.getD j 0) = w16.getD j 0)

include hl hraw in
theorem inv_step (t : Nat) (ht : t < 80) (s : S32) (h : Inv st w16 raw t s) :
    Inv st w16 raw (t + 1) (roundM t s) := by
  obtain ⟨hsz, hv, hb⟩ := h
  unfold roundM
  by_cases h16 : t < 16
  · rw [if_pos h16]
    unfold RloM stepM
    have hq : t / 20 = 0 := by omega
    have hwt : (s.w.setIfInBounds t (bswapM (s.w.getD t 0))).getD t 0 = (schedN w16 64).getD t 0 := by
      rw [getD_set _ _ _ _ (by omega), if_pos rfl, hb t h16, if_pos (Nat.le_refl t), hraw t h16,
        sched_lo w16 t (by omega)]
    refine ⟨by simp [hsz], ?_, ?_⟩
    · rw [vM_succ, ← hv]
      simp only [hwt]
      simp [sha1Round, hq]
    · intro j hj
      simp only
      rw [getD_set _ _ _ _ (by omega)]
      by_cases hjt : j = t
      · subst hjt
        rw [if_pos rfl, hb j hj, if_pos (Nat.le_refl j), hraw j hj, if_neg (by omega)]
        have : j + 16 * ((j + 1 - 1 - j) / 16) = j := by omega
        rw [this, sched_lo w16 j (by omega)]
      · rw [if_neg hjt, hb j hj]
        by_cases hle : t ≤ j
        · rw [if_pos hle, if_pos (by omega)]
        · rw [if_neg hle, if_neg (by omega)]
          have : j + 16 * ((t + 1 - 1 - j) / 16) = j + 16 * ((t - 1 - j) / 16) := by omega
          rw [this]
  · rw [if_neg h16]
    unfold RhiM stepM
    have hmod : t % 16 < 16 := Nat.mod_lt _ (by decide)
    have r3 : s.w.getD ((t % 16 + 13) % 16) 0 = (schedN w16 64).getD (t - 3) 0 := by
      rw [hb _ (Nat.mod_lt _ (by decide)), if_neg (by omega)]
      congr 1; omega
    have r8 : s.w.getD ((t % 16 + 8) % 16) 0 = (schedN w16 64).getD (t - 8) 0 := by
      rw [hb _ (Nat.mod_lt _ (by decide)), if_neg (by omega)]
      congr 1; omega
    have r14 : s.w.getD ((t % 16 + 2) % 16) 0 = (schedN w16 64).getD (t - 14) 0 := by
      rw [hb _ (Nat.mod_lt _ (by decide)), if_neg (by omega)]
      congr 1; omega
    have r16 : s.w.getD (t % 16) 0 = (schedN w16 64).getD (t - 16) 0 := by
      rw [hb _ hmod, if_neg (by omega)]
      congr 1; omega
    have hnew : Usual.C05.MD.rol32 (s.w.getD ((t % 16 + 13) % 16) 0 ^^^ s.w.getD ((t % 16 + 8) % 16) 0 ^^^
        s.w.getD ((t % 16 + 2) % 16) 0 ^^^ s.w.getD (t % 16) 0) 1 = (schedN w16 64).getD t 0 := by
      rw [r3, r8, r14, r16, sched_hi w16 hl t (by omega) ht]; rfl
    rw [hnew]
    have hwt : (s.w.setIfInBounds (t % 16) ((schedN w16 64).getD t 0)).getD (t % 16) 0 = (schedN w16 64).getD t 0 := by
      rw [getD_set _ _ _ _ (by omega), if_pos rfl]
    refine ⟨by simp [hsz], ?_, ?_⟩
    · rw [vM_succ, ← hv]
      simp only [hwt]
      simp [sha1Round]
    · intro j hj
      simp only
      rw [getD_set _ _ _ _ (by omega)]
      by_cases hjt : j = t % 16
      · rw [if_pos hjt, if_neg (by omega)]
        congr 1; omega
      · rw [if_neg hjt, hb j hj, if_neg (by omega), if_neg (by omega)]
        congr 1; omega
end

theorem inv_run (st : Array UInt32) (w16 : List UInt32) (raw : Array UInt32) (hl : w16.length = 16)
    (hraw : ∀ j, j < 16 → bswapM (raw.getD j 0) = w16.getD j 0) (s0 : S32) (h0 : Inv st w16 raw 0 s0) :
    ∀ n, n ≤ 80 → Inv st w16 raw n ((List.range n).foldl (fun s t => roundM t s) s0) := by
  intro n
  induction n with
  | zero => intro _; exact h0
  | succ n ih =>
    intro hn
    rw [List.range_succ, List.foldl_append]
    exact inv_step st w16 raw hl hraw n (by omega) _ (ih (by omega))

/-- **`sha1_core`** as clang reads it today: on a context whose chaining words are `a0 … a4` and a
buffer of sixteen host-order words `raw` that byte-swap to the big-endian words of `blk`, the five
chaining words after the call are the model's `sha1Compress #[a0, …, a4] blk` (`nbytes` untouched: `sha1_core_nbytes`). -/
theorem bridge_sha1_core (ctx : sha1_ctx) (a0 a1 a2 a3 a4 : UInt32) (blk : List UInt8)
    (hlen : (wordsBE32 blk).length = 16) (raw : Array UInt32) (hrs : raw.size = 16)
    (hraw : ∀ j, j < 16 → bswapM (raw.getD j 0) = (wordsBE32 blk).getD j 0)
    (ha : ctx.a = a0.toBitVec) (hb : ctx.b = a1.toBitVec) (hc : ctx.c = a2.toBitVec) (hd : ctx.d = a3.toBitVec)
    (he : ctx.e = a4.toBitVec) :
    #[(sha1_core ctx (raw.map UInt32.toBitVec)).1.a, (sha1_core ctx (raw.map UInt32.toBitVec)).1.b,
      (sha1_core ctx (raw.map UInt32.toBitVec)).1.c, (sha1_core ctx (raw.map UInt32.toBitVec)).1.d,
      (sha1_core ctx (raw.map UInt32.toBitVec)).1.e] = (sha1Compress #[a0, a1, a2, a3, a4] blk).map UInt32.toBitVec := by
  let s0 : S32 := { a := a0, b := a1, c := a2, d := a3, e := a4, w := raw }
  have hstart : startG ctx (raw.map UInt32.toBitVec) = toS s0 := by
    simp [startG, toS, s0, ha, hb, hc, hd, he]
  have h0 : Inv #[a0, a1, a2, a3, a4] (wordsBE32 blk) raw 0 s0 :=
    ⟨hrs, rfl, fun j hj => by simp [s0]⟩
  have h80 := inv_run _ _ raw hlen hraw s0 h0 80 (Nat.le_refl _)
  rw [core_eq_rounds, hstart, fold_map 80 (Nat.le_refl _)]
  generalize (List.range 80).foldl (fun s t => roundM t s) s0 = sF at h80
  obtain ⟨_, hv, _⟩ := h80
  unfold sha1Compress
  rw [sched_def]
  have : (List.range 80).foldl (sha1Round (schedN (wordsBE32 blk) 64)) #[a0, a1, a2, a3, a4] =
      vM #[a0, a1, a2, a3, a4] (wordsBE32 blk) 80 := rfl
  simp only [this, ← hv]
  simp [finishG, toS, ha, hb, hc, hd, he]

theorem finish_nbytes (ctx : sha1_ctx) (s : S) : (finishG ctx s).1.nbytes = ctx.nbytes := rfl

theorem sha1_core_nbytes (ctx : sha1_ctx) (buf : Array W) : (sha1_core ctx buf).1.nbytes = ctx.nbytes := by
  rw [core_eq_rounds]; exact finish_nbytes ctx _

end UsualProofs.Bridge.C05TSha1
