import Std.Tactic.BVDecide
import Usual.Gen.C06T
import Usual.C06.CBTree
/-!
# C06 translation tie: `get_bit`, `find_crit_bit` (usual/cbtree.c) and `fls` (usual/bits.h)

`Usual.Gen.C06T.*` is regenerated from the C sources on every run of `checks/C06.py`: `get_bit`,
the two `for` loops of `find_crit_bit` (one structurally recursive Lean function per loop, `fuel`
first; `none` = out of fuel) with the `goto found` block inlined, and the `__builtin_clz` variant
of `fls()` it calls.  The lemmas below are re-checked against it:

* `bridge_fls_firstBit`: `8 - fls(c)` is the model's `firstBit` for every non-zero byte (255 cases, kernel);
* `bridge_get_bit`: `get_bit` = `Usual.C06.getBit` on the key's bytes, every bit position (beyond the key: 0);
* `bridge_find_crit_bit`: for keys `a`, `b` in memory and every fuel above the longer length,
  `find_crit_bit` returns exactly `Usual.C06.findCrit a b` (`SAME_KEY` = `none`) — the function the
  crit-bit theorems (`findCritN_spec`, `cbtree_refines_map`, ...) are about.

`bv_decide` is used for small bit-vector identities only (masking one bit of a byte, xor of
promoted bytes).
-/
namespace UsualProofs.Bridge.C06T
open Usual.C06
open Usual.Gen.C06T

/-- `pos = 8 - fls(c)` as the generated code computes it for a byte `c` -/
def posOf (c : BitVec 8) : BitVec 8 :=
  BitVec.truncate 8 ((8#32) - (usual_fls (BitVec.zeroExtend 32 c)))

theorem posOf_fin : ∀ n : Fin 256, n.val ≠ 0 → (posOf (BitVec.ofNat 8 n.val)).toNat = firstBit n.val := by
  decide +kernel

/-- `8 - fls(c)` (fls = the `__builtin_clz` variant of usual/bits.h) is the model's `firstBit` -/
theorem bridge_fls_firstBit (c : BitVec 8) (hc : c ≠ 0#8) : (posOf c).toNat = firstBit c.toNat := by
  have h := posOf_fin ⟨c.toNat, c.isLt⟩ (fun e => hc (BitVec.eq_of_toNat_eq (by simpa using e)))
  simpa using h

/-- accessor `r` shows the bytes of `k` from offset `p` on -/
def Shows (r : Nat → BitVec 8) (p : Nat) (k : Key) : Prop :=
  ∀ i, i < k.length → r (p + i) = (k.getD i 0).toBitVec

theorem testBit_of_and (x : BitVec 8) (j : Nat) (hj : j < 8) :
    (((BitVec.zeroExtend 32 x) &&& ((1#32) <<< j)) != 0#32) = x.toNat.testBit j := by
  rw [BitVec.testBit_toNat]
  match j, hj with
  | 0, _ => bv_decide
  | 1, _ => bv_decide
  | 2, _ => bv_decide
  | 3, _ => bv_decide
  | 4, _ => bv_decide
  | 5, _ => bv_decide
  | 6, _ => bv_decide
  | 7, _ => bv_decide
  | n + 8, h => omega

/-- `get_bit(bitpos, key, klen)` = the model's `getBit` on the key's bytes -/
theorem bridge_get_bit (rk : Nat → BitVec 8) (p : Nat) (k : Key) (hk : Shows rk p k)
    (klen bitpos : BitVec 64) (hl : klen.toNat = k.length) :
    get_bit rk bitpos p klen = (if getBit k bitpos.toNat then 1#32 else 0#32) := by
  unfold get_bit getBit getBitN
  have e8 : BitVec.signExtend 64 (8#32) = 8#64 := by decide
  have e7 : BitVec.signExtend 64 (7#32) = 7#64 := by decide
  simp only [e8, e7]
  have hpos : (bitpos / 8#64).toNat = bitpos.toNat / 8 := by simp [BitVec.toNat_udiv]
  have hmod : (bitpos % 8#64).toNat = bitpos.toNat % 8 := by simp [BitVec.toNat_umod]
  have hbit : (BitVec.truncate 32 (7#64 - bitpos % 8#64)).toNat = 7 - bitpos.toNat % 8 := by
    have : (7#64 - bitpos % 8#64).toNat = 7 - bitpos.toNat % 8 := by
      rw [BitVec.toNat_sub, hmod]; simp; omega
    simp only [BitVec.truncate, BitVec.toNat_setWidth, this]; omega
  rw [hbit]
  have hult : BitVec.ult (bitpos / 8#64) klen = decide (bitpos.toNat / 8 < k.length) := by
    simp only [BitVec.ult, hpos, hl]
  rw [hult, hpos]
  by_cases h : bitpos.toNat / 8 < k.length
  · rw [hk _ h, testBit_of_and _ _ (by omega)]
    simp [h, toNats, List.getD_eq_getElem?_getD]
  · have : (toNats k)[bitpos.toNat / 8]? = none := by simp [toNats]; omega
    simp [h, this]

/-! ## find_crit_bit -/

/-- the C result: `SAME_KEY` (`(size_t)-1`) or the bit index -/
def enc : Option Nat → BitVec 64
  | none => 18446744073709551615#64
  | some n => BitVec.ofNat 64 n

theorem drop_cons (l : Key) (i : Nat) (h : i < l.length) : l.drop i = l.getD i 0 :: l.drop (i + 1) := by
  rw [List.drop_eq_getElem_cons h]
  simp [List.getD_eq_getElem?_getD, h]

theorem toNats_cons (x : UInt8) (xs : Key) : toNats (x :: xs) = x.toNat :: toNats xs := rfl
theorem toNats_nil : toNats [] = [] := rfl

theorem neq32 (x y : BitVec 8) : ((BitVec.zeroExtend 32 x) != (BitVec.zeroExtend 32 y)) = (x != y) := by
  bv_decide

theorem xor8 (x y : BitVec 8) :
    BitVec.truncate 8 ((BitVec.zeroExtend 32 x) ^^^ (BitVec.zeroExtend 32 y)) = x ^^^ y := by
  bv_decide

/-- the value returned at a differing byte pair -/
theorem found_val (x y : UInt8) (i : Nat) (hne : x ≠ y) :
    (BitVec.ofNat 64 i * BitVec.signExtend 64 (8#32)) +
      BitVec.zeroExtend 64 (BitVec.truncate 8 ((8#32) - usual_fls (BitVec.zeroExtend 32 (x.toBitVec ^^^ y.toBitVec))))
    = enc (some (i * 8 + firstBit (x.toNat ^^^ y.toNat))) := by
  have hc : x.toBitVec ^^^ y.toBitVec ≠ 0#8 := by
    intro h
    apply hne
    apply UInt8.toBitVec_inj.mp
    have : x.toBitVec ^^^ y.toBitVec ^^^ y.toBitVec = 0#8 ^^^ y.toBitVec := by rw [h]
    simpa [BitVec.xor_assoc] using this
  have hp := bridge_fls_firstBit _ hc
  unfold posOf at hp
  rw [BitVec.toNat_xor] at hp
  have e8 : BitVec.signExtend 64 (8#32) = 8#64 := by decide
  rw [e8]
  unfold enc
  apply BitVec.eq_of_toNat_eq
  simp only [BitVec.toNat_add, BitVec.toNat_mul, BitVec.toNat_ofNat, BitVec.truncate, BitVec.zeroExtend,
    BitVec.toNat_setWidth] at hp ⊢
  simp only [UInt8.toNat_toBitVec] at hp ⊢
  rw [← hp]
  omega

theorem ult_ofNat (i : Nat) (x : BitVec 64) (hi : i < 2 ^ 64) :
    BitVec.ult (BitVec.ofNat 64 i) x = decide (i < x.toNat) := by
  simp only [BitVec.ult, BitVec.toNat_ofNat, Nat.mod_eq_of_lt hi]

theorem ofNat_toNat' (i : Nat) (hi : i < 2 ^ 64) : (BitVec.ofNat 64 i).toNat = i := by
  simp only [BitVec.toNat_ofNat, Nat.mod_eq_of_lt hi]

theorem ofNat_succ (i : Nat) : BitVec.ofNat 64 i + 1#64 = BitVec.ofNat 64 (i + 1) := by
  apply BitVec.eq_of_toNat_eq; simp

theorem zero_xor8 (y : BitVec 8) : 0#8 ^^^ y = y := by simp
theorem xor_zero8 (y : BitVec 8) : y ^^^ 0#8 = y := by simp

section
variable (ra rb : Nat → BitVec 8) (pa pb : Nat) (a b : Key) (alen blen minlen maxlen : BitVec 64)
variable (ha : Shows ra pa a) (hb : Shows rb pb b)
variable (hal : alen.toNat = a.length) (hbl : blen.toNat = b.length)
variable (hmax : maxlen.toNat = max a.length b.length)

include ha hb hal hbl hmax in
theorem loop2_eq (F : Nat) : ∀ (n i : Nat) (av bv c pos : BitVec 8),
    (a.length ≤ i ∨ b.length ≤ i) → i ≤ max a.length b.length → max a.length b.length - i < n →
    find_crit_bit_loop2 ra rb F n pa alen pb blen av bv c pos (BitVec.ofNat 64 i) minlen maxlen =
      some (enc (findCritN (toNats (a.drop i)) (toNats (b.drop i)) i)) := by
  intro n
  induction n with
  | zero => intro i _ _ _ _ _ _ h; omega
  | succ n ih =>
    intro i av bv c pos hor hi hn
    have hm64 : max a.length b.length < 2 ^ 64 := by rw [← hmax]; exact maxlen.isLt
    have hi64 : i < 2 ^ 64 := by omega
    unfold find_crit_bit_loop2
    simp only [ult_ofNat i _ hi64, hmax, hal, hbl, ofNat_toNat' i hi64, neq32, ofNat_succ]
    by_cases hlt : i < max a.length b.length
    · simp only [hlt, decide_true, ↓reduceIte]
      rcases hor with hA | hB
      · -- `a` exhausted, `b` not
        have hbi : i < b.length := by omega
        have hna : ¬ i < a.length := by omega
        simp only [hna, hbi, decide_false, decide_true, Bool.false_eq_true, ↓reduceIte]
        rw [List.drop_eq_nil_of_le hA, drop_cons b i hbi, toNats_nil, toNats_cons]
        simp only [findCritN, critTail]
        rw [hb i hbi]
        have e0 : BitVec.truncate 8 (0#32) = (0 : UInt8).toBitVec := by decide
        have et : ∀ y : BitVec 8, BitVec.truncate 8 (BitVec.zeroExtend 32 y) = y := by intro y; simp
        simp only [e0, et]
        by_cases hy : b.getD i 0 = 0
        · have hy' : ¬ (b.getD i 0).toNat ≠ 0 := by rw [hy]; decide
          rw [if_neg hy']
          have : ((0 : UInt8).toBitVec != (b.getD i 0).toBitVec) = false := by rw [hy]; decide
          simp only [this, Bool.false_eq_true, ↓reduceIte]
          have := ih (i + 1) ((0 : UInt8).toBitVec) ((b.getD i 0).toBitVec) c pos (Or.inl (by omega)) (by omega) (by omega)
          rw [this, List.drop_eq_nil_of_le (by omega : a.length ≤ i + 1), toNats_nil]
          cases hd : toNats (b.drop (i + 1)) <;> simp [findCritN]
        · have hy' : (b.getD i 0).toNat ≠ 0 := fun e => hy (UInt8.toNat_inj.mp (by rw [e]; rfl))
          rw [if_pos hy']
          have hne : (0 : UInt8) ≠ b.getD i 0 := fun e => hy e.symm
          have : ((0 : UInt8).toBitVec != (b.getD i 0).toBitVec) = true := by
            simp only [bne_iff_ne, ne_eq]
            exact fun e => hne (UInt8.toBitVec_inj.mp e)
          simp only [this, ↓reduceIte, xor8]
          rw [found_val 0 (b.getD i 0) i hne]
          simp
      · -- `b` exhausted, `a` not
        by_cases hA : a.length ≤ i
        · omega
        have hai : i < a.length := by omega
        have hnb : ¬ i < b.length := by omega
        simp only [hai, hnb, decide_false, decide_true, Bool.false_eq_true, ↓reduceIte]
        rw [List.drop_eq_nil_of_le hB, drop_cons a i hai, toNats_nil, toNats_cons]
        simp only [findCritN, critTail]
        rw [ha i hai]
        have e0 : BitVec.truncate 8 (0#32) = (0 : UInt8).toBitVec := by decide
        have et : ∀ y : BitVec 8, BitVec.truncate 8 (BitVec.zeroExtend 32 y) = y := by intro y; simp
        simp only [e0, et]
        by_cases hy : a.getD i 0 = 0
        · have hy' : ¬ (a.getD i 0).toNat ≠ 0 := by rw [hy]; decide
          rw [if_neg hy']
          have : ((a.getD i 0).toBitVec != (0 : UInt8).toBitVec) = false := by rw [hy]; decide
          simp only [this, Bool.false_eq_true, ↓reduceIte]
          have := ih (i + 1) ((a.getD i 0).toBitVec) ((0 : UInt8).toBitVec) c pos (Or.inr (by omega)) (by omega) (by omega)
          rw [this, List.drop_eq_nil_of_le (by omega : b.length ≤ i + 1), toNats_nil]
          cases hd : toNats (a.drop (i + 1)) <;> simp [findCritN]
        · have hy' : (a.getD i 0).toNat ≠ 0 := fun e => hy (UInt8.toNat_inj.mp (by rw [e]; rfl))
          rw [if_pos hy']
          have hne : a.getD i 0 ≠ (0 : UInt8) := hy
          have : ((a.getD i 0).toBitVec != (0 : UInt8).toBitVec) = true := by
            simp only [bne_iff_ne, ne_eq]
            exact fun e => hne (UInt8.toBitVec_inj.mp e)
          simp only [this, ↓reduceIte, xor8]
          rw [found_val (a.getD i 0) 0 i hne]
          simp
    · have h1 : a.length ≤ i := by omega
      have h2 : b.length ≤ i := by omega
      simp only [hlt, decide_false, Bool.false_eq_true, ↓reduceIte]
      rw [List.drop_eq_nil_of_le h1, List.drop_eq_nil_of_le h2]
      rfl

variable (hmin : minlen.toNat = min a.length b.length)

include ha hb hal hbl hmax hmin in
theorem loop1_eq (F : Nat) (hF : max a.length b.length < F) : ∀ (n i : Nat) (av bv c pos : BitVec 8),
    i ≤ min a.length b.length → min a.length b.length - i < n →
    find_crit_bit_loop1 ra rb F n pa alen pb blen av bv c pos (BitVec.ofNat 64 i) minlen maxlen =
      some (enc (findCritN (toNats (a.drop i)) (toNats (b.drop i)) i)) := by
  intro n
  induction n with
  | zero => intro i _ _ _ _ _ h; omega
  | succ n ih =>
    intro i av bv c pos hi hn
    have hm64 : max a.length b.length < 2 ^ 64 := by rw [← hmax]; exact maxlen.isLt
    have hi64 : i < 2 ^ 64 := by omega
    unfold find_crit_bit_loop1
    simp only [ult_ofNat i _ hi64, hmin, ofNat_toNat' i hi64, neq32, ofNat_succ]
    by_cases hlt : i < min a.length b.length
    · have hai : i < a.length := by omega
      have hbi : i < b.length := by omega
      simp only [hlt, decide_true, ↓reduceIte]
      rw [drop_cons a i hai, drop_cons b i hbi, toNats_cons, toNats_cons, ha i hai, hb i hbi]
      simp only [findCritN]
      by_cases hxy : a.getD i 0 = b.getD i 0
      · have hxy' : ¬ (a.getD i 0).toNat ≠ (b.getD i 0).toNat := by rw [hxy]; simp
        rw [if_neg hxy']
        have : ((a.getD i 0).toBitVec != (b.getD i 0).toBitVec) = false := by rw [hxy]; simp
        simp only [this, Bool.false_eq_true, ↓reduceIte]
        exact ih (i + 1) _ _ c pos (by omega) (by omega)
      · have hxy' : (a.getD i 0).toNat ≠ (b.getD i 0).toNat := fun e => hxy (UInt8.toNat_inj.mp e)
        rw [if_pos hxy']
        have : ((a.getD i 0).toBitVec != (b.getD i 0).toBitVec) = true := by
          simp only [bne_iff_ne, ne_eq]
          exact fun e => hxy (UInt8.toBitVec_inj.mp e)
        simp only [this, ↓reduceIte, xor8]
        rw [found_val _ _ i hxy]
    · simp only [hlt, decide_false, Bool.false_eq_true, ↓reduceIte]
      exact loop2_eq ra rb pa pb a b alen blen minlen maxlen ha hb hal hbl hmax F F i av bv c pos
        (by omega) (by omega) (by omega)
end

/-- `find_crit_bit(a, alen, b, blen)` as clang reads it today = the model's `findCrit` on the two
keys (SAME_KEY = `none`), for every fuel above the longer length -/
theorem bridge_find_crit_bit (ra rb : Nat → BitVec 8) (pa pb : Nat) (a b : Key)
    (ha : Shows ra pa a) (hb : Shows rb pb b) (alen blen : BitVec 64)
    (hal : alen.toNat = a.length) (hbl : blen.toNat = b.length)
    (fuel : Nat) (hf : max a.length b.length < fuel) :
    find_crit_bit ra rb fuel pa alen pb blen = some (enc (findCrit a b)) := by
  unfold find_crit_bit findCrit
  have hmin : (if BitVec.ult blen alen then blen else alen).toNat = min a.length b.length := by
    simp only [BitVec.ult, hal, hbl]
    by_cases h : b.length < a.length
    · simp [h, hbl]; omega
    · simp [h, hal]; omega
  have hmax : (if BitVec.ult blen alen then alen else blen).toNat = max a.length b.length := by
    simp only [BitVec.ult, hal, hbl]
    by_cases h : b.length < a.length
    · simp [h, hal]; omega
    · simp [h, hbl]; omega
  have e0 : BitVec.signExtend 64 (0#32) = BitVec.ofNat 64 0 := by decide
  simp only [e0]
  have := loop1_eq ra rb pa pb a b alen blen _ _ ha hb hal hbl hmax hmin fuel hf fuel 0 0#8 0#8 0#8 0#8
    (by omega) (by omega)
  simpa using this

end UsualProofs.Bridge.C06T
