import Std.Tactic.BVDecide
import UsualProofs.Bridge.C16T
/-!
# C16 translation tie: `siphash24`, the whole function

`Usual.Gen.C16T.siphash24` (regenerated on every run) is the complete C function: `end = s + len -
(len % 8)`, the word loop `for (; s < end; s += 8) { m = le64dec(s); sip_compress(2); }` (a loop with
`fuel`; `le64dec` = `memcpy(&tmp, p, 8)` read as a little-endian load), `m = (uint64_t)len << 56`,
the `switch (len & 7)` with its fall-through cases (translated as one joined `if` chain), the last
compression, `sip_finalize(4)` and `return v0 ^ v1 ^ v2 ^ v3`.

`sip_loop_step` / `sip_loop_exit` (eight cases of `len % 8`) / `sip_loop_all`, and
**`bridge_siphash24`**: on every byte string in memory, keys and fuel above `len / 8` the function
returns `Usual.C16.SipHash.siphash24 data k0 k1` — the function `siphash24_eq_paper` identifies with
SipHash-2-4 of the paper.  One `bv_decide` (eight bytes assembled little-endian).
-/
set_option linter.unusedSimpArgs false
set_option linter.unusedVariables false
namespace UsualProofs.Bridge.C16T
open Usual.C16 Usual.Gen.C16T

/-! ## siphash24, the whole function -/

theorem le64dec_eq (rp : Nat → BitVec 8) (p : Nat) (l : List UInt8)
    (h : ∀ i, i < 8 → rp (p + i) = (l.getD i 0).toBitVec) : usual_le64dec rp p = (le64 l).toBitVec := by
  unfold usual_le64dec le64 b64
  rw [h 0 (by decide), h 1 (by decide), h 2 (by decide), h 3 (by decide), h 4 (by decide), h 5 (by decide),
    h 6 (by decide), h 7 (by decide)]
  generalize l.getD 0 0 = b0; generalize l.getD 1 0 = b1; generalize l.getD 2 0 = b2; generalize l.getD 3 0 = b3
  generalize l.getD 4 0 = b4; generalize l.getD 5 0 = b5; generalize l.getD 6 0 = b6; generalize l.getD 7 0 = b7
  bv_decide

/-- one iteration of the word loop -/
theorem sip_loop_step (rp : Nat → BitVec 8) (F n d : Nat) (len k0 k1 : BitVec 64) (s e : Nat) (st : SipHash.St)
    (m : BitVec 64) (l : List UInt8) (hlt : s < e) (hb : ∀ i, i < 8 → rp (s + i) = (l.getD i 0).toBitVec) :
    siphash24_loop1 rp F (n + 1) d len k0 k1 s e st.v0.toBitVec st.v1.toBitVec st.v2.toBitVec st.v3.toBitVec m =
    siphash24_loop1 rp F n d len k0 k1 (s + 8) e (SipHash.compress st (le64 l)).v0.toBitVec
      (SipHash.compress st (le64 l)).v1.toBitVec (SipHash.compress st (le64 l)).v2.toBitVec
      (SipHash.compress st (le64 l)).v3.toBitVec (le64 l).toBitVec := by
  have hc : (decide (s < e)) = true := by simpa using hlt
  change (if (decide (s < e)) = true then _ else _) = _
  rw [if_pos hc, le64dec_eq rp s l hb]
  simp [SipHash.compress, SipHash.round, rol64_13, rol64_32, rol64_16, rol64_21, rol64_17]

/-- the model's `tail` with the length word and `len % 8` as parameters -/
def tailR (lenw : UInt64) (r : Nat) (s : List UInt8) : UInt64 :=
  let m : UInt64 := lenw <<< 56
  let m := if r ≥ 7 then m ||| (b64 s 6 <<< 48) else m
  let m := if r ≥ 6 then m ||| (b64 s 5 <<< 40) else m
  let m := if r ≥ 5 then m ||| (b64 s 4 <<< 32) else m
  let m := if r ≥ 4 then m ||| (b64 s 3 <<< 24) else m
  let m := if r ≥ 3 then m ||| (b64 s 2 <<< 16) else m
  let m := if r ≥ 2 then m ||| (b64 s 1 <<< 8) else m
  let m := if r ≥ 1 then m ||| (b64 s 0) else m
  m

theorem tail_eq (L : Nat) (s : List UInt8) : SipHash.tail L s = tailR (UInt64.ofNat L) (L % 8) s := rfl

theorem b64_eq (l : List UInt8) (i : Nat) : BitVec.setWidth 64 (l[i]?.getD 0).toBitVec = (b64 l i).toBitVec := by
  simp [b64]

/-- leaving the word loop: tail switch, last compression, finalisation -/
theorem sip_loop_exit (rp : Nat → BitVec 8) (F n d : Nat) (len k0 k1 : BitVec 64) (s e : Nat) (st : SipHash.St)
    (m : BitVec 64) (l : List UInt8) (r : Nat) (hr : r < 8) (hge : ¬ s < e) (lenw : UInt64)
    (hlen : len = lenw.toBitVec) (hlr : len &&& (BitVec.signExtend 64 (7#32)) = BitVec.ofNat 64 r)
    (hb : ∀ i, i < r → rp (s + i) = (l.getD i 0).toBitVec) :
    siphash24_loop1 rp F (n + 1) d len k0 k1 s e st.v0.toBitVec st.v1.toBitVec st.v2.toBitVec st.v3.toBitVec m =
    some (SipHash.finalize (SipHash.compress st (tailR lenw r l))).toBitVec := by
  have hc : ¬ (decide (s < e)) = true := by simpa using hge
  change (if (decide (s < e)) = true then _ else _) = _
  rw [if_neg hc, hlr]
  subst hlen
  match r, hr with
  | 0, _ =>
    simp [tailR, b64_eq, SipHash.compress, SipHash.finalize, SipHash.round, rol64_13, rol64_32,
      rol64_16, rol64_21, rol64_17]
  | 1, _ =>
    have h0 : rp s = (l.getD 0 0).toBitVec := by simpa using hb 0 (by decide)
    simp [tailR, h0, b64_eq, SipHash.compress, SipHash.finalize, SipHash.round, rol64_13, rol64_32,
      rol64_16, rol64_21, rol64_17]
  | 2, _ =>
    have h0 : rp s = (l.getD 0 0).toBitVec := by simpa using hb 0 (by decide)
    have h1 : rp (s + 1) = (l.getD 1 0).toBitVec := hb 1 (by decide)
    simp [tailR, h0, h1, b64_eq, SipHash.compress, SipHash.finalize, SipHash.round, rol64_13, rol64_32,
      rol64_16, rol64_21, rol64_17]
  | 3, _ =>
    have h0 : rp s = (l.getD 0 0).toBitVec := by simpa using hb 0 (by decide)
    have h1 : rp (s + 1) = (l.getD 1 0).toBitVec := hb 1 (by decide)
    have h2 : rp (s + 2) = (l.getD 2 0).toBitVec := hb 2 (by decide)
    simp [tailR, h0, h1, h2, b64_eq, SipHash.compress, SipHash.finalize, SipHash.round, rol64_13, rol64_32,
      rol64_16, rol64_21, rol64_17]
  | 4, _ =>
    have h0 : rp s = (l.getD 0 0).toBitVec := by simpa using hb 0 (by decide)
    have h1 : rp (s + 1) = (l.getD 1 0).toBitVec := hb 1 (by decide)
    have h2 : rp (s + 2) = (l.getD 2 0).toBitVec := hb 2 (by decide)
    have h3 : rp (s + 3) = (l.getD 3 0).toBitVec := hb 3 (by decide)
    simp [tailR, h0, h1, h2, h3, b64_eq, SipHash.compress, SipHash.finalize, SipHash.round, rol64_13, rol64_32,
      rol64_16, rol64_21, rol64_17]
  | 5, _ =>
    have h0 : rp s = (l.getD 0 0).toBitVec := by simpa using hb 0 (by decide)
    have h1 : rp (s + 1) = (l.getD 1 0).toBitVec := hb 1 (by decide)
    have h2 : rp (s + 2) = (l.getD 2 0).toBitVec := hb 2 (by decide)
    have h3 : rp (s + 3) = (l.getD 3 0).toBitVec := hb 3 (by decide)
    have h4 : rp (s + 4) = (l.getD 4 0).toBitVec := hb 4 (by decide)
    simp [tailR, h0, h1, h2, h3, h4, b64_eq, SipHash.compress, SipHash.finalize, SipHash.round, rol64_13, rol64_32,
      rol64_16, rol64_21, rol64_17]
  | 6, _ =>
    have h0 : rp s = (l.getD 0 0).toBitVec := by simpa using hb 0 (by decide)
    have h1 : rp (s + 1) = (l.getD 1 0).toBitVec := hb 1 (by decide)
    have h2 : rp (s + 2) = (l.getD 2 0).toBitVec := hb 2 (by decide)
    have h3 : rp (s + 3) = (l.getD 3 0).toBitVec := hb 3 (by decide)
    have h4 : rp (s + 4) = (l.getD 4 0).toBitVec := hb 4 (by decide)
    have h5 : rp (s + 5) = (l.getD 5 0).toBitVec := hb 5 (by decide)
    simp [tailR, h0, h1, h2, h3, h4, h5, b64_eq, SipHash.compress, SipHash.finalize, SipHash.round, rol64_13, rol64_32,
      rol64_16, rol64_21, rol64_17]
  | 7, _ =>
    have h0 : rp s = (l.getD 0 0).toBitVec := by simpa using hb 0 (by decide)
    have h1 : rp (s + 1) = (l.getD 1 0).toBitVec := hb 1 (by decide)
    have h2 : rp (s + 2) = (l.getD 2 0).toBitVec := hb 2 (by decide)
    have h3 : rp (s + 3) = (l.getD 3 0).toBitVec := hb 3 (by decide)
    have h4 : rp (s + 4) = (l.getD 4 0).toBitVec := hb 4 (by decide)
    have h5 : rp (s + 5) = (l.getD 5 0).toBitVec := hb 5 (by decide)
    have h6 : rp (s + 6) = (l.getD 6 0).toBitVec := hb 6 (by decide)
    simp [tailR, h0, h1, h2, h3, h4, h5, h6, b64_eq, SipHash.compress, SipHash.finalize, SipHash.round, rol64_13, rol64_32,
      rol64_16, rol64_21, rol64_17]

theorem getD_drop (l : List UInt8) (a i : Nat) : (l.drop a).getD i 0 = l.getD (a + i) 0 := by
  simp [List.getD_eq_getElem?_getD, List.getElem?_drop]

theorem sip_loop_all (rp : Nat → BitVec 8) (F d p : Nat) (k0 k1 : BitVec 64) (l : List UInt8)
    (hl : ∀ i, i < l.length → rp (p + i) = (l.getD i 0).toBitVec) (hL : l.length < 2 ^ 64) :
    ∀ (fuel k : Nat) (st : SipHash.St) (m : BitVec 64), k ≤ l.length / 8 → l.length / 8 - k < fuel →
      siphash24_loop1 rp F fuel d (BitVec.ofNat 64 l.length) k0 k1 (p + 8 * k) (p + 8 * (l.length / 8))
        st.v0.toBitVec st.v1.toBitVec st.v2.toBitVec st.v3.toBitVec m =
      some (SipHash.finalize (SipHash.compress (SipHash.loop (l.length / 8 - k) st (l.drop (8 * k)))
        (tailR (UInt64.ofNat l.length) (l.length % 8) (l.drop (8 * (l.length / 8)))))).toBitVec := by
  intro fuel
  induction fuel with
  | zero => intro k st m _ h; omega
  | succ fuel ih =>
    intro k st m hk hf
    by_cases hlt : k < l.length / 8
    · have hb : ∀ i, i < 8 → rp (p + 8 * k + i) = ((l.drop (8 * k)).getD i 0).toBitVec := by
        intro i hi
        rw [getD_drop, Nat.add_assoc]
        exact hl _ (by omega)
      rw [sip_loop_step rp F fuel d _ k0 k1 _ _ st m (l.drop (8 * k)) (by omega) hb]
      have e1 : p + 8 * k + 8 = p + 8 * (k + 1) := by omega
      rw [e1, ih (k + 1) _ _ (by omega) (by omega)]
      have e2 : l.length / 8 - k = (l.length / 8 - (k + 1)) + 1 := by omega
      rw [e2]
      simp only [SipHash.loop, List.drop_drop]
      have e3 : 8 * k + 8 = 8 * (k + 1) := by omega
      rw [e3]
    · have hk' : k = l.length / 8 := by omega
      subst hk'
      have hlr : BitVec.ofNat 64 l.length &&& (BitVec.signExtend 64 (7#32)) = BitVec.ofNat 64 (l.length % 8) := by
        apply BitVec.eq_of_toNat_eq
        have e7 : (BitVec.signExtend 64 (7#32)).toNat = 2 ^ 3 - 1 := by decide
        rw [BitVec.toNat_and, e7, Nat.and_two_pow_sub_one_eq_mod]
        simp only [BitVec.toNat_ofNat]
        omega
      have hb : ∀ i, i < l.length % 8 → rp (p + 8 * (l.length / 8) + i) = ((l.drop (8 * (l.length / 8))).getD i 0).toBitVec := by
        intro i hi
        rw [getD_drop, Nat.add_assoc]
        exact hl _ (by omega)
      rw [sip_loop_exit rp F fuel d (BitVec.ofNat 64 l.length) k0 k1 _ _ st m (l.drop (8 * (l.length / 8))) (l.length % 8) (by omega)
        (by omega) (UInt64.ofNat l.length) rfl hlr hb]
      simp [SipHash.loop]

/-- **`siphash24(data, len, k0, k1)`** as clang reads it today (word loop, fall-through tail switch,
last compression, finalisation) = the model's `SipHash.siphash24` on the `len` bytes, for every fuel
above `len / 8` -/
theorem bridge_siphash24 (rp : Nat → BitVec 8) (p : Nat) (l : List UInt8) (k0 k1 : UInt64)
    (hl : ∀ i, i < l.length → rp (p + i) = (l.getD i 0).toBitVec) (hL : l.length < 2 ^ 64)
    (fuel : Nat) (hf : l.length / 8 < fuel) :
    Usual.Gen.C16T.siphash24 rp fuel p (BitVec.ofNat 64 l.length) k0.toBitVec k1.toBitVec =
      some (SipHash.siphash24 l k0 k1).toBitVec := by
  unfold Usual.Gen.C16T.siphash24 SipHash.siphash24
  have he : (BitVec.ofNat 64 l.length - BitVec.ofNat 64 l.length % 8#64).toNat = 8 * (l.length / 8) := by
    rw [BitVec.toNat_sub, BitVec.toNat_umod]
    simp only [BitVec.toNat_ofNat, Nat.mod_eq_of_lt hL, Nat.reducePow, Nat.reduceMod]
    have := hL
    omega
  have := sip_loop_all rp fuel p p k0.toBitVec k1.toBitVec l hl hL fuel 0 (SipHash.init k0 k1) 0#64 (by omega) (by omega)
  simp only [he]
  simp only [Nat.mul_zero, Nat.add_zero, Nat.sub_zero, List.drop_zero] at this
  rw [tail_eq]
  exact this

end UsualProofs.Bridge.C16T
