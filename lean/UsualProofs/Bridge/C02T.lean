import Std.Tactic.BVDecide
import Usual.Gen.C02T
import Usual.C02.Parse
/-!
# C02 translation tie: `parse_hex` of usual/json.c

`Usual.Gen.C02T.parse_hex` is regenerated on every run of `checks/C02.py`; the constant-bound loop
`for (i = 0; i < 4; i++)` is unrolled by the translator (every loop test is decided by the value
ranges it carries: `i` is 0, 1, 2, 3, then 4), which also shows that `v << 4` stays inside `int`.
`gen_eq_bv` (one `bv_decide` over the four bytes) reduces the 81-leaf decision tree to the compact
`parseHexBV`; `bv_eq_model` (256-case kernel evaluation per digit + Horner) identifies that with the
model; `bridge_parse_hex`: on every byte string `[s, end)` the C function returns `-1` exactly when
`Usual.C02.parseHex` is `none` and otherwise its value — the function `parseUescape` and through it
`rejects_bad_escape`, `rejects_lone_surrogate`, `rfc_accepted` are built on.
-/
namespace UsualProofs.Bridge.C02T
open Usual.C02
open Usual.Gen.C02T

/-- value of one hex digit as the C code computes it (`c` = the `char` sign-extended to `int`),
`-1` for a byte that is no hex digit -/
def hexDigBV (b : BitVec 8) : BitVec 32 :=
  let c := BitVec.signExtend 32 b
  if BitVec.sle 48#32 c && BitVec.sle c 57#32 then c - 48#32
  else if BitVec.sle 97#32 c && BitVec.sle c 102#32 then c - 97#32 + 10#32
  else if BitVec.sle 65#32 c && BitVec.sle c 70#32 then c - 65#32 + 10#32
  else -1#32

/-- `parse_hex` on four bytes that lie before `end` -/
def parseHexBV (b0 b1 b2 b3 : BitVec 8) : BitVec 32 :=
  if hexDigBV b0 == -1#32 || hexDigBV b1 == -1#32 || hexDigBV b2 == -1#32 || hexDigBV b3 == -1#32 then -1#32
  else ((hexDigBV b0 * 16#32 + hexDigBV b1) * 16#32 + hexDigBV b2) * 16#32 + hexDigBV b3

theorem gen_eq_bv (rs : Nat → BitVec 8) (s e : Nat) :
    parse_hex rs s e = if s + 4 > e then -1#32 else parseHexBV (rs s) (rs (s + 1)) (rs (s + 2)) (rs (s + 3)) := by
  unfold parse_hex parseHexBV hexDigBV
  simp only [BitVec.toNat_ofNat, BitVec.toNat_add, Nat.reducePow, Nat.reduceMod, Nat.add_zero, Nat.reduceAdd]
  generalize rs s = b0; generalize rs (s + 1) = b1; generalize rs (s + 2) = b2; generalize rs (s + 3) = b3
  by_cases h : s + 4 > e
  · simp [h]
  · simp only [h, decide_false, Bool.false_eq_true, ↓reduceIte]
    bv_decide

/-- the C encoding of the model's result: `-1` for `none` -/
def enc : Option Nat → BitVec 32
  | none => -1#32
  | some v => BitVec.ofNat 32 v

theorem hexDig_fin : ∀ n : Fin 256,
    hexDigBV (BitVec.ofNat 8 n.val) = enc (hexDig (UInt8.ofNat n.val)) ∧
    (∀ x, hexDig (UInt8.ofNat n.val) = some x → x < 16) := by
  decide +kernel

theorem hexDig_bv (c : UInt8) : hexDigBV c.toBitVec = enc (hexDig c) ∧ (∀ x, hexDig c = some x → x < 16) := by
  have h := hexDig_fin ⟨c.toNat, c.toNat_lt⟩
  have e1 : UInt8.ofNat c.toNat = c := by simp
  have e2 : BitVec.ofNat 8 c.toNat = c.toBitVec := by simp
  simp only [e1, e2] at h
  exact h

theorem enc_some_ne (x : Nat) (hx : x < 16) : (enc (some x) == -1#32) = false := by
  simp only [enc, beq_eq_false_iff_ne, ne_eq]
  intro h
  have := congrArg BitVec.toNat h
  simp at this
  omega

theorem horner (x y z w : Nat) :
    ((BitVec.ofNat 32 x * 16#32 + BitVec.ofNat 32 y) * 16#32 + BitVec.ofNat 32 z) * 16#32 + BitVec.ofNat 32 w =
      BitVec.ofNat 32 (((x * 16 + y) * 16 + z) * 16 + w) := by
  apply BitVec.eq_of_toNat_eq
  simp [BitVec.toNat_add, BitVec.toNat_mul]

theorem bv_eq_model (a b c d : UInt8) :
    parseHexBV a.toBitVec b.toBitVec c.toBitVec d.toBitVec =
      enc (match hexDig a, hexDig b, hexDig c, hexDig d with
           | some x, some y, some z, some w => some (((x * 16 + y) * 16 + z) * 16 + w)
           | _, _, _, _ => none) := by
  unfold parseHexBV
  obtain ⟨ha, ha'⟩ := hexDig_bv a
  obtain ⟨hb, hb'⟩ := hexDig_bv b
  obtain ⟨hc, hc'⟩ := hexDig_bv c
  obtain ⟨hd, hd'⟩ := hexDig_bv d
  rw [ha, hb, hc, hd]
  cases h1 : hexDig a with
  | none => simp [enc]
  | some x =>
    cases h2 : hexDig b with
    | none => simp [enc]
    | some y =>
      cases h3 : hexDig c with
      | none => simp [enc]
      | some z =>
        cases h4 : hexDig d with
        | none => simp [enc]
        | some w =>
          rw [enc_some_ne x (ha' x h1), enc_some_ne y (hb' y h2), enc_some_ne z (hc' z h3),
            enc_some_ne w (hd' w h4)]
          simp only [Bool.or_self, Bool.false_eq_true, ↓reduceIte, enc, horner]

/-- `parse_hex(s, end)` as clang reads it today = the model's `parseHex` on the bytes `[s, end)`
(`-1` = `none`) -/
theorem bridge_parse_hex (rs : Nat → BitVec 8) (s e : Nat) (l : Bytes) (hlen : l.length = e - s)
    (hl : ∀ i, i < l.length → rs (s + i) = (l.getD i 0).toBitVec) :
    parse_hex rs s e = enc (parseHex l) := by
  rw [gen_eq_bv]
  match l, hlen, hl with
  | [], hlen, _ => simp at hlen; rw [if_pos (by omega)]; rfl
  | [_], hlen, _ => simp at hlen; rw [if_pos (by omega)]; rfl
  | [_, _], hlen, _ => simp at hlen; rw [if_pos (by omega)]; rfl
  | [_, _, _], hlen, _ => simp at hlen; rw [if_pos (by omega)]; rfl
  | a :: b :: c :: d :: t, hlen, hl =>
    simp at hlen
    rw [if_neg (by omega)]
    have h0 := hl 0 (by simp)
    have h1 := hl 1 (by simp)
    have h2 := hl 2 (by simp)
    have h3 := hl 3 (by simp)
    simp at h0 h1 h2 h3
    rw [h0, h1, h2, h3, bv_eq_model]
    rfl

end UsualProofs.Bridge.C02T
