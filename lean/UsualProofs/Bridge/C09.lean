import Usual.Gen.C09
import Usual.C09.SafeMul
/-! T-tie for C09: what clang reads in `is_power_of_2` (usual/bits.h, translated on every run by
    extract/c2lean.py into `Usual.Gen.C09`) is the model `Usual.C09.isPowerOf2` on every
    `unsigned int`.  (`safe_mul_*` is outside the translator's subset — `sizeof` in the shift
    amount — and is tied by the exhaustive / boundary-directed correspondence run instead.) -/
namespace UsualProofs.Bridge.C09
open Usual.C09

theorem bridge_is_power_of_2 (n : BitVec 32) :
    Usual.Gen.C09.is_power_of_2 n = isPowerOf2 n.toNat := by
  unfold Usual.Gen.C09.is_power_of_2 isPowerOf2
  by_cases h0 : n = 0#32
  · subst h0; decide
  · have hpos : 0 < n.toNat := by
      rcases Nat.eq_zero_or_pos n.toNat with h | h
      · exact absurd (BitVec.eq_of_toNat_eq (by simpa using h)) h0
      · exact h
    have hlt : n.toNat < 2 ^ 32 := n.isLt
    have hsub : (n - 1#32).toNat = n.toNat - 1 := by
      rw [BitVec.toNat_sub]
      simp only [BitVec.toNat_ofNat]
      omega
    have hult : BitVec.ult (0#32) n = true := by
      simp only [BitVec.ult, BitVec.toNat_ofNat]
      simpa using hpos
    have hand : ((n &&& (n - 1#32)) == 0#32) = ((n.toNat &&& (n.toNat - 1)) == 0) := by
      rw [← hsub, ← BitVec.toNat_and]
      by_cases hz : n &&& (n - 1#32) = 0#32
      · rw [hz]; rfl
      · have hne : (n &&& (n - 1#32)).toNat ≠ 0 := fun e => hz (BitVec.eq_of_toNat_eq (by simpa using e))
        have l : ((n &&& (n - 1#32)) == 0#32) = false := beq_eq_false_iff_ne.mpr hz
        have r : ((n &&& (n - 1#32)).toNat == 0) = false := beq_eq_false_iff_ne.mpr hne
        rw [l, r]
    rw [hult, hand]
    simp [hpos]

end UsualProofs.Bridge.C09
