import Usual.C05.KeccakPaths
import Std.Tactic.BVDecide
/-! C05 bridge lemmas `translated C = model`, the only C05 file that uses `bv_decide` (each call adds
    an axiom that the audit counts).  Proved here, bit-precisely and for all inputs:
    * each of the four rounds of the unrolled 64-bit loop body (`Usual.Gen.C05.f64Round*`, translated
      from keccak.c) is the FIPS 202 round, with its result placed in the lanes as `placeK` says
      (the code works in place: lanes travel and are back home after four rounds);
    * each of the four rounds of the KECCAK_32BIT loop body (`f32Round*`) is the same round computed on
      (even bits, odd bits) word pairs, placed per `placeK`/`swapK` (halves stored swapped);
    * the network of the 32-bit `xor_lane` (`interleave32`) is a homomorphism for xor/and/not, turns a
      rotation by n into rotations of the halves (swapped for odd n), and `extract`'s network
      (`deinterleave32`) is its two-sided inverse. -/
namespace Usual.C05.Keccak
open Usual.Gen.C05

/-- lane found at position `p` after round 0 of the loop body -/
def place1 : Nat → Nat
  | 0 => 0 | 1 => 11 | 2 => 22 | 3 => 8 | 4 => 19 | 5 => 15 | 6 => 1 | 7 => 12 | 8 => 23 | 9 => 9 | 10 => 5 | 11 => 16 | 12 => 2 | 13 => 13 | 14 => 24 | 15 => 20 | 16 => 6 | 17 => 17 | 18 => 3 | 19 => 14 | 20 => 10 | 21 => 21 | 22 => 7 | 23 => 18 | _ => 4

/-- is the word pair at position `p` stored (odd, even) after round 0 of the 32-bit loop body -/
def swap1 : Nat → Bool
  | 1 => true | 4 => true | 8 => true | 10 => true | 12 => true | 13 => true | 14 => true | 15 => true | 16 => true | 17 => true | 18 => true | 22 => true | _ => false

/-- lane found at position `p` after round 1 of the loop body -/
def place2 : Nat → Nat
  | 0 => 0 | 1 => 16 | 2 => 7 | 3 => 23 | 4 => 14 | 5 => 20 | 6 => 11 | 7 => 2 | 8 => 18 | 9 => 9 | 10 => 15 | 11 => 6 | 12 => 22 | 13 => 13 | 14 => 4 | 15 => 10 | 16 => 1 | 17 => 17 | 18 => 8 | 19 => 24 | 20 => 5 | 21 => 21 | 22 => 12 | 23 => 3 | _ => 19

/-- is the word pair at position `p` stored (odd, even) after round 1 of the 32-bit loop body -/
def swap2 : Nat → Bool
  | 1 => true | 2 => true | 3 => true | 4 => true | 5 => true | 6 => true | 7 => true | 8 => true | 10 => true | 11 => true | 12 => true | 14 => true | 15 => true | 16 => true | 18 => true | 19 => true | 20 => true | 22 => true | 23 => true | 24 => true | _ => false

/-- lane found at position `p` after round 2 of the loop body -/
def place3 : Nat → Nat
  | 0 => 0 | 1 => 6 | 2 => 12 | 3 => 18 | 4 => 24 | 5 => 10 | 6 => 16 | 7 => 22 | 8 => 3 | 9 => 9 | 10 => 20 | 11 => 1 | 12 => 7 | 13 => 13 | 14 => 19 | 15 => 5 | 16 => 11 | 17 => 17 | 18 => 23 | 19 => 4 | 20 => 15 | 21 => 21 | 22 => 2 | 23 => 8 | _ => 14

/-- is the word pair at position `p` stored (odd, even) after round 2 of the 32-bit loop body -/
def swap3 : Nat → Bool
  | 2 => true | 3 => true | 5 => true | 6 => true | 7 => true | 11 => true | 13 => true | 17 => true | 19 => true | 20 => true | 23 => true | 24 => true | _ => false

def place0 : Nat → Nat := fun p => p
def swap0 : Nat → Bool := fun _ => false

/-- lanes of `s` laid out by `P` -/
def placed (P : Nat → Nat) (s : L25 α) : L25 α := L25.ofFn fun p => s.get (P p)

/-- word pairs of `w` laid out by `P`, halves exchanged where `X`; first component = `state32[2p]` -/
def placedW (P : Nat → Nat) (X : Nat → Bool) (w : L25 (UInt32 × UInt32)) : L25 UInt32 × L25 UInt32 :=
  (L25.ofFn fun p => if X p then (w.get (P p)).2 else (w.get (P p)).1,
   L25.ofFn fun p => if X p then (w.get (P p)).1 else (w.get (P p)).2)

/-! ## 64-bit unrolled rounds -/

set_option maxRecDepth 100000 in
set_option maxHeartbeats 4000000 in
theorem f64Round0_eq (rc : UInt64) (s : L25 UInt64) :
    f64Round0 rc (placed place0 s) = placed place1 (specRound rc s) := by
  cases s
  simp only [f64Round0, placed, place0, place1, specRound, gRound, gIota, gChi, gRhoPi, gTheta, ops64, L25.ofFn, L25.get,
    rhoOffset, rot64, rol64, L25.mk.injEq, Nat.reduceMod, Nat.reduceDiv, Nat.reduceAdd, Nat.reduceMul, Nat.reduceSub,
    UInt64.reduceOfNat, Nat.reduceEqDiff, reduceIte, if_false, if_true]
  all_goals (repeat' apply And.intro)
  all_goals bv_decide

set_option maxRecDepth 100000 in
set_option maxHeartbeats 4000000 in
theorem f64Round1_eq (rc : UInt64) (s : L25 UInt64) :
    f64Round1 rc (placed place1 s) = placed place2 (specRound rc s) := by
  cases s
  simp only [f64Round1, placed, place1, place2, specRound, gRound, gIota, gChi, gRhoPi, gTheta, ops64, L25.ofFn, L25.get,
    rhoOffset, rot64, rol64, L25.mk.injEq, Nat.reduceMod, Nat.reduceDiv, Nat.reduceAdd, Nat.reduceMul, Nat.reduceSub,
    UInt64.reduceOfNat, Nat.reduceEqDiff, reduceIte, if_false, if_true]
  all_goals (repeat' apply And.intro)
  all_goals bv_decide

set_option maxRecDepth 100000 in
set_option maxHeartbeats 4000000 in
theorem f64Round2_eq (rc : UInt64) (s : L25 UInt64) :
    f64Round2 rc (placed place2 s) = placed place3 (specRound rc s) := by
  cases s
  simp only [f64Round2, placed, place2, place3, specRound, gRound, gIota, gChi, gRhoPi, gTheta, ops64, L25.ofFn, L25.get,
    rhoOffset, rot64, rol64, L25.mk.injEq, Nat.reduceMod, Nat.reduceDiv, Nat.reduceAdd, Nat.reduceMul, Nat.reduceSub,
    UInt64.reduceOfNat, Nat.reduceEqDiff, reduceIte, if_false, if_true]
  all_goals (repeat' apply And.intro)
  all_goals bv_decide

set_option maxRecDepth 100000 in
set_option maxHeartbeats 4000000 in
theorem f64Round3_eq (rc : UInt64) (s : L25 UInt64) :
    f64Round3 rc (placed place3 s) = placed place0 (specRound rc s) := by
  cases s
  simp only [f64Round3, placed, place3, place0, specRound, gRound, gIota, gChi, gRhoPi, gTheta, ops64, L25.ofFn, L25.get,
    rhoOffset, rot64, rol64, L25.mk.injEq, Nat.reduceMod, Nat.reduceDiv, Nat.reduceAdd, Nat.reduceMul, Nat.reduceSub,
    UInt64.reduceOfNat, Nat.reduceEqDiff, reduceIte, if_false, if_true]
  all_goals (repeat' apply And.intro)
  all_goals bv_decide

/-! ## 32-bit interleaved rounds, on word pairs -/

set_option maxRecDepth 100000 in
set_option maxHeartbeats 4000000 in
theorem f32Round0_eq (rc : UInt32 × UInt32) (w : L25 (UInt32 × UInt32)) :
    f32Round0 rc.1 rc.2 (placedW place0 swap0 w).1 (placedW place0 swap0 w).2
      = placedW place1 swap1 (gRound opsPair rc w) := by
  rcases w with ⟨⟨e0, o0⟩, ⟨e1, o1⟩, ⟨e2, o2⟩, ⟨e3, o3⟩, ⟨e4, o4⟩, ⟨e5, o5⟩, ⟨e6, o6⟩, ⟨e7, o7⟩, ⟨e8, o8⟩, ⟨e9, o9⟩, ⟨e10, o10⟩, ⟨e11, o11⟩, ⟨e12, o12⟩, ⟨e13, o13⟩, ⟨e14, o14⟩, ⟨e15, o15⟩, ⟨e16, o16⟩, ⟨e17, o17⟩, ⟨e18, o18⟩, ⟨e19, o19⟩, ⟨e20, o20⟩, ⟨e21, o21⟩, ⟨e22, o22⟩, ⟨e23, o23⟩, ⟨e24, o24⟩⟩
  rcases rc with ⟨r0, r1⟩
  simp only [f32Round0, placedW, place0, place1, swap0, swap1, gRound, gIota, gChi, gRhoPi, gTheta, opsPair, L25.ofFn, L25.get,
    rhoOffset, rot32, rol32, L25.mk.injEq, Prod.mk.injEq, Nat.reduceMod, Nat.reduceDiv, Nat.reduceAdd, Nat.reduceMul, Nat.reduceSub,
    UInt32.reduceOfNat, Nat.reduceEqDiff, reduceIte, if_false, if_true, Bool.false_eq_true]
  all_goals (repeat' apply And.intro)
  all_goals bv_decide

set_option maxRecDepth 100000 in
set_option maxHeartbeats 4000000 in
theorem f32Round1_eq (rc : UInt32 × UInt32) (w : L25 (UInt32 × UInt32)) :
    f32Round1 rc.1 rc.2 (placedW place1 swap1 w).1 (placedW place1 swap1 w).2
      = placedW place2 swap2 (gRound opsPair rc w) := by
  rcases w with ⟨⟨e0, o0⟩, ⟨e1, o1⟩, ⟨e2, o2⟩, ⟨e3, o3⟩, ⟨e4, o4⟩, ⟨e5, o5⟩, ⟨e6, o6⟩, ⟨e7, o7⟩, ⟨e8, o8⟩, ⟨e9, o9⟩, ⟨e10, o10⟩, ⟨e11, o11⟩, ⟨e12, o12⟩, ⟨e13, o13⟩, ⟨e14, o14⟩, ⟨e15, o15⟩, ⟨e16, o16⟩, ⟨e17, o17⟩, ⟨e18, o18⟩, ⟨e19, o19⟩, ⟨e20, o20⟩, ⟨e21, o21⟩, ⟨e22, o22⟩, ⟨e23, o23⟩, ⟨e24, o24⟩⟩
  rcases rc with ⟨r0, r1⟩
  simp only [f32Round1, placedW, place1, place2, swap1, swap2, gRound, gIota, gChi, gRhoPi, gTheta, opsPair, L25.ofFn, L25.get,
    rhoOffset, rot32, rol32, L25.mk.injEq, Prod.mk.injEq, Nat.reduceMod, Nat.reduceDiv, Nat.reduceAdd, Nat.reduceMul, Nat.reduceSub,
    UInt32.reduceOfNat, Nat.reduceEqDiff, reduceIte, if_false, if_true, Bool.false_eq_true]
  all_goals (repeat' apply And.intro)
  all_goals bv_decide

set_option maxRecDepth 100000 in
set_option maxHeartbeats 4000000 in
theorem f32Round2_eq (rc : UInt32 × UInt32) (w : L25 (UInt32 × UInt32)) :
    f32Round2 rc.1 rc.2 (placedW place2 swap2 w).1 (placedW place2 swap2 w).2
      = placedW place3 swap3 (gRound opsPair rc w) := by
  rcases w with ⟨⟨e0, o0⟩, ⟨e1, o1⟩, ⟨e2, o2⟩, ⟨e3, o3⟩, ⟨e4, o4⟩, ⟨e5, o5⟩, ⟨e6, o6⟩, ⟨e7, o7⟩, ⟨e8, o8⟩, ⟨e9, o9⟩, ⟨e10, o10⟩, ⟨e11, o11⟩, ⟨e12, o12⟩, ⟨e13, o13⟩, ⟨e14, o14⟩, ⟨e15, o15⟩, ⟨e16, o16⟩, ⟨e17, o17⟩, ⟨e18, o18⟩, ⟨e19, o19⟩, ⟨e20, o20⟩, ⟨e21, o21⟩, ⟨e22, o22⟩, ⟨e23, o23⟩, ⟨e24, o24⟩⟩
  rcases rc with ⟨r0, r1⟩
  simp only [f32Round2, placedW, place2, place3, swap2, swap3, gRound, gIota, gChi, gRhoPi, gTheta, opsPair, L25.ofFn, L25.get,
    rhoOffset, rot32, rol32, L25.mk.injEq, Prod.mk.injEq, Nat.reduceMod, Nat.reduceDiv, Nat.reduceAdd, Nat.reduceMul, Nat.reduceSub,
    UInt32.reduceOfNat, Nat.reduceEqDiff, reduceIte, if_false, if_true, Bool.false_eq_true]
  all_goals (repeat' apply And.intro)
  all_goals bv_decide

set_option maxRecDepth 100000 in
set_option maxHeartbeats 4000000 in
theorem f32Round3_eq (rc : UInt32 × UInt32) (w : L25 (UInt32 × UInt32)) :
    f32Round3 rc.1 rc.2 (placedW place3 swap3 w).1 (placedW place3 swap3 w).2
      = placedW place0 swap0 (gRound opsPair rc w) := by
  rcases w with ⟨⟨e0, o0⟩, ⟨e1, o1⟩, ⟨e2, o2⟩, ⟨e3, o3⟩, ⟨e4, o4⟩, ⟨e5, o5⟩, ⟨e6, o6⟩, ⟨e7, o7⟩, ⟨e8, o8⟩, ⟨e9, o9⟩, ⟨e10, o10⟩, ⟨e11, o11⟩, ⟨e12, o12⟩, ⟨e13, o13⟩, ⟨e14, o14⟩, ⟨e15, o15⟩, ⟨e16, o16⟩, ⟨e17, o17⟩, ⟨e18, o18⟩, ⟨e19, o19⟩, ⟨e20, o20⟩, ⟨e21, o21⟩, ⟨e22, o22⟩, ⟨e23, o23⟩, ⟨e24, o24⟩⟩
  rcases rc with ⟨r0, r1⟩
  simp only [f32Round3, placedW, place3, place0, swap3, swap0, gRound, gIota, gChi, gRhoPi, gTheta, opsPair, L25.ofFn, L25.get,
    rhoOffset, rot32, rol32, L25.mk.injEq, Prod.mk.injEq, Nat.reduceMod, Nat.reduceDiv, Nat.reduceAdd, Nat.reduceMul, Nat.reduceSub,
    UInt32.reduceOfNat, Nat.reduceEqDiff, reduceIte, if_false, if_true, Bool.false_eq_true]
  all_goals (repeat' apply And.intro)
  all_goals bv_decide

/-! ## the interleaving network of xor_lane / extract (32-bit build) -/

theorem interleave32_xor (a b : UInt64) :
    interleave32 (a ^^^ b) = ((interleave32 a).1 ^^^ (interleave32 b).1, (interleave32 a).2 ^^^ (interleave32 b).2) := by
  simp only [interleave32, Prod.mk.injEq]
  all_goals (repeat' apply And.intro)
  all_goals bv_decide

theorem interleave32_and (a b : UInt64) :
    interleave32 (a &&& b) = ((interleave32 a).1 &&& (interleave32 b).1, (interleave32 a).2 &&& (interleave32 b).2) := by
  simp only [interleave32, Prod.mk.injEq]
  all_goals (repeat' apply And.intro)
  all_goals bv_decide

theorem interleave32_not (a : UInt64) :
    interleave32 (~~~ a) = (~~~ (interleave32 a).1, ~~~ (interleave32 a).2) := by
  simp only [interleave32, Prod.mk.injEq]
  all_goals (repeat' apply And.intro)
  all_goals bv_decide

theorem deinterleave32_interleave32 (a : UInt64) :
    deinterleave32 (interleave32 a).1 (interleave32 a).2 = a := by
  simp only [interleave32, deinterleave32]
  bv_decide

theorem interleave32_deinterleave32 (w0 w1 : UInt32) :
    interleave32 (deinterleave32 w0 w1) = (w0, w1) := by
  simp only [interleave32, deinterleave32, Prod.mk.injEq]
  all_goals (repeat' apply And.intro)
  all_goals bv_decide

theorem interleave32_rot_0 (a : UInt64) : interleave32 (rot64 a 0) = opsPair.rot (interleave32 a) 0 := by
  simp only [interleave32, opsPair, rot64, rol64, rot32, rol32, Prod.mk.injEq, Nat.reduceMod, Nat.reduceDiv, Nat.reduceAdd,
    Nat.reduceSub, UInt32.reduceOfNat, UInt64.reduceOfNat, Nat.reduceEqDiff, reduceIte, if_false, if_true]
  all_goals (repeat' apply And.intro)
  all_goals bv_decide

theorem interleave32_rot_1 (a : UInt64) : interleave32 (rot64 a 1) = opsPair.rot (interleave32 a) 1 := by
  simp only [interleave32, opsPair, rot64, rol64, rot32, rol32, Prod.mk.injEq, Nat.reduceMod, Nat.reduceDiv, Nat.reduceAdd,
    Nat.reduceSub, UInt32.reduceOfNat, UInt64.reduceOfNat, Nat.reduceEqDiff, reduceIte, if_false, if_true]
  all_goals (repeat' apply And.intro)
  all_goals bv_decide

theorem interleave32_rot_2 (a : UInt64) : interleave32 (rot64 a 2) = opsPair.rot (interleave32 a) 2 := by
  simp only [interleave32, opsPair, rot64, rol64, rot32, rol32, Prod.mk.injEq, Nat.reduceMod, Nat.reduceDiv, Nat.reduceAdd,
    Nat.reduceSub, UInt32.reduceOfNat, UInt64.reduceOfNat, Nat.reduceEqDiff, reduceIte, if_false, if_true]
  all_goals (repeat' apply And.intro)
  all_goals bv_decide

theorem interleave32_rot_3 (a : UInt64) : interleave32 (rot64 a 3) = opsPair.rot (interleave32 a) 3 := by
  simp only [interleave32, opsPair, rot64, rol64, rot32, rol32, Prod.mk.injEq, Nat.reduceMod, Nat.reduceDiv, Nat.reduceAdd,
    Nat.reduceSub, UInt32.reduceOfNat, UInt64.reduceOfNat, Nat.reduceEqDiff, reduceIte, if_false, if_true]
  all_goals (repeat' apply And.intro)
  all_goals bv_decide

theorem interleave32_rot_4 (a : UInt64) : interleave32 (rot64 a 4) = opsPair.rot (interleave32 a) 4 := by
  simp only [interleave32, opsPair, rot64, rol64, rot32, rol32, Prod.mk.injEq, Nat.reduceMod, Nat.reduceDiv, Nat.reduceAdd,
    Nat.reduceSub, UInt32.reduceOfNat, UInt64.reduceOfNat, Nat.reduceEqDiff, reduceIte, if_false, if_true]
  all_goals (repeat' apply And.intro)
  all_goals bv_decide

theorem interleave32_rot_5 (a : UInt64) : interleave32 (rot64 a 5) = opsPair.rot (interleave32 a) 5 := by
  simp only [interleave32, opsPair, rot64, rol64, rot32, rol32, Prod.mk.injEq, Nat.reduceMod, Nat.reduceDiv, Nat.reduceAdd,
    Nat.reduceSub, UInt32.reduceOfNat, UInt64.reduceOfNat, Nat.reduceEqDiff, reduceIte, if_false, if_true]
  all_goals (repeat' apply And.intro)
  all_goals bv_decide

theorem interleave32_rot_6 (a : UInt64) : interleave32 (rot64 a 6) = opsPair.rot (interleave32 a) 6 := by
  simp only [interleave32, opsPair, rot64, rol64, rot32, rol32, Prod.mk.injEq, Nat.reduceMod, Nat.reduceDiv, Nat.reduceAdd,
    Nat.reduceSub, UInt32.reduceOfNat, UInt64.reduceOfNat, Nat.reduceEqDiff, reduceIte, if_false, if_true]
  all_goals (repeat' apply And.intro)
  all_goals bv_decide

theorem interleave32_rot_7 (a : UInt64) : interleave32 (rot64 a 7) = opsPair.rot (interleave32 a) 7 := by
  simp only [interleave32, opsPair, rot64, rol64, rot32, rol32, Prod.mk.injEq, Nat.reduceMod, Nat.reduceDiv, Nat.reduceAdd,
    Nat.reduceSub, UInt32.reduceOfNat, UInt64.reduceOfNat, Nat.reduceEqDiff, reduceIte, if_false, if_true]
  all_goals (repeat' apply And.intro)
  all_goals bv_decide

theorem interleave32_rot_8 (a : UInt64) : interleave32 (rot64 a 8) = opsPair.rot (interleave32 a) 8 := by
  simp only [interleave32, opsPair, rot64, rol64, rot32, rol32, Prod.mk.injEq, Nat.reduceMod, Nat.reduceDiv, Nat.reduceAdd,
    Nat.reduceSub, UInt32.reduceOfNat, UInt64.reduceOfNat, Nat.reduceEqDiff, reduceIte, if_false, if_true]
  all_goals (repeat' apply And.intro)
  all_goals bv_decide

theorem interleave32_rot_9 (a : UInt64) : interleave32 (rot64 a 9) = opsPair.rot (interleave32 a) 9 := by
  simp only [interleave32, opsPair, rot64, rol64, rot32, rol32, Prod.mk.injEq, Nat.reduceMod, Nat.reduceDiv, Nat.reduceAdd,
    Nat.reduceSub, UInt32.reduceOfNat, UInt64.reduceOfNat, Nat.reduceEqDiff, reduceIte, if_false, if_true]
  all_goals (repeat' apply And.intro)
  all_goals bv_decide

theorem interleave32_rot_10 (a : UInt64) : interleave32 (rot64 a 10) = opsPair.rot (interleave32 a) 10 := by
  simp only [interleave32, opsPair, rot64, rol64, rot32, rol32, Prod.mk.injEq, Nat.reduceMod, Nat.reduceDiv, Nat.reduceAdd,
    Nat.reduceSub, UInt32.reduceOfNat, UInt64.reduceOfNat, Nat.reduceEqDiff, reduceIte, if_false, if_true]
  all_goals (repeat' apply And.intro)
  all_goals bv_decide

theorem interleave32_rot_11 (a : UInt64) : interleave32 (rot64 a 11) = opsPair.rot (interleave32 a) 11 := by
  simp only [interleave32, opsPair, rot64, rol64, rot32, rol32, Prod.mk.injEq, Nat.reduceMod, Nat.reduceDiv, Nat.reduceAdd,
    Nat.reduceSub, UInt32.reduceOfNat, UInt64.reduceOfNat, Nat.reduceEqDiff, reduceIte, if_false, if_true]
  all_goals (repeat' apply And.intro)
  all_goals bv_decide

theorem interleave32_rot_12 (a : UInt64) : interleave32 (rot64 a 12) = opsPair.rot (interleave32 a) 12 := by
  simp only [interleave32, opsPair, rot64, rol64, rot32, rol32, Prod.mk.injEq, Nat.reduceMod, Nat.reduceDiv, Nat.reduceAdd,
    Nat.reduceSub, UInt32.reduceOfNat, UInt64.reduceOfNat, Nat.reduceEqDiff, reduceIte, if_false, if_true]
  all_goals (repeat' apply And.intro)
  all_goals bv_decide

theorem interleave32_rot_13 (a : UInt64) : interleave32 (rot64 a 13) = opsPair.rot (interleave32 a) 13 := by
  simp only [interleave32, opsPair, rot64, rol64, rot32, rol32, Prod.mk.injEq, Nat.reduceMod, Nat.reduceDiv, Nat.reduceAdd,
    Nat.reduceSub, UInt32.reduceOfNat, UInt64.reduceOfNat, Nat.reduceEqDiff, reduceIte, if_false, if_true]
  all_goals (repeat' apply And.intro)
  all_goals bv_decide

theorem interleave32_rot_14 (a : UInt64) : interleave32 (rot64 a 14) = opsPair.rot (interleave32 a) 14 := by
  simp only [interleave32, opsPair, rot64, rol64, rot32, rol32, Prod.mk.injEq, Nat.reduceMod, Nat.reduceDiv, Nat.reduceAdd,
    Nat.reduceSub, UInt32.reduceOfNat, UInt64.reduceOfNat, Nat.reduceEqDiff, reduceIte, if_false, if_true]
  all_goals (repeat' apply And.intro)
  all_goals bv_decide

theorem interleave32_rot_15 (a : UInt64) : interleave32 (rot64 a 15) = opsPair.rot (interleave32 a) 15 := by
  simp only [interleave32, opsPair, rot64, rol64, rot32, rol32, Prod.mk.injEq, Nat.reduceMod, Nat.reduceDiv, Nat.reduceAdd,
    Nat.reduceSub, UInt32.reduceOfNat, UInt64.reduceOfNat, Nat.reduceEqDiff, reduceIte, if_false, if_true]
  all_goals (repeat' apply And.intro)
  all_goals bv_decide

theorem interleave32_rot_16 (a : UInt64) : interleave32 (rot64 a 16) = opsPair.rot (interleave32 a) 16 := by
  simp only [interleave32, opsPair, rot64, rol64, rot32, rol32, Prod.mk.injEq, Nat.reduceMod, Nat.reduceDiv, Nat.reduceAdd,
    Nat.reduceSub, UInt32.reduceOfNat, UInt64.reduceOfNat, Nat.reduceEqDiff, reduceIte, if_false, if_true]
  all_goals (repeat' apply And.intro)
  all_goals bv_decide

theorem interleave32_rot_17 (a : UInt64) : interleave32 (rot64 a 17) = opsPair.rot (interleave32 a) 17 := by
  simp only [interleave32, opsPair, rot64, rol64, rot32, rol32, Prod.mk.injEq, Nat.reduceMod, Nat.reduceDiv, Nat.reduceAdd,
    Nat.reduceSub, UInt32.reduceOfNat, UInt64.reduceOfNat, Nat.reduceEqDiff, reduceIte, if_false, if_true]
  all_goals (repeat' apply And.intro)
  all_goals bv_decide

theorem interleave32_rot_18 (a : UInt64) : interleave32 (rot64 a 18) = opsPair.rot (interleave32 a) 18 := by
  simp only [interleave32, opsPair, rot64, rol64, rot32, rol32, Prod.mk.injEq, Nat.reduceMod, Nat.reduceDiv, Nat.reduceAdd,
    Nat.reduceSub, UInt32.reduceOfNat, UInt64.reduceOfNat, Nat.reduceEqDiff, reduceIte, if_false, if_true]
  all_goals (repeat' apply And.intro)
  all_goals bv_decide

theorem interleave32_rot_19 (a : UInt64) : interleave32 (rot64 a 19) = opsPair.rot (interleave32 a) 19 := by
  simp only [interleave32, opsPair, rot64, rol64, rot32, rol32, Prod.mk.injEq, Nat.reduceMod, Nat.reduceDiv, Nat.reduceAdd,
    Nat.reduceSub, UInt32.reduceOfNat, UInt64.reduceOfNat, Nat.reduceEqDiff, reduceIte, if_false, if_true]
  all_goals (repeat' apply And.intro)
  all_goals bv_decide

theorem interleave32_rot_20 (a : UInt64) : interleave32 (rot64 a 20) = opsPair.rot (interleave32 a) 20 := by
  simp only [interleave32, opsPair, rot64, rol64, rot32, rol32, Prod.mk.injEq, Nat.reduceMod, Nat.reduceDiv, Nat.reduceAdd,
    Nat.reduceSub, UInt32.reduceOfNat, UInt64.reduceOfNat, Nat.reduceEqDiff, reduceIte, if_false, if_true]
  all_goals (repeat' apply And.intro)
  all_goals bv_decide

theorem interleave32_rot_21 (a : UInt64) : interleave32 (rot64 a 21) = opsPair.rot (interleave32 a) 21 := by
  simp only [interleave32, opsPair, rot64, rol64, rot32, rol32, Prod.mk.injEq, Nat.reduceMod, Nat.reduceDiv, Nat.reduceAdd,
    Nat.reduceSub, UInt32.reduceOfNat, UInt64.reduceOfNat, Nat.reduceEqDiff, reduceIte, if_false, if_true]
  all_goals (repeat' apply And.intro)
  all_goals bv_decide

theorem interleave32_rot_22 (a : UInt64) : interleave32 (rot64 a 22) = opsPair.rot (interleave32 a) 22 := by
  simp only [interleave32, opsPair, rot64, rol64, rot32, rol32, Prod.mk.injEq, Nat.reduceMod, Nat.reduceDiv, Nat.reduceAdd,
    Nat.reduceSub, UInt32.reduceOfNat, UInt64.reduceOfNat, Nat.reduceEqDiff, reduceIte, if_false, if_true]
  all_goals (repeat' apply And.intro)
  all_goals bv_decide

theorem interleave32_rot_23 (a : UInt64) : interleave32 (rot64 a 23) = opsPair.rot (interleave32 a) 23 := by
  simp only [interleave32, opsPair, rot64, rol64, rot32, rol32, Prod.mk.injEq, Nat.reduceMod, Nat.reduceDiv, Nat.reduceAdd,
    Nat.reduceSub, UInt32.reduceOfNat, UInt64.reduceOfNat, Nat.reduceEqDiff, reduceIte, if_false, if_true]
  all_goals (repeat' apply And.intro)
  all_goals bv_decide

theorem interleave32_rot_24 (a : UInt64) : interleave32 (rot64 a 24) = opsPair.rot (interleave32 a) 24 := by
  simp only [interleave32, opsPair, rot64, rol64, rot32, rol32, Prod.mk.injEq, Nat.reduceMod, Nat.reduceDiv, Nat.reduceAdd,
    Nat.reduceSub, UInt32.reduceOfNat, UInt64.reduceOfNat, Nat.reduceEqDiff, reduceIte, if_false, if_true]
  all_goals (repeat' apply And.intro)
  all_goals bv_decide

theorem interleave32_rot_25 (a : UInt64) : interleave32 (rot64 a 25) = opsPair.rot (interleave32 a) 25 := by
  simp only [interleave32, opsPair, rot64, rol64, rot32, rol32, Prod.mk.injEq, Nat.reduceMod, Nat.reduceDiv, Nat.reduceAdd,
    Nat.reduceSub, UInt32.reduceOfNat, UInt64.reduceOfNat, Nat.reduceEqDiff, reduceIte, if_false, if_true]
  all_goals (repeat' apply And.intro)
  all_goals bv_decide

theorem interleave32_rot_26 (a : UInt64) : interleave32 (rot64 a 26) = opsPair.rot (interleave32 a) 26 := by
  simp only [interleave32, opsPair, rot64, rol64, rot32, rol32, Prod.mk.injEq, Nat.reduceMod, Nat.reduceDiv, Nat.reduceAdd,
    Nat.reduceSub, UInt32.reduceOfNat, UInt64.reduceOfNat, Nat.reduceEqDiff, reduceIte, if_false, if_true]
  all_goals (repeat' apply And.intro)
  all_goals bv_decide

theorem interleave32_rot_27 (a : UInt64) : interleave32 (rot64 a 27) = opsPair.rot (interleave32 a) 27 := by
  simp only [interleave32, opsPair, rot64, rol64, rot32, rol32, Prod.mk.injEq, Nat.reduceMod, Nat.reduceDiv, Nat.reduceAdd,
    Nat.reduceSub, UInt32.reduceOfNat, UInt64.reduceOfNat, Nat.reduceEqDiff, reduceIte, if_false, if_true]
  all_goals (repeat' apply And.intro)
  all_goals bv_decide

theorem interleave32_rot_28 (a : UInt64) : interleave32 (rot64 a 28) = opsPair.rot (interleave32 a) 28 := by
  simp only [interleave32, opsPair, rot64, rol64, rot32, rol32, Prod.mk.injEq, Nat.reduceMod, Nat.reduceDiv, Nat.reduceAdd,
    Nat.reduceSub, UInt32.reduceOfNat, UInt64.reduceOfNat, Nat.reduceEqDiff, reduceIte, if_false, if_true]
  all_goals (repeat' apply And.intro)
  all_goals bv_decide

theorem interleave32_rot_29 (a : UInt64) : interleave32 (rot64 a 29) = opsPair.rot (interleave32 a) 29 := by
  simp only [interleave32, opsPair, rot64, rol64, rot32, rol32, Prod.mk.injEq, Nat.reduceMod, Nat.reduceDiv, Nat.reduceAdd,
    Nat.reduceSub, UInt32.reduceOfNat, UInt64.reduceOfNat, Nat.reduceEqDiff, reduceIte, if_false, if_true]
  all_goals (repeat' apply And.intro)
  all_goals bv_decide

theorem interleave32_rot_30 (a : UInt64) : interleave32 (rot64 a 30) = opsPair.rot (interleave32 a) 30 := by
  simp only [interleave32, opsPair, rot64, rol64, rot32, rol32, Prod.mk.injEq, Nat.reduceMod, Nat.reduceDiv, Nat.reduceAdd,
    Nat.reduceSub, UInt32.reduceOfNat, UInt64.reduceOfNat, Nat.reduceEqDiff, reduceIte, if_false, if_true]
  all_goals (repeat' apply And.intro)
  all_goals bv_decide

theorem interleave32_rot_31 (a : UInt64) : interleave32 (rot64 a 31) = opsPair.rot (interleave32 a) 31 := by
  simp only [interleave32, opsPair, rot64, rol64, rot32, rol32, Prod.mk.injEq, Nat.reduceMod, Nat.reduceDiv, Nat.reduceAdd,
    Nat.reduceSub, UInt32.reduceOfNat, UInt64.reduceOfNat, Nat.reduceEqDiff, reduceIte, if_false, if_true]
  all_goals (repeat' apply And.intro)
  all_goals bv_decide

theorem interleave32_rot_32 (a : UInt64) : interleave32 (rot64 a 32) = opsPair.rot (interleave32 a) 32 := by
  simp only [interleave32, opsPair, rot64, rol64, rot32, rol32, Prod.mk.injEq, Nat.reduceMod, Nat.reduceDiv, Nat.reduceAdd,
    Nat.reduceSub, UInt32.reduceOfNat, UInt64.reduceOfNat, Nat.reduceEqDiff, reduceIte, if_false, if_true]
  all_goals (repeat' apply And.intro)
  all_goals bv_decide

theorem interleave32_rot_33 (a : UInt64) : interleave32 (rot64 a 33) = opsPair.rot (interleave32 a) 33 := by
  simp only [interleave32, opsPair, rot64, rol64, rot32, rol32, Prod.mk.injEq, Nat.reduceMod, Nat.reduceDiv, Nat.reduceAdd,
    Nat.reduceSub, UInt32.reduceOfNat, UInt64.reduceOfNat, Nat.reduceEqDiff, reduceIte, if_false, if_true]
  all_goals (repeat' apply And.intro)
  all_goals bv_decide

theorem interleave32_rot_34 (a : UInt64) : interleave32 (rot64 a 34) = opsPair.rot (interleave32 a) 34 := by
  simp only [interleave32, opsPair, rot64, rol64, rot32, rol32, Prod.mk.injEq, Nat.reduceMod, Nat.reduceDiv, Nat.reduceAdd,
    Nat.reduceSub, UInt32.reduceOfNat, UInt64.reduceOfNat, Nat.reduceEqDiff, reduceIte, if_false, if_true]
  all_goals (repeat' apply And.intro)
  all_goals bv_decide

theorem interleave32_rot_35 (a : UInt64) : interleave32 (rot64 a 35) = opsPair.rot (interleave32 a) 35 := by
  simp only [interleave32, opsPair, rot64, rol64, rot32, rol32, Prod.mk.injEq, Nat.reduceMod, Nat.reduceDiv, Nat.reduceAdd,
    Nat.reduceSub, UInt32.reduceOfNat, UInt64.reduceOfNat, Nat.reduceEqDiff, reduceIte, if_false, if_true]
  all_goals (repeat' apply And.intro)
  all_goals bv_decide

theorem interleave32_rot_36 (a : UInt64) : interleave32 (rot64 a 36) = opsPair.rot (interleave32 a) 36 := by
  simp only [interleave32, opsPair, rot64, rol64, rot32, rol32, Prod.mk.injEq, Nat.reduceMod, Nat.reduceDiv, Nat.reduceAdd,
    Nat.reduceSub, UInt32.reduceOfNat, UInt64.reduceOfNat, Nat.reduceEqDiff, reduceIte, if_false, if_true]
  all_goals (repeat' apply And.intro)
  all_goals bv_decide

theorem interleave32_rot_37 (a : UInt64) : interleave32 (rot64 a 37) = opsPair.rot (interleave32 a) 37 := by
  simp only [interleave32, opsPair, rot64, rol64, rot32, rol32, Prod.mk.injEq, Nat.reduceMod, Nat.reduceDiv, Nat.reduceAdd,
    Nat.reduceSub, UInt32.reduceOfNat, UInt64.reduceOfNat, Nat.reduceEqDiff, reduceIte, if_false, if_true]
  all_goals (repeat' apply And.intro)
  all_goals bv_decide

theorem interleave32_rot_38 (a : UInt64) : interleave32 (rot64 a 38) = opsPair.rot (interleave32 a) 38 := by
  simp only [interleave32, opsPair, rot64, rol64, rot32, rol32, Prod.mk.injEq, Nat.reduceMod, Nat.reduceDiv, Nat.reduceAdd,
    Nat.reduceSub, UInt32.reduceOfNat, UInt64.reduceOfNat, Nat.reduceEqDiff, reduceIte, if_false, if_true]
  all_goals (repeat' apply And.intro)
  all_goals bv_decide

theorem interleave32_rot_39 (a : UInt64) : interleave32 (rot64 a 39) = opsPair.rot (interleave32 a) 39 := by
  simp only [interleave32, opsPair, rot64, rol64, rot32, rol32, Prod.mk.injEq, Nat.reduceMod, Nat.reduceDiv, Nat.reduceAdd,
    Nat.reduceSub, UInt32.reduceOfNat, UInt64.reduceOfNat, Nat.reduceEqDiff, reduceIte, if_false, if_true]
  all_goals (repeat' apply And.intro)
  all_goals bv_decide

theorem interleave32_rot_40 (a : UInt64) : interleave32 (rot64 a 40) = opsPair.rot (interleave32 a) 40 := by
  simp only [interleave32, opsPair, rot64, rol64, rot32, rol32, Prod.mk.injEq, Nat.reduceMod, Nat.reduceDiv, Nat.reduceAdd,
    Nat.reduceSub, UInt32.reduceOfNat, UInt64.reduceOfNat, Nat.reduceEqDiff, reduceIte, if_false, if_true]
  all_goals (repeat' apply And.intro)
  all_goals bv_decide

theorem interleave32_rot_41 (a : UInt64) : interleave32 (rot64 a 41) = opsPair.rot (interleave32 a) 41 := by
  simp only [interleave32, opsPair, rot64, rol64, rot32, rol32, Prod.mk.injEq, Nat.reduceMod, Nat.reduceDiv, Nat.reduceAdd,
    Nat.reduceSub, UInt32.reduceOfNat, UInt64.reduceOfNat, Nat.reduceEqDiff, reduceIte, if_false, if_true]
  all_goals (repeat' apply And.intro)
  all_goals bv_decide

theorem interleave32_rot_42 (a : UInt64) : interleave32 (rot64 a 42) = opsPair.rot (interleave32 a) 42 := by
  simp only [interleave32, opsPair, rot64, rol64, rot32, rol32, Prod.mk.injEq, Nat.reduceMod, Nat.reduceDiv, Nat.reduceAdd,
    Nat.reduceSub, UInt32.reduceOfNat, UInt64.reduceOfNat, Nat.reduceEqDiff, reduceIte, if_false, if_true]
  all_goals (repeat' apply And.intro)
  all_goals bv_decide

theorem interleave32_rot_43 (a : UInt64) : interleave32 (rot64 a 43) = opsPair.rot (interleave32 a) 43 := by
  simp only [interleave32, opsPair, rot64, rol64, rot32, rol32, Prod.mk.injEq, Nat.reduceMod, Nat.reduceDiv, Nat.reduceAdd,
    Nat.reduceSub, UInt32.reduceOfNat, UInt64.reduceOfNat, Nat.reduceEqDiff, reduceIte, if_false, if_true]
  all_goals (repeat' apply And.intro)
  all_goals bv_decide

theorem interleave32_rot_44 (a : UInt64) : interleave32 (rot64 a 44) = opsPair.rot (interleave32 a) 44 := by
  simp only [interleave32, opsPair, rot64, rol64, rot32, rol32, Prod.mk.injEq, Nat.reduceMod, Nat.reduceDiv, Nat.reduceAdd,
    Nat.reduceSub, UInt32.reduceOfNat, UInt64.reduceOfNat, Nat.reduceEqDiff, reduceIte, if_false, if_true]
  all_goals (repeat' apply And.intro)
  all_goals bv_decide

theorem interleave32_rot_45 (a : UInt64) : interleave32 (rot64 a 45) = opsPair.rot (interleave32 a) 45 := by
  simp only [interleave32, opsPair, rot64, rol64, rot32, rol32, Prod.mk.injEq, Nat.reduceMod, Nat.reduceDiv, Nat.reduceAdd,
    Nat.reduceSub, UInt32.reduceOfNat, UInt64.reduceOfNat, Nat.reduceEqDiff, reduceIte, if_false, if_true]
  all_goals (repeat' apply And.intro)
  all_goals bv_decide

theorem interleave32_rot_46 (a : UInt64) : interleave32 (rot64 a 46) = opsPair.rot (interleave32 a) 46 := by
  simp only [interleave32, opsPair, rot64, rol64, rot32, rol32, Prod.mk.injEq, Nat.reduceMod, Nat.reduceDiv, Nat.reduceAdd,
    Nat.reduceSub, UInt32.reduceOfNat, UInt64.reduceOfNat, Nat.reduceEqDiff, reduceIte, if_false, if_true]
  all_goals (repeat' apply And.intro)
  all_goals bv_decide

theorem interleave32_rot_47 (a : UInt64) : interleave32 (rot64 a 47) = opsPair.rot (interleave32 a) 47 := by
  simp only [interleave32, opsPair, rot64, rol64, rot32, rol32, Prod.mk.injEq, Nat.reduceMod, Nat.reduceDiv, Nat.reduceAdd,
    Nat.reduceSub, UInt32.reduceOfNat, UInt64.reduceOfNat, Nat.reduceEqDiff, reduceIte, if_false, if_true]
  all_goals (repeat' apply And.intro)
  all_goals bv_decide

theorem interleave32_rot_48 (a : UInt64) : interleave32 (rot64 a 48) = opsPair.rot (interleave32 a) 48 := by
  simp only [interleave32, opsPair, rot64, rol64, rot32, rol32, Prod.mk.injEq, Nat.reduceMod, Nat.reduceDiv, Nat.reduceAdd,
    Nat.reduceSub, UInt32.reduceOfNat, UInt64.reduceOfNat, Nat.reduceEqDiff, reduceIte, if_false, if_true]
  all_goals (repeat' apply And.intro)
  all_goals bv_decide

theorem interleave32_rot_49 (a : UInt64) : interleave32 (rot64 a 49) = opsPair.rot (interleave32 a) 49 := by
  simp only [interleave32, opsPair, rot64, rol64, rot32, rol32, Prod.mk.injEq, Nat.reduceMod, Nat.reduceDiv, Nat.reduceAdd,
    Nat.reduceSub, UInt32.reduceOfNat, UInt64.reduceOfNat, Nat.reduceEqDiff, reduceIte, if_false, if_true]
  all_goals (repeat' apply And.intro)
  all_goals bv_decide

theorem interleave32_rot_50 (a : UInt64) : interleave32 (rot64 a 50) = opsPair.rot (interleave32 a) 50 := by
  simp only [interleave32, opsPair, rot64, rol64, rot32, rol32, Prod.mk.injEq, Nat.reduceMod, Nat.reduceDiv, Nat.reduceAdd,
    Nat.reduceSub, UInt32.reduceOfNat, UInt64.reduceOfNat, Nat.reduceEqDiff, reduceIte, if_false, if_true]
  all_goals (repeat' apply And.intro)
  all_goals bv_decide

theorem interleave32_rot_51 (a : UInt64) : interleave32 (rot64 a 51) = opsPair.rot (interleave32 a) 51 := by
  simp only [interleave32, opsPair, rot64, rol64, rot32, rol32, Prod.mk.injEq, Nat.reduceMod, Nat.reduceDiv, Nat.reduceAdd,
    Nat.reduceSub, UInt32.reduceOfNat, UInt64.reduceOfNat, Nat.reduceEqDiff, reduceIte, if_false, if_true]
  all_goals (repeat' apply And.intro)
  all_goals bv_decide

theorem interleave32_rot_52 (a : UInt64) : interleave32 (rot64 a 52) = opsPair.rot (interleave32 a) 52 := by
  simp only [interleave32, opsPair, rot64, rol64, rot32, rol32, Prod.mk.injEq, Nat.reduceMod, Nat.reduceDiv, Nat.reduceAdd,
    Nat.reduceSub, UInt32.reduceOfNat, UInt64.reduceOfNat, Nat.reduceEqDiff, reduceIte, if_false, if_true]
  all_goals (repeat' apply And.intro)
  all_goals bv_decide

theorem interleave32_rot_53 (a : UInt64) : interleave32 (rot64 a 53) = opsPair.rot (interleave32 a) 53 := by
  simp only [interleave32, opsPair, rot64, rol64, rot32, rol32, Prod.mk.injEq, Nat.reduceMod, Nat.reduceDiv, Nat.reduceAdd,
    Nat.reduceSub, UInt32.reduceOfNat, UInt64.reduceOfNat, Nat.reduceEqDiff, reduceIte, if_false, if_true]
  all_goals (repeat' apply And.intro)
  all_goals bv_decide

theorem interleave32_rot_54 (a : UInt64) : interleave32 (rot64 a 54) = opsPair.rot (interleave32 a) 54 := by
  simp only [interleave32, opsPair, rot64, rol64, rot32, rol32, Prod.mk.injEq, Nat.reduceMod, Nat.reduceDiv, Nat.reduceAdd,
    Nat.reduceSub, UInt32.reduceOfNat, UInt64.reduceOfNat, Nat.reduceEqDiff, reduceIte, if_false, if_true]
  all_goals (repeat' apply And.intro)
  all_goals bv_decide

theorem interleave32_rot_55 (a : UInt64) : interleave32 (rot64 a 55) = opsPair.rot (interleave32 a) 55 := by
  simp only [interleave32, opsPair, rot64, rol64, rot32, rol32, Prod.mk.injEq, Nat.reduceMod, Nat.reduceDiv, Nat.reduceAdd,
    Nat.reduceSub, UInt32.reduceOfNat, UInt64.reduceOfNat, Nat.reduceEqDiff, reduceIte, if_false, if_true]
  all_goals (repeat' apply And.intro)
  all_goals bv_decide

theorem interleave32_rot_56 (a : UInt64) : interleave32 (rot64 a 56) = opsPair.rot (interleave32 a) 56 := by
  simp only [interleave32, opsPair, rot64, rol64, rot32, rol32, Prod.mk.injEq, Nat.reduceMod, Nat.reduceDiv, Nat.reduceAdd,
    Nat.reduceSub, UInt32.reduceOfNat, UInt64.reduceOfNat, Nat.reduceEqDiff, reduceIte, if_false, if_true]
  all_goals (repeat' apply And.intro)
  all_goals bv_decide

theorem interleave32_rot_57 (a : UInt64) : interleave32 (rot64 a 57) = opsPair.rot (interleave32 a) 57 := by
  simp only [interleave32, opsPair, rot64, rol64, rot32, rol32, Prod.mk.injEq, Nat.reduceMod, Nat.reduceDiv, Nat.reduceAdd,
    Nat.reduceSub, UInt32.reduceOfNat, UInt64.reduceOfNat, Nat.reduceEqDiff, reduceIte, if_false, if_true]
  all_goals (repeat' apply And.intro)
  all_goals bv_decide

theorem interleave32_rot_58 (a : UInt64) : interleave32 (rot64 a 58) = opsPair.rot (interleave32 a) 58 := by
  simp only [interleave32, opsPair, rot64, rol64, rot32, rol32, Prod.mk.injEq, Nat.reduceMod, Nat.reduceDiv, Nat.reduceAdd,
    Nat.reduceSub, UInt32.reduceOfNat, UInt64.reduceOfNat, Nat.reduceEqDiff, reduceIte, if_false, if_true]
  all_goals (repeat' apply And.intro)
  all_goals bv_decide

theorem interleave32_rot_59 (a : UInt64) : interleave32 (rot64 a 59) = opsPair.rot (interleave32 a) 59 := by
  simp only [interleave32, opsPair, rot64, rol64, rot32, rol32, Prod.mk.injEq, Nat.reduceMod, Nat.reduceDiv, Nat.reduceAdd,
    Nat.reduceSub, UInt32.reduceOfNat, UInt64.reduceOfNat, Nat.reduceEqDiff, reduceIte, if_false, if_true]
  all_goals (repeat' apply And.intro)
  all_goals bv_decide

theorem interleave32_rot_60 (a : UInt64) : interleave32 (rot64 a 60) = opsPair.rot (interleave32 a) 60 := by
  simp only [interleave32, opsPair, rot64, rol64, rot32, rol32, Prod.mk.injEq, Nat.reduceMod, Nat.reduceDiv, Nat.reduceAdd,
    Nat.reduceSub, UInt32.reduceOfNat, UInt64.reduceOfNat, Nat.reduceEqDiff, reduceIte, if_false, if_true]
  all_goals (repeat' apply And.intro)
  all_goals bv_decide

theorem interleave32_rot_61 (a : UInt64) : interleave32 (rot64 a 61) = opsPair.rot (interleave32 a) 61 := by
  simp only [interleave32, opsPair, rot64, rol64, rot32, rol32, Prod.mk.injEq, Nat.reduceMod, Nat.reduceDiv, Nat.reduceAdd,
    Nat.reduceSub, UInt32.reduceOfNat, UInt64.reduceOfNat, Nat.reduceEqDiff, reduceIte, if_false, if_true]
  all_goals (repeat' apply And.intro)
  all_goals bv_decide

theorem interleave32_rot_62 (a : UInt64) : interleave32 (rot64 a 62) = opsPair.rot (interleave32 a) 62 := by
  simp only [interleave32, opsPair, rot64, rol64, rot32, rol32, Prod.mk.injEq, Nat.reduceMod, Nat.reduceDiv, Nat.reduceAdd,
    Nat.reduceSub, UInt32.reduceOfNat, UInt64.reduceOfNat, Nat.reduceEqDiff, reduceIte, if_false, if_true]
  all_goals (repeat' apply And.intro)
  all_goals bv_decide

theorem interleave32_rot_63 (a : UInt64) : interleave32 (rot64 a 63) = opsPair.rot (interleave32 a) 63 := by
  simp only [interleave32, opsPair, rot64, rol64, rot32, rol32, Prod.mk.injEq, Nat.reduceMod, Nat.reduceDiv, Nat.reduceAdd,
    Nat.reduceSub, UInt32.reduceOfNat, UInt64.reduceOfNat, Nat.reduceEqDiff, reduceIte, if_false, if_true]
  all_goals (repeat' apply And.intro)
  all_goals bv_decide

/-- a lane rotation seen through the interleaving: both halves rotate by n/2; for odd n they change places
    and the former odd half rotates one further -/
theorem interleave32_rot (a : UInt64) : ∀ (n : Nat), n < 64 →
    interleave32 (rot64 a n) = opsPair.rot (interleave32 a) n
  | 0, _ => interleave32_rot_0 a
  | 1, _ => interleave32_rot_1 a
  | 2, _ => interleave32_rot_2 a
  | 3, _ => interleave32_rot_3 a
  | 4, _ => interleave32_rot_4 a
  | 5, _ => interleave32_rot_5 a
  | 6, _ => interleave32_rot_6 a
  | 7, _ => interleave32_rot_7 a
  | 8, _ => interleave32_rot_8 a
  | 9, _ => interleave32_rot_9 a
  | 10, _ => interleave32_rot_10 a
  | 11, _ => interleave32_rot_11 a
  | 12, _ => interleave32_rot_12 a
  | 13, _ => interleave32_rot_13 a
  | 14, _ => interleave32_rot_14 a
  | 15, _ => interleave32_rot_15 a
  | 16, _ => interleave32_rot_16 a
  | 17, _ => interleave32_rot_17 a
  | 18, _ => interleave32_rot_18 a
  | 19, _ => interleave32_rot_19 a
  | 20, _ => interleave32_rot_20 a
  | 21, _ => interleave32_rot_21 a
  | 22, _ => interleave32_rot_22 a
  | 23, _ => interleave32_rot_23 a
  | 24, _ => interleave32_rot_24 a
  | 25, _ => interleave32_rot_25 a
  | 26, _ => interleave32_rot_26 a
  | 27, _ => interleave32_rot_27 a
  | 28, _ => interleave32_rot_28 a
  | 29, _ => interleave32_rot_29 a
  | 30, _ => interleave32_rot_30 a
  | 31, _ => interleave32_rot_31 a
  | 32, _ => interleave32_rot_32 a
  | 33, _ => interleave32_rot_33 a
  | 34, _ => interleave32_rot_34 a
  | 35, _ => interleave32_rot_35 a
  | 36, _ => interleave32_rot_36 a
  | 37, _ => interleave32_rot_37 a
  | 38, _ => interleave32_rot_38 a
  | 39, _ => interleave32_rot_39 a
  | 40, _ => interleave32_rot_40 a
  | 41, _ => interleave32_rot_41 a
  | 42, _ => interleave32_rot_42 a
  | 43, _ => interleave32_rot_43 a
  | 44, _ => interleave32_rot_44 a
  | 45, _ => interleave32_rot_45 a
  | 46, _ => interleave32_rot_46 a
  | 47, _ => interleave32_rot_47 a
  | 48, _ => interleave32_rot_48 a
  | 49, _ => interleave32_rot_49 a
  | 50, _ => interleave32_rot_50 a
  | 51, _ => interleave32_rot_51 a
  | 52, _ => interleave32_rot_52 a
  | 53, _ => interleave32_rot_53 a
  | 54, _ => interleave32_rot_54 a
  | 55, _ => interleave32_rot_55 a
  | 56, _ => interleave32_rot_56 a
  | 57, _ => interleave32_rot_57 a
  | 58, _ => interleave32_rot_58 a
  | 59, _ => interleave32_rot_59 a
  | 60, _ => interleave32_rot_60 a
  | 61, _ => interleave32_rot_61 a
  | 62, _ => interleave32_rot_62 a
  | 63, _ => interleave32_rot_63 a
  | n + 64, h => by omega

end Usual.C05.Keccak
