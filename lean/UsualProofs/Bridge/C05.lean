import Usual.C05.KeccakPaths
import Std.Tactic.BVDecide
/-! C05 bridge lemmas `translated C = model`, the only C05 file that uses `bv_decide` (each call adds
    an axiom that the audit counts).  Proved here, bit-precisely and for all inputs:
    * each of the four rounds of the unrolled 64-bit loop body (`Usual.Gen.C05.f64Round*`, translated
      from keccak.c) is the FIPS 202 round, with its result placed in the lanes as `placeK` says
      (the code works in place: lanes travel and are back home after four rounds);
    * each of the four rounds of the KECCAK_32BIT loop body (`f32Round*`) is the same round computed on
      (even bits, odd bits) word pairs, placed per `placeK`/`swapK` (halves stored swapped);
    * the network of the 32-bit `xor_lane` (`interleave32`) is a homomorphism for xor/and/not, turns a
      rotation by n into rotations of the halves (swapped for odd n), and `extract`'s network
      (`deinterleave32`) is its two-sided inverse. -/
namespace Usual.C05.Keccak
open Usual.Gen.C05

/-- lane found at position `p` after round 0 of the loop body -/
def place1 : Nat → Nat
  | 0 => 0 | 1 => 11 | 2 => 22 | 3 => 8 | 4 => 19 | 5 => 15 | 6 => 1 | 7 => 12 | 8 => 23 | 9 => 9 | 10 => 5 | 11 => 16 | 12 => 2 | 13 => 13 | 14 => 24 | 15 => 20 | 16 => 6 | 17 => 17 | 18 => 3 | 19 => 14 | 20 => 10 | 21 => 21 | 22 => 7 | 23 => 18 | _ => 4

/-- is the word pair at position `p` stored (odd, even) after round 0 of the 32-bit loop body -/
def swap1 : Nat → Bool
  | 1 => true | 4 => true | 8 => true | 10 => true | 12 => true | 13 => true | 14 => true | 15 => true | 16 => true | 17 => true | 18 => true | 22 => true | _ => false

/-- lane found at position `p` after round 1 of the loop body -/
def place2 : Nat → Nat
  | 0 => 0 | 1 => 16 | 2 => 7 | 3 => 23 | 4 => 14 | 5 => 20 | 6 => 11 | 7 => 2 | 8 => 18 | 9 => 9 | 10 => 15 | 11 => 6 | 12 => 22 | 13 => 13 | 14 => 4 | 15 => 10 | 16 => 1 | 17 => 17 | 18 => 8 | 19 => 24 | 20 => 5 | 21 => 21 | 22 => 12 | 23 => 3 | _ => 19

/-- is the word pair at position `p` stored (odd, even) after round 1 of the 32-bit loop body -/
def swap2 : Nat → Bool
  | 1 => true | 2 => true | 3 => true | 4 => true | 5 => true | 6 => true | 7 => true | 8 => true | 10 => true | 11 => true | 12 => true | 14 => true | 15 => true | 16 => true | 18 => true | 19 => true | 20 => true | 22 => true | 23 => true | 24 => true | _ => false

/-- lane found at position `p` after round 2 of the loop body -/
def place3 : Nat → Nat
  | 0 => 0 | 1 => 6 | 2 => 12 | 3 => 18 | 4 => 24 | 5 => 10 | 6 => 16 | 7 => 22 | 8 => 3 | 9 => 9 | 10 => 20 | 11 => 1 | 12 => 7 | 13 => 13 | 14 => 19 | 15 => 5 | 16 => 11 | 17 => 17 | 18 => 23 | 19 => 4 | 20 => 15 | 21 => 21 | 22 => 2 | 23 => 8 | _ => 14

/-- is the word pair at position `p` stored (odd, even) after round 2 of the 32-bit loop body -/
def swap3 : Nat → Bool
  | 2 => true | 3 => true | 5 => true | 6 => true | 7 => true | 11 => true | 13 => true | 17 => true | 19 => true | 20 => true | 23 => true | 24 => true | _ => false

def place0 : Nat → Nat := fun p => p
def swap0 : Nat → Bool := fun _ => false

/-- lanes of `s` laid out by `P` -/
def placed (P : Nat → Nat) (s : L25 α) : L25 α := L25.ofFn fun p => s.get (P p)

/-- word pairs of `w` laid out by `P`, halves exchanged where `X`; first component = `state32[2p]` -/
def placedW (P : Nat → Nat) (X : Nat → Bool) (w : L25 (UInt32 × UInt32)) : L25 UInt32 × L25 UInt32 :=
  (L25.ofFn fun p => if X p then (w.get (P p)).2 else (w.get (P p)).1,
   L25.ofFn fun p => if X p then (w.get (P p)).1 else (w.get (P p)).2)

/-! ## 64-bit unrolled rounds -/

set_option maxRecDepth 100000 in
set_option maxHeartbeats 4000000 in
theorem f64Round0_eq (rc : UInt64) (s : L25 UInt64) :
    f64Round0 rc (placed place0 s) = placed place1 (specRound rc s) := by
  cases s
  simp only [f64Round0, placed, place0, place1, specRound, gRound, gIota, gChi, gRhoPi, gTheta, ops64, L25.ofFn, L25.get,
    rhoOffset, rot64, rol64, L25.mk.injEq, Nat.reduceMod, Nat.reduceDiv, Nat.reduceAdd, Nat.reduceMul, Nat.reduceSub,
    UInt64.reduceOfNat, Nat.reduceEqDiff, OfNat.ofNat_ne_zero, reduceIte, if_false, if_true]
  refine ⟨?_, ?_, ?_, ?_, ?_, ?_, ?_, ?_, ?_, ?_, ?_, ?_, ?_, ?_, ?_, ?_, ?_, ?_, ?_, ?_, ?_, ?_, ?_, ?_, ?_⟩ <;> bv_decide

set_option maxRecDepth 100000 in
set_option maxHeartbeats 4000000 in
theorem f64Round1_eq (rc : UInt64) (s : L25 UInt64) :
    f64Round1 rc (placed place1 s) = placed place2 (specRound rc s) := by
  cases s
  simp only [f64Round1, placed, place1, place2, specRound, gRound, gIota, gChi, gRhoPi, gTheta, ops64, L25.ofFn, L25.get,
    rhoOffset, rot64, rol64, L25.mk.injEq, Nat.reduceMod, Nat.reduceDiv, Nat.reduceAdd, Nat.reduceMul, Nat.reduceSub,
    UInt64.reduceOfNat, Nat.reduceEqDiff, OfNat.ofNat_ne_zero, reduceIte, if_false, if_true]
  refine ⟨?_, ?_, ?_, ?_, ?_, ?_, ?_, ?_, ?_, ?_, ?_, ?_, ?_, ?_, ?_, ?_, ?_, ?_, ?_, ?_, ?_, ?_, ?_, ?_, ?_⟩ <;> bv_decide

set_option maxRecDepth 100000 in
set_option maxHeartbeats 4000000 in
theorem f64Round2_eq (rc : UInt64) (s : L25 UInt64) :
    f64Round2 rc (placed place2 s) = placed place3 (specRound rc s) := by
  cases s
  simp only [f64Round2, placed, place2, place3, specRound, gRound, gIota, gChi, gRhoPi, gTheta, ops64, L25.ofFn, L25.get,
    rhoOffset, rot64, rol64, L25.mk.injEq, Nat.reduceMod, Nat.reduceDiv, Nat.reduceAdd, Nat.reduceMul, Nat.reduceSub,
    UInt64.reduceOfNat, Nat.reduceEqDiff, OfNat.ofNat_ne_zero, reduceIte, if_false, if_true]
  refine ⟨?_, ?_, ?_, ?_, ?_, ?_, ?_, ?_, ?_, ?_, ?_, ?_, ?_, ?_, ?_, ?_, ?_, ?_, ?_, ?_, ?_, ?_, ?_, ?_, ?_⟩ <;> bv_decide

set_option maxRecDepth 100000 in
set_option maxHeartbeats 4000000 in
theorem f64Round3_eq (rc : UInt64) (s : L25 UInt64) :
    f64Round3 rc (placed place3 s) = placed place0 (specRound rc s) := by
  cases s
  simp only [f64Round3, placed, place3, place0, specRound, gRound, gIota, gChi, gRhoPi, gTheta, ops64, L25.ofFn, L25.get,
    rhoOffset, rot64, rol64, L25.mk.injEq, Nat.reduceMod, Nat.reduceDiv, Nat.reduceAdd, Nat.reduceMul, Nat.reduceSub,
    UInt64.reduceOfNat, Nat.reduceEqDiff, OfNat.ofNat_ne_zero, reduceIte, if_false, if_true]
  refine ⟨?_, ?_, ?_, ?_, ?_, ?_, ?_, ?_, ?_, ?_, ?_, ?_, ?_, ?_, ?_, ?_, ?_, ?_, ?_, ?_, ?_, ?_, ?_, ?_, ?_⟩ <;> bv_decide

/-! ## 32-bit interleaved rounds, on word pairs -/

set_option maxRecDepth 100000 in
set_option maxHeartbeats 4000000 in
theorem f32Round0_eq (rc : UInt32 × UInt32) (w : L25 (UInt32 × UInt32)) :
    f32Round0 rc.1 rc.2 (placedW place0 swap0 w).1 (placedW place0 swap0 w).2
      = placedW place1 swap1 (gRound opsPair rc w) := by
  rcases w with ⟨⟨e0, o0⟩, ⟨e1, o1⟩, ⟨e2, o2⟩, ⟨e3, o3⟩, ⟨e4, o4⟩, ⟨e5, o5⟩, ⟨e6, o6⟩, ⟨e7, o7⟩, ⟨e8, o8⟩, ⟨e9, o9⟩, ⟨e10, o10⟩, ⟨e11, o11⟩, ⟨e12, o12⟩, ⟨e13, o13⟩, ⟨e14, o14⟩, ⟨e15, o15⟩, ⟨e16, o16⟩, ⟨e17, o17⟩, ⟨e18, o18⟩, ⟨e19, o19⟩, ⟨e20, o20⟩, ⟨e21, o21⟩, ⟨e22, o22⟩, ⟨e23, o23⟩, ⟨e24, o24⟩⟩
  rcases rc with ⟨r0, r1⟩
  simp only [f32Round0, placedW, place0, place1, swap0, swap1, gRound, gIota, gChi, gRhoPi, gTheta, opsPair, L25.ofFn, L25.get,
    rhoOffset, rot32, rol32, L25.mk.injEq, Prod.mk.injEq, Nat.reduceMod, Nat.reduceDiv, Nat.reduceAdd, Nat.reduceMul, Nat.reduceSub,
    UInt32.reduceOfNat, Nat.reduceEqDiff, OfNat.ofNat_ne_zero, reduceIte, if_false, if_true, Bool.false_eq_true]
  refine ⟨⟨?_, ?_, ?_, ?_, ?_, ?_, ?_, ?_, ?_, ?_, ?_, ?_, ?_, ?_, ?_, ?_, ?_, ?_, ?_, ?_, ?_, ?_, ?_, ?_, ?_⟩,
          ⟨?_, ?_, ?_, ?_, ?_, ?_, ?_, ?_, ?_, ?_, ?_, ?_, ?_, ?_, ?_, ?_, ?_, ?_, ?_, ?_, ?_, ?_, ?_, ?_, ?_⟩⟩ <;> bv_decide

set_option maxRecDepth 100000 in
set_option maxHeartbeats 4000000 in
theorem f32Round1_eq (rc : UInt32 × UInt32) (w : L25 (UInt32 × UInt32)) :
    f32Round1 rc.1 rc.2 (placedW place1 swap1 w).1 (placedW place1 swap1 w).2
      = placedW place2 swap2 (gRound opsPair rc w) := by
  rcases w with ⟨⟨e0, o0⟩, ⟨e1, o1⟩, ⟨e2, o2⟩, ⟨e3, o3⟩, ⟨e4, o4⟩, ⟨e5, o5⟩, ⟨e6, o6⟩, ⟨e7, o7⟩, ⟨e8, o8⟩, ⟨e9, o9⟩, ⟨e10, o10⟩, ⟨e11, o11⟩, ⟨e12, o12⟩, ⟨e13, o13⟩, ⟨e14, o14⟩, ⟨e15, o15⟩, ⟨e16, o16⟩, ⟨e17, o17⟩, ⟨e18, o18⟩, ⟨e19, o19⟩, ⟨e20, o20⟩, ⟨e21, o21⟩, ⟨e22, o22⟩, ⟨e23, o23⟩, ⟨e24, o24⟩⟩
  rcases rc with ⟨r0, r1⟩
  simp only [f32Round1, placedW, place1, place2, swap1, swap2, gRound, gIota, gChi, gRhoPi, gTheta, opsPair, L25.ofFn, L25.get,
    rhoOffset, rot32, rol32, L25.mk.injEq, Prod.mk.injEq, Nat.reduceMod, Nat.reduceDiv, Nat.reduceAdd, Nat.reduceMul, Nat.reduceSub,
    UInt32.reduceOfNat, Nat.reduceEqDiff, OfNat.ofNat_ne_zero, reduceIte, if_false, if_true, Bool.false_eq_true]
  refine ⟨⟨?_, ?_, ?_, ?_, ?_, ?_, ?_, ?_, ?_, ?_, ?_, ?_, ?_, ?_, ?_, ?_, ?_, ?_, ?_, ?_, ?_, ?_, ?_, ?_, ?_⟩,
          ⟨?_, ?_, ?_, ?_, ?_, ?_, ?_, ?_, ?_, ?_, ?_, ?_, ?_, ?_, ?_, ?_, ?_, ?_, ?_, ?_, ?_, ?_, ?_, ?_, ?_⟩⟩ <;> bv_decide

set_option maxRecDepth 100000 in
set_option maxHeartbeats 4000000 in
theorem f32Round2_eq (rc : UInt32 × UInt32) (w : L25 (UInt32 × UInt32)) :
    f32Round2 rc.1 rc.2 (placedW place2 swap2 w).1 (placedW place2 swap2 w).2
      = placedW place3 swap3 (gRound opsPair rc w) := by
  rcases w with ⟨⟨e0, o0⟩, ⟨e1, o1⟩, ⟨e2, o2⟩, ⟨e3, o3⟩, ⟨e4, o4⟩, ⟨e5, o5⟩, ⟨e6, o6⟩, ⟨e7, o7⟩, ⟨e8, o8⟩, ⟨e9, o9⟩, ⟨e10, o10⟩, ⟨e11, o11⟩, ⟨e12, o12⟩, ⟨e13, o13⟩, ⟨e14, o14⟩, ⟨e15, o15⟩, ⟨e16, o16⟩, ⟨e17, o17⟩, ⟨e18, o18⟩, ⟨e19, o19⟩, ⟨e20, o20⟩, ⟨e21, o21⟩, ⟨e22, o22⟩, ⟨e23, o23⟩, ⟨e24, o24⟩⟩
  rcases rc with ⟨r0, r1⟩
  simp only [f32Round2, placedW, place2, place3, swap2, swap3, gRound, gIota, gChi, gRhoPi, gTheta, opsPair, L25.ofFn, L25.get,
    rhoOffset, rot32, rol32, L25.mk.injEq, Prod.mk.injEq, Nat.reduceMod, Nat.reduceDiv, Nat.reduceAdd, Nat.reduceMul, Nat.reduceSub,
    UInt32.reduceOfNat, Nat.reduceEqDiff, OfNat.ofNat_ne_zero, reduceIte, if_false, if_true, Bool.false_eq_true]
  refine ⟨⟨?_, ?_, ?_, ?_, ?_, ?_, ?_, ?_, ?_, ?_, ?_, ?_, ?_, ?_, ?_, ?_, ?_, ?_, ?_, ?_, ?_, ?_, ?_, ?_, ?_⟩,
          ⟨?_, ?_, ?_, ?_, ?_, ?_, ?_, ?_, ?_, ?_, ?_, ?_, ?_, ?_, ?_, ?_, ?_, ?_, ?_, ?_, ?_, ?_, ?_, ?_, ?_⟩⟩ <;> bv_decide

set_option maxRecDepth 100000 in
set_option maxHeartbeats 4000000 in
theorem f32Round3_eq (rc : UInt32 × UInt32) (w : L25 (UInt32 × UInt32)) :
    f32Round3 rc.1 rc.2 (placedW place3 swap3 w).1 (placedW place3 swap3 w).2
      = placedW place0 swap0 (gRound opsPair rc w) := by
  rcases w with ⟨⟨e0, o0⟩, ⟨e1, o1⟩, ⟨e2, o2⟩, ⟨e3, o3⟩, ⟨e4, o4⟩, ⟨e5, o5⟩, ⟨e6, o6⟩, ⟨e7, o7⟩, ⟨e8, o8⟩, ⟨e9, o9⟩, ⟨e10, o10⟩, ⟨e11, o11⟩, ⟨e12, o12⟩, ⟨e13, o13⟩, ⟨e14, o14⟩, ⟨e15, o15⟩, ⟨e16, o16⟩, ⟨e17, o17⟩, ⟨e18, o18⟩, ⟨e19, o19⟩, ⟨e20, o20⟩, ⟨e21, o21⟩, ⟨e22, o22⟩, ⟨e23, o23⟩, ⟨e24, o24⟩⟩
  rcases rc with ⟨r0, r1⟩
  simp only [f32Round3, placedW, place3, place0, swap3, swap0, gRound, gIota, gChi, gRhoPi, gTheta, opsPair, L25.ofFn, L25.get,
    rhoOffset, rot32, rol32, L25.mk.injEq, Prod.mk.injEq, Nat.reduceMod, Nat.reduceDiv, Nat.reduceAdd, Nat.reduceMul, Nat.reduceSub,
    UInt32.reduceOfNat, Nat.reduceEqDiff, OfNat.ofNat_ne_zero, reduceIte, if_false, if_true, Bool.false_eq_true]
  refine ⟨⟨?_, ?_, ?_, ?_, ?_, ?_, ?_, ?_, ?_, ?_, ?_, ?_, ?_, ?_, ?_, ?_, ?_, ?_, ?_, ?_, ?_, ?_, ?_, ?_, ?_⟩,
          ⟨?_, ?_, ?_, ?_, ?_, ?_, ?_, ?_, ?_, ?_, ?_, ?_, ?_, ?_, ?_, ?_, ?_, ?_, ?_, ?_, ?_, ?_, ?_, ?_, ?_⟩⟩ <;> bv_decide

/-! ## the interleaving network of xor_lane / extract (32-bit build) -/

theorem interleave32_xor (a b : UInt64) :
    interleave32 (a ^^^ b) = ((interleave32 a).1 ^^^ (interleave32 b).1, (interleave32 a).2 ^^^ (interleave32 b).2) := by
  simp only [interleave32, Prod.mk.injEq]
  constructor <;> bv_decide

theorem interleave32_and (a b : UInt64) :
    interleave32 (a &&& b) = ((interleave32 a).1 &&& (interleave32 b).1, (interleave32 a).2 &&& (interleave32 b).2) := by
  simp only [interleave32, Prod.mk.injEq]
  constructor <;> bv_decide

theorem interleave32_not (a : UInt64) :
    interleave32 (~~~ a) = (~~~ (interleave32 a).1, ~~~ (interleave32 a).2) := by
  simp only [interleave32, Prod.mk.injEq]
  constructor <;> bv_decide

theorem deinterleave32_interleave32 (a : UInt64) :
    deinterleave32 (interleave32 a).1 (interleave32 a).2 = a := by
  simp only [interleave32, deinterleave32]
  bv_decide

theorem interleave32_deinterleave32 (w0 w1 : UInt32) :
    interleave32 (deinterleave32 w0 w1) = (w0, w1) := by
  simp only [interleave32, deinterleave32, Prod.mk.injEq]
  constructor <;> bv_decide

/-- a lane rotation seen through the interleaving: both halves rotate by n/2; for odd n they change places
    and the former odd half rotates one further -/
theorem interleave32_rot (a : UInt64) : ∀ (n : Nat), n < 64 →
    interleave32 (rot64 a n) = opsPair.rot (interleave32 a) n
  | 0, _ => by
    simp only [interleave32, opsPair, rot64, rol64, rot32, rol32, Prod.mk.injEq, Nat.reduceMod, Nat.reduceDiv, Nat.reduceAdd,
      Nat.reduceSub, UInt32.reduceOfNat, UInt64.reduceOfNat, Nat.reduceEqDiff, OfNat.ofNat_ne_zero, reduceIte, if_false, if_true]
    constructor <;> bv_decide
  | 1, _ => by
    simp only [interleave32, opsPair, rot64, rol64, rot32, rol32, Prod.mk.injEq, Nat.reduceMod, Nat.reduceDiv, Nat.reduceAdd,
      Nat.reduceSub, UInt32.reduceOfNat, UInt64.reduceOfNat, Nat.reduceEqDiff, OfNat.ofNat_ne_zero, reduceIte, if_false, if_true]
    constructor <;> bv_decide
  | 2, _ => by
    simp only [interleave32, opsPair, rot64, rol64, rot32, rol32, Prod.mk.injEq, Nat.reduceMod, Nat.reduceDiv, Nat.reduceAdd,
      Nat.reduceSub, UInt32.reduceOfNat, UInt64.reduceOfNat, Nat.reduceEqDiff, OfNat.ofNat_ne_zero, reduceIte, if_false, if_true]
    constructor <;> bv_decide
  | 3, _ => by
    simp only [interleave32, opsPair, rot64, rol64, rot32, rol32, Prod.mk.injEq, Nat.reduceMod, Nat.reduceDiv, Nat.reduceAdd,
      Nat.reduceSub, UInt32.reduceOfNat, UInt64.reduceOfNat, Nat.reduceEqDiff, OfNat.ofNat_ne_zero, reduceIte, if_false, if_true]
    constructor <;> bv_decide
  | 4, _ => by
    simp only [interleave32, opsPair, rot64, rol64, rot32, rol32, Prod.mk.injEq, Nat.reduceMod, Nat.reduceDiv, Nat.reduceAdd,
      Nat.reduceSub, UInt32.reduceOfNat, UInt64.reduceOfNat, Nat.reduceEqDiff, OfNat.ofNat_ne_zero, reduceIte, if_false, if_true]
    constructor <;> bv_decide
  | 5, _ => by
    simp only [interleave32, opsPair, rot64, rol64, rot32, rol32, Prod.mk.injEq, Nat.reduceMod, Nat.reduceDiv, Nat.reduceAdd,
      Nat.reduceSub, UInt32.reduceOfNat, UInt64.reduceOfNat, Nat.reduceEqDiff, OfNat.ofNat_ne_zero, reduceIte, if_false, if_true]
    constructor <;> bv_decide
  | 6, _ => by
    simp only [interleave32, opsPair, rot64, rol64, rot32, rol32, Prod.mk.injEq, Nat.reduceMod, Nat.reduceDiv, Nat.reduceAdd,
      Nat.reduceSub, UInt32.reduceOfNat, UInt64.reduceOfNat, Nat.reduceEqDiff, OfNat.ofNat_ne_zero, reduceIte, if_false, if_true]
    constructor <;> bv_decide
  | 7, _ => by
    simp only [interleave32, opsPair, rot64, rol64, rot32, rol32, Prod.mk.injEq, Nat.reduceMod, Nat.reduceDiv, Nat.reduceAdd,
      Nat.reduceSub, UInt32.reduceOfNat, UInt64.reduceOfNat, Nat.reduceEqDiff, OfNat.ofNat_ne_zero, reduceIte, if_false, if_true]
    constructor <;> bv_decide
  | 8, _ => by
    simp only [interleave32, opsPair, rot64, rol64, rot32, rol32, Prod.mk.injEq, Nat.reduceMod, Nat.reduceDiv, Nat.reduceAdd,
      Nat.reduceSub, UInt32.reduceOfNat, UInt64.reduceOfNat, Nat.reduceEqDiff, OfNat.ofNat_ne_zero, reduceIte, if_false, if_true]
    constructor <;> bv_decide
  | 9, _ => by
    simp only [interleave32, opsPair, rot64, rol64, rot32, rol32, Prod.mk.injEq, Nat.reduceMod, Nat.reduceDiv, Nat.reduceAdd,
      Nat.reduceSub, UInt32.reduceOfNat, UInt64.reduceOfNat, Nat.reduceEqDiff, OfNat.ofNat_ne_zero, reduceIte, if_false, if_true]
    constructor <;> bv_decide
  | 10, _ => by
    simp only [interleave32, opsPair, rot64, rol64, rot32, rol32, Prod.mk.injEq, Nat.reduceMod, Nat.reduceDiv, Nat.reduceAdd,
      Nat.reduceSub, UInt32.reduceOfNat, UInt64.reduceOfNat, Nat.reduceEqDiff, OfNat.ofNat_ne_zero, reduceIte, if_false, if_true]
    constructor <;> bv_decide
  | 11, _ => by
    simp only [interleave32, opsPair, rot64, rol64, rot32, rol32, Prod.mk.injEq, Nat.reduceMod, Nat.reduceDiv, Nat.reduceAdd,
      Nat.reduceSub, UInt32.reduceOfNat, UInt64.reduceOfNat, Nat.reduceEqDiff, OfNat.ofNat_ne_zero, reduceIte, if_false, if_true]
    constructor <;> bv_decide
  | 12, _ => by
    simp only [interleave32, opsPair, rot64, rol64, rot32, rol32, Prod.mk.injEq, Nat.reduceMod, Nat.reduceDiv, Nat.reduceAdd,
      Nat.reduceSub, UInt32.reduceOfNat, UInt64.reduceOfNat, Nat.reduceEqDiff, OfNat.ofNat_ne_zero, reduceIte, if_false, if_true]
    constructor <;> bv_decide
  | 13, _ => by
    simp only [interleave32, opsPair, rot64, rol64, rot32, rol32, Prod.mk.injEq, Nat.reduceMod, Nat.reduceDiv, Nat.reduceAdd,
      Nat.reduceSub, UInt32.reduceOfNat, UInt64.reduceOfNat, Nat.reduceEqDiff, OfNat.ofNat_ne_zero, reduceIte, if_false, if_true]
    constructor <;> bv_decide
  | 14, _ => by
    simp only [interleave32, opsPair, rot64, rol64, rot32, rol32, Prod.mk.injEq, Nat.reduceMod, Nat.reduceDiv, Nat.reduceAdd,
      Nat.reduceSub, UInt32.reduceOfNat, UInt64.reduceOfNat, Nat.reduceEqDiff, OfNat.ofNat_ne_zero, reduceIte, if_false, if_true]
    constructor <;> bv_decide
  | 15, _ => by
    simp only [interleave32, opsPair, rot64, rol64, rot32, rol32, Prod.mk.injEq, Nat.reduceMod, Nat.reduceDiv, Nat.reduceAdd,
      Nat.reduceSub, UInt32.reduceOfNat, UInt64.reduceOfNat, Nat.reduceEqDiff, OfNat.ofNat_ne_zero, reduceIte, if_false, if_true]
    constructor <;> bv_decide
  | 16, _ => by
    simp only [interleave32, opsPair, rot64, rol64, rot32, rol32, Prod.mk.injEq, Nat.reduceMod, Nat.reduceDiv, Nat.reduceAdd,
      Nat.reduceSub, UInt32.reduceOfNat, UInt64.reduceOfNat, Nat.reduceEqDiff, OfNat.ofNat_ne_zero, reduceIte, if_false, if_true]
    constructor <;> bv_decide
  | 17, _ => by
    simp only [interleave32, opsPair, rot64, rol64, rot32, rol32, Prod.mk.injEq, Nat.reduceMod, Nat.reduceDiv, Nat.reduceAdd,
      Nat.reduceSub, UInt32.reduceOfNat, UInt64.reduceOfNat, Nat.reduceEqDiff, OfNat.ofNat_ne_zero, reduceIte, if_false, if_true]
    constructor <;> bv_decide
  | 18, _ => by
    simp only [interleave32, opsPair, rot64, rol64, rot32, rol32, Prod.mk.injEq, Nat.reduceMod, Nat.reduceDiv, Nat.reduceAdd,
      Nat.reduceSub, UInt32.reduceOfNat, UInt64.reduceOfNat, Nat.reduceEqDiff, OfNat.ofNat_ne_zero, reduceIte, if_false, if_true]
    constructor <;> bv_decide
  | 19, _ => by
    simp only [interleave32, opsPair, rot64, rol64, rot32, rol32, Prod.mk.injEq, Nat.reduceMod, Nat.reduceDiv, Nat.reduceAdd,
      Nat.reduceSub, UInt32.reduceOfNat, UInt64.reduceOfNat, Nat.reduceEqDiff, OfNat.ofNat_ne_zero, reduceIte, if_false, if_true]
    constructor <;> bv_decide
  | 20, _ => by
    simp only [interleave32, opsPair, rot64, rol64, rot32, rol32, Prod.mk.injEq, Nat.reduceMod, Nat.reduceDiv, Nat.reduceAdd,
      Nat.reduceSub, UInt32.reduceOfNat, UInt64.reduceOfNat, Nat.reduceEqDiff, OfNat.ofNat_ne_zero, reduceIte, if_false, if_true]
    constructor <;> bv_decide
  | 21, _ => by
    simp only [interleave32, opsPair, rot64, rol64, rot32, rol32, Prod.mk.injEq, Nat.reduceMod, Nat.reduceDiv, Nat.reduceAdd,
      Nat.reduceSub, UInt32.reduceOfNat, UInt64.reduceOfNat, Nat.reduceEqDiff, OfNat.ofNat_ne_zero, reduceIte, if_false, if_true]
    constructor <;> bv_decide
  | 22, _ => by
    simp only [interleave32, opsPair, rot64, rol64, rot32, rol32, Prod.mk.injEq, Nat.reduceMod, Nat.reduceDiv, Nat.reduceAdd,
      Nat.reduceSub, UInt32.reduceOfNat, UInt64.reduceOfNat, Nat.reduceEqDiff, OfNat.ofNat_ne_zero, reduceIte, if_false, if_true]
    constructor <;> bv_decide
  | 23, _ => by
    simp only [interleave32, opsPair, rot64, rol64, rot32, rol32, Prod.mk.injEq, Nat.reduceMod, Nat.reduceDiv, Nat.reduceAdd,
      Nat.reduceSub, UInt32.reduceOfNat, UInt64.reduceOfNat, Nat.reduceEqDiff, OfNat.ofNat_ne_zero, reduceIte, if_false, if_true]
    constructor <;> bv_decide
  | 24, _ => by
    simp only [interleave32, opsPair, rot64, rol64, rot32, rol32, Prod.mk.injEq, Nat.reduceMod, Nat.reduceDiv, Nat.reduceAdd,
      Nat.reduceSub, UInt32.reduceOfNat, UInt64.reduceOfNat, Nat.reduceEqDiff, OfNat.ofNat_ne_zero, reduceIte, if_false, if_true]
    constructor <;> bv_decide
  | 25, _ => by
    simp only [interleave32, opsPair, rot64, rol64, rot32, rol32, Prod.mk.injEq, Nat.reduceMod, Nat.reduceDiv, Nat.reduceAdd,
      Nat.reduceSub, UInt32.reduceOfNat, UInt64.reduceOfNat, Nat.reduceEqDiff, OfNat.ofNat_ne_zero, reduceIte, if_false, if_true]
    constructor <;> bv_decide
  | 26, _ => by
    simp only [interleave32, opsPair, rot64, rol64, rot32, rol32, Prod.mk.injEq, Nat.reduceMod, Nat.reduceDiv, Nat.reduceAdd,
      Nat.reduceSub, UInt32.reduceOfNat, UInt64.reduceOfNat, Nat.reduceEqDiff, OfNat.ofNat_ne_zero, reduceIte, if_false, if_true]
    constructor <;> bv_decide
  | 27, _ => by
    simp only [interleave32, opsPair, rot64, rol64, rot32, rol32, Prod.mk.injEq, Nat.reduceMod, Nat.reduceDiv, Nat.reduceAdd,
      Nat.reduceSub, UInt32.reduceOfNat, UInt64.reduceOfNat, Nat.reduceEqDiff, OfNat.ofNat_ne_zero, reduceIte, if_false, if_true]
    constructor <;> bv_decide
  | 28, _ => by
    simp only [interleave32, opsPair, rot64, rol64, rot32, rol32, Prod.mk.injEq, Nat.reduceMod, Nat.reduceDiv, Nat.reduceAdd,
      Nat.reduceSub, UInt32.reduceOfNat, UInt64.reduceOfNat, Nat.reduceEqDiff, OfNat.ofNat_ne_zero, reduceIte, if_false, if_true]
    constructor <;> bv_decide
  | 29, _ => by
    simp only [interleave32, opsPair, rot64, rol64, rot32, rol32, Prod.mk.injEq, Nat.reduceMod, Nat.reduceDiv, Nat.reduceAdd,
      Nat.reduceSub, UInt32.reduceOfNat, UInt64.reduceOfNat, Nat.reduceEqDiff, OfNat.ofNat_ne_zero, reduceIte, if_false, if_true]
    constructor <;> bv_decide
  | 30, _ => by
    simp only [interleave32, opsPair, rot64, rol64, rot32, rol32, Prod.mk.injEq, Nat.reduceMod, Nat.reduceDiv, Nat.reduceAdd,
      Nat.reduceSub, UInt32.reduceOfNat, UInt64.reduceOfNat, Nat.reduceEqDiff, OfNat.ofNat_ne_zero, reduceIte, if_false, if_true]
    constructor <;> bv_decide
  | 31, _ => by
    simp only [interleave32, opsPair, rot64, rol64, rot32, rol32, Prod.mk.injEq, Nat.reduceMod, Nat.reduceDiv, Nat.reduceAdd,
      Nat.reduceSub, UInt32.reduceOfNat, UInt64.reduceOfNat, Nat.reduceEqDiff, OfNat.ofNat_ne_zero, reduceIte, if_false, if_true]
    constructor <;> bv_decide
  | 32, _ => by
    simp only [interleave32, opsPair, rot64, rol64, rot32, rol32, Prod.mk.injEq, Nat.reduceMod, Nat.reduceDiv, Nat.reduceAdd,
      Nat.reduceSub, UInt32.reduceOfNat, UInt64.reduceOfNat, Nat.reduceEqDiff, OfNat.ofNat_ne_zero, reduceIte, if_false, if_true]
    constructor <;> bv_decide
  | 33, _ => by
    simp only [interleave32, opsPair, rot64, rol64, rot32, rol32, Prod.mk.injEq, Nat.reduceMod, Nat.reduceDiv, Nat.reduceAdd,
      Nat.reduceSub, UInt32.reduceOfNat, UInt64.reduceOfNat, Nat.reduceEqDiff, OfNat.ofNat_ne_zero, reduceIte, if_false, if_true]
    constructor <;> bv_decide
  | 34, _ => by
    simp only [interleave32, opsPair, rot64, rol64, rot32, rol32, Prod.mk.injEq, Nat.reduceMod, Nat.reduceDiv, Nat.reduceAdd,
      Nat.reduceSub, UInt32.reduceOfNat, UInt64.reduceOfNat, Nat.reduceEqDiff, OfNat.ofNat_ne_zero, reduceIte, if_false, if_true]
    constructor <;> bv_decide
  | 35, _ => by
    simp only [interleave32, opsPair, rot64, rol64, rot32, rol32, Prod.mk.injEq, Nat.reduceMod, Nat.reduceDiv, Nat.reduceAdd,
      Nat.reduceSub, UInt32.reduceOfNat, UInt64.reduceOfNat, Nat.reduceEqDiff, OfNat.ofNat_ne_zero, reduceIte, if_false, if_true]
    constructor <;> bv_decide
  | 36, _ => by
    simp only [interleave32, opsPair, rot64, rol64, rot32, rol32, Prod.mk.injEq, Nat.reduceMod, Nat.reduceDiv, Nat.reduceAdd,
      Nat.reduceSub, UInt32.reduceOfNat, UInt64.reduceOfNat, Nat.reduceEqDiff, OfNat.ofNat_ne_zero, reduceIte, if_false, if_true]
    constructor <;> bv_decide
  | 37, _ => by
    simp only [interleave32, opsPair, rot64, rol64, rot32, rol32, Prod.mk.injEq, Nat.reduceMod, Nat.reduceDiv, Nat.reduceAdd,
      Nat.reduceSub, UInt32.reduceOfNat, UInt64.reduceOfNat, Nat.reduceEqDiff, OfNat.ofNat_ne_zero, reduceIte, if_false, if_true]
    constructor <;> bv_decide
  | 38, _ => by
    simp only [interleave32, opsPair, rot64, rol64, rot32, rol32, Prod.mk.injEq, Nat.reduceMod, Nat.reduceDiv, Nat.reduceAdd,
      Nat.reduceSub, UInt32.reduceOfNat, UInt64.reduceOfNat, Nat.reduceEqDiff, OfNat.ofNat_ne_zero, reduceIte, if_false, if_true]
    constructor <;> bv_decide
  | 39, _ => by
    simp only [interleave32, opsPair, rot64, rol64, rot32, rol32, Prod.mk.injEq, Nat.reduceMod, Nat.reduceDiv, Nat.reduceAdd,
      Nat.reduceSub, UInt32.reduceOfNat, UInt64.reduceOfNat, Nat.reduceEqDiff, OfNat.ofNat_ne_zero, reduceIte, if_false, if_true]
    constructor <;> bv_decide
  | 40, _ => by
    simp only [interleave32, opsPair, rot64, rol64, rot32, rol32, Prod.mk.injEq, Nat.reduceMod, Nat.reduceDiv, Nat.reduceAdd,
      Nat.reduceSub, UInt32.reduceOfNat, UInt64.reduceOfNat, Nat.reduceEqDiff, OfNat.ofNat_ne_zero, reduceIte, if_false, if_true]
    constructor <;> bv_decide
  | 41, _ => by
    simp only [interleave32, opsPair, rot64, rol64, rot32, rol32, Prod.mk.injEq, Nat.reduceMod, Nat.reduceDiv, Nat.reduceAdd,
      Nat.reduceSub, UInt32.reduceOfNat, UInt64.reduceOfNat, Nat.reduceEqDiff, OfNat.ofNat_ne_zero, reduceIte, if_false, if_true]
    constructor <;> bv_decide
  | 42, _ => by
    simp only [interleave32, opsPair, rot64, rol64, rot32, rol32, Prod.mk.injEq, Nat.reduceMod, Nat.reduceDiv, Nat.reduceAdd,
      Nat.reduceSub, UInt32.reduceOfNat, UInt64.reduceOfNat, Nat.reduceEqDiff, OfNat.ofNat_ne_zero, reduceIte, if_false, if_true]
    constructor <;> bv_decide
  | 43, _ => by
    simp only [interleave32, opsPair, rot64, rol64, rot32, rol32, Prod.mk.injEq, Nat.reduceMod, Nat.reduceDiv, Nat.reduceAdd,
      Nat.reduceSub, UInt32.reduceOfNat, UInt64.reduceOfNat, Nat.reduceEqDiff, OfNat.ofNat_ne_zero, reduceIte, if_false, if_true]
    constructor <;> bv_decide
  | 44, _ => by
    simp only [interleave32, opsPair, rot64, rol64, rot32, rol32, Prod.mk.injEq, Nat.reduceMod, Nat.reduceDiv, Nat.reduceAdd,
      Nat.reduceSub, UInt32.reduceOfNat, UInt64.reduceOfNat, Nat.reduceEqDiff, OfNat.ofNat_ne_zero, reduceIte, if_false, if_true]
    constructor <;> bv_decide
  | 45, _ => by
    simp only [interleave32, opsPair, rot64, rol64, rot32, rol32, Prod.mk.injEq, Nat.reduceMod, Nat.reduceDiv, Nat.reduceAdd,
      Nat.reduceSub, UInt32.reduceOfNat, UInt64.reduceOfNat, Nat.reduceEqDiff, OfNat.ofNat_ne_zero, reduceIte, if_false, if_true]
    constructor <;> bv_decide
  | 46, _ => by
    simp only [interleave32, opsPair, rot64, rol64, rot32, rol32, Prod.mk.injEq, Nat.reduceMod, Nat.reduceDiv, Nat.reduceAdd,
      Nat.reduceSub, UInt32.reduceOfNat, UInt64.reduceOfNat, Nat.reduceEqDiff, OfNat.ofNat_ne_zero, reduceIte, if_false, if_true]
    constructor <;> bv_decide
  | 47, _ => by
    simp only [interleave32, opsPair, rot64, rol64, rot32, rol32, Prod.mk.injEq, Nat.reduceMod, Nat.reduceDiv, Nat.reduceAdd,
      Nat.reduceSub, UInt32.reduceOfNat, UInt64.reduceOfNat, Nat.reduceEqDiff, OfNat.ofNat_ne_zero, reduceIte, if_false, if_true]
    constructor <;> bv_decide
  | 48, _ => by
    simp only [interleave32, opsPair, rot64, rol64, rot32, rol32, Prod.mk.injEq, Nat.reduceMod, Nat.reduceDiv, Nat.reduceAdd,
      Nat.reduceSub, UInt32.reduceOfNat, UInt64.reduceOfNat, Nat.reduceEqDiff, OfNat.ofNat_ne_zero, reduceIte, if_false, if_true]
    constructor <;> bv_decide
  | 49, _ => by
    simp only [interleave32, opsPair, rot64, rol64, rot32, rol32, Prod.mk.injEq, Nat.reduceMod, Nat.reduceDiv, Nat.reduceAdd,
      Nat.reduceSub, UInt32.reduceOfNat, UInt64.reduceOfNat, Nat.reduceEqDiff, OfNat.ofNat_ne_zero, reduceIte, if_false, if_true]
    constructor <;> bv_decide
  | 50, _ => by
    simp only [interleave32, opsPair, rot64, rol64, rot32, rol32, Prod.mk.injEq, Nat.reduceMod, Nat.reduceDiv, Nat.reduceAdd,
      Nat.reduceSub, UInt32.reduceOfNat, UInt64.reduceOfNat, Nat.reduceEqDiff, OfNat.ofNat_ne_zero, reduceIte, if_false, if_true]
    constructor <;> bv_decide
  | 51, _ => by
    simp only [interleave32, opsPair, rot64, rol64, rot32, rol32, Prod.mk.injEq, Nat.reduceMod, Nat.reduceDiv, Nat.reduceAdd,
      Nat.reduceSub, UInt32.reduceOfNat, UInt64.reduceOfNat, Nat.reduceEqDiff, OfNat.ofNat_ne_zero, reduceIte, if_false, if_true]
    constructor <;> bv_decide
  | 52, _ => by
    simp only [interleave32, opsPair, rot64, rol64, rot32, rol32, Prod.mk.injEq, Nat.reduceMod, Nat.reduceDiv, Nat.reduceAdd,
      Nat.reduceSub, UInt32.reduceOfNat, UInt64.reduceOfNat, Nat.reduceEqDiff, OfNat.ofNat_ne_zero, reduceIte, if_false, if_true]
    constructor <;> bv_decide
  | 53, _ => by
    simp only [interleave32, opsPair, rot64, rol64, rot32, rol32, Prod.mk.injEq, Nat.reduceMod, Nat.reduceDiv, Nat.reduceAdd,
      Nat.reduceSub, UInt32.reduceOfNat, UInt64.reduceOfNat, Nat.reduceEqDiff, OfNat.ofNat_ne_zero, reduceIte, if_false, if_true]
    constructor <;> bv_decide
  | 54, _ => by
    simp only [interleave32, opsPair, rot64, rol64, rot32, rol32, Prod.mk.injEq, Nat.reduceMod, Nat.reduceDiv, Nat.reduceAdd,
      Nat.reduceSub, UInt32.reduceOfNat, UInt64.reduceOfNat, Nat.reduceEqDiff, OfNat.ofNat_ne_zero, reduceIte, if_false, if_true]
    constructor <;> bv_decide
  | 55, _ => by
    simp only [interleave32, opsPair, rot64, rol64, rot32, rol32, Prod.mk.injEq, Nat.reduceMod, Nat.reduceDiv, Nat.reduceAdd,
      Nat.reduceSub, UInt32.reduceOfNat, UInt64.reduceOfNat, Nat.reduceEqDiff, OfNat.ofNat_ne_zero, reduceIte, if_false, if_true]
    constructor <;> bv_decide
  | 56, _ => by
    simp only [interleave32, opsPair, rot64, rol64, rot32, rol32, Prod.mk.injEq, Nat.reduceMod, Nat.reduceDiv, Nat.reduceAdd,
      Nat.reduceSub, UInt32.reduceOfNat, UInt64.reduceOfNat, Nat.reduceEqDiff, OfNat.ofNat_ne_zero, reduceIte, if_false, if_true]
    constructor <;> bv_decide
  | 57, _ => by
    simp only [interleave32, opsPair, rot64, rol64, rot32, rol32, Prod.mk.injEq, Nat.reduceMod, Nat.reduceDiv, Nat.reduceAdd,
      Nat.reduceSub, UInt32.reduceOfNat, UInt64.reduceOfNat, Nat.reduceEqDiff, OfNat.ofNat_ne_zero, reduceIte, if_false, if_true]
    constructor <;> bv_decide
  | 58, _ => by
    simp only [interleave32, opsPair, rot64, rol64, rot32, rol32, Prod.mk.injEq, Nat.reduceMod, Nat.reduceDiv, Nat.reduceAdd,
      Nat.reduceSub, UInt32.reduceOfNat, UInt64.reduceOfNat, Nat.reduceEqDiff, OfNat.ofNat_ne_zero, reduceIte, if_false, if_true]
    constructor <;> bv_decide
  | 59, _ => by
    simp only [interleave32, opsPair, rot64, rol64, rot32, rol32, Prod.mk.injEq, Nat.reduceMod, Nat.reduceDiv, Nat.reduceAdd,
      Nat.reduceSub, UInt32.reduceOfNat, UInt64.reduceOfNat, Nat.reduceEqDiff, OfNat.ofNat_ne_zero, reduceIte, if_false, if_true]
    constructor <;> bv_decide
  | 60, _ => by
    simp only [interleave32, opsPair, rot64, rol64, rot32, rol32, Prod.mk.injEq, Nat.reduceMod, Nat.reduceDiv, Nat.reduceAdd,
      Nat.reduceSub, UInt32.reduceOfNat, UInt64.reduceOfNat, Nat.reduceEqDiff, OfNat.ofNat_ne_zero, reduceIte, if_false, if_true]
    constructor <;> bv_decide
  | 61, _ => by
    simp only [interleave32, opsPair, rot64, rol64, rot32, rol32, Prod.mk.injEq, Nat.reduceMod, Nat.reduceDiv, Nat.reduceAdd,
      Nat.reduceSub, UInt32.reduceOfNat, UInt64.reduceOfNat, Nat.reduceEqDiff, OfNat.ofNat_ne_zero, reduceIte, if_false, if_true]
    constructor <;> bv_decide
  | 62, _ => by
    simp only [interleave32, opsPair, rot64, rol64, rot32, rol32, Prod.mk.injEq, Nat.reduceMod, Nat.reduceDiv, Nat.reduceAdd,
      Nat.reduceSub, UInt32.reduceOfNat, UInt64.reduceOfNat, Nat.reduceEqDiff, OfNat.ofNat_ne_zero, reduceIte, if_false, if_true]
    constructor <;> bv_decide
  | 63, _ => by
    simp only [interleave32, opsPair, rot64, rol64, rot32, rol32, Prod.mk.injEq, Nat.reduceMod, Nat.reduceDiv, Nat.reduceAdd,
      Nat.reduceSub, UInt32.reduceOfNat, UInt64.reduceOfNat, Nat.reduceEqDiff, OfNat.ofNat_ne_zero, reduceIte, if_false, if_true]
    constructor <;> bv_decide
  | n + 64, h => by omega

end Usual.C05.Keccak
