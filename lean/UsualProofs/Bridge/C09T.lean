import Std.Tactic.BVDecide
import Usual.Gen.C09T
import Usual.C09.SafeMul
/-!
# C09 translation tie: `safe_mul_*` of `usual/bits.h` = the model `Usual.C09.safeMul`

`Usual.Gen.C09T.*` is regenerated on every run of `checks/C09.py` from the bodies clang sees after
expanding `_USUAL_MUL_SAFE_(type, max)` (`sizeof(type) * 8/2` is evaluated from the AST; the value
range `a ≠ 0` on the `max / a` path comes from the two preceding `if`s).  For six instantiations
(`uint`, `ulong`, `uint8`, `uint32`, `uint64`, `size`) the generated function equals the model on
every pair of operands: return value = `isSome`, value stored through `res_p` = the model's product.
`safe_mul_uint16` is refused by the translator (its `a * b` is an `int` multiplication after
promotion; that the `65535 / a >= b` path excludes signed overflow needs relational reasoning) and
stays tied by the exhaustive 16-bit correspondence run of the check.
`safeMulBV` is a width-generic bit-vector restatement; `safeMulBV_eq` proves it equal to the model
once, each instance is then `rfl` (or, for the int-promoted 8-bit code, four small `bv_decide` facts).
-/
namespace UsualProofs.Bridge.C09T
open Usual.C09
open Usual.Gen.C09T

/-- the C view of the model's result: return value and what was stored through `res_p` -/
def ofModel (w : Nat) (o : Option Nat) : Bool × Option (BitVec w) := (o.isSome, o.map (BitVec.ofNat w))

/-- `_USUAL_MUL_SAFE_` over one unsigned type of `w` bits, as a bit-vector function -/
def safeMulBV (w : Nat) (lim : BitVec w) (a b : BitVec w) : Bool × Option (BitVec w) :=
  if (BitVec.ult a lim && BitVec.ult b lim) then (true, some (a * b))
  else if (a == 0#w || b == 0#w) then (true, some (a * b))
  else if BitVec.ule b (BitVec.allOnes w / a) then (true, some (a * b))
  else (false, none)

theorem mul_eq_ofNat (w : Nat) (a b : BitVec w) : a * b = BitVec.ofNat w (a.toNat * b.toNat % 2 ^ w) := by
  apply BitVec.eq_of_toNat_eq
  simp [BitVec.toNat_mul]

theorem safeMulBV_eq (w : Nat) (hw : 0 < w) (a b : BitVec w) :
    safeMulBV w (BitVec.ofNat w (1 <<< (w / 2))) a b = ofModel w (safeMul w a.toNat b.toNat) := by
  have hL : (1 <<< (w / 2)) % 2 ^ w = 1 <<< (w / 2) := by
    rw [Nat.shiftLeft_eq, Nat.one_mul]
    exact Nat.mod_eq_of_lt (Nat.pow_lt_pow_right (by decide) (Nat.div_lt_self hw (by decide)))
  have c1 : ∀ x : BitVec w, BitVec.ult x (BitVec.ofNat w (1 <<< (w / 2))) = decide (x.toNat < 1 <<< (w / 2)) := by
    intro x; simp only [BitVec.ult, BitVec.toNat_ofNat, hL]
  have c2 : ∀ x : BitVec w, (x == 0#w) = decide (x.toNat = 0) := by
    intro x
    by_cases h : x = 0#w
    · subst h; simp
    · have : x.toNat ≠ 0 := fun e => h (BitVec.eq_of_toNat_eq (by simpa using e))
      simp [h, this]
  have c3 : BitVec.ule b (BitVec.allOnes w / a) = decide ((2 ^ w - 1) / a.toNat ≥ b.toNat) := by
    simp only [BitVec.ule, BitVec.toNat_udiv, BitVec.toNat_allOnes, ge_iff_le]
  unfold safeMulBV safeMul safeMulCore ofModel
  rw [c1, c1, c2, c2, c3, mul_eq_ofNat]
  by_cases h1 : a.toNat < 1 <<< (w / 2) ∧ b.toNat < 1 <<< (w / 2)
  · simp [h1]
  · have h1' : ¬ (a.toNat < 1 <<< (w / 2) ∧ b.toNat < 1 <<< (w / 2)) := h1
    rw [if_neg h1']
    rw [if_neg (by simpa using h1)]
    by_cases h2 : a.toNat = 0 ∨ b.toNat = 0
    · rw [if_pos h2, if_pos (by simpa using h2)]; rfl
    · rw [if_neg h2, if_neg (by simpa using h2)]
      by_cases h3 : (2 ^ w - 1) / a.toNat ≥ b.toNat
      · rw [if_pos h3, if_pos (by simpa using h3)]; rfl
      · rw [if_neg h3, if_neg (by simpa using h3)]; rfl

theorem bridge_safe_mul_uint32 (a b : BitVec 32) : safe_mul_uint32 a b = ofModel 32 (safeMul 32 a.toNat b.toNat) := by
  rw [← safeMulBV_eq 32 (by decide)]
  unfold safe_mul_uint32 safeMulBV
  rfl

theorem bridge_safe_mul_uint (a b : BitVec 32) : safe_mul_uint a b = ofModel 32 (safeMul 32 a.toNat b.toNat) := by
  rw [← safeMulBV_eq 32 (by decide)]
  unfold safe_mul_uint safeMulBV
  rfl

theorem bridge_safe_mul_uint64 (a b : BitVec 64) : safe_mul_uint64 a b = ofModel 64 (safeMul 64 a.toNat b.toNat) := by
  rw [← safeMulBV_eq 64 (by decide)]
  unfold safe_mul_uint64 safeMulBV
  rfl

theorem bridge_safe_mul_ulong (a b : BitVec 64) : safe_mul_ulong a b = ofModel 64 (safeMul 64 a.toNat b.toNat) := by
  rw [← safeMulBV_eq 64 (by decide)]
  unfold safe_mul_ulong safeMulBV
  rfl

theorem bridge_safe_mul_size (a b : BitVec 64) : safe_mul_size a b = ofModel 64 (safeMul 64 a.toNat b.toNat) := by
  rw [← safeMulBV_eq 64 (by decide)]
  unfold safe_mul_size safeMulBV
  rfl

theorem bridge_safe_mul_uint8 (a b : BitVec 8) : safe_mul_uint8 a b = ofModel 8 (safeMul 8 a.toNat b.toNat) := by
  rw [← safeMulBV_eq 8 (by decide)]
  unfold safe_mul_uint8 safeMulBV
  have hlim : (BitVec.truncate 8 ((BitVec.zeroExtend 32 (BitVec.truncate 8 (1#32))) <<<
      ((((1#64) * (BitVec.signExtend 64 (8#32))) / (BitVec.signExtend 64 (2#32)))).toNat)) = 16#8 := by decide
  have hl2 : BitVec.ofNat 8 (1 <<< (8 / 2)) = 16#8 := by decide
  have hv : BitVec.truncate 8 ((BitVec.zeroExtend 32 a) * (BitVec.zeroExtend 32 b)) = a * b := by bv_decide
  have hc1 : ∀ x : BitVec 8, BitVec.slt (BitVec.zeroExtend 32 x) (BitVec.zeroExtend 32 (16#8)) = BitVec.ult x (16#8) := by
    intro x; bv_decide
  have hc3 : BitVec.sle (BitVec.zeroExtend 32 b) ((255#32) / (BitVec.zeroExtend 32 a)) =
      BitVec.ule b (BitVec.allOnes 8 / a) := by bv_decide
  simp only [hlim, hl2, hv, hc1, hc3]

end UsualProofs.Bridge.C09T
