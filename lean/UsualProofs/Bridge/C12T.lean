import Std.Tactic.BVDecide
import Usual.Gen.C12T
import Usual.C12.MBuf
/-!
# C12 translation tie: what `usual/mbuf.h` / `usual/mbuf.c` say today = the hand model

`Usual.Gen.C12T.*` is regenerated from the C sources by `extract/c2lean.py` on every run of
`checks/C12.py` (struct `MBuf` → a Lean structure of `BitVec`/`Bool` fields, the `data` pointer →
the base of one memory region whose loads / stores / `memcpy` / `memset` / `memmove` come back as a
list of `Ev` effects).  The lemmas below are re-checked against it.  They relate, for every model
buffer `b`, the generated function on `toG b` to the model function of `Usual/C12/MBuf.lean` that
the property theorems are about:

* C result = `Res.ok`, struct after the call = `toG Res.buf` (all cursor arithmetic, 32-bit wrap included);
* effects, read as (kind, offset, length) by `accOf`, = `Res.acc` (the accesses the safety theorems bound);
* effects applied to the data (`applyEv`: the reading of a byte store / `memcpy` / `memset` /
  `memmove` this bridge trusts) = `Res.buf.data`;
* value delivered through the out-pointer = `Res.val`.

`mbuf_make_room` is an *extern* of the writers (hypothesis `ExtIs`: it is the model's `makeRoom`);
its own code is tied up to the `realloc` by `bridge_make_room_pre` (+ `makeRoom_eq_pre`: the
restatement `makeRoomPre` *is* the model function), including the doubling loop (fuel ≥ 33).
`bv_decide` is used for three pure bit-vector identities (big-endian assembly); everything else is
kernel-only.
-/
set_option linter.unusedSimpArgs false
namespace UsualProofs.Bridge.C12T
open Usual.C12
open Usual.Gen.C12T

def toG (b : Buf) : MBuf :=
  { read_pos := b.readPos.toBitVec, write_pos := b.writePos.toBitVec,
    alloc_len := b.allocLen.toBitVec, reader := b.reader, fixed := b.fixed }

theorem ult_toBitVec (x y : UInt32) : BitVec.ult x.toBitVec y.toBitVec = decide (x < y) := by
  simp [UInt32.lt_iff_toBitVec_lt, BitVec.lt_def, BitVec.ult]

theorem ule_toBitVec (x y : UInt32) : BitVec.ule x.toBitVec y.toBitVec = decide (x ≤ y) := by
  simp [UInt32.le_iff_toBitVec_le, BitVec.le_def, BitVec.ule]

theorem bridge_avail_for_read (b : Buf) :
    mbuf_avail_for_read (toG b) = (availRead b).toBitVec := by
  simp [mbuf_avail_for_read, availRead, toG]

theorem bridge_avail_for_write (b : Buf) :
    mbuf_avail_for_write (toG b) = (availWrite b).toBitVec := by
  unfold mbuf_avail_for_write availWrite toG
  simp only [ult_toBitVec]
  cases hr : b.reader <;> by_cases h : b.writePos < b.allocLen <;> simp [h]

theorem bridge_rewind_reader (b : Buf) : mbuf_rewind_reader (toG b) = toG (rewindReader b) := by
  simp [mbuf_rewind_reader, rewindReader, toG]

theorem bridge_rewind_writer (b : Buf) : mbuf_rewind_writer (toG b) = toG (rewindWriter b) := by
  unfold mbuf_rewind_writer rewindWriter toG
  cases hr : b.reader <;> simp [hr]

/-- what the model calls the byte at offset `i` of the buffer's data, as the accessor `mem` -/
def memOf (b : Buf) : Nat → BitVec 8 := fun i => (rdAt b.data i).toBitVec

/-- the model's view (kind, first offset, length) of one effect -/
def accOf : Ev → List Access
  | .load o => [⟨.rd, o, 1⟩]
  | .store o _ => [⟨.wr, o, 1⟩]
  | .memcpyIn d n => [⟨.wr, d, n⟩]
  | .memset d _ n => [⟨.wr, d, n⟩]
  | .memmove d s n => [⟨.rd, s, n⟩, ⟨.wr, d, n⟩]

def accs (l : List Ev) : List Access := l.flatMap accOf

theorem bridge_get_byte (b : Buf) :
    let g := mbuf_get_byte (memOf b) (toG b)
    let r := getByte b
    g.1 = r.ok ∧ g.2.1 = toG r.buf ∧ accs g.2.2.1 = r.acc ∧
    g.2.2.2 = (if r.ok then some (BitVec.ofNat 8 r.val) else none) := by
  simp only [mbuf_get_byte, getByte, bridge_avail_for_read, fail]
  have e1 : (1#32) = (1 : UInt32).toBitVec := rfl
  rw [e1, ult_toBitVec]
  by_cases h : availRead b < 1
  · simp [h, toG, accs]
  · simp [h, toG, accs, accOf, memOf]

theorem bridge_get_char (b : Buf) :
    let g := mbuf_get_char (memOf b) (toG b)
    let r := getChar b
    g.1 = r.ok ∧ g.2.1 = toG r.buf ∧ accs g.2.2.1 = r.acc ∧
    g.2.2.2 = (if r.ok then some (BitVec.ofNat 8 r.val) else none) := bridge_get_byte b



theorem ofNat_toNat16 (u : UInt16) : BitVec.ofNat 16 u.toNat = u.toBitVec := by
  cases u; simp

theorem val16 (a b : UInt8) :
    (((a.toUInt32 <<< 8) ||| b.toUInt32).toUInt16).toBitVec =
      BitVec.truncate 16 ((BitVec.zeroExtend 32 a.toBitVec <<< 8) ||| BitVec.zeroExtend 32 b.toBitVec) := by
  bv_decide

theorem bridge_get_uint16be (b : Buf) :
    let g := mbuf_get_uint16be (memOf b) (toG b)
    let r := getU16 b
    g.1 = r.ok ∧ g.2.1 = toG r.buf ∧ accs g.2.2.1 = r.acc ∧
    g.2.2.2 = (if r.ok then some (BitVec.ofNat 16 r.val) else none) := by
  simp only [mbuf_get_uint16be, getU16, bridge_avail_for_read, fail]
  have e1 : (2#32) = (2 : UInt32).toBitVec := rfl
  rw [e1, ult_toBitVec]
  by_cases h : availRead b < 2
  · simp [h, toG, accs]
  · refine ⟨by simp [h], by simp [h, toG], by simp [h, accs, accOf, toG], ?_⟩
    simp only [h, decide_false, Bool.false_eq_true, ↓reduceIte]
    rw [ofNat_toNat16, val16]
    simp [memOf, toG]

theorem val32 (a b c d : UInt8) :
    BitVec.ofNat 32 ((a.toUInt32 <<< 24) ||| (b.toUInt32 <<< 16) ||| (c.toUInt32 <<< 8) ||| d.toUInt32).toNat =
      ((((BitVec.zeroExtend 32 a.toBitVec <<< 24) ||| (BitVec.zeroExtend 32 b.toBitVec <<< 16)) |||
        (BitVec.zeroExtend 32 c.toBitVec <<< 8)) ||| BitVec.zeroExtend 32 d.toBitVec) := by
  have : ∀ u : UInt32, BitVec.ofNat 32 u.toNat = u.toBitVec := by intro u; cases u; simp
  rw [this]
  bv_decide

theorem bridge_get_uint32be (b : Buf) :
    let g := mbuf_get_uint32be (memOf b) (toG b)
    let r := getU32 b
    g.1 = r.ok ∧ g.2.1 = toG r.buf ∧ accs g.2.2.1 = r.acc ∧
    g.2.2.2 = (if r.ok then some (BitVec.ofNat 32 r.val) else none) := by
  simp only [mbuf_get_uint32be, getU32, bridge_avail_for_read, fail]
  have e1 : (4#32) = (4 : UInt32).toBitVec := rfl
  rw [e1, ult_toBitVec]
  by_cases h : availRead b < 4
  · simp [h, toG, accs]
  · refine ⟨by simp [h], by simp [h, toG], by simp [h, accs, accOf, toG], ?_⟩
    simp only [h, decide_false, Bool.false_eq_true, ↓reduceIte]
    rw [val32]
    simp [memOf, toG]

theorem bridge_get_bytes (b : Buf) (len : UInt32) :
    let g := mbuf_get_bytes (memOf b) (toG b) len.toBitVec
    let r := getBytes b len
    g.1 = r.ok ∧ g.2.1 = toG r.buf ∧ g.2.2.1 = [] ∧
    g.2.2.2 = (if r.ok then some r.val else none) := by
  simp only [mbuf_get_bytes, getBytes, bridge_avail_for_read, fail, ult_toBitVec]
  by_cases h : availRead b < len
  · simp [h, toG]
  · simp [h, toG]

theorem bridge_get_chars (b : Buf) (len : UInt32) :
    let g := mbuf_get_chars (memOf b) (toG b) len.toBitVec
    let r := getChars b len
    g.1 = r.ok ∧ g.2.1 = toG r.buf ∧ g.2.2.1 = [] ∧
    g.2.2.2 = (if r.ok then some r.val else none) := bridge_get_bytes b len

theorem getU32_data (b : Buf) : (getU32 b).buf.data = b.data := by
  unfold getU32 fail; split <;> rfl

theorem getU32_fail_acc (b : Buf) (h : (getU32 b).ok = false) : (getU32 b).acc = [] := by
  unfold getU32 fail at *
  split at h
  · split <;> simp_all
  · simp at h

theorem memOf_congr {a b : Buf} (h : a.data = b.data) : memOf a = memOf b := by
  unfold memOf; rw [h]

theorem val64 (x y : UInt32) :
    (((UInt64.ofNat x.toNat) <<< 32) ||| (UInt64.ofNat y.toNat)).toBitVec
      = ((BitVec.zeroExtend 64 x.toBitVec <<< 32) ||| BitVec.zeroExtend 64 y.toBitVec) := by
  have : ∀ u : UInt32, UInt64.ofNat u.toNat = u.toUInt64 := by
    intro u; apply UInt64.toNat_inj.mp; simp
  rw [this, this]
  bv_decide

theorem getU32_val_lt (b : Buf) : (getU32 b).val < 2 ^ 32 := by
  unfold getU32 fail
  split
  · simp
  · exact UInt32.toNat_lt _

theorem val64' (v w : Nat) (hv : v < 2 ^ 32) (hw : w < 2 ^ 32) :
    BitVec.ofNat 64 ((UInt64.ofNat v <<< 32) ||| UInt64.ofNat w).toNat =
      ((BitVec.zeroExtend 64 (BitVec.ofNat 32 v) <<< 32) ||| BitVec.zeroExtend 64 (BitVec.ofNat 32 w)) := by
  have e64 : ∀ u : UInt64, BitVec.ofNat 64 u.toNat = u.toBitVec := by intro u; cases u; simp
  have hx : (UInt32.ofNat v).toNat = v := by simp [UInt32.toNat_ofNat']; omega
  have hy : (UInt32.ofNat w).toNat = w := by simp [UInt32.toNat_ofNat']; omega
  have e1 : BitVec.ofNat 32 v = (UInt32.ofNat v).toBitVec := rfl
  have e2 : BitVec.ofNat 32 w = (UInt32.ofNat w).toBitVec := rfl
  rw [e64, e1, e2, ← val64, hx, hy]

theorem bridge_get_uint64be (b : Buf) :
    let g := mbuf_get_uint64be (memOf b) (toG b)
    let r := getU64 b
    g.1 = r.ok ∧ g.2.1 = toG r.buf ∧ accs g.2.2.1 = r.acc ∧
    g.2.2.2 = (if r.ok then some (BitVec.ofNat 64 r.val) else none) := by
  intro g r
  have e1 : (8#32) = (8 : UInt32).toBitVec := rfl
  obtain ⟨a1, a2, a3, a4⟩ := bridge_get_uint32be b
  obtain ⟨c1, c2, c3, c4⟩ := bridge_get_uint32be (getU32 b).buf
  rw [memOf_congr (getU32_data b)] at c1 c2 c3 c4
  rw [← a2] at c1 c2 c3 c4
  have hg : g = mbuf_get_uint64be (memOf b) (toG b) := rfl
  have hr : r = getU64 b := rfl
  simp only [mbuf_get_uint64be, bridge_avail_for_read, e1, ult_toBitVec] at hg
  simp only [getU64, fail] at hr
  generalize mbuf_get_uint32be (memOf b) (toG b) = G1 at *
  generalize mbuf_get_uint32be (memOf b) G1.2.1 = G2 at *
  by_cases h : availRead b < 8
  · rw [if_pos (by simpa using h)] at hg
    rw [if_pos h] at hr
    rw [hg, hr]
    simp [accs]
  · rw [if_neg (by simpa using h)] at hg
    rw [if_neg h] at hr
    cases h1 : (getU32 b).ok
    · rw [h1] at a1 a4
      simp only [a1, Bool.false_eq_true, ↓reduceIte] at hg
      simp only [h1, ↓reduceIte] at hr
      rw [hg, hr]
      rw [getU32_fail_acc b h1] at a3
      simp [accs] at a3 ⊢
      exact ⟨a2, a3⟩
    · rw [h1] at a1 a4
      simp only [a1, ↓reduceIte] at hg
      simp only [h1, Bool.true_eq_false, ↓reduceIte] at hr
      cases h2 : (getU32 (getU32 b).buf).ok
      · rw [h2] at c1 c4
        simp only [c1, Bool.false_eq_true, ↓reduceIte] at hg
        simp only [h2, ↓reduceIte] at hr
        rw [hg, hr]
        rw [getU32_fail_acc _ h2] at c3
        simp [accs] at a3 c3 ⊢
        refine ⟨c2, ?_⟩
        rw [a3]
        simpa using c3
      · rw [h2] at c1 c4
        simp only [c1, ↓reduceIte] at hg
        simp only [h2, Bool.true_eq_false, ↓reduceIte] at hr
        rw [hg, hr]
        refine ⟨rfl, c2, ?_, ?_⟩
        · simp [accs] at a3 c3 ⊢
          rw [a3, c3]
        · rw [a4, c4]
          simp only [↓reduceIte, Option.getD_some]
          rw [val64' _ _ (getU32_val_lt _) (getU32_val_lt _)]
          rfl

/-! ## writers -/

/-- the bytes one effect leaves behind: the reading of `p[i] = v` / `memcpy` / `memset` /
`memmove` that this bridge trusts (`src k` = byte `k` behind the caller's source pointer) -/
def applyEv (src : Nat → UInt8) (d : List UInt8) : Ev → List UInt8
  | .load _ => d
  | .store o v => splice d o [UInt8.ofBitVec v]
  | .memcpyIn o n => splice d o (srcBytes src n)
  | .memset o v n => splice d o (List.replicate n (UInt8.ofBitVec v))
  | .memmove dst s n => splice d dst (slice d s n)

def applyEvs (src : Nat → UInt8) (d : List UInt8) (l : List Ev) : List UInt8 := l.foldl (applyEv src) d

/-- the extern `mbuf_make_room` of the generated code is the model's `makeRoom` on `b`
(result and scalar fields; growing the bytes is the model's business) -/
def ExtIs (ext : MBuf → BitVec 32 → Bool × MBuf) (b : Buf) (ora : UInt32 → Bool) : Prop :=
  ∀ len : UInt32, ext (toG b) len.toBitVec = ((makeRoom b len ora).1, toG (makeRoom b len ora).2)

theorem makeRoom_fail (b : Buf) (len : UInt32) (ora : UInt32 → Bool)
    (h : (makeRoom b len ora).1 = false) : (makeRoom b len ora).2 = b := by
  unfold makeRoom at *
  split
  · rfl
  · split
    · rfl
    · split
      · rfl
      · split
        · rfl
        · rename_i na hg
          split
          · rename_i ho
            simp [*] at h
          · rfl

theorem bridge_write_byte (b : Buf) (v : UInt8) (ora : UInt32 → Bool) (src : Nat → UInt8)
    (ext : MBuf → BitVec 32 → Bool × MBuf) (hext : ExtIs ext b ora) :
    let g := mbuf_write_byte (memOf b) ext (toG b) v.toBitVec
    let r := writeByte b v ora
    g.1 = r.ok ∧ g.2.1 = toG r.buf ∧ accs g.2.2 = r.acc ∧
    (r.ok = true → applyEvs src ((ensure b 1 ora).getD b).data g.2.2 = r.buf.data) := by
  have e1 : (1#32) = (1 : UInt32).toBitVec := rfl
  simp only [mbuf_write_byte, writeByte, ensure, bridge_avail_for_write, e1, ult_toBitVec, hext 1, fail]
  by_cases h : availWrite b < 1
  · simp only [h, decide_true, ↓reduceIte]
    cases hm : (makeRoom b 1 ora).1
    · simp [makeRoom_fail b 1 ora hm, accs]
    · simp [accs, accOf, toG, applyEvs, applyEv]
  · simp [h, accs, accOf, toG, applyEvs, applyEv]

theorem zext64_toNat (x : UInt32) : (BitVec.zeroExtend 64 x.toBitVec).toNat = x.toNat := by
  simp [BitVec.toNat_setWidth]

theorem bridge_write (b : Buf) (len : UInt32) (ora : UInt32 → Bool) (src : Nat → UInt8)
    (ext : MBuf → BitVec 32 → Bool × MBuf) (hext : ExtIs ext b ora) :
    let g := mbuf_write (memOf b) ext (toG b) len.toBitVec
    let r := write b src len ora
    g.1 = r.ok ∧ g.2.1 = toG r.buf ∧ accs g.2.2 = r.acc ∧
    (r.ok = true → applyEvs src ((ensure b len ora).getD b).data g.2.2 = r.buf.data) := by
  have e0 : (0#32) = (0 : UInt32).toBitVec := rfl
  simp only [mbuf_write, write, ensure, bridge_avail_for_write, e0, ult_toBitVec, hext len, fail,
    zext64_toNat]
  by_cases h0 : (0 : UInt32) < len
  · have h0' : len > 0 := h0
    by_cases h : availWrite b < len
    · simp only [h, decide_true, ↓reduceIte]
      cases hm : (makeRoom b len ora).1
      · simp [makeRoom_fail b len ora hm, accs]
      · simp [h0, accs, accOf, toG, applyEvs, applyEv]
    · simp [h, h0, accs, accOf, toG, applyEvs, applyEv]
  · have hz : len = 0 := by
      have := UInt32.not_lt.mp h0
      exact UInt32.le_zero_iff.mp this
    subst hz
    by_cases h : availWrite b < 0
    · simp only [h, decide_true, ↓reduceIte]
      cases hm : (makeRoom b 0 ora).1
      · simp [makeRoom_fail b 0 ora hm, accs]
      · simp [accs, toG, applyEvs, srcBytes, splice]
    · simp [h, accs, toG, applyEvs, srcBytes, splice]

theorem trunc8_zext32 (x : UInt8) : BitVec.truncate 8 (BitVec.zeroExtend 32 x.toBitVec) = x.toBitVec := by
  simp

theorem bridge_fill (b : Buf) (byte : UInt8) (len : UInt32) (ora : UInt32 → Bool) (src : Nat → UInt8)
    (ext : MBuf → BitVec 32 → Bool × MBuf) (hext : ExtIs ext b ora) :
    let g := mbuf_fill (memOf b) ext (toG b) byte.toBitVec len.toBitVec
    let r := fill b byte len ora
    g.1 = r.ok ∧ g.2.1 = toG r.buf ∧ accs g.2.2 = r.acc ∧
    (r.ok = true → applyEvs src ((ensure b len ora).getD b).data g.2.2 = r.buf.data) := by
  simp only [mbuf_fill, fill, ensure, bridge_avail_for_write, ult_toBitVec, hext len, fail,
    zext64_toNat, trunc8_zext32]
  by_cases h : availWrite b < len
  · simp only [h, decide_true, ↓reduceIte]
    cases hm : (makeRoom b len ora).1
    · simp [makeRoom_fail b len ora hm, accs]
    · simp [accs, accOf, toG, applyEvs, applyEv]
  · simp [h, accs, accOf, toG, applyEvs, applyEv]

theorem toG_rp (b : Buf) : (toG b).read_pos = b.readPos.toBitVec := rfl
theorem toG_wp (b : Buf) : (toG b).write_pos = b.writePos.toBitVec := rfl
theorem toG_al (b : Buf) : (toG b).alloc_len = b.allocLen.toBitVec := rfl
theorem toG_reader (b : Buf) : (toG b).reader = b.reader := rfl
theorem toG_fixed (b : Buf) : (toG b).fixed = b.fixed := rfl

theorem bridge_cut (b : Buf) (ofs len : UInt32) (src : Nat → UInt8) :
    let g := mbuf_cut (memOf b) (toG b) ofs.toBitVec len.toBitVec
    let r := cut b ofs len
    g.1 = r.ok ∧ g.2.1 = toG r.buf ∧ accs g.2.2 = r.acc ∧ applyEvs src b.data g.2.2 = r.buf.data := by
  simp only [mbuf_cut, cut, fail, toG_rp, toG_wp, toG_reader, ← UInt32.toBitVec_sub, ← UInt32.toBitVec_add,
    ult_toBitVec, ule_toBitVec, zext64_toNat]
  cases hr : b.reader
  · simp only [Bool.false_eq_true, ↓reduceIte, Bool.and_eq_true, decide_eq_true_eq]
    by_cases h1 : ofs < b.writePos ∧ len < b.writePos - ofs
    · rw [if_pos h1, if_pos h1]
      by_cases h2 : ofs + len ≤ b.readPos
      · have h2' : b.readPos ≥ ofs + len := h2
        simp [h2, h2', accs, accOf, toG, applyEvs, applyEv, hr]
      · have h2' : ¬ b.readPos ≥ ofs + len := h2
        by_cases h3 : ofs < b.readPos
        · have h3' : b.readPos > ofs := h3
          simp [h2, h2', h3, h3', accs, accOf, toG, applyEvs, applyEv, hr]
        · have h3' : ¬ b.readPos > ofs := h3
          simp [h2, h2', h3, h3', accs, accOf, toG, applyEvs, applyEv, hr]
    · rw [if_neg h1, if_neg h1]
      by_cases h4 : ofs < b.writePos
      · by_cases h3 : ofs < b.readPos
        · have h3' : b.readPos > ofs := h3
          simp [h4, h3, h3', accs, toG, applyEvs, hr]
        · have h3' : ¬ b.readPos > ofs := h3
          simp [h4, h3, h3', accs, toG, applyEvs, hr]
      · simp [h4, accs, toG, applyEvs, hr]
  · simp [accs, toG, applyEvs, hr]

/-! ## `mbuf_make_room` up to (not including) the `realloc` -/

/-- restatement of the model's `makeRoom` cut at the `realloc`: `.inl r` = returned `r` before it,
`.inr na` = reaches `realloc(buf->data, na)` -/
def makeRoomPre (b : Buf) (len : UInt32) : Sum Bool UInt32 :=
  if b.reader = true ∨ b.fixed = true then .inl false
  else if len ≤ availWrite b then .inl true
  else if len > 0xFFFFFFFF - b.writePos then .inl false
  else match grow 33 (startAlloc b) (b.writePos + len) with
    | none => .inl false
    | some na => .inr na

/-- the restatement is the model function -/
theorem makeRoom_eq_pre (b : Buf) (len : UInt32) (ora : UInt32 → Bool) :
    makeRoom b len ora =
      match makeRoomPre b len with
      | .inl r => (r, b)
      | .inr na =>
        if ora na then
          (true, { b with data := b.data ++ List.replicate (na.toNat - b.data.length) 0xDD,
                          allocLen := na, isNull := false })
        else (false, b) := by
  unfold makeRoom makeRoomPre
  split
  · rfl
  · split
    · rfl
    · split
      · rfl
      · split <;> simp_all

theorem loop_eq (F : Nat) (g : MBuf) (need : UInt32) (len : BitVec 32) (p : Nat)
    (hneed : g.write_pos + len = need.toBitVec) :
    ∀ (n m : Nat) (na : UInt32), na.toNat ≠ 0 → 4294967296 ≤ na.toNat * 2 ^ n →
      4294967296 ≤ na.toNat * 2 ^ m →
      mbuf_make_room_pre_loop1 F n g len na.toBitVec p =
        some (match grow m na need with
              | none => Sum.inl (false, g)
              | some r => Sum.inr (r.toBitVec, g)) := by
  intro n
  induction n with
  | zero => intro m na _ h; have := na.toNat_lt; omega
  | succ n ih =>
    intro m na h0 hn hm
    cases m with
    | zero => have := na.toNat_lt; omega
    | succ m =>
      unfold mbuf_make_room_pre_loop1 grow
      simp only [hneed, ult_toBitVec]
      by_cases hlt : na < need
      · simp only [hlt, decide_true, ↓reduceIte]
        have e : (((2147483647#32) * (2#32)) + (1#32)) / (2#32) = (2147483647 : UInt32).toBitVec := by decide
        have e3 : (0xFFFFFFFF / 2 : UInt32) = 2147483647 := by decide
        rw [e, ult_toBitVec, e3]
        by_cases hbig : (2147483647 : UInt32) < na
        · have hbig' : na > 2147483647 := hbig
          rw [if_pos (by simpa using hbig), if_pos hbig']
        · have hbig' : ¬ na > 2147483647 := hbig
          rw [if_neg (by simpa using hbig), if_neg hbig']
          have hb : na.toNat ≤ 2147483647 := by
            have := UInt32.not_lt.mp hbig
            rw [UInt32.le_iff_toNat_le] at this
            simpa using this
          have hm2 : (na * 2).toNat = na.toNat * 2 := by
            rw [UInt32.toNat_mul]; simp; omega
          have e2 : na.toBitVec * 2#32 = (na * 2).toBitVec := rfl
          rw [e2]
          apply ih m (na * 2)
          · omega
          · rw [hm2, Nat.mul_assoc, Nat.mul_comm 2, ← Nat.pow_succ]; exact hn
          · rw [hm2, Nat.mul_assoc, Nat.mul_comm 2, ← Nat.pow_succ]; exact hm
      · simp [hlt]

theorem bridge_make_room_pre (b : Buf) (len : UInt32) (fuel : Nat) (hf : 33 ≤ fuel) :
    mbuf_make_room_pre fuel (toG b) len.toBitVec =
      some (match makeRoomPre b len with
            | .inl r => Sum.inl (r, toG b)
            | .inr na => Sum.inr (na.toBitVec, toG b)) := by
  unfold mbuf_make_room_pre makeRoomPre
  simp only [toG_reader, toG_fixed, toG_wp, bridge_avail_for_write, ule_toBitVec]
  by_cases h1 : b.reader = true ∨ b.fixed = true
  · rw [if_pos (by simpa using h1), if_pos h1]
  · rw [if_neg (by simpa using h1), if_neg h1]
    by_cases h2 : len ≤ availWrite b
    · rw [if_pos (by simpa using h2), if_pos h2]
    · rw [if_neg (by simpa using h2), if_neg h2]
      have e : ((2147483647#32) * (2#32)) + (1#32) = (0xFFFFFFFF : UInt32).toBitVec := by rfl
      simp only [e]
      rw [← @UInt32.toBitVec_sub 4294967295 b.writePos, ult_toBitVec]
      by_cases h3 : len > 0xFFFFFFFF - b.writePos
      · have h3' : 0xFFFFFFFF - b.writePos < len := h3
        rw [if_pos (by simpa using h3'), if_pos h3]
      · have h3' : ¬ 0xFFFFFFFF - b.writePos < len := h3
        rw [if_neg (by simpa using h3'), if_neg h3]
        have hst : (if ((toG b).alloc_len == 0#32) = true then 128#32 else (toG b).alloc_len)
            = (startAlloc b).toBitVec := by
          unfold startAlloc
          by_cases hz : b.allocLen = 0
          · simp [hz, toG]
          · have : ¬ b.allocLen.toBitVec = 0#32 := fun h => hz (UInt32.toBitVec_inj.mp h)
            simp [hz, this, toG]
        simp only [hst]
        have hst0 : (startAlloc b).toNat ≠ 0 := by
          unfold startAlloc
          by_cases hz : b.allocLen = 0
          · rw [if_pos hz]; decide
          · rw [if_neg hz]
            exact fun h => hz (UInt32.toNat_inj.mp (by rw [h]; rfl))
        have hpos : 1 ≤ (startAlloc b).toNat := by omega
        have h33 : 4294967296 ≤ (startAlloc b).toNat * 2 ^ 33 := by
          calc 4294967296 ≤ 1 * 2 ^ 33 := by decide
            _ ≤ (startAlloc b).toNat * 2 ^ 33 := Nat.mul_le_mul_right _ hpos
        have hfu : 4294967296 ≤ (startAlloc b).toNat * 2 ^ fuel := by
          calc 4294967296 ≤ (startAlloc b).toNat * 2 ^ 33 := h33
            _ ≤ (startAlloc b).toNat * 2 ^ fuel := Nat.mul_le_mul_left _ (Nat.pow_le_pow_right (by decide) hf)
        rw [loop_eq fuel (toG b) (b.writePos + len) len.toBitVec 0 rfl fuel 33 (startAlloc b) hst0 hfu h33]
        cases grow 33 (startAlloc b) (b.writePos + len) <;> rfl

end UsualProofs.Bridge.C12T
