import Std.Tactic.BVDecide
import Usual.Gen.C11T
import Usual.C11.Utf8
import UsualProofs.C11.Frame
/-!
# C11 translation tie, part 2: the loop of `utf8_validate_string`

`Usual.Gen.C11T.*` is regenerated from usual/utf8.c on every run of `checks/C11.py`:
`utf8_validate_seq` once more, this time with both pointers as offsets into one region `rs` (so
that the loop can call it at a moving `src`), and `utf8_validate_string` — the `while (src < end)`
loop as a structurally recursive function with `fuel` first (`none` = out of fuel).

* `bridge_validate_seq_off`: the offset-style translation = the model's `validateSeq` on the window
  at `src` with `end - src` bytes available (same `bv_decide` argument as in Bridge/C11.lean);
* `bridge_validate_string`: for every region, `src`, `end` and every fuel above `end - src`, the
  loop returns `Usual.C11.validateString` of the bytes `[src, end)` — the function that
  `validateString_iff` (accepts exactly well-formed UTF-8 without NUL) is about.
-/
namespace UsualProofs.Bridge.C11T
open Usual.C11
open Usual.Gen.C11T

/-- the three comparisons of `avail = end - src` that occur in the code, as Boolean atoms -/
theorem avail_atoms (s e : Nat) : ∃ a2 a3 a4 : Bool,
    (e - s < 2) = (a2 = true) ∧ (e - s < 3) = (a3 = true) ∧ (e - s < 4) = (a4 = true) ∧
    decide (s + 2 > e) = a2 ∧ decide (s + 3 > e) = a3 ∧ decide (s + 4 > e) = a4 :=
  ⟨decide (e - s < 2), decide (e - s < 3), decide (e - s < 4), by simp, by simp, by simp,
   by rw [decide_eq_decide]; omega, by rw [decide_eq_decide]; omega, by rw [decide_eq_decide]; omega⟩

/-- `utf8_validate_seq(src, srcend)` with pointers as offsets = the model on the window at `src` -/
theorem bridge_validate_seq_off (rs : Nat → B) (s e : Nat) :
    utf8_validate_seq rs s e = validateSeq (fun i => rs (s + i)) (e - s) := by
  show _ = validateSeqW (rs s) (rs (s + 1)) (rs (s + 2)) (rs (s + 3)) (e - s)
  unfold utf8_validate_seq validateSeqW isTail
  simp only [BitVec.toNat_ofNat, Nat.reducePow, Nat.reduceMod, Nat.add_zero]
  generalize rs s = b0; generalize rs (s + 1) = b1; generalize rs (s + 2) = b2; generalize rs (s + 3) = b3
  obtain ⟨a2, a3, a4, ha2, ha3, ha4, hd2, hd3, hd4⟩ := avail_atoms s e
  simp only [ha2, ha3, ha4, hd2, hd3, hd4]
  clear ha2 ha3 ha4 hd2 hd3 hd4
  bv_decide

/-! ## the loop of `utf8_validate_string` -/

/-- the bytes `[s, e)` of the region -/
def seg (rs : Nat → B) (s e : Nat) : List B := (List.range (e - s)).map (fun i => rs (s + i))

theorem seg_length (rs : Nat → B) (s e : Nat) : (seg rs s e).length = e - s := by simp [seg]

theorem seg_nil (rs : Nat → B) (s e : Nat) (h : e ≤ s) : seg rs s e = [] := by
  have : e - s = 0 := by omega
  simp [seg, this]

theorem seg_cons (rs : Nat → B) (s e : Nat) (h : s < e) : seg rs s e = rs s :: seg rs (s + 1) e := by
  have : e - s = (e - (s + 1)) + 1 := by omega
  unfold seg
  rw [this, List.range_succ_eq_map]
  simp only [List.map_cons, Nat.add_zero, List.map_map, List.cons.injEq, true_and]
  apply List.map_congr_left
  intro i _
  simp only [Function.comp, Nat.succ_eq_add_one]
  congr 1; omega

theorem seg_drop (rs : Nat → B) (s e k : Nat) : (seg rs s e).drop k = seg rs (s + k) e := by
  induction k generalizing s with
  | zero => simp
  | succ k ih =>
    by_cases h : s < e
    · rw [seg_cons rs s e h, List.drop_succ_cons, ih]; congr 1; omega
    · rw [seg_nil rs s e (by omega), seg_nil rs (s + (k + 1)) e (by omega)]; rfl

theorem rdOf_seg (rs : Nat → B) (s e i : Nat) (h : i < e - s) : rdOf (seg rs s e) i = rs (s + i) := by
  simp [rdOf, seg, List.getD_eq_getElem?_getD, h]

theorem validateSeqL_seg (rs : Nat → B) (s e : Nat) (h : s < e) :
    validateSeqL (seg rs s e) = validateSeq (fun i => rs (s + i)) (e - s) := by
  unfold validateSeqL validateSeq
  rw [seg_length, rdOf_seg rs s e 0 (by omega)]
  apply UsualProofs.C11.vsW_congr
  · intro h2; exact rdOf_seg rs s e 1 (by omega)
  · intro h3; exact rdOf_seg rs s e 2 (by omega)
  · intro h4; exact rdOf_seg rs s e 3 (by omega)

theorem hi_bit (b : B) : (((BitVec.signExtend 32 b) &&& (128#32)) != 0#32) = decide (0x80#8 ≤ b) := by
  have : (((BitVec.signExtend 32 b) &&& (128#32)) != 0#32) = BitVec.ule 0x80#8 b := by bv_decide
  rw [this]; simp [BitVec.le_def, BitVec.ule]

theorem is_nul (b : B) : ((BitVec.signExtend 32 b) == (0#32)) = decide (b = 0#8) := by
  by_cases h : b = 0#8
  · subst h; decide
  · have h2 : ¬ BitVec.signExtend 32 b = 0#32 := by
      intro h'; apply h; bv_decide
    simp [h, h2]

theorem loop_eq (rs : Nat → B) (F e : Nat) : ∀ (n m s : Nat) (k : BitVec 32), e - s < n → e - s < m →
    utf8_validate_string_loop1 rs F n s e k = some (validateStringF m (seg rs s e)) := by
  intro n
  induction n with
  | zero => intro m s k h; omega
  | succ n ih =>
    intro m s k hn hm
    cases m with
    | zero => omega
    | succ m =>
      unfold utf8_validate_string_loop1
      by_cases hlt : s < e
      · rw [seg_cons rs s e hlt]
        unfold validateStringF
        rw [← seg_cons rs s e hlt, validateSeqL_seg rs s e hlt, ← bridge_validate_seq_off]
        simp only [hlt, decide_true, ↓reduceIte, hi_bit, is_nul, seg_drop]
        by_cases hb : 0x80#8 ≤ rs s
        · simp only [hb, decide_true, ↓reduceIte]
          by_cases hz : utf8_validate_seq rs s e = 0#32
          · simp [hz]
          · have hz' : (utf8_validate_seq rs s e == 0#32) = false := by simpa using hz
            simp only [hz', hz, Bool.false_eq_true, ↓reduceIte]
            have hpos : 0 < (utf8_validate_seq rs s e).toNat := by
              rcases Nat.eq_zero_or_pos (utf8_validate_seq rs s e).toNat with h0 | h0
              · exact absurd (BitVec.eq_of_toNat_eq (by simpa using h0)) hz
              · exact h0
            exact ih m _ _ (by omega) (by omega)
        · simp only [hb, decide_false, Bool.false_eq_true, ↓reduceIte]
          by_cases h0 : rs s = 0#8
          · simp [h0]
          · simp only [h0, decide_false, Bool.false_eq_true, ↓reduceIte]
            exact ih m _ _ (by omega) (by omega)
      · rw [seg_nil rs s e (by omega)]
        simp [hlt, validateStringF]

/-- `utf8_validate_string(src, end)` as clang reads it today = the model's `validateString` on the
bytes `[src, end)`, for every fuel above the length -/
theorem bridge_validate_string (rs : Nat → B) (s e fuel : Nat) (hf : e - s < fuel) :
    utf8_validate_string rs fuel s e = some (validateString (seg rs s e)) := by
  unfold utf8_validate_string validateString
  rw [seg_length]
  exact loop_eq rs fuel e fuel (e - s + 1) s _ hf (by omega)

end UsualProofs.Bridge.C11T
