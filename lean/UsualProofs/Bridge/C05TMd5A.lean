import Usual.Gen.C05TMd5
import Usual.Gen.C05Tables
/-!
# C05 translation tie, MD5 (part A): the 64 `OP` statements of `md5_mix`, folded

`Usual.Gen.C05TMd5` (regenerated from usual/crypto/md5.c on every run) has one function per statement
of `md5_mix` over the tuple `T` of all variables in scope (`md5_mix_blk1 … blk72`: four loads, 64
`OP`s, four `ctx->a += a …`) and `md5_mix` as their chain.  `opG op X s` is one
`OP(fn, r0, r1, r2, r3, k, s, T)` read off an entry of the **regenerated** table `md5Ops`
(`Usual.Gen.C05`, extracted from the same md5.c by checks/C05.py): each block equals `opG` of its
table entry (`blk_op_i`, by `rfl`: function selector, register permutation, message index, rotation
count and additive constant of the i-th statement all come from the table), and the chain is
`finishG ctx (opG (md5Ops[63]) X (… (opG (md5Ops[0]) X (startG ctx))))`.  No axioms beyond the
kernel's.  Part B (`Bridge/C05TMd5.lean`) identifies that with the model.
-/
set_option maxRecDepth 100000
namespace UsualProofs.Bridge.C05TMd5
open Usual.Gen.C05TMd5 Usual.Gen.C05

abbrev W := BitVec 32

/-- the working variables `a b c d` -/
structure S where
  a : W
  b : W
  c : W
  d : W

def S.get (s : S) (i : Nat) : W :=
  match i with
  | 0 => s.a
  | 1 => s.b
  | 2 => s.c
  | _ => s.d

def S.set (s : S) (i : Nat) (v : W) : S :=
  match i with
  | 0 => { s with a := v }
  | 1 => { s with b := v }
  | 2 => { s with c := v }
  | _ => { s with d := v }

/-- `F G H I`, selected by the first component of the table entry -/
def fG (fn : Nat) (x y z : W) : W :=
  match fn with
  | 0 => ((x &&& y) ||| ((~~~x) &&& z))
  | 1 => ((x &&& z) ||| (y &&& (~~~z)))
  | 2 => ((x ^^^ y) ^^^ z)
  | _ => (y ^^^ (x ||| (~~~z)))

/-- `OP(fn, r0, r1, r2, r3, k, s, T)`: `r0 = r1 + rol32(r0 + fn(r1, r2, r3) + X[k] + T, s)` -/
def opG (op : Nat × Nat × Nat × Nat × Nat × Nat × Nat × UInt32) (x : Array W) (r : S) : S :=
  r.set op.2.1 (r.get op.2.2.1 + (rol32 (((r.get op.2.1 + (fG op.1 (r.get op.2.2.1) (r.get op.2.2.2.1) (r.get op.2.2.2.2.1))) +
    (x.getD op.2.2.2.2.2.1 0#32)) + op.2.2.2.2.2.2.2.toBitVec) (BitVec.ofNat 32 op.2.2.2.2.2.2.1)))

/-- all variables in scope inside `md5_mix`: `ctx->nbytes, ctx->a … ctx->d, X, a … d` -/
abbrev T := BitVec 64 × W × W × W × W × Array W × W × W × W × W

def unpackT (σ : T) : S :=
  { a := σ.2.2.2.2.2.2.1, b := σ.2.2.2.2.2.2.2.1, c := σ.2.2.2.2.2.2.2.2.1, d := σ.2.2.2.2.2.2.2.2.2 }

def xT (σ : T) : Array W := σ.2.2.2.2.2.1

def packT (σ : T) (s : S) : T :=
  (σ.1, σ.2.1, σ.2.2.1, σ.2.2.2.1, σ.2.2.2.2.1, σ.2.2.2.2.2.1, s.a, s.b, s.c, s.d)

theorem unpack_pack (σ : T) (s : S) : unpackT (packT σ s) = s := rfl
theorem pack_pack (σ : T) (s s' : S) : packT (packT σ s) s' = packT σ s' := rfl
theorem xT_pack (σ : T) (s : S) : xT (packT σ s) = xT σ := rfl

def finishG (ctx : md5_ctx) (s : S) : md5_ctx :=
  { nbytes := ctx.nbytes, a := (ctx.a + s.a), b := (ctx.b + s.b), c := (ctx.c + s.c), d := (ctx.d + s.d) }

def startG (ctx : md5_ctx) : S := { a := ctx.a, b := ctx.b, c := ctx.c, d := ctx.d }

/-- entry `i` of the regenerated table -/
def opAt (i : Nat) : Nat × Nat × Nat × Nat × Nat × Nat × Nat × UInt32 := md5Ops.getD i (0, 0, 0, 0, 0, 0, 0, 0)

set_option maxHeartbeats 20000 in
theorem blk_op_0 (n : BitVec 64) (ca cb cc cd : W) (X : Array W) (z1 z2 z3 z4 : W) (s : S) :
    md5_mix_blk5 (packT (n, ca, cb, cc, cd, X, z1, z2, z3, z4) s) = packT (n, ca, cb, cc, cd, X, z1, z2, z3, z4) (opG (opAt 0) X s) := rfl
set_option maxHeartbeats 20000 in
theorem blk_op_1 (n : BitVec 64) (ca cb cc cd : W) (X : Array W) (z1 z2 z3 z4 : W) (s : S) :
    md5_mix_blk6 (packT (n, ca, cb, cc, cd, X, z1, z2, z3, z4) s) = packT (n, ca, cb, cc, cd, X, z1, z2, z3, z4) (opG (opAt 1) X s) := rfl
set_option maxHeartbeats 20000 in
theorem blk_op_2 (n : BitVec 64) (ca cb cc cd : W) (X : Array W) (z1 z2 z3 z4 : W) (s : S) :
    md5_mix_blk7 (packT (n, ca, cb, cc, cd, X, z1, z2, z3, z4) s) = packT (n, ca, cb, cc, cd, X, z1, z2, z3, z4) (opG (opAt 2) X s) := rfl
set_option maxHeartbeats 20000 in
theorem blk_op_3 (n : BitVec 64) (ca cb cc cd : W) (X : Array W) (z1 z2 z3 z4 : W) (s : S) :
    md5_mix_blk8 (packT (n, ca, cb, cc, cd, X, z1, z2, z3, z4) s) = packT (n, ca, cb, cc, cd, X, z1, z2, z3, z4) (opG (opAt 3) X s) := rfl
set_option maxHeartbeats 20000 in
theorem blk_op_4 (n : BitVec 64) (ca cb cc cd : W) (X : Array W) (z1 z2 z3 z4 : W) (s : S) :
    md5_mix_blk9 (packT (n, ca, cb, cc, cd, X, z1, z2, z3, z4) s) = packT (n, ca, cb, cc, cd, X, z1, z2, z3, z4) (opG (opAt 4) X s) := rfl
set_option maxHeartbeats 20000 in
theorem blk_op_5 (n : BitVec 64) (ca cb cc cd : W) (X : Array W) (z1 z2 z3 z4 : W) (s : S) :
    md5_mix_blk10 (packT (n, ca, cb, cc, cd, X, z1, z2, z3, z4) s) = packT (n, ca, cb, cc, cd, X, z1, z2, z3, z4) (opG (opAt 5) X s) := rfl
set_option maxHeartbeats 20000 in
theorem blk_op_6 (n : BitVec 64) (ca cb cc cd : W) (X : Array W) (z1 z2 z3 z4 : W) (s : S) :
    md5_mix_blk11 (packT (n, ca, cb, cc, cd, X, z1, z2, z3, z4) s) = packT (n, ca, cb, cc, cd, X, z1, z2, z3, z4) (opG (opAt 6) X s) := rfl
set_option maxHeartbeats 20000 in
theorem blk_op_7 (n : BitVec 64) (ca cb cc cd : W) (X : Array W) (z1 z2 z3 z4 : W) (s : S) :
    md5_mix_blk12 (packT (n, ca, cb, cc, cd, X, z1, z2, z3, z4) s) = packT (n, ca, cb, cc, cd, X, z1, z2, z3, z4) (opG (opAt 7) X s) := rfl
set_option maxHeartbeats 20000 in
theorem blk_op_8 (n : BitVec 64) (ca cb cc cd : W) (X : Array W) (z1 z2 z3 z4 : W) (s : S) :
    md5_mix_blk13 (packT (n, ca, cb, cc, cd, X, z1, z2, z3, z4) s) = packT (n, ca, cb, cc, cd, X, z1, z2, z3, z4) (opG (opAt 8) X s) := rfl
set_option maxHeartbeats 20000 in
theorem blk_op_9 (n : BitVec 64) (ca cb cc cd : W) (X : Array W) (z1 z2 z3 z4 : W) (s : S) :
    md5_mix_blk14 (packT (n, ca, cb, cc, cd, X, z1, z2, z3, z4) s) = packT (n, ca, cb, cc, cd, X, z1, z2, z3, z4) (opG (opAt 9) X s) := rfl
set_option maxHeartbeats 20000 in
theorem blk_op_10 (n : BitVec 64) (ca cb cc cd : W) (X : Array W) (z1 z2 z3 z4 : W) (s : S) :
    md5_mix_blk15 (packT (n, ca, cb, cc, cd, X, z1, z2, z3, z4) s) = packT (n, ca, cb, cc, cd, X, z1, z2, z3, z4) (opG (opAt 10) X s) := rfl
set_option maxHeartbeats 20000 in
theorem blk_op_11 (n : BitVec 64) (ca cb cc cd : W) (X : Array W) (z1 z2 z3 z4 : W) (s : S) :
    md5_mix_blk16 (packT (n, ca, cb, cc, cd, X, z1, z2, z3, z4) s) = packT (n, ca, cb, cc, cd, X, z1, z2, z3, z4) (opG (opAt 11) X s) := rfl
set_option maxHeartbeats 20000 in
theorem blk_op_12 (n : BitVec 64) (ca cb cc cd : W) (X : Array W) (z1 z2 z3 z4 : W) (s : S) :
    md5_mix_blk17 (packT (n, ca, cb, cc, cd, X, z1, z2, z3, z4) s) = packT (n, ca, cb, cc, cd, X, z1, z2, z3, z4) (opG (opAt 12) X s) := rfl
set_option maxHeartbeats 20000 in
theorem blk_op_13 (n : BitVec 64) (ca cb cc cd : W) (X : Array W) (z1 z2 z3 z4 : W) (s : S) :
    md5_mix_blk18 (packT (n, ca, cb, cc, cd, X, z1, z2, z3, z4) s) = packT (n, ca, cb, cc, cd, X, z1, z2, z3, z4) (opG (opAt 13) X s) := rfl
set_option maxHeartbeats 20000 in
theorem blk_op_14 (n : BitVec 64) (ca cb cc cd : W) (X : Array W) (z1 z2 z3 z4 : W) (s : S) :
    md5_mix_blk19 (packT (n, ca, cb, cc, cd, X, z1, z2, z3, z4) s) = packT (n, ca, cb, cc, cd, X, z1, z2, z3, z4) (opG (opAt 14) X s) := rfl
set_option maxHeartbeats 20000 in
theorem blk_op_15 (n : BitVec 64) (ca cb cc cd : W) (X : Array W) (z1 z2 z3 z4 : W) (s : S) :
    md5_mix_blk20 (packT (n, ca, cb, cc, cd, X, z1, z2, z3, z4) s) = packT (n, ca, cb, cc, cd, X, z1, z2, z3, z4) (opG (opAt 15) X s) := rfl
set_option maxHeartbeats 20000 in
theorem blk_op_16 (n : BitVec 64) (ca cb cc cd : W) (X : Array W) (z1 z2 z3 z4 : W) (s : S) :
    md5_mix_blk21 (packT (n, ca, cb, cc, cd, X, z1, z2, z3, z4) s) = packT (n, ca, cb, cc, cd, X, z1, z2, z3, z4) (opG (opAt 16) X s) := rfl
set_option maxHeartbeats 20000 in
theorem blk_op_17 (n : BitVec 64) (ca cb cc cd : W) (X : Array W) (z1 z2 z3 z4 : W) (s : S) :
    md5_mix_blk22 (packT (n, ca, cb, cc, cd, X, z1, z2, z3, z4) s) = packT (n, ca, cb, cc, cd, X, z1, z2, z3, z4) (opG (opAt 17) X s) := rfl
set_option maxHeartbeats 20000 in
theorem blk_op_18 (n : BitVec 64) (ca cb cc cd : W) (X : Array W) (z1 z2 z3 z4 : W) (s : S) :
    md5_mix_blk23 (packT (n, ca, cb, cc, cd, X, z1, z2, z3, z4) s) = packT (n, ca, cb, cc, cd, X, z1, z2, z3, z4) (opG (opAt 18) X s) := rfl
set_option maxHeartbeats 20000 in
theorem blk_op_19 (n : BitVec 64) (ca cb cc cd : W) (X : Array W) (z1 z2 z3 z4 : W) (s : S) :
    md5_mix_blk24 (packT (n, ca, cb, cc, cd, X, z1, z2, z3, z4) s) = packT (n, ca, cb, cc, cd, X, z1, z2, z3, z4) (opG (opAt 19) X s) := rfl
set_option maxHeartbeats 20000 in
theorem blk_op_20 (n : BitVec 64) (ca cb cc cd : W) (X : Array W) (z1 z2 z3 z4 : W) (s : S) :
    md5_mix_blk25 (packT (n, ca, cb, cc, cd, X, z1, z2, z3, z4) s) = packT (n, ca, cb, cc, cd, X, z1, z2, z3, z4) (opG (opAt 20) X s) := rfl
set_option maxHeartbeats 20000 in
theorem blk_op_21 (n : BitVec 64) (ca cb cc cd : W) (X : Array W) (z1 z2 z3 z4 : W) (s : S) :
    md5_mix_blk26 (packT (n, ca, cb, cc, cd, X, z1, z2, z3, z4) s) = packT (n, ca, cb, cc, cd, X, z1, z2, z3, z4) (opG (opAt 21) X s) := rfl
set_option maxHeartbeats 20000 in
theorem blk_op_22 (n : BitVec 64) (ca cb cc cd : W) (X : Array W) (z1 z2 z3 z4 : W) (s : S) :
    md5_mix_blk27 (packT (n, ca, cb, cc, cd, X, z1, z2, z3, z4) s) = packT (n, ca, cb, cc, cd, X, z1, z2, z3, z4) (opG (opAt 22) X s) := rfl
set_option maxHeartbeats 20000 in
theorem blk_op_23 (n : BitVec 64) (ca cb cc cd : W) (X : Array W) (z1 z2 z3 z4 : W) (s : S) :
    md5_mix_blk28 (packT (n, ca, cb, cc, cd, X, z1, z2, z3, z4) s) = packT (n, ca, cb, cc, cd, X, z1, z2, z3, z4) (opG (opAt 23) X s) := rfl
set_option maxHeartbeats 20000 in
theorem blk_op_24 (n : BitVec 64) (ca cb cc cd : W) (X : Array W) (z1 z2 z3 z4 : W) (s : S) :
    md5_mix_blk29 (packT (n, ca, cb, cc, cd, X, z1, z2, z3, z4) s) = packT (n, ca, cb, cc, cd, X, z1, z2, z3, z4) (opG (opAt 24) X s) := rfl
set_option maxHeartbeats 20000 in
theorem blk_op_25 (n : BitVec 64) (ca cb cc cd : W) (X : Array W) (z1 z2 z3 z4 : W) (s : S) :
    md5_mix_blk30 (packT (n, ca, cb, cc, cd, X, z1, z2, z3, z4) s) = packT (n, ca, cb, cc, cd, X, z1, z2, z3, z4) (opG (opAt 25) X s) := rfl
set_option maxHeartbeats 20000 in
theorem blk_op_26 (n : BitVec 64) (ca cb cc cd : W) (X : Array W) (z1 z2 z3 z4 : W) (s : S) :
    md5_mix_blk31 (packT (n, ca, cb, cc, cd, X, z1, z2, z3, z4) s) = packT (n, ca, cb, cc, cd, X, z1, z2, z3, z4) (opG (opAt 26) X s) := rfl
set_option maxHeartbeats 20000 in
theorem blk_op_27 (n : BitVec 64) (ca cb cc cd : W) (X : Array W) (z1 z2 z3 z4 : W) (s : S) :
    md5_mix_blk32 (packT (n, ca, cb, cc, cd, X, z1, z2, z3, z4) s) = packT (n, ca, cb, cc, cd, X, z1, z2, z3, z4) (opG (opAt 27) X s) := rfl
set_option maxHeartbeats 20000 in
theorem blk_op_28 (n : BitVec 64) (ca cb cc cd : W) (X : Array W) (z1 z2 z3 z4 : W) (s : S) :
    md5_mix_blk33 (packT (n, ca, cb, cc, cd, X, z1, z2, z3, z4) s) = packT (n, ca, cb, cc, cd, X, z1, z2, z3, z4) (opG (opAt 28) X s) := rfl
set_option maxHeartbeats 20000 in
theorem blk_op_29 (n : BitVec 64) (ca cb cc cd : W) (X : Array W) (z1 z2 z3 z4 : W) (s : S) :
    md5_mix_blk34 (packT (n, ca, cb, cc, cd, X, z1, z2, z3, z4) s) = packT (n, ca, cb, cc, cd, X, z1, z2, z3, z4) (opG (opAt 29) X s) := rfl
set_option maxHeartbeats 20000 in
theorem blk_op_30 (n : BitVec 64) (ca cb cc cd : W) (X : Array W) (z1 z2 z3 z4 : W) (s : S) :
    md5_mix_blk35 (packT (n, ca, cb, cc, cd, X, z1, z2, z3, z4) s) = packT (n, ca, cb, cc, cd, X, z1, z2, z3, z4) (opG (opAt 30) X s) := rfl
set_option maxHeartbeats 20000 in
theorem blk_op_31 (n : BitVec 64) (ca cb cc cd : W) (X : Array W) (z1 z2 z3 z4 : W) (s : S) :
    md5_mix_blk36 (packT (n, ca, cb, cc, cd, X, z1, z2, z3, z4) s) = packT (n, ca, cb, cc, cd, X, z1, z2, z3, z4) (opG (opAt 31) X s) := rfl
set_option maxHeartbeats 20000 in
theorem blk_op_32 (n : BitVec 64) (ca cb cc cd : W) (X : Array W) (z1 z2 z3 z4 : W) (s : S) :
    md5_mix_blk37 (packT (n, ca, cb, cc, cd, X, z1, z2, z3, z4) s) = packT (n, ca, cb, cc, cd, X, z1, z2, z3, z4) (opG (opAt 32) X s) := rfl
set_option maxHeartbeats 20000 in
theorem blk_op_33 (n : BitVec 64) (ca cb cc cd : W) (X : Array W) (z1 z2 z3 z4 : W) (s : S) :
    md5_mix_blk38 (packT (n, ca, cb, cc, cd, X, z1, z2, z3, z4) s) = packT (n, ca, cb, cc, cd, X, z1, z2, z3, z4) (opG (opAt 33) X s) := rfl
set_option maxHeartbeats 20000 in
theorem blk_op_34 (n : BitVec 64) (ca cb cc cd : W) (X : Array W) (z1 z2 z3 z4 : W) (s : S) :
    md5_mix_blk39 (packT (n, ca, cb, cc, cd, X, z1, z2, z3, z4) s) = packT (n, ca, cb, cc, cd, X, z1, z2, z3, z4) (opG (opAt 34) X s) := rfl
set_option maxHeartbeats 20000 in
theorem blk_op_35 (n : BitVec 64) (ca cb cc cd : W) (X : Array W) (z1 z2 z3 z4 : W) (s : S) :
    md5_mix_blk40 (packT (n, ca, cb, cc, cd, X, z1, z2, z3, z4) s) = packT (n, ca, cb, cc, cd, X, z1, z2, z3, z4) (opG (opAt 35) X s) := rfl
set_option maxHeartbeats 20000 in
theorem blk_op_36 (n : BitVec 64) (ca cb cc cd : W) (X : Array W) (z1 z2 z3 z4 : W) (s : S) :
    md5_mix_blk41 (packT (n, ca, cb, cc, cd, X, z1, z2, z3, z4) s) = packT (n, ca, cb, cc, cd, X, z1, z2, z3, z4) (opG (opAt 36) X s) := rfl
set_option maxHeartbeats 20000 in
theorem blk_op_37 (n : BitVec 64) (ca cb cc cd : W) (X : Array W) (z1 z2 z3 z4 : W) (s : S) :
    md5_mix_blk42 (packT (n, ca, cb, cc, cd, X, z1, z2, z3, z4) s) = packT (n, ca, cb, cc, cd, X, z1, z2, z3, z4) (opG (opAt 37) X s) := rfl
set_option maxHeartbeats 20000 in
theorem blk_op_38 (n : BitVec 64) (ca cb cc cd : W) (X : Array W) (z1 z2 z3 z4 : W) (s : S) :
    md5_mix_blk43 (packT (n, ca, cb, cc, cd, X, z1, z2, z3, z4) s) = packT (n, ca, cb, cc, cd, X, z1, z2, z3, z4) (opG (opAt 38) X s) := rfl
set_option maxHeartbeats 20000 in
theorem blk_op_39 (n : BitVec 64) (ca cb cc cd : W) (X : Array W) (z1 z2 z3 z4 : W) (s : S) :
    md5_mix_blk44 (packT (n, ca, cb, cc, cd, X, z1, z2, z3, z4) s) = packT (n, ca, cb, cc, cd, X, z1, z2, z3, z4) (opG (opAt 39) X s) := rfl
set_option maxHeartbeats 20000 in
theorem blk_op_40 (n : BitVec 64) (ca cb cc cd : W) (X : Array W) (z1 z2 z3 z4 : W) (s : S) :
    md5_mix_blk45 (packT (n, ca, cb, cc, cd, X, z1, z2, z3, z4) s) = packT (n, ca, cb, cc, cd, X, z1, z2, z3, z4) (opG (opAt 40) X s) := rfl
set_option maxHeartbeats 20000 in
theorem blk_op_41 (n : BitVec 64) (ca cb cc cd : W) (X : Array W) (z1 z2 z3 z4 : W) (s : S) :
    md5_mix_blk46 (packT (n, ca, cb, cc, cd, X, z1, z2, z3, z4) s) = packT (n, ca, cb, cc, cd, X, z1, z2, z3, z4) (opG (opAt 41) X s) := rfl
set_option maxHeartbeats 20000 in
theorem blk_op_42 (n : BitVec 64) (ca cb cc cd : W) (X : Array W) (z1 z2 z3 z4 : W) (s : S) :
    md5_mix_blk47 (packT (n, ca, cb, cc, cd, X, z1, z2, z3, z4) s) = packT (n, ca, cb, cc, cd, X, z1, z2, z3, z4) (opG (opAt 42) X s) := rfl
set_option maxHeartbeats 20000 in
theorem blk_op_43 (n : BitVec 64) (ca cb cc cd : W) (X : Array W) (z1 z2 z3 z4 : W) (s : S) :
    md5_mix_blk48 (packT (n, ca, cb, cc, cd, X, z1, z2, z3, z4) s) = packT (n, ca, cb, cc, cd, X, z1, z2, z3, z4) (opG (opAt 43) X s) := rfl
set_option maxHeartbeats 20000 in
theorem blk_op_44 (n : BitVec 64) (ca cb cc cd : W) (X : Array W) (z1 z2 z3 z4 : W) (s : S) :
    md5_mix_blk49 (packT (n, ca, cb, cc, cd, X, z1, z2, z3, z4) s) = packT (n, ca, cb, cc, cd, X, z1, z2, z3, z4) (opG (opAt 44) X s) := rfl
set_option maxHeartbeats 20000 in
theorem blk_op_45 (n : BitVec 64) (ca cb cc cd : W) (X : Array W) (z1 z2 z3 z4 : W) (s : S) :
    md5_mix_blk50 (packT (n, ca, cb, cc, cd, X, z1, z2, z3, z4) s) = packT (n, ca, cb, cc, cd, X, z1, z2, z3, z4) (opG (opAt 45) X s) := rfl
set_option maxHeartbeats 20000 in
theorem blk_op_46 (n : BitVec 64) (ca cb cc cd : W) (X : Array W) (z1 z2 z3 z4 : W) (s : S) :
    md5_mix_blk51 (packT (n, ca, cb, cc, cd, X, z1, z2, z3, z4) s) = packT (n, ca, cb, cc, cd, X, z1, z2, z3, z4) (opG (opAt 46) X s) := rfl
set_option maxHeartbeats 20000 in
theorem blk_op_47 (n : BitVec 64) (ca cb cc cd : W) (X : Array W) (z1 z2 z3 z4 : W) (s : S) :
    md5_mix_blk52 (packT (n, ca, cb, cc, cd, X, z1, z2, z3, z4) s) = packT (n, ca, cb, cc, cd, X, z1, z2, z3, z4) (opG (opAt 47) X s) := rfl
set_option maxHeartbeats 20000 in
theorem blk_op_48 (n : BitVec 64) (ca cb cc cd : W) (X : Array W) (z1 z2 z3 z4 : W) (s : S) :
    md5_mix_blk53 (packT (n, ca, cb, cc, cd, X, z1, z2, z3, z4) s) = packT (n, ca, cb, cc, cd, X, z1, z2, z3, z4) (opG (opAt 48) X s) := rfl
set_option maxHeartbeats 20000 in
theorem blk_op_49 (n : BitVec 64) (ca cb cc cd : W) (X : Array W) (z1 z2 z3 z4 : W) (s : S) :
    md5_mix_blk54 (packT (n, ca, cb, cc, cd, X, z1, z2, z3, z4) s) = packT (n, ca, cb, cc, cd, X, z1, z2, z3, z4) (opG (opAt 49) X s) := rfl
set_option maxHeartbeats 20000 in
theorem blk_op_50 (n : BitVec 64) (ca cb cc cd : W) (X : Array W) (z1 z2 z3 z4 : W) (s : S) :
    md5_mix_blk55 (packT (n, ca, cb, cc, cd, X, z1, z2, z3, z4) s) = packT (n, ca, cb, cc, cd, X, z1, z2, z3, z4) (opG (opAt 50) X s) := rfl
set_option maxHeartbeats 20000 in
theorem blk_op_51 (n : BitVec 64) (ca cb cc cd : W) (X : Array W) (z1 z2 z3 z4 : W) (s : S) :
    md5_mix_blk56 (packT (n, ca, cb, cc, cd, X, z1, z2, z3, z4) s) = packT (n, ca, cb, cc, cd, X, z1, z2, z3, z4) (opG (opAt 51) X s) := rfl
set_option maxHeartbeats 20000 in
theorem blk_op_52 (n : BitVec 64) (ca cb cc cd : W) (X : Array W) (z1 z2 z3 z4 : W) (s : S) :
    md5_mix_blk57 (packT (n, ca, cb, cc, cd, X, z1, z2, z3, z4) s) = packT (n, ca, cb, cc, cd, X, z1, z2, z3, z4) (opG (opAt 52) X s) := rfl
set_option maxHeartbeats 20000 in
theorem blk_op_53 (n : BitVec 64) (ca cb cc cd : W) (X : Array W) (z1 z2 z3 z4 : W) (s : S) :
    md5_mix_blk58 (packT (n, ca, cb, cc, cd, X, z1, z2, z3, z4) s) = packT (n, ca, cb, cc, cd, X, z1, z2, z3, z4) (opG (opAt 53) X s) := rfl
set_option maxHeartbeats 20000 in
theorem blk_op_54 (n : BitVec 64) (ca cb cc cd : W) (X : Array W) (z1 z2 z3 z4 : W) (s : S) :
    md5_mix_blk59 (packT (n, ca, cb, cc, cd, X, z1, z2, z3, z4) s) = packT (n, ca, cb, cc, cd, X, z1, z2, z3, z4) (opG (opAt 54) X s) := rfl
set_option maxHeartbeats 20000 in
theorem blk_op_55 (n : BitVec 64) (ca cb cc cd : W) (X : Array W) (z1 z2 z3 z4 : W) (s : S) :
    md5_mix_blk60 (packT (n, ca, cb, cc, cd, X, z1, z2, z3, z4) s) = packT (n, ca, cb, cc, cd, X, z1, z2, z3, z4) (opG (opAt 55) X s) := rfl
set_option maxHeartbeats 20000 in
theorem blk_op_56 (n : BitVec 64) (ca cb cc cd : W) (X : Array W) (z1 z2 z3 z4 : W) (s : S) :
    md5_mix_blk61 (packT (n, ca, cb, cc, cd, X, z1, z2, z3, z4) s) = packT (n, ca, cb, cc, cd, X, z1, z2, z3, z4) (opG (opAt 56) X s) := rfl
set_option maxHeartbeats 20000 in
theorem blk_op_57 (n : BitVec 64) (ca cb cc cd : W) (X : Array W) (z1 z2 z3 z4 : W) (s : S) :
    md5_mix_blk62 (packT (n, ca, cb, cc, cd, X, z1, z2, z3, z4) s) = packT (n, ca, cb, cc, cd, X, z1, z2, z3, z4) (opG (opAt 57) X s) := rfl
set_option maxHeartbeats 20000 in
theorem blk_op_58 (n : BitVec 64) (ca cb cc cd : W) (X : Array W) (z1 z2 z3 z4 : W) (s : S) :
    md5_mix_blk63 (packT (n, ca, cb, cc, cd, X, z1, z2, z3, z4) s) = packT (n, ca, cb, cc, cd, X, z1, z2, z3, z4) (opG (opAt 58) X s) := rfl
set_option maxHeartbeats 20000 in
theorem blk_op_59 (n : BitVec 64) (ca cb cc cd : W) (X : Array W) (z1 z2 z3 z4 : W) (s : S) :
    md5_mix_blk64 (packT (n, ca, cb, cc, cd, X, z1, z2, z3, z4) s) = packT (n, ca, cb, cc, cd, X, z1, z2, z3, z4) (opG (opAt 59) X s) := rfl
set_option maxHeartbeats 20000 in
theorem blk_op_60 (n : BitVec 64) (ca cb cc cd : W) (X : Array W) (z1 z2 z3 z4 : W) (s : S) :
    md5_mix_blk65 (packT (n, ca, cb, cc, cd, X, z1, z2, z3, z4) s) = packT (n, ca, cb, cc, cd, X, z1, z2, z3, z4) (opG (opAt 60) X s) := rfl
set_option maxHeartbeats 20000 in
theorem blk_op_61 (n : BitVec 64) (ca cb cc cd : W) (X : Array W) (z1 z2 z3 z4 : W) (s : S) :
    md5_mix_blk66 (packT (n, ca, cb, cc, cd, X, z1, z2, z3, z4) s) = packT (n, ca, cb, cc, cd, X, z1, z2, z3, z4) (opG (opAt 61) X s) := rfl
set_option maxHeartbeats 20000 in
theorem blk_op_62 (n : BitVec 64) (ca cb cc cd : W) (X : Array W) (z1 z2 z3 z4 : W) (s : S) :
    md5_mix_blk67 (packT (n, ca, cb, cc, cd, X, z1, z2, z3, z4) s) = packT (n, ca, cb, cc, cd, X, z1, z2, z3, z4) (opG (opAt 62) X s) := rfl
set_option maxHeartbeats 20000 in
theorem blk_op_63 (n : BitVec 64) (ca cb cc cd : W) (X : Array W) (z1 z2 z3 z4 : W) (s : S) :
    md5_mix_blk68 (packT (n, ca, cb, cc, cd, X, z1, z2, z3, z4) s) = packT (n, ca, cb, cc, cd, X, z1, z2, z3, z4) (opG (opAt 63) X s) := rfl

/-- the four loads `a = ctx->a; … d = ctx->d;` -/
theorem blk_load (ctx : md5_ctx) (X : Array W) (z1 z2 z3 z4 : W) :
    md5_mix_blk4 (md5_mix_blk3 (md5_mix_blk2 (md5_mix_blk1 (ctx.nbytes, ctx.a, ctx.b, ctx.c, ctx.d, X, z1, z2, z3, z4)))) =
    packT (ctx.nbytes, ctx.a, ctx.b, ctx.c, ctx.d, X, z1, z2, z3, z4) (startG ctx) := rfl

/-- the four stores `ctx->a += a; … ctx->d += d;` -/
theorem blk_store (n : BitVec 64) (ca cb cc cd : W) (X : Array W) (z1 z2 z3 z4 : W) (s : S) :
    md5_mix_blk72 (md5_mix_blk71 (md5_mix_blk70 (md5_mix_blk69 (packT (n, ca, cb, cc, cd, X, z1, z2, z3, z4) s)))) =
    (n, ca + s.a, cb + s.b, cc + s.c, cd + s.d, X, s.a, s.b, s.c, s.d) := rfl

set_option maxHeartbeats 2000000 in
/-- the generated `md5_mix`, folded (every step a rewrite with one of the lemmas above, so that a
wrong step fails at once and the kernel never has to unfold the chain) -/
theorem mix_eq_ops (ctx : md5_ctx) (X : Array W) :
    md5_mix ctx X = finishG ctx ((List.range 64).foldl (fun s i => opG (opAt i) X s) (startG ctx)) := by
  unfold md5_mix
  show (let r := (md5_mix_blk72 (md5_mix_blk71 (md5_mix_blk70 (md5_mix_blk69 (md5_mix_blk68 (md5_mix_blk67 (md5_mix_blk66 (md5_mix_blk65 (md5_mix_blk64 (md5_mix_blk63 (md5_mix_blk62 (md5_mix_blk61 (md5_mix_blk60 (md5_mix_blk59 (md5_mix_blk58 (md5_mix_blk57 (md5_mix_blk56 (md5_mix_blk55 (md5_mix_blk54 (md5_mix_blk53 (md5_mix_blk52 (md5_mix_blk51 (md5_mix_blk50 (md5_mix_blk49 (md5_mix_blk48 (md5_mix_blk47 (md5_mix_blk46 (md5_mix_blk45 (md5_mix_blk44 (md5_mix_blk43 (md5_mix_blk42 (md5_mix_blk41 (md5_mix_blk40 (md5_mix_blk39 (md5_mix_blk38 (md5_mix_blk37 (md5_mix_blk36 (md5_mix_blk35 (md5_mix_blk34 (md5_mix_blk33 (md5_mix_blk32 (md5_mix_blk31 (md5_mix_blk30 (md5_mix_blk29 (md5_mix_blk28 (md5_mix_blk27 (md5_mix_blk26 (md5_mix_blk25 (md5_mix_blk24 (md5_mix_blk23 (md5_mix_blk22 (md5_mix_blk21 (md5_mix_blk20 (md5_mix_blk19 (md5_mix_blk18 (md5_mix_blk17 (md5_mix_blk16 (md5_mix_blk15 (md5_mix_blk14 (md5_mix_blk13 (md5_mix_blk12 (md5_mix_blk11 (md5_mix_blk10 (md5_mix_blk9 (md5_mix_blk8 (md5_mix_blk7 (md5_mix_blk6 (md5_mix_blk5 (md5_mix_blk4 (md5_mix_blk3 (md5_mix_blk2 (md5_mix_blk1 (ctx.nbytes, ctx.a, ctx.b, ctx.c, ctx.d, X, 0#32, 0#32, 0#32, 0#32)))))))))))))))))))))))))))))))))))))))))))))))))))))))))))))))))))))))))
        (({ nbytes := r.1, a := r.2.1, b := r.2.2.1, c := r.2.2.2.1, d := r.2.2.2.2.1 } : md5_ctx))) = _
  rw [blk_load, blk_op_0, blk_op_1, blk_op_2, blk_op_3, blk_op_4, blk_op_5, blk_op_6, blk_op_7, blk_op_8, blk_op_9, blk_op_10, blk_op_11, blk_op_12, blk_op_13, blk_op_14, blk_op_15, blk_op_16, blk_op_17, blk_op_18, blk_op_19, blk_op_20, blk_op_21, blk_op_22, blk_op_23, blk_op_24, blk_op_25, blk_op_26, blk_op_27, blk_op_28, blk_op_29, blk_op_30, blk_op_31, blk_op_32, blk_op_33, blk_op_34, blk_op_35, blk_op_36, blk_op_37, blk_op_38, blk_op_39, blk_op_40, blk_op_41, blk_op_42, blk_op_43, blk_op_44, blk_op_45, blk_op_46, blk_op_47, blk_op_48, blk_op_49, blk_op_50, blk_op_51, blk_op_52, blk_op_53, blk_op_54, blk_op_55, blk_op_56, blk_op_57, blk_op_58, blk_op_59, blk_op_60, blk_op_61, blk_op_62, blk_op_63, blk_store]
  simp only [List.range, List.range.loop, List.foldl, finishG]

end UsualProofs.Bridge.C05TMd5
