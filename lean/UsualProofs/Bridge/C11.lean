import Std.Tactic.BVDecide
import Usual.Gen.C11
import Usual.C11.Utf8
import UsualProofs.Props.C11
/-!
# C11 bridge: what `usual/utf8.c` says today = the hand model

`Usual.Gen.C11.*` is regenerated from the C source by `extract/c2lean.py` on every run of the
check; these lemmas are re-checked against it.  They are the only place where `bv_decide` is
used for C11 (each use adds one `…_native.bv_decide.ax_*` axiom, reported by the audit): the
property theorems in `UsualProofs/Props/C11.lean` talk about the model only and are
kernel-checked without it.

The byte variables are `generalize`d to `b0 … b3`/`c` before `bv_decide` runs, so that — when the
C source was changed and a lemma is false — the counterexample printed by `bv_decide` names the
bytes of a concrete window (`checks/C11.py` parses it and replays it on the real code).
-/
namespace UsualProofs.Bridge.C11
open Usual.C11

theorem bridge_seq_size (b : BitVec 8) : Usual.Gen.C11.utf8_seq_size b = seqSize b := by
  unfold Usual.Gen.C11.utf8_seq_size seqSize
  bv_decide

theorem bridge_char_size (c : BitVec 32) : Usual.Gen.C11.utf8_char_size c = charSize c := by
  unfold Usual.Gen.C11.utf8_char_size charSize
  bv_decide

/-- the three comparisons of `avail` that occur in the code, as Boolean atoms
(`bv_decide` treats them as free variables; no relation between them is needed) -/
theorem avail_atoms (avail : Nat) : ∃ a1 a2 a3 : Bool,
    (avail ≤ 1) = (a1 = true) ∧ (avail ≤ 2) = (a2 = true) ∧ (avail ≤ 3) = (a3 = true) :=
  ⟨decide (avail ≤ 1), decide (avail ≤ 2), decide (avail ≤ 3), by simp, by simp, by simp⟩

theorem bridge_validate_seq (rd : Nat → BitVec 8) (avail : Nat) :
    Usual.Gen.C11.utf8_validate_seq rd avail = validateSeq rd avail := by
  unfold Usual.Gen.C11.utf8_validate_seq validateSeq validateSeqW isTail
  simp only [Nat.zero_add, BitVec.toNat_ofNat, Nat.reducePow, Nat.reduceMod]
  generalize rd 0 = b0; generalize rd 1 = b1; generalize rd 2 = b2; generalize rd 3 = b3
  simp only [gt_iff_lt, Nat.lt_succ_iff]
  obtain ⟨a1, a2, a3, ha1, ha2, ha3⟩ := avail_atoms avail
  simp only [ha1, ha2, ha3, Bool.decide_eq_true]
  clear ha1 ha2 ha3
  bv_decide

theorem nat_eq_of_bv {a b : Nat} (ha : a < 256) (hb : b < 256)
    (h : BitVec.ofNat 8 a = BitVec.ofNat 8 b) : a = b := by
  have := congrArg BitVec.toNat h
  simp only [BitVec.toNat_ofNat] at this
  omega

/-- returned `int` of `utf8_get_char` -/
theorem bridge_get_char_ret (rd : Nat → BitVec 8) (avail : Nat) :
    (Usual.Gen.C11.utf8_get_char rd avail).1 = (getChar rd avail).1 := by
  unfold Usual.Gen.C11.utf8_get_char getChar getCharW
  simp only [UsualProofs.C11.bad_eq]
  unfold dec2 dec3 dec4 isTail z
  simp only [Nat.zero_add, BitVec.toNat_ofNat, Nat.reducePow, Nat.reduceMod, apply_ite Prod.fst]
  generalize rd 0 = b0; generalize rd 1 = b1; generalize rd 2 = b2; generalize rd 3 = b3
  simp only [gt_iff_lt, Nat.lt_succ_iff]
  obtain ⟨a1, a2, a3, ha1, ha2, ha3⟩ := avail_atoms avail
  simp only [ha1, ha2, ha3, Bool.decide_eq_true]
  clear ha1 ha2 ha3
  bv_decide

/-- number of bytes `utf8_get_char` advances `*src_p` -/
theorem bridge_get_char_adv (rd : Nat → BitVec 8) (avail : Nat) :
    (Usual.Gen.C11.utf8_get_char rd avail).2 = (getChar rd avail).2 := by
  unfold Usual.Gen.C11.utf8_get_char getChar getCharW
  simp only [UsualProofs.C11.bad_eq]
  unfold dec2 dec3 dec4 isTail z
  simp only [Nat.zero_add, BitVec.toNat_ofNat, Nat.reducePow, Nat.reduceMod, apply_ite Prod.snd]
  generalize rd 0 = b0; generalize rd 1 = b1; generalize rd 2 = b2; generalize rd 3 = b3
  simp only [gt_iff_lt, Nat.lt_succ_iff]
  obtain ⟨a1, a2, a3, ha1, ha2, ha3⟩ := avail_atoms avail
  simp only [ha1, ha2, ha3, Bool.decide_eq_true]
  clear ha1 ha2 ha3
  apply nat_eq_of_bv
  · repeat' split
    all_goals decide
  · repeat' split
    all_goals decide
  · simp only [apply_ite (BitVec.ofNat 8)]
    bv_decide

theorem bridge_get_char (rd : Nat → BitVec 8) (avail : Nat) :
    Usual.Gen.C11.utf8_get_char rd avail = getChar rd avail :=
  Prod.ext (bridge_get_char_ret rd avail) (bridge_get_char_adv rd avail)

/-- `utf8_put_char`: (return value, advance of `*dst_p`, bytes stored).  Source and model
branch on the same conditions, so both sides are split together and `bv_decide` compares the
stored bytes leaf by leaf. -/
theorem bridge_put_char (room : Nat) (c : BitVec 32) :
    Usual.Gen.C11.utf8_put_char room c = putChar room c := by
  unfold Usual.Gen.C11.utf8_put_char putChar lo8
  simp only [Nat.zero_add, BitVec.toNat_ofNat, Nat.reducePow, Nat.reduceMod, List.nil_append,
    List.cons_append, gt_iff_lt, Nat.lt_succ_iff, decide_eq_true_eq, BitVec.ult_iff_lt,
    BitVec.ule_iff_le, Bool.or_eq_true]
  repeat' split
  all_goals simp only [Prod.mk.injEq, List.cons.injEq, and_true, true_and, Nat.reduceAdd]
  all_goals bv_decide

/-! ## the headline statements, transported to the definitions generated from the C source -/

open Usual.Gen.C11 in
/-- `utf8_validate_seq` *as translated from utf8.c* returns `n ≠ 0` iff the `n` bytes at the
pointer lie before `end`, are one row of Table 3-7 and are not NUL. -/
theorem gen_validate_seq_accepts_iff (rd : Nat → BitVec 8) (avail n : Nat) (ha : 1 ≤ avail)
    (hn : n ≠ 0) :
    (utf8_validate_seq rd avail).toNat = n ↔ n ≤ avail ∧ WF (window rd n) ∧ window rd n ≠ [0#8] := by
  rw [bridge_validate_seq]; exact UsualProps.C11.validateSeq_accepts_iff rd avail n ha hn

open Usual.Gen.C11 in
theorem gen_get_char_wellformed (rd : Nat → BitVec 8) (avail n : Nat) (hn : n ≤ avail)
    (h : WF (window rd n)) :
    utf8_get_char rd avail = (BitVec.ofNat 32 (decode (window rd n)), n) := by
  rw [bridge_get_char]; exact UsualProps.C11.getChar_wellformed rd avail n hn h

open Usual.Gen.C11 in
theorem gen_get_char_illformed (rd : Nat → BitVec 8) (avail : Nat) (ha : 1 ≤ avail)
    (h : ∀ n, n ≤ avail → ¬ WF (window rd n)) :
    (utf8_get_char rd avail).1.toInt = -((rd 0).toNat : Int) ∧ (utf8_get_char rd avail).2 = 1 := by
  rw [bridge_get_char]; exact (UsualProps.C11.getChar_illformed rd avail ha h).2

open Usual.Gen.C11 in
theorem gen_get_char_frame (rd1 rd2 : Nat → BitVec 8) (avail : Nat) (ha : 1 ≤ avail)
    (h : ∀ i, i < avail → rd1 i = rd2 i) : utf8_get_char rd1 avail = utf8_get_char rd2 avail := by
  rw [bridge_get_char, bridge_get_char]; exact UsualProps.C11.getChar_frame rd1 rd2 avail ha h

open Usual.Gen.C11 in
theorem gen_validate_seq_frame (rd1 rd2 : Nat → BitVec 8) (avail : Nat) (ha : 1 ≤ avail)
    (h : ∀ i, i < avail → rd1 i = rd2 i) :
    utf8_validate_seq rd1 avail = utf8_validate_seq rd2 avail := by
  rw [bridge_validate_seq, bridge_validate_seq]
  exact UsualProps.C11.validateSeq_frame rd1 rd2 avail ha h

open Usual.Gen.C11 in
/-- put-then-get on the translated functions is the identity on scalar values -/
theorem gen_put_get_roundtrip (room : Nat) (c : BitVec 32) (hs : isScalar c.toNat)
    (hr : encLen c.toNat ≤ room) :
    utf8_get_char (rdOf (utf8_put_char room c).2.2) (utf8_put_char room c).2.2.length
      = (c, (utf8_put_char room c).2.1) := by
  rw [bridge_put_char, bridge_get_char]
  exact UsualProps.C11.put_get_roundtrip_exact room c hs hr

open Usual.Gen.C11 in
theorem gen_put_char_respects_room (room : Nat) (c : BitVec 32) :
    (utf8_put_char room c).2.1 = (utf8_put_char room c).2.2.length ∧
    (utf8_put_char room c).2.2.length ≤ room := by
  rw [bridge_put_char]; exact UsualProps.C11.putChar_respects_room room c

open Usual.Gen.C11 in
theorem gen_seq_size_agrees (rd : Nat → BitVec 8) (avail : Nat)
    (h : utf8_validate_seq rd avail ≠ 0#32) : utf8_seq_size (rd 0) = utf8_validate_seq rd avail := by
  rw [bridge_validate_seq] at h ⊢; rw [bridge_seq_size]
  exact UsualProps.C11.seqSize_agrees rd avail h

end UsualProofs.Bridge.C11
