import Std.Tactic.BVDecide
import Usual.Gen.C05T
import Usual.C05.ChaCha
/-!
# C05 translation tie, ChaCha: `chacha_mix` of usual/crypto/chacha.c = the model's block function

`Usual.Gen.C05T.*` is regenerated on every run of `checks/C05.py`: `struct ChaCha` (the `state`
words, the `output32` view of the output union, `pos`), `rol32` of usual/bits.h, and `chacha_mix` —
the first column round from `state` into the local `x[16]`, the nine-times loop of a diagonal and a
column round (kept as a loop: `fuel` first), the last diagonal round interleaved with the `OUTPUT`
stores, `pos = 0` and the 64-bit counter increment.  Word arrays are Lean `Array (BitVec 32)`
(every index is a constant the translator checks against the declared size).

* `qr_a_b_c_d` (eight index tuples): the eight in-place stores of one `QUARTERROUND` = the model's
  `qr` (rotation counts come from the regenerated table `chachaRot`); four `bv_decide` facts
  identify the translated `rol32` with the model's at 16, 12, 8, 7;
* `loop_step`, `loop_exit`, `mix_start`: the three straight-line pieces, by evaluation on sixteen
  named words; `loop_all`: the loop for every fuel above the remaining rounds;
* `bridge_chacha_mix`: for every context whose input words are `input` and every fuel ≥ 10 the
  function returns, `u.output32` holds the words whose little-endian bytes are
  `Usual.C05.ChaCha.block input` (10 double rounds + input, the function `chacha_keystream_chunking`
  &c are about), `pos = 0`, and words 12/13 are the incremented 64-bit counter (the model's `mix`).
-/
set_option linter.unusedSimpArgs false
set_option linter.unusedVariables false
namespace UsualProofs.Bridge.C05T
open Usual.C05.ChaCha Usual.C05.MD Usual.Gen.C05 Usual.Gen.C05T

abbrev W := BitVec 32

/-- QUARTERROUND(x, x, a, b, c, d) as the generated code performs it (eight stores in place) -/
def qrG (x : Array W) (a b c d : Nat) : Array W :=
  let x1 := x.setIfInBounds a ((x.getD a 0#32) + (x.getD b 0#32))
  let x2 := x1.setIfInBounds d (Usual.Gen.C05T.rol32 ((x1.getD d 0#32) ^^^ (x1.getD a 0#32)) (16#32))
  let x3 := x2.setIfInBounds c ((x2.getD c 0#32) + (x2.getD d 0#32))
  let x4 := x3.setIfInBounds b (Usual.Gen.C05T.rol32 ((x3.getD b 0#32) ^^^ (x3.getD c 0#32)) (12#32))
  let x5 := x4.setIfInBounds a ((x4.getD a 0#32) + (x4.getD b 0#32))
  let x6 := x5.setIfInBounds d (Usual.Gen.C05T.rol32 ((x5.getD d 0#32) ^^^ (x5.getD a 0#32)) (8#32))
  let x7 := x6.setIfInBounds c ((x6.getD c 0#32) + (x6.getD d 0#32))
  x7.setIfInBounds b (Usual.Gen.C05T.rol32 ((x7.getD b 0#32) ^^^ (x7.getD c 0#32)) (7#32))

theorem rol_16 (v : UInt32) : (Usual.C05.MD.rol32 v 16).toBitVec = Usual.Gen.C05T.rol32 v.toBitVec (16#32) := by
  unfold Usual.Gen.C05T.rol32 Usual.C05.MD.rol32; bv_decide
theorem rol_12 (v : UInt32) : (Usual.C05.MD.rol32 v 12).toBitVec = Usual.Gen.C05T.rol32 v.toBitVec (12#32) := by
  unfold Usual.Gen.C05T.rol32 Usual.C05.MD.rol32; bv_decide
theorem rol_8 (v : UInt32) : (Usual.C05.MD.rol32 v 8).toBitVec = Usual.Gen.C05T.rol32 v.toBitVec (8#32) := by
  unfold Usual.Gen.C05T.rol32 Usual.C05.MD.rol32; bv_decide
theorem rol_7 (v : UInt32) : (Usual.C05.MD.rol32 v 7).toBitVec = Usual.Gen.C05T.rol32 v.toBitVec (7#32) := by
  unfold Usual.Gen.C05T.rol32 Usual.C05.MD.rol32; bv_decide

theorem size16 {α : Type} (x : Array α) (h : x.size = 16) : ∃ a0 a1 a2 a3 a4 a5 a6 a7 a8 a9 a10 a11 a12 a13 a14 a15,
    x = #[a0, a1, a2, a3, a4, a5, a6, a7, a8, a9, a10, a11, a12, a13, a14, a15] := by
  rcases x with ⟨l⟩
  simp only [List.size_toArray] at h
  match l, h with
  | [a0, a1, a2, a3, a4, a5, a6, a7, a8, a9, a10, a11, a12, a13, a14, a15], _ =>
    exact ⟨a0, a1, a2, a3, a4, a5, a6, a7, a8, a9, a10, a11, a12, a13, a14, a15, rfl⟩

/-- the model's words as the generated code sees them -/
def toG (x : Array UInt32) : Array W := x.map UInt32.toBitVec

theorem qr_0_4_8_12 (x : Array UInt32) (h : x.size = 16) :
    qrG (toG x) 0 4 8 12 = toG (qr x 0 4 8 12) := by
  obtain ⟨a0, a1, a2, a3, a4, a5, a6, a7, a8, a9, a10, a11, a12, a13, a14, a15, rfl⟩ := size16 x h
  simp [toG, qrG, qr, chachaRot, rol_16, rol_12, rol_8, rol_7]

theorem qr_1_5_9_13 (x : Array UInt32) (h : x.size = 16) :
    qrG (toG x) 1 5 9 13 = toG (qr x 1 5 9 13) := by
  obtain ⟨a0, a1, a2, a3, a4, a5, a6, a7, a8, a9, a10, a11, a12, a13, a14, a15, rfl⟩ := size16 x h
  simp [toG, qrG, qr, chachaRot, rol_16, rol_12, rol_8, rol_7]

theorem qr_2_6_10_14 (x : Array UInt32) (h : x.size = 16) :
    qrG (toG x) 2 6 10 14 = toG (qr x 2 6 10 14) := by
  obtain ⟨a0, a1, a2, a3, a4, a5, a6, a7, a8, a9, a10, a11, a12, a13, a14, a15, rfl⟩ := size16 x h
  simp [toG, qrG, qr, chachaRot, rol_16, rol_12, rol_8, rol_7]

theorem qr_3_7_11_15 (x : Array UInt32) (h : x.size = 16) :
    qrG (toG x) 3 7 11 15 = toG (qr x 3 7 11 15) := by
  obtain ⟨a0, a1, a2, a3, a4, a5, a6, a7, a8, a9, a10, a11, a12, a13, a14, a15, rfl⟩ := size16 x h
  simp [toG, qrG, qr, chachaRot, rol_16, rol_12, rol_8, rol_7]

theorem qr_0_5_10_15 (x : Array UInt32) (h : x.size = 16) :
    qrG (toG x) 0 5 10 15 = toG (qr x 0 5 10 15) := by
  obtain ⟨a0, a1, a2, a3, a4, a5, a6, a7, a8, a9, a10, a11, a12, a13, a14, a15, rfl⟩ := size16 x h
  simp [toG, qrG, qr, chachaRot, rol_16, rol_12, rol_8, rol_7]

theorem qr_1_6_11_12 (x : Array UInt32) (h : x.size = 16) :
    qrG (toG x) 1 6 11 12 = toG (qr x 1 6 11 12) := by
  obtain ⟨a0, a1, a2, a3, a4, a5, a6, a7, a8, a9, a10, a11, a12, a13, a14, a15, rfl⟩ := size16 x h
  simp [toG, qrG, qr, chachaRot, rol_16, rol_12, rol_8, rol_7]

theorem qr_2_7_8_13 (x : Array UInt32) (h : x.size = 16) :
    qrG (toG x) 2 7 8 13 = toG (qr x 2 7 8 13) := by
  obtain ⟨a0, a1, a2, a3, a4, a5, a6, a7, a8, a9, a10, a11, a12, a13, a14, a15, rfl⟩ := size16 x h
  simp [toG, qrG, qr, chachaRot, rol_16, rol_12, rol_8, rol_7]

theorem qr_3_4_9_14 (x : Array UInt32) (h : x.size = 16) :
    qrG (toG x) 3 4 9 14 = toG (qr x 3 4 9 14) := by
  obtain ⟨a0, a1, a2, a3, a4, a5, a6, a7, a8, a9, a10, a11, a12, a13, a14, a15, rfl⟩ := size16 x h
  simp [toG, qrG, qr, chachaRot, rol_16, rol_12, rol_8, rol_7]

theorem qr_size (x : Array UInt32) (a b c d : Nat) : (qr x a b c d).size = x.size := by
  simp [qr]

def colG (x : Array W) : Array W := qrG (qrG (qrG (qrG x 0 4 8 12) 1 5 9 13) 2 6 10 14) 3 7 11 15
def diagG (x : Array W) : Array W := qrG (qrG (qrG (qrG x 0 5 10 15) 1 6 11 12) 2 7 8 13) 3 4 9 14

/-- model side: column round, diagonal round -/
def colM (x : Array UInt32) : Array UInt32 := qr (qr (qr (qr x 0 4 8 12) 1 5 9 13) 2 6 10 14) 3 7 11 15
def diagM (x : Array UInt32) : Array UInt32 := qr (qr (qr (qr x 0 5 10 15) 1 6 11 12) 2 7 8 13) 3 4 9 14

theorem colM_size (x : Array UInt32) : (colM x).size = x.size := by simp [colM, qr_size]
theorem diagM_size (x : Array UInt32) : (diagM x).size = x.size := by simp [diagM, qr_size]

theorem col_eq (x : Array UInt32) (h : x.size = 16) : colG (toG x) = toG (colM x) := by
  unfold colG colM
  rw [qr_0_4_8_12 x h, qr_1_5_9_13 _ (by simp [qr_size, h]), qr_2_6_10_14 _ (by simp [qr_size, h]),
    qr_3_7_11_15 _ (by simp [qr_size, h])]

theorem diag_eq (x : Array UInt32) (h : x.size = 16) : diagG (toG x) = toG (diagM x) := by
  unfold diagG diagM
  rw [qr_0_5_10_15 x h, qr_1_6_11_12 _ (by simp [qr_size, h]), qr_2_7_8_13 _ (by simp [qr_size, h]),
    qr_3_4_9_14 _ (by simp [qr_size, h])]

theorem doubleRound_eq (x : Array UInt32) : doubleRound x = diagM (colM x) := rfl


/-- one iteration of the generated loop: diagonal round, then column round -/
theorem loop_step (F n : Nat) (st out : Array W) (pos i : W) (x : Array W) (hx : x.size = 16)
    (h : BitVec.slt i (((20#32) / (2#32)) - (1#32)) = true) :
    chacha_mix_loop1 F (n + 1) st out pos i x = chacha_mix_loop1 F n st out pos (i + 1#32) (colG (diagG x)) := by
  rw [chacha_mix_loop1, if_pos h]
  obtain ⟨x0, x1, x2, x3, x4, x5, x6, x7, x8, x9, x10, x11, x12, x13, x14, x15, rfl⟩ := size16 x hx
  simp [colG, diagG, qrG]

/-- what the function leaves in the context: output words `y[i] + st[i]`, `pos = 0`, 64-bit counter + 1 -/
def finish (st y : Array W) : ChaCha :=
  let st1 := st.setIfInBounds 12 ((st.getD 12 0#32) + 1#32)
  { state := if ((st1.getD 12 0#32) == 0#32) then st1.setIfInBounds 13 ((st1.getD 13 0#32) + 1#32) else st1,
    u_output32 := Array.zipWith (· + ·) y st,
    pos := 0#32 }

/-- leaving the loop: last diagonal round, output, counter -/
theorem loop_exit (F n : Nat) (st out : Array W) (pos i : W) (x : Array W)
    (h : ¬ BitVec.slt i (((20#32) / (2#32)) - (1#32)) = true)
    (hst : st.size = 16) (hout : out.size = 16) (hx : x.size = 16) :
    chacha_mix_loop1 F (n + 1) st out pos i x = some (finish st (diagG x)) := by
  rw [chacha_mix_loop1, if_neg h]
  obtain ⟨s0, s1, s2, s3, s4, s5, s6, s7, s8, s9, s10, s11, s12, s13, s14, s15, rfl⟩ := size16 st hst
  obtain ⟨o0, o1, o2, o3, o4, o5, o6, o7, o8, o9, o10, o11, o12, o13, o14, o15, rfl⟩ := size16 out hout
  obtain ⟨x0, x1, x2, x3, x4, x5, x6, x7, x8, x9, x10, x11, x12, x13, x14, x15, rfl⟩ := size16 x hx
  simp only [finish, diagG, qrG]
  by_cases hc : (s12 + 1#32 == 0#32) = true <;> simp [hc]

theorem qrG_size (x : Array W) (a b c d : Nat) : (qrG x a b c d).size = x.size := by simp [qrG]
theorem colG_size (x : Array W) : (colG x).size = x.size := by simp [colG, qrG_size]
theorem diagG_size (x : Array W) : (diagG x).size = x.size := by simp [diagG, qrG_size]

theorem replicate16 (v : W) : Array.replicate 16 v = #[v, v, v, v, v, v, v, v, v, v, v, v, v, v, v, v] := rfl

/-- the straight-line part before the loop: first column round from `state` into the local `x` -/
theorem mix_start (fuel : Nat) (ctx : ChaCha) (hst : ctx.state.size = 16) :
    chacha_mix fuel ctx = chacha_mix_loop1 fuel fuel ctx.state ctx.u_output32 ctx.pos 0#32 (colG ctx.state) := by
  rcases ctx with ⟨st, out, pos⟩
  simp only at hst
  obtain ⟨s0, s1, s2, s3, s4, s5, s6, s7, s8, s9, s10, s11, s12, s13, s14, s15, rfl⟩ := size16 st hst
  unfold chacha_mix
  simp [colG, qrG, replicate16]

def iter {α : Type} (f : α → α) : Nat → α → α
  | 0, a => a
  | n + 1, a => iter f n (f a)

theorem slt_nine (k : Nat) (hk : k ≤ 9) :
    BitVec.slt (BitVec.ofNat 32 k) (((20#32) / (2#32)) - (1#32)) = decide (k < 9) := by
  match k, hk with
  | 0, _ => decide
  | 1, _ => decide
  | 2, _ => decide
  | 3, _ => decide
  | 4, _ => decide
  | 5, _ => decide
  | 6, _ => decide
  | 7, _ => decide
  | 8, _ => decide
  | 9, _ => decide

theorem loop_all (F : Nat) (st out : Array W) (pos : W) (hst : st.size = 16) (hout : out.size = 16) :
    ∀ (n k : Nat) (x : Array W), k ≤ 9 → 9 - k < n → x.size = 16 →
      chacha_mix_loop1 F n st out pos (BitVec.ofNat 32 k) x =
        some (finish st (diagG (iter (fun y => colG (diagG y)) (9 - k) x))) := by
  intro n
  induction n with
  | zero => intro k x _ h; omega
  | succ n ih =>
    intro k x hk hn hx
    by_cases h9 : k < 9
    · rw [loop_step F n st out pos _ x hx (by rw [slt_nine k hk]; simpa using h9)]
      have e : BitVec.ofNat 32 k + 1#32 = BitVec.ofNat 32 (k + 1) := by
        apply BitVec.eq_of_toNat_eq; simp
      rw [e, ih (k + 1) _ (by omega) (by omega) (by rw [colG_size, diagG_size, hx])]
      have : 9 - k = (9 - (k + 1)) + 1 := by omega
      rw [this]; rfl
    · have : k = 9 := by omega
      subst this
      rw [loop_exit F n st out pos _ x (by rw [slt_nine 9 hk]; simp) hst hout hx]
      rfl

/-! ## the model side -/

theorem toG_size (x : Array UInt32) : (toG x).size = x.size := by simp [toG]

theorem iter_comm {α : Type} (f g : α → α) : ∀ (n : Nat) (y : α),
    g (iter (fun z => f (g z)) n (f y)) = iter (fun z => g (f z)) (n + 1) y := by
  intro n
  induction n with
  | zero => intro y; rfl
  | succ n ih => intro y; exact ih (g (f y))

theorem iter_toG : ∀ (n : Nat) (x : Array UInt32), x.size = 16 →
    iter (fun z => diagG (colG z)) n (toG x) = toG (iter (fun z => diagM (colM z)) n x) := by
  intro n
  induction n with
  | zero => intro x _; rfl
  | succ n ih =>
    intro x hx
    show iter _ n (diagG (colG (toG x))) = toG (iter _ n (diagM (colM x)))
    rw [col_eq x hx, diag_eq _ (by rw [colM_size, hx]), ih _ (by rw [diagM_size, colM_size, hx])]

theorem foldl_iter {α β : Type} (f : α → α) : ∀ (l : List β) (a : α),
    l.foldl (fun x _ => f x) a = iter f l.length a := by
  intro l
  induction l with
  | nil => intro a; rfl
  | cons _ t ih => intro a; exact ih (f a)

theorem iterM_size : ∀ (n : Nat) (x : Array UInt32), (iter (fun z => diagM (colM z)) n x).size = x.size := by
  intro n
  induction n with
  | zero => intro x; rfl
  | succ n ih => intro x; show (iter _ n (diagM (colM x))).size = _; rw [ih, diagM_size, colM_size]

/-- the words the model's `block` serialises -/
theorem block_eq (input : Array UInt32) :
    block input = (List.range 16).flatMap fun i =>
      bytesLE32 ((iter (fun z => diagM (colM z)) 10 input).getD i 0 + input.getD i 0) := by
  unfold block
  have : chachaRounds / 2 = 10 := by decide
  rw [this, foldl_iter]
  rfl

theorem out_bytes (y input : Array UInt32) (hy : y.size = 16) (hi : input.size = 16) :
    (Array.zipWith (· + ·) (toG y) (toG input)).toList.flatMap (fun w => bytesLE32 (UInt32.ofBitVec w)) =
      (List.range 16).flatMap fun i => bytesLE32 (y.getD i 0 + input.getD i 0) := by
  obtain ⟨y0, y1, y2, y3, y4, y5, y6, y7, y8, y9, y10, y11, y12, y13, y14, y15, rfl⟩ := size16 y hy
  obtain ⟨i0, i1, i2, i3, i4, i5, i6, i7, i8, i9, i10, i11, i12, i13, i14, i15, rfl⟩ := size16 input hi
  have hr : List.range 16 = [0, 1, 2, 3, 4, 5, 6, 7, 8, 9, 10, 11, 12, 13, 14, 15] := by decide
  rw [hr]
  simp [toG, ← UInt32.toBitVec_add]

/-- **`chacha_mix`** as clang reads it today, on a context whose sixteen input words are `input`:
it terminates (fuel ≥ 10), leaves in `u.output32` exactly the words whose little-endian bytes are
the model's `block input`, sets `pos = 0` and adds one to the 64-bit counter in words 12, 13 —
the model's `mix`. -/
theorem bridge_chacha_mix (ctx : ChaCha) (input : Array UInt32) (hin : input.size = 16)
    (hst : ctx.state = toG input) (hout : ctx.u_output32.size = 16) (fuel : Nat) (hf : 10 ≤ fuel) :
    ∃ r, chacha_mix fuel ctx = some r ∧ r.pos = 0#32 ∧
      r.u_output32.toList.flatMap (fun w => bytesLE32 (UInt32.ofBitVec w)) = block input ∧
      r.state = toG (let lo' := input.getD 12 0 + 1
                     (input.setIfInBounds 12 lo').setIfInBounds 13
                       (if lo' = 0 then input.getD 13 0 + 1 else input.getD 13 0)) := by
  have hsz : ctx.state.size = 16 := by rw [hst, toG_size, hin]
  rw [mix_start fuel ctx hsz]
  have := loop_all fuel ctx.state ctx.u_output32 ctx.pos hsz hout fuel 0 (colG ctx.state) (by omega) (by omega)
    (by rw [colG_size, hsz])
  rw [this]
  refine ⟨_, rfl, rfl, ?_, ?_⟩
  · show (Array.zipWith (· + ·) _ ctx.state).toList.flatMap _ = _
    rw [iter_comm colG diagG 9 ctx.state, hst, iter_toG 10 input hin, out_bytes _ _ (by rw [iterM_size, hin]) hin,
      block_eq]
  · show (if _ then _ else _) = _
    rw [hst]
    obtain ⟨i0, i1, i2, i3, i4, i5, i6, i7, i8, i9, i10, i11, i12, i13, i14, i15, rfl⟩ := size16 input hin
    by_cases hc : i12 + 1 = 0
    · have hc' : i12.toBitVec + 1#32 = 0#32 := by
        have := congrArg UInt32.toBitVec hc; simpa using this
      simp [toG, hc, hc']
    · have hc' : ¬ i12.toBitVec + 1#32 = 0#32 := by
        intro e; apply hc; apply UInt32.toBitVec_inj.mp; simpa using e
      simp [toG, hc, hc']


/-- the same, phrased with the model's context: for a context `c` with twelve key words,
`chacha_mix` on the sixteen words `inputWords c.key c.n0 c.n1 lo hi` produces the output block and
the counter of the model's `mix c.bf c.s` -/
theorem bridge_chacha_mix_ctx (g : ChaCha) (c : Ctx) (hk : c.key.length = 12)
    (hst : g.state = toG (inputWords c.key c.n0 c.n1 c.s.lo c.s.hi)) (hout : g.u_output32.size = 16)
    (fuel : Nat) (hf : 10 ≤ fuel) :
    ∃ r, chacha_mix fuel g = some r ∧ r.pos = 0#32 ∧
      r.u_output32.toList.flatMap (fun w => bytesLE32 (UInt32.ofBitVec w)) = (mix c.bf c.s).out ∧
      r.state = toG (inputWords c.key c.n0 c.n1 (mix c.bf c.s).lo (mix c.bf c.s).hi) := by
  obtain ⟨k0, k1, k2, k3, k4, k5, k6, k7, k8, k9, k10, k11, hkey⟩ :
      ∃ k0 k1 k2 k3 k4 k5 k6 k7 k8 k9 k10 k11, c.key = [k0, k1, k2, k3, k4, k5, k6, k7, k8, k9, k10, k11] := by
    match hc : c.key, hk with
    | [k0, k1, k2, k3, k4, k5, k6, k7, k8, k9, k10, k11], _ =>
      exact ⟨k0, k1, k2, k3, k4, k5, k6, k7, k8, k9, k10, k11, rfl⟩
  have hin : (inputWords c.key c.n0 c.n1 c.s.lo c.s.hi).size = 16 := by simp [inputWords, hk]
  obtain ⟨r, h1, h2, h3, h4⟩ := bridge_chacha_mix g _ hin hst hout fuel hf
  refine ⟨r, h1, h2, ?_, ?_⟩
  · rw [h3]; rfl
  · rw [h4]
    simp only [mix, inputWords, hkey]
    by_cases hc : c.s.lo + 1 = 0 <;> simp [hc]

end UsualProofs.Bridge.C05T
