import Std.Tactic.BVDecide
import UsualProofs.Bridge.C05TMd5A
import Usual.C05.MDInst
/-!
# C05 translation tie, MD5 (part B): `md5_mix` = the model's `md5Compress`

Part A folded the generated function into `finishG ctx (opG md5Ops[63] X (… (opG md5Ops[0] X (startG ctx))))`
with every `OP` read off the regenerated table `md5Ops`.  Here: `opG` on the four registers is the
model's `md5Op` on the array `#[a, b, c, d]` (`op_map`; sixteen `bv_decide` facts identify the
translated `rol32` with the model's at the rotation counts of the table, `table_ok` checks by
`decide` that every entry has register indices below 4 and one of those counts), the fold over the
indices is the model's fold over the table (`fold_range`), and `bridge_md5_mix`: the four chaining
words after the call are `Usual.C05.MD.md5Compress st blk` — the `compress` of the `md5` instance.
-/
set_option linter.unusedSimpArgs false
set_option linter.unusedVariables false
namespace UsualProofs.Bridge.C05TMd5
open Usual.Gen.C05TMd5 Usual.C05.MD Usual.Gen.C05

/-- the four registers of the model (an array of size 4) as the generated code's variables -/
def toSA (r : Array UInt32) : S :=
  { a := (r.getD 0 0).toBitVec, b := (r.getD 1 0).toBitVec, c := (r.getD 2 0).toBitVec, d := (r.getD 3 0).toBitVec }

def rots : List Nat := [7, 12, 17, 22, 5, 9, 14, 20, 4, 11, 16, 23, 6, 10, 15, 21]

theorem rol_7 (v : UInt32) : Usual.Gen.C05TMd5.rol32 v.toBitVec (7#32) = (Usual.C05.MD.rol32 v 7).toBitVec := by
  unfold Usual.Gen.C05TMd5.rol32 Usual.C05.MD.rol32; bv_decide
theorem rol_12 (v : UInt32) : Usual.Gen.C05TMd5.rol32 v.toBitVec (12#32) = (Usual.C05.MD.rol32 v 12).toBitVec := by
  unfold Usual.Gen.C05TMd5.rol32 Usual.C05.MD.rol32; bv_decide
theorem rol_17 (v : UInt32) : Usual.Gen.C05TMd5.rol32 v.toBitVec (17#32) = (Usual.C05.MD.rol32 v 17).toBitVec := by
  unfold Usual.Gen.C05TMd5.rol32 Usual.C05.MD.rol32; bv_decide
theorem rol_22 (v : UInt32) : Usual.Gen.C05TMd5.rol32 v.toBitVec (22#32) = (Usual.C05.MD.rol32 v 22).toBitVec := by
  unfold Usual.Gen.C05TMd5.rol32 Usual.C05.MD.rol32; bv_decide
theorem rol_5 (v : UInt32) : Usual.Gen.C05TMd5.rol32 v.toBitVec (5#32) = (Usual.C05.MD.rol32 v 5).toBitVec := by
  unfold Usual.Gen.C05TMd5.rol32 Usual.C05.MD.rol32; bv_decide
theorem rol_9 (v : UInt32) : Usual.Gen.C05TMd5.rol32 v.toBitVec (9#32) = (Usual.C05.MD.rol32 v 9).toBitVec := by
  unfold Usual.Gen.C05TMd5.rol32 Usual.C05.MD.rol32; bv_decide
theorem rol_14 (v : UInt32) : Usual.Gen.C05TMd5.rol32 v.toBitVec (14#32) = (Usual.C05.MD.rol32 v 14).toBitVec := by
  unfold Usual.Gen.C05TMd5.rol32 Usual.C05.MD.rol32; bv_decide
theorem rol_20 (v : UInt32) : Usual.Gen.C05TMd5.rol32 v.toBitVec (20#32) = (Usual.C05.MD.rol32 v 20).toBitVec := by
  unfold Usual.Gen.C05TMd5.rol32 Usual.C05.MD.rol32; bv_decide
theorem rol_4 (v : UInt32) : Usual.Gen.C05TMd5.rol32 v.toBitVec (4#32) = (Usual.C05.MD.rol32 v 4).toBitVec := by
  unfold Usual.Gen.C05TMd5.rol32 Usual.C05.MD.rol32; bv_decide
theorem rol_11 (v : UInt32) : Usual.Gen.C05TMd5.rol32 v.toBitVec (11#32) = (Usual.C05.MD.rol32 v 11).toBitVec := by
  unfold Usual.Gen.C05TMd5.rol32 Usual.C05.MD.rol32; bv_decide
theorem rol_16 (v : UInt32) : Usual.Gen.C05TMd5.rol32 v.toBitVec (16#32) = (Usual.C05.MD.rol32 v 16).toBitVec := by
  unfold Usual.Gen.C05TMd5.rol32 Usual.C05.MD.rol32; bv_decide
theorem rol_23 (v : UInt32) : Usual.Gen.C05TMd5.rol32 v.toBitVec (23#32) = (Usual.C05.MD.rol32 v 23).toBitVec := by
  unfold Usual.Gen.C05TMd5.rol32 Usual.C05.MD.rol32; bv_decide
theorem rol_6 (v : UInt32) : Usual.Gen.C05TMd5.rol32 v.toBitVec (6#32) = (Usual.C05.MD.rol32 v 6).toBitVec := by
  unfold Usual.Gen.C05TMd5.rol32 Usual.C05.MD.rol32; bv_decide
theorem rol_10 (v : UInt32) : Usual.Gen.C05TMd5.rol32 v.toBitVec (10#32) = (Usual.C05.MD.rol32 v 10).toBitVec := by
  unfold Usual.Gen.C05TMd5.rol32 Usual.C05.MD.rol32; bv_decide
theorem rol_15 (v : UInt32) : Usual.Gen.C05TMd5.rol32 v.toBitVec (15#32) = (Usual.C05.MD.rol32 v 15).toBitVec := by
  unfold Usual.Gen.C05TMd5.rol32 Usual.C05.MD.rol32; bv_decide
theorem rol_21 (v : UInt32) : Usual.Gen.C05TMd5.rol32 v.toBitVec (21#32) = (Usual.C05.MD.rol32 v 21).toBitVec := by
  unfold Usual.Gen.C05TMd5.rol32 Usual.C05.MD.rol32; bv_decide

theorem rol_eq (s : Nat) (hs : s ∈ rots) (v : UInt32) :
    Usual.Gen.C05TMd5.rol32 v.toBitVec (BitVec.ofNat 32 s) = (Usual.C05.MD.rol32 v (UInt32.ofNat s)).toBitVec := by
  simp only [rots, List.mem_cons, List.mem_nil_iff, or_false] at hs
  rcases hs with rfl | rfl | rfl | rfl | rfl | rfl | rfl | rfl | rfl | rfl | rfl | rfl | rfl | rfl | rfl | rfl
  · exact rol_7 v
  · exact rol_12 v
  · exact rol_17 v
  · exact rol_22 v
  · exact rol_5 v
  · exact rol_9 v
  · exact rol_14 v
  · exact rol_20 v
  · exact rol_4 v
  · exact rol_11 v
  · exact rol_16 v
  · exact rol_23 v
  · exact rol_6 v
  · exact rol_10 v
  · exact rol_15 v
  · exact rol_21 v

theorem f_eq (fn : Nat) (x y z : UInt32) : fG fn x.toBitVec y.toBitVec z.toBitVec = (md5F fn x y z).toBitVec := by
  unfold fG md5F
  split <;> simp

theorem getD_map (a : Array UInt32) (i : Nat) : (a.map UInt32.toBitVec).getD i 0#32 = (a.getD i 0).toBitVec := by
  simp [Array.getD_eq_getD_getElem?]

theorem size4 (x : Array UInt32) (h : x.size = 4) : ∃ a b c d, x = #[a, b, c, d] := by
  rcases x with ⟨l⟩
  simp only [List.size_toArray] at h
  match l, h with
  | [a, b, c, d], _ => exact ⟨a, b, c, d, rfl⟩

theorem get_toSA (r : Array UInt32) (i : Nat) (hi : i < 4) : (toSA r).get i = (r.getD i 0).toBitVec := by
  match i, hi with
  | 0, _ => rfl
  | 1, _ => rfl
  | 2, _ => rfl
  | 3, _ => rfl

theorem set_toSA (r : Array UInt32) (hr : r.size = 4) (i : Nat) (hi : i < 4) (v : UInt32) :
    (toSA r).set i v.toBitVec = toSA (r.setIfInBounds i v) := by
  obtain ⟨a, b, c, d, rfl⟩ := size4 r hr
  match i, hi with
  | 0, _ => simp [toSA, S.set]
  | 1, _ => simp [toSA, S.set]
  | 2, _ => simp [toSA, S.set]
  | 3, _ => simp [toSA, S.set]

/-- what `decide` checks about an entry of the regenerated table -/
def entryOk (op : Nat × Nat × Nat × Nat × Nat × Nat × Nat × UInt32) : Bool :=
  decide (op.2.1 < 4) && decide (op.2.2.1 < 4) && decide (op.2.2.2.1 < 4) && decide (op.2.2.2.2.1 < 4) &&
  decide (op.2.2.2.2.2.2.1 ∈ rots)

theorem table_ok : md5Ops.all entryOk = true := by decide

theorem op_map (op : Nat × Nat × Nat × Nat × Nat × Nat × Nat × UInt32) (hok : entryOk op = true)
    (x : Array UInt32) (r : Array UInt32) (hr : r.size = 4) :
    opG op (x.map UInt32.toBitVec) (toSA r) = toSA (md5Op x r op) := by
  rcases op with ⟨fn, r0, r1, r2, r3, k, s, t⟩
  simp only [entryOk, Bool.and_eq_true, decide_eq_true_eq] at hok
  obtain ⟨⟨⟨⟨h0, h1⟩, h2⟩, h3⟩, hs⟩ := hok
  simp only [opG, md5Op, get_toSA r _ h0, get_toSA r _ h1, get_toSA r _ h2, get_toSA r _ h3, getD_map, f_eq,
    ← UInt32.toBitVec_add, rol_eq s hs, set_toSA r hr r0 h0]

theorem md5Op_size (x r : Array UInt32) (op : Nat × Nat × Nat × Nat × Nat × Nat × Nat × UInt32) :
    (md5Op x r op).size = r.size := by
  rcases op with ⟨fn, r0, r1, r2, r3, k, s, t⟩
  simp [md5Op]

theorem fold_take {α β : Type} (f : β → α → β) (d : α) (l : List α) (s0 : β) : ∀ n, n ≤ l.length →
    (List.range n).foldl (fun s i => f s (l.getD i d)) s0 = (l.take n).foldl f s0 := by
  intro n
  induction n with
  | zero => intro _; rfl
  | succ n ih =>
    intro hn
    rw [List.range_succ, List.foldl_append, ih (by omega)]
    have : l.take (n + 1) = l.take n ++ [l.getD n d] := by
      rw [List.take_add_one]
      congr 1
      have hn' : n < l.length := by omega
      simp [List.getD_eq_getElem?_getD, hn']
    rw [this, List.foldl_append]
    rfl

theorem ops_run (x : Array UInt32) : ∀ (n : Nat), n ≤ 64 → ∀ (r : Array UInt32), r.size = 4 →
    (List.range n).foldl (fun s i => opG (opAt i) (x.map UInt32.toBitVec) s) (toSA r) =
      toSA ((List.range n).foldl (fun r i => md5Op x r (opAt i)) r) ∧
    ((List.range n).foldl (fun r i => md5Op x r (opAt i)) r).size = 4 := by
  intro n
  induction n with
  | zero => intro _ r hr; exact ⟨rfl, hr⟩
  | succ n ih =>
    intro hn r hr
    obtain ⟨h1, h2⟩ := ih (by omega) r hr
    rw [List.range_succ, List.foldl_append, List.foldl_append, h1]
    simp only [List.foldl_cons, List.foldl_nil]
    have hok : entryOk (opAt n) = true := by
      have := List.all_eq_true.mp table_ok (opAt n) (by
        unfold opAt
        have hn' : n < md5Ops.length := by
          have : md5Ops.length = 64 := by decide
          omega
        simp [List.getD_eq_getElem?_getD, hn'])
      exact this
    exact ⟨op_map (opAt n) hok x _ h2, by rw [md5Op_size, h2]⟩

/-- **`md5_mix`** as clang reads it today: on a context whose chaining words are `a0 … a3` and the
sixteen little-endian words of `blk` as `X`, the four chaining words after the call are the model's
`md5Compress #[a0, a1, a2, a3] blk`. -/
theorem bridge_md5_mix (ctx : md5_ctx) (a0 a1 a2 a3 : UInt32) (blk : List UInt8)
    (ha : ctx.a = a0.toBitVec) (hb : ctx.b = a1.toBitVec) (hc : ctx.c = a2.toBitVec) (hd : ctx.d = a3.toBitVec) :
    #[(md5_mix ctx ((wordsLE32 blk).toArray.map UInt32.toBitVec)).a,
      (md5_mix ctx ((wordsLE32 blk).toArray.map UInt32.toBitVec)).b,
      (md5_mix ctx ((wordsLE32 blk).toArray.map UInt32.toBitVec)).c,
      (md5_mix ctx ((wordsLE32 blk).toArray.map UInt32.toBitVec)).d] =
    (md5Compress #[a0, a1, a2, a3] blk).map UInt32.toBitVec := by
  have hstart : startG ctx = toSA #[a0, a1, a2, a3] := by simp [startG, toSA, ha, hb, hc, hd]
  obtain ⟨h1, h2⟩ := ops_run (wordsLE32 blk).toArray 64 (Nat.le_refl _) #[a0, a1, a2, a3] rfl
  rw [mix_eq_ops, hstart, h1]
  have hfold : (List.range 64).foldl (fun r i => md5Op (wordsLE32 blk).toArray r (opAt i)) #[a0, a1, a2, a3] =
      md5Ops.foldl (md5Op (wordsLE32 blk).toArray) #[a0, a1, a2, a3] := by
    have hl : md5Ops.length = 64 := by decide
    have := fold_take (fun r op => md5Op (wordsLE32 blk).toArray r op) (0, 0, 0, 0, 0, 0, 0, 0) md5Ops
      #[a0, a1, a2, a3] 64 (by omega)
    rw [← hl, List.take_length] at this
    rw [← hl]
    exact this
  rw [hfold] at h2 ⊢
  simp only [md5Compress]
  generalize md5Ops.foldl (md5Op (wordsLE32 blk).toArray) #[a0, a1, a2, a3] = rF at h2 ⊢
  obtain ⟨r0, r1, r2, r3, rfl⟩ := size4 rF h2
  simp [finishG, toSA, ha, hb, hc, hd]

theorem finish_nbytes (ctx : md5_ctx) (s : S) : (finishG ctx s).nbytes = ctx.nbytes := rfl

theorem md5_mix_nbytes (ctx : md5_ctx) (X : Array W) : (md5_mix ctx X).nbytes = ctx.nbytes := by
  rw [mix_eq_ops]; exact finish_nbytes ctx _

end UsualProofs.Bridge.C05TMd5
