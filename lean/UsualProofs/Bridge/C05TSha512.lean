import Std.Tactic.BVDecide
import UsualProofs.Bridge.C05TSha512A
import Usual.C05.MDInst
/-!
# C05 translation tie, SHA-512 (part B): `sha512_core` = the model's `sha512Compress`

Same development as `Bridge/C05TSha.lean` (derived from it by substituting the constants of
FIPS 180-4 §6.4: 64-bit words, 80 rounds, rotation counts 28/34/39, 14/18/41, 1/8/»7, 19/61/»6,
`K512`, a 64-entry extension of the schedule): part A folded the generated function into
`finishG ctx (roundG 79 (… (roundG 0 (startG ctx))))`; here the rounds over `UInt64` (`roundM`, ten
`bv_decide` facts for `ror64`, one for `bswap64`, `K_eq`), the model's schedule word by word
(`sched_lo`, `sched_hi`) and the invariant of the 80 rounds on the 16-word circular buffer (`inv_step`).

`bridge_sha512_core`: for every chaining value and block whose sixteen host-order words byte-swap
to the big-endian words of `blk`, `sha512_core` leaves `Usual.C05.MD.sha512Compress st blk` in
`state` — the `compress` of the `Alg` instances `sha512` / `sha384` that `md_chunking` &c are about.
-/
set_option linter.unusedSimpArgs false
set_option linter.unusedVariables false
namespace UsualProofs.Bridge.C05TSha512
open Usual.Gen.C05TSha512 Usual.C05.MD Usual.Gen.C05

/-! ## the same rounds over `UInt64` (the model's word type) -/

structure S32 where
  a : UInt64
  b : UInt64
  c : UInt64
  d : UInt64
  e : UInt64
  f : UInt64
  g : UInt64
  h : UInt64
  w : Array UInt64

def toS (s : S32) : S :=
  { a := s.a.toBitVec, b := s.b.toBitVec, c := s.c.toBitVec, d := s.d.toBitVec, e := s.e.toBitVec,
    f := s.f.toBitVec, g := s.g.toBitVec, h := s.h.toBitVec, w := s.w.map UInt64.toBitVec }

/-- `bswap64` on `UInt64` -/
def bswapM (x : UInt64) : UInt64 :=
  (((x >>> 0) &&& 255) <<< 56) ||| (((x >>> 8) &&& 255) <<< 48) ||| (((x >>> 16) &&& 255) <<< 40) |||
  (((x >>> 24) &&& 255) <<< 32) ||| (((x >>> 32) &&& 255) <<< 24) ||| (((x >>> 40) &&& 255) <<< 16) |||
  (((x >>> 48) &&& 255) <<< 8) ||| (((x >>> 56) &&& 255) <<< 0)

theorem bswap_eq (x : UInt64) : usual_bswap64 x.toBitVec = (bswapM x).toBitVec := by
  unfold usual_bswap64 bswapM; bv_decide

theorem ror_28 (x : UInt64) : Usual.Gen.C05TSha512.ror64 x.toBitVec (28#32) = (Usual.C05.MD.ror64 x 28).toBitVec := by
  unfold Usual.Gen.C05TSha512.ror64 Usual.Gen.C05TSha512.rol64 Usual.C05.MD.ror64; bv_decide
theorem ror_34 (x : UInt64) : Usual.Gen.C05TSha512.ror64 x.toBitVec (34#32) = (Usual.C05.MD.ror64 x 34).toBitVec := by
  unfold Usual.Gen.C05TSha512.ror64 Usual.Gen.C05TSha512.rol64 Usual.C05.MD.ror64; bv_decide
theorem ror_39 (x : UInt64) : Usual.Gen.C05TSha512.ror64 x.toBitVec (39#32) = (Usual.C05.MD.ror64 x 39).toBitVec := by
  unfold Usual.Gen.C05TSha512.ror64 Usual.Gen.C05TSha512.rol64 Usual.C05.MD.ror64; bv_decide
theorem ror_14 (x : UInt64) : Usual.Gen.C05TSha512.ror64 x.toBitVec (14#32) = (Usual.C05.MD.ror64 x 14).toBitVec := by
  unfold Usual.Gen.C05TSha512.ror64 Usual.Gen.C05TSha512.rol64 Usual.C05.MD.ror64; bv_decide
theorem ror_18 (x : UInt64) : Usual.Gen.C05TSha512.ror64 x.toBitVec (18#32) = (Usual.C05.MD.ror64 x 18).toBitVec := by
  unfold Usual.Gen.C05TSha512.ror64 Usual.Gen.C05TSha512.rol64 Usual.C05.MD.ror64; bv_decide
theorem ror_41 (x : UInt64) : Usual.Gen.C05TSha512.ror64 x.toBitVec (41#32) = (Usual.C05.MD.ror64 x 41).toBitVec := by
  unfold Usual.Gen.C05TSha512.ror64 Usual.Gen.C05TSha512.rol64 Usual.C05.MD.ror64; bv_decide
theorem ror_1 (x : UInt64) : Usual.Gen.C05TSha512.ror64 x.toBitVec (1#32) = (Usual.C05.MD.ror64 x 1).toBitVec := by
  unfold Usual.Gen.C05TSha512.ror64 Usual.Gen.C05TSha512.rol64 Usual.C05.MD.ror64; bv_decide
theorem ror_8 (x : UInt64) : Usual.Gen.C05TSha512.ror64 x.toBitVec (8#32) = (Usual.C05.MD.ror64 x 8).toBitVec := by
  unfold Usual.Gen.C05TSha512.ror64 Usual.Gen.C05TSha512.rol64 Usual.C05.MD.ror64; bv_decide
theorem ror_19 (x : UInt64) : Usual.Gen.C05TSha512.ror64 x.toBitVec (19#32) = (Usual.C05.MD.ror64 x 19).toBitVec := by
  unfold Usual.Gen.C05TSha512.ror64 Usual.Gen.C05TSha512.rol64 Usual.C05.MD.ror64; bv_decide
theorem ror_61 (x : UInt64) : Usual.Gen.C05TSha512.ror64 x.toBitVec (61#32) = (Usual.C05.MD.ror64 x 61).toBitVec := by
  unfold Usual.Gen.C05TSha512.ror64 Usual.Gen.C05TSha512.rol64 Usual.C05.MD.ror64; bv_decide

theorem shr_7 (x : UInt64) : x.toBitVec >>> ((7#32)).toNat = (x >>> 7).toBitVec := by bv_decide
theorem shr_6 (x : UInt64) : x.toBitVec >>> ((6#32)).toNat = (x >>> 6).toBitVec := by bv_decide

/-- the table clang reads in sha512.c = the table regenerated for the model -/
theorem K_eq : Usual.Gen.C05TSha512.K = K512.map UInt64.toBitVec := by decide +kernel

theorem getD_map (a : Array UInt64) (i : Nat) : (a.map UInt64.toBitVec).getD i 0#64 = (a.getD i 0).toBitVec := by
  simp [Array.getD_eq_getD_getElem?]

theorem set_map (a : Array UInt64) (i : Nat) (v : UInt64) :
    (a.map UInt64.toBitVec).setIfInBounds i v.toBitVec = (a.setIfInBounds i v).map UInt64.toBitVec := by
  simp

/-- one round in the model's terms: `wt` = the message word of this round, `k` its constant -/
def stepM (k wt : UInt64) (s : S32) (w' : Array UInt64) : S32 :=
  let t1 := s.h + bSig1 s.e + ((s.e &&& s.f) ^^^ (~~~s.e &&& s.g)) + k + wt
  let t2 := bSig0 s.a + ((s.a &&& s.b) ^^^ (s.a &&& s.c) ^^^ (s.b &&& s.c))
  { a := t1 + t2, b := s.a, c := s.b, d := s.c, e := s.d + t1, f := s.e, g := s.f, h := s.g, w := w' }

def RloM (j : Nat) (s : S32) : S32 :=
  let w' := s.w.setIfInBounds j (bswapM (s.w.getD j 0))
  stepM (K512.getD j 0) (w'.getD j 0) s w'

def RhiM (j k : Nat) (s : S32) : S32 :=
  let w' := s.w.setIfInBounds j (sSig1 (s.w.getD ((j + 14) % 16) 0) + s.w.getD ((j + 9) % 16) 0 +
    sSig0 (s.w.getD ((j + 1) % 16) 0) + s.w.getD j 0)
  stepM (K512.getD k 0) (w'.getD j 0) s w'

def roundM (t : Nat) (s : S32) : S32 := if t < 16 then RloM t s else RhiM (t % 16) t s

theorem step_map (k wt : UInt64) (s : S32) (w' : Array UInt64) :
    stepG k.toBitVec wt.toBitVec (toS s) (w'.map UInt64.toBitVec) = toS (stepM k wt s w') := by
  simp [stepG, stepM, toS, bSig0, bSig1, ror_28, ror_34, ror_39, ror_14, ror_18, ror_41]

theorem round_map (t : Nat) (s : S32) : roundG t (toS s) = toS (roundM t s) := by
  unfold roundG roundM
  split
  · unfold Rlo RloM
    simp only [K_eq, getD_map]
    have : (toS s).w = s.w.map UInt64.toBitVec := rfl
    rw [this]
    simp only [getD_map, bswap_eq, set_map, step_map]
  · unfold Rhi RhiM
    simp only [K_eq, getD_map]
    have : (toS s).w = s.w.map UInt64.toBitVec := rfl
    rw [this]
    simp only [getD_map, ror_19, ror_61, ror_1, ror_8, shr_7, shr_6, ← UInt64.toBitVec_xor, ← UInt64.toBitVec_add,
      set_map, step_map]
    rfl

theorem fold_map : ∀ (l : List Nat) (s : S32),
    l.foldl (fun s t => roundG t s) (toS s) = toS (l.foldl (fun s t => roundM t s) s) := by
  intro l
  induction l with
  | nil => intro s; rfl
  | cons t l ih => intro s; simp only [List.foldl_cons, round_map, ih]

/-! ## the message schedule of the model, word by word -/

def F (w : Array UInt64) (t : Nat) : UInt64 :=
  sSig1 (w.getD (t - 2) 0) + w.getD (t - 7) 0 + sSig0 (w.getD (t - 15) 0) + w.getD (t - 16) 0

def schedN (w16 : List UInt64) (n : Nat) : Array UInt64 :=
  (List.range n).foldl (fun (w : Array UInt64) i => w.push (F w (i + 16))) w16.toArray

theorem sched_def (w16 : List UInt64) : sha512Sched w16 = schedN w16 64 := rfl

theorem schedN_succ (w16 : List UInt64) (n : Nat) :
    schedN w16 (n + 1) = (schedN w16 n).push (F (schedN w16 n) (n + 16)) := by
  unfold schedN
  rw [List.range_succ, List.foldl_append]
  rfl

theorem schedN_size (w16 : List UInt64) : ∀ n, (schedN w16 n).size = w16.length + n := by
  intro n
  induction n with
  | zero => simp [schedN]
  | succ n ih => rw [schedN_succ, Array.size_push, ih]; omega

theorem getD_push_lt (a : Array UInt64) (v : UInt64) (j : Nat) (h : j < a.size) :
    (a.push v).getD j 0 = a.getD j 0 := by
  have hne : j ≠ a.size := by omega
  simp [Array.getD_eq_getD_getElem?, Array.getElem?_push, h, hne]

theorem getD_push_eq (a : Array UInt64) (v : UInt64) : (a.push v).getD a.size 0 = v := by
  simp [Array.getD_eq_getD_getElem?]

theorem schedN_stable (w16 : List UInt64) (n j : Nat) (hj : j < w16.length + n) :
    ∀ m, n ≤ m → (schedN w16 m).getD j 0 = (schedN w16 n).getD j 0 := by
  intro m hm
  induction m with
  | zero => have : n = 0 := by omega
            subst this; rfl
  | succ m ih =>
    by_cases h : n = m + 1
    · subst h; rfl
    · rw [schedN_succ, getD_push_lt _ _ _ (by rw [schedN_size]; omega)]
      exact ih (by omega)

theorem sched_lo (w16 : List UInt64) (j : Nat) (hj : j < w16.length) :
    (schedN w16 64).getD j 0 = w16.getD j 0 := by
  rw [schedN_stable w16 0 j (by omega) 64 (by omega)]
  simp [schedN, Array.getD_eq_getD_getElem?, List.getD_eq_getElem?_getD]

theorem sched_hi (w16 : List UInt64) (hl : w16.length = 16) (t : Nat) (h1 : 16 ≤ t) (h2 : t < 80) :
    (schedN w16 64).getD t 0 = F (schedN w16 64) t := by
  obtain ⟨n, rfl⟩ : ∃ n, t = n + 16 := ⟨t - 16, by omega⟩
  rw [schedN_stable w16 (n + 1) (n + 16) (by omega) 64 (by omega), schedN_succ]
  have hs : n + 16 = (schedN w16 n).size := by rw [schedN_size]; omega
  rw [hs, getD_push_eq, ← hs]
  unfold F
  rw [schedN_stable w16 n (n + 16 - 2) (by omega) 64 (by omega),
    schedN_stable w16 n (n + 16 - 7) (by omega) 64 (by omega),
    schedN_stable w16 n (n + 16 - 15) (by omega) 64 (by omega),
    schedN_stable w16 n (n + 16 - 16) (by omega) 64 (by omega)]

/-! ## invariant of the 80 rounds -/

theorem getD_set (a : Array UInt64) (i j : Nat) (v : UInt64) (hi : i < a.size) :
    (a.setIfInBounds i v).getD j 0 = if j = i then v else a.getD j 0 := by
  by_cases h : j = i
  · subst h; simp [Array.getD_eq_getD_getElem?, hi]
  · have h' : ¬ i = j := fun e => h e.symm
    simp [Array.getD_eq_getD_getElem?, Array.getElem?_setIfInBounds, h, h']

section
variable (st : Array UInt64) (w16 : List UInt64) (raw : Array UInt64)

/-- the eight working variables after `t` rounds of the model -/
def vM (t : Nat) : Array UInt64 := (List.range t).foldl (sha512Round (schedN w16 64)) st

structure Inv (t : Nat) (s : S32) : Prop where
  size : s.w.size = 16
  vars : #[s.a, s.b, s.c, s.d, s.e, s.f, s.g, s.h] = vM st w16 t
  buf : ∀ j, j < 16 → s.w.getD j 0 =
    if t ≤ j then raw.getD j 0 else (schedN w16 64).getD (j + 16 * ((t - 1 - j) / 16)) 0

theorem vM_succ (t : Nat) : vM st w16 (t + 1) = sha512Round (schedN w16 64) (vM st w16 t) t := by
  unfold vM
  rw [List.range_succ, List.foldl_append]
  rfl

variable (hl : w16.length = 16) (hraw : ∀ j, j < 16 → bswapM (raw.getD j 0) = w16.getD j 0)

include hl hraw in
theorem inv_step (t : Nat) (ht : t < 80) (s : S32) (h : Inv st w16 raw t s) :
    Inv st w16 raw (t + 1) (roundM t s) := by
  obtain ⟨hsz, hv, hb⟩ := h
  unfold roundM
  by_cases h16 : t < 16
  · rw [if_pos h16]
    unfold RloM stepM
    have hwt : (s.w.setIfInBounds t (bswapM (s.w.getD t 0))).getD t 0 = (schedN w16 64).getD t 0 := by
      rw [getD_set _ _ _ _ (by omega), if_pos rfl, hb t h16, if_pos (Nat.le_refl t), hraw t h16,
        sched_lo w16 t (by omega)]
    refine ⟨by simp [hsz], ?_, ?_⟩
    · rw [vM_succ, ← hv]
      simp only [hwt]
      simp [sha512Round]
    · intro j hj
      simp only
      rw [getD_set _ _ _ _ (by omega)]
      by_cases hjt : j = t
      · subst hjt
        rw [if_pos rfl, hb j hj, if_pos (Nat.le_refl j), hraw j hj, if_neg (by omega)]
        have : j + 16 * ((j + 1 - 1 - j) / 16) = j := by omega
        rw [this, sched_lo w16 j (by omega)]
      · rw [if_neg hjt, hb j hj]
        by_cases hle : t ≤ j
        · rw [if_pos hle, if_pos (by omega)]
        · rw [if_neg hle, if_neg (by omega)]
          have : j + 16 * ((t + 1 - 1 - j) / 16) = j + 16 * ((t - 1 - j) / 16) := by omega
          rw [this]
  · rw [if_neg h16]
    unfold RhiM stepM
    have hmod : t % 16 < 16 := Nat.mod_lt _ (by decide)
    have r2 : s.w.getD ((t % 16 + 14) % 16) 0 = (schedN w16 64).getD (t - 2) 0 := by
      rw [hb _ (Nat.mod_lt _ (by decide)), if_neg (by omega)]
      congr 1; omega
    have r7 : s.w.getD ((t % 16 + 9) % 16) 0 = (schedN w16 64).getD (t - 7) 0 := by
      rw [hb _ (Nat.mod_lt _ (by decide)), if_neg (by omega)]
      congr 1; omega
    have r15 : s.w.getD ((t % 16 + 1) % 16) 0 = (schedN w16 64).getD (t - 15) 0 := by
      rw [hb _ (Nat.mod_lt _ (by decide)), if_neg (by omega)]
      congr 1; omega
    have r16 : s.w.getD (t % 16) 0 = (schedN w16 64).getD (t - 16) 0 := by
      rw [hb _ hmod, if_neg (by omega)]
      congr 1; omega
    have hnew : sSig1 (s.w.getD ((t % 16 + 14) % 16) 0) + s.w.getD ((t % 16 + 9) % 16) 0 +
        sSig0 (s.w.getD ((t % 16 + 1) % 16) 0) + s.w.getD (t % 16) 0 = (schedN w16 64).getD t 0 := by
      rw [r2, r7, r15, r16, sched_hi w16 hl t (by omega) ht]; rfl
    rw [hnew]
    have hwt : (s.w.setIfInBounds (t % 16) ((schedN w16 64).getD t 0)).getD (t % 16) 0 = (schedN w16 64).getD t 0 := by
      rw [getD_set _ _ _ _ (by omega), if_pos rfl]
    refine ⟨by simp [hsz], ?_, ?_⟩
    · rw [vM_succ, ← hv]
      simp only [hwt]
      simp [sha512Round]
    · intro j hj
      simp only
      rw [getD_set _ _ _ _ (by omega)]
      by_cases hjt : j = t % 16
      · rw [if_pos hjt, if_neg (by omega)]
        congr 1; omega
      · rw [if_neg hjt, hb j hj, if_neg (by omega), if_neg (by omega)]
        congr 1; omega
end

theorem inv_run (st : Array UInt64) (w16 : List UInt64) (raw : Array UInt64) (hl : w16.length = 16)
    (hraw : ∀ j, j < 16 → bswapM (raw.getD j 0) = w16.getD j 0) (s0 : S32) (h0 : Inv st w16 raw 0 s0) :
    ∀ n, n ≤ 80 → Inv st w16 raw n ((List.range n).foldl (fun s t => roundM t s) s0) := by
  intro n
  induction n with
  | zero => intro _; exact h0
  | succ n ih =>
    intro hn
    rw [List.range_succ, List.foldl_append]
    exact inv_step st w16 raw hl hraw n (by omega) _ (ih (by omega))

theorem size8 (x : Array UInt64) (h : x.size = 8) : ∃ a0 a1 a2 a3 a4 a5 a6 a7, x = #[a0, a1, a2, a3, a4, a5, a6, a7] := by
  rcases x with ⟨l⟩
  simp only [List.size_toArray] at h
  match l, h with
  | [a0, a1, a2, a3, a4, a5, a6, a7], _ => exact ⟨a0, a1, a2, a3, a4, a5, a6, a7, rfl⟩

/-- **`sha512_core`** as clang reads it today: on a context whose chaining value is `st` and whose
block buffer, seen as sixteen host-order words `raw`, byte-swaps to the big-endian words of `blk`,
it leaves the model's `sha512Compress st blk` in `state` (and `nbytes` untouched). -/
theorem bridge_sha512_core (ctx : sha512_ctx) (st : Array UInt64) (hst : st.size = 8) (blk : List UInt8)
    (hlen : (wordsBE64 blk).length = 16) (raw : Array UInt64) (hrs : raw.size = 16)
    (hraw : ∀ j, j < 16 → bswapM (raw.getD j 0) = (wordsBE64 blk).getD j 0)
    (hc1 : ctx.state = st.map UInt64.toBitVec) (hc2 : ctx.buf_words = raw.map UInt64.toBitVec) :
    (sha512_core ctx).state = (sha512Compress st blk).map UInt64.toBitVec ∧
    (sha512_core ctx).nbytes = ctx.nbytes := by
  obtain ⟨a0, a1, a2, a3, a4, a5, a6, a7, rfl⟩ := size8 st hst
  let s0 : S32 := { a := a0, b := a1, c := a2, d := a3, e := a4, f := a5, g := a6, h := a7, w := raw }
  have hstart : startG ctx = toS s0 := by
    simp [startG, toS, s0, hc1, hc2]
  have h0 : Inv #[a0, a1, a2, a3, a4, a5, a6, a7] (wordsBE64 blk) raw 0 s0 :=
    ⟨hrs, rfl, fun j hj => by simp [s0]⟩
  have h64 := inv_run _ _ raw hlen hraw s0 h0 80 (Nat.le_refl _)
  rw [core_eq_rounds, hstart, fold_map]
  generalize (List.range 80).foldl (fun s t => roundM t s) s0 = sF at h64
  obtain ⟨_, hv, _⟩ := h64
  refine ⟨?_, rfl⟩
  unfold sha512Compress
  rw [sched_def]
  have : (List.range 80).foldl (sha512Round (schedN (wordsBE64 blk) 64)) #[a0, a1, a2, a3, a4, a5, a6, a7] =
      vM #[a0, a1, a2, a3, a4, a5, a6, a7] (wordsBE64 blk) 80 := rfl
  simp only [this, ← hv]
  simp [finishG, toS, hc1]

end UsualProofs.Bridge.C05TSha512
