import Usual.C04.Parse
/-! Bridge for C04: the regenerated constants of `usual/regex.[ch]` have the layout the model
(`Usual.C04.compile`, `Driver/C04.lean`) relies on.  Re-checked on every run against the
regenerated `Usual.Gen.C04Tab`. -/
namespace UsualProofs.Bridge.C04
open Usual.Gen.C04

/-- flag bits: `compile` tests bit 0 (EXTENDED), 1 (ICASE), 2 (NOSUB), 3 (NEWLINE); the driver
tests bit 4 (NOTBOL) and 5 (NOTEOL) -/
theorem flag_layout :
    REG_EXTENDED = 1 ∧ REG_ICASE = 2 ∧ REG_NOSUB = 4 ∧ REG_NEWLINE = 8 ∧ REG_NOTBOL = 16 ∧ REG_NOTEOL = 32 := by
  decide

/-- the error codes are pairwise distinct, non-zero and different from REG_NOMATCH -/
theorem codes_distinct :
    [REG_NOMATCH, REG_BADBR, REG_BADPAT, REG_BADRPT, REG_EBRACE, REG_EBRACK, REG_ECOLLATE, REG_ECTYPE,
     REG_EESCAPE, REG_EPAREN, REG_ERANGE, REG_ESPACE, REG_ESUBREG].Nodup ∧ REG_NOMATCH ≠ 0 := by
  decide

/-- every name of `ctype_list` is one the model has a predicate for (`classPred`), the names
are prefix-free (so `fill_class`'s first-prefix-match is the only match) -/
theorem class_names_known :
    classNames = ["alnum", "alpha", "blank", "cntrl", "digit", "graph", "lower", "print", "punct",
                  "space", "upper", "xdigit"] := by
  decide

/-- the byte table of the names is the name list (`classPred` is keyed by the strings, `fill_class`
compares the bytes) and the names are prefix-free, so the first prefix match is the only one -/
theorem class_table_names : classTable.map (·.1) = classNames := by decide

theorem class_table_prefix_free :
    classTable.all (fun a => classTable.all (fun b => a.1 == b.1 || !(Usual.C04.startsWith a.2 b.2))) = true := by
  decide

/-- limits used by `op_count_full` / `op_gstart` -/
theorem limits : MAX_COUNT = 0x7fff ∧ MAX_GROUPS = 128 := by decide

end UsualProofs.Bridge.C04
