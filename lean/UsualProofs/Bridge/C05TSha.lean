import Std.Tactic.BVDecide
import UsualProofs.Bridge.C05TShaA
import Usual.C05.MDInst
/-!
# C05 translation tie, SHA-256 (part B): `sha256_core` = the model's `sha256Compress`

Part A folded the generated function into `finishG ctx (roundG 63 (… (roundG 0 (startG ctx))))`.
Here: the same rounds over `UInt32` (`roundM`; ten `bv_decide` facts identify the translated
`ror32` with the model's at the rotation counts used, one the translated `bswap32`, `K_eq` the table
read from sha256.c with the regenerated `K256`), the model's message schedule word by word
(`sched_lo`, `sched_hi`: `sha256Sched` built by `push` satisfies the FIPS recurrence), and the
invariant of the 64 rounds: after `t` rounds the eight variables are the model's after `t`
`sha256Round`s, and slot `j` of the 16-word circular buffer holds the not yet converted input word
(`t ≤ j`) or schedule word number `j + 16·⌊(t-1-j)/16⌋` (`inv_step`, for every `t < 64`).

`bridge_sha256_core`: for every chaining value and block, `sha256_core` leaves
`Usual.C05.MD.sha256Compress st blk` in `state` — the `compress` of the `Alg` instances `sha256` /
`sha224` that `md_chunking` &c are about.  `bridge_sha256_core_bytes`: the same with the buffer
given by its 64 bytes (little-endian host: `buf.words[i]` = LE word of `buf.raw[4i..4i+3]`; reading
the union through its other member is the one step the translator does not model).
-/
set_option linter.unusedSimpArgs false
set_option linter.unusedVariables false
namespace UsualProofs.Bridge.C05TSha
open Usual.Gen.C05TSha Usual.C05.MD Usual.Gen.C05

/-! ## the same rounds over `UInt32` (the model's word type) -/

structure S32 where
  a : UInt32
  b : UInt32
  c : UInt32
  d : UInt32
  e : UInt32
  f : UInt32
  g : UInt32
  h : UInt32
  w : Array UInt32

def toS (s : S32) : S :=
  { a := s.a.toBitVec, b := s.b.toBitVec, c := s.c.toBitVec, d := s.d.toBitVec, e := s.e.toBitVec,
    f := s.f.toBitVec, g := s.g.toBitVec, h := s.h.toBitVec, w := s.w.map UInt32.toBitVec }

/-- `bswap32` on `UInt32` -/
def bswapM (x : UInt32) : UInt32 :=
  (x <<< 24) ||| ((x &&& (65280 : UInt32)) <<< 8) ||| ((x >>> 8) &&& (65280 : UInt32)) ||| (x >>> 24)

theorem bswap_eq (x : UInt32) : usual_bswap32 x.toBitVec = (bswapM x).toBitVec := by
  unfold usual_bswap32 bswapM; bv_decide

theorem ror_2 (x : UInt32) : Usual.Gen.C05TSha.ror32 x.toBitVec (2#32) = (Usual.C05.MD.ror32 x 2).toBitVec := by
  unfold Usual.Gen.C05TSha.ror32 Usual.Gen.C05TSha.rol32 Usual.C05.MD.ror32; bv_decide
theorem ror_13 (x : UInt32) : Usual.Gen.C05TSha.ror32 x.toBitVec (13#32) = (Usual.C05.MD.ror32 x 13).toBitVec := by
  unfold Usual.Gen.C05TSha.ror32 Usual.Gen.C05TSha.rol32 Usual.C05.MD.ror32; bv_decide
theorem ror_22 (x : UInt32) : Usual.Gen.C05TSha.ror32 x.toBitVec (22#32) = (Usual.C05.MD.ror32 x 22).toBitVec := by
  unfold Usual.Gen.C05TSha.ror32 Usual.Gen.C05TSha.rol32 Usual.C05.MD.ror32; bv_decide
theorem ror_6 (x : UInt32) : Usual.Gen.C05TSha.ror32 x.toBitVec (6#32) = (Usual.C05.MD.ror32 x 6).toBitVec := by
  unfold Usual.Gen.C05TSha.ror32 Usual.Gen.C05TSha.rol32 Usual.C05.MD.ror32; bv_decide
theorem ror_11 (x : UInt32) : Usual.Gen.C05TSha.ror32 x.toBitVec (11#32) = (Usual.C05.MD.ror32 x 11).toBitVec := by
  unfold Usual.Gen.C05TSha.ror32 Usual.Gen.C05TSha.rol32 Usual.C05.MD.ror32; bv_decide
theorem ror_25 (x : UInt32) : Usual.Gen.C05TSha.ror32 x.toBitVec (25#32) = (Usual.C05.MD.ror32 x 25).toBitVec := by
  unfold Usual.Gen.C05TSha.ror32 Usual.Gen.C05TSha.rol32 Usual.C05.MD.ror32; bv_decide
theorem ror_7 (x : UInt32) : Usual.Gen.C05TSha.ror32 x.toBitVec (7#32) = (Usual.C05.MD.ror32 x 7).toBitVec := by
  unfold Usual.Gen.C05TSha.ror32 Usual.Gen.C05TSha.rol32 Usual.C05.MD.ror32; bv_decide
theorem ror_18 (x : UInt32) : Usual.Gen.C05TSha.ror32 x.toBitVec (18#32) = (Usual.C05.MD.ror32 x 18).toBitVec := by
  unfold Usual.Gen.C05TSha.ror32 Usual.Gen.C05TSha.rol32 Usual.C05.MD.ror32; bv_decide
theorem ror_17 (x : UInt32) : Usual.Gen.C05TSha.ror32 x.toBitVec (17#32) = (Usual.C05.MD.ror32 x 17).toBitVec := by
  unfold Usual.Gen.C05TSha.ror32 Usual.Gen.C05TSha.rol32 Usual.C05.MD.ror32; bv_decide
theorem ror_19 (x : UInt32) : Usual.Gen.C05TSha.ror32 x.toBitVec (19#32) = (Usual.C05.MD.ror32 x 19).toBitVec := by
  unfold Usual.Gen.C05TSha.ror32 Usual.Gen.C05TSha.rol32 Usual.C05.MD.ror32; bv_decide

theorem shr_3 (x : UInt32) : x.toBitVec >>> ((3#32)).toNat = (x >>> 3).toBitVec := by bv_decide
theorem shr_10 (x : UInt32) : x.toBitVec >>> ((10#32)).toNat = (x >>> 10).toBitVec := by bv_decide

/-- the table clang reads in sha256.c = the table regenerated for the model -/
theorem K_eq : Usual.Gen.C05TSha.K = K256.map UInt32.toBitVec := by decide +kernel

theorem getD_map (a : Array UInt32) (i : Nat) : (a.map UInt32.toBitVec).getD i 0#32 = (a.getD i 0).toBitVec := by
  simp [Array.getD_eq_getD_getElem?]

theorem set_map (a : Array UInt32) (i : Nat) (v : UInt32) :
    (a.map UInt32.toBitVec).setIfInBounds i v.toBitVec = (a.setIfInBounds i v).map UInt32.toBitVec := by
  simp

/-- one round in the model's terms: `wt` = the message word of this round, `k` its constant -/
def stepM (k wt : UInt32) (s : S32) (w' : Array UInt32) : S32 :=
  let t1 := s.h + bsig1 s.e + ((s.e &&& s.f) ^^^ (~~~s.e &&& s.g)) + k + wt
  let t2 := bsig0 s.a + ((s.a &&& s.b) ^^^ (s.a &&& s.c) ^^^ (s.b &&& s.c))
  { a := t1 + t2, b := s.a, c := s.b, d := s.c, e := s.d + t1, f := s.e, g := s.f, h := s.g, w := w' }

def RloM (j : Nat) (s : S32) : S32 :=
  let w' := s.w.setIfInBounds j (bswapM (s.w.getD j 0))
  stepM (K256.getD j 0) (w'.getD j 0) s w'

def RhiM (j k : Nat) (s : S32) : S32 :=
  let w' := s.w.setIfInBounds j (ssig1 (s.w.getD ((j + 14) % 16) 0) + s.w.getD ((j + 9) % 16) 0 +
    ssig0 (s.w.getD ((j + 1) % 16) 0) + s.w.getD j 0)
  stepM (K256.getD k 0) (w'.getD j 0) s w'

def roundM (t : Nat) (s : S32) : S32 := if t < 16 then RloM t s else RhiM (t % 16) t s

theorem step_map (k wt : UInt32) (s : S32) (w' : Array UInt32) :
    stepG k.toBitVec wt.toBitVec (toS s) (w'.map UInt32.toBitVec) = toS (stepM k wt s w') := by
  simp [stepG, stepM, toS, bsig0, bsig1, ror_2, ror_13, ror_22, ror_6, ror_11, ror_25]

theorem round_map (t : Nat) (s : S32) : roundG t (toS s) = toS (roundM t s) := by
  unfold roundG roundM
  split
  · unfold Rlo RloM
    simp only [K_eq, getD_map]
    have : (toS s).w = s.w.map UInt32.toBitVec := rfl
    rw [this]
    simp only [getD_map, bswap_eq, set_map, step_map]
  · unfold Rhi RhiM
    simp only [K_eq, getD_map]
    have : (toS s).w = s.w.map UInt32.toBitVec := rfl
    rw [this]
    simp only [getD_map, ror_17, ror_19, ror_7, ror_18, shr_3, shr_10, ← UInt32.toBitVec_xor, ← UInt32.toBitVec_add,
      set_map, step_map]
    rfl

theorem fold_map : ∀ (l : List Nat) (s : S32),
    l.foldl (fun s t => roundG t s) (toS s) = toS (l.foldl (fun s t => roundM t s) s) := by
  intro l
  induction l with
  | nil => intro s; rfl
  | cons t l ih => intro s; simp only [List.foldl_cons, round_map, ih]

/-! ## the message schedule of the model, word by word -/

def F (w : Array UInt32) (t : Nat) : UInt32 :=
  ssig1 (w.getD (t - 2) 0) + w.getD (t - 7) 0 + ssig0 (w.getD (t - 15) 0) + w.getD (t - 16) 0

def schedN (w16 : List UInt32) (n : Nat) : Array UInt32 :=
  (List.range n).foldl (fun (w : Array UInt32) i => w.push (F w (i + 16))) w16.toArray

theorem sched_def (w16 : List UInt32) : sha256Sched w16 = schedN w16 48 := rfl

theorem schedN_succ (w16 : List UInt32) (n : Nat) :
    schedN w16 (n + 1) = (schedN w16 n).push (F (schedN w16 n) (n + 16)) := by
  unfold schedN
  rw [List.range_succ, List.foldl_append]
  rfl

theorem schedN_size (w16 : List UInt32) : ∀ n, (schedN w16 n).size = w16.length + n := by
  intro n
  induction n with
  | zero => simp [schedN]
  | succ n ih => rw [schedN_succ, Array.size_push, ih]; omega

theorem getD_push_lt (a : Array UInt32) (v : UInt32) (j : Nat) (h : j < a.size) :
    (a.push v).getD j 0 = a.getD j 0 := by
  have hne : j ≠ a.size := by omega
  simp [Array.getD_eq_getD_getElem?, Array.getElem?_push, h, hne]

theorem getD_push_eq (a : Array UInt32) (v : UInt32) : (a.push v).getD a.size 0 = v := by
  simp [Array.getD_eq_getD_getElem?]

theorem schedN_stable (w16 : List UInt32) (n j : Nat) (hj : j < w16.length + n) :
    ∀ m, n ≤ m → (schedN w16 m).getD j 0 = (schedN w16 n).getD j 0 := by
  intro m hm
  induction m with
  | zero => have : n = 0 := by omega
            subst this; rfl
  | succ m ih =>
    by_cases h : n = m + 1
    · subst h; rfl
    · rw [schedN_succ, getD_push_lt _ _ _ (by rw [schedN_size]; omega)]
      exact ih (by omega)

theorem sched_lo (w16 : List UInt32) (j : Nat) (hj : j < w16.length) :
    (schedN w16 48).getD j 0 = w16.getD j 0 := by
  rw [schedN_stable w16 0 j (by omega) 48 (by omega)]
  simp [schedN, Array.getD_eq_getD_getElem?, List.getD_eq_getElem?_getD]

theorem sched_hi (w16 : List UInt32) (hl : w16.length = 16) (t : Nat) (h1 : 16 ≤ t) (h2 : t < 64) :
    (schedN w16 48).getD t 0 = F (schedN w16 48) t := by
  obtain ⟨n, rfl⟩ : ∃ n, t = n + 16 := ⟨t - 16, by omega⟩
  rw [schedN_stable w16 (n + 1) (n + 16) (by omega) 48 (by omega), schedN_succ]
  have hs : n + 16 = (schedN w16 n).size := by rw [schedN_size]; omega
  rw [hs, getD_push_eq, ← hs]
  unfold F
  rw [schedN_stable w16 n (n + 16 - 2) (by omega) 48 (by omega),
    schedN_stable w16 n (n + 16 - 7) (by omega) 48 (by omega),
    schedN_stable w16 n (n + 16 - 15) (by omega) 48 (by omega),
    schedN_stable w16 n (n + 16 - 16) (by omega) 48 (by omega)]

/-! ## invariant of the 64 rounds -/

theorem getD_set (a : Array UInt32) (i j : Nat) (v : UInt32) (hi : i < a.size) :
    (a.setIfInBounds i v).getD j 0 = if j = i then v else a.getD j 0 := by
  by_cases h : j = i
  · subst h; simp [Array.getD_eq_getD_getElem?, hi]
  · have h' : ¬ i = j := fun e => h e.symm
    simp [Array.getD_eq_getD_getElem?, Array.getElem?_setIfInBounds, h, h']

section
variable (st : Array UInt32) (w16 : List UInt32) (raw : Array UInt32)

/-- the eight working variables after `t` rounds of the model -/
def vM (t : Nat) : Array UInt32 := (List.range t).foldl (sha256Round (schedN w16 48)) st

structure Inv (t : Nat) (s : S32) : Prop where
  size : s.w.size = 16
  vars : #[s.a, s.b, s.c, s.d, s.e, s.f, s.g, s.h] = vM st w16 t
  buf : ∀ j, j < 16 → s.w.getD j 0 =
    if t ≤ j then raw.getD j 0 else (schedN w16 48).getD (j + 16 * ((t - 1 - j) / 16)) 0

theorem vM_succ (t : Nat) : vM st w16 (t + 1) = sha256Round (schedN w16 48) (vM st w16 t) t := by
  unfold vM
  rw [List.range_succ, List.foldl_append]
  rfl

variable (hl : w16.length = 16) (hraw : ∀ j, j < 16 → bswapM (raw.getD j 0) = w16.getD j 0)

include hl hraw in
theorem inv_step (t : Nat) (ht : t < 64) (s : S32) (h : Inv st w16 raw t s) :
    Inv st w16 raw (t + 1) (roundM t s) := by
  obtain ⟨hsz, hv, hb⟩ := h
  unfold roundM
  by_cases h16 : t < 16
  · rw [if_pos h16]
    unfold RloM stepM
    have hwt : (s.w.setIfInBounds t (bswapM (s.w.getD t 0))).getD t 0 = (schedN w16 48).getD t 0 := by
      rw [getD_set _ _ _ _ (by omega), if_pos rfl, hb t h16, if_pos (Nat.le_refl t), hraw t h16,
        sched_lo w16 t (by omega)]
    refine ⟨by simp [hsz], ?_, ?_⟩
    · rw [vM_succ, ← hv]
      simp only [hwt]
      simp [sha256Round]
    · intro j hj
      simp only
      rw [getD_set _ _ _ _ (by omega)]
      by_cases hjt : j = t
      · subst hjt
        rw [if_pos rfl, hb j hj, if_pos (Nat.le_refl j), hraw j hj, if_neg (by omega)]
        have : j + 16 * ((j + 1 - 1 - j) / 16) = j := by omega
        rw [this, sched_lo w16 j (by omega)]
      · rw [if_neg hjt, hb j hj]
        by_cases hle : t ≤ j
        · rw [if_pos hle, if_pos (by omega)]
        · rw [if_neg hle, if_neg (by omega)]
          have : j + 16 * ((t + 1 - 1 - j) / 16) = j + 16 * ((t - 1 - j) / 16) := by omega
          rw [this]
  · rw [if_neg h16]
    unfold RhiM stepM
    have hmod : t % 16 < 16 := Nat.mod_lt _ (by decide)
    have r2 : s.w.getD ((t % 16 + 14) % 16) 0 = (schedN w16 48).getD (t - 2) 0 := by
      rw [hb _ (Nat.mod_lt _ (by decide)), if_neg (by omega)]
      congr 1; omega
    have r7 : s.w.getD ((t % 16 + 9) % 16) 0 = (schedN w16 48).getD (t - 7) 0 := by
      rw [hb _ (Nat.mod_lt _ (by decide)), if_neg (by omega)]
      congr 1; omega
    have r15 : s.w.getD ((t % 16 + 1) % 16) 0 = (schedN w16 48).getD (t - 15) 0 := by
      rw [hb _ (Nat.mod_lt _ (by decide)), if_neg (by omega)]
      congr 1; omega
    have r16 : s.w.getD (t % 16) 0 = (schedN w16 48).getD (t - 16) 0 := by
      rw [hb _ hmod, if_neg (by omega)]
      congr 1; omega
    have hnew : ssig1 (s.w.getD ((t % 16 + 14) % 16) 0) + s.w.getD ((t % 16 + 9) % 16) 0 +
        ssig0 (s.w.getD ((t % 16 + 1) % 16) 0) + s.w.getD (t % 16) 0 = (schedN w16 48).getD t 0 := by
      rw [r2, r7, r15, r16, sched_hi w16 hl t (by omega) ht]; rfl
    rw [hnew]
    have hwt : (s.w.setIfInBounds (t % 16) ((schedN w16 48).getD t 0)).getD (t % 16) 0 = (schedN w16 48).getD t 0 := by
      rw [getD_set _ _ _ _ (by omega), if_pos rfl]
    refine ⟨by simp [hsz], ?_, ?_⟩
    · rw [vM_succ, ← hv]
      simp only [hwt]
      simp [sha256Round]
    · intro j hj
      simp only
      rw [getD_set _ _ _ _ (by omega)]
      by_cases hjt : j = t % 16
      · rw [if_pos hjt, if_neg (by omega)]
        congr 1; omega
      · rw [if_neg hjt, hb j hj, if_neg (by omega), if_neg (by omega)]
        congr 1; omega
end

theorem inv_run (st : Array UInt32) (w16 : List UInt32) (raw : Array UInt32) (hl : w16.length = 16)
    (hraw : ∀ j, j < 16 → bswapM (raw.getD j 0) = w16.getD j 0) (s0 : S32) (h0 : Inv st w16 raw 0 s0) :
    ∀ n, n ≤ 64 → Inv st w16 raw n ((List.range n).foldl (fun s t => roundM t s) s0) := by
  intro n
  induction n with
  | zero => intro _; exact h0
  | succ n ih =>
    intro hn
    rw [List.range_succ, List.foldl_append]
    exact inv_step st w16 raw hl hraw n (by omega) _ (ih (by omega))

theorem size8 (x : Array UInt32) (h : x.size = 8) : ∃ a0 a1 a2 a3 a4 a5 a6 a7, x = #[a0, a1, a2, a3, a4, a5, a6, a7] := by
  rcases x with ⟨l⟩
  simp only [List.size_toArray] at h
  match l, h with
  | [a0, a1, a2, a3, a4, a5, a6, a7], _ => exact ⟨a0, a1, a2, a3, a4, a5, a6, a7, rfl⟩

/-- **`sha256_core`** as clang reads it today: on a context whose chaining value is `st` and whose
block buffer, seen as sixteen host-order words `raw`, byte-swaps to the big-endian words of `blk`,
it leaves the model's `sha256Compress st blk` in `state` (and `nbytes` untouched). -/
theorem bridge_sha256_core (ctx : sha256_ctx) (st : Array UInt32) (hst : st.size = 8) (blk : List UInt8)
    (hlen : (wordsBE32 blk).length = 16) (raw : Array UInt32) (hrs : raw.size = 16)
    (hraw : ∀ j, j < 16 → bswapM (raw.getD j 0) = (wordsBE32 blk).getD j 0)
    (hc1 : ctx.state = st.map UInt32.toBitVec) (hc2 : ctx.buf_words = raw.map UInt32.toBitVec) :
    (sha256_core ctx).state = (sha256Compress st blk).map UInt32.toBitVec ∧
    (sha256_core ctx).nbytes = ctx.nbytes := by
  obtain ⟨a0, a1, a2, a3, a4, a5, a6, a7, rfl⟩ := size8 st hst
  let s0 : S32 := { a := a0, b := a1, c := a2, d := a3, e := a4, f := a5, g := a6, h := a7, w := raw }
  have hstart : startG ctx = toS s0 := by
    simp [startG, toS, s0, hc1, hc2]
  have h0 : Inv #[a0, a1, a2, a3, a4, a5, a6, a7] (wordsBE32 blk) raw 0 s0 :=
    ⟨hrs, rfl, fun j hj => by simp [s0]⟩
  have h64 := inv_run _ _ raw hlen hraw s0 h0 64 (Nat.le_refl _)
  rw [core_eq_rounds, hstart, fold_map]
  generalize (List.range 64).foldl (fun s t => roundM t s) s0 = sF at h64
  obtain ⟨_, hv, _⟩ := h64
  refine ⟨?_, rfl⟩
  unfold sha256Compress
  rw [sched_def]
  have : (List.range 64).foldl (sha256Round (schedN (wordsBE32 blk) 48)) #[a0, a1, a2, a3, a4, a5, a6, a7] =
      vM #[a0, a1, a2, a3, a4, a5, a6, a7] (wordsBE32 blk) 64 := rfl
  simp only [this, ← hv]
  simp [finishG, toS, hc1]

/-! ## the block buffer as bytes (little-endian host: `buf.words[i]` is the LE word of `buf.raw[4i..]`) -/

theorem bswap_le_be (b0 b1 b2 b3 : UInt8) : bswapM (le32 b0 b1 b2 b3) = be32 b0 b1 b2 b3 := by
  unfold bswapM le32 be32; bv_decide

theorem bswap_words : ∀ (l : List UInt8) (j : Nat),
    bswapM ((wordsLE32 l).getD j 0) = (wordsBE32 l).getD j 0
  | b0 :: b1 :: b2 :: b3 :: rest, 0 => by simp [wordsLE32, wordsBE32, bswap_le_be]
  | b0 :: b1 :: b2 :: b3 :: rest, j + 1 => by
    have := bswap_words rest j
    simpa [wordsLE32, wordsBE32] using this
  | [], j => by simp [wordsLE32, wordsBE32]; decide
  | [_], j => by simp [wordsLE32, wordsBE32]; decide
  | [_, _], j => by simp [wordsLE32, wordsBE32]; decide
  | [_, _, _], j => by simp [wordsLE32, wordsBE32]; decide

theorem wordsBE32_length : ∀ (l : List UInt8), (wordsBE32 l).length = l.length / 4
  | b0 :: b1 :: b2 :: b3 :: rest => by
    have := wordsBE32_length rest
    simp [wordsBE32, this]; omega
  | [] => by simp [wordsBE32]
  | [_] => by simp [wordsBE32]
  | [_, _] => by simp [wordsBE32]
  | [_, _, _] => by simp [wordsBE32]

theorem wordsLE32_length : ∀ (l : List UInt8), (wordsLE32 l).length = l.length / 4
  | b0 :: b1 :: b2 :: b3 :: rest => by
    have := wordsLE32_length rest
    simp [wordsLE32, this]; omega
  | [] => by simp [wordsLE32]
  | [_] => by simp [wordsLE32]
  | [_, _] => by simp [wordsLE32]
  | [_, _, _] => by simp [wordsLE32]

/-- the same with the buffer given by its 64 bytes, as `sha256_update` / `sha256_final` fill it -/
theorem bridge_sha256_core_bytes (ctx : sha256_ctx) (st : Array UInt32) (hst : st.size = 8) (blk : List UInt8)
    (hblk : blk.length = 64) (hc1 : ctx.state = st.map UInt32.toBitVec)
    (hc2 : ctx.buf_words = (wordsLE32 blk).toArray.map UInt32.toBitVec) :
    (sha256_core ctx).state = (sha256Compress st blk).map UInt32.toBitVec ∧
    (sha256_core ctx).nbytes = ctx.nbytes := by
  refine bridge_sha256_core ctx st hst blk (by rw [wordsBE32_length, hblk]) (wordsLE32 blk).toArray
    (by simp [wordsLE32_length, hblk]) (fun j _ => ?_) hc1 hc2
  have := bswap_words blk j
  simpa [Array.getD_eq_getD_getElem?, List.getD_eq_getElem?_getD] using this

end UsualProofs.Bridge.C05TSha
