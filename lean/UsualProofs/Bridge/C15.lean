import Usual.Gen.C15
import Usual.C15.Heap
import Usual.C15.HashTab
/-! T-tie for C15: the index arithmetic that clang reads in usual/heap.c (`get_parent`,
    `get_child`) and in the `CALC_POS` / `NEXT_POS` / `MAX_USED` macros of usual/hashtab-impl.h
    (translated on every run by extract/c2lean.py into `Usual.Gen.C15`) equals the model's
    arithmetic over ℕ wherever the 32-bit computation does not wrap (heap indices below 2^31,
    table sizes 2^k below 2^26 — far above what a process can allocate). -/
namespace UsualProofs.Bridge.C15
open Usual.C15

theorem bridge_get_parent (i : BitVec 32) (hi : 0 < i.toNat) :
    (Usual.Gen.C15.get_parent i).toNat = Heap.getParent i.toNat := by
  unfold Usual.Gen.C15.get_parent Heap.getParent
  have hlt := i.isLt
  rw [BitVec.toNat_udiv, BitVec.toNat_sub]
  simp only [BitVec.toNat_ofNat]
  have : (2 ^ 32 - 1 % 2 ^ 32 + i.toNat) % 2 ^ 32 = i.toNat - 1 := by omega
  rw [this]

theorem bridge_get_child (i c : BitVec 32) (h : 2 * i.toNat + 1 + c.toNat < 2 ^ 32) :
    (Usual.Gen.C15.get_child i c).toNat = Heap.getChild i.toNat c.toNat := by
  unfold Usual.Gen.C15.get_child Heap.getChild
  simp only [BitVec.toNat_add, BitVec.toNat_mul, BitVec.toNat_ofNat]
  omega

theorem mask_toNat (hsize : BitVec 32) (k : Nat) (hk : hsize.toNat = 2 ^ k) :
    (hsize - 1#32).toNat = 2 ^ k - 1 := by
  have hlt := hsize.isLt
  have hpos : 0 < 2 ^ k := Nat.two_pow_pos k
  rw [BitVec.toNat_sub]
  simp only [BitVec.toNat_ofNat]
  rw [hk] at hlt ⊢
  omega

theorem and_mask_mod (x k : Nat) (hk : k ≤ 32) : (x % 2 ^ 32) &&& (2 ^ k - 1) = x &&& (2 ^ k - 1) := by
  rw [Nat.and_two_pow_sub_one_eq_mod, Nat.and_two_pow_sub_one_eq_mod]
  exact Nat.mod_mod_of_dvd x (Nat.pow_dvd_pow 2 hk)

theorem bridge_next_pos (hsize pos : BitVec 32) (k : Nat) (hk : hsize.toNat = 2 ^ k) :
    (Usual.Gen.C15.t_next_pos hsize pos).toNat = HashTab.nextPos (HashTab.create hsize.toNat) pos.toNat := by
  unfold Usual.Gen.C15.t_next_pos HashTab.nextPos HashTab.mask HashTab.create
  have hk32 : k ≤ 32 := by
    have := hsize.isLt
    rw [hk] at this
    exact Nat.le_of_lt ((Nat.pow_lt_pow_iff_right (by omega)).mp this)
  rw [BitVec.toNat_and, mask_toNat hsize k hk]
  simp only [BitVec.toNat_add, BitVec.toNat_mul, BitVec.toNat_ofNat, hk]
  have : (pos.toNat * (5 % 2 ^ 32) % 2 ^ 32 + 1 % 2 ^ 32) % 2 ^ 32 = (pos.toNat * 5 + 1) % 2 ^ 32 := by omega
  rw [this, and_mask_mod _ k hk32]

theorem bridge_calc_pos (hsize : BitVec 32) (key : BitVec 64) (k : Nat) (hk : hsize.toNat = 2 ^ k) :
    (Usual.Gen.C15.t_calc_pos hsize key).toNat = HashTab.calcPos (HashTab.create hsize.toNat) key.toNat := by
  unfold Usual.Gen.C15.t_calc_pos HashTab.calcPos HashTab.mask HashTab.create
  have hm := mask_toNat hsize k hk
  have hlt : (hsize - 1#32).toNat < 2 ^ 32 := (hsize - 1#32).isLt
  simp only [BitVec.truncate, BitVec.toNat_setWidth, BitVec.toNat_and, BitVec.zeroExtend]
  have h1 : (hsize - 1#32).toNat % 2 ^ 64 = (hsize - 1#32).toNat := Nat.mod_eq_of_lt (by omega)
  rw [h1]
  have hle : key.toNat &&& (hsize - 1#32).toNat ≤ (hsize - 1#32).toNat := Nat.and_le_right
  rw [Nat.mod_eq_of_lt (by omega), hm, hk]

theorem bridge_max_used (hsize : BitVec 32) (h : hsize.toNat * 75 < 2 ^ 32) :
    (Usual.Gen.C15.t_max_used hsize).toNat = HashTab.maxUsed (HashTab.create hsize.toNat) := by
  unfold Usual.Gen.C15.t_max_used HashTab.maxUsed HashTab.create
  rw [BitVec.toNat_udiv, BitVec.toNat_mul]
  simp only [BitVec.toNat_ofNat]
  have : hsize.toNat * (75 % 2 ^ 32) % 2 ^ 32 = hsize.toNat * 75 := by omega
  rw [this]

end UsualProofs.Bridge.C15
