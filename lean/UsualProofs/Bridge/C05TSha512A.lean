import Usual.Gen.C05TSha512
/-!
# C05 translation tie, SHA-512 (part A): the 64 unrolled rounds of `sha512_core`, folded

`Usual.Gen.C05TSha512.sha512_core` (regenerated from usual/crypto/sha512.c on every run) is a chain
of 1217 `let`s.  This file states what one `SHA512_ROUND` block does (`Rlo` for `t < 16`, `Rhi` on the
16-word circular buffer for `t ≥ 16`, common tail `stepG`) and proves, block by block
(`extract_lets` … `rfl` … `clear_value`; the script is produced mechanically from the names in the
generated file), that the whole function is `finishG ctx (roundG 79 (… (roundG 0 (startG ctx))))`.
No axioms beyond the kernel's.  Part B (`Bridge/C05TSha512.lean`) identifies that with the model.
-/
set_option maxRecDepth 100000
namespace UsualProofs.Bridge.C05TSha512
open Usual.Gen.C05TSha512

abbrev W := BitVec 64

/-- the working variables `a … h` and the 16-word circular message buffer `W(n)` -/
structure S where
  a : W
  b : W
  c : W
  d : W
  e : W
  f : W
  g : W
  h : W
  w : Array W

/-- the part of `SHA512_ROUND` after `W(t)` has been set: `tmp1`, `tmp2`, rotation of `a … h` -/
def stepG (k wt : W) (s : S) (w' : Array W) : S :=
  let tmp1 := ((((s.h + (((ror64 s.e (14#32)) ^^^ (ror64 s.e (18#32))) ^^^ (ror64 s.e (41#32)))) + ((s.e &&& s.f) ^^^ ((~~~s.e) &&& s.g))) + k) + wt)
  let tmp2 := ((((ror64 s.a (28#32)) ^^^ (ror64 s.a (34#32))) ^^^ (ror64 s.a (39#32))) + (((s.a &&& s.b) ^^^ (s.a &&& s.c)) ^^^ (s.b &&& s.c)))
  { a := tmp1 + tmp2, b := s.a, c := s.b, d := s.c, e := s.d + tmp1, f := s.e, g := s.f, h := s.g, w := w' }

/-- round `t < 16`: `W(t) = be32toh(W(t))` first -/
def Rlo (j : Nat) (s : S) : S :=
  let w' := s.w.setIfInBounds j (usual_bswap64 (s.w.getD j 0#64))
  stepG (K.getD j 0#64) (w'.getD j 0#64) s w'

/-- round `t ≥ 16` on the circular buffer: `j = t & 15`, `k` = index into `K` -/
def Rhi (j k : Nat) (s : S) : S :=
  let x2 := s.w.getD ((j + 14) % 16) 0#64
  let x15 := s.w.getD ((j + 1) % 16) 0#64
  let w' := s.w.setIfInBounds j ((((((ror64 x2 (19#32)) ^^^ (ror64 x2 (61#32))) ^^^ (x2 >>> ((6#32)).toNat)) + (s.w.getD ((j + 9) % 16) 0#64)) + (((ror64 x15 (1#32)) ^^^ (ror64 x15 (8#32))) ^^^ (x15 >>> ((7#32)).toNat))) + (s.w.getD j 0#64))
  stepG (K.getD k 0#64) (w'.getD j 0#64) s w'

def roundG (t : Nat) (s : S) : S := if t < 16 then Rlo t s else Rhi (t % 16) t s

def finishG (ctx : sha512_ctx) (s : S) : sha512_ctx :=
  let st0 := ctx.state
  let st1 := st0.setIfInBounds 0 ((st0.getD 0 0#64) + s.a)
  let st2 := st1.setIfInBounds 1 ((st1.getD 1 0#64) + s.b)
  let st3 := st2.setIfInBounds 2 ((st2.getD 2 0#64) + s.c)
  let st4 := st3.setIfInBounds 3 ((st3.getD 3 0#64) + s.d)
  let st5 := st4.setIfInBounds 4 ((st4.getD 4 0#64) + s.e)
  let st6 := st5.setIfInBounds 5 ((st5.getD 5 0#64) + s.f)
  let st7 := st6.setIfInBounds 6 ((st6.getD 6 0#64) + s.g)
  let st8 := st7.setIfInBounds 7 ((st7.getD 7 0#64) + s.h)
  { buf_words := s.w, state := st8, nbytes := ctx.nbytes }

def startG (ctx : sha512_ctx) : S :=
  { a := ctx.state.getD 0 0#64, b := ctx.state.getD 1 0#64, c := ctx.state.getD 2 0#64, d := ctx.state.getD 3 0#64,
    e := ctx.state.getD 4 0#64, f := ctx.state.getD 5 0#64, g := ctx.state.getD 6 0#64, h := ctx.state.getD 7 0#64,
    w := ctx.buf_words }

set_option maxHeartbeats 2000000 in
/-- the 80 unrolled rounds of the generated `sha512_core`, folded: what clang reads is
`finishG ctx (roundG 79 (… (roundG 0 (startG ctx))))` -/
theorem core_eq_rounds (ctx : sha512_ctx) :
    sha512_core ctx = finishG ctx ((List.range 80).foldl (fun s t => roundG t s) (startG ctx)) := by
  unfold sha512_core
  extract_lets -merge +onlyGivenNames a_1 b_2 c_3 d_4 e_5 f_6 g_7 h_8 k_pos_9
  have h_s : (S.mk a_1 b_2 c_3 d_4 e_5 f_6 g_7 h_8 ctx.buf_words) = startG ctx := rfl
  extract_lets -merge +onlyGivenNames tmp1_10 tmp2_11 t_12 ctx_buf_words_13 tmp1_14 k_pos_15 tmp2_16 h_17 g_18 f_19 e_20 d_21 c_22 b_23 a_24
  have h0 : (S.mk a_24 b_23 c_22 d_21 e_20 f_19 g_18 h_17 ctx_buf_words_13) = roundG 0 (S.mk a_1 b_2 c_3 d_4 e_5 f_6 g_7 h_8 ctx.buf_words) := rfl
  clear_value a_24 b_23 c_22 d_21 e_20 f_19 g_18 h_17 tmp2_16 k_pos_15 tmp1_14 ctx_buf_words_13 t_12 tmp2_11 tmp1_10
  extract_lets -merge +onlyGivenNames tmp1_25 tmp2_26 t_27 ctx_buf_words_28 tmp1_29 k_pos_30 tmp2_31 h_32 g_33 f_34 e_35 d_36 c_37 b_38 a_39
  have h1 : (S.mk a_39 b_38 c_37 d_36 e_35 f_34 g_33 h_32 ctx_buf_words_28) = roundG 1 (S.mk a_24 b_23 c_22 d_21 e_20 f_19 g_18 h_17 ctx_buf_words_13) := rfl
  clear_value a_39 b_38 c_37 d_36 e_35 f_34 g_33 h_32 tmp2_31 k_pos_30 tmp1_29 ctx_buf_words_28 t_27 tmp2_26 tmp1_25
  extract_lets -merge +onlyGivenNames tmp1_40 tmp2_41 t_42 ctx_buf_words_43 tmp1_44 k_pos_45 tmp2_46 h_47 g_48 f_49 e_50 d_51 c_52 b_53 a_54
  have h2 : (S.mk a_54 b_53 c_52 d_51 e_50 f_49 g_48 h_47 ctx_buf_words_43) = roundG 2 (S.mk a_39 b_38 c_37 d_36 e_35 f_34 g_33 h_32 ctx_buf_words_28) := rfl
  clear_value a_54 b_53 c_52 d_51 e_50 f_49 g_48 h_47 tmp2_46 k_pos_45 tmp1_44 ctx_buf_words_43 t_42 tmp2_41 tmp1_40
  extract_lets -merge +onlyGivenNames tmp1_55 tmp2_56 t_57 ctx_buf_words_58 tmp1_59 k_pos_60 tmp2_61 h_62 g_63 f_64 e_65 d_66 c_67 b_68 a_69
  have h3 : (S.mk a_69 b_68 c_67 d_66 e_65 f_64 g_63 h_62 ctx_buf_words_58) = roundG 3 (S.mk a_54 b_53 c_52 d_51 e_50 f_49 g_48 h_47 ctx_buf_words_43) := rfl
  clear_value a_69 b_68 c_67 d_66 e_65 f_64 g_63 h_62 tmp2_61 k_pos_60 tmp1_59 ctx_buf_words_58 t_57 tmp2_56 tmp1_55
  extract_lets -merge +onlyGivenNames tmp1_70 tmp2_71 t_72 ctx_buf_words_73 tmp1_74 k_pos_75 tmp2_76 h_77 g_78 f_79 e_80 d_81 c_82 b_83 a_84
  have h4 : (S.mk a_84 b_83 c_82 d_81 e_80 f_79 g_78 h_77 ctx_buf_words_73) = roundG 4 (S.mk a_69 b_68 c_67 d_66 e_65 f_64 g_63 h_62 ctx_buf_words_58) := rfl
  clear_value a_84 b_83 c_82 d_81 e_80 f_79 g_78 h_77 tmp2_76 k_pos_75 tmp1_74 ctx_buf_words_73 t_72 tmp2_71 tmp1_70
  extract_lets -merge +onlyGivenNames tmp1_85 tmp2_86 t_87 ctx_buf_words_88 tmp1_89 k_pos_90 tmp2_91 h_92 g_93 f_94 e_95 d_96 c_97 b_98 a_99
  have h5 : (S.mk a_99 b_98 c_97 d_96 e_95 f_94 g_93 h_92 ctx_buf_words_88) = roundG 5 (S.mk a_84 b_83 c_82 d_81 e_80 f_79 g_78 h_77 ctx_buf_words_73) := rfl
  clear_value a_99 b_98 c_97 d_96 e_95 f_94 g_93 h_92 tmp2_91 k_pos_90 tmp1_89 ctx_buf_words_88 t_87 tmp2_86 tmp1_85
  extract_lets -merge +onlyGivenNames tmp1_100 tmp2_101 t_102 ctx_buf_words_103 tmp1_104 k_pos_105 tmp2_106 h_107 g_108 f_109 e_110 d_111 c_112 b_113 a_114
  have h6 : (S.mk a_114 b_113 c_112 d_111 e_110 f_109 g_108 h_107 ctx_buf_words_103) = roundG 6 (S.mk a_99 b_98 c_97 d_96 e_95 f_94 g_93 h_92 ctx_buf_words_88) := rfl
  clear_value a_114 b_113 c_112 d_111 e_110 f_109 g_108 h_107 tmp2_106 k_pos_105 tmp1_104 ctx_buf_words_103 t_102 tmp2_101 tmp1_100
  extract_lets -merge +onlyGivenNames tmp1_115 tmp2_116 t_117 ctx_buf_words_118 tmp1_119 k_pos_120 tmp2_121 h_122 g_123 f_124 e_125 d_126 c_127 b_128 a_129
  have h7 : (S.mk a_129 b_128 c_127 d_126 e_125 f_124 g_123 h_122 ctx_buf_words_118) = roundG 7 (S.mk a_114 b_113 c_112 d_111 e_110 f_109 g_108 h_107 ctx_buf_words_103) := rfl
  clear_value a_129 b_128 c_127 d_126 e_125 f_124 g_123 h_122 tmp2_121 k_pos_120 tmp1_119 ctx_buf_words_118 t_117 tmp2_116 tmp1_115
  extract_lets -merge +onlyGivenNames tmp1_130 tmp2_131 t_132 ctx_buf_words_133 tmp1_134 k_pos_135 tmp2_136 h_137 g_138 f_139 e_140 d_141 c_142 b_143 a_144
  have h8 : (S.mk a_144 b_143 c_142 d_141 e_140 f_139 g_138 h_137 ctx_buf_words_133) = roundG 8 (S.mk a_129 b_128 c_127 d_126 e_125 f_124 g_123 h_122 ctx_buf_words_118) := rfl
  clear_value a_144 b_143 c_142 d_141 e_140 f_139 g_138 h_137 tmp2_136 k_pos_135 tmp1_134 ctx_buf_words_133 t_132 tmp2_131 tmp1_130
  extract_lets -merge +onlyGivenNames tmp1_145 tmp2_146 t_147 ctx_buf_words_148 tmp1_149 k_pos_150 tmp2_151 h_152 g_153 f_154 e_155 d_156 c_157 b_158 a_159
  have h9 : (S.mk a_159 b_158 c_157 d_156 e_155 f_154 g_153 h_152 ctx_buf_words_148) = roundG 9 (S.mk a_144 b_143 c_142 d_141 e_140 f_139 g_138 h_137 ctx_buf_words_133) := rfl
  clear_value a_159 b_158 c_157 d_156 e_155 f_154 g_153 h_152 tmp2_151 k_pos_150 tmp1_149 ctx_buf_words_148 t_147 tmp2_146 tmp1_145
  extract_lets -merge +onlyGivenNames tmp1_160 tmp2_161 t_162 ctx_buf_words_163 tmp1_164 k_pos_165 tmp2_166 h_167 g_168 f_169 e_170 d_171 c_172 b_173 a_174
  have h10 : (S.mk a_174 b_173 c_172 d_171 e_170 f_169 g_168 h_167 ctx_buf_words_163) = roundG 10 (S.mk a_159 b_158 c_157 d_156 e_155 f_154 g_153 h_152 ctx_buf_words_148) := rfl
  clear_value a_174 b_173 c_172 d_171 e_170 f_169 g_168 h_167 tmp2_166 k_pos_165 tmp1_164 ctx_buf_words_163 t_162 tmp2_161 tmp1_160
  extract_lets -merge +onlyGivenNames tmp1_175 tmp2_176 t_177 ctx_buf_words_178 tmp1_179 k_pos_180 tmp2_181 h_182 g_183 f_184 e_185 d_186 c_187 b_188 a_189
  have h11 : (S.mk a_189 b_188 c_187 d_186 e_185 f_184 g_183 h_182 ctx_buf_words_178) = roundG 11 (S.mk a_174 b_173 c_172 d_171 e_170 f_169 g_168 h_167 ctx_buf_words_163) := rfl
  clear_value a_189 b_188 c_187 d_186 e_185 f_184 g_183 h_182 tmp2_181 k_pos_180 tmp1_179 ctx_buf_words_178 t_177 tmp2_176 tmp1_175
  extract_lets -merge +onlyGivenNames tmp1_190 tmp2_191 t_192 ctx_buf_words_193 tmp1_194 k_pos_195 tmp2_196 h_197 g_198 f_199 e_200 d_201 c_202 b_203 a_204
  have h12 : (S.mk a_204 b_203 c_202 d_201 e_200 f_199 g_198 h_197 ctx_buf_words_193) = roundG 12 (S.mk a_189 b_188 c_187 d_186 e_185 f_184 g_183 h_182 ctx_buf_words_178) := rfl
  clear_value a_204 b_203 c_202 d_201 e_200 f_199 g_198 h_197 tmp2_196 k_pos_195 tmp1_194 ctx_buf_words_193 t_192 tmp2_191 tmp1_190
  extract_lets -merge +onlyGivenNames tmp1_205 tmp2_206 t_207 ctx_buf_words_208 tmp1_209 k_pos_210 tmp2_211 h_212 g_213 f_214 e_215 d_216 c_217 b_218 a_219
  have h13 : (S.mk a_219 b_218 c_217 d_216 e_215 f_214 g_213 h_212 ctx_buf_words_208) = roundG 13 (S.mk a_204 b_203 c_202 d_201 e_200 f_199 g_198 h_197 ctx_buf_words_193) := rfl
  clear_value a_219 b_218 c_217 d_216 e_215 f_214 g_213 h_212 tmp2_211 k_pos_210 tmp1_209 ctx_buf_words_208 t_207 tmp2_206 tmp1_205
  extract_lets -merge +onlyGivenNames tmp1_220 tmp2_221 t_222 ctx_buf_words_223 tmp1_224 k_pos_225 tmp2_226 h_227 g_228 f_229 e_230 d_231 c_232 b_233 a_234
  have h14 : (S.mk a_234 b_233 c_232 d_231 e_230 f_229 g_228 h_227 ctx_buf_words_223) = roundG 14 (S.mk a_219 b_218 c_217 d_216 e_215 f_214 g_213 h_212 ctx_buf_words_208) := rfl
  clear_value a_234 b_233 c_232 d_231 e_230 f_229 g_228 h_227 tmp2_226 k_pos_225 tmp1_224 ctx_buf_words_223 t_222 tmp2_221 tmp1_220
  extract_lets -merge +onlyGivenNames tmp1_235 tmp2_236 t_237 ctx_buf_words_238 tmp1_239 k_pos_240 tmp2_241 h_242 g_243 f_244 e_245 d_246 c_247 b_248 a_249
  have h15 : (S.mk a_249 b_248 c_247 d_246 e_245 f_244 g_243 h_242 ctx_buf_words_238) = roundG 15 (S.mk a_234 b_233 c_232 d_231 e_230 f_229 g_228 h_227 ctx_buf_words_223) := rfl
  clear_value a_249 b_248 c_247 d_246 e_245 f_244 g_243 h_242 tmp2_241 k_pos_240 tmp1_239 ctx_buf_words_238 t_237 tmp2_236 tmp1_235
  extract_lets -merge +onlyGivenNames tmp1_250 tmp2_251 t_252 ctx_buf_words_253 tmp1_254 k_pos_255 tmp2_256 h_257 g_258 f_259 e_260 d_261 c_262 b_263 a_264
  have h16 : (S.mk a_264 b_263 c_262 d_261 e_260 f_259 g_258 h_257 ctx_buf_words_253) = roundG 16 (S.mk a_249 b_248 c_247 d_246 e_245 f_244 g_243 h_242 ctx_buf_words_238) := rfl
  clear_value a_264 b_263 c_262 d_261 e_260 f_259 g_258 h_257 tmp2_256 k_pos_255 tmp1_254 ctx_buf_words_253 t_252 tmp2_251 tmp1_250
  extract_lets -merge +onlyGivenNames tmp1_265 tmp2_266 t_267 ctx_buf_words_268 tmp1_269 k_pos_270 tmp2_271 h_272 g_273 f_274 e_275 d_276 c_277 b_278 a_279
  have h17 : (S.mk a_279 b_278 c_277 d_276 e_275 f_274 g_273 h_272 ctx_buf_words_268) = roundG 17 (S.mk a_264 b_263 c_262 d_261 e_260 f_259 g_258 h_257 ctx_buf_words_253) := rfl
  clear_value a_279 b_278 c_277 d_276 e_275 f_274 g_273 h_272 tmp2_271 k_pos_270 tmp1_269 ctx_buf_words_268 t_267 tmp2_266 tmp1_265
  extract_lets -merge +onlyGivenNames tmp1_280 tmp2_281 t_282 ctx_buf_words_283 tmp1_284 k_pos_285 tmp2_286 h_287 g_288 f_289 e_290 d_291 c_292 b_293 a_294
  have h18 : (S.mk a_294 b_293 c_292 d_291 e_290 f_289 g_288 h_287 ctx_buf_words_283) = roundG 18 (S.mk a_279 b_278 c_277 d_276 e_275 f_274 g_273 h_272 ctx_buf_words_268) := rfl
  clear_value a_294 b_293 c_292 d_291 e_290 f_289 g_288 h_287 tmp2_286 k_pos_285 tmp1_284 ctx_buf_words_283 t_282 tmp2_281 tmp1_280
  extract_lets -merge +onlyGivenNames tmp1_295 tmp2_296 t_297 ctx_buf_words_298 tmp1_299 k_pos_300 tmp2_301 h_302 g_303 f_304 e_305 d_306 c_307 b_308 a_309
  have h19 : (S.mk a_309 b_308 c_307 d_306 e_305 f_304 g_303 h_302 ctx_buf_words_298) = roundG 19 (S.mk a_294 b_293 c_292 d_291 e_290 f_289 g_288 h_287 ctx_buf_words_283) := rfl
  clear_value a_309 b_308 c_307 d_306 e_305 f_304 g_303 h_302 tmp2_301 k_pos_300 tmp1_299 ctx_buf_words_298 t_297 tmp2_296 tmp1_295
  extract_lets -merge +onlyGivenNames tmp1_310 tmp2_311 t_312 ctx_buf_words_313 tmp1_314 k_pos_315 tmp2_316 h_317 g_318 f_319 e_320 d_321 c_322 b_323 a_324
  have h20 : (S.mk a_324 b_323 c_322 d_321 e_320 f_319 g_318 h_317 ctx_buf_words_313) = roundG 20 (S.mk a_309 b_308 c_307 d_306 e_305 f_304 g_303 h_302 ctx_buf_words_298) := rfl
  clear_value a_324 b_323 c_322 d_321 e_320 f_319 g_318 h_317 tmp2_316 k_pos_315 tmp1_314 ctx_buf_words_313 t_312 tmp2_311 tmp1_310
  extract_lets -merge +onlyGivenNames tmp1_325 tmp2_326 t_327 ctx_buf_words_328 tmp1_329 k_pos_330 tmp2_331 h_332 g_333 f_334 e_335 d_336 c_337 b_338 a_339
  have h21 : (S.mk a_339 b_338 c_337 d_336 e_335 f_334 g_333 h_332 ctx_buf_words_328) = roundG 21 (S.mk a_324 b_323 c_322 d_321 e_320 f_319 g_318 h_317 ctx_buf_words_313) := rfl
  clear_value a_339 b_338 c_337 d_336 e_335 f_334 g_333 h_332 tmp2_331 k_pos_330 tmp1_329 ctx_buf_words_328 t_327 tmp2_326 tmp1_325
  extract_lets -merge +onlyGivenNames tmp1_340 tmp2_341 t_342 ctx_buf_words_343 tmp1_344 k_pos_345 tmp2_346 h_347 g_348 f_349 e_350 d_351 c_352 b_353 a_354
  have h22 : (S.mk a_354 b_353 c_352 d_351 e_350 f_349 g_348 h_347 ctx_buf_words_343) = roundG 22 (S.mk a_339 b_338 c_337 d_336 e_335 f_334 g_333 h_332 ctx_buf_words_328) := rfl
  clear_value a_354 b_353 c_352 d_351 e_350 f_349 g_348 h_347 tmp2_346 k_pos_345 tmp1_344 ctx_buf_words_343 t_342 tmp2_341 tmp1_340
  extract_lets -merge +onlyGivenNames tmp1_355 tmp2_356 t_357 ctx_buf_words_358 tmp1_359 k_pos_360 tmp2_361 h_362 g_363 f_364 e_365 d_366 c_367 b_368 a_369
  have h23 : (S.mk a_369 b_368 c_367 d_366 e_365 f_364 g_363 h_362 ctx_buf_words_358) = roundG 23 (S.mk a_354 b_353 c_352 d_351 e_350 f_349 g_348 h_347 ctx_buf_words_343) := rfl
  clear_value a_369 b_368 c_367 d_366 e_365 f_364 g_363 h_362 tmp2_361 k_pos_360 tmp1_359 ctx_buf_words_358 t_357 tmp2_356 tmp1_355
  extract_lets -merge +onlyGivenNames tmp1_370 tmp2_371 t_372 ctx_buf_words_373 tmp1_374 k_pos_375 tmp2_376 h_377 g_378 f_379 e_380 d_381 c_382 b_383 a_384
  have h24 : (S.mk a_384 b_383 c_382 d_381 e_380 f_379 g_378 h_377 ctx_buf_words_373) = roundG 24 (S.mk a_369 b_368 c_367 d_366 e_365 f_364 g_363 h_362 ctx_buf_words_358) := rfl
  clear_value a_384 b_383 c_382 d_381 e_380 f_379 g_378 h_377 tmp2_376 k_pos_375 tmp1_374 ctx_buf_words_373 t_372 tmp2_371 tmp1_370
  extract_lets -merge +onlyGivenNames tmp1_385 tmp2_386 t_387 ctx_buf_words_388 tmp1_389 k_pos_390 tmp2_391 h_392 g_393 f_394 e_395 d_396 c_397 b_398 a_399
  have h25 : (S.mk a_399 b_398 c_397 d_396 e_395 f_394 g_393 h_392 ctx_buf_words_388) = roundG 25 (S.mk a_384 b_383 c_382 d_381 e_380 f_379 g_378 h_377 ctx_buf_words_373) := rfl
  clear_value a_399 b_398 c_397 d_396 e_395 f_394 g_393 h_392 tmp2_391 k_pos_390 tmp1_389 ctx_buf_words_388 t_387 tmp2_386 tmp1_385
  extract_lets -merge +onlyGivenNames tmp1_400 tmp2_401 t_402 ctx_buf_words_403 tmp1_404 k_pos_405 tmp2_406 h_407 g_408 f_409 e_410 d_411 c_412 b_413 a_414
  have h26 : (S.mk a_414 b_413 c_412 d_411 e_410 f_409 g_408 h_407 ctx_buf_words_403) = roundG 26 (S.mk a_399 b_398 c_397 d_396 e_395 f_394 g_393 h_392 ctx_buf_words_388) := rfl
  clear_value a_414 b_413 c_412 d_411 e_410 f_409 g_408 h_407 tmp2_406 k_pos_405 tmp1_404 ctx_buf_words_403 t_402 tmp2_401 tmp1_400
  extract_lets -merge +onlyGivenNames tmp1_415 tmp2_416 t_417 ctx_buf_words_418 tmp1_419 k_pos_420 tmp2_421 h_422 g_423 f_424 e_425 d_426 c_427 b_428 a_429
  have h27 : (S.mk a_429 b_428 c_427 d_426 e_425 f_424 g_423 h_422 ctx_buf_words_418) = roundG 27 (S.mk a_414 b_413 c_412 d_411 e_410 f_409 g_408 h_407 ctx_buf_words_403) := rfl
  clear_value a_429 b_428 c_427 d_426 e_425 f_424 g_423 h_422 tmp2_421 k_pos_420 tmp1_419 ctx_buf_words_418 t_417 tmp2_416 tmp1_415
  extract_lets -merge +onlyGivenNames tmp1_430 tmp2_431 t_432 ctx_buf_words_433 tmp1_434 k_pos_435 tmp2_436 h_437 g_438 f_439 e_440 d_441 c_442 b_443 a_444
  have h28 : (S.mk a_444 b_443 c_442 d_441 e_440 f_439 g_438 h_437 ctx_buf_words_433) = roundG 28 (S.mk a_429 b_428 c_427 d_426 e_425 f_424 g_423 h_422 ctx_buf_words_418) := rfl
  clear_value a_444 b_443 c_442 d_441 e_440 f_439 g_438 h_437 tmp2_436 k_pos_435 tmp1_434 ctx_buf_words_433 t_432 tmp2_431 tmp1_430
  extract_lets -merge +onlyGivenNames tmp1_445 tmp2_446 t_447 ctx_buf_words_448 tmp1_449 k_pos_450 tmp2_451 h_452 g_453 f_454 e_455 d_456 c_457 b_458 a_459
  have h29 : (S.mk a_459 b_458 c_457 d_456 e_455 f_454 g_453 h_452 ctx_buf_words_448) = roundG 29 (S.mk a_444 b_443 c_442 d_441 e_440 f_439 g_438 h_437 ctx_buf_words_433) := rfl
  clear_value a_459 b_458 c_457 d_456 e_455 f_454 g_453 h_452 tmp2_451 k_pos_450 tmp1_449 ctx_buf_words_448 t_447 tmp2_446 tmp1_445
  extract_lets -merge +onlyGivenNames tmp1_460 tmp2_461 t_462 ctx_buf_words_463 tmp1_464 k_pos_465 tmp2_466 h_467 g_468 f_469 e_470 d_471 c_472 b_473 a_474
  have h30 : (S.mk a_474 b_473 c_472 d_471 e_470 f_469 g_468 h_467 ctx_buf_words_463) = roundG 30 (S.mk a_459 b_458 c_457 d_456 e_455 f_454 g_453 h_452 ctx_buf_words_448) := rfl
  clear_value a_474 b_473 c_472 d_471 e_470 f_469 g_468 h_467 tmp2_466 k_pos_465 tmp1_464 ctx_buf_words_463 t_462 tmp2_461 tmp1_460
  extract_lets -merge +onlyGivenNames tmp1_475 tmp2_476 t_477 ctx_buf_words_478 tmp1_479 k_pos_480 tmp2_481 h_482 g_483 f_484 e_485 d_486 c_487 b_488 a_489
  have h31 : (S.mk a_489 b_488 c_487 d_486 e_485 f_484 g_483 h_482 ctx_buf_words_478) = roundG 31 (S.mk a_474 b_473 c_472 d_471 e_470 f_469 g_468 h_467 ctx_buf_words_463) := rfl
  clear_value a_489 b_488 c_487 d_486 e_485 f_484 g_483 h_482 tmp2_481 k_pos_480 tmp1_479 ctx_buf_words_478 t_477 tmp2_476 tmp1_475
  extract_lets -merge +onlyGivenNames tmp1_490 tmp2_491 t_492 ctx_buf_words_493 tmp1_494 k_pos_495 tmp2_496 h_497 g_498 f_499 e_500 d_501 c_502 b_503 a_504
  have h32 : (S.mk a_504 b_503 c_502 d_501 e_500 f_499 g_498 h_497 ctx_buf_words_493) = roundG 32 (S.mk a_489 b_488 c_487 d_486 e_485 f_484 g_483 h_482 ctx_buf_words_478) := rfl
  clear_value a_504 b_503 c_502 d_501 e_500 f_499 g_498 h_497 tmp2_496 k_pos_495 tmp1_494 ctx_buf_words_493 t_492 tmp2_491 tmp1_490
  extract_lets -merge +onlyGivenNames tmp1_505 tmp2_506 t_507 ctx_buf_words_508 tmp1_509 k_pos_510 tmp2_511 h_512 g_513 f_514 e_515 d_516 c_517 b_518 a_519
  have h33 : (S.mk a_519 b_518 c_517 d_516 e_515 f_514 g_513 h_512 ctx_buf_words_508) = roundG 33 (S.mk a_504 b_503 c_502 d_501 e_500 f_499 g_498 h_497 ctx_buf_words_493) := rfl
  clear_value a_519 b_518 c_517 d_516 e_515 f_514 g_513 h_512 tmp2_511 k_pos_510 tmp1_509 ctx_buf_words_508 t_507 tmp2_506 tmp1_505
  extract_lets -merge +onlyGivenNames tmp1_520 tmp2_521 t_522 ctx_buf_words_523 tmp1_524 k_pos_525 tmp2_526 h_527 g_528 f_529 e_530 d_531 c_532 b_533 a_534
  have h34 : (S.mk a_534 b_533 c_532 d_531 e_530 f_529 g_528 h_527 ctx_buf_words_523) = roundG 34 (S.mk a_519 b_518 c_517 d_516 e_515 f_514 g_513 h_512 ctx_buf_words_508) := rfl
  clear_value a_534 b_533 c_532 d_531 e_530 f_529 g_528 h_527 tmp2_526 k_pos_525 tmp1_524 ctx_buf_words_523 t_522 tmp2_521 tmp1_520
  extract_lets -merge +onlyGivenNames tmp1_535 tmp2_536 t_537 ctx_buf_words_538 tmp1_539 k_pos_540 tmp2_541 h_542 g_543 f_544 e_545 d_546 c_547 b_548 a_549
  have h35 : (S.mk a_549 b_548 c_547 d_546 e_545 f_544 g_543 h_542 ctx_buf_words_538) = roundG 35 (S.mk a_534 b_533 c_532 d_531 e_530 f_529 g_528 h_527 ctx_buf_words_523) := rfl
  clear_value a_549 b_548 c_547 d_546 e_545 f_544 g_543 h_542 tmp2_541 k_pos_540 tmp1_539 ctx_buf_words_538 t_537 tmp2_536 tmp1_535
  extract_lets -merge +onlyGivenNames tmp1_550 tmp2_551 t_552 ctx_buf_words_553 tmp1_554 k_pos_555 tmp2_556 h_557 g_558 f_559 e_560 d_561 c_562 b_563 a_564
  have h36 : (S.mk a_564 b_563 c_562 d_561 e_560 f_559 g_558 h_557 ctx_buf_words_553) = roundG 36 (S.mk a_549 b_548 c_547 d_546 e_545 f_544 g_543 h_542 ctx_buf_words_538) := rfl
  clear_value a_564 b_563 c_562 d_561 e_560 f_559 g_558 h_557 tmp2_556 k_pos_555 tmp1_554 ctx_buf_words_553 t_552 tmp2_551 tmp1_550
  extract_lets -merge +onlyGivenNames tmp1_565 tmp2_566 t_567 ctx_buf_words_568 tmp1_569 k_pos_570 tmp2_571 h_572 g_573 f_574 e_575 d_576 c_577 b_578 a_579
  have h37 : (S.mk a_579 b_578 c_577 d_576 e_575 f_574 g_573 h_572 ctx_buf_words_568) = roundG 37 (S.mk a_564 b_563 c_562 d_561 e_560 f_559 g_558 h_557 ctx_buf_words_553) := rfl
  clear_value a_579 b_578 c_577 d_576 e_575 f_574 g_573 h_572 tmp2_571 k_pos_570 tmp1_569 ctx_buf_words_568 t_567 tmp2_566 tmp1_565
  extract_lets -merge +onlyGivenNames tmp1_580 tmp2_581 t_582 ctx_buf_words_583 tmp1_584 k_pos_585 tmp2_586 h_587 g_588 f_589 e_590 d_591 c_592 b_593 a_594
  have h38 : (S.mk a_594 b_593 c_592 d_591 e_590 f_589 g_588 h_587 ctx_buf_words_583) = roundG 38 (S.mk a_579 b_578 c_577 d_576 e_575 f_574 g_573 h_572 ctx_buf_words_568) := rfl
  clear_value a_594 b_593 c_592 d_591 e_590 f_589 g_588 h_587 tmp2_586 k_pos_585 tmp1_584 ctx_buf_words_583 t_582 tmp2_581 tmp1_580
  extract_lets -merge +onlyGivenNames tmp1_595 tmp2_596 t_597 ctx_buf_words_598 tmp1_599 k_pos_600 tmp2_601 h_602 g_603 f_604 e_605 d_606 c_607 b_608 a_609
  have h39 : (S.mk a_609 b_608 c_607 d_606 e_605 f_604 g_603 h_602 ctx_buf_words_598) = roundG 39 (S.mk a_594 b_593 c_592 d_591 e_590 f_589 g_588 h_587 ctx_buf_words_583) := rfl
  clear_value a_609 b_608 c_607 d_606 e_605 f_604 g_603 h_602 tmp2_601 k_pos_600 tmp1_599 ctx_buf_words_598 t_597 tmp2_596 tmp1_595
  extract_lets -merge +onlyGivenNames tmp1_610 tmp2_611 t_612 ctx_buf_words_613 tmp1_614 k_pos_615 tmp2_616 h_617 g_618 f_619 e_620 d_621 c_622 b_623 a_624
  have h40 : (S.mk a_624 b_623 c_622 d_621 e_620 f_619 g_618 h_617 ctx_buf_words_613) = roundG 40 (S.mk a_609 b_608 c_607 d_606 e_605 f_604 g_603 h_602 ctx_buf_words_598) := rfl
  clear_value a_624 b_623 c_622 d_621 e_620 f_619 g_618 h_617 tmp2_616 k_pos_615 tmp1_614 ctx_buf_words_613 t_612 tmp2_611 tmp1_610
  extract_lets -merge +onlyGivenNames tmp1_625 tmp2_626 t_627 ctx_buf_words_628 tmp1_629 k_pos_630 tmp2_631 h_632 g_633 f_634 e_635 d_636 c_637 b_638 a_639
  have h41 : (S.mk a_639 b_638 c_637 d_636 e_635 f_634 g_633 h_632 ctx_buf_words_628) = roundG 41 (S.mk a_624 b_623 c_622 d_621 e_620 f_619 g_618 h_617 ctx_buf_words_613) := rfl
  clear_value a_639 b_638 c_637 d_636 e_635 f_634 g_633 h_632 tmp2_631 k_pos_630 tmp1_629 ctx_buf_words_628 t_627 tmp2_626 tmp1_625
  extract_lets -merge +onlyGivenNames tmp1_640 tmp2_641 t_642 ctx_buf_words_643 tmp1_644 k_pos_645 tmp2_646 h_647 g_648 f_649 e_650 d_651 c_652 b_653 a_654
  have h42 : (S.mk a_654 b_653 c_652 d_651 e_650 f_649 g_648 h_647 ctx_buf_words_643) = roundG 42 (S.mk a_639 b_638 c_637 d_636 e_635 f_634 g_633 h_632 ctx_buf_words_628) := rfl
  clear_value a_654 b_653 c_652 d_651 e_650 f_649 g_648 h_647 tmp2_646 k_pos_645 tmp1_644 ctx_buf_words_643 t_642 tmp2_641 tmp1_640
  extract_lets -merge +onlyGivenNames tmp1_655 tmp2_656 t_657 ctx_buf_words_658 tmp1_659 k_pos_660 tmp2_661 h_662 g_663 f_664 e_665 d_666 c_667 b_668 a_669
  have h43 : (S.mk a_669 b_668 c_667 d_666 e_665 f_664 g_663 h_662 ctx_buf_words_658) = roundG 43 (S.mk a_654 b_653 c_652 d_651 e_650 f_649 g_648 h_647 ctx_buf_words_643) := rfl
  clear_value a_669 b_668 c_667 d_666 e_665 f_664 g_663 h_662 tmp2_661 k_pos_660 tmp1_659 ctx_buf_words_658 t_657 tmp2_656 tmp1_655
  extract_lets -merge +onlyGivenNames tmp1_670 tmp2_671 t_672 ctx_buf_words_673 tmp1_674 k_pos_675 tmp2_676 h_677 g_678 f_679 e_680 d_681 c_682 b_683 a_684
  have h44 : (S.mk a_684 b_683 c_682 d_681 e_680 f_679 g_678 h_677 ctx_buf_words_673) = roundG 44 (S.mk a_669 b_668 c_667 d_666 e_665 f_664 g_663 h_662 ctx_buf_words_658) := rfl
  clear_value a_684 b_683 c_682 d_681 e_680 f_679 g_678 h_677 tmp2_676 k_pos_675 tmp1_674 ctx_buf_words_673 t_672 tmp2_671 tmp1_670
  extract_lets -merge +onlyGivenNames tmp1_685 tmp2_686 t_687 ctx_buf_words_688 tmp1_689 k_pos_690 tmp2_691 h_692 g_693 f_694 e_695 d_696 c_697 b_698 a_699
  have h45 : (S.mk a_699 b_698 c_697 d_696 e_695 f_694 g_693 h_692 ctx_buf_words_688) = roundG 45 (S.mk a_684 b_683 c_682 d_681 e_680 f_679 g_678 h_677 ctx_buf_words_673) := rfl
  clear_value a_699 b_698 c_697 d_696 e_695 f_694 g_693 h_692 tmp2_691 k_pos_690 tmp1_689 ctx_buf_words_688 t_687 tmp2_686 tmp1_685
  extract_lets -merge +onlyGivenNames tmp1_700 tmp2_701 t_702 ctx_buf_words_703 tmp1_704 k_pos_705 tmp2_706 h_707 g_708 f_709 e_710 d_711 c_712 b_713 a_714
  have h46 : (S.mk a_714 b_713 c_712 d_711 e_710 f_709 g_708 h_707 ctx_buf_words_703) = roundG 46 (S.mk a_699 b_698 c_697 d_696 e_695 f_694 g_693 h_692 ctx_buf_words_688) := rfl
  clear_value a_714 b_713 c_712 d_711 e_710 f_709 g_708 h_707 tmp2_706 k_pos_705 tmp1_704 ctx_buf_words_703 t_702 tmp2_701 tmp1_700
  extract_lets -merge +onlyGivenNames tmp1_715 tmp2_716 t_717 ctx_buf_words_718 tmp1_719 k_pos_720 tmp2_721 h_722 g_723 f_724 e_725 d_726 c_727 b_728 a_729
  have h47 : (S.mk a_729 b_728 c_727 d_726 e_725 f_724 g_723 h_722 ctx_buf_words_718) = roundG 47 (S.mk a_714 b_713 c_712 d_711 e_710 f_709 g_708 h_707 ctx_buf_words_703) := rfl
  clear_value a_729 b_728 c_727 d_726 e_725 f_724 g_723 h_722 tmp2_721 k_pos_720 tmp1_719 ctx_buf_words_718 t_717 tmp2_716 tmp1_715
  extract_lets -merge +onlyGivenNames tmp1_730 tmp2_731 t_732 ctx_buf_words_733 tmp1_734 k_pos_735 tmp2_736 h_737 g_738 f_739 e_740 d_741 c_742 b_743 a_744
  have h48 : (S.mk a_744 b_743 c_742 d_741 e_740 f_739 g_738 h_737 ctx_buf_words_733) = roundG 48 (S.mk a_729 b_728 c_727 d_726 e_725 f_724 g_723 h_722 ctx_buf_words_718) := rfl
  clear_value a_744 b_743 c_742 d_741 e_740 f_739 g_738 h_737 tmp2_736 k_pos_735 tmp1_734 ctx_buf_words_733 t_732 tmp2_731 tmp1_730
  extract_lets -merge +onlyGivenNames tmp1_745 tmp2_746 t_747 ctx_buf_words_748 tmp1_749 k_pos_750 tmp2_751 h_752 g_753 f_754 e_755 d_756 c_757 b_758 a_759
  have h49 : (S.mk a_759 b_758 c_757 d_756 e_755 f_754 g_753 h_752 ctx_buf_words_748) = roundG 49 (S.mk a_744 b_743 c_742 d_741 e_740 f_739 g_738 h_737 ctx_buf_words_733) := rfl
  clear_value a_759 b_758 c_757 d_756 e_755 f_754 g_753 h_752 tmp2_751 k_pos_750 tmp1_749 ctx_buf_words_748 t_747 tmp2_746 tmp1_745
  extract_lets -merge +onlyGivenNames tmp1_760 tmp2_761 t_762 ctx_buf_words_763 tmp1_764 k_pos_765 tmp2_766 h_767 g_768 f_769 e_770 d_771 c_772 b_773 a_774
  have h50 : (S.mk a_774 b_773 c_772 d_771 e_770 f_769 g_768 h_767 ctx_buf_words_763) = roundG 50 (S.mk a_759 b_758 c_757 d_756 e_755 f_754 g_753 h_752 ctx_buf_words_748) := rfl
  clear_value a_774 b_773 c_772 d_771 e_770 f_769 g_768 h_767 tmp2_766 k_pos_765 tmp1_764 ctx_buf_words_763 t_762 tmp2_761 tmp1_760
  extract_lets -merge +onlyGivenNames tmp1_775 tmp2_776 t_777 ctx_buf_words_778 tmp1_779 k_pos_780 tmp2_781 h_782 g_783 f_784 e_785 d_786 c_787 b_788 a_789
  have h51 : (S.mk a_789 b_788 c_787 d_786 e_785 f_784 g_783 h_782 ctx_buf_words_778) = roundG 51 (S.mk a_774 b_773 c_772 d_771 e_770 f_769 g_768 h_767 ctx_buf_words_763) := rfl
  clear_value a_789 b_788 c_787 d_786 e_785 f_784 g_783 h_782 tmp2_781 k_pos_780 tmp1_779 ctx_buf_words_778 t_777 tmp2_776 tmp1_775
  extract_lets -merge +onlyGivenNames tmp1_790 tmp2_791 t_792 ctx_buf_words_793 tmp1_794 k_pos_795 tmp2_796 h_797 g_798 f_799 e_800 d_801 c_802 b_803 a_804
  have h52 : (S.mk a_804 b_803 c_802 d_801 e_800 f_799 g_798 h_797 ctx_buf_words_793) = roundG 52 (S.mk a_789 b_788 c_787 d_786 e_785 f_784 g_783 h_782 ctx_buf_words_778) := rfl
  clear_value a_804 b_803 c_802 d_801 e_800 f_799 g_798 h_797 tmp2_796 k_pos_795 tmp1_794 ctx_buf_words_793 t_792 tmp2_791 tmp1_790
  extract_lets -merge +onlyGivenNames tmp1_805 tmp2_806 t_807 ctx_buf_words_808 tmp1_809 k_pos_810 tmp2_811 h_812 g_813 f_814 e_815 d_816 c_817 b_818 a_819
  have h53 : (S.mk a_819 b_818 c_817 d_816 e_815 f_814 g_813 h_812 ctx_buf_words_808) = roundG 53 (S.mk a_804 b_803 c_802 d_801 e_800 f_799 g_798 h_797 ctx_buf_words_793) := rfl
  clear_value a_819 b_818 c_817 d_816 e_815 f_814 g_813 h_812 tmp2_811 k_pos_810 tmp1_809 ctx_buf_words_808 t_807 tmp2_806 tmp1_805
  extract_lets -merge +onlyGivenNames tmp1_820 tmp2_821 t_822 ctx_buf_words_823 tmp1_824 k_pos_825 tmp2_826 h_827 g_828 f_829 e_830 d_831 c_832 b_833 a_834
  have h54 : (S.mk a_834 b_833 c_832 d_831 e_830 f_829 g_828 h_827 ctx_buf_words_823) = roundG 54 (S.mk a_819 b_818 c_817 d_816 e_815 f_814 g_813 h_812 ctx_buf_words_808) := rfl
  clear_value a_834 b_833 c_832 d_831 e_830 f_829 g_828 h_827 tmp2_826 k_pos_825 tmp1_824 ctx_buf_words_823 t_822 tmp2_821 tmp1_820
  extract_lets -merge +onlyGivenNames tmp1_835 tmp2_836 t_837 ctx_buf_words_838 tmp1_839 k_pos_840 tmp2_841 h_842 g_843 f_844 e_845 d_846 c_847 b_848 a_849
  have h55 : (S.mk a_849 b_848 c_847 d_846 e_845 f_844 g_843 h_842 ctx_buf_words_838) = roundG 55 (S.mk a_834 b_833 c_832 d_831 e_830 f_829 g_828 h_827 ctx_buf_words_823) := rfl
  clear_value a_849 b_848 c_847 d_846 e_845 f_844 g_843 h_842 tmp2_841 k_pos_840 tmp1_839 ctx_buf_words_838 t_837 tmp2_836 tmp1_835
  extract_lets -merge +onlyGivenNames tmp1_850 tmp2_851 t_852 ctx_buf_words_853 tmp1_854 k_pos_855 tmp2_856 h_857 g_858 f_859 e_860 d_861 c_862 b_863 a_864
  have h56 : (S.mk a_864 b_863 c_862 d_861 e_860 f_859 g_858 h_857 ctx_buf_words_853) = roundG 56 (S.mk a_849 b_848 c_847 d_846 e_845 f_844 g_843 h_842 ctx_buf_words_838) := rfl
  clear_value a_864 b_863 c_862 d_861 e_860 f_859 g_858 h_857 tmp2_856 k_pos_855 tmp1_854 ctx_buf_words_853 t_852 tmp2_851 tmp1_850
  extract_lets -merge +onlyGivenNames tmp1_865 tmp2_866 t_867 ctx_buf_words_868 tmp1_869 k_pos_870 tmp2_871 h_872 g_873 f_874 e_875 d_876 c_877 b_878 a_879
  have h57 : (S.mk a_879 b_878 c_877 d_876 e_875 f_874 g_873 h_872 ctx_buf_words_868) = roundG 57 (S.mk a_864 b_863 c_862 d_861 e_860 f_859 g_858 h_857 ctx_buf_words_853) := rfl
  clear_value a_879 b_878 c_877 d_876 e_875 f_874 g_873 h_872 tmp2_871 k_pos_870 tmp1_869 ctx_buf_words_868 t_867 tmp2_866 tmp1_865
  extract_lets -merge +onlyGivenNames tmp1_880 tmp2_881 t_882 ctx_buf_words_883 tmp1_884 k_pos_885 tmp2_886 h_887 g_888 f_889 e_890 d_891 c_892 b_893 a_894
  have h58 : (S.mk a_894 b_893 c_892 d_891 e_890 f_889 g_888 h_887 ctx_buf_words_883) = roundG 58 (S.mk a_879 b_878 c_877 d_876 e_875 f_874 g_873 h_872 ctx_buf_words_868) := rfl
  clear_value a_894 b_893 c_892 d_891 e_890 f_889 g_888 h_887 tmp2_886 k_pos_885 tmp1_884 ctx_buf_words_883 t_882 tmp2_881 tmp1_880
  extract_lets -merge +onlyGivenNames tmp1_895 tmp2_896 t_897 ctx_buf_words_898 tmp1_899 k_pos_900 tmp2_901 h_902 g_903 f_904 e_905 d_906 c_907 b_908 a_909
  have h59 : (S.mk a_909 b_908 c_907 d_906 e_905 f_904 g_903 h_902 ctx_buf_words_898) = roundG 59 (S.mk a_894 b_893 c_892 d_891 e_890 f_889 g_888 h_887 ctx_buf_words_883) := rfl
  clear_value a_909 b_908 c_907 d_906 e_905 f_904 g_903 h_902 tmp2_901 k_pos_900 tmp1_899 ctx_buf_words_898 t_897 tmp2_896 tmp1_895
  extract_lets -merge +onlyGivenNames tmp1_910 tmp2_911 t_912 ctx_buf_words_913 tmp1_914 k_pos_915 tmp2_916 h_917 g_918 f_919 e_920 d_921 c_922 b_923 a_924
  have h60 : (S.mk a_924 b_923 c_922 d_921 e_920 f_919 g_918 h_917 ctx_buf_words_913) = roundG 60 (S.mk a_909 b_908 c_907 d_906 e_905 f_904 g_903 h_902 ctx_buf_words_898) := rfl
  clear_value a_924 b_923 c_922 d_921 e_920 f_919 g_918 h_917 tmp2_916 k_pos_915 tmp1_914 ctx_buf_words_913 t_912 tmp2_911 tmp1_910
  extract_lets -merge +onlyGivenNames tmp1_925 tmp2_926 t_927 ctx_buf_words_928 tmp1_929 k_pos_930 tmp2_931 h_932 g_933 f_934 e_935 d_936 c_937 b_938 a_939
  have h61 : (S.mk a_939 b_938 c_937 d_936 e_935 f_934 g_933 h_932 ctx_buf_words_928) = roundG 61 (S.mk a_924 b_923 c_922 d_921 e_920 f_919 g_918 h_917 ctx_buf_words_913) := rfl
  clear_value a_939 b_938 c_937 d_936 e_935 f_934 g_933 h_932 tmp2_931 k_pos_930 tmp1_929 ctx_buf_words_928 t_927 tmp2_926 tmp1_925
  extract_lets -merge +onlyGivenNames tmp1_940 tmp2_941 t_942 ctx_buf_words_943 tmp1_944 k_pos_945 tmp2_946 h_947 g_948 f_949 e_950 d_951 c_952 b_953 a_954
  have h62 : (S.mk a_954 b_953 c_952 d_951 e_950 f_949 g_948 h_947 ctx_buf_words_943) = roundG 62 (S.mk a_939 b_938 c_937 d_936 e_935 f_934 g_933 h_932 ctx_buf_words_928) := rfl
  clear_value a_954 b_953 c_952 d_951 e_950 f_949 g_948 h_947 tmp2_946 k_pos_945 tmp1_944 ctx_buf_words_943 t_942 tmp2_941 tmp1_940
  extract_lets -merge +onlyGivenNames tmp1_955 tmp2_956 t_957 ctx_buf_words_958 tmp1_959 k_pos_960 tmp2_961 h_962 g_963 f_964 e_965 d_966 c_967 b_968 a_969
  have h63 : (S.mk a_969 b_968 c_967 d_966 e_965 f_964 g_963 h_962 ctx_buf_words_958) = roundG 63 (S.mk a_954 b_953 c_952 d_951 e_950 f_949 g_948 h_947 ctx_buf_words_943) := rfl
  clear_value a_969 b_968 c_967 d_966 e_965 f_964 g_963 h_962 tmp2_961 k_pos_960 tmp1_959 ctx_buf_words_958 t_957 tmp2_956 tmp1_955
  extract_lets -merge +onlyGivenNames tmp1_970 tmp2_971 t_972 ctx_buf_words_973 tmp1_974 k_pos_975 tmp2_976 h_977 g_978 f_979 e_980 d_981 c_982 b_983 a_984
  have h64 : (S.mk a_984 b_983 c_982 d_981 e_980 f_979 g_978 h_977 ctx_buf_words_973) = roundG 64 (S.mk a_969 b_968 c_967 d_966 e_965 f_964 g_963 h_962 ctx_buf_words_958) := rfl
  clear_value a_984 b_983 c_982 d_981 e_980 f_979 g_978 h_977 tmp2_976 k_pos_975 tmp1_974 ctx_buf_words_973 t_972 tmp2_971 tmp1_970
  extract_lets -merge +onlyGivenNames tmp1_985 tmp2_986 t_987 ctx_buf_words_988 tmp1_989 k_pos_990 tmp2_991 h_992 g_993 f_994 e_995 d_996 c_997 b_998 a_999
  have h65 : (S.mk a_999 b_998 c_997 d_996 e_995 f_994 g_993 h_992 ctx_buf_words_988) = roundG 65 (S.mk a_984 b_983 c_982 d_981 e_980 f_979 g_978 h_977 ctx_buf_words_973) := rfl
  clear_value a_999 b_998 c_997 d_996 e_995 f_994 g_993 h_992 tmp2_991 k_pos_990 tmp1_989 ctx_buf_words_988 t_987 tmp2_986 tmp1_985
  extract_lets -merge +onlyGivenNames tmp1_1000 tmp2_1001 t_1002 ctx_buf_words_1003 tmp1_1004 k_pos_1005 tmp2_1006 h_1007 g_1008 f_1009 e_1010 d_1011 c_1012 b_1013 a_1014
  have h66 : (S.mk a_1014 b_1013 c_1012 d_1011 e_1010 f_1009 g_1008 h_1007 ctx_buf_words_1003) = roundG 66 (S.mk a_999 b_998 c_997 d_996 e_995 f_994 g_993 h_992 ctx_buf_words_988) := rfl
  clear_value a_1014 b_1013 c_1012 d_1011 e_1010 f_1009 g_1008 h_1007 tmp2_1006 k_pos_1005 tmp1_1004 ctx_buf_words_1003 t_1002 tmp2_1001 tmp1_1000
  extract_lets -merge +onlyGivenNames tmp1_1015 tmp2_1016 t_1017 ctx_buf_words_1018 tmp1_1019 k_pos_1020 tmp2_1021 h_1022 g_1023 f_1024 e_1025 d_1026 c_1027 b_1028 a_1029
  have h67 : (S.mk a_1029 b_1028 c_1027 d_1026 e_1025 f_1024 g_1023 h_1022 ctx_buf_words_1018) = roundG 67 (S.mk a_1014 b_1013 c_1012 d_1011 e_1010 f_1009 g_1008 h_1007 ctx_buf_words_1003) := rfl
  clear_value a_1029 b_1028 c_1027 d_1026 e_1025 f_1024 g_1023 h_1022 tmp2_1021 k_pos_1020 tmp1_1019 ctx_buf_words_1018 t_1017 tmp2_1016 tmp1_1015
  extract_lets -merge +onlyGivenNames tmp1_1030 tmp2_1031 t_1032 ctx_buf_words_1033 tmp1_1034 k_pos_1035 tmp2_1036 h_1037 g_1038 f_1039 e_1040 d_1041 c_1042 b_1043 a_1044
  have h68 : (S.mk a_1044 b_1043 c_1042 d_1041 e_1040 f_1039 g_1038 h_1037 ctx_buf_words_1033) = roundG 68 (S.mk a_1029 b_1028 c_1027 d_1026 e_1025 f_1024 g_1023 h_1022 ctx_buf_words_1018) := rfl
  clear_value a_1044 b_1043 c_1042 d_1041 e_1040 f_1039 g_1038 h_1037 tmp2_1036 k_pos_1035 tmp1_1034 ctx_buf_words_1033 t_1032 tmp2_1031 tmp1_1030
  extract_lets -merge +onlyGivenNames tmp1_1045 tmp2_1046 t_1047 ctx_buf_words_1048 tmp1_1049 k_pos_1050 tmp2_1051 h_1052 g_1053 f_1054 e_1055 d_1056 c_1057 b_1058 a_1059
  have h69 : (S.mk a_1059 b_1058 c_1057 d_1056 e_1055 f_1054 g_1053 h_1052 ctx_buf_words_1048) = roundG 69 (S.mk a_1044 b_1043 c_1042 d_1041 e_1040 f_1039 g_1038 h_1037 ctx_buf_words_1033) := rfl
  clear_value a_1059 b_1058 c_1057 d_1056 e_1055 f_1054 g_1053 h_1052 tmp2_1051 k_pos_1050 tmp1_1049 ctx_buf_words_1048 t_1047 tmp2_1046 tmp1_1045
  extract_lets -merge +onlyGivenNames tmp1_1060 tmp2_1061 t_1062 ctx_buf_words_1063 tmp1_1064 k_pos_1065 tmp2_1066 h_1067 g_1068 f_1069 e_1070 d_1071 c_1072 b_1073 a_1074
  have h70 : (S.mk a_1074 b_1073 c_1072 d_1071 e_1070 f_1069 g_1068 h_1067 ctx_buf_words_1063) = roundG 70 (S.mk a_1059 b_1058 c_1057 d_1056 e_1055 f_1054 g_1053 h_1052 ctx_buf_words_1048) := rfl
  clear_value a_1074 b_1073 c_1072 d_1071 e_1070 f_1069 g_1068 h_1067 tmp2_1066 k_pos_1065 tmp1_1064 ctx_buf_words_1063 t_1062 tmp2_1061 tmp1_1060
  extract_lets -merge +onlyGivenNames tmp1_1075 tmp2_1076 t_1077 ctx_buf_words_1078 tmp1_1079 k_pos_1080 tmp2_1081 h_1082 g_1083 f_1084 e_1085 d_1086 c_1087 b_1088 a_1089
  have h71 : (S.mk a_1089 b_1088 c_1087 d_1086 e_1085 f_1084 g_1083 h_1082 ctx_buf_words_1078) = roundG 71 (S.mk a_1074 b_1073 c_1072 d_1071 e_1070 f_1069 g_1068 h_1067 ctx_buf_words_1063) := rfl
  clear_value a_1089 b_1088 c_1087 d_1086 e_1085 f_1084 g_1083 h_1082 tmp2_1081 k_pos_1080 tmp1_1079 ctx_buf_words_1078 t_1077 tmp2_1076 tmp1_1075
  extract_lets -merge +onlyGivenNames tmp1_1090 tmp2_1091 t_1092 ctx_buf_words_1093 tmp1_1094 k_pos_1095 tmp2_1096 h_1097 g_1098 f_1099 e_1100 d_1101 c_1102 b_1103 a_1104
  have h72 : (S.mk a_1104 b_1103 c_1102 d_1101 e_1100 f_1099 g_1098 h_1097 ctx_buf_words_1093) = roundG 72 (S.mk a_1089 b_1088 c_1087 d_1086 e_1085 f_1084 g_1083 h_1082 ctx_buf_words_1078) := rfl
  clear_value a_1104 b_1103 c_1102 d_1101 e_1100 f_1099 g_1098 h_1097 tmp2_1096 k_pos_1095 tmp1_1094 ctx_buf_words_1093 t_1092 tmp2_1091 tmp1_1090
  extract_lets -merge +onlyGivenNames tmp1_1105 tmp2_1106 t_1107 ctx_buf_words_1108 tmp1_1109 k_pos_1110 tmp2_1111 h_1112 g_1113 f_1114 e_1115 d_1116 c_1117 b_1118 a_1119
  have h73 : (S.mk a_1119 b_1118 c_1117 d_1116 e_1115 f_1114 g_1113 h_1112 ctx_buf_words_1108) = roundG 73 (S.mk a_1104 b_1103 c_1102 d_1101 e_1100 f_1099 g_1098 h_1097 ctx_buf_words_1093) := rfl
  clear_value a_1119 b_1118 c_1117 d_1116 e_1115 f_1114 g_1113 h_1112 tmp2_1111 k_pos_1110 tmp1_1109 ctx_buf_words_1108 t_1107 tmp2_1106 tmp1_1105
  extract_lets -merge +onlyGivenNames tmp1_1120 tmp2_1121 t_1122 ctx_buf_words_1123 tmp1_1124 k_pos_1125 tmp2_1126 h_1127 g_1128 f_1129 e_1130 d_1131 c_1132 b_1133 a_1134
  have h74 : (S.mk a_1134 b_1133 c_1132 d_1131 e_1130 f_1129 g_1128 h_1127 ctx_buf_words_1123) = roundG 74 (S.mk a_1119 b_1118 c_1117 d_1116 e_1115 f_1114 g_1113 h_1112 ctx_buf_words_1108) := rfl
  clear_value a_1134 b_1133 c_1132 d_1131 e_1130 f_1129 g_1128 h_1127 tmp2_1126 k_pos_1125 tmp1_1124 ctx_buf_words_1123 t_1122 tmp2_1121 tmp1_1120
  extract_lets -merge +onlyGivenNames tmp1_1135 tmp2_1136 t_1137 ctx_buf_words_1138 tmp1_1139 k_pos_1140 tmp2_1141 h_1142 g_1143 f_1144 e_1145 d_1146 c_1147 b_1148 a_1149
  have h75 : (S.mk a_1149 b_1148 c_1147 d_1146 e_1145 f_1144 g_1143 h_1142 ctx_buf_words_1138) = roundG 75 (S.mk a_1134 b_1133 c_1132 d_1131 e_1130 f_1129 g_1128 h_1127 ctx_buf_words_1123) := rfl
  clear_value a_1149 b_1148 c_1147 d_1146 e_1145 f_1144 g_1143 h_1142 tmp2_1141 k_pos_1140 tmp1_1139 ctx_buf_words_1138 t_1137 tmp2_1136 tmp1_1135
  extract_lets -merge +onlyGivenNames tmp1_1150 tmp2_1151 t_1152 ctx_buf_words_1153 tmp1_1154 k_pos_1155 tmp2_1156 h_1157 g_1158 f_1159 e_1160 d_1161 c_1162 b_1163 a_1164
  have h76 : (S.mk a_1164 b_1163 c_1162 d_1161 e_1160 f_1159 g_1158 h_1157 ctx_buf_words_1153) = roundG 76 (S.mk a_1149 b_1148 c_1147 d_1146 e_1145 f_1144 g_1143 h_1142 ctx_buf_words_1138) := rfl
  clear_value a_1164 b_1163 c_1162 d_1161 e_1160 f_1159 g_1158 h_1157 tmp2_1156 k_pos_1155 tmp1_1154 ctx_buf_words_1153 t_1152 tmp2_1151 tmp1_1150
  extract_lets -merge +onlyGivenNames tmp1_1165 tmp2_1166 t_1167 ctx_buf_words_1168 tmp1_1169 k_pos_1170 tmp2_1171 h_1172 g_1173 f_1174 e_1175 d_1176 c_1177 b_1178 a_1179
  have h77 : (S.mk a_1179 b_1178 c_1177 d_1176 e_1175 f_1174 g_1173 h_1172 ctx_buf_words_1168) = roundG 77 (S.mk a_1164 b_1163 c_1162 d_1161 e_1160 f_1159 g_1158 h_1157 ctx_buf_words_1153) := rfl
  clear_value a_1179 b_1178 c_1177 d_1176 e_1175 f_1174 g_1173 h_1172 tmp2_1171 k_pos_1170 tmp1_1169 ctx_buf_words_1168 t_1167 tmp2_1166 tmp1_1165
  extract_lets -merge +onlyGivenNames tmp1_1180 tmp2_1181 t_1182 ctx_buf_words_1183 tmp1_1184 k_pos_1185 tmp2_1186 h_1187 g_1188 f_1189 e_1190 d_1191 c_1192 b_1193 a_1194
  have h78 : (S.mk a_1194 b_1193 c_1192 d_1191 e_1190 f_1189 g_1188 h_1187 ctx_buf_words_1183) = roundG 78 (S.mk a_1179 b_1178 c_1177 d_1176 e_1175 f_1174 g_1173 h_1172 ctx_buf_words_1168) := rfl
  clear_value a_1194 b_1193 c_1192 d_1191 e_1190 f_1189 g_1188 h_1187 tmp2_1186 k_pos_1185 tmp1_1184 ctx_buf_words_1183 t_1182 tmp2_1181 tmp1_1180
  extract_lets -merge +onlyGivenNames tmp1_1195 tmp2_1196 t_1197 ctx_buf_words_1198 tmp1_1199 k_pos_1200 tmp2_1201 h_1202 g_1203 f_1204 e_1205 d_1206 c_1207 b_1208 a_1209
  have h79 : (S.mk a_1209 b_1208 c_1207 d_1206 e_1205 f_1204 g_1203 h_1202 ctx_buf_words_1198) = roundG 79 (S.mk a_1194 b_1193 c_1192 d_1191 e_1190 f_1189 g_1188 h_1187 ctx_buf_words_1183) := rfl
  clear_value a_1209 b_1208 c_1207 d_1206 e_1205 f_1204 g_1203 h_1202 tmp2_1201 k_pos_1200 tmp1_1199 ctx_buf_words_1198 t_1197 tmp2_1196 tmp1_1195
  extract_lets -merge +onlyGivenNames ctx_state_1210 ctx_state_1211 ctx_state_1212 ctx_state_1213 ctx_state_1214 ctx_state_1215 ctx_state_1216 ctx_state_1217
  have hfin : ({ buf_words := ctx_buf_words_1198, state := ctx_state_1217, nbytes := ctx.nbytes } : sha512_ctx) = finishG ctx (S.mk a_1209 b_1208 c_1207 d_1206 e_1205 f_1204 g_1203 h_1202 ctx_buf_words_1198) := rfl
  rw [hfin]
  clear hfin
  simp only [List.range, List.range.loop, List.foldl]
  rw [h79, h78, h77, h76, h75, h74, h73, h72, h71, h70, h69, h68, h67, h66, h65, h64, h63, h62, h61, h60, h59, h58, h57, h56, h55, h54, h53, h52, h51, h50, h49, h48, h47, h46, h45, h44, h43, h42, h41, h40, h39, h38, h37, h36, h35, h34, h33, h32, h31, h30, h29, h28, h27, h26, h25, h24, h23, h22, h21, h20, h19, h18, h17, h16, h15, h14, h13, h12, h11, h10, h9, h8, h7, h6, h5, h4, h3, h2, h1, h0, h_s]

end UsualProofs.Bridge.C05TSha512
