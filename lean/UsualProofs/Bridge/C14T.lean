import Usual.Gen.C14T
import Usual.C14.Str
/-!
# C14 translation tie: the compat `memrchr` of usual/string.c

`Usual.Gen.C14T.usual_memrchr` is regenerated on every run of `checks/C14.py` from the function
that is compiled when `HAVE_MEMRCHR` is undefined (forced-compat `config.h` derived from the tree
under test): `while (n--)` becomes a structurally recursive function (`fuel` first, `none` = out of
fuel; the decrement of the loop test is performed whether or not the loop is entered), the result
pointer is `some (s + offset)` / `none` for `NULL`.  `bridge_memrchr`: on every buffer, byte value
(`int c`, converted to `unsigned char` as the repaired code does) and length it returns exactly
`Usual.C14.memrchr` — the function `memrchr_spec` is about.  Kernel-only (no `bv_decide`).
-/
namespace UsualProofs.Bridge.C14T
open Usual.C14
open Usual.Gen.C14T

/-- `(uint8_t)c` of the generated code is the model's `ucharOf` -/
theorem trunc_ucharOf (c : BitVec 32) : (BitVec.truncate 8 c).toNat = ucharOf c.toInt := by
  unfold ucharOf
  simp only [BitVec.truncate, BitVec.toNat_setWidth, BitVec.toInt]
  have := c.isLt
  split <;> omega

theorem loop_eq (rp : Nat → BitVec 8) (s : Nat) (p : Bytes) (c : BitVec 32) (ch : BitVec 8) (F s0 : Nat)
    (hp : ∀ i, i < p.length → (rp (s + i)).toNat = p.getD i 0) :
    ∀ (fuel k : Nat), k ≤ p.length → k < 2 ^ 64 → k < fuel →
      usual_memrchr_loop1 rp F fuel s0 c (BitVec.ofNat 64 k) s ch =
        some ((memrchrFrom p ch.toNat k).map (s + ·)) := by
  intro fuel
  induction fuel with
  | zero => intro k _ _ h; omega
  | succ fuel ih =>
    intro k hk hk64 hf
    unfold usual_memrchr_loop1
    cases k with
    | zero => simp [memrchrFrom]
    | succ k =>
      have e1 : BitVec.ofNat 64 (k + 1) - 1#64 = BitVec.ofNat 64 k := by
        apply BitVec.eq_of_toNat_eq; simp [BitVec.toNat_sub]; omega
      have e2 : (BitVec.ofNat 64 (k + 1) != 0#64) = true := by
        simp only [bne_iff_ne, ne_eq]
        intro h
        have := congrArg BitVec.toNat h
        simp at this; omega
      have e3 : (BitVec.ofNat 64 k).toNat = k := by simp; omega
      simp only [e1, e2, ↓reduceIte, e3, memrchrFrom]
      have hbyte : ((BitVec.zeroExtend 32 (rp (s + k))) == (BitVec.zeroExtend 32 ch)) =
          decide (p.getD k 0 = ch.toNat) := by
        rw [← hp k (by omega)]
        by_cases h : rp (s + k) = ch
        · simp [h]
        · have h2 : ¬ (rp (s + k)).toNat = ch.toNat := fun e => h (BitVec.eq_of_toNat_eq e)
          have h3 : ¬ BitVec.zeroExtend 32 (rp (s + k)) = BitVec.zeroExtend 32 ch := by
            intro e
            apply h2
            have := congrArg BitVec.toNat e
            simp only [BitVec.zeroExtend, BitVec.toNat_setWidth] at this
            have a1 := (rp (s + k)).isLt
            have a2 := ch.isLt
            omega
          simp [h2, h3]
      rw [hbyte]
      by_cases h : p.getD k 0 = ch.toNat
      · rw [if_pos (by simpa using h), if_pos h]; rfl
      · rw [if_neg (by simpa using h), if_neg h]
        exact ih k (by omega) (by omega) (by omega)

/-- the compat `memrchr(s, c, n)` as clang reads it today = the model's `memrchr` on the `n` bytes
behind `s` (`NULL` = `none`, otherwise the pointer `s + offset`), for every fuel above `n` -/
theorem bridge_memrchr (rp : Nat → BitVec 8) (s : Nat) (p : Bytes) (c : BitVec 32) (n : BitVec 64)
    (hp : ∀ i, i < p.length → (rp (s + i)).toNat = p.getD i 0) (hn : n.toNat ≤ p.length)
    (fuel : Nat) (hf : n.toNat < fuel) :
    usual_memrchr rp fuel s c n = some ((memrchr p c.toInt n.toNat).map (s + ·)) := by
  unfold usual_memrchr memrchr
  rw [← trunc_ucharOf]
  have := loop_eq rp s p c (BitVec.truncate 8 c) fuel s hp fuel n.toNat hn n.isLt hf
  simpa using this

end UsualProofs.Bridge.C14T
