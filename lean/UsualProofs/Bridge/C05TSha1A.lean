import Usual.Gen.C05TSha1
/-!
# C05 translation tie, SHA-1 (part A): the 80 macro-expanded rounds of `sha1_core`, folded

`Usual.Gen.C05TSha1.sha1_core` (regenerated from usual/crypto/sha1.c on every run) is a chain of 799
`let`s.  This file states what one `SHA1OP` block does (`Rlo` for `t < 16`, `Rhi` on the 16-word
circular buffer for `t ≥ 16`; mix function and constant chosen by `t / 20`) and proves, block by
block (`extract_lets` … `rfl` … `clear_value`; script produced mechanically from the names in the
generated file), that the whole function is `finishG ctx (roundG 79 (… (roundG 0 (startG ctx buf))))`.
No axioms beyond the kernel's.  Part B (`Bridge/C05TSha1.lean`) identifies that with the model.
-/
set_option maxRecDepth 100000
namespace UsualProofs.Bridge.C05TSha1
open Usual.Gen.C05TSha1

abbrev W := BitVec 32

/-- the working variables `a … e` and the 16-word circular message buffer `W(n)` -/
structure S where
  a : W
  b : W
  c : W
  d : W
  e : W
  w : Array W

/-- `F0 … F3`, selected by `t / 20` -/
def fG (q : Nat) (b c d : W) : W :=
  match q with
  | 0 => (d ^^^ (b &&& (c ^^^ d)))
  | 1 => ((b ^^^ c) ^^^ d)
  | 2 => (((b &&& c) ||| (b &&& d)) ||| (c &&& d))
  | _ => ((b ^^^ c) ^^^ d)

/-- the round constants of `SHA1R0 … SHA1R3` -/
def kG (q : Nat) : W :=
  match q with
  | 0 => 1518500249#32
  | 1 => 1859775393#32
  | 2 => 2400959708#32
  | _ => 3395469782#32

/-- the part of `SHA1OP` after `W(t)` has been set -/
def stepG (q : Nat) (wt : W) (s : S) (w' : Array W) : S :=
  let tmp := (((((rol32 s.a (5#32)) + (fG q s.b s.c s.d)) + s.e) + wt) + (kG q))
  { a := tmp, b := s.a, c := (rol32 s.b (30#32)), d := s.c, e := s.d, w := w' }

/-- round `t < 16`: `W(t) = be32toh(W(t))` first -/
def Rlo (j : Nat) (s : S) : S :=
  let w' := s.w.setIfInBounds j (usual_bswap32 (s.w.getD j 0#32))
  stepG 0 (w'.getD j 0#32) s w'

/-- round `t ≥ 16` on the circular buffer: `j = t & 15`, `q = t / 20` -/
def Rhi (j q : Nat) (s : S) : S :=
  let tmp := ((((s.w.getD ((j + 13) % 16) 0#32) ^^^ (s.w.getD ((j + 8) % 16) 0#32)) ^^^ (s.w.getD ((j + 2) % 16) 0#32)) ^^^ (s.w.getD j 0#32))
  let w' := s.w.setIfInBounds j (rol32 tmp (1#32))
  stepG q (w'.getD j 0#32) s w'

def roundG (t : Nat) (s : S) : S := if t < 16 then Rlo t s else Rhi (t % 16) (t / 20) s

def finishG (ctx : sha1_ctx) (s : S) : sha1_ctx × Array W :=
  (({ nbytes := ctx.nbytes, a := (ctx.a + s.a), b := (ctx.b + s.b), c := (ctx.c + s.c), d := (ctx.d + s.d),
      e := (ctx.e + s.e) } : sha1_ctx), s.w)

def startG (ctx : sha1_ctx) (buf : Array W) : S :=
  { a := ctx.a, b := ctx.b, c := ctx.c, d := ctx.d, e := ctx.e, w := buf }

set_option maxHeartbeats 2000000 in
/-- the 80 rounds of the generated `sha1_core`, folded -/
theorem core_eq_rounds (ctx : sha1_ctx) (buf : Array W) :
    sha1_core ctx buf = finishG ctx ((List.range 80).foldl (fun s t => roundG t s) (startG ctx buf)) := by
  unfold sha1_core
  extract_lets -merge +onlyGivenNames a_1 b_2 c_3 d_4 e_5 a_6 b_7 c_8 d_9 e_10
  have h_s : (S.mk a_6 b_7 c_8 d_9 e_10 buf) = startG ctx buf := rfl
  extract_lets -merge +onlyGivenNames tmp_11 t_12 buf_13 tmp_14 e_15 d_16 c_17 b_18 a_19
  have h0 : (S.mk a_19 b_18 c_17 d_16 e_15 buf_13) = roundG 0 (S.mk a_6 b_7 c_8 d_9 e_10 buf) := rfl
  clear_value a_19 b_18 c_17 d_16 e_15 tmp_14 buf_13 t_12 tmp_11
  extract_lets -merge +onlyGivenNames tmp_20 t_21 buf_22 tmp_23 e_24 d_25 c_26 b_27 a_28
  have h1 : (S.mk a_28 b_27 c_26 d_25 e_24 buf_22) = roundG 1 (S.mk a_19 b_18 c_17 d_16 e_15 buf_13) := rfl
  clear_value a_28 b_27 c_26 d_25 e_24 tmp_23 buf_22 t_21 tmp_20
  extract_lets -merge +onlyGivenNames tmp_29 t_30 buf_31 tmp_32 e_33 d_34 c_35 b_36 a_37
  have h2 : (S.mk a_37 b_36 c_35 d_34 e_33 buf_31) = roundG 2 (S.mk a_28 b_27 c_26 d_25 e_24 buf_22) := rfl
  clear_value a_37 b_36 c_35 d_34 e_33 tmp_32 buf_31 t_30 tmp_29
  extract_lets -merge +onlyGivenNames tmp_38 t_39 buf_40 tmp_41 e_42 d_43 c_44 b_45 a_46
  have h3 : (S.mk a_46 b_45 c_44 d_43 e_42 buf_40) = roundG 3 (S.mk a_37 b_36 c_35 d_34 e_33 buf_31) := rfl
  clear_value a_46 b_45 c_44 d_43 e_42 tmp_41 buf_40 t_39 tmp_38
  extract_lets -merge +onlyGivenNames tmp_47 t_48 buf_49 tmp_50 e_51 d_52 c_53 b_54 a_55
  have h4 : (S.mk a_55 b_54 c_53 d_52 e_51 buf_49) = roundG 4 (S.mk a_46 b_45 c_44 d_43 e_42 buf_40) := rfl
  clear_value a_55 b_54 c_53 d_52 e_51 tmp_50 buf_49 t_48 tmp_47
  extract_lets -merge +onlyGivenNames tmp_56 t_57 buf_58 tmp_59 e_60 d_61 c_62 b_63 a_64
  have h5 : (S.mk a_64 b_63 c_62 d_61 e_60 buf_58) = roundG 5 (S.mk a_55 b_54 c_53 d_52 e_51 buf_49) := rfl
  clear_value a_64 b_63 c_62 d_61 e_60 tmp_59 buf_58 t_57 tmp_56
  extract_lets -merge +onlyGivenNames tmp_65 t_66 buf_67 tmp_68 e_69 d_70 c_71 b_72 a_73
  have h6 : (S.mk a_73 b_72 c_71 d_70 e_69 buf_67) = roundG 6 (S.mk a_64 b_63 c_62 d_61 e_60 buf_58) := rfl
  clear_value a_73 b_72 c_71 d_70 e_69 tmp_68 buf_67 t_66 tmp_65
  extract_lets -merge +onlyGivenNames tmp_74 t_75 buf_76 tmp_77 e_78 d_79 c_80 b_81 a_82
  have h7 : (S.mk a_82 b_81 c_80 d_79 e_78 buf_76) = roundG 7 (S.mk a_73 b_72 c_71 d_70 e_69 buf_67) := rfl
  clear_value a_82 b_81 c_80 d_79 e_78 tmp_77 buf_76 t_75 tmp_74
  extract_lets -merge +onlyGivenNames tmp_83 t_84 buf_85 tmp_86 e_87 d_88 c_89 b_90 a_91
  have h8 : (S.mk a_91 b_90 c_89 d_88 e_87 buf_85) = roundG 8 (S.mk a_82 b_81 c_80 d_79 e_78 buf_76) := rfl
  clear_value a_91 b_90 c_89 d_88 e_87 tmp_86 buf_85 t_84 tmp_83
  extract_lets -merge +onlyGivenNames tmp_92 t_93 buf_94 tmp_95 e_96 d_97 c_98 b_99 a_100
  have h9 : (S.mk a_100 b_99 c_98 d_97 e_96 buf_94) = roundG 9 (S.mk a_91 b_90 c_89 d_88 e_87 buf_85) := rfl
  clear_value a_100 b_99 c_98 d_97 e_96 tmp_95 buf_94 t_93 tmp_92
  extract_lets -merge +onlyGivenNames tmp_101 t_102 buf_103 tmp_104 e_105 d_106 c_107 b_108 a_109
  have h10 : (S.mk a_109 b_108 c_107 d_106 e_105 buf_103) = roundG 10 (S.mk a_100 b_99 c_98 d_97 e_96 buf_94) := rfl
  clear_value a_109 b_108 c_107 d_106 e_105 tmp_104 buf_103 t_102 tmp_101
  extract_lets -merge +onlyGivenNames tmp_110 t_111 buf_112 tmp_113 e_114 d_115 c_116 b_117 a_118
  have h11 : (S.mk a_118 b_117 c_116 d_115 e_114 buf_112) = roundG 11 (S.mk a_109 b_108 c_107 d_106 e_105 buf_103) := rfl
  clear_value a_118 b_117 c_116 d_115 e_114 tmp_113 buf_112 t_111 tmp_110
  extract_lets -merge +onlyGivenNames tmp_119 t_120 buf_121 tmp_122 e_123 d_124 c_125 b_126 a_127
  have h12 : (S.mk a_127 b_126 c_125 d_124 e_123 buf_121) = roundG 12 (S.mk a_118 b_117 c_116 d_115 e_114 buf_112) := rfl
  clear_value a_127 b_126 c_125 d_124 e_123 tmp_122 buf_121 t_120 tmp_119
  extract_lets -merge +onlyGivenNames tmp_128 t_129 buf_130 tmp_131 e_132 d_133 c_134 b_135 a_136
  have h13 : (S.mk a_136 b_135 c_134 d_133 e_132 buf_130) = roundG 13 (S.mk a_127 b_126 c_125 d_124 e_123 buf_121) := rfl
  clear_value a_136 b_135 c_134 d_133 e_132 tmp_131 buf_130 t_129 tmp_128
  extract_lets -merge +onlyGivenNames tmp_137 t_138 buf_139 tmp_140 e_141 d_142 c_143 b_144 a_145
  have h14 : (S.mk a_145 b_144 c_143 d_142 e_141 buf_139) = roundG 14 (S.mk a_136 b_135 c_134 d_133 e_132 buf_130) := rfl
  clear_value a_145 b_144 c_143 d_142 e_141 tmp_140 buf_139 t_138 tmp_137
  extract_lets -merge +onlyGivenNames tmp_146 t_147 buf_148 tmp_149 e_150 d_151 c_152 b_153 a_154
  have h15 : (S.mk a_154 b_153 c_152 d_151 e_150 buf_148) = roundG 15 (S.mk a_145 b_144 c_143 d_142 e_141 buf_139) := rfl
  clear_value a_154 b_153 c_152 d_151 e_150 tmp_149 buf_148 t_147 tmp_146
  extract_lets -merge +onlyGivenNames tmp_155 t_156 tmp_157 buf_158 tmp_159 e_160 d_161 c_162 b_163 a_164
  have h16 : (S.mk a_164 b_163 c_162 d_161 e_160 buf_158) = roundG 16 (S.mk a_154 b_153 c_152 d_151 e_150 buf_148) := rfl
  clear_value a_164 b_163 c_162 d_161 e_160 tmp_159 buf_158 tmp_157 t_156 tmp_155
  extract_lets -merge +onlyGivenNames tmp_165 t_166 tmp_167 buf_168 tmp_169 e_170 d_171 c_172 b_173 a_174
  have h17 : (S.mk a_174 b_173 c_172 d_171 e_170 buf_168) = roundG 17 (S.mk a_164 b_163 c_162 d_161 e_160 buf_158) := rfl
  clear_value a_174 b_173 c_172 d_171 e_170 tmp_169 buf_168 tmp_167 t_166 tmp_165
  extract_lets -merge +onlyGivenNames tmp_175 t_176 tmp_177 buf_178 tmp_179 e_180 d_181 c_182 b_183 a_184
  have h18 : (S.mk a_184 b_183 c_182 d_181 e_180 buf_178) = roundG 18 (S.mk a_174 b_173 c_172 d_171 e_170 buf_168) := rfl
  clear_value a_184 b_183 c_182 d_181 e_180 tmp_179 buf_178 tmp_177 t_176 tmp_175
  extract_lets -merge +onlyGivenNames tmp_185 t_186 tmp_187 buf_188 tmp_189 e_190 d_191 c_192 b_193 a_194
  have h19 : (S.mk a_194 b_193 c_192 d_191 e_190 buf_188) = roundG 19 (S.mk a_184 b_183 c_182 d_181 e_180 buf_178) := rfl
  clear_value a_194 b_193 c_192 d_191 e_190 tmp_189 buf_188 tmp_187 t_186 tmp_185
  extract_lets -merge +onlyGivenNames tmp_195 t_196 tmp_197 buf_198 tmp_199 e_200 d_201 c_202 b_203 a_204
  have h20 : (S.mk a_204 b_203 c_202 d_201 e_200 buf_198) = roundG 20 (S.mk a_194 b_193 c_192 d_191 e_190 buf_188) := rfl
  clear_value a_204 b_203 c_202 d_201 e_200 tmp_199 buf_198 tmp_197 t_196 tmp_195
  extract_lets -merge +onlyGivenNames tmp_205 t_206 tmp_207 buf_208 tmp_209 e_210 d_211 c_212 b_213 a_214
  have h21 : (S.mk a_214 b_213 c_212 d_211 e_210 buf_208) = roundG 21 (S.mk a_204 b_203 c_202 d_201 e_200 buf_198) := rfl
  clear_value a_214 b_213 c_212 d_211 e_210 tmp_209 buf_208 tmp_207 t_206 tmp_205
  extract_lets -merge +onlyGivenNames tmp_215 t_216 tmp_217 buf_218 tmp_219 e_220 d_221 c_222 b_223 a_224
  have h22 : (S.mk a_224 b_223 c_222 d_221 e_220 buf_218) = roundG 22 (S.mk a_214 b_213 c_212 d_211 e_210 buf_208) := rfl
  clear_value a_224 b_223 c_222 d_221 e_220 tmp_219 buf_218 tmp_217 t_216 tmp_215
  extract_lets -merge +onlyGivenNames tmp_225 t_226 tmp_227 buf_228 tmp_229 e_230 d_231 c_232 b_233 a_234
  have h23 : (S.mk a_234 b_233 c_232 d_231 e_230 buf_228) = roundG 23 (S.mk a_224 b_223 c_222 d_221 e_220 buf_218) := rfl
  clear_value a_234 b_233 c_232 d_231 e_230 tmp_229 buf_228 tmp_227 t_226 tmp_225
  extract_lets -merge +onlyGivenNames tmp_235 t_236 tmp_237 buf_238 tmp_239 e_240 d_241 c_242 b_243 a_244
  have h24 : (S.mk a_244 b_243 c_242 d_241 e_240 buf_238) = roundG 24 (S.mk a_234 b_233 c_232 d_231 e_230 buf_228) := rfl
  clear_value a_244 b_243 c_242 d_241 e_240 tmp_239 buf_238 tmp_237 t_236 tmp_235
  extract_lets -merge +onlyGivenNames tmp_245 t_246 tmp_247 buf_248 tmp_249 e_250 d_251 c_252 b_253 a_254
  have h25 : (S.mk a_254 b_253 c_252 d_251 e_250 buf_248) = roundG 25 (S.mk a_244 b_243 c_242 d_241 e_240 buf_238) := rfl
  clear_value a_254 b_253 c_252 d_251 e_250 tmp_249 buf_248 tmp_247 t_246 tmp_245
  extract_lets -merge +onlyGivenNames tmp_255 t_256 tmp_257 buf_258 tmp_259 e_260 d_261 c_262 b_263 a_264
  have h26 : (S.mk a_264 b_263 c_262 d_261 e_260 buf_258) = roundG 26 (S.mk a_254 b_253 c_252 d_251 e_250 buf_248) := rfl
  clear_value a_264 b_263 c_262 d_261 e_260 tmp_259 buf_258 tmp_257 t_256 tmp_255
  extract_lets -merge +onlyGivenNames tmp_265 t_266 tmp_267 buf_268 tmp_269 e_270 d_271 c_272 b_273 a_274
  have h27 : (S.mk a_274 b_273 c_272 d_271 e_270 buf_268) = roundG 27 (S.mk a_264 b_263 c_262 d_261 e_260 buf_258) := rfl
  clear_value a_274 b_273 c_272 d_271 e_270 tmp_269 buf_268 tmp_267 t_266 tmp_265
  extract_lets -merge +onlyGivenNames tmp_275 t_276 tmp_277 buf_278 tmp_279 e_280 d_281 c_282 b_283 a_284
  have h28 : (S.mk a_284 b_283 c_282 d_281 e_280 buf_278) = roundG 28 (S.mk a_274 b_273 c_272 d_271 e_270 buf_268) := rfl
  clear_value a_284 b_283 c_282 d_281 e_280 tmp_279 buf_278 tmp_277 t_276 tmp_275
  extract_lets -merge +onlyGivenNames tmp_285 t_286 tmp_287 buf_288 tmp_289 e_290 d_291 c_292 b_293 a_294
  have h29 : (S.mk a_294 b_293 c_292 d_291 e_290 buf_288) = roundG 29 (S.mk a_284 b_283 c_282 d_281 e_280 buf_278) := rfl
  clear_value a_294 b_293 c_292 d_291 e_290 tmp_289 buf_288 tmp_287 t_286 tmp_285
  extract_lets -merge +onlyGivenNames tmp_295 t_296 tmp_297 buf_298 tmp_299 e_300 d_301 c_302 b_303 a_304
  have h30 : (S.mk a_304 b_303 c_302 d_301 e_300 buf_298) = roundG 30 (S.mk a_294 b_293 c_292 d_291 e_290 buf_288) := rfl
  clear_value a_304 b_303 c_302 d_301 e_300 tmp_299 buf_298 tmp_297 t_296 tmp_295
  extract_lets -merge +onlyGivenNames tmp_305 t_306 tmp_307 buf_308 tmp_309 e_310 d_311 c_312 b_313 a_314
  have h31 : (S.mk a_314 b_313 c_312 d_311 e_310 buf_308) = roundG 31 (S.mk a_304 b_303 c_302 d_301 e_300 buf_298) := rfl
  clear_value a_314 b_313 c_312 d_311 e_310 tmp_309 buf_308 tmp_307 t_306 tmp_305
  extract_lets -merge +onlyGivenNames tmp_315 t_316 tmp_317 buf_318 tmp_319 e_320 d_321 c_322 b_323 a_324
  have h32 : (S.mk a_324 b_323 c_322 d_321 e_320 buf_318) = roundG 32 (S.mk a_314 b_313 c_312 d_311 e_310 buf_308) := rfl
  clear_value a_324 b_323 c_322 d_321 e_320 tmp_319 buf_318 tmp_317 t_316 tmp_315
  extract_lets -merge +onlyGivenNames tmp_325 t_326 tmp_327 buf_328 tmp_329 e_330 d_331 c_332 b_333 a_334
  have h33 : (S.mk a_334 b_333 c_332 d_331 e_330 buf_328) = roundG 33 (S.mk a_324 b_323 c_322 d_321 e_320 buf_318) := rfl
  clear_value a_334 b_333 c_332 d_331 e_330 tmp_329 buf_328 tmp_327 t_326 tmp_325
  extract_lets -merge +onlyGivenNames tmp_335 t_336 tmp_337 buf_338 tmp_339 e_340 d_341 c_342 b_343 a_344
  have h34 : (S.mk a_344 b_343 c_342 d_341 e_340 buf_338) = roundG 34 (S.mk a_334 b_333 c_332 d_331 e_330 buf_328) := rfl
  clear_value a_344 b_343 c_342 d_341 e_340 tmp_339 buf_338 tmp_337 t_336 tmp_335
  extract_lets -merge +onlyGivenNames tmp_345 t_346 tmp_347 buf_348 tmp_349 e_350 d_351 c_352 b_353 a_354
  have h35 : (S.mk a_354 b_353 c_352 d_351 e_350 buf_348) = roundG 35 (S.mk a_344 b_343 c_342 d_341 e_340 buf_338) := rfl
  clear_value a_354 b_353 c_352 d_351 e_350 tmp_349 buf_348 tmp_347 t_346 tmp_345
  extract_lets -merge +onlyGivenNames tmp_355 t_356 tmp_357 buf_358 tmp_359 e_360 d_361 c_362 b_363 a_364
  have h36 : (S.mk a_364 b_363 c_362 d_361 e_360 buf_358) = roundG 36 (S.mk a_354 b_353 c_352 d_351 e_350 buf_348) := rfl
  clear_value a_364 b_363 c_362 d_361 e_360 tmp_359 buf_358 tmp_357 t_356 tmp_355
  extract_lets -merge +onlyGivenNames tmp_365 t_366 tmp_367 buf_368 tmp_369 e_370 d_371 c_372 b_373 a_374
  have h37 : (S.mk a_374 b_373 c_372 d_371 e_370 buf_368) = roundG 37 (S.mk a_364 b_363 c_362 d_361 e_360 buf_358) := rfl
  clear_value a_374 b_373 c_372 d_371 e_370 tmp_369 buf_368 tmp_367 t_366 tmp_365
  extract_lets -merge +onlyGivenNames tmp_375 t_376 tmp_377 buf_378 tmp_379 e_380 d_381 c_382 b_383 a_384
  have h38 : (S.mk a_384 b_383 c_382 d_381 e_380 buf_378) = roundG 38 (S.mk a_374 b_373 c_372 d_371 e_370 buf_368) := rfl
  clear_value a_384 b_383 c_382 d_381 e_380 tmp_379 buf_378 tmp_377 t_376 tmp_375
  extract_lets -merge +onlyGivenNames tmp_385 t_386 tmp_387 buf_388 tmp_389 e_390 d_391 c_392 b_393 a_394
  have h39 : (S.mk a_394 b_393 c_392 d_391 e_390 buf_388) = roundG 39 (S.mk a_384 b_383 c_382 d_381 e_380 buf_378) := rfl
  clear_value a_394 b_393 c_392 d_391 e_390 tmp_389 buf_388 tmp_387 t_386 tmp_385
  extract_lets -merge +onlyGivenNames tmp_395 t_396 tmp_397 buf_398 tmp_399 e_400 d_401 c_402 b_403 a_404
  have h40 : (S.mk a_404 b_403 c_402 d_401 e_400 buf_398) = roundG 40 (S.mk a_394 b_393 c_392 d_391 e_390 buf_388) := rfl
  clear_value a_404 b_403 c_402 d_401 e_400 tmp_399 buf_398 tmp_397 t_396 tmp_395
  extract_lets -merge +onlyGivenNames tmp_405 t_406 tmp_407 buf_408 tmp_409 e_410 d_411 c_412 b_413 a_414
  have h41 : (S.mk a_414 b_413 c_412 d_411 e_410 buf_408) = roundG 41 (S.mk a_404 b_403 c_402 d_401 e_400 buf_398) := rfl
  clear_value a_414 b_413 c_412 d_411 e_410 tmp_409 buf_408 tmp_407 t_406 tmp_405
  extract_lets -merge +onlyGivenNames tmp_415 t_416 tmp_417 buf_418 tmp_419 e_420 d_421 c_422 b_423 a_424
  have h42 : (S.mk a_424 b_423 c_422 d_421 e_420 buf_418) = roundG 42 (S.mk a_414 b_413 c_412 d_411 e_410 buf_408) := rfl
  clear_value a_424 b_423 c_422 d_421 e_420 tmp_419 buf_418 tmp_417 t_416 tmp_415
  extract_lets -merge +onlyGivenNames tmp_425 t_426 tmp_427 buf_428 tmp_429 e_430 d_431 c_432 b_433 a_434
  have h43 : (S.mk a_434 b_433 c_432 d_431 e_430 buf_428) = roundG 43 (S.mk a_424 b_423 c_422 d_421 e_420 buf_418) := rfl
  clear_value a_434 b_433 c_432 d_431 e_430 tmp_429 buf_428 tmp_427 t_426 tmp_425
  extract_lets -merge +onlyGivenNames tmp_435 t_436 tmp_437 buf_438 tmp_439 e_440 d_441 c_442 b_443 a_444
  have h44 : (S.mk a_444 b_443 c_442 d_441 e_440 buf_438) = roundG 44 (S.mk a_434 b_433 c_432 d_431 e_430 buf_428) := rfl
  clear_value a_444 b_443 c_442 d_441 e_440 tmp_439 buf_438 tmp_437 t_436 tmp_435
  extract_lets -merge +onlyGivenNames tmp_445 t_446 tmp_447 buf_448 tmp_449 e_450 d_451 c_452 b_453 a_454
  have h45 : (S.mk a_454 b_453 c_452 d_451 e_450 buf_448) = roundG 45 (S.mk a_444 b_443 c_442 d_441 e_440 buf_438) := rfl
  clear_value a_454 b_453 c_452 d_451 e_450 tmp_449 buf_448 tmp_447 t_446 tmp_445
  extract_lets -merge +onlyGivenNames tmp_455 t_456 tmp_457 buf_458 tmp_459 e_460 d_461 c_462 b_463 a_464
  have h46 : (S.mk a_464 b_463 c_462 d_461 e_460 buf_458) = roundG 46 (S.mk a_454 b_453 c_452 d_451 e_450 buf_448) := rfl
  clear_value a_464 b_463 c_462 d_461 e_460 tmp_459 buf_458 tmp_457 t_456 tmp_455
  extract_lets -merge +onlyGivenNames tmp_465 t_466 tmp_467 buf_468 tmp_469 e_470 d_471 c_472 b_473 a_474
  have h47 : (S.mk a_474 b_473 c_472 d_471 e_470 buf_468) = roundG 47 (S.mk a_464 b_463 c_462 d_461 e_460 buf_458) := rfl
  clear_value a_474 b_473 c_472 d_471 e_470 tmp_469 buf_468 tmp_467 t_466 tmp_465
  extract_lets -merge +onlyGivenNames tmp_475 t_476 tmp_477 buf_478 tmp_479 e_480 d_481 c_482 b_483 a_484
  have h48 : (S.mk a_484 b_483 c_482 d_481 e_480 buf_478) = roundG 48 (S.mk a_474 b_473 c_472 d_471 e_470 buf_468) := rfl
  clear_value a_484 b_483 c_482 d_481 e_480 tmp_479 buf_478 tmp_477 t_476 tmp_475
  extract_lets -merge +onlyGivenNames tmp_485 t_486 tmp_487 buf_488 tmp_489 e_490 d_491 c_492 b_493 a_494
  have h49 : (S.mk a_494 b_493 c_492 d_491 e_490 buf_488) = roundG 49 (S.mk a_484 b_483 c_482 d_481 e_480 buf_478) := rfl
  clear_value a_494 b_493 c_492 d_491 e_490 tmp_489 buf_488 tmp_487 t_486 tmp_485
  extract_lets -merge +onlyGivenNames tmp_495 t_496 tmp_497 buf_498 tmp_499 e_500 d_501 c_502 b_503 a_504
  have h50 : (S.mk a_504 b_503 c_502 d_501 e_500 buf_498) = roundG 50 (S.mk a_494 b_493 c_492 d_491 e_490 buf_488) := rfl
  clear_value a_504 b_503 c_502 d_501 e_500 tmp_499 buf_498 tmp_497 t_496 tmp_495
  extract_lets -merge +onlyGivenNames tmp_505 t_506 tmp_507 buf_508 tmp_509 e_510 d_511 c_512 b_513 a_514
  have h51 : (S.mk a_514 b_513 c_512 d_511 e_510 buf_508) = roundG 51 (S.mk a_504 b_503 c_502 d_501 e_500 buf_498) := rfl
  clear_value a_514 b_513 c_512 d_511 e_510 tmp_509 buf_508 tmp_507 t_506 tmp_505
  extract_lets -merge +onlyGivenNames tmp_515 t_516 tmp_517 buf_518 tmp_519 e_520 d_521 c_522 b_523 a_524
  have h52 : (S.mk a_524 b_523 c_522 d_521 e_520 buf_518) = roundG 52 (S.mk a_514 b_513 c_512 d_511 e_510 buf_508) := rfl
  clear_value a_524 b_523 c_522 d_521 e_520 tmp_519 buf_518 tmp_517 t_516 tmp_515
  extract_lets -merge +onlyGivenNames tmp_525 t_526 tmp_527 buf_528 tmp_529 e_530 d_531 c_532 b_533 a_534
  have h53 : (S.mk a_534 b_533 c_532 d_531 e_530 buf_528) = roundG 53 (S.mk a_524 b_523 c_522 d_521 e_520 buf_518) := rfl
  clear_value a_534 b_533 c_532 d_531 e_530 tmp_529 buf_528 tmp_527 t_526 tmp_525
  extract_lets -merge +onlyGivenNames tmp_535 t_536 tmp_537 buf_538 tmp_539 e_540 d_541 c_542 b_543 a_544
  have h54 : (S.mk a_544 b_543 c_542 d_541 e_540 buf_538) = roundG 54 (S.mk a_534 b_533 c_532 d_531 e_530 buf_528) := rfl
  clear_value a_544 b_543 c_542 d_541 e_540 tmp_539 buf_538 tmp_537 t_536 tmp_535
  extract_lets -merge +onlyGivenNames tmp_545 t_546 tmp_547 buf_548 tmp_549 e_550 d_551 c_552 b_553 a_554
  have h55 : (S.mk a_554 b_553 c_552 d_551 e_550 buf_548) = roundG 55 (S.mk a_544 b_543 c_542 d_541 e_540 buf_538) := rfl
  clear_value a_554 b_553 c_552 d_551 e_550 tmp_549 buf_548 tmp_547 t_546 tmp_545
  extract_lets -merge +onlyGivenNames tmp_555 t_556 tmp_557 buf_558 tmp_559 e_560 d_561 c_562 b_563 a_564
  have h56 : (S.mk a_564 b_563 c_562 d_561 e_560 buf_558) = roundG 56 (S.mk a_554 b_553 c_552 d_551 e_550 buf_548) := rfl
  clear_value a_564 b_563 c_562 d_561 e_560 tmp_559 buf_558 tmp_557 t_556 tmp_555
  extract_lets -merge +onlyGivenNames tmp_565 t_566 tmp_567 buf_568 tmp_569 e_570 d_571 c_572 b_573 a_574
  have h57 : (S.mk a_574 b_573 c_572 d_571 e_570 buf_568) = roundG 57 (S.mk a_564 b_563 c_562 d_561 e_560 buf_558) := rfl
  clear_value a_574 b_573 c_572 d_571 e_570 tmp_569 buf_568 tmp_567 t_566 tmp_565
  extract_lets -merge +onlyGivenNames tmp_575 t_576 tmp_577 buf_578 tmp_579 e_580 d_581 c_582 b_583 a_584
  have h58 : (S.mk a_584 b_583 c_582 d_581 e_580 buf_578) = roundG 58 (S.mk a_574 b_573 c_572 d_571 e_570 buf_568) := rfl
  clear_value a_584 b_583 c_582 d_581 e_580 tmp_579 buf_578 tmp_577 t_576 tmp_575
  extract_lets -merge +onlyGivenNames tmp_585 t_586 tmp_587 buf_588 tmp_589 e_590 d_591 c_592 b_593 a_594
  have h59 : (S.mk a_594 b_593 c_592 d_591 e_590 buf_588) = roundG 59 (S.mk a_584 b_583 c_582 d_581 e_580 buf_578) := rfl
  clear_value a_594 b_593 c_592 d_591 e_590 tmp_589 buf_588 tmp_587 t_586 tmp_585
  extract_lets -merge +onlyGivenNames tmp_595 t_596 tmp_597 buf_598 tmp_599 e_600 d_601 c_602 b_603 a_604
  have h60 : (S.mk a_604 b_603 c_602 d_601 e_600 buf_598) = roundG 60 (S.mk a_594 b_593 c_592 d_591 e_590 buf_588) := rfl
  clear_value a_604 b_603 c_602 d_601 e_600 tmp_599 buf_598 tmp_597 t_596 tmp_595
  extract_lets -merge +onlyGivenNames tmp_605 t_606 tmp_607 buf_608 tmp_609 e_610 d_611 c_612 b_613 a_614
  have h61 : (S.mk a_614 b_613 c_612 d_611 e_610 buf_608) = roundG 61 (S.mk a_604 b_603 c_602 d_601 e_600 buf_598) := rfl
  clear_value a_614 b_613 c_612 d_611 e_610 tmp_609 buf_608 tmp_607 t_606 tmp_605
  extract_lets -merge +onlyGivenNames tmp_615 t_616 tmp_617 buf_618 tmp_619 e_620 d_621 c_622 b_623 a_624
  have h62 : (S.mk a_624 b_623 c_622 d_621 e_620 buf_618) = roundG 62 (S.mk a_614 b_613 c_612 d_611 e_610 buf_608) := rfl
  clear_value a_624 b_623 c_622 d_621 e_620 tmp_619 buf_618 tmp_617 t_616 tmp_615
  extract_lets -merge +onlyGivenNames tmp_625 t_626 tmp_627 buf_628 tmp_629 e_630 d_631 c_632 b_633 a_634
  have h63 : (S.mk a_634 b_633 c_632 d_631 e_630 buf_628) = roundG 63 (S.mk a_624 b_623 c_622 d_621 e_620 buf_618) := rfl
  clear_value a_634 b_633 c_632 d_631 e_630 tmp_629 buf_628 tmp_627 t_626 tmp_625
  extract_lets -merge +onlyGivenNames tmp_635 t_636 tmp_637 buf_638 tmp_639 e_640 d_641 c_642 b_643 a_644
  have h64 : (S.mk a_644 b_643 c_642 d_641 e_640 buf_638) = roundG 64 (S.mk a_634 b_633 c_632 d_631 e_630 buf_628) := rfl
  clear_value a_644 b_643 c_642 d_641 e_640 tmp_639 buf_638 tmp_637 t_636 tmp_635
  extract_lets -merge +onlyGivenNames tmp_645 t_646 tmp_647 buf_648 tmp_649 e_650 d_651 c_652 b_653 a_654
  have h65 : (S.mk a_654 b_653 c_652 d_651 e_650 buf_648) = roundG 65 (S.mk a_644 b_643 c_642 d_641 e_640 buf_638) := rfl
  clear_value a_654 b_653 c_652 d_651 e_650 tmp_649 buf_648 tmp_647 t_646 tmp_645
  extract_lets -merge +onlyGivenNames tmp_655 t_656 tmp_657 buf_658 tmp_659 e_660 d_661 c_662 b_663 a_664
  have h66 : (S.mk a_664 b_663 c_662 d_661 e_660 buf_658) = roundG 66 (S.mk a_654 b_653 c_652 d_651 e_650 buf_648) := rfl
  clear_value a_664 b_663 c_662 d_661 e_660 tmp_659 buf_658 tmp_657 t_656 tmp_655
  extract_lets -merge +onlyGivenNames tmp_665 t_666 tmp_667 buf_668 tmp_669 e_670 d_671 c_672 b_673 a_674
  have h67 : (S.mk a_674 b_673 c_672 d_671 e_670 buf_668) = roundG 67 (S.mk a_664 b_663 c_662 d_661 e_660 buf_658) := rfl
  clear_value a_674 b_673 c_672 d_671 e_670 tmp_669 buf_668 tmp_667 t_666 tmp_665
  extract_lets -merge +onlyGivenNames tmp_675 t_676 tmp_677 buf_678 tmp_679 e_680 d_681 c_682 b_683 a_684
  have h68 : (S.mk a_684 b_683 c_682 d_681 e_680 buf_678) = roundG 68 (S.mk a_674 b_673 c_672 d_671 e_670 buf_668) := rfl
  clear_value a_684 b_683 c_682 d_681 e_680 tmp_679 buf_678 tmp_677 t_676 tmp_675
  extract_lets -merge +onlyGivenNames tmp_685 t_686 tmp_687 buf_688 tmp_689 e_690 d_691 c_692 b_693 a_694
  have h69 : (S.mk a_694 b_693 c_692 d_691 e_690 buf_688) = roundG 69 (S.mk a_684 b_683 c_682 d_681 e_680 buf_678) := rfl
  clear_value a_694 b_693 c_692 d_691 e_690 tmp_689 buf_688 tmp_687 t_686 tmp_685
  extract_lets -merge +onlyGivenNames tmp_695 t_696 tmp_697 buf_698 tmp_699 e_700 d_701 c_702 b_703 a_704
  have h70 : (S.mk a_704 b_703 c_702 d_701 e_700 buf_698) = roundG 70 (S.mk a_694 b_693 c_692 d_691 e_690 buf_688) := rfl
  clear_value a_704 b_703 c_702 d_701 e_700 tmp_699 buf_698 tmp_697 t_696 tmp_695
  extract_lets -merge +onlyGivenNames tmp_705 t_706 tmp_707 buf_708 tmp_709 e_710 d_711 c_712 b_713 a_714
  have h71 : (S.mk a_714 b_713 c_712 d_711 e_710 buf_708) = roundG 71 (S.mk a_704 b_703 c_702 d_701 e_700 buf_698) := rfl
  clear_value a_714 b_713 c_712 d_711 e_710 tmp_709 buf_708 tmp_707 t_706 tmp_705
  extract_lets -merge +onlyGivenNames tmp_715 t_716 tmp_717 buf_718 tmp_719 e_720 d_721 c_722 b_723 a_724
  have h72 : (S.mk a_724 b_723 c_722 d_721 e_720 buf_718) = roundG 72 (S.mk a_714 b_713 c_712 d_711 e_710 buf_708) := rfl
  clear_value a_724 b_723 c_722 d_721 e_720 tmp_719 buf_718 tmp_717 t_716 tmp_715
  extract_lets -merge +onlyGivenNames tmp_725 t_726 tmp_727 buf_728 tmp_729 e_730 d_731 c_732 b_733 a_734
  have h73 : (S.mk a_734 b_733 c_732 d_731 e_730 buf_728) = roundG 73 (S.mk a_724 b_723 c_722 d_721 e_720 buf_718) := rfl
  clear_value a_734 b_733 c_732 d_731 e_730 tmp_729 buf_728 tmp_727 t_726 tmp_725
  extract_lets -merge +onlyGivenNames tmp_735 t_736 tmp_737 buf_738 tmp_739 e_740 d_741 c_742 b_743 a_744
  have h74 : (S.mk a_744 b_743 c_742 d_741 e_740 buf_738) = roundG 74 (S.mk a_734 b_733 c_732 d_731 e_730 buf_728) := rfl
  clear_value a_744 b_743 c_742 d_741 e_740 tmp_739 buf_738 tmp_737 t_736 tmp_735
  extract_lets -merge +onlyGivenNames tmp_745 t_746 tmp_747 buf_748 tmp_749 e_750 d_751 c_752 b_753 a_754
  have h75 : (S.mk a_754 b_753 c_752 d_751 e_750 buf_748) = roundG 75 (S.mk a_744 b_743 c_742 d_741 e_740 buf_738) := rfl
  clear_value a_754 b_753 c_752 d_751 e_750 tmp_749 buf_748 tmp_747 t_746 tmp_745
  extract_lets -merge +onlyGivenNames tmp_755 t_756 tmp_757 buf_758 tmp_759 e_760 d_761 c_762 b_763 a_764
  have h76 : (S.mk a_764 b_763 c_762 d_761 e_760 buf_758) = roundG 76 (S.mk a_754 b_753 c_752 d_751 e_750 buf_748) := rfl
  clear_value a_764 b_763 c_762 d_761 e_760 tmp_759 buf_758 tmp_757 t_756 tmp_755
  extract_lets -merge +onlyGivenNames tmp_765 t_766 tmp_767 buf_768 tmp_769 e_770 d_771 c_772 b_773 a_774
  have h77 : (S.mk a_774 b_773 c_772 d_771 e_770 buf_768) = roundG 77 (S.mk a_764 b_763 c_762 d_761 e_760 buf_758) := rfl
  clear_value a_774 b_773 c_772 d_771 e_770 tmp_769 buf_768 tmp_767 t_766 tmp_765
  extract_lets -merge +onlyGivenNames tmp_775 t_776 tmp_777 buf_778 tmp_779 e_780 d_781 c_782 b_783 a_784
  have h78 : (S.mk a_784 b_783 c_782 d_781 e_780 buf_778) = roundG 78 (S.mk a_774 b_773 c_772 d_771 e_770 buf_768) := rfl
  clear_value a_784 b_783 c_782 d_781 e_780 tmp_779 buf_778 tmp_777 t_776 tmp_775
  extract_lets -merge +onlyGivenNames tmp_785 t_786 tmp_787 buf_788 tmp_789 e_790 d_791 c_792 b_793 a_794
  have h79 : (S.mk a_794 b_793 c_792 d_791 e_790 buf_788) = roundG 79 (S.mk a_784 b_783 c_782 d_781 e_780 buf_778) := rfl
  clear_value a_794 b_793 c_792 d_791 e_790 tmp_789 buf_788 tmp_787 t_786 tmp_785
  extract_lets -merge +onlyGivenNames ctx_a_795 ctx_b_796 ctx_c_797 ctx_d_798 ctx_e_799
  have hfin : ((({ nbytes := ctx.nbytes, a := ctx_a_795, b := ctx_b_796, c := ctx_c_797, d := ctx_d_798, e := ctx_e_799 } : sha1_ctx), buf_788) : sha1_ctx × Array W) = finishG ctx (S.mk a_794 b_793 c_792 d_791 e_790 buf_788) := rfl
  rw [hfin]
  clear hfin
  simp only [List.range, List.range.loop, List.foldl]
  rw [h79, h78, h77, h76, h75, h74, h73, h72, h71, h70, h69, h68, h67, h66, h65, h64, h63, h62, h61, h60, h59, h58, h57, h56, h55, h54, h53, h52, h51, h50, h49, h48, h47, h46, h45, h44, h43, h42, h41, h40, h39, h38, h37, h36, h35, h34, h33, h32, h31, h30, h29, h28, h27, h26, h25, h24, h23, h22, h21, h20, h19, h18, h17, h16, h15, h14, h13, h12, h11, h10, h9, h8, h7, h6, h5, h4, h3, h2, h1, h0, h_s]

end UsualProofs.Bridge.C05TSha1
