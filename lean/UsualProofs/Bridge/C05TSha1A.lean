import Usual.Gen.C05TSha1
/-!
# C05 translation tie, SHA-1 (part A): the 80 macro-expanded rounds of `sha1_core`, folded

`Usual.Gen.C05TSha1` (regenerated from usual/crypto/sha1.c on every run) has one function per
statement of `sha1_core` over the tuple `T` of all variables in scope (`sha1_core_blk1 … blk90`:
five loads `a = ctx->a …`, eighty `SHA1OP` blocks, five `ctx->a += a …`), and `sha1_core` as their
chain.  This file states what one `SHA1OP` block does (`Rlo` for `t < 16`, `Rhi` on the 16-word
circular buffer for `t ≥ 16`; mix function and constant chosen by `t / 20`), proves each block equal
to it (`blk_round_i`, by `rfl`; the list is produced mechanically from the generated names) and
folds the chain: `sha1_core ctx buf = finishG ctx (roundG 79 (… (roundG 0 (startG ctx buf))))`.
No axioms beyond the kernel's.  Part B (`Bridge/C05TSha1.lean`) identifies that with the model.
-/
set_option maxRecDepth 100000
namespace UsualProofs.Bridge.C05TSha1
open Usual.Gen.C05TSha1

abbrev W := BitVec 32

/-- the working variables `a … e` and the 16-word circular message buffer `W(n)` -/
structure S where
  a : W
  b : W
  c : W
  d : W
  e : W
  w : Array W

/-- `F0 … F3`, selected by `t / 20` -/
def fG (q : Nat) (b c d : W) : W :=
  match q with
  | 0 => (d ^^^ (b &&& (c ^^^ d)))
  | 1 => ((b ^^^ c) ^^^ d)
  | 2 => (((b &&& c) ||| (b &&& d)) ||| (c &&& d))
  | _ => ((b ^^^ c) ^^^ d)

/-- the round constants of `SHA1R0 … SHA1R3` -/
def kG (q : Nat) : W :=
  match q with
  | 0 => 1518500249#32
  | 1 => 1859775393#32
  | 2 => 2400959708#32
  | _ => 3395469782#32

/-- the part of `SHA1OP` after `W(t)` has been set -/
def stepG (q : Nat) (wt : W) (s : S) (w' : Array W) : S :=
  let tmp := (((((rol32 s.a (5#32)) + (fG q s.b s.c s.d)) + s.e) + wt) + (kG q))
  { a := tmp, b := s.a, c := (rol32 s.b (30#32)), d := s.c, e := s.d, w := w' }

/-- round `t < 16`: `W(t) = be32toh(W(t))` first -/
def Rlo (j : Nat) (s : S) : S :=
  let w' := s.w.setIfInBounds j (usual_bswap32 (s.w.getD j 0#32))
  stepG 0 (w'.getD j 0#32) s w'

/-- round `t ≥ 16` on the circular buffer: `j = t & 15`, `q = t / 20` -/
def Rhi (j q : Nat) (s : S) : S :=
  let tmp := ((((s.w.getD ((j + 13) % 16) 0#32) ^^^ (s.w.getD ((j + 8) % 16) 0#32)) ^^^ (s.w.getD ((j + 2) % 16) 0#32)) ^^^ (s.w.getD j 0#32))
  let w' := s.w.setIfInBounds j (rol32 tmp (1#32))
  stepG q (w'.getD j 0#32) s w'

def roundG (t : Nat) (s : S) : S := if t < 16 then Rlo t s else Rhi (t % 16) (t / 20) s

/-- all variables in scope inside `sha1_core`: `ctx->nbytes, ctx->a … ctx->e, buf, a … e` -/
abbrev T := BitVec 64 × W × W × W × W × W × Array W × W × W × W × W × W

def unpackT (σ : T) : S :=
  { a := σ.2.2.2.2.2.2.2.1, b := σ.2.2.2.2.2.2.2.2.1, c := σ.2.2.2.2.2.2.2.2.2.1, d := σ.2.2.2.2.2.2.2.2.2.2.1,
    e := σ.2.2.2.2.2.2.2.2.2.2.2, w := σ.2.2.2.2.2.2.1 }

def packT (σ : T) (s : S) : T :=
  (σ.1, σ.2.1, σ.2.2.1, σ.2.2.2.1, σ.2.2.2.2.1, σ.2.2.2.2.2.1, s.w, s.a, s.b, s.c, s.d, s.e)

theorem unpack_pack (σ : T) (s : S) : unpackT (packT σ s) = s := rfl
theorem pack_pack (σ : T) (s s' : S) : packT (packT σ s) s' = packT σ s' := rfl

def finishG (ctx : sha1_ctx) (s : S) : sha1_ctx × Array W :=
  (({ nbytes := ctx.nbytes, a := (ctx.a + s.a), b := (ctx.b + s.b), c := (ctx.c + s.c), d := (ctx.d + s.d),
      e := (ctx.e + s.e) } : sha1_ctx), s.w)

def startG (ctx : sha1_ctx) (buf : Array W) : S :=
  { a := ctx.a, b := ctx.b, c := ctx.c, d := ctx.d, e := ctx.e, w := buf }

/-- the chain of rounds on the tuple = the chain on `S` -/
theorem run_pack (σ : T) : ∀ (l : List Nat) (s : S),
    l.foldl (fun σ i => packT σ (roundG i (unpackT σ))) (packT σ s) = packT σ (l.foldl (fun s i => roundG i s) s) := by
  intro l
  induction l with
  | nil => intro s; rfl
  | cons i l ih => intro s; simp only [List.foldl_cons, unpack_pack, pack_pack, ih]

set_option maxHeartbeats 20000 in
theorem blk_round_0 (σ : T) : sha1_core_blk6 σ = packT σ (roundG 0 (unpackT σ)) := rfl
set_option maxHeartbeats 20000 in
theorem blk_round_1 (σ : T) : sha1_core_blk7 σ = packT σ (roundG 1 (unpackT σ)) := rfl
set_option maxHeartbeats 20000 in
theorem blk_round_2 (σ : T) : sha1_core_blk8 σ = packT σ (roundG 2 (unpackT σ)) := rfl
set_option maxHeartbeats 20000 in
theorem blk_round_3 (σ : T) : sha1_core_blk9 σ = packT σ (roundG 3 (unpackT σ)) := rfl
set_option maxHeartbeats 20000 in
theorem blk_round_4 (σ : T) : sha1_core_blk10 σ = packT σ (roundG 4 (unpackT σ)) := rfl
set_option maxHeartbeats 20000 in
theorem blk_round_5 (σ : T) : sha1_core_blk11 σ = packT σ (roundG 5 (unpackT σ)) := rfl
set_option maxHeartbeats 20000 in
theorem blk_round_6 (σ : T) : sha1_core_blk12 σ = packT σ (roundG 6 (unpackT σ)) := rfl
set_option maxHeartbeats 20000 in
theorem blk_round_7 (σ : T) : sha1_core_blk13 σ = packT σ (roundG 7 (unpackT σ)) := rfl
set_option maxHeartbeats 20000 in
theorem blk_round_8 (σ : T) : sha1_core_blk14 σ = packT σ (roundG 8 (unpackT σ)) := rfl
set_option maxHeartbeats 20000 in
theorem blk_round_9 (σ : T) : sha1_core_blk15 σ = packT σ (roundG 9 (unpackT σ)) := rfl
set_option maxHeartbeats 20000 in
theorem blk_round_10 (σ : T) : sha1_core_blk16 σ = packT σ (roundG 10 (unpackT σ)) := rfl
set_option maxHeartbeats 20000 in
theorem blk_round_11 (σ : T) : sha1_core_blk17 σ = packT σ (roundG 11 (unpackT σ)) := rfl
set_option maxHeartbeats 20000 in
theorem blk_round_12 (σ : T) : sha1_core_blk18 σ = packT σ (roundG 12 (unpackT σ)) := rfl
set_option maxHeartbeats 20000 in
theorem blk_round_13 (σ : T) : sha1_core_blk19 σ = packT σ (roundG 13 (unpackT σ)) := rfl
set_option maxHeartbeats 20000 in
theorem blk_round_14 (σ : T) : sha1_core_blk20 σ = packT σ (roundG 14 (unpackT σ)) := rfl
set_option maxHeartbeats 20000 in
theorem blk_round_15 (σ : T) : sha1_core_blk21 σ = packT σ (roundG 15 (unpackT σ)) := rfl
set_option maxHeartbeats 20000 in
theorem blk_round_16 (σ : T) : sha1_core_blk22 σ = packT σ (roundG 16 (unpackT σ)) := rfl
set_option maxHeartbeats 20000 in
theorem blk_round_17 (σ : T) : sha1_core_blk23 σ = packT σ (roundG 17 (unpackT σ)) := rfl
set_option maxHeartbeats 20000 in
theorem blk_round_18 (σ : T) : sha1_core_blk24 σ = packT σ (roundG 18 (unpackT σ)) := rfl
set_option maxHeartbeats 20000 in
theorem blk_round_19 (σ : T) : sha1_core_blk25 σ = packT σ (roundG 19 (unpackT σ)) := rfl
set_option maxHeartbeats 20000 in
theorem blk_round_20 (σ : T) : sha1_core_blk26 σ = packT σ (roundG 20 (unpackT σ)) := rfl
set_option maxHeartbeats 20000 in
theorem blk_round_21 (σ : T) : sha1_core_blk27 σ = packT σ (roundG 21 (unpackT σ)) := rfl
set_option maxHeartbeats 20000 in
theorem blk_round_22 (σ : T) : sha1_core_blk28 σ = packT σ (roundG 22 (unpackT σ)) := rfl
set_option maxHeartbeats 20000 in
theorem blk_round_23 (σ : T) : sha1_core_blk29 σ = packT σ (roundG 23 (unpackT σ)) := rfl
set_option maxHeartbeats 20000 in
theorem blk_round_24 (σ : T) : sha1_core_blk30 σ = packT σ (roundG 24 (unpackT σ)) := rfl
set_option maxHeartbeats 20000 in
theorem blk_round_25 (σ : T) : sha1_core_blk31 σ = packT σ (roundG 25 (unpackT σ)) := rfl
set_option maxHeartbeats 20000 in
theorem blk_round_26 (σ : T) : sha1_core_blk32 σ = packT σ (roundG 26 (unpackT σ)) := rfl
set_option maxHeartbeats 20000 in
theorem blk_round_27 (σ : T) : sha1_core_blk33 σ = packT σ (roundG 27 (unpackT σ)) := rfl
set_option maxHeartbeats 20000 in
theorem blk_round_28 (σ : T) : sha1_core_blk34 σ = packT σ (roundG 28 (unpackT σ)) := rfl
set_option maxHeartbeats 20000 in
theorem blk_round_29 (σ : T) : sha1_core_blk35 σ = packT σ (roundG 29 (unpackT σ)) := rfl
set_option maxHeartbeats 20000 in
theorem blk_round_30 (σ : T) : sha1_core_blk36 σ = packT σ (roundG 30 (unpackT σ)) := rfl
set_option maxHeartbeats 20000 in
theorem blk_round_31 (σ : T) : sha1_core_blk37 σ = packT σ (roundG 31 (unpackT σ)) := rfl
set_option maxHeartbeats 20000 in
theorem blk_round_32 (σ : T) : sha1_core_blk38 σ = packT σ (roundG 32 (unpackT σ)) := rfl
set_option maxHeartbeats 20000 in
theorem blk_round_33 (σ : T) : sha1_core_blk39 σ = packT σ (roundG 33 (unpackT σ)) := rfl
set_option maxHeartbeats 20000 in
theorem blk_round_34 (σ : T) : sha1_core_blk40 σ = packT σ (roundG 34 (unpackT σ)) := rfl
set_option maxHeartbeats 20000 in
theorem blk_round_35 (σ : T) : sha1_core_blk41 σ = packT σ (roundG 35 (unpackT σ)) := rfl
set_option maxHeartbeats 20000 in
theorem blk_round_36 (σ : T) : sha1_core_blk42 σ = packT σ (roundG 36 (unpackT σ)) := rfl
set_option maxHeartbeats 20000 in
theorem blk_round_37 (σ : T) : sha1_core_blk43 σ = packT σ (roundG 37 (unpackT σ)) := rfl
set_option maxHeartbeats 20000 in
theorem blk_round_38 (σ : T) : sha1_core_blk44 σ = packT σ (roundG 38 (unpackT σ)) := rfl
set_option maxHeartbeats 20000 in
theorem blk_round_39 (σ : T) : sha1_core_blk45 σ = packT σ (roundG 39 (unpackT σ)) := rfl
set_option maxHeartbeats 20000 in
theorem blk_round_40 (σ : T) : sha1_core_blk46 σ = packT σ (roundG 40 (unpackT σ)) := rfl
set_option maxHeartbeats 20000 in
theorem blk_round_41 (σ : T) : sha1_core_blk47 σ = packT σ (roundG 41 (unpackT σ)) := rfl
set_option maxHeartbeats 20000 in
theorem blk_round_42 (σ : T) : sha1_core_blk48 σ = packT σ (roundG 42 (unpackT σ)) := rfl
set_option maxHeartbeats 20000 in
theorem blk_round_43 (σ : T) : sha1_core_blk49 σ = packT σ (roundG 43 (unpackT σ)) := rfl
set_option maxHeartbeats 20000 in
theorem blk_round_44 (σ : T) : sha1_core_blk50 σ = packT σ (roundG 44 (unpackT σ)) := rfl
set_option maxHeartbeats 20000 in
theorem blk_round_45 (σ : T) : sha1_core_blk51 σ = packT σ (roundG 45 (unpackT σ)) := rfl
set_option maxHeartbeats 20000 in
theorem blk_round_46 (σ : T) : sha1_core_blk52 σ = packT σ (roundG 46 (unpackT σ)) := rfl
set_option maxHeartbeats 20000 in
theorem blk_round_47 (σ : T) : sha1_core_blk53 σ = packT σ (roundG 47 (unpackT σ)) := rfl
set_option maxHeartbeats 20000 in
theorem blk_round_48 (σ : T) : sha1_core_blk54 σ = packT σ (roundG 48 (unpackT σ)) := rfl
set_option maxHeartbeats 20000 in
theorem blk_round_49 (σ : T) : sha1_core_blk55 σ = packT σ (roundG 49 (unpackT σ)) := rfl
set_option maxHeartbeats 20000 in
theorem blk_round_50 (σ : T) : sha1_core_blk56 σ = packT σ (roundG 50 (unpackT σ)) := rfl
set_option maxHeartbeats 20000 in
theorem blk_round_51 (σ : T) : sha1_core_blk57 σ = packT σ (roundG 51 (unpackT σ)) := rfl
set_option maxHeartbeats 20000 in
theorem blk_round_52 (σ : T) : sha1_core_blk58 σ = packT σ (roundG 52 (unpackT σ)) := rfl
set_option maxHeartbeats 20000 in
theorem blk_round_53 (σ : T) : sha1_core_blk59 σ = packT σ (roundG 53 (unpackT σ)) := rfl
set_option maxHeartbeats 20000 in
theorem blk_round_54 (σ : T) : sha1_core_blk60 σ = packT σ (roundG 54 (unpackT σ)) := rfl
set_option maxHeartbeats 20000 in
theorem blk_round_55 (σ : T) : sha1_core_blk61 σ = packT σ (roundG 55 (unpackT σ)) := rfl
set_option maxHeartbeats 20000 in
theorem blk_round_56 (σ : T) : sha1_core_blk62 σ = packT σ (roundG 56 (unpackT σ)) := rfl
set_option maxHeartbeats 20000 in
theorem blk_round_57 (σ : T) : sha1_core_blk63 σ = packT σ (roundG 57 (unpackT σ)) := rfl
set_option maxHeartbeats 20000 in
theorem blk_round_58 (σ : T) : sha1_core_blk64 σ = packT σ (roundG 58 (unpackT σ)) := rfl
set_option maxHeartbeats 20000 in
theorem blk_round_59 (σ : T) : sha1_core_blk65 σ = packT σ (roundG 59 (unpackT σ)) := rfl
set_option maxHeartbeats 20000 in
theorem blk_round_60 (σ : T) : sha1_core_blk66 σ = packT σ (roundG 60 (unpackT σ)) := rfl
set_option maxHeartbeats 20000 in
theorem blk_round_61 (σ : T) : sha1_core_blk67 σ = packT σ (roundG 61 (unpackT σ)) := rfl
set_option maxHeartbeats 20000 in
theorem blk_round_62 (σ : T) : sha1_core_blk68 σ = packT σ (roundG 62 (unpackT σ)) := rfl
set_option maxHeartbeats 20000 in
theorem blk_round_63 (σ : T) : sha1_core_blk69 σ = packT σ (roundG 63 (unpackT σ)) := rfl
set_option maxHeartbeats 20000 in
theorem blk_round_64 (σ : T) : sha1_core_blk70 σ = packT σ (roundG 64 (unpackT σ)) := rfl
set_option maxHeartbeats 20000 in
theorem blk_round_65 (σ : T) : sha1_core_blk71 σ = packT σ (roundG 65 (unpackT σ)) := rfl
set_option maxHeartbeats 20000 in
theorem blk_round_66 (σ : T) : sha1_core_blk72 σ = packT σ (roundG 66 (unpackT σ)) := rfl
set_option maxHeartbeats 20000 in
theorem blk_round_67 (σ : T) : sha1_core_blk73 σ = packT σ (roundG 67 (unpackT σ)) := rfl
set_option maxHeartbeats 20000 in
theorem blk_round_68 (σ : T) : sha1_core_blk74 σ = packT σ (roundG 68 (unpackT σ)) := rfl
set_option maxHeartbeats 20000 in
theorem blk_round_69 (σ : T) : sha1_core_blk75 σ = packT σ (roundG 69 (unpackT σ)) := rfl
set_option maxHeartbeats 20000 in
theorem blk_round_70 (σ : T) : sha1_core_blk76 σ = packT σ (roundG 70 (unpackT σ)) := rfl
set_option maxHeartbeats 20000 in
theorem blk_round_71 (σ : T) : sha1_core_blk77 σ = packT σ (roundG 71 (unpackT σ)) := rfl
set_option maxHeartbeats 20000 in
theorem blk_round_72 (σ : T) : sha1_core_blk78 σ = packT σ (roundG 72 (unpackT σ)) := rfl
set_option maxHeartbeats 20000 in
theorem blk_round_73 (σ : T) : sha1_core_blk79 σ = packT σ (roundG 73 (unpackT σ)) := rfl
set_option maxHeartbeats 20000 in
theorem blk_round_74 (σ : T) : sha1_core_blk80 σ = packT σ (roundG 74 (unpackT σ)) := rfl
set_option maxHeartbeats 20000 in
theorem blk_round_75 (σ : T) : sha1_core_blk81 σ = packT σ (roundG 75 (unpackT σ)) := rfl
set_option maxHeartbeats 20000 in
theorem blk_round_76 (σ : T) : sha1_core_blk82 σ = packT σ (roundG 76 (unpackT σ)) := rfl
set_option maxHeartbeats 20000 in
theorem blk_round_77 (σ : T) : sha1_core_blk83 σ = packT σ (roundG 77 (unpackT σ)) := rfl
set_option maxHeartbeats 20000 in
theorem blk_round_78 (σ : T) : sha1_core_blk84 σ = packT σ (roundG 78 (unpackT σ)) := rfl
set_option maxHeartbeats 20000 in
theorem blk_round_79 (σ : T) : sha1_core_blk85 σ = packT σ (roundG 79 (unpackT σ)) := rfl

/-- the five loads `a = ctx->a; … e = ctx->e;` -/
theorem blk_load (ctx : sha1_ctx) (buf : Array W) (z1 z2 z3 z4 z5 : W) :
    sha1_core_blk5 (sha1_core_blk4 (sha1_core_blk3 (sha1_core_blk2 (sha1_core_blk1
      (ctx.nbytes, ctx.a, ctx.b, ctx.c, ctx.d, ctx.e, buf, z1, z2, z3, z4, z5))))) =
    packT (ctx.nbytes, ctx.a, ctx.b, ctx.c, ctx.d, ctx.e, buf, z1, z2, z3, z4, z5) (startG ctx buf) := rfl

/-- the five stores `ctx->a += a; … ctx->e += e;` -/
theorem blk_store (σ : T) :
    sha1_core_blk90 (sha1_core_blk89 (sha1_core_blk88 (sha1_core_blk87 (sha1_core_blk86 σ)))) =
    (σ.1, σ.2.1 + (unpackT σ).a, σ.2.2.1 + (unpackT σ).b, σ.2.2.2.1 + (unpackT σ).c, σ.2.2.2.2.1 + (unpackT σ).d,
     σ.2.2.2.2.2.1 + (unpackT σ).e, (unpackT σ).w, (unpackT σ).a, (unpackT σ).b, (unpackT σ).c, (unpackT σ).d,
     (unpackT σ).e) := rfl

set_option maxHeartbeats 2000000 in
/-- the generated `sha1_core`, folded -/
theorem core_eq_rounds (ctx : sha1_ctx) (buf : Array W) :
    sha1_core ctx buf = finishG ctx ((List.range 80).foldl (fun s t => roundG t s) (startG ctx buf)) := by
  unfold sha1_core
  show (let r := (sha1_core_blk90 (sha1_core_blk89 (sha1_core_blk88 (sha1_core_blk87 (sha1_core_blk86 (sha1_core_blk85 (sha1_core_blk84 (sha1_core_blk83 (sha1_core_blk82 (sha1_core_blk81 (sha1_core_blk80 (sha1_core_blk79 (sha1_core_blk78 (sha1_core_blk77 (sha1_core_blk76 (sha1_core_blk75 (sha1_core_blk74 (sha1_core_blk73 (sha1_core_blk72 (sha1_core_blk71 (sha1_core_blk70 (sha1_core_blk69 (sha1_core_blk68 (sha1_core_blk67 (sha1_core_blk66 (sha1_core_blk65 (sha1_core_blk64 (sha1_core_blk63 (sha1_core_blk62 (sha1_core_blk61 (sha1_core_blk60 (sha1_core_blk59 (sha1_core_blk58 (sha1_core_blk57 (sha1_core_blk56 (sha1_core_blk55 (sha1_core_blk54 (sha1_core_blk53 (sha1_core_blk52 (sha1_core_blk51 (sha1_core_blk50 (sha1_core_blk49 (sha1_core_blk48 (sha1_core_blk47 (sha1_core_blk46 (sha1_core_blk45 (sha1_core_blk44 (sha1_core_blk43 (sha1_core_blk42 (sha1_core_blk41 (sha1_core_blk40 (sha1_core_blk39 (sha1_core_blk38 (sha1_core_blk37 (sha1_core_blk36 (sha1_core_blk35 (sha1_core_blk34 (sha1_core_blk33 (sha1_core_blk32 (sha1_core_blk31 (sha1_core_blk30 (sha1_core_blk29 (sha1_core_blk28 (sha1_core_blk27 (sha1_core_blk26 (sha1_core_blk25 (sha1_core_blk24 (sha1_core_blk23 (sha1_core_blk22 (sha1_core_blk21 (sha1_core_blk20 (sha1_core_blk19 (sha1_core_blk18 (sha1_core_blk17 (sha1_core_blk16 (sha1_core_blk15 (sha1_core_blk14 (sha1_core_blk13 (sha1_core_blk12 (sha1_core_blk11 (sha1_core_blk10 (sha1_core_blk9 (sha1_core_blk8 (sha1_core_blk7 (sha1_core_blk6 (sha1_core_blk5 (sha1_core_blk4 (sha1_core_blk3 (sha1_core_blk2 (sha1_core_blk1 (ctx.nbytes, ctx.a, ctx.b, ctx.c, ctx.d, ctx.e, buf, 0#32, 0#32, 0#32, 0#32, 0#32)))))))))))))))))))))))))))))))))))))))))))))))))))))))))))))))))))))))))))))))))))))))))))
        ((({ nbytes := r.1, a := r.2.1, b := r.2.2.1, c := r.2.2.2.1, d := r.2.2.2.2.1, e := r.2.2.2.2.2.1 } : sha1_ctx),
          r.2.2.2.2.2.2.1) : sha1_ctx × Array W)) = _
  simp only [blk_load, unpack_pack, pack_pack, blk_round_0, blk_round_1, blk_round_2, blk_round_3, blk_round_4, blk_round_5, blk_round_6, blk_round_7, blk_round_8, blk_round_9, blk_round_10, blk_round_11, blk_round_12, blk_round_13, blk_round_14, blk_round_15, blk_round_16, blk_round_17, blk_round_18, blk_round_19, blk_round_20, blk_round_21, blk_round_22, blk_round_23, blk_round_24, blk_round_25, blk_round_26, blk_round_27, blk_round_28, blk_round_29, blk_round_30, blk_round_31, blk_round_32, blk_round_33, blk_round_34, blk_round_35, blk_round_36, blk_round_37, blk_round_38, blk_round_39, blk_round_40, blk_round_41, blk_round_42, blk_round_43, blk_round_44, blk_round_45, blk_round_46, blk_round_47, blk_round_48, blk_round_49, blk_round_50, blk_round_51, blk_round_52, blk_round_53, blk_round_54, blk_round_55, blk_round_56, blk_round_57, blk_round_58, blk_round_59, blk_round_60, blk_round_61, blk_round_62, blk_round_63, blk_round_64, blk_round_65, blk_round_66, blk_round_67, blk_round_68, blk_round_69, blk_round_70, blk_round_71, blk_round_72, blk_round_73, blk_round_74, blk_round_75, blk_round_76, blk_round_77, blk_round_78, blk_round_79]
  rw [blk_store]
  simp only [List.range, List.range.loop, List.foldl, unpack_pack]
  rfl

end UsualProofs.Bridge.C05TSha1
