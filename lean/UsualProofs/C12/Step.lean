import Usual.C12.Spec
import UsualProofs.C12.Refine
/-! The per-function lemmas assembled into statements about `step` on slot states. -/
set_option linter.unusedSimpArgs false
set_option linter.unusedVariables false

namespace UsualProofs.C12
open Usual.C12

theorem good_of_inv {s : State} (h : AllInv s) (i : Nat) : Good (s i) := (inv_iff _).mp (h i)

theorem inv_set {s : State} (h : AllInv s) {b : Buf} (hb : Good b) (i : Nat) : AllInv (s.set i b) := by
  intro j
  simp only [State.set]
  split
  · exact (inv_iff _).mpr hb
  · exact h j

theorem set_same (s : State) (i : Nat) (b : Buf) : (s.set i b) i = b := by simp [State.set]
theorem set_other (s : State) {i j : Nat} (b : Buf) (h : j ≠ i) : (s.set i b) j = s j := by
  simp [State.set, h]

/-! ## invariant -/

theorem inv_step' {s : State} (h : AllInv s) (op : Op) : AllInv (step s op).1 := by
  have G := good_of_inv h
  cases op with
  | initReader i len gen => exact inv_set h (good_initFixedReader _ _) i
  | initWriter i len gen => exact inv_set h (good_initFixedWriter _ _) i
  | initDynamic i => exact inv_set h good_initDynamic i
  | free i => exact inv_set h (good_free (G i)) i
  | rewindReader i => exact inv_set h (good_rewindReader (G i)) i
  | rewindWriter i => exact inv_set h (good_rewindWriter (G i)) i
  | availRead i => exact h
  | availWrite i => exact h
  | written i => exact h
  | consumed i => exact h
  | eq i j => simp only [step]; split <;> exact h
  | eqStr i str => exact h
  | getByte i => exact inv_set h (good_getByte (G i)) i
  | getChar i => exact inv_set h (good_getByte (G i)) i
  | getU16 i => exact inv_set h (good_getU16 (G i)) i
  | getU32 i => exact inv_set h (good_getU32 (G i)) i
  | getU64 i => exact inv_set h (good_getU64 (G i)) i
  | getBytes i len => exact inv_set h (good_getBytes (G i) len) i
  | getChars i len => exact inv_set h (good_getBytes (G i) len) i
  | getString i => exact inv_set h (good_getString (G i)) i
  | makeRoom i len ora => exact inv_set h (makeRoom_good (G i) len ora) i
  | writeByte i v ora => exact inv_set h (good_writeByte (G i) v ora) i
  | write i src len ora => exact inv_set h (good_write (G i) src len ora) i
  | fill i byte len ora => exact inv_set h (good_fill (G i) byte len ora) i
  | writeRaw d c ora =>
    simp only [step]
    split
    · exact h
    · have := good_writeRaw (G d) (G c) ora
      exact inv_set (inv_set h this.1 d) this.2 c
  | writeMbuf d c len ora =>
    simp only [step]
    split
    · exact h
    · have := good_writeMbuf (G d) (G c) len ora
      exact inv_set (inv_set h this.1 d) this.2 c
  | cut i ofs len => exact inv_set h (good_cut (G i) ofs len) i
  | copy c d => exact inv_set h (G c) d
  | slice c len d =>
    simp only [step]
    split
    · exact inv_set h (good_sliceSelf (G c) len) c
    · have := good_sliceOp (G c) (G d) len
      exact inv_set (inv_set h this.1 d) this.2 c

/-! ## access safety -/

theorem mem_tag {i : Nat} {l : List Access} {p : Nat × Access} (h : p ∈ tag i l) :
    p.1 = i ∧ p.2 ∈ l := by
  simp only [tag, List.mem_map] at h
  obtain ⟨a, ha, rfl⟩ := h
  exact ⟨rfl, ha⟩

theorem accAllOk_mem {pre post : Buf} {l : List Access} (h : accAllOk pre post l = true)
    {a : Access} (ha : a ∈ l) : accOk pre post a = true := by
  simp only [accAllOk, List.all_eq_true] at h
  exact h a ha

/-- one-buffer call -/
theorem safe_ofRes (s : State) (i : Nat) (r : Res) (op : Op) (hs : step s op = ofRes s i r)
    (hacc : accAllOk (s i) r.buf r.acc = true) (hk : keepsFixed (s i) r.buf = true) :
    StepSafe s op := by
  unfold StepSafe
  rw [hs]
  constructor
  · intro p hp
    obtain ⟨h1, h2⟩ := mem_tag hp
    rw [h1]
    show accOk (s i) ((s.set i r.buf) i) p.2 = true
    rw [set_same]
    exact accAllOk_mem hacc h2
  · intro j _
    show keepsFixed (s j) ((s.set i r.buf) j) = true
    by_cases hj : j = i
    · subst hj; rw [set_same]; exact hk
    · rw [set_other _ _ hj]; exact keepsFixed_refl _

/-- two-buffer call on distinct slots -/
theorem safe_ofRes2 (s : State) (d c : Nat) (hdc : d ≠ c) (r : Res2) (op : Op)
    (hs : step s op = ofRes2 s d c r)
    (ha1 : accAllOk (s d) r.dst r.accDst = true) (ha2 : accAllOk (s c) r.src r.accSrc = true)
    (hk1 : op.reinits d = false → keepsFixed (s d) r.dst = true)
    (hk2 : keepsFixed (s c) r.src = true) :
    StepSafe s op := by
  unfold StepSafe
  rw [hs]
  have e1 : ((s.set d r.dst).set c r.src) d = r.dst := by
    rw [set_other _ _ hdc, set_same]
  have e2 : ((s.set d r.dst).set c r.src) c = r.src := set_same _ _ _
  constructor
  · intro p hp
    simp only [ofRes2, List.mem_append] at hp
    rcases hp with hp | hp
    · obtain ⟨h1, h2⟩ := mem_tag hp
      rw [h1]
      show accOk (s d) (((s.set d r.dst).set c r.src) d) p.2 = true
      rw [e1]; exact accAllOk_mem ha1 h2
    · obtain ⟨h1, h2⟩ := mem_tag hp
      rw [h1]
      show accOk (s c) (((s.set d r.dst).set c r.src) c) p.2 = true
      rw [e2]; exact accAllOk_mem ha2 h2
  · intro j hj
    show keepsFixed (s j) (((s.set d r.dst).set c r.src) j) = true
    by_cases hjc : j = c
    · subst hjc; rw [e2]; exact hk2
    · by_cases hjd : j = d
      · subst hjd; rw [e1]; exact hk1 hj
      · rw [set_other _ _ hjc, set_other _ _ hjd]; exact keepsFixed_refl _

/-- call that only replaces slot `i`, performs no access, and either re-initialises the slot
or keeps what has to be kept -/
theorem safe_set (s : State) (i : Nat) (b : Buf) (op : Op) (hs : (step s op).1 = s.set i b)
    (hacc : (step s op).2.acc = [])
    (hk : op.reinits i = false → keepsFixed (s i) b = true) : StepSafe s op := by
  unfold StepSafe
  rw [hs, hacc]
  constructor
  · intro p hp; cases hp
  · intro j hj
    by_cases hji : j = i
    · subst hji; rw [set_same]; exact hk hj
    · rw [set_other _ _ hji]; exact keepsFixed_refl _

theorem safe_pure (s : State) (op : Op) (hs : (step s op).1 = s) (hacc : (step s op).2.acc = []) :
    StepSafe s op := by
  unfold StepSafe
  rw [hs, hacc]
  exact ⟨fun p hp => (by cases hp), fun j _ => keepsFixed_refl _⟩

theorem eq_src (a b : Buf) : (eq a b).src = b := by
  unfold eq; split <;> rfl

theorem keeps_rewindWriter (b : Buf) : keepsFixed b (rewindWriter b) = true := by
  unfold rewindWriter
  cases hr : b.reader
  · simp [keepsFixed, hr]
  · simp [keepsFixed]

theorem safe_step' {s : State} (h : AllInv s) (op : Op) : StepSafe s op := by
  have G := good_of_inv h
  cases op with
  | initReader i len gen => exact safe_set s i _ _ rfl rfl (fun hh => by simp [Op.reinits] at hh)
  | initWriter i len gen => exact safe_set s i _ _ rfl rfl (fun hh => by simp [Op.reinits] at hh)
  | initDynamic i => exact safe_set s i _ _ rfl rfl (fun hh => by simp [Op.reinits] at hh)
  | free i => exact safe_set s i _ _ rfl rfl (fun hh => by simp [Op.reinits] at hh)
  | rewindReader i => exact safe_set s i _ _ rfl rfl (fun _ => keepsFixed_advance _ _)
  | rewindWriter i => exact safe_set s i _ _ rfl rfl (fun _ => keeps_rewindWriter _)
  | availRead i => exact safe_pure s _ rfl rfl
  | availWrite i => exact safe_pure s _ rfl rfl
  | written i => exact safe_pure s _ rfl rfl
  | consumed i => exact safe_pure s _ rfl rfl
  | eq i j =>
    by_cases hij : i = j
    · exact safe_pure s _ (by simp [step, hij]) (by simp [step, hij])
    · unfold StepSafe
      simp only [step, hij, ↓reduceIte]
      have se := safe_eq (s i) (s j)
      rw [eq_dst] at se
      rw [eq_src] at se
      refine ⟨?_, fun j _ => keepsFixed_refl _⟩
      intro p hp
      simp only [List.mem_append] at hp
      rcases hp with hp | hp
      · obtain ⟨h1, h2⟩ := mem_tag hp; rw [h1]; exact accAllOk_mem se.1 h2
      · obtain ⟨h1, h2⟩ := mem_tag hp; rw [h1]; exact accAllOk_mem se.2 h2
  | eqStr i str =>
    unfold StepSafe
    simp only [step]
    have se := safe_eqStr (s i) str
    have hb : (eqStr (s i) str).buf = s i := rfl
    rw [hb] at se
    refine ⟨?_, fun j _ => keepsFixed_refl _⟩
    intro p hp
    obtain ⟨h1, h2⟩ := mem_tag hp; rw [h1]; exact accAllOk_mem se h2
  | getByte i => exact safe_ofRes s i _ _ rfl (safe_getByte (G i)).1 (safe_getByte (G i)).2
  | getChar i => exact safe_ofRes s i _ _ rfl (safe_getByte (G i)).1 (safe_getByte (G i)).2
  | getU16 i => exact safe_ofRes s i _ _ rfl (safe_getU16 (G i)).1 (safe_getU16 (G i)).2
  | getU32 i => exact safe_ofRes s i _ _ rfl (safe_getU32 (G i)).1 (safe_getU32 (G i)).2
  | getU64 i => exact safe_ofRes s i _ _ rfl (safe_getU64 (G i)).1 (safe_getU64 (G i)).2
  | getBytes i len =>
    exact safe_ofRes s i _ _ rfl (safe_getBytes (G i) len).1 (safe_getBytes (G i) len).2
  | getChars i len =>
    exact safe_ofRes s i _ _ rfl (safe_getBytes (G i) len).1 (safe_getBytes (G i) len).2
  | getString i => exact safe_ofRes s i _ _ rfl (safe_getString (G i)).1 (safe_getString (G i)).2
  | makeRoom i len ora => exact safe_set s i _ _ rfl rfl (fun _ => keeps_makeRoom (G i) len ora)
  | writeByte i v ora =>
    exact safe_ofRes s i _ _ rfl (safe_writeByte (G i) v ora).1 (safe_writeByte (G i) v ora).2
  | write i src len ora =>
    exact safe_ofRes s i _ _ rfl (safe_write (G i) src len ora).1 (safe_write (G i) src len ora).2
  | fill i byte len ora =>
    exact safe_ofRes s i _ _ rfl (safe_fill (G i) byte len ora).1 (safe_fill (G i) byte len ora).2
  | writeRaw d c ora =>
    by_cases hdc : d = c
    · exact safe_pure s _ (by simp [step, hdc, rejected]) (by simp [step, hdc, rejected])
    · have w := safe_writeRaw (G d) (G c) ora
      exact safe_ofRes2 s d c hdc _ _ (by simp [step, hdc]) w.1 w.2.1 (fun _ => w.2.2.1) w.2.2.2
  | writeMbuf d c len ora =>
    by_cases hdc : d = c
    · exact safe_pure s _ (by simp [step, hdc, rejected]) (by simp [step, hdc, rejected])
    · have w := safe_writeMbuf (G d) (G c) len ora
      exact safe_ofRes2 s d c hdc _ _ (by simp [step, hdc]) w.1 w.2.1 (fun _ => w.2.2.1) w.2.2.2
  | cut i ofs len =>
    exact safe_ofRes s i _ _ rfl (safe_cut (G i) ofs len).1 (safe_cut (G i) ofs len).2
  | copy c d => exact safe_set s d _ _ rfl rfl (fun hh => by simp [Op.reinits] at hh)
  | slice c len d =>
    by_cases hcd : c = d
    · subst hcd
      unfold StepSafe
      simp only [step, ↓reduceIte, ofRes]
      constructor
      · intro p hp
        obtain ⟨h1, h2⟩ := mem_tag hp
        rw [h1, set_same]
        exact accAllOk_mem (safe_sliceSelf (G c) len) h2
      · intro j hj
        have hjc : j ≠ c := by
          intro e; subst e; simp [Op.reinits] at hj
        rw [set_other _ _ hjc]; exact keepsFixed_refl _
    · have w := safe_sliceOp (d := s d) (G c) len
      have hdc : d ≠ c := fun e => hcd e.symm
      refine safe_ofRes2 s d c hdc _ _ (by simp [step, hcd]) ?_ w.1 ?_ w.2.2
      · rw [w.2.1]; rfl
      · intro hh; simp [Op.reinits] at hh

/-! ## false ⇒ unchanged -/

theorem unch_ofRes (s : State) (i : Nat) (r : Res) (op : Op) (hs : step s op = ofRes s i r)
    (hu : r.ok = false → r.buf = s i) : StepUnchanged s op := by
  unfold StepUnchanged
  rw [hs]
  intro hok j
  show (s.set i r.buf) j = s j
  rw [hu hok]
  simp only [State.set]; split
  · rename_i e; rw [e]
  · rfl

theorem unch_ofRes2 (s : State) (d c : Nat) (r : Res2) (op : Op) (hs : step s op = ofRes2 s d c r)
    (hu : r.ok = false → r.dst = s d ∧ r.src = s c) : StepUnchanged s op := by
  unfold StepUnchanged
  rw [hs]
  intro hok j
  show ((s.set d r.dst).set c r.src) j = s j
  rw [(hu hok).1, (hu hok).2]
  simp only [State.set]
  split
  · rename_i e; rw [e]
  · split
    · rename_i e; rw [e]
    · rfl

theorem unch_true (s : State) (op : Op) (h : (step s op).2.ok = true) : StepUnchanged s op := by
  unfold StepUnchanged; rw [h]; intro hh; cases hh

theorem unch_same (s : State) (op : Op) (h : (step s op).1 = s) : StepUnchanged s op := by
  unfold StepUnchanged; rw [h]; intro _ _; rfl

theorem unchanged_step' {s : State} (h : AllInv s) (op : Op) : StepUnchanged s op := by
  have G := good_of_inv h
  cases op with
  | initReader i len gen => exact unch_true s _ rfl
  | initWriter i len gen => exact unch_true s _ rfl
  | initDynamic i => exact unch_true s _ rfl
  | free i => exact unch_true s _ rfl
  | rewindReader i => exact unch_true s _ rfl
  | rewindWriter i => exact unch_true s _ rfl
  | availRead i => exact unch_true s _ rfl
  | availWrite i => exact unch_true s _ rfl
  | written i => exact unch_true s _ rfl
  | consumed i => exact unch_true s _ rfl
  | eq i j => exact unch_same s _ (by simp only [step]; split <;> rfl)
  | eqStr i str => exact unch_same s _ rfl
  | getByte i => exact unch_ofRes s i _ _ rfl (unch_getByte _)
  | getChar i => exact unch_ofRes s i _ _ rfl (unch_getByte _)
  | getU16 i => exact unch_ofRes s i _ _ rfl (unch_getU16 _)
  | getU32 i => exact unch_ofRes s i _ _ rfl (unch_getU32 _)
  | getU64 i => exact unch_ofRes s i _ _ rfl (unch_getU64 (G i))
  | getBytes i len => exact unch_ofRes s i _ _ rfl (unch_getBytes _ _)
  | getChars i len => exact unch_ofRes s i _ _ rfl (unch_getBytes _ _)
  | getString i => exact unch_ofRes s i _ _ rfl (unch_getString _)
  | makeRoom i len ora =>
    unfold StepUnchanged
    intro hok j
    have hok' : (makeRoom (s i) len ora).1 = false := hok
    show (s.set i (makeRoom (s i) len ora).2) j = s j
    rw [unch_makeRoom (G i) len ora hok']
    simp only [State.set]; split
    · rename_i e; rw [e]
    · rfl
  | writeByte i v ora => exact unch_ofRes s i _ _ rfl (unch_writeByte _ _ _)
  | write i src len ora => exact unch_ofRes s i _ _ rfl (unch_write _ _ _ _)
  | fill i byte len ora => exact unch_ofRes s i _ _ rfl (unch_fill _ _ _ _)
  | writeRaw d c ora =>
    by_cases hdc : d = c
    · exact unch_same s _ (by simp [step, hdc, rejected])
    · exact unch_ofRes2 s d c (writeRaw (s d) (s c) ora) _ (by simp [step, hdc]) (unch_writeRaw _ _ _)
  | writeMbuf d c len ora =>
    by_cases hdc : d = c
    · exact unch_same s _ (by simp [step, hdc, rejected])
    · exact unch_ofRes2 s d c (writeMbuf (s d) (s c) len ora) _ (by simp [step, hdc]) (unch_writeMbuf _ _ _ _)
  | cut i ofs len => exact unch_ofRes s i _ _ rfl (unch_cut _ _ _)
  | copy c d => exact unch_true s _ rfl
  | slice c len d =>
    by_cases hcd : c = d
    · subst hcd
      exact unch_ofRes s c (sliceSelf (s c) len) _ (by simp [step]) (unch_sliceSelf _ _)
    · exact unch_ofRes2 s d c (sliceOp (s c) len (s d)) _ (by simp [step, hcd]) (unch_sliceOp _ _ _)

end UsualProofs.C12
