import UsualProofs.C12.Safe
/-! A function that returns `false` leaves the buffer(s) exactly as they were
(cursors, contents, flags — the whole record). -/
set_option linter.unusedSimpArgs false
set_option linter.unusedVariables false

namespace UsualProofs.C12
open Usual.C12

theorem unch_getByte (b : Buf) (h : (getByte b).ok = false) : (getByte b).buf = b := by
  unfold getByte at h ⊢
  by_cases c : availRead b < 1
  · rw [if_pos c]; rfl
  · rw [if_neg c] at h; cases h

theorem unch_getU16 (b : Buf) (h : (getU16 b).ok = false) : (getU16 b).buf = b := by
  unfold getU16 at h ⊢
  by_cases c : availRead b < 2
  · rw [if_pos c]; rfl
  · rw [if_neg c] at h; cases h

theorem unch_getU32 (b : Buf) (h : (getU32 b).ok = false) : (getU32 b).buf = b := by
  unfold getU32 at h ⊢
  by_cases c : availRead b < 4
  · rw [if_pos c]; rfl
  · rw [if_neg c] at h; cases h

theorem getU32_ok {b : Buf} (c : ¬ availRead b < 4) :
    (getU32 b).ok = true ∧ (getU32 b).buf = { b with readPos := b.readPos + 1 + 1 + 1 + 1 } := by
  unfold getU32
  rw [if_neg c]
  exact ⟨rfl, rfl⟩

/-- with 8 bytes available both halves of `mbuf_get_uint64be` succeed -/
theorem getU64_halves {b : Buf} (g : Good b) (c : ¬ availRead b < 8) :
    (getU32 b).ok = true ∧ (getU32 (getU32 b).buf).ok = true := by
  have ha := availRead_toNat g; have := cur_lt b; have := g.rw
  have c' := UInt32.le_iff_toNat_le.mp (UInt32.not_lt.mp c)
  have h8 : (8 : UInt32).toNat = 8 := rfl
  rw [h8] at c'
  have c4 : ¬ availRead b < 4 := by
    intro h; have := UInt32.lt_iff_toNat_lt.mp h
    have h4 : (4 : UInt32).toNat = 4 := rfl
    omega
  obtain ⟨o1, b1⟩ := getU32_ok c4
  refine ⟨o1, ?_⟩
  rw [b1]
  have c4' : ¬ availRead { b with readPos := b.readPos + 1 + 1 + 1 + 1 } < 4 := by
    intro h
    have := UInt32.lt_iff_toNat_lt.mp h
    have h4 : (4 : UInt32).toNat = 4 := rfl
    simp only [availRead, UInt32.toNat_sub, UInt32.toNat_add] at this
    simp at this
    omega
  exact (getU32_ok c4').1

theorem unch_getU64 {b : Buf} (g : Good b) (h : (getU64 b).ok = false) : (getU64 b).buf = b := by
  unfold getU64 at h ⊢
  by_cases c : availRead b < 8
  · rw [if_pos c]; rfl
  · rw [if_neg c] at h
    dsimp only at h
    obtain ⟨o1, o2⟩ := getU64_halves g c
    rw [if_neg (by rw [o1]; decide), if_neg (by rw [o2]; decide)] at h
    cases h

theorem unch_getBytes (b : Buf) (len : UInt32) (h : (getBytes b len).ok = false) :
    (getBytes b len).buf = b := by
  unfold getBytes at h ⊢
  by_cases c : len > availRead b
  · rw [if_pos c]; rfl
  · rw [if_neg c] at h; cases h

theorem unch_getString (b : Buf) (h : (getString b).ok = false) : (getString b).buf = b := by
  unfold getString at h ⊢
  split
  · rfl
  · rename_i k hk; rw [hk] at h; cases h

theorem unch_makeRoom {b : Buf} (g : Good b) (len : UInt32) (ora : UInt32 → Bool)
    (h : (makeRoom b len ora).1 = false) : (makeRoom b len ora).2 = b := by
  rcases makeRoom_cases g len ora with ⟨_, e⟩ | ⟨t, _⟩ | ⟨na, t, _⟩
  · exact e
  · rw [t] at h; cases h
  · rw [t] at h; cases h

theorem unch_writeByte (b : Buf) (v : UInt8) (ora : UInt32 → Bool)
    (h : (writeByte b v ora).ok = false) : (writeByte b v ora).buf = b := by
  unfold writeByte at h ⊢
  split
  · rfl
  · rename_i b1 he; rw [he] at h; cases h

theorem unch_write (b : Buf) (src : Nat → UInt8) (len : UInt32) (ora : UInt32 → Bool)
    (h : (write b src len ora).ok = false) : (write b src len ora).buf = b := by
  unfold write at h ⊢
  split
  · rfl
  · rename_i b1 he; rw [he] at h; cases h

theorem unch_fill (b : Buf) (byte : UInt8) (len : UInt32) (ora : UInt32 → Bool)
    (h : (fill b byte len ora).ok = false) : (fill b byte len ora).buf = b := by
  unfold fill at h ⊢
  split
  · rfl
  · rename_i b1 he; rw [he] at h; cases h

theorem unch_writeRaw (d s : Buf) (ora : UInt32 → Bool) (h : (writeRaw d s ora).ok = false) :
    (writeRaw d s ora).dst = d ∧ (writeRaw d s ora).src = s := by
  unfold writeRaw at h ⊢
  exact ⟨unch_write _ _ _ _ h, rfl⟩

theorem unch_writeMbuf (d s : Buf) (len : UInt32) (ora : UInt32 → Bool)
    (h : (writeMbuf d s len ora).ok = false) :
    (writeMbuf d s len ora).dst = d ∧ (writeMbuf d s len ora).src = s := by
  unfold writeMbuf at h ⊢
  dsimp only at h ⊢
  by_cases h1 : (getBytes s len).ok = false
  · rw [if_pos h1]; exact ⟨rfl, rfl⟩
  · rw [if_neg h1] at h ⊢
    obtain ⟨_, hb⟩ := getBytes_ok h1
    by_cases h2 : (write d (fun k => rdAt s.data (s.readPos.toNat + k)) len ora).ok = false
    · rw [if_pos h2]
      refine ⟨rfl, ?_⟩
      show { (getBytes s len).buf with readPos := (getBytes s len).buf.readPos - len } = s
      rw [hb]
      show { s with readPos := s.readPos + len - len } = s
      rw [UInt32.add_sub_cancel]
    · rw [if_neg h2] at h; cases h

theorem unch_cut (b : Buf) (ofs len : UInt32) (h : (cut b ofs len).ok = false) :
    (cut b ofs len).buf = b := by
  unfold cut at h ⊢
  cases hr : b.reader
  · rw [hr] at h
    simp only [Bool.false_eq_true, ↓reduceIte] at h
    split at h
    · cases h
    · split at h <;> cases h
  · simp [fail]

theorem unch_sliceOp (s d : Buf) (len : UInt32) (h : (sliceOp s len d).ok = false) :
    (sliceOp s len d).dst = d ∧ (sliceOp s len d).src = s := by
  unfold sliceOp at h ⊢
  by_cases c : len > availRead s
  · rw [if_pos c]; exact ⟨rfl, rfl⟩
  · rw [if_neg c] at h; cases h

theorem unch_sliceSelf (b : Buf) (len : UInt32) (h : (sliceSelf b len).ok = false) :
    (sliceSelf b len).buf = b := by
  unfold sliceSelf at h ⊢
  by_cases c : len > availRead b
  · rw [if_pos c]; rfl
  · rw [if_neg c] at h; cases h

end UsualProofs.C12
