import UsualProofs.C12.Unchanged
import UsualProofs.C12.Endian
/-! Refinement: seen through `abs` (written bytes + read cursor) every function is the
corresponding operation on a plain byte vector — bytes come back as written, in order;
the integer getters deliver the big-endian value. -/
set_option linter.unusedSimpArgs false
set_option linter.unusedVariables false

namespace UsualProofs.C12
open Usual.C12

theorem contents_length {b : Buf} (g : Good b) : (contents b).length = b.writePos.toNat := by
  have := g.wa; have := g.dl
  simp only [contents, List.length_take]; omega

theorem abs_readPos (b : Buf) (rp : UInt32) :
    abs { b with readPos := rp } = { bytes := contents b, rpos := rp.toNat, ro := b.reader } := rfl

theorem slice_contents {b : Buf} (lo n : Nat) (h : lo + n ≤ b.writePos.toNat) :
    slice b.data lo n = ((contents b).drop lo).take n := by
  simp only [slice, contents, List.drop_take, List.take_take]
  congr 1; omega

theorem slice_succ (d : List UInt8) (i n : Nat) (h : i < d.length) :
    slice d i (n + 1) = rdAt d i :: slice d (i + 1) n := by
  simp only [slice, rdAt]
  rw [List.drop_eq_getElem_cons h, List.take_succ_cons]
  congr 1
  simp [List.getD_eq_getElem?_getD, h]

theorem slice_zero (d : List UInt8) (i : Nat) : slice d i 0 = [] := by simp [slice]

/-! ### readers -/

theorem getBytes_ok_iff {b : Buf} (g : Good b) (len : UInt32) :
    (getBytes b len).ok = true ↔ len.toNat ≤ (abs b).unread.length := by
  have ha := availRead_toNat g; have hl := contents_length g
  unfold getBytes
  simp only [Vec.unread, abs, List.length_drop, hl]
  by_cases h : len > availRead b
  · rw [if_pos h]
    have := UInt32.lt_iff_toNat_lt.mp h
    simp only [fail, Bool.false_eq_true, false_iff]; omega
  · rw [if_neg h]
    have := UInt32.le_iff_toNat_le.mp (UInt32.not_lt.mp h)
    simp only [true_iff]; omega

theorem ref_getBytes {b : Buf} (g : Good b) (len : UInt32) (h : (getBytes b len).ok = true) :
    (getBytes b len).bytes = ((abs b).get len.toNat).2 ∧
    abs (getBytes b len).buf = ((abs b).get len.toNat).1 ∧
    (getBytes b len).bytes.length = len.toNat ∧ (getBytes b len).val = (abs b).rpos := by
  have ha := availRead_toNat g; have := cur_lt b; have := g.rw; have := len.toNat_lt
  have := g.wa; have := g.dl
  unfold getBytes at h ⊢
  by_cases c : len > availRead b
  · rw [if_pos c] at h; cases h
  · rw [if_neg c]
    have c' := UInt32.le_iff_toNat_le.mp (UInt32.not_lt.mp c)
    refine ⟨?_, ?_, ?_, rfl⟩
    · exact slice_contents _ _ (by omega)
    · rw [abs_readPos]
      simp only [Vec.get, abs, UInt32.toNat_add]
      congr 1; omega
    · exact length_slice _ _ _ (by omega)

/-- consuming `n` bytes one by one = consuming them at once -/
theorem ref_getByte {b : Buf} (g : Good b) (h : (getByte b).ok = true) :
    (getByte b).bytes = ((abs b).get 1).2 ∧ abs (getByte b).buf = ((abs b).get 1).1 ∧
    (getByte b).val = beNat (getByte b).bytes := by
  have ha := availRead_toNat g; have := cur_lt b; have := g.rw; have := g.wa; have := g.dl
  unfold getByte at h ⊢
  by_cases c : availRead b < 1
  · rw [if_pos c] at h; cases h
  · rw [if_neg c]
    have c' := UInt32.le_iff_toNat_le.mp (UInt32.not_lt.mp c)
    have h1 : (1 : UInt32).toNat = 1 := rfl
    rw [h1] at c'
    refine ⟨?_, ?_, by simp [beNat]⟩
    · show [rdAt b.data b.readPos.toNat] = _
      rw [show ((abs b).get 1).2 = ((contents b).drop b.readPos.toNat).take 1 from rfl,
        ← slice_contents _ _ (by omega), slice_succ _ _ _ (by omega), slice_zero]
    · rw [abs_readPos]
      simp only [Vec.get, abs, UInt32.toNat_add]
      congr 1; simp; omega

theorem ref_getU16 {b : Buf} (g : Good b) (h : (getU16 b).ok = true) :
    (getU16 b).bytes = ((abs b).get 2).2 ∧ abs (getU16 b).buf = ((abs b).get 2).1 ∧
    (getU16 b).val = beNat (getU16 b).bytes := by
  have ha := availRead_toNat g; have := cur_lt b; have := g.rw; have := g.wa; have := g.dl
  unfold getU16 at h ⊢
  by_cases c : availRead b < 2
  · rw [if_pos c] at h; cases h
  · rw [if_neg c]
    have c' := UInt32.le_iff_toNat_le.mp (UInt32.not_lt.mp c)
    have h2 : (2 : UInt32).toNat = 2 := rfl
    rw [h2] at c'
    have e1 : (b.readPos + 1).toNat = b.readPos.toNat + 1 := by
      rw [UInt32.toNat_add]; simp; omega
    refine ⟨?_, ?_, val16 _ _⟩
    · show [rdAt b.data b.readPos.toNat, rdAt b.data (b.readPos + 1).toNat] = _
      rw [show ((abs b).get 2).2 = ((contents b).drop b.readPos.toNat).take 2 from rfl,
        ← slice_contents _ _ (by omega), slice_succ _ _ _ (by omega), slice_succ _ _ _ (by omega),
        slice_zero, e1]
    · rw [abs_readPos]
      simp only [Vec.get, abs, UInt32.toNat_add]
      congr 1; simp; omega

theorem ref_getU32 {b : Buf} (g : Good b) (h : (getU32 b).ok = true) :
    (getU32 b).bytes = ((abs b).get 4).2 ∧ abs (getU32 b).buf = ((abs b).get 4).1 ∧
    (getU32 b).val = beNat (getU32 b).bytes := by
  have ha := availRead_toNat g; have := cur_lt b; have := g.rw; have := g.wa; have := g.dl
  unfold getU32 at h ⊢
  by_cases c : availRead b < 4
  · rw [if_pos c] at h; cases h
  · rw [if_neg c]
    have c' := UInt32.le_iff_toNat_le.mp (UInt32.not_lt.mp c)
    have h4 : (4 : UInt32).toNat = 4 := rfl
    rw [h4] at c'
    have e1 : (b.readPos + 1).toNat = b.readPos.toNat + 1 := by
      rw [UInt32.toNat_add]; simp; omega
    have e2 : (b.readPos + 1 + 1).toNat = b.readPos.toNat + 1 + 1 := by
      rw [UInt32.toNat_add, e1]; simp; omega
    have e3 : (b.readPos + 1 + 1 + 1).toNat = b.readPos.toNat + 1 + 1 + 1 := by
      rw [UInt32.toNat_add, e2]; simp; omega
    refine ⟨?_, ?_, val32 _ _ _ _⟩
    · show [rdAt b.data b.readPos.toNat, rdAt b.data (b.readPos + 1).toNat,
            rdAt b.data (b.readPos + 1 + 1).toNat, rdAt b.data (b.readPos + 1 + 1 + 1).toNat] = _
      rw [show ((abs b).get 4).2 = ((contents b).drop b.readPos.toNat).take 4 from rfl,
        ← slice_contents _ _ (by omega), slice_succ _ _ _ (by omega), slice_succ _ _ _ (by omega),
        slice_succ _ _ _ (by omega), slice_succ _ _ _ (by omega), slice_zero, e1, e2, e3]
    · rw [abs_readPos]
      simp only [Vec.get, abs]
      congr 1
      rw [UInt32.toNat_add, e3]; simp; omega

theorem Vec.get_get (v : Vec) (m n : Nat) :
    ((v.get m).1.get n).1 = (v.get (m + n)).1 ∧
    (v.get m).2 ++ ((v.get m).1.get n).2 = (v.get (m + n)).2 := by
  simp only [Vec.get, Vec.unread, Nat.add_assoc, true_and]
  rw [List.take_add, List.drop_drop]

theorem getU32_bytes4 (b : Buf) (h : (getU32 b).ok = true) :
    ∃ a c d e, (getU32 b).bytes = [a, c, d, e] := by
  unfold getU32 at h ⊢
  by_cases c : availRead b < 4
  · rw [if_pos c] at h; cases h
  · rw [if_neg c]; exact ⟨_, _, _, _, rfl⟩

theorem ref_getU64 {b : Buf} (g : Good b) (h : (getU64 b).ok = true) :
    (getU64 b).bytes = ((abs b).get 8).2 ∧ abs (getU64 b).buf = ((abs b).get 8).1 ∧
    (getU64 b).val = beNat (getU64 b).bytes := by
  unfold getU64 at h ⊢
  by_cases c : availRead b < 8
  · rw [if_pos c] at h; cases h
  · rw [if_neg c]
    dsimp only
    obtain ⟨o1, o2⟩ := getU64_halves g c
    rw [if_neg (by rw [o1]; decide), if_neg (by rw [o2]; decide)]
    obtain ⟨r1b, r1a, r1v⟩ := ref_getU32 g o1
    obtain ⟨r2b, r2a, r2v⟩ := ref_getU32 (good_getU32 g) o2
    have gg := Vec.get_get (abs b) 4 4
    refine ⟨?_, ?_, ?_⟩
    · show (getU32 b).bytes ++ (getU32 (getU32 b).buf).bytes = _
      rw [r1b, r2b, r1a]; exact gg.2
    · show abs (getU32 (getU32 b).buf).buf = _
      rw [r2a, r1a]; exact gg.1
    · show (((UInt64.ofNat (getU32 b).val) <<< 32) ||| (UInt64.ofNat (getU32 (getU32 b).buf).val)).toNat =
        beNat ((getU32 b).bytes ++ (getU32 (getU32 b).buf).bytes)
      obtain ⟨a1, a2, a3, a4, e1⟩ := getU32_bytes4 b o1
      obtain ⟨a5, a6, a7, a8, e2⟩ := getU32_bytes4 _ o2
      rw [r1v, r2v, e1, e2]
      rw [val64 _ _ (beNat4_lt ..) (beNat4_lt ..)]
      exact (beNat8 ..).symm

/-- `mbuf_get_string`: delivers the bytes up to the first NUL of the unread part and skips
the NUL -/
theorem ref_getString {b : Buf} (g : Good b) (h : (getString b).ok = true) :
    (getString b).bytes ++ [0] = ((abs b).get ((getString b).bytes.length + 1)).2 ∧
    abs (getString b).buf = ((abs b).get ((getString b).bytes.length + 1)).1 ∧
    (0 : UInt8) ∉ (getString b).bytes := by
  have ha := availRead_toNat g; have := cur_lt b; have := g.rw; have := g.wa; have := g.dl
  have hwin : strWin b = (abs b).unread := by
    unfold strWin
    rw [slice_contents _ _ (by omega), ha]
    simp only [Vec.unread, abs]
    apply List.take_of_length_le
    simp only [List.length_drop, contents_length g]; omega
  unfold getString at h ⊢
  split
  · rename_i hn; rw [hn] at h; cases h
  · rename_i k hk
    obtain ⟨hlt, hz, hnz⟩ := List.findIdx?_eq_some_iff_getElem.mp hk
    have hlen : (strWin b).length = b.writePos.toNat - b.readPos.toNat := by
      unfold strWin; rw [length_slice _ _ _ (by omega), ha]
    have hk' : ((strWin b).take k).length = k := by
      rw [List.length_take]; omega
    simp only [hk']
    refine ⟨?_, ?_, ?_⟩
    · simp only [Vec.get]
      rw [← hwin, List.take_succ_eq_append_getElem hlt]
      rw [show (strWin b)[k] = 0 from by simpa using hz]
    · rw [abs_readPos]
      simp only [Vec.get, abs, UInt32.toNat_add, UInt32.toNat_ofNat']
      congr 1; simp; omega
    · intro hm
      obtain ⟨j, hj, hje⟩ := List.getElem_of_mem hm
      rw [List.length_take] at hj
      have hjk : j < k := by omega
      have := hnz j hjk
      rw [List.getElem_take] at hje
      simp [hje] at this

/-! ### writers -/

theorem Vec.ext' {v w : Vec} (h1 : v.bytes = w.bytes) (h2 : v.rpos = w.rpos) (h3 : v.ro = w.ro) :
    v = w := by
  cases v; cases w; simp_all


theorem ref_makeRoom {b : Buf} (g : Good b) (len : UInt32) (ora : UInt32 → Bool) :
    abs (makeRoom b len ora).2 = abs b := by
  rcases makeRoom_cases g len ora with ⟨_, h⟩ | ⟨_, h, _⟩ | ⟨na, _, h, _⟩
  · rw [h]
  · rw [h]
  · rw [h]; simp only [abs, contents_grown g]; rfl

theorem ref_store {b b1 : Buf} {len : UInt32} (e : Ensured b b1 len) (xs : List UInt8)
    (hx : xs.length = len.toNat) :
    abs { b1 with data := splice b1.data b1.writePos.toNat xs, writePos := b1.writePos + len } =
      (abs b).append xs := by
  have g1 := e.good
  have := cur_lt b1; have hroom := e.room; have := g1.wa; have := g1.dl; have := len.toNat_lt
  have hwn : b1.writePos.toNat = b.writePos.toNat := by rw [e.wp]
  have hsum : (b1.writePos + len).toNat = b1.writePos.toNat + xs.length := by
    rw [UInt32.toNat_add, hx]; omega
  apply Vec.ext'
  · show List.take (b1.writePos + len).toNat (splice b1.data b1.writePos.toNat xs) = contents b ++ xs
    rw [hsum, take_splice _ _ _ (by omega), ← e.cont]
    rfl
  · show b1.readPos.toNat = b.readPos.toNat
    rw [e.rp]
  · exact e.rdr

theorem ref_writeByte {b : Buf} (g : Good b) (v : UInt8) (ora : UInt32 → Bool)
    (h : (writeByte b v ora).ok = true) : abs (writeByte b v ora).buf = (abs b).append [v] := by
  unfold writeByte at h ⊢
  split
  · rename_i he; rw [he] at h; cases h
  · rename_i b1 he
    exact ref_store (ensure_some g he) [v] rfl

theorem ref_write {b : Buf} (g : Good b) (src : Nat → UInt8) (len : UInt32) (ora : UInt32 → Bool)
    (h : (write b src len ora).ok = true) :
    abs (write b src len ora).buf = (abs b).append (srcBytes src len.toNat) := by
  unfold write at h ⊢
  split
  · rename_i he; rw [he] at h; cases h
  · rename_i b1 he
    exact ref_store (ensure_some g he) _ (length_srcBytes _ _)

theorem ref_fill {b : Buf} (g : Good b) (byte : UInt8) (len : UInt32) (ora : UInt32 → Bool)
    (h : (fill b byte len ora).ok = true) :
    abs (fill b byte len ora).buf = (abs b).append (List.replicate len.toNat byte) := by
  unfold fill at h ⊢
  split
  · rename_i he; rw [he] at h; cases h
  · rename_i b1 he
    exact ref_store (ensure_some g he) _ (List.length_replicate ..)

/-- a fixed writer accepts exactly what fits -/
theorem write_ok_iff_fixed {b : Buf} (g : Good b) (hf : b.fixed = true) (src : Nat → UInt8)
    (len : UInt32) (ora : UInt32 → Bool) :
    (write b src len ora).ok = true ↔
      len.toNat ≤ (if b.reader = true then 0 else b.allocLen.toNat - b.writePos.toNat) := by
  have hn := ensure_none_fixed g (len := len) (ora := ora) hf
  unfold write
  split
  · rename_i he
    have := hn.mp he
    simp only [fail, Bool.false_eq_true, false_iff]; omega
  · rename_i b1 he
    have : ¬ ensure b len ora = none := by rw [he]; simp
    have := mt hn.mpr this
    simp only [true_iff]; omega

theorem srcBytes_eq_slice (d : List UInt8) (lo n : Nat) (h : lo + n ≤ d.length) :
    srcBytes (fun k => rdAt d (lo + k)) n = slice d lo n := by
  apply List.ext_getElem
  · rw [length_srcBytes, length_slice _ _ _ h]
  · intro i h1 h2
    simp only [srcBytes, List.getElem_map, List.getElem_range, slice, rdAt, List.getElem_take,
      List.getElem_drop]
    rw [List.getD_eq_getElem?_getD, List.getElem?_eq_getElem (by rw [length_srcBytes] at h1; omega)]
    rfl

theorem ref_writeRaw {d s : Buf} (gd : Good d) (gs : Good s) (ora : UInt32 → Bool)
    (h : (writeRaw d s ora).ok = true) :
    abs (writeRaw d s ora).dst = (abs d).append (contents s) ∧ (writeRaw d s ora).src = s := by
  have := gs.wa; have := gs.dl
  unfold writeRaw at h ⊢
  refine ⟨?_, rfl⟩
  show abs (write d (fun k => rdAt s.data k) s.writePos ora).buf = _
  rw [ref_write gd _ _ _ h]
  congr 1
  have := srcBytes_eq_slice s.data 0 s.writePos.toNat (by omega)
  simp only [Nat.zero_add] at this
  rw [this]
  simp [slice, contents]

theorem ref_writeMbuf {d s : Buf} (gd : Good d) (gs : Good s) (len : UInt32) (ora : UInt32 → Bool)
    (h : (writeMbuf d s len ora).ok = true) :
    abs (writeMbuf d s len ora).dst = (abs d).append ((abs s).get len.toNat).2 ∧
    abs (writeMbuf d s len ora).src = ((abs s).get len.toNat).1 := by
  have ha := availRead_toNat gs; have := cur_lt s; have := gs.rw; have := gs.wa; have := gs.dl
  unfold writeMbuf at h ⊢
  dsimp only at h ⊢
  by_cases h1 : (getBytes s len).ok = false
  · rw [if_pos h1] at h; cases h
  · rw [if_neg h1] at h ⊢
    have h1' : (getBytes s len).ok = true := by simpa using h1
    obtain ⟨hlen, _⟩ := getBytes_ok h1
    have hlen' := UInt32.le_iff_toNat_le.mp (UInt32.not_lt.mp hlen)
    obtain ⟨rb, ra, _⟩ := ref_getBytes gs len h1'
    by_cases h2 : (write d (fun k => rdAt s.data (s.readPos.toNat + k)) len ora).ok = false
    · rw [if_pos h2] at h; cases h
    · rw [if_neg h2]
      have h2' : (write d (fun k => rdAt s.data (s.readPos.toNat + k)) len ora).ok = true := by
        simpa using h2
      refine ⟨?_, ra⟩
      show abs (write d (fun k => rdAt s.data (s.readPos.toNat + k)) len ora).buf = _
      rw [ref_write gd _ _ _ h2', srcBytes_eq_slice _ _ _ (by omega), ← rb]
      unfold getBytes
      rw [if_neg hlen]

/-! ### cut, rewind, slice, copy, eq -/

theorem Vec.cut_bytes (v : Vec) (o l : Nat) (h : o < v.bytes.length) :
    (v.cut o l).bytes = v.bytes.take o ++ v.bytes.drop (o + l) := by
  simp [Vec.cut, h]

theorem Vec.cut_rpos (v : Vec) (o l : Nat) (h : o < v.bytes.length) :
    (v.cut o l).rpos = if o + l ≤ v.rpos then v.rpos - l else if o < v.rpos then o else v.rpos := by
  simp [Vec.cut, h]

theorem Vec.cut_ro (v : Vec) (o l : Nat) : (v.cut o l).ro = v.ro := by
  unfold Vec.cut; split <;> rfl

theorem Vec.cut_ge (v : Vec) (o l : Nat) (h : ¬ o < v.bytes.length) : v.cut o l = v := by
  simp [Vec.cut, h]

/-- read cursor after the "move" branch of `mbuf_cut` -/
theorem cut_rp_move (rp ofs len : UInt32) (h : ofs.toNat + len.toNat < 4294967296) :
    (if rp ≥ ofs + len then rp - len else if rp > ofs then ofs else rp).toNat =
      if ofs.toNat + len.toNat ≤ rp.toNat then rp.toNat - len.toNat
      else if ofs.toNat < rp.toNat then ofs.toNat else rp.toNat := by
  have hend : (ofs + len).toNat = ofs.toNat + len.toNat := by rw [UInt32.toNat_add]; omega
  by_cases c1 : rp ≥ ofs + len
  · have c1' := UInt32.le_iff_toNat_le.mp c1
    rw [hend] at c1'
    rw [if_pos c1, if_pos c1']
    exact UInt32.toNat_sub_of_le _ _ (UInt32.le_iff_toNat_le.mpr (by omega))
  · have c1' := UInt32.lt_iff_toNat_lt.mp (UInt32.not_le.mp c1)
    rw [hend] at c1'
    rw [if_neg c1, if_neg (show ¬ ofs.toNat + len.toNat ≤ rp.toNat by omega)]
    by_cases c2 : rp > ofs
    · rw [if_pos c2, if_pos (show ofs.toNat < rp.toNat from UInt32.lt_iff_toNat_lt.mp c2)]
    · have c2' := UInt32.le_iff_toNat_le.mp (UInt32.not_lt.mp c2)
      rw [if_neg c2, if_neg (show ¬ ofs.toNat < rp.toNat by omega)]

/-- read cursor after the "truncate" branch of `mbuf_cut` -/
theorem cut_rp_trunc (rp ofs len : UInt32) (wp : Nat) (h1 : rp.toNat ≤ wp) (h2 : ofs.toNat < wp)
    (h3 : wp ≤ ofs.toNat + len.toNat) :
    (if rp > ofs then ofs else rp).toNat =
      if ofs.toNat + len.toNat ≤ rp.toNat then rp.toNat - len.toNat
      else if ofs.toNat < rp.toNat then ofs.toNat else rp.toNat := by
  by_cases c2 : rp > ofs
  · have c2' := UInt32.lt_iff_toNat_lt.mp c2
    rw [if_pos c2]
    by_cases c3 : ofs.toNat + len.toNat ≤ rp.toNat
    · rw [if_pos c3]; omega
    · rw [if_neg c3, if_pos c2']
  · have c2' := UInt32.le_iff_toNat_le.mp (UInt32.not_lt.mp c2)
    rw [if_neg c2, if_neg (show ¬ ofs.toNat + len.toNat ≤ rp.toNat by omega),
      if_neg (show ¬ ofs.toNat < rp.toNat by omega)]

theorem ref_cut {b : Buf} (g : Good b) (ofs len : UInt32) (h : (cut b ofs len).ok = true) :
    abs (cut b ofs len).buf = (abs b).cut ofs.toNat len.toNat := by
  have hc := cur_lt b; have := g.rw; have := g.wa; have := g.dl
  have := ofs.toNat_lt; have := len.toNat_lt
  have hcl : (abs b).bytes.length = b.writePos.toNat := contents_length g
  unfold cut at h ⊢
  cases hr : b.reader
  · simp only [Bool.false_eq_true, ↓reduceIte]
    by_cases h1 : ofs < b.writePos ∧ len < b.writePos - ofs
    · rw [if_pos h1]
      obtain ⟨h1a, h1b⟩ := h1
      have h1a' := UInt32.lt_iff_toNat_lt.mp h1a
      have h1b' := UInt32.lt_iff_toNat_lt.mp h1b
      rw [UInt32.toNat_sub_of_le _ _ (UInt32.le_iff_toNat_le.mpr (by omega))] at h1b'
      have hend : (ofs + len).toNat = ofs.toNat + len.toNat := by rw [UInt32.toNat_add]; omega
      have hwl : (b.writePos - len).toNat = b.writePos.toNat - len.toNat :=
        UInt32.toNat_sub_of_le _ _ (UInt32.le_iff_toNat_le.mpr (by omega))
      have hn : (b.writePos - (ofs + len)).toNat = b.writePos.toNat - (ofs.toNat + len.toNat) := by
        rw [UInt32.toNat_sub_of_le _ _ (UInt32.le_iff_toNat_le.mpr (by omega)), hend]
      apply Vec.ext'
      · rw [Vec.cut_bytes _ _ _ (by omega)]
        show List.take (b.writePos - len).toNat (splice b.data ofs.toNat
          (slice b.data (ofs + len).toNat (b.writePos - (ofs + len)).toNat)) =
          (contents b).take ofs.toNat ++ (contents b).drop (ofs.toNat + len.toNat)
        simp only [contents]
        rw [hwl, hn, hend]
        have hl : (slice b.data (ofs.toNat + len.toNat) (b.writePos.toNat - (ofs.toNat + len.toNat))).length
            = b.writePos.toNat - (ofs.toNat + len.toNat) := length_slice _ _ _ (by omega)
        have e : b.writePos.toNat - len.toNat = ofs.toNat +
            (slice b.data (ofs.toNat + len.toNat) (b.writePos.toNat - (ofs.toNat + len.toNat))).length := by
          rw [hl]; omega
        rw [e, take_splice _ _ _ (by omega)]
        congr 1
        · rw [List.take_take]; congr 1; omega
        · simp only [slice, List.drop_take]
      · rw [Vec.cut_rpos _ _ _ (by omega)]
        exact cut_rp_move b.readPos ofs len (by omega)
      · rw [Vec.cut_ro]; exact hr.symm
    · rw [if_neg h1]
      by_cases h2 : ofs < b.writePos
      · rw [if_pos h2]
        have h2' := UInt32.lt_iff_toNat_lt.mp h2
        have h3 : b.writePos.toNat ≤ ofs.toNat + len.toNat := by
          apply Classical.byContradiction
          intro hh
          apply h1
          refine ⟨h2, UInt32.lt_iff_toNat_lt.mpr ?_⟩
          rw [UInt32.toNat_sub_of_le _ _ (UInt32.le_iff_toNat_le.mpr (by omega))]; omega
        apply Vec.ext'
        · rw [Vec.cut_bytes _ _ _ (by omega)]
          show List.take ofs.toNat b.data =
            (contents b).take ofs.toNat ++ (contents b).drop (ofs.toNat + len.toNat)
          simp only [contents]
          rw [List.drop_of_length_le (by simp only [List.length_take]; omega), List.append_nil,
            List.take_take]
          congr 1; omega
        · rw [Vec.cut_rpos _ _ _ (by omega)]
          exact cut_rp_trunc b.readPos ofs len b.writePos.toNat (by omega) h2' h3
        · rw [Vec.cut_ro]; exact hr.symm
      · rw [if_neg h2]
        have h2' := UInt32.le_iff_toNat_le.mp (UInt32.not_lt.mp h2)
        rw [Vec.cut_ge _ _ _ (by omega)]
  · rw [hr] at h; simp [fail] at h

theorem ref_rewindReader (b : Buf) : abs (rewindReader b) = { abs b with rpos := 0 } := rfl

theorem ref_rewindWriter (b : Buf) (h : b.reader = false) :
    abs (rewindWriter b) = Vec.empty := by
  simp [rewindWriter, h, abs, contents, Vec.empty]

theorem ref_sliceOp {s d : Buf} (gs : Good s) (len : UInt32) (h : (sliceOp s len d).ok = true) :
    abs (sliceOp s len d).dst = Vec.view ((abs s).get len.toNat).2 ∧
    abs (sliceOp s len d).src = ((abs s).get len.toNat).1 ∧
    (sliceOp s len d).bytes = ((abs s).get len.toNat).2 := by
  have ha := availRead_toNat gs; have := cur_lt s; have := gs.rw; have := len.toNat_lt
  have := gs.wa; have := gs.dl
  unfold sliceOp at h ⊢
  by_cases c : len > availRead s
  · rw [if_pos c] at h; cases h
  · rw [if_neg c]
    have c' := UInt32.le_iff_toNat_le.mp (UInt32.not_lt.mp c)
    have hs := slice_contents (b := s) s.readPos.toNat len.toNat (by omega)
    refine ⟨?_, ?_, hs⟩
    · simp only [abs, contents, Vec.get, Vec.view]
      congr 1
      rw [List.take_of_length_le (by rw [length_slice _ _ _ (by omega)]; exact Nat.le_refl _)]
      exact hs
    · rw [abs_readPos]
      simp only [Vec.get, abs, UInt32.toNat_add]
      congr 1; omega

theorem ref_eq {a b : Buf} (ga : Good a) (gb : Good b) :
    (eq a b).ok = true ↔ contents a = contents b := by
  have ha := contents_length ga; have hb := contents_length gb
  unfold eq
  by_cases h : a.writePos ≠ b.writePos
  · rw [if_pos h]
    simp only [Bool.false_eq_true, false_iff]
    intro hc
    apply h
    apply UInt32.toNat_inj.mp
    rw [← ha, ← hb, hc]
  · rw [if_neg h]
    have h' : a.writePos = b.writePos := Classical.not_not.mp h
    simp only [decide_eq_true_eq, slice, List.drop_zero, contents]
    rw [h']


/-! ### return values that the vector view determines -/

theorem unread_length {b : Buf} (g : Good b) :
    (abs b).unread.length = b.writePos.toNat - b.readPos.toNat := by
  simp only [Vec.unread, abs, List.length_drop, contents_length g]

theorem getByte_ok_iff {b : Buf} (g : Good b) : (getByte b).ok = true ↔ 1 ≤ (abs b).unread.length := by
  have ha := availRead_toNat g
  rw [unread_length g]
  unfold getByte
  have h1 : (1 : UInt32).toNat = 1 := rfl
  by_cases h : availRead b < 1
  · rw [if_pos h]; have := UInt32.lt_iff_toNat_lt.mp h
    simp only [fail, Bool.false_eq_true, false_iff]; omega
  · rw [if_neg h]; have := UInt32.le_iff_toNat_le.mp (UInt32.not_lt.mp h)
    simp only [true_iff]; omega

theorem getU16_ok_iff {b : Buf} (g : Good b) : (getU16 b).ok = true ↔ 2 ≤ (abs b).unread.length := by
  have ha := availRead_toNat g
  rw [unread_length g]
  unfold getU16
  have h1 : (2 : UInt32).toNat = 2 := rfl
  by_cases h : availRead b < 2
  · rw [if_pos h]; have := UInt32.lt_iff_toNat_lt.mp h
    simp only [fail, Bool.false_eq_true, false_iff]; omega
  · rw [if_neg h]; have := UInt32.le_iff_toNat_le.mp (UInt32.not_lt.mp h)
    simp only [true_iff]; omega

theorem getU32_ok_iff {b : Buf} (g : Good b) : (getU32 b).ok = true ↔ 4 ≤ (abs b).unread.length := by
  have ha := availRead_toNat g
  rw [unread_length g]
  unfold getU32
  have h1 : (4 : UInt32).toNat = 4 := rfl
  by_cases h : availRead b < 4
  · rw [if_pos h]; have := UInt32.lt_iff_toNat_lt.mp h
    simp only [fail, Bool.false_eq_true, false_iff]; omega
  · rw [if_neg h]; have := UInt32.le_iff_toNat_le.mp (UInt32.not_lt.mp h)
    simp only [true_iff]; omega

theorem getU64_ok_iff {b : Buf} (g : Good b) : (getU64 b).ok = true ↔ 8 ≤ (abs b).unread.length := by
  have ha := availRead_toNat g
  rw [unread_length g]
  have h1 : (8 : UInt32).toNat = 8 := rfl
  by_cases h : availRead b < 8
  · have := UInt32.lt_iff_toNat_lt.mp h
    unfold getU64; rw [if_pos h]
    simp only [fail, Bool.false_eq_true, false_iff]; omega
  · have := UInt32.le_iff_toNat_le.mp (UInt32.not_lt.mp h)
    have hok : (getU64 b).ok = true := by
      cases hh : (getU64 b).ok
      · have := unch_getU64 g hh
        exfalso
        unfold getU64 at hh
        rw [if_neg h] at hh
        dsimp only at hh
        obtain ⟨o1, o2⟩ := getU64_halves g h
        rw [if_neg (by rw [o1]; decide), if_neg (by rw [o2]; decide)] at hh
        cases hh
      · rfl
    rw [hok]; simp only [true_iff]; omega

theorem slice_ok_iff {s d : Buf} (g : Good s) (len : UInt32) :
    (sliceOp s len d).ok = true ↔ len.toNat ≤ (abs s).unread.length := by
  have ha := availRead_toNat g
  rw [unread_length g]
  unfold sliceOp
  by_cases h : len > availRead s
  · rw [if_pos h]; have := UInt32.lt_iff_toNat_lt.mp h
    simp only [Bool.false_eq_true, false_iff]; omega
  · rw [if_neg h]; have := UInt32.le_iff_toNat_le.mp (UInt32.not_lt.mp h)
    simp only [true_iff]; omega

theorem sliceSelf_ok_iff {b : Buf} (g : Good b) (len : UInt32) :
    (sliceSelf b len).ok = true ↔ len.toNat ≤ (abs b).unread.length := by
  have ha := availRead_toNat g
  rw [unread_length g]
  unfold sliceSelf
  by_cases h : len > availRead b
  · rw [if_pos h]; have := UInt32.lt_iff_toNat_lt.mp h
    simp only [fail, Bool.false_eq_true, false_iff]; omega
  · rw [if_neg h]; have := UInt32.le_iff_toNat_le.mp (UInt32.not_lt.mp h)
    simp only [true_iff]; omega

theorem cut_ok_iff (b : Buf) (ofs len : UInt32) : (cut b ofs len).ok = true ↔ (abs b).ro = false := by
  show _ ↔ b.reader = false
  unfold cut
  cases hr : b.reader
  · simp only [Bool.false_eq_true, ↓reduceIte, iff_true]
    split
    · rfl
    · split <;> rfl
  · simp [fail]

theorem strWin_unread {b : Buf} (g : Good b) : strWin b = (abs b).unread := by
  have ha := availRead_toNat g; have := g.rw; have := g.wa; have := g.dl
  unfold strWin
  rw [slice_contents _ _ (by omega), ha]
  simp only [Vec.unread, abs]
  apply List.take_of_length_le
  simp only [List.length_drop, contents_length g]; omega

/-- `mbuf_get_string` succeeds iff the unread part contains a NUL; the string is what
precedes the first one -/
theorem getString_find {b : Buf} (g : Good b) :
    (abs b).unread.findIdx? (· == 0) =
      if (getString b).ok = true then some (getString b).bytes.length else none := by
  have ha := availRead_toNat g; have := g.rw; have := g.wa; have := g.dl
  rw [← strWin_unread g]
  unfold getString
  split
  · rename_i hn; rw [hn]; simp
  · rename_i k hk
    have hlt := findIdx?_lt _ _ _ hk
    rw [hk]
    simp only [↓reduceIte, List.length_take, Option.some.injEq]
    omega

theorem ref_sliceSelf {b : Buf} (g : Good b) (len : UInt32) (h : (sliceSelf b len).ok = true) :
    abs (sliceSelf b len).buf =
      { bytes := ((abs b).get len.toNat).2, rpos := len.toNat, ro := true } ∧
    (sliceSelf b len).bytes = ((abs b).get len.toNat).2 ∧ (sliceSelf b len).val = (abs b).rpos := by
  have ha := availRead_toNat g; have := cur_lt b; have := g.rw; have := len.toNat_lt
  have := g.wa; have := g.dl
  unfold sliceSelf at h ⊢
  by_cases c : len > availRead b
  · rw [if_pos c] at h; cases h
  · rw [if_neg c]
    have c' := UInt32.le_iff_toNat_le.mp (UInt32.not_lt.mp c)
    have hs := slice_contents (b := b) b.readPos.toNat len.toNat (by omega)
    refine ⟨?_, hs, rfl⟩
    apply Vec.ext'
    · show List.take len.toNat (slice b.data b.readPos.toNat len.toNat) = _
      rw [List.take_of_length_le (by rw [length_slice _ _ _ (by omega)]; exact Nat.le_refl _)]
      exact hs
    · show (0 + len).toNat = len.toNat
      rw [UInt32.zero_add]
    · rfl

theorem ref_eqStr {a : Buf} (ga : Good a) (s : List UInt8) (hs : s.length < 4294967296) :
    (eqStr a s).ok = true ↔ contents a = s := by
  unfold eqStr
  dsimp only
  rw [ref_eq ga (good_initFixedReader _ _)]
  have : contents (initFixedReader (UInt32.ofNat s.length) fun k => s.getD k 0) = s := by
    simp only [contents, initFixedReader, UInt32.toNat_ofNat']
    rw [Nat.mod_eq_of_lt hs]
    have e : srcBytes (fun k => s.getD k 0) s.length = s := by
      apply List.ext_getElem
      · exact length_srcBytes _ _
      · intro i h1 h2
        simp only [srcBytes, List.getElem_map, List.getElem_range]
        rw [List.getD_eq_getElem?_getD, List.getElem?_eq_getElem h2]; rfl
    rw [e, List.take_length]
  rw [this]

end UsualProofs.C12
