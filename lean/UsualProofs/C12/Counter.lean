import Usual.C12.MBuf
/-! The doubling loop of the unchanged `mbuf_make_room` never ends once `new_alloc` has
wrapped to 0. -/
namespace UsualProofs.C12
open Usual.C12

theorem pow2_mod_le (j : Nat) : 2 ^ j % 4294967296 ≤ 2147483648 := by
  by_cases h : j < 32
  · have h1 : 2 ^ j ≤ 2 ^ 31 := Nat.pow_le_pow_right (by decide) (by omega)
    have h2 : (2 : Nat) ^ 31 = 2147483648 := by decide
    have : 2 ^ j % 4294967296 ≤ 2 ^ j := Nat.mod_le _ _
    omega
  · have hd : (2 : Nat) ^ 32 ∣ 2 ^ j := Nat.pow_dvd_pow 2 (by omega)
    have h3 : (2 : Nat) ^ 32 = 4294967296 := by decide
    rw [h3] at hd
    rw [Nat.mod_eq_zero_of_dvd hd]
    omega

theorem ofNat_mul_two (a : Nat) : UInt32.ofNat a * 2 = UInt32.ofNat (a * 2) := by
  apply UInt32.toNat_inj.mp
  rw [UInt32.toNat_mul, UInt32.toNat_ofNat', UInt32.toNat_ofNat']
  have : (2 : UInt32).toNat = 2 := rfl
  rw [this]
  omega

/-- started from any power of two, the unchanged loop `while (new_alloc < need) new_alloc *= 2`
with `need = 2^31 + 1` is still running after any number of iterations -/
theorem growOld_never (k : Nat) : ∀ j : Nat, growOldIter 0x80000001 k (UInt32.ofNat (2 ^ j)) = none := by
  induction k with
  | zero => intro j; rfl
  | succ k ih =>
    intro j
    unfold growOldIter
    have hlt : UInt32.ofNat (2 ^ j) < 0x80000001 := by
      rw [UInt32.lt_iff_toNat_lt, UInt32.toNat_ofNat']
      have := pow2_mod_le j
      have h2 : (0x80000001 : UInt32).toNat = 2147483649 := rfl
      rw [h2]; omega
    rw [if_pos hlt, ofNat_mul_two, ← Nat.pow_succ]
    exact ih (j + 1)

end UsualProofs.C12
