import Usual.C12.MBuf
/-! The shift-and-or expressions of the integer getters compute the big-endian value. -/
namespace UsualProofs.C12
open Usual.C12

theorem or_shift8 (x d : Nat) (hd : d < 256) : (x <<< 8) ||| d = x * 256 + d := by
  rw [← Nat.shiftLeft_add_eq_or_of_lt (i := 8) (by omega) x, Nat.shiftLeft_eq]

theorem be16_nat (a b : Nat) (hb : b < 256) : (a <<< 8) ||| b = a * 256 + b := or_shift8 a b hb

theorem be32_nat (a b c d : Nat) (hb : b < 256) (hc : c < 256) (hd : d < 256) :
    (a <<< 24) ||| (b <<< 16) ||| (c <<< 8) ||| d = ((a * 256 + b) * 256 + c) * 256 + d := by
  have e1 : a <<< 24 = ((a <<< 8) <<< 8) <<< 8 := by simp [← Nat.shiftLeft_add]
  have e2 : b <<< 16 = (b <<< 8) <<< 8 := by simp [← Nat.shiftLeft_add]
  rw [e1, e2]
  simp only [← Nat.shiftLeft_or_distrib]
  rw [or_shift8 a b hb, or_shift8 _ c hc, or_shift8 _ d hd]

theorem beNat2 (a b : UInt8) : beNat [a, b] = a.toNat * 256 + b.toNat := by
  simp [beNat]

theorem beNat4 (a b c d : UInt8) :
    beNat [a, b, c, d] = ((a.toNat * 256 + b.toNat) * 256 + c.toNat) * 256 + d.toNat := by
  simp [beNat]

theorem beNat4_lt (a b c d : UInt8) : beNat [a, b, c, d] < 4294967296 := by
  have := a.toNat_lt; have := b.toNat_lt; have := c.toNat_lt; have := d.toNat_lt
  rw [beNat4]; omega

theorem beNat8 (a b c d e f g h : UInt8) :
    beNat [a, b, c, d, e, f, g, h] = beNat [a, b, c, d] * 4294967296 + beNat [e, f, g, h] := by
  simp only [beNat, List.foldl_cons, List.foldl_nil]; omega

/-- `(a << 8) | b` truncated to `uint16_t` -/
theorem val16 (a b : UInt8) :
    (((a.toUInt32 <<< 8) ||| b.toUInt32).toUInt16).toNat = beNat [a, b] := by
  have ha := a.toNat_lt; have hb := b.toNat_lt
  rw [beNat2]
  simp only [UInt32.toNat_toUInt16, UInt32.toNat_or, UInt32.toNat_shiftLeft, UInt8.toNat_toUInt32]
  have : (8 : UInt32).toNat % 32 = 8 := rfl
  rw [this]
  have h1 : a.toNat <<< 8 % 2 ^ 32 = a.toNat <<< 8 := by
    rw [Nat.shiftLeft_eq]; apply Nat.mod_eq_of_lt; omega
  rw [h1, be16_nat _ _ (by omega)]
  omega

/-- `(a << 24) | (b << 16) | (c << 8) | d` in 32 bits -/
theorem val32 (a b c d : UInt8) :
    ((a.toUInt32 <<< 24) ||| (b.toUInt32 <<< 16) ||| (c.toUInt32 <<< 8) ||| d.toUInt32).toNat =
      beNat [a, b, c, d] := by
  have ha := a.toNat_lt; have hb := b.toNat_lt; have hc := c.toNat_lt; have hd := d.toNat_lt
  rw [beNat4]
  simp only [UInt32.toNat_or, UInt32.toNat_shiftLeft, UInt8.toNat_toUInt32]
  have s24 : (24 : UInt32).toNat % 32 = 24 := rfl
  have s16 : (16 : UInt32).toNat % 32 = 16 := rfl
  have s8 : (8 : UInt32).toNat % 32 = 8 := rfl
  rw [s24, s16, s8]
  have h1 : a.toNat <<< 24 % 2 ^ 32 = a.toNat <<< 24 := by
    rw [Nat.shiftLeft_eq]; apply Nat.mod_eq_of_lt; omega
  have h2 : b.toNat <<< 16 % 2 ^ 32 = b.toNat <<< 16 := by
    rw [Nat.shiftLeft_eq]; apply Nat.mod_eq_of_lt; omega
  have h3 : c.toNat <<< 8 % 2 ^ 32 = c.toNat <<< 8 := by
    rw [Nat.shiftLeft_eq]; apply Nat.mod_eq_of_lt; omega
  rw [h1, h2, h3]
  exact be32_nat _ _ _ _ (by omega) (by omega) (by omega)

/-- `((uint64_t)a << 32) | b` -/
theorem val64 (v1 v2 : Nat) (h1 : v1 < 4294967296) (h2 : v2 < 4294967296) :
    (((UInt64.ofNat v1) <<< 32) ||| (UInt64.ofNat v2)).toNat = v1 * 4294967296 + v2 := by
  simp only [UInt64.toNat_or, UInt64.toNat_shiftLeft, UInt64.toNat_ofNat']
  have s32 : (32 : UInt64).toNat % 64 = 32 := rfl
  rw [s32]
  have e1 : v1 % 2 ^ 64 = v1 := Nat.mod_eq_of_lt (by omega)
  have e2 : v2 % 2 ^ 64 = v2 := Nat.mod_eq_of_lt (by omega)
  rw [e1, e2]
  have e3 : v1 <<< 32 % 2 ^ 64 = v1 <<< 32 := by
    rw [Nat.shiftLeft_eq]; apply Nat.mod_eq_of_lt; omega
  rw [e3, ← Nat.shiftLeft_add_eq_or_of_lt (i := 32) (by omega) v1, Nat.shiftLeft_eq]

end UsualProofs.C12
