import UsualProofs.C12.Inv
/-! Every memory access of every function lies inside the buffer: reads in `[0, write_pos)`,
writes in `[0, alloc_len)` and never on a reader; fixed buffers keep their allocation, readers
their contents. -/
set_option linter.unusedSimpArgs false
set_option linter.unusedVariables false

namespace UsualProofs.C12
open Usual.C12

theorem accOk_rd (pre post : Buf) (lo n : Nat) :
    accOk pre post ⟨.rd, lo, n⟩ = true ↔ lo + n ≤ pre.writePos.toNat := by
  simp [accOk]

theorem accOk_wr (pre post : Buf) (lo n : Nat) :
    accOk pre post ⟨.wr, lo, n⟩ = true ↔
      lo + n ≤ post.allocLen.toNat ∧ (n = 0 ∨ pre.reader = false) := by
  simp [accOk]

theorem accAllOk_nil (pre post : Buf) : accAllOk pre post [] = true := rfl

theorem accAllOk_cons (pre post : Buf) (a : Access) (l : List Access) :
    accAllOk pre post (a :: l) = true ↔ accOk pre post a = true ∧ accAllOk pre post l = true := by
  simp [accAllOk]

theorem accAllOk_append (pre post : Buf) (l1 l2 : List Access) :
    accAllOk pre post (l1 ++ l2) = true ↔ accAllOk pre post l1 = true ∧ accAllOk pre post l2 = true := by
  simp [accAllOk]

/-- reads only depend on the write cursor of `pre`; so they stay valid for any `post` -/
theorem accAllOk_rd_post (pre post post' : Buf) (l : List Access) (h : ∀ a ∈ l, a.kind = .rd)
    (hs : accAllOk pre post l = true) : accAllOk pre post' l = true := by
  simp only [accAllOk, List.all_eq_true] at hs ⊢
  intro a ha
  have := hs a ha
  have hk := h a ha
  cases a with
  | mk kind lo len => subst hk; simpa [accOk] using this

theorem splice_nil (d : List UInt8) (lo : Nat) : splice d lo [] = d := by
  simp [splice]

theorem keepsFixed_refl (b : Buf) : keepsFixed b b = true := by
  simp [keepsFixed]

/-- only the read cursor changed -/
theorem keepsFixed_advance (b : Buf) (rp : UInt32) : keepsFixed b { b with readPos := rp } = true := by
  simp [keepsFixed]

/-! ### readers -/

theorem safe_getByte {b : Buf} (g : Good b) :
    accAllOk b (getByte b).buf (getByte b).acc = true ∧ keepsFixed b (getByte b).buf = true := by
  have ha := availRead_toNat g; have := cur_lt b; have := g.rw
  unfold getByte
  by_cases h : availRead b < 1
  · rw [if_pos h]; exact ⟨rfl, keepsFixed_refl b⟩
  · rw [if_neg h]
    have h' := UInt32.le_iff_toNat_le.mp (UInt32.not_lt.mp h)
    refine ⟨?_, keepsFixed_advance b _⟩
    simp only [accAllOk_cons, accOk_rd, accAllOk_nil, and_true]
    simp at h'; omega

theorem safe_getU16 {b : Buf} (g : Good b) :
    accAllOk b (getU16 b).buf (getU16 b).acc = true ∧ keepsFixed b (getU16 b).buf = true := by
  have ha := availRead_toNat g; have := cur_lt b; have := g.rw
  unfold getU16
  by_cases h : availRead b < 2
  · rw [if_pos h]; exact ⟨rfl, keepsFixed_refl b⟩
  · rw [if_neg h]
    have h' := UInt32.le_iff_toNat_le.mp (UInt32.not_lt.mp h)
    refine ⟨?_, keepsFixed_advance b _⟩
    simp only [accAllOk_cons, accOk_rd, accAllOk_nil, and_true, UInt32.toNat_add]
    simp at h' ⊢; omega

theorem safe_getU32 {b : Buf} (g : Good b) :
    accAllOk b (getU32 b).buf (getU32 b).acc = true ∧ keepsFixed b (getU32 b).buf = true := by
  have ha := availRead_toNat g; have := cur_lt b; have := g.rw
  unfold getU32
  by_cases h : availRead b < 4
  · rw [if_pos h]; exact ⟨rfl, keepsFixed_refl b⟩
  · rw [if_neg h]
    have h' := UInt32.le_iff_toNat_le.mp (UInt32.not_lt.mp h)
    refine ⟨?_, keepsFixed_advance b _⟩
    simp only [accAllOk_cons, accOk_rd, accAllOk_nil, and_true, UInt32.toNat_add]
    simp at h' ⊢; omega

/-- what a getter leaves behind: the same buffer with another read cursor -/
theorem getU32_buf (b : Buf) : ∃ rp, (getU32 b).buf = { b with readPos := rp } := by
  unfold getU32
  by_cases h : availRead b < 4
  · rw [if_pos h]; exact ⟨b.readPos, rfl⟩
  · rw [if_neg h]; exact ⟨_, rfl⟩

theorem getU32_acc_rd (b : Buf) : ∀ a ∈ (getU32 b).acc, a.kind = .rd := by
  intro a ha; revert ha; unfold getU32
  by_cases hh : availRead b < 4
  · rw [if_pos hh]; simp [fail]
  · rw [if_neg hh]; simp only [List.mem_cons, List.not_mem_nil, or_false]
    rintro (rfl | rfl | rfl | rfl) <;> rfl

theorem safe_getU64 {b : Buf} (g : Good b) :
    accAllOk b (getU64 b).buf (getU64 b).acc = true ∧ keepsFixed b (getU64 b).buf = true := by
  obtain ⟨rp1, e1⟩ := getU32_buf b
  obtain ⟨rp2, e2⟩ := getU32_buf (getU32 b).buf
  have s1 := safe_getU32 g
  have s2 := safe_getU32 (good_getU32 g)
  -- accesses of the second half are judged against the same write cursor
  have hw : (getU32 b).buf.writePos = b.writePos := by rw [e1]
  have s2' : accAllOk b (getU32 (getU32 b).buf).buf (getU32 (getU32 b).buf).acc = true := by
    have := s2.1
    simp only [accAllOk, List.all_eq_true] at this ⊢
    intro a ha
    have h := this a ha
    cases a with
    | mk kind lo len =>
      cases kind
      · simpa [accOk, hw] using h
      · -- getU32 performs no writes
        have := getU32_acc_rd _ _ ha; cases this
  have k2 : ∀ rp, keepsFixed b { b with readPos := rp } = true := keepsFixed_advance b
  have hb2 : (getU32 (getU32 b).buf).buf = { b with readPos := rp2 } := by rw [e2, e1]
  unfold getU64
  by_cases h : availRead b < 8
  · rw [if_pos h]; exact ⟨rfl, keepsFixed_refl b⟩
  · rw [if_neg h]
    dsimp only
    by_cases h1 : (getU32 b).ok = false
    · rw [if_pos h1]; exact ⟨rfl, s1.2⟩
    · rw [if_neg h1]
      by_cases h2 : (getU32 (getU32 b).buf).ok = false
      · rw [if_pos h2]
        refine ⟨?_, by show keepsFixed b (getU32 (getU32 b).buf).buf = true; rw [hb2]; exact k2 _⟩
        exact accAllOk_rd_post b (getU32 b).buf _ _ (getU32_acc_rd b) s1.1
      · rw [if_neg h2]
        refine ⟨?_, by show keepsFixed b (getU32 (getU32 b).buf).buf = true; rw [hb2]; exact k2 _⟩
        show accAllOk b _ ((getU32 b).acc ++ (getU32 (getU32 b).buf).acc) = true
        rw [accAllOk_append]
        refine ⟨?_, s2'⟩
        exact accAllOk_rd_post b (getU32 b).buf _ _ (getU32_acc_rd b) s1.1

theorem safe_getBytes {b : Buf} (g : Good b) (len : UInt32) :
    accAllOk b (getBytes b len).buf (getBytes b len).acc = true ∧
    keepsFixed b (getBytes b len).buf = true := by
  have ha := availRead_toNat g; have := cur_lt b; have := g.rw; have := len.toNat_lt
  unfold getBytes
  by_cases h : len > availRead b
  · rw [if_pos h]; exact ⟨rfl, keepsFixed_refl b⟩
  · rw [if_neg h]
    have h' := UInt32.le_iff_toNat_le.mp (UInt32.not_lt.mp h)
    refine ⟨?_, keepsFixed_advance b _⟩
    simp only [accAllOk_cons, accOk_rd, accAllOk_nil, and_true]
    omega

theorem safe_getString {b : Buf} (g : Good b) :
    accAllOk b (getString b).buf (getString b).acc = true ∧
    keepsFixed b (getString b).buf = true := by
  have ha := availRead_toNat g; have := cur_lt b; have := g.rw; have := g.wa; have := g.dl
  unfold getString
  split
  · refine ⟨?_, keepsFixed_refl b⟩
    simp only [accAllOk_cons, accOk_rd, accAllOk_nil, and_true]; omega
  · rename_i k hk
    have hlt := findIdx?_lt _ _ _ hk
    unfold strWin at hlt
    rw [length_slice _ _ _ (by omega)] at hlt
    refine ⟨?_, keepsFixed_advance b _⟩
    simp only [accAllOk_cons, accOk_rd, accAllOk_nil, and_true]; omega

/-! ### make_room and writers -/

theorem keeps_makeRoom {b : Buf} (g : Good b) (len : UInt32) (ora : UInt32 → Bool) :
    keepsFixed b (makeRoom b len ora).2 = true := by
  rcases makeRoom_cases g len ora with ⟨_, h⟩ | ⟨_, h, _⟩ | ⟨na, _, h, hr, hf, _⟩
  · rw [h]; exact keepsFixed_refl b
  · rw [h]; exact keepsFixed_refl b
  · rw [h]; simp [keepsFixed, hr, hf]

/-- storing `xs` (|xs| = len) at the write cursor after a successful `ensure` -/
theorem safe_store {b b1 : Buf} {len : UInt32} (g : Good b) (e : Ensured b b1 len) (xs : List UInt8)
    (hx : xs.length = len.toNat) :
    accOk b { b1 with data := splice b1.data b1.writePos.toNat xs, writePos := b1.writePos + len }
      ⟨.wr, b1.writePos.toNat, len.toNat⟩ = true ∧
    keepsFixed b { b1 with data := splice b1.data b1.writePos.toNat xs,
                           writePos := b1.writePos + len } = true := by
  have g1 := e.good
  have hroom := e.room
  have hwn : b1.writePos.toNat = b.writePos.toNat := by rw [e.wp]
  have := g1.dl
  constructor
  · rw [accOk_wr]
    refine ⟨by show b1.writePos.toNat + len.toNat ≤ b1.allocLen.toNat; omega, ?_⟩
    cases hr : b.reader
    · exact Or.inr rfl
    · exact Or.inl (e.nowr hr)
  · simp only [keepsFixed, Bool.and_eq_true, Bool.or_eq_true, Bool.not_eq_eq_eq_not, Bool.not_true,
      decide_eq_true_eq, beq_iff_eq]
    constructor
    · cases hf : b.fixed
      · exact Or.inl rfl
      · right
        have hs := e.same (Or.inr hf)
        subst hs
        refine ⟨⟨⟨hf, rfl⟩, ?_⟩, rfl⟩
        exact length_splice _ _ _ (by omega)
    · cases hr : b.reader
      · exact Or.inl rfl
      · right
        have hs := e.same (Or.inl hr)
        subst hs
        have h0 := e.nowr hr
        have hxs : xs = [] := List.eq_nil_of_length_eq_zero (by omega)
        have hl0 : len = 0 := UInt32.toNat_inj.mp (by rw [h0]; rfl)
        subst hxs
        refine ⟨⟨hr, splice_nil _ _⟩, ?_⟩
        rw [hl0]; exact UInt32.add_zero _

theorem safe_writeByte {b : Buf} (g : Good b) (v : UInt8) (ora : UInt32 → Bool) :
    accAllOk b (writeByte b v ora).buf (writeByte b v ora).acc = true ∧
    keepsFixed b (writeByte b v ora).buf = true := by
  unfold writeByte
  split
  · exact ⟨rfl, keepsFixed_refl b⟩
  · rename_i b1 he
    have s := safe_store g (ensure_some g he) [v] rfl
    exact ⟨by rw [accAllOk_cons]; exact ⟨s.1, rfl⟩, s.2⟩

theorem safe_write {b : Buf} (g : Good b) (src : Nat → UInt8) (len : UInt32) (ora : UInt32 → Bool) :
    accAllOk b (write b src len ora).buf (write b src len ora).acc = true ∧
    keepsFixed b (write b src len ora).buf = true := by
  unfold write
  split
  · exact ⟨rfl, keepsFixed_refl b⟩
  · rename_i b1 he
    have s := safe_store g (ensure_some g he) (srcBytes src len.toNat) (length_srcBytes _ _)
    refine ⟨?_, s.2⟩
    by_cases hl : len > 0
    · simp only [hl, ↓reduceIte]; rw [accAllOk_cons]; exact ⟨s.1, rfl⟩
    · simp only [hl, ↓reduceIte]; rfl

theorem safe_fill {b : Buf} (g : Good b) (byte : UInt8) (len : UInt32) (ora : UInt32 → Bool) :
    accAllOk b (fill b byte len ora).buf (fill b byte len ora).acc = true ∧
    keepsFixed b (fill b byte len ora).buf = true := by
  unfold fill
  split
  · exact ⟨rfl, keepsFixed_refl b⟩
  · rename_i b1 he
    have s := safe_store g (ensure_some g he) (List.replicate len.toNat byte) (List.length_replicate ..)
    exact ⟨by rw [accAllOk_cons]; exact ⟨s.1, rfl⟩, s.2⟩

theorem safe_writeRaw {d s : Buf} (gd : Good d) (gs : Good s) (ora : UInt32 → Bool) :
    accAllOk d (writeRaw d s ora).dst (writeRaw d s ora).accDst = true ∧
    accAllOk s (writeRaw d s ora).src (writeRaw d s ora).accSrc = true ∧
    keepsFixed d (writeRaw d s ora).dst = true ∧ keepsFixed s (writeRaw d s ora).src = true := by
  have w := safe_write gd (fun k => rdAt s.data k) s.writePos ora
  unfold writeRaw
  refine ⟨w.1, ?_, w.2, keepsFixed_refl s⟩
  simp only
  split
  · rw [accAllOk_cons, accOk_rd]; exact ⟨by omega, rfl⟩
  · rfl

theorem getBytes_ok {b : Buf} {len : UInt32} (h : ¬ (getBytes b len).ok = false) :
    ¬ len > availRead b ∧ (getBytes b len).buf = { b with readPos := b.readPos + len } := by
  unfold getBytes at h ⊢
  by_cases hh : len > availRead b
  · rw [if_pos hh] at h; simp [fail] at h
  · rw [if_neg hh]; exact ⟨hh, rfl⟩

theorem safe_writeMbuf {d s : Buf} (gd : Good d) (gs : Good s) (len : UInt32) (ora : UInt32 → Bool) :
    accAllOk d (writeMbuf d s len ora).dst (writeMbuf d s len ora).accDst = true ∧
    accAllOk s (writeMbuf d s len ora).src (writeMbuf d s len ora).accSrc = true ∧
    keepsFixed d (writeMbuf d s len ora).dst = true ∧
    keepsFixed s (writeMbuf d s len ora).src = true := by
  have ha := availRead_toNat gs; have := cur_lt s; have := gs.rw; have := len.toNat_lt
  unfold writeMbuf
  dsimp only
  by_cases h1 : (getBytes s len).ok = false
  · rw [if_pos h1]; exact ⟨rfl, rfl, keepsFixed_refl d, keepsFixed_refl s⟩
  · rw [if_neg h1]
    obtain ⟨hlen, hb⟩ := getBytes_ok h1
    have hlen' := UInt32.le_iff_toNat_le.mp (UInt32.not_lt.mp hlen)
    by_cases h2 : (write d (fun k => rdAt s.data (s.readPos.toNat + k)) len ora).ok = false
    · rw [if_pos h2]
      refine ⟨rfl, rfl, keepsFixed_refl d, ?_⟩
      show keepsFixed s { (getBytes s len).buf with readPos := (getBytes s len).buf.readPos - len } = true
      rw [hb]; exact keepsFixed_advance s _
    · rw [if_neg h2]
      have w := safe_write gd (fun k => rdAt s.data (s.readPos.toNat + k)) len ora
      refine ⟨w.1, ?_, w.2, by show keepsFixed s (getBytes s len).buf = true; rw [hb]; exact keepsFixed_advance s _⟩
      show accAllOk s _ (if len > 0 then [⟨.rd, s.readPos.toNat, len.toNat⟩] else []) = true
      by_cases hl : len > 0
      · rw [if_pos hl, accAllOk_cons, accOk_rd]; exact ⟨by omega, rfl⟩
      · rw [if_neg hl]; rfl

theorem safe_cut {b : Buf} (g : Good b) (ofs len : UInt32) :
    accAllOk b (cut b ofs len).buf (cut b ofs len).acc = true ∧
    keepsFixed b (cut b ofs len).buf = true := by
  have hc := cur_lt b; have := g.rw; have := g.wa; have := g.dl
  have := ofs.toNat_lt; have := len.toNat_lt
  unfold cut
  cases hr : b.reader
  · simp only [Bool.false_eq_true, ↓reduceIte]
    by_cases h1 : ofs < b.writePos ∧ len < b.writePos - ofs
    · rw [if_pos h1]
      obtain ⟨h1a, h1b⟩ := h1
      have h1a' := UInt32.lt_iff_toNat_lt.mp h1a
      have h1b' := UInt32.lt_iff_toNat_lt.mp h1b
      rw [UInt32.toNat_sub_of_le _ _ (UInt32.le_iff_toNat_le.mpr (by omega))] at h1b'
      have hend : (ofs + len).toNat = ofs.toNat + len.toNat := by rw [UInt32.toNat_add]; omega
      have hn : (b.writePos - (ofs + len)).toNat = b.writePos.toNat - (ofs.toNat + len.toNat) := by
        rw [UInt32.toNat_sub_of_le _ _ (UInt32.le_iff_toNat_le.mpr (by omega)), hend]
      constructor
      · simp only [accAllOk_cons, accOk_rd, accOk_wr, accAllOk_nil, and_true, hn, hend, hr]
        refine ⟨by omega, by omega, Or.inr trivial⟩
      · simp only [keepsFixed, hr, Bool.not_false, Bool.true_or, Bool.and_true, Bool.or_eq_true,
          Bool.not_eq_eq_eq_not, Bool.not_true, Bool.and_eq_true, decide_eq_true_eq, beq_iff_eq]
        cases hf : b.fixed
        · exact Or.inl rfl
        · right
          refine ⟨⟨⟨rfl, trivial⟩, ?_⟩, trivial⟩
          rw [hn, hend]
          exact length_splice _ _ _ (by rw [length_slice _ _ _ (by omega)]; omega)
    · rw [if_neg h1]
      by_cases h2 : ofs < b.writePos
      · rw [if_pos h2]
        refine ⟨rfl, ?_⟩
        simp [keepsFixed, hr]
      · rw [if_neg h2]; exact ⟨rfl, by simp [keepsFixed, hr]⟩
  · simp only [↓reduceIte, fail]; exact ⟨rfl, by simp [keepsFixed]⟩

theorem safe_sliceOp {s d : Buf} (gs : Good s) (len : UInt32) :
    accAllOk s (sliceOp s len d).src (sliceOp s len d).accSrc = true ∧
    (sliceOp s len d).accDst = [] ∧
    keepsFixed s (sliceOp s len d).src = true := by
  have ha := availRead_toNat gs; have := cur_lt s; have := gs.rw; have := len.toNat_lt
  unfold sliceOp
  by_cases h : len > availRead s
  · rw [if_pos h]; exact ⟨rfl, rfl, keepsFixed_refl s⟩
  · rw [if_neg h]
    have h' := UInt32.le_iff_toNat_le.mp (UInt32.not_lt.mp h)
    refine ⟨?_, rfl, keepsFixed_advance s _⟩
    simp only [accAllOk_cons, accOk_rd, accAllOk_nil, and_true]; omega

theorem safe_sliceSelf {b : Buf} (g : Good b) (len : UInt32) :
    accAllOk b (sliceSelf b len).buf (sliceSelf b len).acc = true := by
  have ha := availRead_toNat g; have := cur_lt b; have := g.rw; have := len.toNat_lt
  unfold sliceSelf
  by_cases h : len > availRead b
  · rw [if_pos h]; rfl
  · rw [if_neg h]
    have h' := UInt32.le_iff_toNat_le.mp (UInt32.not_lt.mp h)
    simp only [accAllOk_cons, accOk_rd, accAllOk_nil, and_true]; omega

theorem safe_eq (a b : Buf) :
    accAllOk a (eq a b).dst (eq a b).accDst = true ∧ accAllOk b (eq a b).src (eq a b).accSrc = true := by
  unfold eq
  by_cases h : a.writePos ≠ b.writePos
  · rw [if_pos h]; exact ⟨rfl, rfl⟩
  · rw [if_neg h]
    have h' : a.writePos = b.writePos := Classical.not_not.mp h
    simp only [accAllOk_cons, accOk_rd, accAllOk_nil, and_true, Nat.zero_add, Nat.le_refl, true_and]
    rw [h']; exact Nat.le_refl _

theorem eq_dst (a b : Buf) : (eq a b).dst = a := by
  unfold eq; split <;> rfl

theorem safe_eqStr (a : Buf) (s : List UInt8) :
    accAllOk a (eqStr a s).buf (eqStr a s).acc = true := by
  unfold eqStr
  dsimp only
  have h := (safe_eq a (initFixedReader (UInt32.ofNat s.length) fun k => s.getD k 0)).1
  rw [eq_dst] at h
  exact h

end UsualProofs.C12
