import UsualProofs.C12.Room
/-! Every function of mbuf.h / mbuf.c preserves the invariant, for all 32-bit arguments. -/
set_option linter.unusedSimpArgs false
set_option linter.unusedVariables false

namespace UsualProofs.C12
open Usual.C12

theorem good_initFixedReader (len : UInt32) (gen : Nat → UInt8) : Good (initFixedReader len gen) :=
  ⟨Nat.zero_le _, Nat.le_refl _, length_srcBytes _ _, fun _ => ⟨rfl, rfl⟩, (fun h => by cases h)⟩

theorem good_initFixedWriter (len : UInt32) (gen : Nat → UInt8) : Good (initFixedWriter len gen) :=
  ⟨Nat.zero_le _, Nat.zero_le _, length_srcBytes _ _, (fun h => by cases h), (fun h => by cases h)⟩

theorem good_initDynamic : Good initDynamic :=
  ⟨Nat.le_refl _, Nat.le_refl _, rfl, (fun h => by cases h), fun _ => rfl⟩

theorem good_free {b : Buf} (g : Good b) : Good (free b) := by
  unfold free; split
  · exact g
  · exact good_initDynamic

theorem good_rewindReader {b : Buf} (g : Good b) : Good (rewindReader b) :=
  ⟨Nat.zero_le _, g.wa, g.dl, g.rd, g.nl⟩

theorem good_rewindWriter {b : Buf} (g : Good b) : Good (rewindWriter b) := by
  unfold rewindWriter
  cases hr : b.reader
  · exact ⟨Nat.le_refl _, Nat.zero_le _, g.dl, fun h => by simp_all, g.nl⟩
  · exact g

/-- moving the read cursor forward by `n ≤ avail` -/
theorem good_advance {b : Buf} (g : Good b) (rp : UInt32)
    (h : rp.toNat ≤ b.writePos.toNat) : Good { b with readPos := rp } :=
  ⟨h, g.wa, g.dl, g.rd, g.nl⟩

theorem good_getByte {b : Buf} (g : Good b) : Good (getByte b).buf := by
  have ha := availRead_toNat g; have := cur_lt b; have := g.rw
  unfold getByte
  by_cases h : availRead b < 1
  · rw [if_pos h]; exact g
  · rw [if_neg h]
    have h' := UInt32.le_iff_toNat_le.mp (UInt32.not_lt.mp h)
    apply good_advance g
    rw [UInt32.toNat_add]; simp at h' ⊢; omega

theorem good_getU16 {b : Buf} (g : Good b) : Good (getU16 b).buf := by
  have ha := availRead_toNat g; have := cur_lt b; have := g.rw
  unfold getU16
  by_cases h : availRead b < 2
  · rw [if_pos h]; exact g
  · rw [if_neg h]
    have h' := UInt32.le_iff_toNat_le.mp (UInt32.not_lt.mp h)
    apply good_advance g
    simp only [UInt32.toNat_add]; simp at h' ⊢; omega

theorem good_getU32 {b : Buf} (g : Good b) : Good (getU32 b).buf := by
  have ha := availRead_toNat g; have := cur_lt b; have := g.rw
  unfold getU32
  by_cases h : availRead b < 4
  · rw [if_pos h]; exact g
  · rw [if_neg h]
    have h' := UInt32.le_iff_toNat_le.mp (UInt32.not_lt.mp h)
    apply good_advance g
    simp only [UInt32.toNat_add]; simp at h' ⊢; omega

theorem good_getU64 {b : Buf} (g : Good b) : Good (getU64 b).buf := by
  unfold getU64
  by_cases h : availRead b < 8
  · rw [if_pos h]; exact g
  · rw [if_neg h]
    have g1 := good_getU32 g
    have g2 := good_getU32 g1
    by_cases h1 : (getU32 b).ok = false
    · simp only [h1, ↓reduceIte, fail]; exact g1
    · simp only [h1, ↓reduceIte]
      by_cases h2 : (getU32 (getU32 b).buf).ok = false
      · simp only [h2, ↓reduceIte, fail]; exact g2
      · simp only [h2, ↓reduceIte]; exact g2

theorem good_getBytes {b : Buf} (g : Good b) (len : UInt32) : Good (getBytes b len).buf := by
  have ha := availRead_toNat g; have := cur_lt b; have := g.rw; have := len.toNat_lt
  unfold getBytes
  by_cases h : len > availRead b
  · rw [if_pos h]; exact g
  · rw [if_neg h]
    have h' := UInt32.le_iff_toNat_le.mp (UInt32.not_lt.mp h)
    apply good_advance g
    rw [UInt32.toNat_add]; omega

/-- index found by `findIdx?` lies inside the list -/
theorem findIdx?_lt {α} (p : α → Bool) (l : List α) (k : Nat) (h : l.findIdx? p = some k) :
    k < l.length := by
  have := List.findIdx?_eq_some_iff_getElem.mp h
  exact this.1

theorem good_getString {b : Buf} (g : Good b) : Good (getString b).buf := by
  have ha := availRead_toNat g; have := cur_lt b; have := g.rw; have := g.wa; have := g.dl
  unfold getString
  split
  · exact g
  · rename_i k hk
    have hlt := findIdx?_lt _ _ _ hk
    unfold strWin at hlt
    rw [length_slice _ _ _ (by omega)] at hlt
    apply good_advance g
    simp only [UInt32.toNat_add, UInt32.toNat_ofNat']
    simp; omega

theorem good_writeByte {b : Buf} (g : Good b) (v : UInt8) (ora : UInt32 → Bool) :
    Good (writeByte b v ora).buf := by
  unfold writeByte
  split
  · exact g
  · rename_i b1 he
    have e := ensure_some g he
    have g1 := e.good
    have := cur_lt b1; have hroom := e.room; have hw := e.wp; have := g1.rw; have := g1.dl
    have hwn : b1.writePos.toNat = b.writePos.toNat := by rw [hw]
    have hone : (1 : UInt32).toNat = 1 := rfl
    rw [hone] at hroom
    have hsum : (b1.writePos + 1).toNat = b1.writePos.toNat + 1 := by
      rw [UInt32.toNat_add]; simp; omega
    refine ⟨?_, ?_, ?_, ?_, g1.nl⟩
    · show b1.readPos.toNat ≤ (b1.writePos + 1).toNat; omega
    · show (b1.writePos + 1).toNat ≤ b1.allocLen.toNat; omega
    · show (splice b1.data b1.writePos.toNat [v]).length = b1.allocLen.toNat
      rw [length_splice _ _ _ (by simp; omega)]; exact g1.dl
    · intro hr
      have hr' : b.reader = true := by rw [← e.rdr]; exact hr
      have := e.nowr hr'; rw [hone] at this; omega

/-- common part of `mbuf_write` and `mbuf_fill`: store `xs` (of length `len`) at the write cursor -/
theorem good_store {b b1 : Buf} {len : UInt32} (e : Ensured b b1 len) (xs : List UInt8)
    (hx : xs.length = len.toNat) :
    Good { b1 with data := splice b1.data b1.writePos.toNat xs, writePos := b1.writePos + len } := by
  have g1 := e.good
  have := cur_lt b1; have hroom := e.room; have hw := e.wp; have := g1.rw; have := g1.dl
  have := len.toNat_lt
  have hwn : b1.writePos.toNat = b.writePos.toNat := by rw [hw]
  have hsum : (b1.writePos + len).toNat = b1.writePos.toNat + len.toNat := by
    rw [UInt32.toNat_add]; omega
  refine ⟨?_, ?_, ?_, ?_, g1.nl⟩
  · show b1.readPos.toNat ≤ (b1.writePos + len).toNat; omega
  · show (b1.writePos + len).toNat ≤ b1.allocLen.toNat; omega
  · show (splice b1.data b1.writePos.toNat xs).length = b1.allocLen.toNat
    rw [length_splice _ _ _ (by omega)]; exact g1.dl
  · intro hr
    have hr' : b.reader = true := by rw [← e.rdr]; exact hr
    have h0 := e.nowr hr'
    have := g1.rd hr
    refine ⟨this.1, ?_⟩
    show (b1.writePos + len).toNat = b1.allocLen.toNat
    omega

theorem good_write {b : Buf} (g : Good b) (src : Nat → UInt8) (len : UInt32) (ora : UInt32 → Bool) :
    Good (write b src len ora).buf := by
  unfold write
  split
  · exact g
  · rename_i b1 he
    exact good_store (ensure_some g he) _ (length_srcBytes _ _)

theorem good_fill {b : Buf} (g : Good b) (byte : UInt8) (len : UInt32) (ora : UInt32 → Bool) :
    Good (fill b byte len ora).buf := by
  unfold fill
  split
  · exact g
  · rename_i b1 he
    exact good_store (ensure_some g he) _ (List.length_replicate ..)

theorem good_writeRaw {d s : Buf} (gd : Good d) (gs : Good s) (ora : UInt32 → Bool) :
    Good (writeRaw d s ora).dst ∧ Good (writeRaw d s ora).src :=
  ⟨good_write gd _ _ _, gs⟩

theorem good_writeMbuf {d s : Buf} (gd : Good d) (gs : Good s) (len : UInt32) (ora : UInt32 → Bool) :
    Good (writeMbuf d s len ora).dst ∧ Good (writeMbuf d s len ora).src := by
  unfold writeMbuf
  by_cases h1 : (getBytes s len).ok = false
  · simp only [h1, ↓reduceIte]; exact ⟨gd, gs⟩
  · simp only [h1, ↓reduceIte]
    by_cases h2 : (write d (fun k => rdAt s.data (s.readPos.toNat + k)) len ora).ok = false
    · simp only [h2, ↓reduceIte]
      refine ⟨gd, ?_⟩
      -- roll-back: read_pos + len - len = read_pos
      have hb : (getBytes s len).buf = { s with readPos := s.readPos + len } := by
        unfold getBytes at h1 ⊢
        by_cases h : len > availRead s
        · rw [if_pos h] at h1; simp [fail] at h1
        · rw [if_neg h]
      rw [hb]
      show Good { s with readPos := s.readPos + len - len }
      rw [UInt32.add_sub_cancel]; exact gs
    · simp only [h2, ↓reduceIte]
      exact ⟨good_write gd _ _ _, good_getBytes gs len⟩

theorem good_cut {b : Buf} (g : Good b) (ofs len : UInt32) : Good (cut b ofs len).buf := by
  have hc := cur_lt b; have := g.rw; have := g.wa; have := g.dl
  have := ofs.toNat_lt; have := len.toNat_lt
  unfold cut
  cases hr : b.reader
  · simp only [Bool.false_eq_true, ↓reduceIte]
    by_cases h1 : ofs < b.writePos ∧ len < b.writePos - ofs
    · rw [if_pos h1]
      obtain ⟨h1a, h1b⟩ := h1
      have h1a' := UInt32.lt_iff_toNat_lt.mp h1a
      have h1b' := UInt32.lt_iff_toNat_lt.mp h1b
      rw [UInt32.toNat_sub_of_le _ _ (UInt32.le_iff_toNat_le.mpr (by omega))] at h1b'
      have hend : (ofs + len).toNat = ofs.toNat + len.toNat := by rw [UInt32.toNat_add]; omega
      have hwl : (b.writePos - len).toNat = b.writePos.toNat - len.toNat :=
        UInt32.toNat_sub_of_le _ _ (UInt32.le_iff_toNat_le.mpr (by omega))
      have hn : (b.writePos - (ofs + len)).toNat = b.writePos.toNat - (ofs.toNat + len.toNat) := by
        rw [UInt32.toNat_sub_of_le _ _ (UInt32.le_iff_toNat_le.mpr (by omega)), hend]
      refine ⟨?_, ?_, ?_, ?_, g.nl⟩
      · show (if b.readPos ≥ ofs + len then b.readPos - len
              else if b.readPos > ofs then ofs else b.readPos).toNat ≤ (b.writePos - len).toNat
        rw [hwl]
        by_cases c1 : b.readPos ≥ ofs + len
        · rw [if_pos c1]
          have c1' := UInt32.le_iff_toNat_le.mp c1
          rw [UInt32.toNat_sub_of_le _ _ (UInt32.le_iff_toNat_le.mpr (by omega))]; omega
        · rw [if_neg c1]
          by_cases c2 : b.readPos > ofs
          · rw [if_pos c2]; omega
          · rw [if_neg c2]
            have c2' := UInt32.le_iff_toNat_le.mp (UInt32.not_lt.mp c2); omega
      · show (b.writePos - len).toNat ≤ b.allocLen.toNat; omega
      · show (splice b.data ofs.toNat (slice b.data (ofs + len).toNat
              (b.writePos - (ofs + len)).toNat)).length = b.allocLen.toNat
        rw [hn, hend]
        rw [length_splice _ _ _ (by rw [length_slice _ _ _ (by omega)]; omega)]; exact g.dl
      · intro h; cases h
    · rw [if_neg h1]
      by_cases h2 : ofs < b.writePos
      · rw [if_pos h2]
        have h2' := UInt32.lt_iff_toNat_lt.mp h2
        refine ⟨?_, ?_, g.dl, ?_, g.nl⟩
        · show (if b.readPos > ofs then ofs else b.readPos).toNat ≤ ofs.toNat
          by_cases c2 : b.readPos > ofs
          · rw [if_pos c2]; omega
          · rw [if_neg c2]; exact UInt32.le_iff_toNat_le.mp (UInt32.not_lt.mp c2)
        · show ofs.toNat ≤ b.allocLen.toNat; omega
        · intro h; cases h
      · rw [if_neg h2]; exact g
  · simp only [↓reduceIte, fail]; exact g

theorem good_sliceOp {s d : Buf} (gs : Good s) (gd : Good d) (len : UInt32) :
    Good (sliceOp s len d).dst ∧ Good (sliceOp s len d).src := by
  have ha := availRead_toNat gs; have := cur_lt s; have := gs.rw; have := len.toNat_lt
  have := gs.wa; have := gs.dl
  unfold sliceOp
  by_cases h : len > availRead s
  · rw [if_pos h]; exact ⟨gd, gs⟩
  · rw [if_neg h]
    have h' := UInt32.le_iff_toNat_le.mp (UInt32.not_lt.mp h)
    refine ⟨⟨Nat.zero_le _, Nat.le_refl _, ?_, fun _ => ⟨rfl, rfl⟩, ?_⟩, ?_⟩
    · show (slice s.data s.readPos.toNat len.toNat).length = len.toNat
      exact length_slice _ _ _ (by omega)
    · intro hn; change s.isNull = true at hn
      have := gs.nl hn
      show len.toNat = 0; omega
    · apply good_advance gs
      rw [UInt32.toNat_add]; omega

theorem good_sliceSelf {b : Buf} (g : Good b) (len : UInt32) : Good (sliceSelf b len).buf := by
  have ha := availRead_toNat g; have := cur_lt b; have := g.rw; have := len.toNat_lt
  have := g.wa; have := g.dl
  unfold sliceSelf
  by_cases h : len > availRead b
  · rw [if_pos h]; exact g
  · rw [if_neg h]
    have h' := UInt32.le_iff_toNat_le.mp (UInt32.not_lt.mp h)
    refine ⟨?_, Nat.le_refl _, ?_, fun _ => ⟨rfl, rfl⟩, ?_⟩
    · show (0 + len).toNat ≤ len.toNat
      rw [UInt32.zero_add]; exact Nat.le_refl _
    · show (slice b.data b.readPos.toNat len.toNat).length = len.toNat
      exact length_slice _ _ _ (by omega)
    · intro hn; change b.isNull = true at hn
      have := g.nl hn
      show len.toNat = 0; omega

end UsualProofs.C12
