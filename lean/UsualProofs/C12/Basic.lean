import Usual.C12.MBuf
/-! Helper lemmas for C12: the invariant as a structure of `Nat` facts, list lemmas for
`slice`/`splice`, and the `grow` loop of `mbuf_make_room`. -/
namespace UsualProofs.C12
open Usual.C12

/-- `inv` unfolded into arithmetic over `Nat` -/
structure Good (b : Buf) : Prop where
  rw : b.readPos.toNat ≤ b.writePos.toNat
  wa : b.writePos.toNat ≤ b.allocLen.toNat
  dl : b.data.length = b.allocLen.toNat
  rd : b.reader = true → b.fixed = true ∧ b.writePos.toNat = b.allocLen.toNat
  nl : b.isNull = true → b.allocLen.toNat = 0

theorem inv_iff (b : Buf) : inv b = true ↔ Good b := by
  constructor
  · intro h
    simp only [inv, Bool.and_eq_true, decide_eq_true_eq, Bool.or_eq_true, Bool.not_eq_eq_eq_not,
      Bool.not_true] at h
    obtain ⟨⟨⟨⟨h1, h2⟩, h3⟩, h4⟩, h5⟩ := h
    refine ⟨UInt32.le_iff_toNat_le.mp h1, UInt32.le_iff_toNat_le.mp h2, h3, ?_, ?_⟩
    · intro hr
      rcases h4 with h4 | h4
      · rw [hr] at h4; cases h4
      · exact ⟨h4.1, by rw [h4.2]⟩
    · intro hn
      rcases h5 with h5 | h5
      · rw [hn] at h5; cases h5
      · rw [h5]; rfl
  · intro g
    simp only [inv, Bool.and_eq_true, decide_eq_true_eq, Bool.or_eq_true, Bool.not_eq_eq_eq_not,
      Bool.not_true]
    refine ⟨⟨⟨⟨UInt32.le_iff_toNat_le.mpr g.rw, UInt32.le_iff_toNat_le.mpr g.wa⟩, g.dl⟩, ?_⟩, ?_⟩
    · cases hr : b.reader
      · exact Or.inl rfl
      · exact Or.inr ⟨(g.rd hr).1, UInt32.toNat_inj.mp (g.rd hr).2⟩
    · cases hn : b.isNull
      · exact Or.inl rfl
      · exact Or.inr (UInt32.toNat_inj.mp (by rw [g.nl hn]; rfl))

/-- every `UInt32` cursor is below 2^32 (facts for `omega`) -/
theorem cur_lt (b : Buf) :
    b.readPos.toNat < 4294967296 ∧ b.writePos.toNat < 4294967296 ∧ b.allocLen.toNat < 4294967296 :=
  ⟨b.readPos.toNat_lt, b.writePos.toNat_lt, b.allocLen.toNat_lt⟩

/-- rewrite `UInt32` comparisons and arithmetic into `Nat` with explicit `% 2^32` -/
macro "u32_norm" " at " h:Lean.Parser.Tactic.locationHyp : tactic =>
  `(tactic| simp only [UInt32.lt_iff_toNat_lt, UInt32.le_iff_toNat_le, UInt32.toNat_add,
      UInt32.toNat_sub, UInt32.toNat_mul, UInt32.toNat_ofNat, UInt32.toNat_ofNat', UInt32.toNat_div,
      gt_iff_lt, ge_iff_le, Nat.not_lt, Nat.not_le, UInt32.not_lt, UInt32.not_le,
      ← UInt32.toNat_inj, Nat.reducePow, Nat.reduceMod, Nat.reduceDiv] at $h)

macro "u32_norm" : tactic =>
  `(tactic| simp only [UInt32.lt_iff_toNat_lt, UInt32.le_iff_toNat_le, UInt32.toNat_add,
      UInt32.toNat_sub, UInt32.toNat_mul, UInt32.toNat_ofNat, UInt32.toNat_ofNat', UInt32.toNat_div,
      gt_iff_lt, ge_iff_le, Nat.not_lt, Nat.not_le, UInt32.not_lt, UInt32.not_le,
      ← UInt32.toNat_inj, Nat.reducePow, Nat.reduceMod, Nat.reduceDiv])

/-! ### availRead / availWrite in `Nat` -/

theorem availRead_toNat {b : Buf} (g : Good b) :
    (availRead b).toNat = b.writePos.toNat - b.readPos.toNat := by
  have := g.rw; have := cur_lt b
  simp only [availRead, UInt32.toNat_sub]; omega

theorem availWrite_toNat {b : Buf} (g : Good b) :
    (availWrite b).toNat = if b.reader = true then 0 else b.allocLen.toNat - b.writePos.toNat := by
  have := g.wa; have := cur_lt b
  unfold availWrite
  cases hr : b.reader
  · by_cases h : b.allocLen > b.writePos
    · simp only [h, and_self, ↓reduceIte, UInt32.toNat_sub]
      simp; omega
    · simp only [h, and_false, ↓reduceIte]
      have h' := UInt32.not_lt.mp h
      rw [UInt32.le_iff_toNat_le] at h'
      simp; omega
  · simp

/-! ### lists -/

theorem length_slice (d : List UInt8) (lo n : Nat) (h : lo + n ≤ d.length) :
    (slice d lo n).length = n := by
  simp only [slice, List.length_take, List.length_drop]; omega

theorem length_splice (d : List UInt8) (lo : Nat) (xs : List UInt8) (h : lo + xs.length ≤ d.length) :
    (splice d lo xs).length = d.length := by
  simp only [splice, List.length_append, List.length_take, List.length_drop]; omega

theorem length_srcBytes (f : Nat → UInt8) (n : Nat) : (srcBytes f n).length = n := by
  simp [srcBytes]

/-- the prefix up to the end of the stored block -/
theorem take_splice (d : List UInt8) (lo : Nat) (xs : List UInt8) (h : lo ≤ d.length) :
    (splice d lo xs).take (lo + xs.length) = d.take lo ++ xs := by
  have h1 : (d.take lo ++ xs).length = lo + xs.length := by
    simp only [List.length_append, List.length_take]; omega
  simp only [splice]
  rw [← h1, List.take_left']
  rfl

theorem take_splice_le (d : List UInt8) (lo k : Nat) (xs : List UInt8) (h : k ≤ lo) (h2 : lo ≤ d.length) :
    (splice d lo xs).take k = d.take k := by
  simp only [splice, List.append_assoc]
  rw [List.take_append_of_le_length (by simp only [List.length_take]; omega)]
  rw [List.take_take]; congr 1; omega

/-! ### the doubling loop -/

theorem grow_spec : ∀ (fuel : Nat) (na need r : UInt32), na.toNat ≠ 0 →
    4294967296 ≤ na.toNat * 2 ^ fuel → grow fuel na need = some r →
    need.toNat ≤ r.toNat ∧ na.toNat ≤ r.toNat := by
  intro fuel
  induction fuel with
  | zero =>
    intro na need r _ h2 _
    have := na.toNat_lt
    omega
  | succ f ih =>
    intro na need r h1 h2 h3
    unfold grow at h3
    by_cases hlt : na < need
    · rw [if_pos hlt] at h3
      by_cases hbig : na > 0xFFFFFFFF / 2
      · rw [if_pos hbig] at h3; cases h3
      · rw [if_neg hbig] at h3
        have hb : na.toNat ≤ 2147483647 := by
          have := UInt32.not_lt.mp hbig
          rw [UInt32.le_iff_toNat_le] at this
          simpa using this
        have hm : (na * 2).toNat = na.toNat * 2 := by
          rw [UInt32.toNat_mul]; simp; omega
        have := ih (na * 2) need r (by omega) (by rw [hm, Nat.mul_assoc, Nat.mul_comm 2, ← Nat.pow_succ]; exact h2) h3
        omega
    · rw [if_neg hlt] at h3
      cases h3
      have := UInt32.not_lt.mp hlt
      rw [UInt32.le_iff_toNat_le] at this
      omega

end UsualProofs.C12
