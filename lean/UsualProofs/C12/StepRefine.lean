import UsualProofs.C12.Step
/-! `step` refines the byte-vector specification (`StepRefines`). -/
set_option linter.unusedSimpArgs false
set_option linter.unusedVariables false

namespace UsualProofs.C12
open Usual.C12

theorem absS_set (s : State) (i : Nat) (b : Buf) : absS (s.set i b) = (absS s).set i (abs b) := by
  funext j
  simp only [absS, State.set, VState.set]
  split <;> rfl

theorem absS_same {s s' : State} (h : ∀ j, s' j = s j) : absS s' = absS s := by
  funext j; simp only [absS]; rw [h j]

theorem vset_self (v : VState) (i : Nat) : v.set i (v i) = v := by
  funext j; simp only [VState.set]; split
  · rename_i e; rw [e]
  · rfl

/-- one-buffer call -/
theorem refines_ofRes (s : State) (i : Nat) (r : Res) (op : Op) (hs : step s op = ofRes s i r)
    (x : Vec)
    (hok : ∀ v', specOk (absS s) op v' ↔ v' = specStep (absS s) op)
    (hstep : r.ok = true → specStep (absS s) op = (absS s).set i x)
    (hA : r.ok = true → abs r.buf = x ∧ r.bytes = specBytes (absS s) op ∧
      ∀ n, specVal (absS s) op = some n → r.val = n)
    (hB : r.ok = false → r.buf = s i ∧ r.bytes = [])
    (hC : ∀ b, specRet (absS s) op = some b → r.ok = b) : StepRefines s op := by
  unfold StepRefines
  rw [hs]
  refine ⟨?_, ?_, hC⟩
  · intro h
    have h' : r.ok = true := h
    obtain ⟨a1, a2, a3⟩ := hA h'
    refine ⟨?_, a2, a3⟩
    rw [hok]
    show absS (s.set i r.buf) = _
    rw [absS_set, a1, hstep h']
  · intro h
    have h' : r.ok = false := h
    obtain ⟨b1, b2⟩ := hB h'
    refine ⟨?_, b2⟩
    show absS (s.set i r.buf) = _
    rw [absS_set, b1]
    exact vset_self _ _

/-- two-buffer call on distinct slots -/
theorem refines_ofRes2 (s : State) (d c : Nat) (r : Res2) (op : Op)
    (hs : step s op = ofRes2 s d c r) (x y : Vec)
    (hok : ∀ v', specOk (absS s) op v' ↔ v' = specStep (absS s) op)
    (hstep : r.ok = true → specStep (absS s) op = ((absS s).set d x).set c y)
    (hA : r.ok = true → abs r.dst = x ∧ abs r.src = y ∧ r.bytes = specBytes (absS s) op ∧
      ∀ n, specVal (absS s) op = some n → r.val = n)
    (hB : r.ok = false → r.dst = s d ∧ r.src = s c ∧ r.bytes = [])
    (hC : ∀ b, specRet (absS s) op = some b → r.ok = b) : StepRefines s op := by
  unfold StepRefines
  rw [hs]
  refine ⟨?_, ?_, hC⟩
  · intro h
    have h' : r.ok = true := h
    obtain ⟨a1, a2, a3, a4⟩ := hA h'
    refine ⟨?_, a3, a4⟩
    rw [hok]
    show absS ((s.set d r.dst).set c r.src) = _
    rw [absS_set, absS_set, a1, a2, hstep h']
  · intro h
    have h' : r.ok = false := h
    obtain ⟨b1, b2, b3⟩ := hB h'
    refine ⟨?_, b3⟩
    show absS ((s.set d r.dst).set c r.src) = _
    rw [absS_set, absS_set, b1, b2]
    have e1 : (absS s).set d (abs (s d)) = absS s := vset_self (absS s) d
    rw [e1]
    exact vset_self (absS s) c

/-- call whose C function returns nothing (always "true"), replacing slot `i` -/
theorem refines_void (s : State) (i : Nat) (b : Buf) (op : Op)
    (hs : step s op = (s.set i b, {}))
    (hspec : specOk (absS s) op ((absS s).set i (abs b)))
    (hb : specBytes (absS s) op = []) (hv : specVal (absS s) op = none)
    (hr : specRet (absS s) op = none) : StepRefines s op := by
  unfold StepRefines
  rw [hs]
  refine ⟨?_, ?_, ?_⟩
  · intro _
    refine ⟨?_, hb.symm, ?_⟩
    · show specOk (absS s) op (absS (s.set i b))
      rw [absS_set]; exact hspec
    · intro n hn; rw [hv] at hn; cases hn
  · intro h; cases h
  · intro r h; rw [hr] at h; cases h

/-- call that only reports a number -/
theorem refines_info (s : State) (op : Op) (n : Nat) (hs : step s op = (s, { val := n }))
    (hspec : specStep (absS s) op = absS s)
    (hok : ∀ v', specOk (absS s) op v' ↔ v' = specStep (absS s) op)
    (hb : specBytes (absS s) op = [])
    (hv : ∀ m, specVal (absS s) op = some m → n = m)
    (hr : specRet (absS s) op = none) : StepRefines s op := by
  unfold StepRefines
  rw [hs]
  refine ⟨?_, ?_, ?_⟩
  · intro _
    refine ⟨?_, hb.symm, hv⟩
    rw [hok, hspec]
  · intro h; cases h
  · intro r h; rw [hr] at h; cases h

/-- call that leaves every vector as it is -/
theorem refines_absSame (s : State) (op : Op) (s' : State) (o : Out) (hs : step s op = (s', o))
    (habs : absS s' = absS s) (hb : o.bytes = [])
    (hok : o.ok = true → specOk (absS s) op (absS s))
    (hsb : o.ok = true → specBytes (absS s) op = [])
    (hv : ∀ n, specVal (absS s) op = some n → o.val = n)
    (hC : ∀ r, specRet (absS s) op = some r → o.ok = r) : StepRefines s op := by
  unfold StepRefines
  rw [hs]
  refine ⟨?_, ?_, hC⟩
  · intro h
    have h' : o.ok = true := h
    refine ⟨?_, ?_, hv⟩
    · show specOk (absS s) op (absS s'); rw [habs]; exact hok h'
    · show o.bytes = _; rw [hb, hsb h']
  · intro _
    exact ⟨habs, hb⟩

theorem vset_set_self (v : VState) (d c : Nat) (x : Vec) (h : d ≠ c) :
    (v.set d x).set c (v c) = v.set d x := by
  funext j
  simp only [VState.set]
  by_cases hc : j = c
  · subst hc
    rw [if_pos rfl, if_neg (fun e => h e.symm)]
  · rw [if_neg hc]

theorem abs_initFixedReader (len : UInt32) (gen : Nat → UInt8) :
    abs (initFixedReader len gen) = Vec.view (srcBytes gen len.toNat) := by
  apply Vec.ext'
  · show List.take len.toNat (srcBytes gen len.toNat) = _
    exact List.take_of_length_le (by rw [length_srcBytes]; exact Nat.le_refl _)
  · rfl
  · rfl

theorem abs_free {b : Buf} (g : Good b) : ∃ ro, abs (free b) = { bytes := [], rpos := 0, ro := ro } := by
  unfold free
  cases hn : b.isNull
  · exact ⟨false, rfl⟩
  · have h0 := g.nl hn
    have := g.rw; have := g.wa
    refine ⟨b.reader, ?_⟩
    simp only [↓reduceIte]
    apply Vec.ext'
    · show (contents b) = []
      apply List.eq_nil_of_length_eq_zero
      rw [contents_length g]; omega
    · show b.readPos.toNat = 0; omega
    · rfl

theorem bool_eq_decide {b : Bool} {p : Prop} [Decidable p] (h : b = true ↔ p) : b = decide p := by
  cases b <;> simp_all

theorem unread_len_abs {s : State} (h : AllInv s) (i : Nat) :
    ((absS s) i).unread.length = (s i).writePos.toNat - (s i).readPos.toNat :=
  unread_length (good_of_inv h i)

theorem refines_step' {s : State} (h : AllInv s) (op : Op) : StepRefines s op := by
  have G := good_of_inv h
  cases op with
  | initReader i len gen =>
    refine refines_void s i _ _ rfl ?_ rfl rfl rfl
    show _ = _
    simp only [specStep]
    rw [abs_initFixedReader]
  | initWriter i len gen =>
    refine refines_void s i _ _ rfl ?_ rfl rfl rfl
    show _ = _
    simp only [specStep]
    congr 1
  | initDynamic i =>
    refine refines_void s i _ _ rfl ?_ rfl rfl rfl
    show _ = _
    simp only [specStep]
    congr 1
  | free i =>
    refine refines_void s i _ _ rfl ?_ rfl rfl rfl
    obtain ⟨ro, e⟩ := abs_free (G i)
    exact ⟨ro, by rw [e]⟩
  | rewindReader i =>
    exact refines_void s i _ _ rfl (by show _ = _; simp only [specStep]; rfl) rfl rfl rfl
  | rewindWriter i =>
    refine refines_void s i _ _ rfl ?_ rfl rfl rfl
    show _ = _
    simp only [specStep]
    congr 1
    show abs (rewindWriter (s i)) = if (s i).reader = true then abs (s i) else Vec.empty
    cases hr : (s i).reader
    · simp only [Bool.false_eq_true, ↓reduceIte]; exact ref_rewindWriter _ hr
    · simp [rewindWriter, hr]
  | availRead i =>
    refine refines_info s _ _ rfl rfl (fun _ => Iff.rfl) rfl ?_ rfl
    intro m hm
    simp only [specVal, Option.some.injEq] at hm
    rw [← hm, unread_len_abs h, availRead_toNat (G i)]
  | availWrite i => exact refines_info s _ _ rfl rfl (fun _ => Iff.rfl) rfl (fun m hm => by cases hm) rfl
  | written i =>
    refine refines_info s _ _ rfl rfl (fun _ => Iff.rfl) rfl ?_ rfl
    intro m hm
    simp only [specVal, Option.some.injEq] at hm
    rw [← hm]; exact (contents_length (G i)).symm
  | consumed i =>
    refine refines_info s _ _ rfl rfl (fun _ => Iff.rfl) rfl ?_ rfl
    intro m hm
    simp only [specVal, Option.some.injEq] at hm
    rw [← hm]; rfl
  | eq i j =>
    by_cases hij : i = j
    · subst hij
      refine refines_absSame s _ s { ok := true } (by simp [step]) rfl rfl (fun _ => rfl) (fun _ => rfl)
        (fun n hn => by cases hn) ?_
      intro r hr
      simp only [specRet, decide_true, Option.some.injEq] at hr
      exact hr
    · refine refines_absSame s _ s
        (⟨(Usual.C12.eq (s i) (s j)).ok, 0, [],
          tag i (Usual.C12.eq (s i) (s j)).accDst ++ tag j (Usual.C12.eq (s i) (s j)).accSrc⟩ : Out)
        (by simp only [step, hij, ↓reduceIte]) rfl rfl (fun _ => rfl)
        (fun _ => rfl) (fun n hn => by cases hn) ?_
      intro r hr
      simp only [specRet, Option.some.injEq] at hr
      rw [← hr]
      exact bool_eq_decide (ref_eq (G i) (G j))
  | eqStr i str =>
    exact refines_absSame s _ s _ rfl rfl rfl (fun _ => rfl) (fun _ => rfl)
      (fun n hn => by cases hn) (fun r hr => by cases hr)
  | getByte i =>
    refine refines_ofRes s i _ _ rfl _ (fun _ => Iff.rfl) (fun _ => rfl) ?_ ?_ ?_
    · intro hok
      obtain ⟨r1, r2, r3⟩ := ref_getByte (G i) hok
      refine ⟨r2, r1, ?_⟩
      intro n hn
      simp only [specVal, Option.some.injEq] at hn
      rw [← hn, r3, r1]; rfl
    · intro hf; exact ⟨unch_getByte _ hf, by unfold getByte at hf ⊢; split <;> simp_all [fail]⟩
    · intro r hr
      simp only [specRet, Option.some.injEq] at hr
      rw [← hr]; exact bool_eq_decide (getByte_ok_iff (G i))
  | getChar i =>
    refine refines_ofRes s i _ _ rfl _ (fun _ => Iff.rfl) (fun _ => rfl) ?_ ?_ ?_
    · intro hok
      obtain ⟨r1, r2, r3⟩ := ref_getByte (G i) hok
      refine ⟨r2, r1, ?_⟩
      intro n hn
      simp only [specVal, Option.some.injEq] at hn
      rw [← hn]; show (getByte (s i)).val = _; rw [r3, r1]; rfl
    · intro hf
      exact ⟨unch_getByte _ hf, by
        show (getByte (s i)).bytes = []
        have hf' : (getByte (s i)).ok = false := hf
        unfold getByte at hf' ⊢; split <;> simp_all [fail]⟩
    · intro r hr
      simp only [specRet, Option.some.injEq] at hr
      rw [← hr]; exact bool_eq_decide (getByte_ok_iff (G i))
  | getU16 i =>
    refine refines_ofRes s i _ _ rfl _ (fun _ => Iff.rfl) (fun _ => rfl) ?_ ?_ ?_
    · intro hok
      obtain ⟨r1, r2, r3⟩ := ref_getU16 (G i) hok
      refine ⟨r2, r1, ?_⟩
      intro n hn
      simp only [specVal, Option.some.injEq] at hn
      rw [← hn, r3, r1]; rfl
    · intro hf; exact ⟨unch_getU16 _ hf, by unfold getU16 at hf ⊢; split <;> simp_all [fail]⟩
    · intro r hr
      simp only [specRet, Option.some.injEq] at hr
      rw [← hr]; exact bool_eq_decide (getU16_ok_iff (G i))
  | getU32 i =>
    refine refines_ofRes s i _ _ rfl _ (fun _ => Iff.rfl) (fun _ => rfl) ?_ ?_ ?_
    · intro hok
      obtain ⟨r1, r2, r3⟩ := ref_getU32 (G i) hok
      refine ⟨r2, r1, ?_⟩
      intro n hn
      simp only [specVal, Option.some.injEq] at hn
      rw [← hn, r3, r1]; rfl
    · intro hf; exact ⟨unch_getU32 _ hf, by unfold getU32 at hf ⊢; split <;> simp_all [fail]⟩
    · intro r hr
      simp only [specRet, Option.some.injEq] at hr
      rw [← hr]; exact bool_eq_decide (getU32_ok_iff (G i))
  | getU64 i =>
    refine refines_ofRes s i _ _ rfl _ (fun _ => Iff.rfl) (fun _ => rfl) ?_ ?_ ?_
    · intro hok
      obtain ⟨r1, r2, r3⟩ := ref_getU64 (G i) hok
      refine ⟨r2, r1, ?_⟩
      intro n hn
      simp only [specVal, Option.some.injEq] at hn
      rw [← hn, r3, r1]; rfl
    · intro hf
      refine ⟨unch_getU64 (G i) hf, ?_⟩
      have hno : ¬ 8 ≤ ((absS s) i).unread.length := by
        intro h8
        have := (getU64_ok_iff (G i)).mpr h8
        rw [hf] at this; cases this
      unfold getU64
      by_cases c : availRead (s i) < 8
      · rw [if_pos c]; rfl
      · exfalso
        obtain ⟨o1, o2⟩ := getU64_halves (G i) c
        unfold getU64 at hf
        rw [if_neg c] at hf
        dsimp only at hf
        rw [if_neg (by rw [o1]; decide), if_neg (by rw [o2]; decide)] at hf
        cases hf
    · intro r hr
      simp only [specRet, Option.some.injEq] at hr
      rw [← hr]; exact bool_eq_decide (getU64_ok_iff (G i))
  | getBytes i len =>
    refine refines_ofRes s i _ _ rfl _ (fun _ => Iff.rfl) (fun _ => rfl) ?_ ?_ ?_
    · intro hok
      obtain ⟨r1, r2, _, r4⟩ := ref_getBytes (G i) len hok
      refine ⟨r2, r1, ?_⟩
      intro n hn
      simp only [specVal, Option.some.injEq] at hn
      rw [← hn, r4]; rfl
    · intro hf
      exact ⟨unch_getBytes _ _ hf, by unfold getBytes at hf ⊢; split <;> simp_all [fail]⟩
    · intro r hr
      simp only [specRet, Option.some.injEq] at hr
      rw [← hr]; exact bool_eq_decide (getBytes_ok_iff (G i) len)
  | getChars i len =>
    refine refines_ofRes s i (getBytes (s i) len) _ rfl _ (fun _ => Iff.rfl) (fun _ => rfl) ?_ ?_ ?_
    · intro hok
      obtain ⟨r1, r2, _, r4⟩ := ref_getBytes (G i) len hok
      refine ⟨r2, r1, ?_⟩
      intro n hn
      simp only [specVal, Option.some.injEq] at hn
      rw [← hn, r4]; rfl
    · intro hf
      exact ⟨unch_getBytes _ _ hf, by unfold getBytes at hf ⊢; split <;> simp_all [fail]⟩
    · intro r hr
      simp only [specRet, Option.some.injEq] at hr
      rw [← hr]; exact bool_eq_decide (getBytes_ok_iff (G i) len)
  | getString i =>
    have hfind := getString_find (G i)
    have hnul : ((absS s) i).nul? =
        if (getString (s i)).ok = true then some (getString (s i)).bytes.length else none := hfind
    refine refines_ofRes s i _ _ rfl
      (((absS s) i).get ((getString (s i)).bytes.length + 1)).1 (fun _ => Iff.rfl) ?_ ?_ ?_ ?_
    · intro hok
      simp only [specStep, hnul, hok, ↓reduceIte]
    · intro hok
      obtain ⟨r1, r2, _⟩ := ref_getString (G i) hok
      refine ⟨r2, ?_, ?_⟩
      · simp only [specBytes, hnul, hok, ↓reduceIte]
        -- bytes ++ [0] = unread.take (k+1)  ⇒  bytes = unread.take k
        have := congrArg (List.take (getString (s i)).bytes.length) r1
        rw [List.take_left'] at this
        · refine this.trans ?_
          simp only [Vec.get, List.take_take]
          rw [Nat.min_eq_left (Nat.le_succ _)]
          rfl
        · rfl
      · intro n hn
        simp only [specVal, Option.some.injEq] at hn
        rw [← hn]
        have hv : (getString (s i)).val = (s i).readPos.toNat := by
          have hok' := hok
          unfold getString at hok' ⊢
          split
          · rename_i hh; rw [hh] at hok'; cases hok'
          · rfl
        rw [hv]; rfl
    · intro hf
      refine ⟨unch_getString _ hf, ?_⟩
      unfold getString at hf ⊢
      split
      · rfl
      · rename_i k hk; rw [hk] at hf; cases hf
    · intro r hr
      simp only [specRet, Option.some.injEq] at hr
      rw [← hr, hnul]
      cases (getString (s i)).ok <;> rfl
  | makeRoom i len ora =>
    have e : absS (s.set i (makeRoom (s i) len ora).2) = absS s := by
      rw [absS_set, ref_makeRoom (G i)]; exact vset_self _ _
    exact refines_absSame s _ _ _ rfl e rfl (fun _ => rfl) (fun _ => rfl)
      (fun n hn => by cases hn) (fun r hr => by cases hr)
  | writeByte i v ora =>
    refine refines_ofRes s i _ _ rfl _ (fun _ => Iff.rfl) (fun _ => rfl) ?_ ?_ ?_
    · intro hok
      refine ⟨ref_writeByte (G i) v ora hok, ?_, fun n hn => by cases hn⟩
      unfold writeByte; split <;> rfl
    · intro hf
      refine ⟨unch_writeByte _ _ _ hf, ?_⟩
      unfold writeByte; split <;> rfl
    · intro r hr; cases hr
  | write i src len ora =>
    refine refines_ofRes s i _ _ rfl _ (fun _ => Iff.rfl) (fun _ => rfl) ?_ ?_ ?_
    · intro hok
      refine ⟨ref_write (G i) src len ora hok, ?_, fun n hn => by cases hn⟩
      unfold write; split <;> rfl
    · intro hf
      refine ⟨unch_write _ _ _ _ hf, ?_⟩
      unfold write; split <;> rfl
    · intro r hr; cases hr
  | fill i byte len ora =>
    refine refines_ofRes s i _ _ rfl _ (fun _ => Iff.rfl) (fun _ => rfl) ?_ ?_ ?_
    · intro hok
      refine ⟨ref_fill (G i) byte len ora hok, ?_, fun n hn => by cases hn⟩
      unfold fill; split <;> rfl
    · intro hf
      refine ⟨unch_fill _ _ _ _ hf, ?_⟩
      unfold fill; split <;> rfl
    · intro r hr; cases hr
  | writeRaw d c ora =>
    by_cases hdc : d = c
    · exact refines_absSame s _ s { ok := false } (by simp [step, hdc, rejected]) rfl rfl
        (fun hh => by cases hh) (fun hh => by cases hh) (fun n hn => by cases hn)
        (fun r hr => by cases hr)
    · refine refines_ofRes2 s d c (writeRaw (s d) (s c) ora) _ (by simp [step, hdc])
        ((abs (s d)).append (contents (s c))) (abs (s c)) (fun _ => Iff.rfl) ?_ ?_ ?_ ?_
      · intro _
        simp only [specStep]
        exact (vset_set_self (absS s) d c _ hdc).symm
      · intro hok
        obtain ⟨r1, r2⟩ := ref_writeRaw (G d) (G c) ora hok
        exact ⟨r1, by rw [r2], rfl, fun n hn => by cases hn⟩
      · intro hf
        obtain ⟨u1, u2⟩ := unch_writeRaw _ _ _ hf
        exact ⟨u1, u2, rfl⟩
      · intro r hr; cases hr
  | writeMbuf d c len ora =>
    by_cases hdc : d = c
    · exact refines_absSame s _ s { ok := false } (by simp [step, hdc, rejected]) rfl rfl
        (fun hh => by cases hh) (fun hh => by cases hh) (fun n hn => by cases hn)
        (fun r hr => by cases hr)
    · refine refines_ofRes2 s d c (writeMbuf (s d) (s c) len ora) _ (by simp [step, hdc])
        _ _ (fun _ => Iff.rfl) (fun _ => rfl) ?_ ?_ ?_
      · intro hok
        obtain ⟨r1, r2⟩ := ref_writeMbuf (G d) (G c) len ora hok
        refine ⟨r1, r2, ?_, fun n hn => by cases hn⟩
        unfold writeMbuf; dsimp only
        split
        · rfl
        · split <;> rfl
      · intro hf
        obtain ⟨u1, u2⟩ := unch_writeMbuf _ _ _ _ hf
        refine ⟨u1, u2, ?_⟩
        unfold writeMbuf; dsimp only
        split
        · rfl
        · split <;> rfl
      · intro r hr; cases hr
  | cut i ofs len =>
    refine refines_ofRes s i _ _ rfl _ (fun _ => Iff.rfl) (fun _ => rfl) ?_ ?_ ?_
    · intro hok
      refine ⟨ref_cut (G i) ofs len hok, ?_, fun n hn => by cases hn⟩
      unfold cut
      split
      · rfl
      · split
        · rfl
        · split <;> rfl
    · intro hf
      refine ⟨unch_cut _ _ _ hf, ?_⟩
      unfold cut
      split
      · rfl
      · split
        · rfl
        · split <;> rfl
    · intro r hr
      simp only [specRet, Option.some.injEq] at hr
      rw [← hr]
      have := cut_ok_iff (s i) ofs len
      show (cut (s i) ofs len).ok = !(abs (s i)).ro
      cases hro : (abs (s i)).ro
      · exact this.mpr hro
      · cases hc : (cut (s i) ofs len).ok
        · rfl
        · rw [this.mp hc] at hro; cases hro
  | copy c d => exact refines_void s d _ _ rfl rfl rfl rfl rfl
  | slice c len d =>
    by_cases hcd : c = d
    · subst hcd
      refine refines_ofRes s c (sliceSelf (s c) len) _ (by simp [step])
        (⟨(((absS s) c).get len.toNat).2, len.toNat, true⟩ : Vec) (fun _ => Iff.rfl) ?_ ?_ ?_ ?_
      · intro _; simp only [specStep, ↓reduceIte]
      · intro hok
        obtain ⟨r1, r2, r3⟩ := ref_sliceSelf (G c) len hok
        refine ⟨r1, r2, ?_⟩
        intro n hn
        simp only [specVal, Option.some.injEq] at hn
        rw [← hn, r3]; rfl
      · intro hf
        refine ⟨unch_sliceSelf _ _ hf, ?_⟩
        unfold sliceSelf at hf ⊢; split <;> simp_all [fail]
      · intro r hr
        simp only [specRet, Option.some.injEq] at hr
        rw [← hr]; exact bool_eq_decide (sliceSelf_ok_iff (G c) len)
    · refine refines_ofRes2 s d c (sliceOp (s c) len (s d)) _ (by simp [step, hcd])
        (Vec.view (((absS s) c).get len.toNat).2) (((absS s) c).get len.toNat).1
        (fun _ => Iff.rfl) ?_ ?_ ?_ ?_
      · intro _; simp only [specStep, hcd, ↓reduceIte]
      · intro hok
        obtain ⟨r1, r2, r3⟩ := ref_sliceOp (d := s d) (G c) len hok
        refine ⟨r1, r2, r3, ?_⟩
        intro n hn
        simp only [specVal, Option.some.injEq] at hn
        rw [← hn]
        unfold sliceOp at hok ⊢
        split
        · rename_i hh; rw [if_pos hh] at hok; cases hok
        · rfl
      · intro hf
        obtain ⟨u1, u2⟩ := unch_sliceOp _ _ _ hf
        refine ⟨u1, u2, ?_⟩
        unfold sliceOp at hf ⊢
        split
        · rfl
        · rename_i hh; rw [if_neg hh] at hf; cases hf
      · intro r hr
        simp only [specRet, Option.some.injEq] at hr
        rw [← hr]; exact bool_eq_decide (slice_ok_iff (G c) len)

end UsualProofs.C12
