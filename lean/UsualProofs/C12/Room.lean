import UsualProofs.C12.Basic
/-! `mbuf_make_room` and the common prologue `ensure` of the write functions. -/
namespace UsualProofs.C12
open Usual.C12

/-- the buffer after a successful growth to `na` bytes -/
def grown (b : Buf) (na : UInt32) : Buf :=
  { b with data := b.data ++ List.replicate (na.toNat - b.data.length) 0xDD,
           allocLen := na, isNull := false }

/-- all outcomes of `mbuf_make_room` -/
theorem makeRoom_cases {b : Buf} (g : Good b) (len : UInt32) (ora : UInt32 → Bool) :
    ((makeRoom b len ora).1 = false ∧ (makeRoom b len ora).2 = b) ∨
    ((makeRoom b len ora).1 = true ∧ (makeRoom b len ora).2 = b ∧ b.reader = false ∧ b.fixed = false ∧
      b.writePos.toNat + len.toNat ≤ b.allocLen.toNat) ∨
    (∃ na : UInt32, (makeRoom b len ora).1 = true ∧ (makeRoom b len ora).2 = grown b na ∧
      b.reader = false ∧ b.fixed = false ∧ ora na = true ∧
      b.writePos.toNat + len.toNat ≤ na.toNat ∧ b.allocLen.toNat ≤ na.toNat) := by
  have hc := cur_lt b
  have hl := len.toNat_lt
  have haw := availWrite_toNat g
  unfold makeRoom
  by_cases h1 : b.reader = true ∨ b.fixed = true
  · rw [if_pos h1]; exact Or.inl ⟨rfl, rfl⟩
  · rw [if_neg h1]
    have hr : b.reader = false := by cases h : b.reader <;> simp_all
    have hf : b.fixed = false := by cases h : b.fixed <;> simp_all
    rw [hr] at haw
    simp only [Bool.false_eq_true, ↓reduceIte] at haw
    by_cases h2 : len ≤ availWrite b
    · rw [if_pos h2]
      rw [UInt32.le_iff_toNat_le, haw] at h2
      have := g.wa
      exact Or.inr (Or.inl ⟨rfl, rfl, hr, hf, by omega⟩)
    · rw [if_neg h2]
      by_cases h3 : len > 0xFFFFFFFF - b.writePos
      · rw [if_pos h3]; exact Or.inl ⟨rfl, rfl⟩
      · rw [if_neg h3]
        have h3' : len.toNat + b.writePos.toNat ≤ 4294967295 := by
          have := UInt32.not_lt.mp h3
          rw [UInt32.le_iff_toNat_le, UInt32.toNat_sub] at this
          simp at this; omega
        have hsum : (b.writePos + len).toNat = b.writePos.toNat + len.toNat := by
          rw [UInt32.toNat_add]; omega
        have hst0 : (startAlloc b).toNat ≠ 0 ∧ b.allocLen.toNat ≤ (startAlloc b).toNat := by
          unfold startAlloc
          by_cases hz : b.allocLen = 0
          · rw [if_pos hz, hz]; decide
          · rw [if_neg hz]
            exact ⟨fun h => hz (UInt32.toNat_inj.mp (by rw [h]; rfl)), Nat.le_refl _⟩
        cases hg : grow 33 (startAlloc b) (b.writePos + len) with
        | none => exact Or.inl ⟨rfl, rfl⟩
        | some na =>
          simp only
          have hs := grow_spec 33 (startAlloc b) (b.writePos + len) na hst0.1 (by omega) hg
          cases ho : ora na
          · exact Or.inl ⟨by simp, by simp⟩
          · refine Or.inr (Or.inr ⟨na, by simp, by simp [grown], hr, hf, ho, ?_, ?_⟩)
            · omega
            · omega

theorem good_grown {b : Buf} (g : Good b) (na : UInt32) (hr : b.reader = false)
    (h : b.allocLen.toNat ≤ na.toNat) : Good (grown b na) := by
  obtain ⟨g1, g2, g3, g4, g5⟩ := g
  refine ⟨g1, ?_, ?_, ?_, ?_⟩
  · show b.writePos.toNat ≤ na.toNat; omega
  · show (b.data ++ List.replicate (na.toNat - b.data.length) 0xDD).length = na.toNat
    simp only [List.length_append, List.length_replicate]; omega
  · intro h'; change b.reader = true at h'; rw [hr] at h'; cases h'
  · intro h'; cases h'

theorem contents_grown {b : Buf} (g : Good b) (na : UInt32) :
    contents (grown b na) = contents b := by
  have := g.wa; have := g.dl
  simp only [contents, grown]
  rw [List.take_append_of_le_length (by omega)]

theorem makeRoom_good {b : Buf} (g : Good b) (len : UInt32) (ora : UInt32 → Bool) :
    Good (makeRoom b len ora).2 := by
  rcases makeRoom_cases g len ora with ⟨_, h⟩ | ⟨_, h, _⟩ | ⟨na, _, h, hr, _, _, _, h2⟩
  · rw [h]; exact g
  · rw [h]; exact g
  · rw [h]; exact good_grown g na hr h2

/-- summary of a successful `ensure`: same cursors and flags, enough room, same contents -/
structure Ensured (b b1 : Buf) (len : UInt32) : Prop where
  good : Good b1
  rp : b1.readPos = b.readPos
  wp : b1.writePos = b.writePos
  rdr : b1.reader = b.reader
  fx : b1.fixed = b.fixed
  room : b.writePos.toNat + len.toNat ≤ b1.allocLen.toNat
  nowr : b.reader = true → len.toNat = 0
  same : b.reader = true ∨ b.fixed = true → b1 = b
  cont : contents b1 = contents b
  al : b.allocLen.toNat ≤ b1.allocLen.toNat
  pre : b1.data.take b.data.length = b.data

theorem ensure_some {b b1 : Buf} (g : Good b) {len : UInt32} {ora : UInt32 → Bool}
    (h : ensure b len ora = some b1) : Ensured b b1 len := by
  have hc := cur_lt b
  have haw := availWrite_toNat g
  have hwa := g.wa
  unfold ensure at h
  by_cases h1 : len > availWrite b
  · rw [if_pos h1] at h
    rcases makeRoom_cases g len ora with ⟨hf, _⟩ | ⟨ht, he, hr, hfx, hroom⟩ | ⟨na, ht, he, hr, hfx, _, hroom, hal⟩
    · rw [hf] at h; simp at h
    · rw [ht, he] at h; simp only [↓reduceIte, Option.some.injEq] at h; subst h
      exact ⟨g, rfl, rfl, rfl, rfl, hroom, by simp [hr], fun _ => rfl, rfl, Nat.le_refl _, by simp⟩
    · rw [ht, he] at h; simp only [↓reduceIte, Option.some.injEq] at h; subst h
      refine ⟨good_grown g na hr hal, rfl, rfl, rfl, rfl, hroom, by simp [hr], ?_, contents_grown g na, hal, ?_⟩
      · intro h'; rcases h' with h' | h'
        · rw [hr] at h'; cases h'
        · rw [hfx] at h'; cases h'
      · simp [grown]
  · rw [if_neg h1] at h
    simp only [Option.some.injEq] at h; subst h
    have h1' := UInt32.not_lt.mp h1
    rw [UInt32.le_iff_toNat_le, haw] at h1'
    refine ⟨g, rfl, rfl, rfl, rfl, ?_, ?_, fun _ => rfl, rfl, Nat.le_refl _, by simp⟩
    · cases hr : b.reader
      · rw [hr] at h1'; simp at h1'; omega
      · rw [hr] at h1'; simp at h1'; have := (g.rd hr).2; omega
    · intro hr; rw [hr] at h1'; simpa using h1'

/-- a failed `ensure` is only possible when the room is really missing or realloc refused,
and `ensure` itself never changes the buffer it was given (it returns a new one) -/
theorem ensure_none_fixed {b : Buf} (g : Good b) {len : UInt32} {ora : UInt32 → Bool}
    (hf : b.fixed = true) : ensure b len ora = none ↔
      (if b.reader = true then 0 else b.allocLen.toNat - b.writePos.toNat) < len.toNat := by
  have haw := availWrite_toNat g
  unfold ensure
  by_cases h1 : len > availWrite b
  · rw [if_pos h1]
    have : (makeRoom b len ora).1 = false := by simp [makeRoom, hf]
    rw [this]
    have h1' : (availWrite b).toNat < len.toNat := UInt32.lt_iff_toNat_lt.mp h1
    rw [haw] at h1'
    simp [h1']
  · rw [if_neg h1]
    have h1' := UInt32.not_lt.mp h1
    rw [UInt32.le_iff_toNat_le, haw] at h1'
    simp only [reduceCtorEq, false_iff, Nat.not_lt]; exact h1'

end UsualProofs.C12
