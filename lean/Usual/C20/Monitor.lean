import Usual.C20.Trace
/-! C20 — property monitors on an event trace, INDEPENDENT of the model.

    `feed` (Trace.lean) asks "is this trace an execution of the model?"; a trace the model cannot
    follow only breaks the tie.  The monitors here check what the property itself pins, on the
    observations alone:
      * every request of every batch is resolved exactly once, with the arguments it was submitted
        with, and ends with getaddrinfo's answer (status and ar_result);
      * no getaddrinfo call for something that is not a submitted request (uninitialised slot);
      * gai_error never goes backwards (stale < EAI_INPROGRESS < final), is never stale after a
        GAI_NOWAIT submission returned, is final only after the resolution, and is no longer
        EAI_INPROGRESS once the resolving thread has provably stored the result;
      * a GAI_NOWAIT batch gets exactly the notification it asked for, exactly once, after all its
        results, and whoever is notified (callback, signal handler) sees all of them;
      * getaddrinfo_a leaves the calling thread's signal mask as it found it (frame condition);
      * the queue lock never has two holders (lock/unlock/cond_wait events in log order);
      * crash, hang, foreign callbacks are failures (decided by the driver before it gets here).
    A monitor failure is a concrete violation; model-only rejections are reported as `int`. -/
namespace Usual.C20

structure MB where
  bid : Nat
  n : Nat
  mode : Mode
  sev : Sev
  hosts : List Nat
  returned : Bool := false
  notifs : Nat := 0
  recvs : Nat := 0

structure MI where
  b : Nat
  k : Nat
  calls : Nat := 0
  rets : Nat := 0
  stored : Bool := false      -- the resolving thread logged a later event: the store is done
  last : Char := 'N'
  finals : Nat := 0

structure Mon where
  bs : List MB := []
  items : List MI := []
  lastRet : List (Who × Nat × Nat) := []
  qholder : Option Who := none

abbrev MR := Except String Mon

def Mon.getB (m : Mon) (b : Nat) : Option MB := m.bs.find? (fun x => x.bid == b)
def Mon.setB (m : Mon) (nb : MB) : Mon := { m with bs := m.bs.map (fun x => if x.bid == nb.bid then nb else x) }
def Mon.getI (m : Mon) (b k : Nat) : Option MI := m.items.find? (fun x => x.b == b && x.k == k)
def Mon.setI (m : Mon) (ni : MI) : Mon :=
  { m with items := m.items.map (fun x => if x.b == ni.b && x.k == ni.k then ni else x) }

def chRank (c : Char) : Nat := if c == 'N' then 0 else if c == 'P' then 1 else 2

/-- the thread `x` logged an event: a result it obtained before is stored by now -/
def settle (m : Mon) (x : Who) : Mon :=
  match m.lastRet.find? (fun p => p.1 == x) with
  | none => m
  | some (_, b, k) =>
    let m := { m with lastRet := m.lastRet.filter (fun p => p.1 != x) }
    match m.getI b k with
    | some it => m.setI { it with stored := true }
    | none => m

def snapItems (m : Mon) (bt : MB) (afterRet : Bool) : Nat → List Char → MR
  | _, [] => .ok m
  | k, c :: rest =>
    if c == '?' then snapItems m bt afterRet (k + 1) rest else
    match m.getI bt.bid k with
    | none => .error s!"snapshot of an unknown item {bt.bid}.{k}"
    | some it =>
      if c == 'U' then
        -- EAI_INPROGRESS on an item the caller handed in with that very value in the internal field
        if it.stored then .error s!"item {bt.bid}.{k} shows EAI_INPROGRESS although its result was already stored"
        else if it.last == 'D' then .error s!"gai_error of item {bt.bid}.{k} went back from 'D' to EAI_INPROGRESS"
        else if afterRet && bt.mode == .wait then .error s!"item {bt.bid}.{k} is not final after getaddrinfo_a(GAI_WAIT) returned"
        else snapItems m bt afterRet (k + 1) rest
      else if c == 'X' then .error s!"gai_error of item {bt.bid}.{k} is neither EAI_INPROGRESS nor getaddrinfo's answer"
      else if chRank c < chRank it.last then
        .error s!"gai_error of item {bt.bid}.{k} went back from '{it.last}' to '{c}'"
      else if c == 'D' && it.rets == 0 then .error s!"item {bt.bid}.{k} shows a final status before it was resolved"
      else if c == 'P' && it.stored then
        .error s!"item {bt.bid}.{k} shows EAI_INPROGRESS although its result was already stored"
      else if c == 'N' && afterRet && bt.mode == .nowait then
        .error s!"item {bt.bid}.{k} is stale (not EAI_INPROGRESS, not final) after getaddrinfo_a(GAI_NOWAIT) returned"
      else if c != 'D' && afterRet && bt.mode == .wait then
        .error s!"item {bt.bid}.{k} is not final after getaddrinfo_a(GAI_WAIT) returned"
      else snapItems (m.setI { it with last := c }) bt afterRet (k + 1) rest

def snapMon (m : Mon) (b : Nat) (snap : List Char) (afterRet : Bool) : MR :=
  match m.getB b with
  | none => .error s!"snapshot of an unknown batch {b}"
  | some bt =>
    if snap == ['?'] then .ok m
    else if snap.length ≠ bt.n then .error s!"snapshot of batch {b} has wrong length"
    else snapItems m bt afterRet 0 snap

def allD (snap : List Char) : Bool := snap.all (· == 'D')

/-- a notification for batch `b` of kind `sev` is being delivered -/
def notifMon (m : Mon) (b : Nat) (sev : Sev) : MR :=
  match m.getB b with
  | none => .error s!"a notification is delivered that no submitted batch asked for ({b})"
  | some bt =>
    if bt.sev ≠ sev then .error s!"batch {b} gets a notification of a kind it did not ask for"
    else if bt.notifs ≠ 0 then .error s!"second notification for batch {b}"
    else if !((List.range bt.n).all fun k => match m.getI b k with | some it => it.rets == 1 | none => false) then
      .error s!"batch {b} is notified before all its results"
    else .ok (m.setB { bt with notifs := 1 })

def finBatch (m : Mon) (needSig : Bool) (bt : MB) : Option String :=
  if !bt.returned then some s!"getaddrinfo_a for batch {bt.bid} never returned"
  else if !((List.range bt.n).all fun k => match m.getI bt.bid k with
      | some it => it.calls == 1 && it.rets == 1 | none => false) then
    some s!"an item of batch {bt.bid} was not resolved exactly once"
  else if !((List.range bt.n).all fun k => match m.getI bt.bid k with
      | some it => it.finals == 1 | none => false) then
    some s!"an item of batch {bt.bid} was never read back as final"
  else if bt.mode == .nowait && bt.sev != .none && bt.notifs != 1 then
    some s!"batch {bt.bid} was never notified"
  else if bt.sev == .none && bt.notifs != 0 then some s!"batch {bt.bid} (SIGEV_NONE) was notified"
  else if needSig && bt.mode == .nowait && bt.sev == .signal && bt.recvs != 1 then
    some s!"the signal for batch {bt.bid} was never received"
  else none

def monStep (ga : Nat → Int) (m : Mon) : Ev → MR
  | .begin i b n mode sev hosts =>
    let m := settle m (.s i)
    if (m.getB b).isSome then .error s!"batch id {b} used twice"
    else if hosts.length ≠ n then .error "begin: host list length"
    else .ok { m with bs := { bid := b, n := n, mode := mode, sev := sev, hosts := hosts } :: m.bs
                      items := (List.range n).map (fun k => { b := b, k := k }) ++ m.items }
  | .lockI i _ => .ok (settle m (.s i))
  | .unlockI i => .ok (settle m (.s i))
  | .create i => .ok (settle m (.s i))
  | .malloc i => .ok (settle m (.s i))
  | .signal i => .ok (settle m (.s i))
  | .lockQ x _ =>
    let m := settle m x
    match m.qholder with
    | none => .ok { m with qholder := some x }
    | some _ => .error "the queue lock is taken while another thread holds it"
  | .unlockQ x _ =>
    let m := settle m x
    if m.qholder = some x then .ok { m with qholder := none }
    else .error "the queue lock is released by a thread that does not hold it"
  | .cwait =>
    let m := settle m .w
    if m.qholder = some .w then .ok { m with qholder := none }
    else .error "cond_wait without holding the queue lock"
  | .cwret =>
    match m.qholder with
    | none => .ok { m with qholder := some .w }
    | some _ => .error "cond_wait returned while another thread holds the queue lock"
  | .ret i b rc snap =>
    let m := settle m (.s i)
    match m.getB b with
    | none => .error s!"return for an unknown batch {b}"
    | some bt =>
      if rc ≠ 0 then .error s!"getaddrinfo_a returned {rc}"
      else snapMon (m.setB { bt with returned := true }) b snap true
  | .gacall x b k h _ =>
    let m := settle m x
    match m.getB b, m.getI b k with
    | some bt, some it =>
      if bt.hosts.getD k 0 ≠ h then .error s!"item {b}.{k} is resolved with other arguments than submitted"
      else if it.calls ≠ 0 then .error s!"item {b}.{k} is resolved twice"
      else .ok (m.setI { it with calls := 1 })
    | _, _ => .error s!"getaddrinfo is called for {b}.{k}, which is not a submitted request"
  | .garet x b k rc =>
    match m.getB b, m.getI b k with
    | some bt, some it =>
      if rc ≠ ga (bt.hosts.getD k 0) then .error s!"getaddrinfo for item {b}.{k} returned {rc}, the oracle differs"
      else .ok { (m.setI { it with rets := it.rets + 1 }) with lastRet := (x, b, k) :: m.lastRet.filter (fun p => p.1 != x) }
    | _, _ => .error s!"getaddrinfo returned for an unknown item {b}.{k}"
  | .notify x b snap => do
    let m := settle m x
    let m ← notifMon m b .thread
    if !allD snap then .error s!"the callback of batch {b} does not see all results as final"
    else snapMon m b snap false
  | .kill x target _ bid => do
    let m := settle m x
    if bid / bidMul ≠ target then .error s!"a signal is sent to thread {target} that no batch of that thread asked for"
    else notifMon m bid .signal
  | .sigrecv i b snap =>
    match m.getB b with
    | none => .error s!"signal received for an unknown batch {b}"
    | some bt =>
      if bt.notifs ≠ 1 then .error s!"signal for batch {b} received although none was sent for it"
      else if bt.recvs ≠ 0 then .error s!"signal for batch {b} received twice"
      else if b / bidMul ≠ i then .error s!"signal for batch {b} delivered to another thread than the submitter"
      else if !allD snap then .error s!"the signal handler of batch {b} does not see all results as final"
      else snapMon (m.setB { bt with recvs := 1 }) b snap false
  | .free => .ok (settle m .w)
  | .poll i b snap => snapMon (settle m (.s i)) b snap true
  | .final i b k rc same =>
    let m := settle m (.s i)
    match m.getB b, m.getI b k with
    | some bt, some it =>
      if rc ≠ ga (bt.hosts.getD k 0) then .error s!"item {b}.{k}: final gai_error {rc} is not getaddrinfo's answer"
      else if same ≠ 1 then .error s!"item {b}.{k}: ar_result is not getaddrinfo's answer"
      else if it.finals ≠ 0 then .error "final read twice"
      else .ok (m.setI { it with finals := 1, last := 'D' })
    | _, _ => .error s!"final read of an unknown item {b}.{k}"
  | .mask x b same =>
    let m := settle m x
    if same ≠ 1 then .error s!"getaddrinfo_a for batch {b} changed the calling thread's signal mask"
    else .ok m
  | .fin needSig =>
    match m.bs.filterMap (finBatch m needSig) with
    | [] => .ok m
    | msg :: _ => .error msg

def monAll (ga : Nat → Int) : Mon → Nat → List Ev → Except (Nat × String) Mon
  | m, _, [] => .ok m
  | m, n, e :: rest =>
    match monStep ga m e with
    | .ok m' => monAll ga m' (n + 1) rest
    | .error msg => .error (n, msg)

/-- all property monitors hold on the trace -/
def monitorsHold (ga : Nat → Int) (evs : List Ev) : Bool :=
  match monAll ga {} 0 evs with
  | .ok _ => true
  | .error _ => false

end Usual.C20
