import Usual.C20.Exec
/-! C20 — trace validation.  `feed` consumes the events logged by harness/C20/h.c (the real
    netdb.c under a perturbed schedule) and maps each of them to the model action(s) it stands for;
    an event whose action is not enabled in the model, or whose observed `gai_error` snapshot
    differs from the model's status, rejects the trace.

    The model state is only ever advanced through `Walk.step`, which carries the proof that the
    state is the result of `run` on the recorded schedule — so every state the validator inspects is
    reachable (`Walk.reach` in UsualProofs/C20/Trace.lean) and all property theorems apply to it. -/
namespace Usual.C20

theorem run_append (cfg : Cfg) (ga : Nat → Int) (s s' : S) (l : List (Tid × Act)) (t : Tid) (a : Act)
    (h : run cfg ga s l = some s') : run cfg ga s (l ++ [(t, a)]) = stepFn cfg ga s' t a := by
  induction l generalizing s with
  | nil => simp [run] at h; subst h; simp [run]; cases stepFn cfg ga s t a <;> rfl
  | cons x rest ih =>
    obtain ⟨t', a'⟩ := x
    simp only [run, List.cons_append] at h ⊢
    cases hs : stepFn cfg ga s t' a' with
    | none => simp [hs] at h
    | some s1 => simp only [hs] at h ⊢; exact ih s1 h

/-- a walk of the repaired model from `init`: the schedule taken and the state it leads to -/
structure Walk (ga : Nat → Int) where
  sched : List (Tid × Act)
  s : S
  ok : run Cfg.fixed ga init sched = some s

def Walk.start (ga : Nat → Int) : Walk ga := ⟨[], init, rfl⟩

def Walk.step {ga : Nat → Int} (w : Walk ga) (t : Tid) (a : Act) : Option (Walk ga) :=
  match h : stepFn Cfg.fixed ga w.s t a with
  | some s' => some ⟨w.sched ++ [(t, a)], s', by rw [run_append _ _ _ _ _ _ _ w.ok]; exact h⟩
  | none => none

/-- batch id = thread * bidMul + sequence number (harness convention) -/
def bidMul : Nat := 1000

/-! ### events -/

inductive Who | w | s (i : Nat)
deriving DecidableEq, Repr

def Who.tid : Who → Tid
  | .w => .worker
  | .s i => .sub i

inductive Ev
  | begin (i b n : Nat) (mode : Mode) (sev : Sev) (hosts : List Nat)
  | lockI (i : Nat) (snap : List Char)
  | lockQ (x : Who) (snap : List Char)
  | unlockI (i : Nat)
  | unlockQ (x : Who) (hint : Option Nat)   -- resolver: the request its next getaddrinfo belongs to
  | create (i : Nat)
  | malloc (i : Nat)
  | signal (i : Nat)
  | ret (i b : Nat) (rc : Int) (snap : List Char)
  | gacall (x : Who) (b k h : Nat) (argsok : Nat)   -- argsok: called with exactly the request's name/service/hints
  | garet (x : Who) (b k : Nat) (rc : Int)
  | notify (x : Who) (b : Nat) (snap : List Char)
  | kill (x : Who) (target slot bid : Nat)   -- bid: the batch that (thread, signal number) stands for
  | sigrecv (i b : Nat) (snap : List Char)
  | free
  | cwait
  | cwret
  | poll (i b : Nat) (snap : List Char)
  | final (i b k : Nat) (rc : Int) (same : Nat)
  | mask (x : Who) (b same : Nat)   -- the caller's signal mask before/after getaddrinfo_a: a frame condition
  | fin (needSig : Bool)

structure V (ga : Nat → Int) where
  m : Walk ga
  pend : List (Who × Nat × Nat) := []      -- getaddrinfo returned, the store may not be done yet
  begun : List Nat := []
  sigrecvd : List Nat := []
  finals : List (Nat × Nat) := []
  notifEv : List Nat := []                 -- batches with an observed callback / pthread_kill
  spurious : Nat := 0

abbrev R (ga : Nat → Int) := Except String (V ga)

def act {ga : Nat → Int} (v : V ga) (t : Tid) (a : Act) (what : String) : R ga :=
  match v.m.step t a with
  | some m' => .ok { v with m := m' }
  | none => .error s!"model cannot take step '{what}' here"

def stChar : ISt → Char
  | .notSub => 'N'
  | .inProg => 'P'
  | .done => 'D'

def pendOf {ga : Nat → Int} (v : V ga) (x : Who) : Option (Nat × Nat) :=
  match v.pend.find? (fun p => p.1 == x) with
  | some p => some p.2
  | none => none

/-- fire the resolution step whose getaddrinfo has returned for thread `x` -/
def flush {ga : Nat → Int} (v : V ga) (x : Who) : R ga :=
  match pendOf v x with
  | none => .ok v
  | some _ =>
    match x with
    | .w => do
      let v ← act v .worker .wkResolve "store result of the resolver's getaddrinfo"
      .ok { v with pend := v.pend.filter (fun p => p.1 != x) }
    | .s i => do
      let v ← act v (.sub i) .wResolve "store result of inline getaddrinfo"
      .ok { v with pend := v.pend.filter (fun p => p.1 != x) }

/-- who has item (b,k) pending -/
def pendingBy {ga : Nat → Int} (v : V ga) (b k : Nat) : Option Who :=
  match v.pend.find? (fun p => p.2.1 == b && p.2.2 == k) with
  | some p => some p.1
  | none => none

/-- compare an observed snapshot of batch `b` with the model, item by item (from item `k`).
    An item whose getaddrinfo has returned but whose store is not yet known to have happened
    may show its old or its final status; seeing the final status fixes the store as done. -/
def checkSnap {ga : Nat → Int} (b : Nat) : Nat → List Char → V ga → R ga
  | _, [], v => .ok v
  | k, c :: rest, v =>
    let m := stChar (v.m.s.status b k)
    -- 'U': EAI_INPROGRESS observed on an item whose caller-supplied initial value already was
    -- EAI_INPROGRESS: stale or in progress, but not final
    if c == m || (c == 'U' && m != 'D') then checkSnap b (k + 1) rest v
    else match pendingBy v b k with
      | some x =>
        if c == 'D' then do
          let v ← flush v x
          checkSnap b (k + 1) rest v
        else .error s!"item {b}.{k} shows '{c}', model has '{m}' (store pending)"
      | none => .error s!"item {b}.{k} shows gai_error '{c}', model has '{m}'"

def snapOk {ga : Nat → Int} (v : V ga) (b : Nat) (snap : List Char) : R ga :=
  if snap.length ≠ v.m.s.nOf b then .error s!"snapshot of batch {b} has wrong length"
  else checkSnap b 0 snap v

/-- repeat the marking steps of submitter `i` (fuel = number of items) -/
def marks {ga : Nat → Int} : Nat → Nat → V ga → R ga
  | 0, _, v => .ok v
  | fuel + 1, i, v =>
    match v.m.s.spc i with
    | .mark b k =>
      if k < v.m.s.nOf b then do
        let v ← act v (.sub i) .mark "mark EAI_INPROGRESS"
        marks fuel i v
      else .ok v
    | _ => .ok v

def isWaitPc : SPc → Bool
  | .wResolve _ _ => true
  | .wNotify _ => true
  | _ => false

/-- bring the notifying thread to its notification step for batch `b` and take it -/
def doNotify {ga : Nat → Int} (v : V ga) (x : Who) (b : Nat) (sev : Sev) : R ga := do
  let v ← flush v x
  if v.notifEv.contains b then .error s!"second notification for batch {b}" else
  match x with
  | .w =>
    let v ← act v .worker .wkAll "all items resolved (notification before the last result?)"
    if v.m.s.wpc ≠ .notify b then .error s!"notification for batch {b} but the resolver holds another"
    else if v.m.s.sevOf b ≠ sev then .error s!"notification kind differs from the request of batch {b}"
    else do
      let v ← act v .worker .wkNotify "notify"
      .ok { v with notifEv := b :: v.notifEv }
  | .s i =>
    let v ← act v (.sub i) .wAll "all items resolved inline"
    if v.m.s.spc i ≠ .wNotify b then .error s!"inline notification for batch {b} out of place"
    else if v.m.s.sevOf b ≠ sev then .error s!"notification kind differs from the request of batch {b}"
    else do
      let v ← act v (.sub i) .wNotify "notify inline"
      .ok { v with notifEv := b :: v.notifEv }

def feed {ga : Nat → Int} (v : V ga) : Ev → R ga
  | .begin i b n mode sev hosts =>
    if hosts.length ≠ n then .error "begin: host list length" else do
    let v ← act v (.sub i) (.begin b n sev mode (fun k => hosts.getD k 0)) "begin getaddrinfo_a"
    .ok { v with begun := b :: v.begun }
  | .lockI i snap => do
    let v ← act v (.sub i) .ctxAcquire "lock ctx_lock"
    match v.m.s.spc i with
    | .ctxHeld b => snapOk v b snap
    | _ => .error "lock ctx_lock: no batch"
  | .create i => do
    let v ← act v (.sub i) .ctxCheck "test ctx (context created outside ctx_lock?)"
    match v.m.s.spc i with
    | .ctxMake _ => act v (.sub i) .ctxMake "create context"
    | _ => .error "a second resolver context is created"
  | .malloc i =>
    match v.m.s.spc i with
    | .ctxHeld _ => .ok v            -- gaia_create_context's own malloc
    | .alloc _ => act v (.sub i) .alloc "malloc request"
    | .ctxLock _ => .error "context/request allocated outside ctx_lock (unsynchronised lazy initialisation)"
    | _ => .error "malloc at an unexpected place"
  | .unlockI i => do
    let v ← match v.m.s.spc i with
      | .ctxHeld _ => act v (.sub i) .ctxCheck "test ctx"
      | _ => .ok v
    match v.m.s.spc i with
    | .ctxRel _ => act v (.sub i) .ctxRelease "unlock ctx_lock"
    | _ => .error "unlock ctx_lock: context missing"
  | .lockQ (.s i) snap => do
    let v ← marks 64 i v
    let v ← act v (.sub i) .markDone "all items marked (request not allocated / ctx_lock skipped?)"
    let v ← act v (.sub i) .qAcquire "lock queue"
    match v.m.s.spc i with
    | .append b => snapOk v b snap
    | _ => .error "lock queue: no batch"
  | .lockQ .w _ => do
    let v ← flush v .w
    act v .worker .wkAcquire "resolver locks queue"
  | .unlockQ (.s i) _ => do
    let v ← act v (.sub i) .append "append request"
    act v (.sub i) .qRelease "unlock queue"
  | .unlockQ .w hint => do
    -- the code's list_pop is not observable; which request was taken shows in the resolver's
    -- next getaddrinfo (`hint`, filled in by `annotate`); the model allows any queued request
    let b := match hint with
      | some b => b
      | none => v.m.s.queue.headD 0
    let v ← act v .worker (.wkPop b) "pop request (not in the model's queue: lost or foreign request)"
    act v .worker .wkRelease "resolver unlocks queue"
  | .signal i => act v (.sub i) .signal "cond_signal"
  | .ret i b rc snap => do
    let v ← flush v (.s i)
    -- GAI_WAIT with SIGEV_NONE: the (empty) notification step has no event of its own
    let v ← match v.m.s.spc i with
      | .wResolve b' _ =>
        if v.m.s.sevOf b' = .none then do
          let v ← act v (.sub i) .wAll "all items resolved inline"
          act v (.sub i) .wNotify "notify inline (none)"
        else .error s!"getaddrinfo_a returned without the requested notification of batch {b'}"
      | _ => .ok v
    if v.m.s.spc i ≠ .idle then .error "getaddrinfo_a returned in the middle of a submission"
    else if rc ≠ 0 then .error s!"getaddrinfo_a returned {rc}"
    else snapOk v b snap
  | .gacall x b k h argsok => do
    let v ← flush v x
    let okpc := match x with
      | .w => v.m.s.wpc == .resolve b k
      | .s i => v.m.s.spc i == .wResolve b k
    if !okpc then .error s!"getaddrinfo for item {b}.{k} is not the next resolution (lost, duplicated or foreign request)"
    else if v.m.s.argOf b k ≠ h ∨ argsok ≠ 1 then .error s!"getaddrinfo for item {b}.{k} called with other arguments (name/service/hints) than the request's"
    else if k ≥ v.m.s.nOf b then .error s!"item index {k} beyond the batch"
    else .ok v
  | .garet x b k rc =>
    if (pendOf v x).isSome then .error "getaddrinfo returned twice"
    else if rc ≠ ga (v.m.s.argOf b k) then .error s!"getaddrinfo result {rc} differs from the oracle"
    else .ok { v with pend := (x, b, k) :: v.pend }
  | .notify x b snap => do
    let v ← doNotify v x b .thread
    let v ← snapOk v b snap
    .ok v
  | .kill x target _ _ => do
    let b := match x with
      | .w => (match v.m.s.wpc with | .resolve b _ => b | .free b => b | _ => 0)
      | .s i => (match v.m.s.spc i with | .wResolve b _ => b | _ => 0)
    let v ← doNotify v x b .signal
    if b / bidMul ≠ target then .error s!"signal for batch {b} sent to thread {target}" else .ok v
  | .sigrecv i b snap =>
    if v.m.s.notified b ≠ 1 then .error s!"signal for batch {b} received without a notification step"
    else if v.sigrecvd.contains b then .error s!"signal for batch {b} received twice"
    else if b / bidMul ≠ i then .error "signal handler ran on a foreign thread"
    else do
      let v ← snapOk v b snap
      .ok { v with sigrecvd := b :: v.sigrecvd }
  | .free => do
    let v ← flush v .w
    let v ← match v.m.s.wpc with
      | .resolve b _ =>
        if v.m.s.sevOf b = .none then do
          let v ← act v .worker .wkAll "all items resolved"
          act v .worker .wkNotify "notify (none)"
        else .error s!"request {b} freed without its notification"
      | _ => .ok v
    act v .worker .wkFree "free request"
  | .cwait => do
    let v ← flush v .w
    act v .worker .wkWait "cond_wait (queue not empty in the model: lost request)"
  | .cwret => do
    let v ← if v.m.s.wpc = .waiting then do
        let v ← act v .worker .wkSpurious "wake without signal"
        .ok { v with spurious := v.spurious + 1 }
      else .ok v
    act v .worker .wkReacquire "return from cond_wait"
  | .poll _ b snap => snapOk v b snap
  | .final _ b k rc same =>
    if v.m.s.status b k ≠ .done then .error s!"item {b}.{k} read as final but the model has it unfinished"
    else if v.m.s.loc b ≠ .finished ∧ v.m.s.notified b ≠ 1 ∧ v.m.s.sevOf b ≠ .none then
      .error s!"item {b}.{k} read before the notification"
    else if rc ≠ ga (v.m.s.argOf b k) then .error s!"item {b}.{k} final status {rc} is not getaddrinfo's"
    else if same ≠ 1 then .error s!"item {b}.{k}: ar_result differs from getaddrinfo's answer"
    else if v.finals.contains (b, k) then .error "final read twice"
    else .ok { v with finals := (b, k) :: v.finals }
  | .mask _ _ _ => .ok v     -- not part of the model (checked by the monitor)
  | .fin needSig => do
    let v ← flush v .w
    let s := v.m.s
    if !(v.begun.all fun b => s.spc (b / bidMul) == .idle) then .error "a submitter is still inside getaddrinfo_a"
    else if s.queue ≠ [] then .error "requests left in the queue"
    else if s.wpc.owns ≠ none then .error "resolver still holds a request at the end"
    else if !(v.begun.all fun b => s.loc b == .finished) then .error "a batch did not finish"
    else if !(v.begun.all fun b => s.notified b == 1) then .error "a batch without exactly one notification step"
    else if !(v.begun.all fun b => s.sevOf b == .none || v.notifEv.count b == 1) then
      .error "a batch without exactly one delivered notification"
    else if !(v.begun.all fun b => !needSig || s.sevOf b != .signal || v.sigrecvd.contains b) then
      .error "a signal notification was not received"
    else if !(v.begun.all fun b => (List.range (s.nOf b)).all fun k =>
        s.resolved b k == 1 && v.finals.contains (b, k)) then
      .error "an item was not resolved exactly once and read back"
    else .ok v

/-- the request the resolver works on next: its first getaddrinfo after the unlock -/
def nextWorkerBatch : List Ev → Option Nat
  | [] => none
  | .gacall .w b _ _ _ :: _ => some b
  | .unlockQ .w _ :: _ => none
  | _ :: rest => nextWorkerBatch rest

/-- fill in the hints of the resolver's unlock events by looking ahead in the trace -/
def annotate : List Ev → List Ev
  | [] => []
  | .unlockQ .w _ :: rest => .unlockQ .w (nextWorkerBatch rest) :: annotate rest
  | e :: rest => e :: annotate rest

/-- validate a whole trace; `none` = accepted -/
def feedAll {ga : Nat → Int} : V ga → Nat → List Ev → Except (Nat × String) (V ga)
  | v, _, [] => .ok v
  | v, n, e :: rest =>
    match feed v e with
    | .ok v' => feedAll v' (n + 1) rest
    | .error msg => .error (n, msg)

def accepts (ga : Nat → Int) (evs : List Ev) : Bool :=
  match feedAll (ga := ga) { m := Walk.start ga } 0 (annotate evs) with
  | .ok _ => true
  | .error _ => false

end Usual.C20
