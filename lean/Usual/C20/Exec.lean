import Usual.C20.Gaia
/-! C20 — executable form of the transition relation (used by the trace validator in the
    driver and to exhibit concrete reachable states).  `stepFn_sound` (UsualProofs/C20/Exec.lean)
    proves that every step it takes is a `Step`. -/
namespace Usual.C20

def stepFn (cfg : Cfg) (ga : Nat → Int) (s : S) : Tid → Act → Option S
  | .sub i, .begin b n sev mode args =>
    if s.spc i = .idle ∧ s.loc b = .unused ∧ 0 < n then
      some { s with spc := upd s.spc i (match mode with | .wait => .wResolve b 0 | .nowait => .ctxLock b)
                    loc := upd s.loc b (.sub i)
                    nOf := upd s.nOf b n
                    sevOf := upd s.sevOf b sev
                    argOf := fun x k => if x = b then args k else s.argOf x k }
    else none
  | .sub i, .ctxAcquire =>
    match s.spc i with
    | .ctxLock b =>
      if cfg.ctxLocked = true → s.ilock = none then
        some { s with spc := upd s.spc i (.ctxHeld b)
                      ilock := if cfg.ctxLocked then some (.sub i) else s.ilock }
      else none
    | _ => none
  | .sub i, .ctxCheck =>
    match s.spc i with
    | .ctxHeld b => some { s with spc := upd s.spc i (if s.ctx then .ctxRel b else .ctxMake b) }
    | _ => none
  | .sub i, .ctxMake =>
    match s.spc i with
    | .ctxMake b =>
      some { s with spc := upd s.spc i (.ctxRel b)
                    ctx := true
                    nctx := s.nctx + 1
                    wpc := if s.wpc = .notStarted then .lockQ else s.wpc }
    | _ => none
  | .sub i, .ctxRelease =>
    match s.spc i with
    | .ctxRel b =>
      some { s with spc := upd s.spc i (.alloc b)
                    ilock := if cfg.ctxLocked then none else s.ilock }
    | _ => none
  | .sub i, .alloc =>
    match s.spc i with
    | .alloc b =>
      some { s with spc := upd s.spc i (.mark b 0)
                    copiedOf := upd s.copiedOf b (cfg.copyLen (s.nOf b)) }
    | _ => none
  | .sub i, .mark =>
    match s.spc i with
    | .mark b k =>
      if k < s.nOf b then
        some { s with spc := upd s.spc i (.mark b (k + 1))
                      status := if cfg.marks then upd2 s.status b k .inProg else s.status }
      else none
    | _ => none
  | .sub i, .markDone =>
    match s.spc i with
    | .mark b k => if k = s.nOf b then some { s with spc := upd s.spc i (.lockQ b) } else none
    | _ => none
  | .sub i, .qAcquire =>
    match s.spc i with
    | .lockQ b =>
      if s.qlock = none then some { s with spc := upd s.spc i (.append b), qlock := some (.sub i) }
      else none
    | _ => none
  | .sub i, .append =>
    match s.spc i with
    | .append b =>
      some { s with spc := upd s.spc i .unlock
                    queue := s.queue ++ [b]
                    lastApp := i
                    loc := upd s.loc b .queued }
    | _ => none
  | .sub i, .qRelease =>
    match s.spc i with
    | .unlock => some { s with spc := upd s.spc i .signal, qlock := none }
    | _ => none
  | .sub i, .signal =>
    match s.spc i with
    | .signal =>
      some { s with spc := upd s.spc i .idle
                    wpc := if s.wpc = .waiting then .woken else s.wpc }
    | _ => none
  | .sub i, .wResolve =>
    match s.spc i with
    | .wResolve b k =>
      if k < s.nOf b then
        some { publish ga s (.sub i) b k with spc := upd s.spc i (.wResolve b (k + 1)) }
      else none
    | _ => none
  | .sub i, .wAll =>
    match s.spc i with
    | .wResolve b k => if k = s.nOf b then some { s with spc := upd s.spc i (.wNotify b) } else none
    | _ => none
  | .sub i, .wNotify =>
    match s.spc i with
    | .wNotify b =>
      some { notifyB s (.sub i) b with spc := upd s.spc i .idle, loc := upd s.loc b .finished }
    | _ => none
  | .worker, .wkAcquire =>
    if s.wpc = .lockQ ∧ s.qlock = none then some { s with wpc := .top, qlock := some .worker } else none
  | .worker, .wkPop b =>
    if s.wpc = .top ∧ b ∈ s.queue then
      some { s with wpc := .popped b, queue := s.queue.erase b, loc := upd s.loc b .worker }
    else none
  | .worker, .wkWait =>
    if s.wpc = .top ∧ s.queue = [] then some { s with wpc := .waiting, qlock := none } else none
  | .worker, .wkSpurious =>
    if s.wpc = .waiting then some { s with wpc := .woken } else none
  | .worker, .wkReacquire =>
    if s.wpc = .woken ∧ s.qlock = none then some { s with wpc := .top, qlock := some .worker } else none
  | .worker, .wkRelease =>
    match s.wpc with
    | .popped b => some { s with wpc := .resolve b 0, qlock := none }
    | _ => none
  | .worker, .wkResolve =>
    match s.wpc with
    | .resolve b k =>
      if k < s.nOf b then
        some { publish ga s .worker b k with
                 wpc := .resolve b (k + 1)
                 badRead := s.badRead || decide (s.copiedOf b ≤ k) }
      else none
    | _ => none
  | .worker, .wkAll =>
    match s.wpc with
    | .resolve b k => if k = s.nOf b then some { s with wpc := .notify b } else none
    | _ => none
  | .worker, .wkNotify =>
    match s.wpc with
    | .notify b => some { notifyB s .worker b with wpc := .free b }
    | _ => none
  | .worker, .wkFree =>
    match s.wpc with
    | .free b => some { s with wpc := .lockQ, loc := upd s.loc b .finished }
    | _ => none
  | _, _ => none

/-- run a schedule (list of thread/action pairs) from a state -/
def run (cfg : Cfg) (ga : Nat → Int) : S → List (Tid × Act) → Option S
  | s, [] => some s
  | s, (t, a) :: rest =>
    match stepFn cfg ga s t a with
    | some s' => run cfg ga s' rest
    | none => none

end Usual.C20
