/-! C20 — the compat `getaddrinfo_a` of usual/netdb.c (threaded path, built when libc has no
    getaddrinfo_a and HAVE_PTHREAD is set) as a small-step transition system.

    Threads: any number of submitters `sub i` (callers of getaddrinfo_a) and the one resolver
    thread `worker` (gaia_lookup_thread) that the first GAI_NOWAIT submitter creates.

    A batch (one getaddrinfo_a call; for GAI_NOWAIT one `struct GAIARequest`) is named by a
    number `b`; its items are `(b, k)`, `k < nOf b`.  The steps are the statements of the
    *repaired* netdb.c (fixes/F13-netdb-getaddrinfo-a.patch), one step per shared-memory or
    synchronisation effect:

      getaddrinfo_a(GAI_NOWAIT):  lock ctx_lock; if (!ctx) create; unlock ctx_lock;
        gaia_post_request: malloc + memcpy(nitems pointers); _state := EAI_INPROGRESS (each item);
                           lock; list_append; unlock; cond_signal
      getaddrinfo_a(GAI_WAIT):    gaia_lookup inline (resolve each item, then notify)
      gaia_lookup_thread:         lock; loop { pop | cond_wait }; unlock;
                                  gaia_lookup (resolve each item, then notify); free; lock

    `Cfg` switches the three statements the repair changes back to the pinned behaviour
    (`Cfg.orig`) so that the defects can be exhibited as reachable states of the same system.
    Ghost fields (never read by a guard): loc, resolved, notified, now/pubAt/pubBy/notAt/notBy,
    badRead, nctx, lastApp. -/
namespace Usual.C20

inductive Tid | worker | sub (i : Nat)
deriving DecidableEq, Repr

/-- `gai_error` of one request: stale (never submitted), EAI_INPROGRESS, final -/
inductive ISt | notSub | inProg | done
deriving DecidableEq, Repr

inductive Sev | none | signal | thread
deriving DecidableEq, Repr

inductive Mode | wait | nowait
deriving DecidableEq, Repr

/-- ghost: where a batch currently lives -/
inductive Loc | unused | sub (i : Nat) | queued | worker | finished
deriving DecidableEq, Repr

structure Cfg where
  copyAll : Bool      -- memcpy(nitems * sizeof ptr)   (orig: one pointer)
  marks : Bool        -- _state := EAI_INPROGRESS before enqueue (orig: never)
  ctxLocked : Bool    -- lazy context creation under ctx_lock (orig: unsynchronised)
deriving DecidableEq, Repr

def Cfg.fixed : Cfg := ⟨true, true, true⟩
def Cfg.orig : Cfg := ⟨false, false, false⟩
def Cfg.copyLen (c : Cfg) (n : Nat) : Nat := if c.copyAll then n else min n 1

/-- program counter of a submitter -/
inductive SPc
  | idle
  | ctxLock (b : Nat)        -- GAI_NOWAIT: before pthread_mutex_lock(&ctx_lock)
  | ctxHeld (b : Nat)        -- holds ctx_lock, before `if (!ctx)`
  | ctxMake (b : Nat)        -- saw ctx == NULL, before gaia_create_context
  | ctxRel (b : Nat)         -- before pthread_mutex_unlock(&ctx_lock)
  | alloc (b : Nat)          -- gaia_post_request: before malloc/memcpy
  | mark (b k : Nat)         -- before `list[k]->_state = EAI_INPROGRESS`
  | lockQ (b : Nat)          -- before gaia_lock_reqs
  | append (b : Nat)         -- holds the queue lock, before list_append
  | unlock                   -- appended, before gaia_unlock_reqs
  | signal                   -- before pthread_cond_signal
  | wResolve (b k : Nat)     -- GAI_WAIT: inline gaia_lookup, before item k
  | wNotify (b : Nat)        -- GAI_WAIT: before the notification
deriving DecidableEq, Repr

/-- program counter of the resolver thread -/
inductive WPc
  | notStarted
  | lockQ                    -- before gaia_lock_reqs
  | top                      -- holds the lock, at list_pop
  | waiting                  -- inside pthread_cond_wait (lock released)
  | woken                    -- signalled, re-acquiring the lock inside cond_wait
  | popped (b : Nat)         -- holds the lock and request b, before gaia_unlock_reqs
  | resolve (b k : Nat)      -- gaia_lookup, before item k
  | notify (b : Nat)         -- before the notification
  | free (b : Nat)           -- before free(rq)
deriving DecidableEq, Repr

def upd {α : Type} (f : Nat → α) (a : Nat) (v : α) : Nat → α := fun x => if x = a then v else f x
def upd2 {α : Type} (f : Nat → Nat → α) (a b : Nat) (v : α) : Nat → Nat → α :=
  fun x y => if x = a ∧ y = b then v else f x y

@[simp] theorem upd_apply {α : Type} (f : Nat → α) (a : Nat) (v : α) (x : Nat) :
    upd f a v x = if x = a then v else f x := rfl
@[simp] theorem upd2_apply {α : Type} (f : Nat → Nat → α) (a b : Nat) (v : α) (x y : Nat) :
    upd2 f a b v x y = if x = a ∧ y = b then v else f x y := rfl

structure S where
  spc : Nat → SPc
  wpc : WPc
  ctx : Bool                       -- `static ctx` is non-NULL
  ilock : Option Tid               -- ctx_lock
  qlock : Option Tid               -- ctx->lock
  queue : List Nat                 -- ctx->req_list
  nOf : Nat → Nat                  -- rq->nitems
  sevOf : Nat → Sev                -- rq->sev
  copiedOf : Nat → Nat             -- how many entries of rq->list[] were initialised
  argOf : Nat → Nat → Nat          -- (name, service, hints) of item (b,k), as an index
  status : Nat → Nat → ISt         -- gaicb._state
  result : Nat → Nat → Option Int  -- what was stored in ar_result/_state by a resolution
  -- ghost
  loc : Nat → Loc
  resolved : Nat → Nat → Nat       -- number of getaddrinfo calls made for the item
  notified : Nat → Nat             -- number of notification steps taken for the batch
  now : Nat                        -- logical clock, ticks at publish and notify steps
  pubAt : Nat → Nat → Nat
  pubBy : Nat → Nat → Tid
  notAt : Nat → Nat
  notBy : Nat → Tid
  badRead : Bool                   -- the resolver read an uninitialised rq->list[k]
  nctx : Nat                       -- number of contexts (resolver threads) ever created
  lastApp : Nat                    -- the submitter that appended most recently

def init : S where
  spc := fun _ => .idle
  wpc := .notStarted
  ctx := false
  ilock := none
  qlock := none
  queue := []
  nOf := fun _ => 0
  sevOf := fun _ => .none
  copiedOf := fun _ => 0
  argOf := fun _ _ => 0
  status := fun _ _ => .notSub
  result := fun _ _ => none
  loc := fun _ => .unused
  resolved := fun _ _ => 0
  notified := fun _ => 0
  now := 0
  pubAt := fun _ _ => 0
  pubBy := fun _ _ => .worker
  notAt := fun _ => 0
  notBy := fun _ => .worker
  badRead := false
  nctx := 0
  lastApp := 0

inductive Act
  | begin (b n : Nat) (sev : Sev) (mode : Mode) (args : Nat → Nat)
  | ctxAcquire | ctxCheck | ctxMake | ctxRelease | alloc | mark | markDone
  | qAcquire | append | qRelease | signal | wResolve | wAll | wNotify
  | wkAcquire | wkPop (b : Nat) | wkWait | wkSpurious | wkReacquire | wkRelease
  | wkResolve | wkAll | wkNotify | wkFree

/-- environment actions: a new call of getaddrinfo_a, a spurious wake-up.  Progress
    (no_deadlock) must not rely on them. -/
def Act.isEnv : Act → Bool
  | .begin .. => true
  | .wkSpurious => true
  | _ => false

/-- actions that read or write ctx->req_list -/
def Act.touchesQueue : Act → Bool
  | .append => true
  | .wkPop _ => true
  | .wkWait => true
  | _ => false

/-- one resolution: getaddrinfo for item (b,k), store ar_result and _state -/
def publish (ga : Nat → Int) (s : S) (who : Tid) (b k : Nat) : S :=
  { s with status := upd2 s.status b k .done
           result := upd2 s.result b k (some (ga (s.argOf b k)))
           resolved := upd2 s.resolved b k (s.resolved b k + 1)
           pubAt := upd2 s.pubAt b k s.now
           pubBy := upd2 s.pubBy b k who
           now := s.now + 1 }

/-- the notification step of a batch -/
def notifyB (s : S) (who : Tid) (b : Nat) : S :=
  { s with notified := upd s.notified b (s.notified b + 1)
           notAt := upd s.notAt b s.now
           notBy := upd s.notBy b who
           now := s.now + 1 }

/-- The transition relation: `Step cfg ga s t a s'` — thread `t` performs action `a`. -/
inductive Step (cfg : Cfg) (ga : Nat → Int) : S → Tid → Act → S → Prop
  | begin (s : S) (i b n : Nat) (sev : Sev) (mode : Mode) (args : Nat → Nat)
      (hpc : s.spc i = .idle) (hb : s.loc b = .unused) (hn : 0 < n) :
      Step cfg ga s (.sub i) (.begin b n sev mode args)
        { s with spc := upd s.spc i (match mode with | .wait => .wResolve b 0 | .nowait => .ctxLock b)
                 loc := upd s.loc b (.sub i)
                 nOf := upd s.nOf b n
                 sevOf := upd s.sevOf b sev
                 argOf := fun x k => if x = b then args k else s.argOf x k }
  | ctxAcquire (s : S) (i b : Nat) (hpc : s.spc i = .ctxLock b)
      (hl : cfg.ctxLocked = true → s.ilock = none) :
      Step cfg ga s (.sub i) .ctxAcquire
        { s with spc := upd s.spc i (.ctxHeld b)
                 ilock := if cfg.ctxLocked then some (.sub i) else s.ilock }
  | ctxCheck (s : S) (i b : Nat) (hpc : s.spc i = .ctxHeld b) :
      Step cfg ga s (.sub i) .ctxCheck
        { s with spc := upd s.spc i (if s.ctx then .ctxRel b else .ctxMake b) }
  | ctxMake (s : S) (i b : Nat) (hpc : s.spc i = .ctxMake b) :
      Step cfg ga s (.sub i) .ctxMake
        { s with spc := upd s.spc i (.ctxRel b)
                 ctx := true
                 nctx := s.nctx + 1
                 wpc := if s.wpc = .notStarted then .lockQ else s.wpc }
  | ctxRelease (s : S) (i b : Nat) (hpc : s.spc i = .ctxRel b) :
      Step cfg ga s (.sub i) .ctxRelease
        { s with spc := upd s.spc i (.alloc b)
                 ilock := if cfg.ctxLocked then none else s.ilock }
  | alloc (s : S) (i b : Nat) (hpc : s.spc i = .alloc b) :
      Step cfg ga s (.sub i) .alloc
        { s with spc := upd s.spc i (.mark b 0)
                 copiedOf := upd s.copiedOf b (cfg.copyLen (s.nOf b)) }
  | mark (s : S) (i b k : Nat) (hpc : s.spc i = .mark b k) (hk : k < s.nOf b) :
      Step cfg ga s (.sub i) .mark
        { s with spc := upd s.spc i (.mark b (k + 1))
                 status := if cfg.marks then upd2 s.status b k .inProg else s.status }
  | markDone (s : S) (i b k : Nat) (hpc : s.spc i = .mark b k) (hk : k = s.nOf b) :
      Step cfg ga s (.sub i) .markDone { s with spc := upd s.spc i (.lockQ b) }
  | qAcquire (s : S) (i b : Nat) (hpc : s.spc i = .lockQ b) (hl : s.qlock = none) :
      Step cfg ga s (.sub i) .qAcquire
        { s with spc := upd s.spc i (.append b), qlock := some (.sub i) }
  | append (s : S) (i b : Nat) (hpc : s.spc i = .append b) :
      Step cfg ga s (.sub i) .append
        { s with spc := upd s.spc i .unlock
                 queue := s.queue ++ [b]
                 lastApp := i
                 loc := upd s.loc b .queued }
  | qRelease (s : S) (i : Nat) (hpc : s.spc i = .unlock) :
      Step cfg ga s (.sub i) .qRelease { s with spc := upd s.spc i .signal, qlock := none }
  | signal (s : S) (i : Nat) (hpc : s.spc i = .signal) :
      Step cfg ga s (.sub i) .signal
        { s with spc := upd s.spc i .idle
                 wpc := if s.wpc = .waiting then .woken else s.wpc }
  | wResolve (s : S) (i b k : Nat) (hpc : s.spc i = .wResolve b k) (hk : k < s.nOf b) :
      Step cfg ga s (.sub i) .wResolve
        { publish ga s (.sub i) b k with spc := upd s.spc i (.wResolve b (k + 1)) }
  | wAll (s : S) (i b k : Nat) (hpc : s.spc i = .wResolve b k) (hk : k = s.nOf b) :
      Step cfg ga s (.sub i) .wAll { s with spc := upd s.spc i (.wNotify b) }
  | wNotify (s : S) (i b : Nat) (hpc : s.spc i = .wNotify b) :
      Step cfg ga s (.sub i) .wNotify
        { notifyB s (.sub i) b with spc := upd s.spc i .idle, loc := upd s.loc b .finished }
  | wkAcquire (s : S) (hpc : s.wpc = .lockQ) (hl : s.qlock = none) :
      Step cfg ga s .worker .wkAcquire { s with wpc := .top, qlock := some .worker }
  -- the code pops the head (FIFO); the property does not pin the order in which queued requests
  -- are served, so the model lets the resolver take ANY queued request
  | wkPop (s : S) (b : Nat) (hpc : s.wpc = .top) (hq : b ∈ s.queue) :
      Step cfg ga s .worker (.wkPop b)
        { s with wpc := .popped b, queue := s.queue.erase b, loc := upd s.loc b .worker }
  | wkWait (s : S) (hpc : s.wpc = .top) (hq : s.queue = []) :
      Step cfg ga s .worker .wkWait { s with wpc := .waiting, qlock := none }
  | wkSpurious (s : S) (hpc : s.wpc = .waiting) :
      Step cfg ga s .worker .wkSpurious { s with wpc := .woken }
  | wkReacquire (s : S) (hpc : s.wpc = .woken) (hl : s.qlock = none) :
      Step cfg ga s .worker .wkReacquire { s with wpc := .top, qlock := some .worker }
  | wkRelease (s : S) (b : Nat) (hpc : s.wpc = .popped b) :
      Step cfg ga s .worker .wkRelease { s with wpc := .resolve b 0, qlock := none }
  | wkResolve (s : S) (b k : Nat) (hpc : s.wpc = .resolve b k) (hk : k < s.nOf b) :
      Step cfg ga s .worker .wkResolve
        { publish ga s .worker b k with
            wpc := .resolve b (k + 1)
            badRead := s.badRead || decide (s.copiedOf b ≤ k) }
  | wkAll (s : S) (b k : Nat) (hpc : s.wpc = .resolve b k) (hk : k = s.nOf b) :
      Step cfg ga s .worker .wkAll { s with wpc := .notify b }
  | wkNotify (s : S) (b : Nat) (hpc : s.wpc = .notify b) :
      Step cfg ga s .worker .wkNotify { notifyB s .worker b with wpc := .free b }
  | wkFree (s : S) (b : Nat) (hpc : s.wpc = .free b) :
      Step cfg ga s .worker .wkFree { s with wpc := .lockQ, loc := upd s.loc b .finished }

/-- states reachable by any interleaving of any number of threads -/
inductive Reach (cfg : Cfg) (ga : Nat → Int) : S → Prop
  | init : Reach cfg ga init
  | step (s s' : S) (t : Tid) (a : Act) : Reach cfg ga s → Step cfg ga s t a s' → Reach cfg ga s'

/-- the batch a submitter pc still owns (before it is appended / finished) -/
def SPc.owns : SPc → Option Nat
  | .ctxLock b | .ctxHeld b | .ctxMake b | .ctxRel b | .alloc b | .mark b _ | .lockQ b
  | .append b | .wResolve b _ | .wNotify b => some b
  | .idle | .unlock | .signal => none

def WPc.owns : WPc → Option Nat
  | .popped b | .resolve b _ | .notify b | .free b => some b
  | _ => none

def SPc.holdsQ : SPc → Bool
  | .append _ | .unlock => true
  | _ => false

def WPc.holdsQ : WPc → Bool
  | .top | .popped _ => true
  | _ => false

def SPc.holdsI : SPc → Bool
  | .ctxHeld _ | .ctxMake _ | .ctxRel _ => true
  | _ => false

/-- work is pending: a call is in progress, a request is queued, or the resolver holds one -/
def Pending (s : S) : Prop :=
  (∃ i, s.spc i ≠ .idle) ∨ s.queue ≠ [] ∨ s.wpc.owns ≠ none

end Usual.C20
