/-! GENERATED on every run by checks/C16.py from usual/hashing/{spooky,siphash,xxhash,lookup3}.c
(working tree): rotation amounts in source order, primes, initialisation constants, sizes.
Do not edit. -/
namespace Usual.Gen.C16Consts

def spookyConst : Nat := 16045690984833335023
def spookyNumVars : Nat := 12
def spookyBlockSize : Nat := 96
def spookyBufSize : Nat := 192
def spookyMixRot : List Nat := [11, 32, 43, 31, 17, 28, 39, 57, 55, 54, 22, 46]
def spookyEndPartialRot : List Nat := [44, 15, 34, 21, 38, 33, 10, 13, 38, 53, 42, 54]
def spookyShortMixRot : List Nat := [50, 52, 30, 41, 54, 48, 38, 37, 62, 34, 5, 36]
def spookyShortEndRot : List Nat := [15, 52, 26, 51, 28, 9, 47, 54, 32, 25, 63]
def sipRotByVar : List (List Nat) := [[32], [13, 17], [32], [16, 21]]
def sipInit : List Nat := [8317987319222330741, 7237128888997146477, 7816392313619706465, 8387220255154660723]
def sipC : Nat := 2
def sipD : Nat := 4
def sipFinalXor : Nat := 255
def xxhPrimes : List Nat := [2654435761, 2246822519, 3266489917, 668265263, 374761393]
def xxhRot : List Nat := [13, 13, 13, 13, 1, 7, 12, 18, 17, 11]
def xxhShift : List Nat := [15, 13, 16]
def l3MixRot : List Nat := [4, 6, 8, 16, 19, 4]
def l3FinalRot : List Nat := [14, 11, 25, 16, 4, 14, 24]
def l3Init : Nat := 3735928559

end Usual.Gen.C16Consts
