/-! GENERATED on every run by checks/C02.py (c02_gen.py + harness/C02/extract.c) from the
    working tree's usual/json.c: enum ParseState / TokenTypes, STATE_STEPS,
    string_examine_chars (INTMAP256_CONST(meta_string) as evaluated by the compiler),
    NUMBER_BUF, JSON_MAXINT/MININT, JSON_MAX_KEY, the option bits and the FOURCC byte
    strings.  Do not edit. -/
namespace Usual.Gen.C02Tables

/-! enum ParseState -/
def S_INITIAL_VALUE : Nat := 1
def S_LIST_VALUE : Nat := 2
def S_LIST_VALUE_OR_CLOSE : Nat := 3
def S_LIST_COMMA_OR_CLOSE : Nat := 4
def S_DICT_KEY : Nat := 5
def S_DICT_KEY_OR_CLOSE : Nat := 6
def S_DICT_COLON : Nat := 7
def S_DICT_VALUE : Nat := 8
def S_DICT_COMMA_OR_CLOSE : Nat := 9
def S_PARENT : Nat := 10
def S_DONE : Nat := 11
def MAX_STATES : Nat := 12

/-! enum TokenTypes -/
def T_STRING : Nat := 0
def T_OTHER : Nat := 1
def T_COMMA : Nat := 2
def T_COLON : Nat := 3
def T_OPEN_DICT : Nat := 4
def T_OPEN_LIST : Nat := 5
def T_CLOSE_DICT : Nat := 6
def T_CLOSE_LIST : Nat := 7
def MAX_TOKENS : Nat := 8

def NUMBER_BUF : Nat := 100
def JSON_MAX_KEY : Nat := 1048576
def JSON_PARSE_RELAXED : Nat := 1
def JSON_PARSE_IGNORE_ENCODING : Nat := 2
def JSON_MAXINT : Int := 9007199254740991
def JSON_MININT : Int := -9007199254740991

/-- `STATE_STEPS[MAX_STATES][MAX_TOKENS]`, row = old state, column = token, 0 = reject -/
def stateSteps : List (List Nat) := [
  [0, 0, 0, 0, 0, 0, 0, 0],
  [11, 11, 0, 0, 6, 3, 0, 0],
  [4, 4, 0, 0, 6, 3, 0, 0],
  [4, 4, 0, 0, 6, 3, 0, 10],
  [0, 0, 2, 0, 0, 0, 0, 10],
  [7, 0, 0, 0, 0, 0, 0, 0],
  [7, 0, 0, 0, 0, 0, 10, 0],
  [0, 0, 0, 8, 0, 0, 0, 0],
  [9, 9, 0, 0, 6, 3, 0, 0],
  [0, 0, 5, 0, 0, 0, 10, 0],
  [0, 0, 0, 0, 0, 0, 0, 0],
  [0, 0, 0, 0, 0, 0, 0, 0]]

/-- `string_examine_chars[256]` -/
def stringExamineChars : List Nat := [
  1, 0, 0, 0, 0, 0, 0, 0, 0, 0, 1, 0, 0, 0, 0, 0, 0, 0, 0, 0, 0, 0, 0, 0, 0, 0, 0, 0, 0, 0, 0, 0,
  0, 0, 1, 0, 0, 0, 0, 0, 0, 0, 0, 0, 0, 0, 0, 0, 0, 0, 0, 0, 0, 0, 0, 0, 0, 0, 0, 0, 0, 0, 0, 0,
  0, 0, 0, 0, 0, 0, 0, 0, 0, 0, 0, 0, 0, 0, 0, 0, 0, 0, 0, 0, 0, 0, 0, 0, 0, 0, 0, 0, 1, 0, 0, 0,
  0, 0, 0, 0, 0, 0, 0, 0, 0, 0, 0, 0, 0, 0, 0, 0, 0, 0, 0, 0, 0, 0, 0, 0, 0, 0, 0, 0, 0, 0, 0, 0,
  1, 1, 1, 1, 1, 1, 1, 1, 1, 1, 1, 1, 1, 1, 1, 1, 1, 1, 1, 1, 1, 1, 1, 1, 1, 1, 1, 1, 1, 1, 1, 1,
  1, 1, 1, 1, 1, 1, 1, 1, 1, 1, 1, 1, 1, 1, 1, 1, 1, 1, 1, 1, 1, 1, 1, 1, 1, 1, 1, 1, 1, 1, 1, 1,
  1, 1, 1, 1, 1, 1, 1, 1, 1, 1, 1, 1, 1, 1, 1, 1, 1, 1, 1, 1, 1, 1, 1, 1, 1, 1, 1, 1, 1, 1, 1, 1,
  1, 1, 1, 1, 1, 1, 1, 1, 1, 1, 1, 1, 1, 1, 1, 1, 1, 1, 1, 1, 1, 1, 1, 1, 1, 1, 1, 1, 1, 1, 1, 1]

/-- bytes of `C_NULL` in memory order (what `memcmp`/the `uint32_t` compare sees) -/
def C_NULL : List UInt8 := [110, 117, 108, 108]
/-- bytes of `C_TRUE` in memory order (what `memcmp`/the `uint32_t` compare sees) -/
def C_TRUE : List UInt8 := [116, 114, 117, 101]
/-- bytes of `C_ALSE` in memory order (what `memcmp`/the `uint32_t` compare sees) -/
def C_ALSE : List UInt8 := [97, 108, 115, 101]

end Usual.Gen.C02Tables
