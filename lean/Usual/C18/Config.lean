import Usual.C18.CfParser
/-!
# C18 — model of the config framework of usual/cfparser.c

`cf_get`, `cf_set`, `find_sect`, `find_key`, `get_dest`, `fill_defaults`, `load_handler`,
`cf_load_file` and the typed setters/getters, over an abstract description of a `CfContext`:

* memory is a finite map from *locations* to typed values; an absolute key addresses
  `Loc.abs key_ofs`, a relative key `Loc.rel base key_ofs` where `base` is the object id the
  section's base is (`cf->base`, or what `base_lookup(cf->base, sect_name)` returns); a NULL
  base is `none`;
* the user's callbacks (`base_lookup`, `set_key`, `get_key`, `section_start`) are functions in
  the description; `set_key`/`section_start` own a state of type `δ`;
* libc / the process environment (`strtod`, `snprintf("%g")`, `$HOME`, the passwd database)
  are the fields of `Env`.
-/
namespace Usual.C18

/-- modelled libc and process environment -/
structure Env where
  strtod : Bytes → StrtodRes
  fmtG : Dbl → Bytes
  home : Option Bytes              -- getenv("HOME")
  pwUid : Option Bytes             -- getpwuid(getuid())->pw_dir
  pwNam : Bytes → Option Bytes     -- getpwnam(user)->pw_dir

/-- type-specific ops (`struct CfOps`): CF_INT = CF_BOOL, CF_UINT, CF_STR, CF_FILE (setter
    only; its getter is `str`), CF_TIME_USEC, CF_TIME_DOUBLE, CF_LOOKUP(table) -/
inductive Ty where
  | int | uint | str | file | timeUsec | timeDouble
  | lookup (tbl : List (Bytes × Int))
  deriving Repr, DecidableEq

inductive Val where
  | int (v : Int)
  | uint (v : Nat)
  | str (v : Option Bytes)
  | usec (v : Nat)
  | dbl (v : Dbl)
  deriving Repr, DecidableEq

inductive Loc where
  | abs (ofs : Nat)
  | rel (base ofs : Nat)
  deriving Repr, DecidableEq

/-- what the library logs first when an operation fails (internal projection of the tie) -/
inductive CfErr where
  | unknownSect | unknownKey | noBase | expand | fillDefaults | noSection | mainMissing
  | parse (e : Err)
  deriving Repr, DecidableEq

structure Key where
  name : Bytes
  setter : Option Ty
  getter : Option Ty
  rel : Bool := false
  noReload : Bool := false
  readOnly : Bool := false
  ofs : Nat
  dflt : Option Bytes := none

structure Sect (δ : Type) where
  name : Bytes
  keys : List Key := []
  /-- `base_lookup(top_base, sect_name)` -/
  baseLookup : Option (Option Nat → Bytes → Option Nat) := none
  /-- `set_key(base, key, val)` -/
  setKey : Option (δ → Option Nat → Bytes → Bytes → δ × Bool) := none
  /-- `get_key(base, key, buf, buflen)` -/
  getKey : Option (δ → Option Nat → Bytes → Option Bytes) := none
  /-- `section_start(top_base, sect_name)`; the loader passes `LoaderCtx.top_base`, which
      `cf_load_file` leaves NULL -/
  sectionStart : Option (δ → Option Nat → Bytes → δ × Bool) := none

structure Cf (δ : Type) where
  sects : List (Sect δ)
  base : Option Nat
  loaded : Bool

structure Store (δ : Type) where
  mem : List (Loc × Val) := []
  user : δ
  /-- first error logged since the last reset (internal projection) -/
  log : Option CfErr := none

variable {δ : Type}

def Store.note (s : Store δ) (e : CfErr) : Store δ :=
  match s.log with
  | none => { s with log := some e }
  | some _ => s

def Store.read (s : Store δ) (l : Loc) : Option Val := s.mem.lookup l
def Store.write (s : Store δ) (l : Loc) (v : Val) : Store δ :=
  { s with mem := (l, v) :: s.mem.filter (fun p => !(p.1 == l)) }

/-! ## typed setters -/

def strcaseEq (a b : Bytes) : Bool := a.map toLower == b.map toLower

def lookupSet : List (Bytes × Int) → Bytes → Option Int
  | [], _ => none
  | (n, v) :: t, s => if strcaseEq n s then some v else lookupSet t s

def lookupGet : List (Bytes × Int) → Int → Bytes
  | [], _ => [73, 78, 86, 65, 76, 73, 68]       -- "INVALID"
  | (n, v) :: t, x => if v == x then n else lookupGet t x

/-- `parse_time`: `none` = -1 (rejected) -/
def parseTime (env : Env) (s : Bytes) : Option Dbl :=
  let r := env.strtod s
  if r.erange then none
  else if r.consumed != s.length || r.consumed == 0 || r.val.ltZero then none
  else some r.val

/-- `cf_set_filename` for a value starting with `~` -/
def expandTilde (env : Env) (value : Bytes) : Option Bytes :=
  let vlen := value.length
  let usrLen := match value.findIdx? (· == 47) with
    | none => vlen - 1
    | some i => i - 1
  let home :=
    if usrLen != 0 then env.pwNam ((value.drop 1).take usrLen)
    else match env.home with
      | some h => some h
      | none => env.pwUid
  match home with
  | none => none
  | some h => some (h ++ value.drop (usrLen + 1))

/-- the setter `ty` applied to the string `value`: the value stored, `none` = setter returns
    false (nothing stored) -/
def applySetter (env : Env) : Ty → Bytes → Option Val
  | .int, s => (setInt s).map .int
  | .uint, s => (setUint s).map .uint
  | .str, s => some (.str (some s))
  | .file, s =>
    match s with
    | 126 :: _ => (expandTilde env s).map (fun x => .str (some x))
    | _ => some (.str (some s))
  | .timeUsec, s =>
    match parseTime env s with
    | none => none
    | some d => (timeToUsec d).map .usec
  | .timeDouble, s => (parseTime env s).map .dbl
  | .lookup tbl, s => (lookupSet tbl s).map .int

/-- memory starts zeroed -/
def asInt : Option Val → Int
  | some (.int v) => v
  | _ => 0
def asUint : Option Val → Nat
  | some (.uint v) => v
  | _ => 0
def asStr : Option Val → Option Bytes
  | some (.str v) => v
  | _ => none
def asUsec : Option Val → Nat
  | some (.usec v) => v
  | _ => 0
def asDbl : Option Val → Dbl
  | some (.dbl v) => v
  | _ => .fin false 0 0

/-- the getter `ty` applied to the value at the destination; `none` = NULL -/
def applyGetter (env : Env) : Ty → Option Val → Option Bytes
  | .int, v => some (renderInt (asInt v))
  | .uint, v => some (renderNat (asUint v))
  | .str, v => asStr v
  | .file, v => asStr v
  | .timeUsec, v => some (env.fmtG (dblOfNat (asUsec v)).divUsec)
  | .timeDouble, v => some (env.fmtG (asDbl v))
  | .lookup tbl, v => some (lookupGet tbl (asInt v))

/-! ## cf_get / cf_set -/

/-- `find_sect`: first section whose name is `name` or `"*"`; with its index -/
def findSectFrom : List (Sect δ) → Nat → Bytes → Option (Nat × Sect δ)
  | [], _, _ => none
  | s :: t, i, name =>
    if s.name == name || s.name == [42] then some (i, s) else findSectFrom t (i + 1) name

def findSect (cf : Cf δ) (name : Bytes) : Option (Nat × Sect δ) := findSectFrom cf.sects 0 name

def findKey : List Key → Bytes → Option Key
  | [], _ => none
  | k :: t, key => if k.name == key then some k else findKey t key

/-- section base: `cf->base`, or `base_lookup(cf->base, sect)` -/
def sectBase (cf : Cf δ) (s : Sect δ) (sect : Bytes) : Option Nat :=
  match s.baseLookup with
  | none => cf.base
  | some f => f cf.base sect

/-- `get_dest` -/
def getDest (base : Option Nat) (k : Key) : Option Loc :=
  if k.rel then base.map (fun b => Loc.rel b k.ofs) else some (Loc.abs k.ofs)

def cfGet (env : Env) (cf : Cf δ) (st : Store δ) (sect key : Bytes) : Option Bytes :=
  match findSect cf sect with
  | none => none
  | some (_, s) =>
    let base := sectBase cf s sect
    match s.setKey with
    | some _ =>
      (match s.getKey with
       | none => none
       | some g => g st.user base key)
    | none =>
      match findKey s.keys key with
      | none => none
      | some k =>
        match k.getter with
        | none => none
        | some ty =>
          match getDest base k with
          | none => none
          | some loc => applyGetter env ty (st.read loc)

def cfSet (env : Env) (cf : Cf δ) (st : Store δ) (sect key val : Bytes) : Store δ × Bool :=
  match findSect cf sect with
  | none => (st.note .unknownSect, false)
  | some (_, s) =>
    let base := sectBase cf s sect
    match s.setKey with
    | some f =>
      let (u, ok) := f st.user base key val
      ({ st with user := u }, ok)
    | none =>
      match findKey s.keys key with
      | none => (st.note .unknownKey, false)
      | some k =>
        match k.setter with
        | none => (st, true)                                   -- silently ignore
        | some ty =>
          if k.readOnly then (st, true)                        -- silently ignore
          else if k.noReload && cf.loaded then (st, true)      -- silently ignore
          else match getDest base k with
            | none => (st.note .noBase, false)
            | some loc =>
              match applySetter env ty val with
              | none => (if ty == .file then st.note .expand else st, false)
              | some v => (st.write loc v, true)

/-! ## file loader -/

structure Loader (δ : Type) where
  store : Store δ
  curSect : Option Bytes := none
  gotMain : Bool := false

/-- the `for (k = s->key_list; …)` loop of `fill_defaults` -/
def setDefaults (env : Env) (cf : Cf δ) (sect : Bytes) : List Key → Store δ → Store δ × Bool
  | [], st => (st, true)
  | k :: t, st =>
    match k.dflt with
    | none => setDefaults env cf sect t st
    | some d =>
      if k.readOnly then setDefaults env cf sect t st
      else if k.noReload && cf.loaded then setDefaults env cf sect t st
      else
        let (st', ok) := cfSet env cf st sect k.name d
        if ok then setDefaults env cf sect t st' else (st'.note .fillDefaults, false)

/-- the part of `fill_defaults` after `section_start` -/
def finishDefaults (env : Env) (cf : Cf δ) (sect : Bytes) (s : Sect δ) (cur : Option Bytes) (got : Bool)
    (st : Store δ) : Loader δ × Bool :=
  if s.setKey.isSome then ({ store := st, curSect := cur, gotMain := got }, true)
  else ({ store := (setDefaults env cf sect s.keys st).1, curSect := cur, gotMain := got },
        (setDefaults env cf sect s.keys st).2)

def fillDefaults (env : Env) (cf : Cf δ) (ld : Loader δ) (sect : Bytes) : Loader δ × Bool :=
  match findSect cf sect with
  | none => ({ ld with store := ld.store.note .fillDefaults }, false)
  | some (i, s) =>
    -- `if (s == ctx->cf->sect_list) ctx->got_main_sect = true`
    let got := ld.gotMain || i == 0
    match s.sectionStart with
    | none => finishDefaults env cf sect s ld.curSect got ld.store
    | some f =>
      match f ld.store.user none sect with
      | (u, true) => finishDefaults env cf sect s ld.curSect got { ld.store with user := u }
      | (u, false) => ({ store := { ld.store with user := u }, curSect := ld.curSect, gotMain := got }, false)

def loadHandler (env : Env) (cf : Cf δ) (ld : Loader δ) : Event → Loader δ × Bool
  | .sect name => fillDefaults env cf { ld with curSect := some name } name
  | .kv key val =>
    match ld.curSect with
    | none => ({ ld with store := ld.store.note .noSection }, false)
    | some sect =>
      let (st', ok) := cfSet env cf ld.store sect key val
      ({ ld with store := st' }, ok)

/-- `cf_load_file` -/
def cfLoadFile (env : Env) (cf : Cf δ) (fs : Bytes → Option Bytes) (st : Store δ) (name : Bytes) :
    Store δ × Bool :=
  match parseIni fs (loadHandler env cf) name { store := st } with
  | (ld, none, _) =>
    if ld.gotMain then (ld.store, true) else (ld.store.note .mainMissing, false)
  | (ld, some _, first) =>
    ((match first with | some e => ld.store.note (.parse e) | none => ld.store), false)

end Usual.C18
