import Usual.C18.CfParser
/-!
# C18 — the line grammar of the ini file, as an independent tokenizer (the *spec*)

Written from the property text, on plain lists (no buffer, no indices, no patching):

* the text ends at the first NUL byte (the loader hands over a C string);
* the text is cut into lines at `'\n'`;
* in a line, leading whitespace is skipped; then
  - nothing left, or `#…` / `;…`           → no item
  - `%include` + blank + name               → include item (name without surrounding blanks /
                                              trailing whitespace)
  - `[name]` (name: anything but `]`)       → section item; the rest of the line is read as a
                                              line again
  - `key blanks = blanks value`             → key/value item; key is the longest prefix of
                                              `[A-Za-z0-9_.*-]`, value loses trailing whitespace
  - anything else                           → syntax error
* items are delivered in order up to the first error; an include item is replaced by the
  items of the named file, at most `MAX_INCLUDE` (10) levels below the top file.
-/
namespace Usual.C18

inductive Item where
  | sect (name : Bytes)
  | kv (key val : Bytes)
  | incl (file : Bytes)
  deriving Repr, DecidableEq

def trimRight (s : Bytes) : Bytes := (s.reverse.dropWhile isSpace).reverse

/-- cut at every `'\n'` (the separators are dropped) -/
def splitLines : Bytes → List Bytes
  | [] => [[]]
  | c :: t =>
    if c.toNat == 10 then [] :: splitLines t
    else match splitLines t with
      | l :: ls => (c :: l) :: ls
      | [] => [[c]]

def headBlank : Bytes → Bool
  | c :: _ => isBlank c
  | [] => false

def startsInclude (l : Bytes) : Bool := l.take 8 == includeLit && headBlank (l.drop 8)

/-- items of one line and whether the line was well-formed (`false`: syntax error after the
    items listed).  `fuel` bounds the number of `[section]`s on one line. -/
def lineItems : Nat → Bytes → List Item × Bool
  | 0, _ => ([], false)
  | fuel + 1, line =>
    let l := line.dropWhile isSpace
    if startsInclude l then
      ([.incl (trimRight ((l.drop 8).dropWhile isBlank))], true)
    else match l with
    | [] => ([], true)
    | c :: t =>
      if c.toNat == 35 || c.toNat == 59 then ([], true)
      else if c.toNat == 91 then
        match t.dropWhile (fun x => x.toNat != 93) with
        | _ :: rest =>
          let r := lineItems fuel rest
          (.sect (t.takeWhile (fun x => x.toNat != 93)) :: r.1, r.2)
        | [] => ([], false)
      else
        match (l.dropWhile isKeyCh).dropWhile isBlank with
        | e :: r =>
          if e.toNat == 61 then
            ([.kv (l.takeWhile isKeyCh) (trimRight (r.dropWhile isBlank))], true)
          else ([], false)
        | [] => ([], false)

def linesItems : List Bytes → List Item × Bool
  | [] => ([], true)
  | l :: ls =>
    let r := lineItems (l.length + 1) l
    if r.2 then let r2 := linesItems ls; (r.1 ++ r2.1, r2.2) else (r.1, false)

/-- the lines of a file's content -/
def fileLines (content : Bytes) : List Bytes := splitLines (content.takeWhile (· != 0))

/-- items of a file's content (up to the first malformed line), and whether the whole text is
    well-formed -/
def fileItems (content : Bytes) : List Item × Bool := linesItems (fileLines content)

variable {σ : Type}

/-- deliver the items of one file to the handler; includes are expanded by `incl` -/
def runItems (incl : Bytes → σ → σ × Option Err) (h : σ → Event → σ × Bool) (level : Nat) :
    List Item → σ → σ × Option Err × Option Err
  | [], st => (st, none, none)
  | .sect n :: is, st =>
    let (st', ok) := h st (.sect n)
    if ok then runItems incl h level is st' else (st', some .badSect, some .badSect)
  | .kv k v :: is, st =>
    let (st', ok) := h st (.kv k v)
    if ok then runItems incl h level is st' else (st', some .badVal, some .badVal)
  | .incl f :: is, st =>
    if level ≥ MAX_INCLUDE then (st, some .depth, some .depth) else
    match incl f st with
    | (st', some e) => (st', some .incl, some e)
    | (st', none) => runItems incl h level is st'

/-- deliver the lines of one file, in order, up to the first error -/
def runLines (incl : Bytes → σ → σ × Option Err) (h : σ → Event → σ × Bool) (level : Nat) :
    List Bytes → σ → σ × Option Err × Option Err
  | [], st => (st, none, none)
  | l :: ls, st =>
    match runItems incl h level (lineItems (l.length + 1) l).1 st with
    | (st', none, _) =>
      if (lineItems (l.length + 1) l).2 then runLines incl h level ls st'
      else (st', some .syntax, some .syntax)
    | r => r

/-- the spec of `parse_ini_file_internal(name, h, arg, level)` -/
def specFile (fs : Bytes → Option Bytes) (h : σ → Event → σ × Bool) :
    Nat → Bytes → Nat → σ → σ × Option Err × Option Err
  | 0, _, _, st => (st, some .fuel, some .fuel)
  | depth + 1, name, level, st =>
    match fs name with
    | none => (st, some .noFile, some .noFile)
    | some content =>
      runLines (fun nm s =>
                let r := specFile fs h depth nm (level + 1) s
                (r.1, match r.2.1 with | none => none | some _ => r.2.2))
              h level (fileLines content) st

def specParse (fs : Bytes → Option Bytes) (h : σ → Event → σ × Bool) (name : Bytes) (st : σ) :
    σ × Option Err × Option Err :=
  specFile fs h (MAX_INCLUDE + 2) name 0 st

/-- the event list a handler that accepts everything receives, by the line grammar -/
def specScan (fs : Bytes → Option Bytes) (name : Bytes) : Except Err (List Event) :=
  match specParse fs (logHandler 0) name [] with
  | (evs, none, _) => .ok evs
  | (_, some e, _) => .error e

end Usual.C18
