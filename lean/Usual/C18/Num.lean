/-!
# C18 — numeric value parsers and renderers used by the typed setters/getters of cfparser.c

* `strtoBase0`      : syntax of `strtol/strtoul(value, &end, 0)` (whitespace, sign, 0x / 0 prefix)
* `setInt/setUint`  : `cf_set_int`, `cf_set_uint` (reject no-conversion and partial parse, clamp to
                      `long`/`unsigned long` as libc does, then the C conversion to `int`/`unsigned`)
* `renderInt/Nat`   : `snprintf("%d")`, `("%u")`
* `Dbl`             : IEEE-754 binary64 values as sign/mantissa/exponent, `roundRat` = round a
                      non-negative rational to nearest-even binary64 (the only rounding primitive)
* `strtodC`, `fmtG` : *modelled libc* (`strtod` in the C locale, `snprintf("%g")`): they are
                      parameters (`Env`) of every theorem and this concrete instance is what the
                      driver runs.
Core Lean only.
-/
namespace Usual.C18

abbrev Bytes := List UInt8

/-! ## character classes (C locale) -/

def isSpace (c : UInt8) : Bool := c.toNat == 32 || (9 ≤ c.toNat && c.toNat ≤ 13)
def isBlank (c : UInt8) : Bool := c.toNat == 32 || c.toNat == 9
def isDigit (c : UInt8) : Bool := 48 ≤ c.toNat && c.toNat ≤ 57
def isAlnum (c : UInt8) : Bool :=
  (48 ≤ c.toNat && c.toNat ≤ 57) || (65 ≤ c.toNat && c.toNat ≤ 90) || (97 ≤ c.toNat && c.toNat ≤ 122)
def toLower (c : UInt8) : UInt8 := if 65 ≤ c.toNat && c.toNat ≤ 90 then c + 32 else c

/-! ## integers -/

/-- value of a letter/digit as a digit (up to base 36) -/
def digitVal (c : UInt8) : Option Nat :=
  let n := c.toNat
  if 48 ≤ n ∧ n ≤ 57 then some (n - 48)
  else if 97 ≤ n ∧ n ≤ 122 then some (n - 87)
  else if 65 ≤ n ∧ n ≤ 90 then some (n - 55)
  else none

def digitIn (base : Nat) (c : UInt8) : Option Nat :=
  match digitVal c with
  | some d => if d < base then some d else none
  | none => none

/-- read digits of `base`: (value, number of characters consumed) -/
def readDigits (base : Nat) : Bytes → Nat → Nat → Nat × Nat
  | [], acc, n => (acc, n)
  | c :: t, acc, n =>
    match digitIn base c with
    | some d => readDigits base t (acc * base + d) (n + 1)
    | none => (acc, n)

structure IntLit where
  neg : Bool
  mag : Nat
  /-- characters consumed from the start of the string; 0 = no conversion (`end == value`) -/
  consumed : Nat
  deriving Repr, DecidableEq

/-- sign of an integer/float literal: (negative, characters used, rest) -/
def readSign : Bytes → Bool × Nat × Bytes
  | 45 :: t => (true, 1, t)
  | 43 :: t => (false, 1, t)
  | s => (false, 0, s)

/-- `0x`/`0X` followed by a hex digit -/
def hexPrefix : Bytes → Bool
  | 48 :: x :: h :: _ => (x.toNat == 120 || x.toNat == 88) && (digitIn 16 h).isSome
  | _ => false

/-- base 0 without `0x`: a leading `0` means octal -/
def baseOf : Bytes → Nat
  | 48 :: _ => 8
  | _ => 10

/-- the syntax `strtol(s, &end, 0)` / `strtoul(s, &end, 0)` accept -/
def strtoBase0 (s : Bytes) : IntLit :=
  let ws := (s.takeWhile isSpace).length
  let s1 := s.dropWhile isSpace
  let (neg, sg, s2) := readSign s1
  if hexPrefix s2 then
    let (v, n) := readDigits 16 (s2.drop 2) 0 0
    ⟨neg, v, ws + sg + 2 + n⟩
  else
    let (v, n) := readDigits (baseOf s2) s2 0 0
    if n == 0 then ⟨false, 0, 0⟩ else ⟨neg, v, ws + sg + n⟩

def LONG_MAX : Nat := 2 ^ 63 - 1
def ULONG_MAX : Nat := 2 ^ 64 - 1

/-- the `long` strtol returns (clamped on overflow) -/
def IntLit.toLong (l : IntLit) : Int :=
  if l.neg then (if l.mag > 2 ^ 63 then -(2 ^ 63 : Int) else -(l.mag : Int))
  else (if l.mag > LONG_MAX then (LONG_MAX : Int) else (l.mag : Int))

/-- the `unsigned long` strtoul returns (ULONG_MAX on overflow, negation modulo 2^64) -/
def IntLit.toULong (l : IntLit) : Nat :=
  if l.mag > ULONG_MAX then ULONG_MAX
  else if l.neg then (2 ^ 64 - l.mag) % 2 ^ 64 else l.mag

/-- C conversion `long → int` on the platform (two's complement wrap) -/
def wrap32 (v : Int) : Int :=
  let r := v % (2 ^ 32 : Int)
  if r ≥ (2 ^ 31 : Int) then r - 2 ^ 32 else r

def INT_MIN : Int := -2147483648
def INT_MAX : Int := 2147483647
def UINT_MAX : Nat := 4294967295

/-- cf_set_int (with repair F37): `none` = rejected.  No conversion and partial parse are
    rejected; then `errno == ERANGE || val < INT_MIN || val > INT_MAX` is rejected (the clamped
    `long` of an overflowing strtol is outside `int` anyway). -/
def setInt (s : Bytes) : Option Int :=
  let l := strtoBase0 s
  if l.consumed == 0 || l.consumed != s.length then none
  else if l.toLong < INT_MIN || l.toLong > INT_MAX then none
  else some l.toLong

/-- cf_set_uint (with repair F37): rejected when strtoul overflows, the value is above UINT_MAX,
    or a minus sign precedes a non-zero value -/
def setUint (s : Bytes) : Option Nat :=
  let l := strtoBase0 s
  if l.consumed == 0 || l.consumed != s.length then none
  else if l.mag > UINT_MAX || (l.neg && l.mag != 0) then none
  else some l.mag

/-- cf_set_int BEFORE repair F37: the `long` is converted to `int` unchecked (wraps), strtol's
    ERANGE is ignored.  Kept to state what was wrong. -/
def setIntOld (s : Bytes) : Option Int :=
  let l := strtoBase0 s
  if l.consumed == 0 || l.consumed != s.length then none else some (wrap32 l.toLong)

/-- cf_set_uint BEFORE repair F37 -/
def setUintOld (s : Bytes) : Option Nat :=
  let l := strtoBase0 s
  if l.consumed == 0 || l.consumed != s.length then none else some (l.toULong % 2 ^ 32)

def digitCh (d : Nat) : UInt8 := UInt8.ofNat (48 + d)

/-- decimal digits, most significant first (fuel ≥ number of digits) -/
def renderNatF : Nat → Nat → Bytes
  | 0, _ => []
  | f + 1, n => if n < 10 then [digitCh n] else renderNatF f (n / 10) ++ [digitCh (n % 10)]

/-- `%u` -/
def renderNat (n : Nat) : Bytes := renderNatF (n + 1) n

/-- `%d` -/
def renderInt (v : Int) : Bytes :=
  if v < 0 then 45 :: renderNat v.natAbs else renderNat v.natAbs

/-! ## binary64 -/

/-- an IEEE-754 binary64 value: finite `(-1)^neg · m · 2^e` with `m < 2^53`, and either
    `2^52 ≤ m` (normal, `-1074 ≤ e ≤ 971`), or `e = -1074` (subnormal), or `m = 0 ∧ e = 0` -/
inductive Dbl where
  | fin (neg : Bool) (m : Nat) (e : Int)
  | inf (neg : Bool)
  | nan (neg : Bool)
  deriving Repr, DecidableEq

/-- number of bits of `n` (0 for 0), structural on fuel -/
def bitLenF : Nat → Nat → Nat
  | 0, _ => 0
  | f + 1, n => if n == 0 then 0 else bitLenF f (n / 2) + 1

def bitLen (n : Nat) : Nat := bitLenF (n + 1) n

/-- result of rounding: value, inexact flag; `none` = overflow -/
structure Rounded where
  m : Nat
  e : Int
  inexact : Bool
  deriving Repr, DecidableEq

/-- quotient `n / (d·2^e)` and whether to round up (half-even), and inexactness -/
def divScaled (n d : Nat) (e : Int) : Nat × Bool :=
  let (num, den) := if e ≥ 0 then (n, d * 2 ^ e.toNat) else (n * 2 ^ (-e).toNat, d)
  let q := num / den
  let r := num % den
  let up := 2 * r > den || (2 * r == den && q % 2 == 1)
  (if up then q + 1 else q, r != 0)

/-- round the rational `n/d` (`d > 0`) to the nearest binary64, ties to even.
    `none` = the rounded value is ≥ 2^1024 (overflow). -/
def roundRat (n d : Nat) : Option Rounded :=
  if n == 0 then some ⟨0, 0, false⟩ else
  let e0 : Int := (bitLen n : Int) - (bitLen d : Int) - 53
  -- n/d ∈ [2^(bn-bd-1), 2^(bn-bd+1)), so n/(d·2^e0) ∈ [2^52, 2^54)
  let q0 := (if e0 ≥ 0 then n / (d * 2 ^ e0.toNat) else (n * 2 ^ (-e0).toNat) / d)
  let e1 : Int := if q0 ≥ 2 ^ 53 then e0 + 1 else e0
  let e : Int := if e1 < -1074 then -1074 else e1
  let (q, inex) := divScaled n d e
  let (m, e) := if q == 2 ^ 53 then (2 ^ 52, e + 1) else (q, e)
  if m == 0 then some ⟨0, 0, inex⟩
  else if e > 971 then none
  else some ⟨m, e, inex⟩

/-- exact value of a finite double as a fraction -/
def ratOf (m : Nat) (e : Int) : Nat × Nat :=
  if e ≥ 0 then (m * 2 ^ e.toNat, 1) else (m, 2 ^ (-e).toNat)

def Dbl.isNeg : Dbl → Bool
  | .fin n _ _ => n
  | .inf n => n
  | .nan n => n

/-- C `v < 0` -/
def Dbl.ltZero : Dbl → Bool
  | .fin n m _ => n && m != 0
  | .inf n => n
  | .nan _ => false

/-- IEEE bit pattern -/
def Dbl.bits : Dbl → Nat
  | .fin n m e =>
    let s := if n then 2 ^ 63 else 0
    if m == 0 then s
    else if m < 2 ^ 52 then s + m
    else s + (e + 1075).toNat * 2 ^ 52 + (m - 2 ^ 52)
  | .inf n => (if n then 2 ^ 63 else 0) + 2047 * 2 ^ 52
  | .nan n => (if n then 2 ^ 63 else 0) + 2047 * 2 ^ 52 + 2 ^ 51

/-- binary64 result of a non-negative rational (overflow → +inf) -/
def dblOfRat (neg : Bool) (n d : Nat) : Dbl :=
  match roundRat n d with
  | some r => .fin neg r.m r.e
  | none => .inf neg

/-- `(double)u` for `uint64_t u` -/
def dblOfNat (u : Nat) : Dbl := dblOfRat false u 1

/-- `x / 1e6` for a non-negative finite `x` -/
def Dbl.divUsec : Dbl → Dbl
  | .fin n m e => let (a, b) := ratOf m e; dblOfRat n a (b * 1000000)
  | d => d

/-- `if (!(v < 2^64)) reject; (usec_t)v` for a finite non-negative `v` -/
def usecTrunc (s : Rounded) : Option Nat :=
  if (ratOf s.m s.e).1 < 2 ^ 64 * (ratOf s.m s.e).2 then
    some ((ratOf s.m s.e).1 / (ratOf s.m s.e).2)
  else none

/-- `v + 0.5` (rounded to binary64; overflow = rejected), then `usecTrunc` -/
def usecAddHalf (p : Rounded) : Option Nat :=
  (roundRat (2 * (ratOf p.m p.e).1 + (ratOf p.m p.e).2) (2 * (ratOf p.m p.e).2)).bind usecTrunc

/-- `USEC * v` (rounded to binary64; overflow = rejected), then `usecAddHalf` -/
def timeToUsecFin (m : Nat) (e : Int) : Option Nat :=
  (roundRat ((ratOf m e).1 * 1000000) (ratOf m e).2).bind usecAddHalf

/-- cfparser.c (with repair F24): `v = USEC * v + 0.5; if (!(v < 2^64)) reject; (usec_t)v`
    for `v` that passed `parse_time` (not `< 0`).  `none` = rejected.
    (Written with `Option.bind` rather than nested `match`: the kernel otherwise evaluates
    `_ * 1000000` by unary recursion when it checks proofs about this function.) -/
def timeToUsec : Dbl → Option Nat
  | .fin _ m e => timeToUsecFin m e
  | .inf _ => none
  | .nan _ => none

/-- the conversion of the code BEFORE repair F24, `(usec_t)(USEC * v)`: truncation (defined only
    where C defines the conversion).  Kept to state what was wrong (`Props/C18.lean`). -/
def timeToUsecOld : Dbl → Option Nat
  | .fin _ m e =>
    match roundRat ((ratOf m e).1 * 1000000) (ratOf m e).2 with
    | none => none
    | some p => if (ratOf p.m p.e).1 < 2 ^ 64 * (ratOf p.m p.e).2 then some ((ratOf p.m p.e).1 / (ratOf p.m p.e).2) else none
  | .inf _ => none
  | .nan _ => none

/-! ### modelled libc: strtod (C locale) -/

structure StrtodRes where
  val : Dbl
  consumed : Nat
  erange : Bool
  deriving Repr, DecidableEq

def lowerEq (s lit : Bytes) : Bool :=   -- `s` starts with `lit` (lit lowercase), case-insensitive
  (s.take lit.length).map toLower == lit && lit.length ≤ s.length

def isNanCh (c : UInt8) : Bool := isAlnum c || c.toNat == 95

/-- decimal or hex mantissa `digits [. digits]`: (integer value of all digits, fraction digit
    count, characters consumed, number of digits) -/
def readMant (base : Nat) (s : Bytes) : Nat × Nat × Nat × Nat :=
  let (v1, n1) := readDigits base s 0 0
  match s.drop n1 with
  | 46 :: t =>
    let (v2, n2) := readDigits base t v1 0
    if n1 + n2 == 0 then (0, 0, 0, 0) else (v2, n2, n1 + 1 + n2, n1 + n2)
  | _ => (v1, 0, n1, n1)

/-- optional exponent `(e|p) [+-] digits`: (negative, value, consumed) — nothing consumed unless
    a digit follows -/
def readExp (mark : UInt8) (s : Bytes) : Bool × Nat × Nat :=
  match s with
  | c :: t =>
    if toLower c == mark then
      let (neg, sg, t2) := readSign t
      let (v, n) := readDigits 10 t2 0 0
      if n == 0 then (false, 0, 0) else (neg, v, 1 + sg + n)
    else (false, 0, 0)
  | [] => (false, 0, 0)

/-- finite result from `mant · base^…` given as a fraction, with glibc's ERANGE rules -/
def finish (neg : Bool) (n d : Nat) (consumed : Nat) : StrtodRes :=
  match roundRat n d with
  | none => ⟨.inf neg, consumed, true⟩
  | some r =>
    let tiny := r.m < 2 ^ 52
    ⟨.fin neg r.m r.e, consumed, n != 0 && tiny && r.inexact⟩

/-- first byte of a list is a hex digit -/
def headHex : Bytes → Bool
  | g :: _ => (digitIn 16 g).isSome
  | [] => false

/-- `0x`/`0X` followed by a hex digit, or by `.` and a hex digit: a hexadecimal float -/
def hexFloatPrefix : Bytes → Bool
  | 48 :: x :: h :: t => (x.toNat == 120 || x.toNat == 88) &&
      ((digitIn 16 h).isSome || (h.toNat == 46 && headHex t))
  | _ => false

def strtodC (s : Bytes) : StrtodRes :=
  let ws := (s.takeWhile isSpace).length
  let s1 := s.dropWhile isSpace
  let (neg, sg, s2) := readSign s1
  let pre := ws + sg
  if lowerEq s2 [105, 110, 102, 105, 110, 105, 116, 121] then ⟨.inf neg, pre + 8, false⟩
  else if lowerEq s2 [105, 110, 102] then ⟨.inf neg, pre + 3, false⟩
  else if lowerEq s2 [110, 97, 110] then
    let t := s2.drop 3
    match t with
    | 40 :: u =>
      let k := (u.takeWhile isNanCh).length
      match u.drop k with
      | 41 :: _ => ⟨.nan neg, pre + 3 + 1 + k + 1, false⟩
      | _ => ⟨.nan neg, pre + 3, false⟩
    | _ => ⟨.nan neg, pre + 3, false⟩
  else
    if hexFloatPrefix s2 then
      let (mant, fd, used, _) := readMant 16 (s2.drop 2)
      let (eneg, ev, eused) := readExp 112 (s2.drop (2 + used))
      let consumed := pre + 2 + used + eused
      if mant == 0 then ⟨.fin neg 0 0, consumed, false⟩
      else if ev > 100000 then
        (if eneg then ⟨.fin neg 0 0, consumed, true⟩ else ⟨.inf neg, consumed, true⟩)
      else
        -- mant · 2^(±ev − 4·fd)
        let down := 4 * fd + (if eneg then ev else 0)
        let upp := if eneg then 0 else ev
        finish neg (mant * 2 ^ upp) (2 ^ down) consumed
    else
      let (mant, fd, used, nd) := readMant 10 s2
      if nd == 0 then ⟨.fin false 0 0, 0, false⟩ else
      let (eneg, ev, eused) := readExp 101 (s2.drop used)
      let consumed := pre + used + eused
      if mant == 0 then ⟨.fin neg 0 0, consumed, false⟩
      else if ev > 100000 then
        (if eneg then ⟨.fin neg 0 0, consumed, true⟩ else ⟨.inf neg, consumed, true⟩)
      else
        let down := fd + (if eneg then ev else 0)
        let upp := if eneg then 0 else ev
        finish neg (mant * 10 ^ upp) (10 ^ down) consumed

/-! ### modelled libc: snprintf("%g") -/

/-- largest X (as X + 400 ≥ 0 offset) with 10^X ≤ n/d, searched downward from `hi`; n/d > 0 -/
def findExp10 : Nat → Nat → Nat → Int → Int
  | 0, _, _, x => x
  | f + 1, n, d, x =>
    let ok := if x ≥ 0 then d * 10 ^ x.toNat ≤ n else d ≤ n * 10 ^ (-x).toNat
    if ok then x else findExp10 f n d (x - 1)

/-- n/d divided by 10^k (k may be negative), rounded half-even to an integer -/
def roundDiv10 (n d : Nat) (k : Int) : Nat :=
  let (num, den) := if k ≥ 0 then (n, d * 10 ^ k.toNat) else (n * 10 ^ (-k).toNat, d)
  let q := num / den
  let r := num % den
  if 2 * r > den || (2 * r == den && q % 2 == 1) then q + 1 else q

def stripZeros (l : Bytes) : Bytes := (l.reverse.dropWhile (· == 48)).reverse

def padLeft (w : Nat) (l : Bytes) : Bytes := List.replicate (w - l.length) 48 ++ l

/-- decimal exponent `X` of `n/d > 0`: `10^X ≤ n/d < 10^(X+1)`, searched downward from the bit
    length of `n` (`n/d ≤ n < 2^bitLen n ≤ 10^bitLen n`; and `n/d ≥ 1/d > 10^-(bitLen d)`, so the
    fuel suffices) -/
def exp10 (n d : Nat) : Int := findExp10 (bitLen n + bitLen d + 2) n d (bitLen n : Int)

/-- the six significant digits (a number in `[10^5, 10^6)`) and the decimal exponent of `n/d`,
    rounded half-even as `%g`/`%e` do (a carry to `10^6` moves the exponent up) -/
def sixDigits (n d : Nat) : Nat × Int :=
  if roundDiv10 n d (exp10 n d - 5) ≥ 1000000 then
    (roundDiv10 n d (exp10 n d - 5) / 10, exp10 n d + 1)
  else (roundDiv10 n d (exp10 n d - 5), exp10 n d)

/-- `%g` layout (precision 6, trailing zeros removed) of the digits `dg` with decimal exponent `x` -/
def layoutG (dg : Nat) (x : Int) : Bytes :=
  let ds := padLeft 6 (renderNat dg)          -- exactly 6 digits
  if x < -4 || x ≥ 6 then
    let frac := stripZeros (ds.drop 1)
    let mant := ds.take 1 ++ (if frac.isEmpty then [] else 46 :: frac)
    mant ++ ([101, if x < 0 then 45 else 43] : Bytes) ++ padLeft 2 (renderNat x.natAbs)
  else if x ≥ 0 then
    let ip := ds.take (x.toNat + 1)
    let frac := stripZeros (ds.drop (x.toNat + 1))
    ip ++ (if frac.isEmpty then [] else 46 :: frac)
  else
    let frac := stripZeros (List.replicate ((-x).toNat - 1) (48 : UInt8) ++ ds)
    ([48, 46] : Bytes) ++ frac

/-- `%g` (precision 6) of a positive rational -/
def fmtGPos (n d : Nat) : Bytes := layoutG (sixDigits n d).1 (sixDigits n d).2

def signBytes (n : Bool) : Bytes := if n then [45] else []

def fmtG : Dbl → Bytes
  | .nan n => signBytes n ++ [110, 97, 110]
  | .inf n => signBytes n ++ [105, 110, 102]
  | .fin n m e =>
    signBytes n ++ (if m == 0 then [48] else fmtGPos (ratOf m e).1 (ratOf m e).2)

end Usual.C18
