import Usual.C18.Num
/-!
# C18 — model of `parse_ini_file_internal` (usual/cfparser.c) on a mutable buffer

The buffer is what `load_file` returns: the file's bytes followed by one NUL.  Every load
(`rd`) and store (`wr`) is bounds-checked against *that* allocation: an access outside makes
the whole scan end in `Err.oob`, so "no access outside the loaded text" is the theorem that
`oob` never comes out.  The in-place NUL patches (`key[klen] = 0; val[vlen] = 0; *p = 0`) and
their restoration are explicit `wr`s; what the handler receives is the C string (`cstr`) found
in the *patched* buffer at the key/value offset.

Control flow follows the C function line by line (same order of tests).  `fuel` bounds the
`while (*p)` loop (each round consumes at least one byte, `scanFile` passes `length + 1`);
`depth` bounds the include recursion (`MAX_INCLUDE + 1 - level` is always enough).
-/
namespace Usual.C18

def MAX_INCLUDE : Nat := 10

/-- what the handler is called with: `(is_sect, key, val)` -/
inductive Event where
  | sect (name : Bytes)
  | kv (key val : Bytes)
  deriving Repr, DecidableEq

inductive Err where
  | noFile      -- "could not load file"
  | depth       -- "include nesting level too deep"
  | incl        -- "error processing include file" (the nested scan failed)
  | badSect     -- handler refused a section
  | badVal      -- handler refused a key/value
  | syntax      -- "syntax error in configuration"
  | oob         -- MODEL ONLY: an access outside the buffer (proved unreachable)
  | fuel        -- MODEL ONLY: fuel exhausted (proved unreachable)
  deriving Repr, DecidableEq

/-- result of scanning one file: handler state, and either the final buffer (success) or the
    error (the buffer is freed).  `first` is the root cause (first error logged). -/
structure Out (σ : Type) where
  st : σ
  err : Option Err          -- `none` = parse_ini_file returns true
  first : Option Err        -- the innermost error
  buf : Bytes               -- buffer content at `free(buf); return true` ([] after a failure)

def rd (buf : Bytes) (i : Nat) : Option UInt8 := buf[i]?

def wr (buf : Bytes) (i : Nat) (v : UInt8) : Option Bytes :=
  if i < buf.length then some (buf.set i v) else none

/-- `while (*p && f(*p)) p++` — `none` = read outside the buffer -/
def skipWhile (f : UInt8 → Bool) (buf : Bytes) : Nat → Nat → Option Nat
  | 0, _ => none
  | fuel + 1, p =>
    match rd buf p with
    | none => none
    | some c => if c != 0 && f c then skipWhile f buf fuel (p + 1) else some p

/-- `strncmp(p, lit, |lit|) == 0` for a NUL-free literal, reading byte by byte -/
def matchLit (buf : Bytes) : Bytes → Nat → Option Bool
  | [], _ => some true
  | l :: ls, p =>
    match rd buf p with
    | none => none
    | some c => if c == l then matchLit buf ls (p + 1) else some false

/-- `while (vlen > 0 && isspace(val[vlen-1])) vlen--` -/
def trimLen (buf : Bytes) (val : Nat) : Nat → Option Nat
  | 0 => some 0
  | vlen + 1 =>
    match rd buf (val + vlen) with
    | none => none
    | some c => if isSpace c then trimLen buf val vlen else some (vlen + 1)

/-- the C string starting at offset `off` (as the handler reads it) -/
def cstr (buf : Bytes) (off : Nat) : Bytes := (buf.drop off).takeWhile (· != 0)

def isKeyCh (c : UInt8) : Bool :=
  isAlnum c || c.toNat == 95 || c.toNat == 46 || c.toNat == 45 || c.toNat == 42

def notNl (c : UInt8) : Bool := c.toNat != 10
def sectCh (c : UInt8) : Bool := c.toNat != 93 && c.toNat != 10

def includeLit : Bytes := [37, 105, 110, 99, 108, 117, 100, 101]   -- "%include"

/-- `strncmp(p, "%include", 8) == 0 && p[8] != 0 && isblank(p[8])` -/
def isIncludeAt (buf : Bytes) (p : Nat) : Option Bool :=
  match matchLit buf includeLit p with
  | none => none
  | some false => some false
  | some true =>
    match rd buf (p + 8) with
    | none => none
    | some c => some (c != 0 && isBlank c)

/-- what one round of the `while (*p)` loop decides -/
inductive Step (σ : Type) where
  | next (buf : Bytes) (p : Nat) (st : σ)      -- `continue`
  | done (buf : Bytes) (st : σ)                -- `break` / loop condition false
  | fail (st : σ) (e first : Err)              -- `goto failed` (the buffer is freed)

variable {σ : Type}

/-- the `%include` branch; `p` is at the `%` -/
def doInclude (incl : Bytes → σ → σ × Option Err) (level : Nat) (buf : Bytes) (p : Nat) (st : σ) :
    Step σ :=
  let n := buf.length
  let oob : Step σ := .fail st .oob .oob
  if level ≥ MAX_INCLUDE then .fail st .depth .depth else
  match skipWhile isBlank buf n (p + 8) with
  | none => oob
  | some val =>
  -- now read value
  match skipWhile notNl buf n val with
  | none => oob
  | some pe =>
  -- eat space at end
  match trimLen buf val (pe - val) with
  | none => oob
  | some vlen =>
  match rd buf (val + vlen) with
  | none => oob
  | some o1 =>
  match wr buf (val + vlen) 0 with
  | none => oob
  | some b1 =>
  match incl (cstr b1 val) st with
  | (st', r) =>
  match wr b1 (val + vlen) o1 with
  | none => oob
  | some b2 =>
  match r with
  | some e => .fail st' .incl e
  | none => .next b2 pe st'

/-- the `[section]` branch; `p` is at the `[` -/
def doSection (h : σ → Event → σ × Bool) (buf : Bytes) (p : Nat) (st : σ) : Step σ :=
  let n := buf.length
  let oob : Step σ := .fail st .oob .oob
  let key := p + 1
  match skipWhile sectCh buf n key with
  | none => oob
  | some pe =>
  match rd buf pe with
  | none => oob
  | some o1 =>
  if o1.toNat != 93 then .fail st .syntax .syntax else
  match wr buf pe 0 with
  | none => oob
  | some b1 =>
  match h st (.sect (cstr b1 key)) with
  | (st', false) => .fail st' .badSect .badSect
  | (st', true) =>
  match wr b1 pe o1 with
  | none => oob
  | some b2 => .next b2 (pe + 1) st'

/-- the `key = value` branch; `p` is at the first byte of the key -/
def doKeyVal (h : σ → Event → σ × Bool) (buf : Bytes) (p : Nat) (st : σ) : Step σ :=
  let n := buf.length
  let oob : Step σ := .fail st .oob .oob
  -- read key val
  let key := p
  match skipWhile isKeyCh buf n p with
  | none => oob
  | some p1 =>
  let klen := p1 - key
  -- expect '=', skip it
  match skipWhile isBlank buf n p1 with
  | none => oob
  | some p2 =>
  match rd buf p2 with
  | none => oob
  | some eq =>
  if eq.toNat != 61 then .fail st .syntax .syntax else
  match skipWhile isBlank buf n (p2 + 1) with
  | none => oob
  | some val =>
  -- now read value
  match skipWhile notNl buf n val with
  | none => oob
  | some pe =>
  -- eat space at end
  match trimLen buf val (pe - val) with
  | none => oob
  | some vlen =>
  -- skip junk
  match skipWhile isSpace buf n pe with
  | none => oob
  | some pn =>
  -- our buf is r/w, so take it easy
  match rd buf (key + klen), rd buf (val + vlen) with
  | some o1, some o2 =>
    match wr buf (key + klen) 0 with
    | none => oob
    | some b1 =>
    match wr b1 (val + vlen) 0 with
    | none => oob
    | some b2 =>
    match h st (.kv (cstr b2 key) (cstr b2 val)) with
    | (st', ok) =>
    -- restore data, to keep count_lines() working
    match wr b2 (key + klen) o1 with
    | none => oob
    | some b3 =>
    match wr b3 (val + vlen) o2 with
    | none => oob
    | some b4 =>
    if ok then .next b4 pn st' else .fail st' .badVal .badVal
  | _, _ => oob

/-- body of the loop.  `incl name st` processes an include file one level deeper; `h` is the
    user handler. -/
def stepAt (incl : Bytes → σ → σ × Option Err) (h : σ → Event → σ × Bool) (level : Nat)
    (buf : Bytes) (p : Nat) (st : σ) : Step σ :=
  let oob : Step σ := .fail st .oob .oob
  -- space at the start of line - including empty lines
  match skipWhile isSpace buf buf.length p with
  | none => oob
  | some p =>
  match isIncludeAt buf p with
  | none => oob
  | some true => doInclude incl level buf p st
  | some false =>
  match rd buf p with
  | none => oob
  | some c =>
  -- skip comment lines
  if c.toNat == 35 || c.toNat == 59 then
    match skipWhile notNl buf buf.length p with
    | none => oob
    | some p' => .next buf p' st
  -- got new section
  else if c.toNat == 91 then doSection h buf p st
  -- done?
  else if c == 0 then .done buf st
  else doKeyVal h buf p st

/-- `while (*p) { … }` -/
def loop (incl : Bytes → σ → σ × Option Err) (h : σ → Event → σ × Bool) (level : Nat) :
    Nat → Bytes → Nat → σ → Out σ
  | 0, _, _, st => ⟨st, some .fuel, some .fuel, []⟩
  | fuel + 1, buf, p, st =>
    match rd buf p with
    | none => ⟨st, some .oob, some .oob, []⟩
    | some c =>
      if c == 0 then ⟨st, none, none, buf⟩ else
      match stepAt incl h level buf p st with
      | .next b p' st' => loop incl h level fuel b p' st'
      | .done b st' => ⟨st', none, none, b⟩
      | .fail st' e f => ⟨st', some e, some f, []⟩

/-- `load_file`: the file's bytes and the terminating NUL -/
def loadBuf (content : Bytes) : Bytes := content ++ [0]

/-- `parse_ini_file_internal(fn, h, arg, level)`; `depth` bounds the include recursion.
    Returns handler state, result (`none` = true), root cause. -/
def scanFile (fs : Bytes → Option Bytes) (h : σ → Event → σ × Bool) :
    Nat → Bytes → Nat → σ → σ × Option Err × Option Err
  | 0, _, _, st => (st, some .fuel, some .fuel)
  | depth + 1, name, level, st =>
    match fs name with
    | none => (st, some .noFile, some .noFile)
    | some content =>
      let buf := loadBuf content
      let o := loop (fun nm s =>
                      let r := scanFile fs h depth nm (level + 1) s
                      (r.1, match r.2.1 with | none => none | some _ => r.2.2))
                 h level (buf.length + 1) buf 0 st
      (o.st, o.err, o.first)

/-- `parse_ini_file(fn, h, arg)` -/
def parseIni (fs : Bytes → Option Bytes) (h : σ → Event → σ × Bool) (name : Bytes) (st : σ) :
    σ × Option Err × Option Err :=
  scanFile fs h (MAX_INCLUDE + 2) name 0 st

/-- the logging handler of the harness: records every event, refuses the `failAt`-th (1-based;
    0 = never) -/
def logHandler (failAt : Nat) (st : List Event) (e : Event) : List Event × Bool :=
  let st' := st ++ [e]
  (st', !(failAt != 0 && st'.length == failAt))

/-- events delivered by `parse_ini_file` to a handler that accepts everything -/
def scan (fs : Bytes → Option Bytes) (name : Bytes) : Except Err (List Event) :=
  match parseIni fs (logHandler 0) name [] with
  | (evs, none, _) => .ok evs
  | (_, some e, _) => .error e

end Usual.C18
