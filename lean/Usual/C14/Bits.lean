/-!
# C14 models: `usual/bits.h` (ffs/fls families, portable-loop branch; `safe_mul_size`) and
`reallocarray` of `usual/base.c`

`w` is the width of the argument type in bits (32 for `int`, 64 for `long`/`long long` on the
build platform); the signed argument is passed as its unsigned bit pattern `x < 2^w`, which is
exactly the `unsigned type u = x` conversion of the macros.
-/
namespace Usual.C14

/-- `for (bit = 1; u > 1; bit++) u >>= 1; return bit` -/
def flsLoop : (fuel u bit : Nat) → Nat
  | 0, _, bit => bit
  | f + 1, u, bit => if u > 1 then flsLoop f (u / 2) (bit + 1) else bit

/-- `fls`/`flsl`/`flsll`: 1-based index of the highest set bit, 0 for 0 -/
def fls (w x : Nat) : Nat := if x = 0 then 0 else flsLoop w x 1

/-- `for (bit = 1; !(u & 1); bit++) u >>= 1; return bit` -/
def ffsLoop : (fuel u bit : Nat) → Nat
  | 0, _, bit => bit
  | f + 1, u, bit => if u % 2 = 0 then ffsLoop f (u / 2) (bit + 1) else bit

/-- `ffs`/`ffsl`/`ffsll`: 1-based index of the lowest set bit, 0 for 0 -/
def ffs (w x : Nat) : Nat := if x = 0 then 0 else ffsLoop w x 1

/-- `_USUAL_MUL_SAFE_` for a `w`-bit unsigned type: `some (a*b)` or `none` = "would overflow" -/
def safeMul (w a b : Nat) : Option Nat :=
  let unsafeLim := 2 ^ (w / 2)
  let max := 2 ^ w - 1
  if a < unsafeLim ∧ b < unsafeLim then some ((a * b) % 2 ^ w)
  else if a = 0 ∨ b = 0 then some ((a * b) % 2 ^ w)
  else if max / a ≥ b then some ((a * b) % 2 ^ w)
  else none

/-- what `reallocarray(p, count, size)` does: either calls `realloc(p, total)` (and returns its
    result) or fails with `errno = ENOMEM` without calling it -/
inductive ReallocArray
  | realloc (total : Nat)
  | enomem
deriving Repr, DecidableEq

def reallocarray (count size : Nat) : ReallocArray :=
  match safeMul 64 count size with
  | some t => .realloc t
  | none => .enomem

end Usual.C14
