import Usual.C14.Str
/-!
# C14 models of the replacements that sit on top of libc services

* `cx_vasprintf` (usual/cxalloc.c, with repair F06) below `asprintf`/`vasprintf` — the formatter
  is a parameter: `out` is the complete text `vsnprintf` would produce for the call;
* `getline` (usual/fileutil.c, with repair F26) — the stream is the list of unread bytes;
* `mbsnrtowcs` (usual/wchar.c, with repair F27) — `mbrtowc` is a parameter;
* `timegm` (usual/time.c) — the code is TZ juggling around `mktime`; the model IS the
  specification: proleptic-Gregorian days-from-civil.
-/
namespace Usual.C14

/-! ## cx_vasprintf -/

/-- `vsnprintf(buf, size, fmt, ap)`: returns the length of the complete output and stores
    `min(len, size-1)` bytes plus a NUL (nothing when `size = 0`) -/
def vsnprintf (out : Bytes) (size : Nat) : Nat × Bytes :=
  (out.length, if size = 0 then [] else out.take (size - 1) ++ [0])

/-- size of the stack buffer of `cx_vasprintf` -/
def vaBuf : Nat := 128

/-- `cx_vasprintf` (repaired: both passes format the same arguments).  Returns the return value
    and the contents of the freshly allocated block of `res + 1` bytes (`none` = `*dst_p = NULL`). -/
def cxVasprintf (out : Bytes) : Int × Option Bytes :=
  let p1 := vsnprintf out vaBuf
  let res := p1.1
  if res < vaBuf then (res, some (p1.2.take (res + 1)))       -- memcpy(dst, buf, res+1)
  else
    let p2 := vsnprintf out (res + 1)                          -- second pass straight into dst
    if p2.1 ≠ res then (-1, none) else (res, some p2.2)

/-- the unrepaired code: the second pass runs on a consumed `va_list`, i.e. formats *something
    else* (`out2`, whatever the stale register-save area yields) -/
def cxVasprintfOld (out out2 : Bytes) : Int × Option Bytes :=
  let p1 := vsnprintf out vaBuf
  let res := p1.1
  if res < vaBuf then (res, some (p1.2.take (res + 1)))
  else
    let p2 := vsnprintf out2 (res + 1)
    if p2.1 ≠ res then (-1, none) else (res, some p2.2)

/-! ## getline -/

/-- bytes of the next line: up to and including the first `\n`, or everything -/
def nextLine : Bytes → Bytes
  | [] => []
  | c :: r => if c = 10 then [10] else c :: nextLine r

/-- `*size_p *= 2` until `need ≤ size` -/
def growCap : (fuel size need : Nat) → Nat
  | 0, size, _ => size
  | f + 1, size, need => if need ≤ size then size else growCap f (size * 2) need

structure GetLine where
  ret : Int                -- length of the line, -1 at end of file
  line : Bytes             -- buffer contents `line[0 .. ret]` (terminator included); [] when ret = -1
  size : Nat               -- *size_p afterwards
  rest : Bytes             -- unread bytes afterwards
deriving Repr, DecidableEq

/-- one call of `getline(&line, &size, f)`; `cap = none` ⇔ `*line_p == NULL` -/
def getline (file : Bytes) (cap : Option Nat) : GetLine :=
  let size0 := match cap with
    | none => 512
    | some c => if c < 128 then 512 else c
  let l := nextLine file
  if l = [] then ⟨-1, [], size0, file⟩
  else ⟨l.length, l ++ [0], growCap l.length size0 (l.length + 1), file.drop l.length⟩

/-- the unrepaired `getline` (fgets + strlen): after the first `fgets` into a `size`-byte buffer
    it inspects `(*line_p)[len - 1]` with `len = strlen(chunk)`; this is that index -/
def getlineOldIndex (file : Bytes) (size : Nat) : Int :=
  let chunk := (nextLine file).take (size - 1)
  ((cstr chunk).length : Int) - 1

/-! ## mbsnrtowcs -/

/-- result of `mbrtowc(w, s, n, ps)` on the bytes `s[0..n)` -/
inductive MbRes
  | char (len : Nat) (wc : Nat)     -- > 0: a character of `len` bytes
  | nul                              -- 0: the NUL character
  | invalid                          -- (size_t)-1
  | incomplete                       -- (size_t)-2 (the code reads it into an `int`: -2)
deriving Repr, DecidableEq

structure Mbs where
  ret : Option Nat          -- `none` = (size_t)-1
  srcp : Option Nat         -- new `*src_p` as offset (`none` = NULL)
  dst : List Nat            -- the whole destination array afterwards
deriving Repr, DecidableEq

/-- the loop of `mbsnrtowcs`; `s` = unread bytes up to `s_end`, `off` = their offset,
    `hasDst` = `dst != NULL`, `w` = wide chars stored so far (reversed) -/
def mbsLoop (mbr : Bytes → MbRes) (hasDst : Bool) (dstlen : Nat) :
    (fuel : Nat) → (s : Bytes) → (off count : Nat) → (w : List Nat) → (Option Nat × Option Nat × List Nat)
  | 0, _, off, count, w => (some count, some off, w)
  | f + 1, s, off, count, w =>
    if s = [] then (some count, some off, w)                       -- end due to srclen
    else if hasDst ∧ count ≥ dstlen then (some count, some off, w)  -- dst is full
    else
      match mbr s with
      | .char len wc =>
        mbsLoop mbr hasDst dstlen f (s.drop len) (off + len) (count + 1) (if hasDst then wc :: w else w)
      | .nul => (some count, none, if hasDst then 0 :: w else w)
      | .invalid => (none, some off, w)
      -- F43: the input ends inside a character: mbrtowc has taken the bytes into `*ps`; the scan
      -- stops at the end of the input and the count is returned (POSIX; it was (size_t)-1)
      | .incomplete => (some count, some (off + s.length), w)

/-- `mbsnrtowcs(dst, &src, srclen, dstlen, ps)`; `dst = none` ⇔ NULL, otherwise its initial
    contents (`dstlen` cells).  With a NULL `dst`, `*src` is left alone (POSIX; repair F27). -/
def mbsnrtowcs (mbr : Bytes → MbRes) (src : Bytes) (srclen : Nat) (dst : Option (List Nat)) : Mbs :=
  match dst with
  | none =>
    let r := mbsLoop mbr false 0 (srclen + 1) (src.take srclen) 0 0 []
    ⟨r.1, some 0, []⟩
  | some d =>
    let r := mbsLoop mbr true d.length (srclen + 1) (src.take srclen) 0 0 []
    let w := r.2.2.reverse
    ⟨r.1, r.2.1, w ++ d.drop w.length⟩

/-! ### the conversion state `*ps`

`mbrtowc` keeps the bytes of a character that was cut short in `*ps` (F43: `mbsnrtowcs` then stops and
returns the count).  The next call on the same state continues that character: `mbrtowc(ps = pend)` on
`s` behaves like the stateless `mbr` on `pend ++ s`, consuming `len - |pend|` bytes of `s`.  The state is
modelled as the pending bytes (`[]` = initial state, `mbsinit`). -/

/-- the loop of `mbsnrtowcs` started with `pend` in `*ps`; also yields the state afterwards -/
def mbsLoopSt (mbr : Bytes → MbRes) (hasDst : Bool) (dstlen : Nat) :
    (fuel : Nat) → (pend s : Bytes) → (off count : Nat) → (w : List Nat) →
      (Option Nat × Option Nat × List Nat) × Bytes
  | 0, pend, _, off, count, w => ((some count, some off, w), pend)
  | f + 1, pend, s, off, count, w =>
    if s = [] then ((some count, some off, w), pend)
    else if hasDst ∧ count ≥ dstlen then ((some count, some off, w), pend)
    else
      match mbr (pend ++ s) with
      | .char len wc =>
        mbsLoopSt mbr hasDst dstlen f [] (s.drop (len - pend.length)) (off + (len - pend.length)) (count + 1)
          (if hasDst then wc :: w else w)
      | .nul => ((some count, none, if hasDst then 0 :: w else w), [])
      | .invalid => ((none, some off, w), pend)
      | .incomplete => ((some count, some (off + s.length), w), pend ++ s)

/-- `mbsnrtowcs(dst, &src, srclen, dstlen, ps)` with `pend` in `*ps`; the second component is `*ps` afterwards
    (`ps == NULL`: the function's own internal state, used the same way — POSIX) -/
def mbsnrtowcsSt (mbr : Bytes → MbRes) (pend src : Bytes) (srclen : Nat) (dst : Option (List Nat)) : Mbs × Bytes :=
  match dst with
  | none =>
    -- only counting: the conversion runs on a copy of the state, `*ps` is not advanced (as the
    -- platform does; F44)
    let r := mbsLoopSt mbr false 0 (srclen + 1) pend (src.take srclen) 0 0 []
    (⟨r.1.1, some 0, []⟩, pend)
  | some d =>
    let r := mbsLoopSt mbr true d.length (srclen + 1) pend (src.take srclen) 0 0 []
    let w := r.1.2.2.reverse
    (⟨r.1.1, r.1.2.1, w ++ d.drop w.length⟩, r.2)

/-- the unrepaired code assigned `*src_p` also when `dst == NULL`: the value it stored -/
def mbsnrtowcsOldSrcp (mbr : Bytes → MbRes) (src : Bytes) (srclen : Nat) : Option Nat :=
  (mbsLoop mbr false 0 (srclen + 1) (src.take srclen) 0 0 []).2.1

/-- a model of glibc's `mbrtowc` in a UTF-8 locale (used by the driver only; the theorems take
    `mbr` as a parameter) -/
def utf8Mbr (s : Bytes) : MbRes :=
  let cont (b : Nat) : Bool := 128 ≤ b && b < 192
  match s with
  | [] => .incomplete
  | b0 :: r =>
    if b0 = 0 then .nul
    else if b0 < 128 then .char 1 b0
    else if b0 < 0xc2 then .invalid
    else if b0 < 0xe0 then
      match r with
      | [] => .incomplete
      | b1 :: _ => if cont b1 then .char 2 ((b0 - 0xc0) * 64 + (b1 - 128)) else .invalid
    else if b0 < 0xf0 then
      -- glibc checks the shape byte by byte (a truncated sequence is "incomplete" even when it
      -- could never become valid) and the value range only once the sequence is complete
      match r with
      | [] => .incomplete
      | b1 :: r2 =>
        if !cont b1 then .invalid
        else
          match r2 with
          | [] => .incomplete
          | b2 :: _ =>
            if !cont b2 then .invalid
            else if b0 = 0xe0 ∧ b1 < 0xa0 then .invalid           -- overlong
            else if b0 = 0xed ∧ b1 ≥ 0xa0 then .invalid           -- UTF-16 surrogates
            else .char 3 ((b0 - 0xe0) * 4096 + (b1 - 128) * 64 + (b2 - 128))
    else if b0 < 0xf8 then
      match r with
      | [] => .incomplete
      | b1 :: r2 =>
        if !cont b1 then .invalid
        else
          match r2 with
          | [] => .incomplete
          | b2 :: r3 =>
            if !cont b2 then .invalid
            else
              match r3 with
              | [] => .incomplete
              | b3 :: _ =>
                if !cont b3 then .invalid
                else if b0 = 0xf0 ∧ b1 < 0x90 then .invalid       -- overlong
                else
                  .char 4 ((b0 - 0xf0) * 262144 + (b1 - 128) * 4096 + (b2 - 128) * 64 + (b3 - 128))
    else .invalid

/-! ## timegm: the specification -/

/-- days since 1970-01-01 of the proleptic-Gregorian civil date `y-m-d` (`1 ≤ m ≤ 12`) -/
def daysFromCivil (y m d : Int) : Int :=
  let y' := if m ≤ 2 then y - 1 else y
  let era := y' / 400                       -- floor division (`Int./` rounds toward −∞)
  let yoe := y' - era * 400
  let mp := if m > 2 then m - 3 else m + 9
  let doy := (153 * mp + 2) / 5 + d - 1
  let doe := yoe * 365 + yoe / 4 - yoe / 100 + doy
  era * 146097 + doe - 719468

structure TimeGm where
  secs : Int
  wday : Int
  yday : Int
deriving Repr, DecidableEq

/-- `timegm` of broken-down UTC time; `mon` is 1-based and may be out of range (normalised
    like `mktime`: whole years are carried into `y`), the other fields are linear -/
def timegm (y mon d h mi s : Int) : TimeGm :=
  let m0 := mon - 1
  let yy := y + m0 / 12
  let mm := m0 % 12 + 1
  let days := daysFromCivil yy mm 1 + (d - 1)
  let secs := days * 86400 + h * 3600 + mi * 60 + s
  let day := secs / 86400
  ⟨secs, (day + 4) % 7, 0⟩

end Usual.C14
