/-!
# C14 models: the string / memory replacements of `usual/string.c`

One small executable model per function, mirroring the compat C code that is compiled when the
matching `HAVE_*` is undefined.  Bytes are `Nat`s (< 256 in the driver), buffers are lists, a
pointer result is an offset into the buffer it points into (`none` = `NULL`).  Every model that
stores returns the **complete** destination buffer, so "performs the same writes and nothing
else" is the statement that the returned buffer equals the specified one *everywhere*.

`blit dst off src` is `memcpy(dst + off, src, |src|)`.  If the C code stored outside the buffer
the model buffer would change length; the `*_spec` theorems prove `length` is preserved under
the caller's contract (`n ≤ |dst|`), which is the "never touches memory outside" part.
-/
namespace Usual.C14

abbrev Bytes := List Nat

/-- the C string at the start of a buffer: bytes before the first NUL -/
def cstr (s : Bytes) : Bytes := s.takeWhile (· ≠ 0)

/-- `memcpy(dst + off, src, |src|)` -/
def blit (dst : Bytes) (off : Nat) (src : Bytes) : Bytes :=
  dst.take off ++ src ++ dst.drop (off + src.length)

/-! ## strlcpy / strlcat (OpenBSD) -/

/-- `strlcpy`: `len = strlen(src); if (len < n) memcpy(dst, src, len+1);
    else if (n > 0) { memcpy(dst, src, n-1); dst[n-1] = 0; } return len;` -/
def strlcpy (dst src : Bytes) (n : Nat) : Nat × Bytes :=
  let s := cstr src
  if s.length < n then (s.length, blit dst 0 (s ++ [0]))
  else if 0 < n then (s.length, blit (blit dst 0 (s.take (n - 1))) (n - 1) [0])
  else (s.length, dst)

/-- `while (pos < n && dst[pos]) pos++` -/
def scanNul (dst : Bytes) (n : Nat) : Nat := ((dst.take n).takeWhile (· ≠ 0)).length

/-- `strlcat`: `return pos + strlcpy(dst + pos, src, n - pos)` -/
def strlcat (dst src : Bytes) (n : Nat) : Nat × Bytes :=
  let pos := scanNul dst n
  let r := strlcpy (dst.drop pos) src (n - pos)
  (pos + r.1, dst.take pos ++ r.2)

/-! ## strpcpy / strpcat (libusual's own "safe copy returning the end pointer") -/

/-- `strpcpy`: copies byte by byte; on truncation the last byte stored is overwritten by NUL
    and `NULL` is returned; otherwise the offset of the terminator. -/
def strpcpy (dst src : Bytes) (n : Nat) : Option Nat × Bytes :=
  let s := cstr src
  if n = 0 then (none, dst)
  else if s.length < n then (some s.length, blit dst 0 (s ++ [0]))
  else (none, blit dst 0 (s.take (n - 1) ++ [0]))

/-- `strnlen`: `end = memchr(s, 0, maxlen); return end ? end - s : maxlen` -/
def strnlen (s : Bytes) (maxlen : Nat) : Nat := ((s.take maxlen).takeWhile (· ≠ 0)).length

/-- `strpcat` -/
def strpcat (dst src : Bytes) (n : Nat) : Option Nat × Bytes :=
  let dl := strnlen dst n
  if dl < n then
    let r := strpcpy (dst.drop dl) src (n - dl)
    (r.1.map (· + dl), dst.take dl ++ r.2)
  else (none, dst)

/-- `mempcpy`: `memcpy(dst, src, n); return dst + n` -/
def mempcpy (dst src : Bytes) (n : Nat) : Nat × Bytes := (n, blit dst 0 (src.take n))

/-! ## strsep -/

/-- `strcspn(s, delim)` -/
def strcspn (s delim : Bytes) : Nat :=
  ((cstr s).takeWhile (fun b => !(cstr delim).contains b)).length

/-- `strsep(&s, delim)` for `s ≠ NULL`: returns the new `*stringp` (offset, `none` = NULL) and
    the buffer after the store `*end = 0`; the returned token is always offset 0. -/
def strsep (s delim : Bytes) : Option Nat × Bytes :=
  let k := strcspn s delim
  (if s.getD k 0 ≠ 0 then some (k + 1) else none, s.set k 0)

/-- `strsep(&s, delim)` with `*stringp` possibly NULL: the returned token (offset; `none` = NULL),
    the new `*stringp`, the buffer (`none` = there is none).  With NULL nothing is read or stored. -/
def strsepP (s : Option Bytes) (delim : Bytes) : Option Nat × Option Nat × Option Bytes :=
  match s with
  | none => (none, none, none)
  | some b => (some 0, (strsep b delim).1, some (strsep b delim).2)

/-! ## memrchr (with repair F16) -/

/-- `(unsigned char)c` for a C `int` -/
def ucharOf (c : Int) : Nat := (c % 256).toNat

/-- `while (n--) if (p[n] == ch) return p + n; return NULL` -/
def memrchrFrom (p : Bytes) (ch : Nat) : Nat → Option Nat
  | 0 => none
  | n + 1 => if p.getD n 0 = ch then some n else memrchrFrom p ch n

def memrchr (p : Bytes) (c : Int) (n : Nat) : Option Nat := memrchrFrom p (ucharOf c) n

/-- the unrepaired code: `p[n] == c` compares the promoted byte with the *int* `c` -/
def memrchrOld (p : Bytes) (c : Int) : Nat → Option Nat
  | 0 => none
  | n + 1 => if (Int.ofNat (p.getD n 0)) = c then some n else memrchrOld p c n

/-! ## memmem -/

/-- `memchr(s, c, n)` -/
def memchr (s : Bytes) (c : Nat) (n : Nat) : Option Nat := (s.take n).findIdx? (· == c)

/-- the needle occurs in the haystack at offset `i` -/
def matchAt (h q : Bytes) (i : Nat) : Bool := (h.drop i).take q.length == q

/-- `for (i = s2 - s; i <= hlen - nlen; i++) if (match at i) return s + i;` -/
def memmemLoop (h q : Bytes) : (fuel i : Nat) → Option Nat
  | 0, _ => none
  | f + 1, i => if matchAt h q i then some i else memmemLoop h q f (i + 1)

def memmem (h q : Bytes) : Option Nat :=
  if q.length = 0 then some 0
  else if q.length > h.length then none
  else
    match memchr h (q.getD 0 0) h.length with
    | none => none
    | some s2 =>
      if q.length = 1 then some s2
      else memmemLoop h q (h.length - q.length + 1 - s2) s2

/-! ## mempbrk / memspn / memcspn (libusual's own) -/

def mempbrk (d f : Bytes) : Option Nat := d.findIdx? (fun b => f.contains b)
def memspn (d a : Bytes) : Nat := (d.takeWhile (fun b => a.contains b)).length
def memcspn (d r : Bytes) : Nat :=
  match mempbrk d r with
  | some i => i
  | none => d.length

/-! ## basename / dirname (POSIX; never modify the argument) -/

def cSlash : Nat := 47
def cDot : Nat := 46

/-- strip trailing `/` -/
def rstripSlash (p : Bytes) : Bytes := (p.reverse.dropWhile (· = cSlash)).reverse
/-- what follows the last `/` (the whole string when there is none) -/
def lastComp (p : Bytes) : Bytes := (p.reverse.takeWhile (· ≠ cSlash)).reverse
/-- everything up to and including the last `/` (`[]` when there is none) -/
def uptoLastSlash (p : Bytes) : Bytes := (p.reverse.dropWhile (· ≠ cSlash)).reverse
def lastN (n : Nat) (p : Bytes) : Bytes := p.drop (p.length - n)

/-- size of the static buffer of `basename` minus the terminator -/
def basenameBuf : Nat := 255
/-- size of the static buffer of `dirname` minus the terminator -/
def dirnameBuf : Nat := 1023

/-- `basename(path)`; `none` = NULL argument -/
def basename (path : Option Bytes) : Bytes :=
  match path with
  | none => [cDot]
  | some p0 =>
    let p := cstr p0
    if p = [] then [cDot]
    else if !p.contains cSlash then p
    else if p.getLast? ≠ some cSlash then lastComp p
    else
      let b := rstripSlash p
      if b = [] then [cSlash] else lastComp (lastN basenameBuf b)

/-- where the result of `basename` lives: offset into `path`, or `none` = static buffer -/
def basenameLoc (path : Option Bytes) : Option Nat :=
  match path with
  | none => none
  | some p0 =>
    let p := cstr p0
    if p = [] then none
    else if !p.contains cSlash then some 0
    else if p.getLast? ≠ some cSlash then some (p.length - (lastComp p).length)
    else if rstripSlash p = [] then some (p.length - 1) else none

/-- `dirname(path)`; result `none` = NULL with `errno = ENAMETOOLONG` -/
def dirname (path : Option Bytes) : Option Bytes :=
  match path with
  | none => some [cDot]
  | some p0 =>
    let p := cstr p0
    if p = [] then some [cDot]
    else
      let a := rstripSlash p
      if a = [] then some [cSlash]
      else if !a.contains cSlash then some [cDot]
      else
        let d := rstripSlash (uptoLastSlash a)
        if d = [] then some [cSlash]
        else if d.length > dirnameBuf then none
        else some d

/-! ## strtonum (OpenBSD), on top of a model of `strtoll(s, &end, 10)` in the C locale -/

def isSpace (c : Nat) : Bool := c == 32 || (9 ≤ c && c ≤ 13)
def isDigit (c : Nat) : Bool := 48 ≤ c && c ≤ 57
def digitsVal (ds : Bytes) : Nat := ds.foldl (fun a d => a * 10 + (d - 48)) 0

def llMax : Int := 9223372036854775807
def llMin : Int := -9223372036854775808

/-- result of `strtoll`: value, number of bytes consumed (0 = no conversion, `end == s`),
    `errno == ERANGE` -/
structure Strtoll where
  val : Int
  consumed : Nat
  erange : Bool
deriving Repr, DecidableEq

def strtoll (s0 : Bytes) : Strtoll :=
  let s := cstr s0
  let ws := s.takeWhile isSpace
  let r := s.drop ws.length
  let neg := r.head? == some 45
  let signLen := if r.head? == some 45 || r.head? == some 43 then 1 else 0
  let ds := (r.drop signLen).takeWhile isDigit
  if ds = [] then ⟨0, 0, false⟩
  else
    let m : Int := Int.ofNat (digitsVal ds)
    let v := if neg then -m else m
    let e := ws.length + signLen + ds.length
    if v > llMax then ⟨llMax, e, true⟩
    else if v < llMin then ⟨llMin, e, true⟩
    else ⟨v, e, false⟩

inductive NumErr | ok | small | large | invalid
deriving Repr, DecidableEq

/-- `strtonum(s, minval, maxval, &errstr)` (with repair F39: the OpenBSD order — a string that
    is not entirely a number is "invalid" even when its digits overflow): value and which `errstr`
    is stored (`ok` = NULL, errno kept; `small`/`large` = ERANGE; `invalid` = EINVAL) -/
def strtonum (s : Bytes) (minv maxv : Int) : Int × NumErr :=
  if minv > maxv then (0, .invalid)
  else
    let r := strtoll s
    if r.consumed ≠ (cstr s).length ∨ r.consumed = 0 then (0, .invalid)
    else if r.erange then (if r.val < 0 then (0, .small) else (0, .large))
    else if r.val < minv then (0, .small)
    else if r.val > maxv then (0, .large)
    else (r.val, .ok)

/-- the unrepaired order: the ERANGE test came before the trailing-garbage test -/
def strtonumOld (s : Bytes) (minv maxv : Int) : Int × NumErr :=
  if minv > maxv then (0, .invalid)
  else
    let r := strtoll s
    if r.erange then (if r.val < 0 then (0, .small) else (0, .large))
    else if r.consumed ≠ (cstr s).length ∨ r.consumed = 0 then (0, .invalid)
    else if r.val < minv then (0, .small)
    else if r.val > maxv then (0, .large)
    else (r.val, .ok)

/-- the string stored through `errstr_p` (`none` = NULL) -/
def NumErr.errstr : NumErr → Option String
  | .ok => none
  | .small => some "too small"
  | .large => some "too large"
  | .invalid => some "invalid"

/-- `errno` afterwards (`none` = the caller's value is kept) -/
def NumErr.errno : NumErr → Option String
  | .ok => none
  | .small => some "ERANGE"
  | .large => some "ERANGE"
  | .invalid => some "EINVAL"

end Usual.C14
