import Usual.C14.Str
/-!
# C14 models: `inet_ntop` (usual/socket_ntop.c) and `inet_pton` (usual/socket_pton.c)
(Paul Vixie's 1996 BSD code).

Addresses are byte lists (4 / 16 entries), text is a byte list without the terminator.
`ntop*` return `none` for `NULL`/`ENOSPC` (destination untouched) or the new contents of the
whole `size`-byte destination.  `pton*` return `none` for "not a valid address" (return value 0,
destination untouched) or the address bytes.
-/
namespace Usual.C14

def cColon : Nat := 58

/-- `%u` for a value below 1000 -/
def dec3 (b : Nat) : Bytes :=
  if b < 10 then [48 + b]
  else if b < 100 then [48 + b / 10, 48 + b % 10]
  else [48 + b / 100, 48 + b / 10 % 10, 48 + b % 10]

def hexDig (d : Nat) : Nat := if d < 10 then 48 + d else 87 + d

/-- `%x` for a value below 65536 (no leading zeros) -/
def hex4 (w : Nat) : Bytes :=
  if w < 16 then [hexDig w]
  else if w < 256 then [hexDig (w / 16), hexDig (w % 16)]
  else if w < 4096 then [hexDig (w / 256), hexDig (w / 16 % 16), hexDig (w % 16)]
  else [hexDig (w / 4096), hexDig (w / 256 % 16), hexDig (w / 16 % 16), hexDig (w % 16)]

/-- the text `inet_ntop4` formats: `"%u.%u.%u.%u"` -/
def ntop4Text (a : Bytes) : Bytes :=
  dec3 (a.getD 0 0) ++ [cDot] ++ dec3 (a.getD 1 0) ++ [cDot] ++ dec3 (a.getD 2 0) ++ [cDot] ++ dec3 (a.getD 3 0)

/-- common tail of `inet_ntop4/6`: size check, then `strlcpy(dst, tmp, size)` -/
def ntopStore (text dst : Bytes) (size : Nat) : Option Bytes :=
  if text.length + 1 > size then none else some (strlcpy dst text size).2

def ntop4 (a dst : Bytes) (size : Nat) : Option Bytes := ntopStore (ntop4Text a) dst size

/-- the eight 16-bit words of an IPv6 address -/
def words6 (a : Bytes) : List Nat :=
  (List.range 8).map fun i => a.getD (2 * i) 0 * 256 + a.getD (2 * i + 1) 0

/-- state of the zero-run scan: `best`, `cur` as `(base, len)` (`none` = `base == -1`) -/
structure RunSt where
  best : Option (Nat × Nat)
  cur : Option (Nat × Nat)
deriving Repr, DecidableEq

/-- `if (best.base == -1 || cur.len > best.len) best = cur;` -/
def better (best : Option (Nat × Nat)) (cur : Nat × Nat) : Option (Nat × Nat) :=
  match best with
  | none => some cur
  | some b => if cur.2 > b.2 then some cur else some b

/-- one iteration of the scan loop at index `i` with word `w` -/
def runStep (st : RunSt) (i w : Nat) : RunSt :=
  if w = 0 then
    match st.cur with
    | none => { st with cur := some (i, 1) }
    | some c => { st with cur := some (c.1, c.2 + 1) }
  else
    match st.cur with
    | none => st
    | some c => { best := better st.best c, cur := none }

def runScan : RunSt → Nat → List Nat → RunSt
  | st, _, [] => st
  | st, i, w :: ws => runScan (runStep st i w) (i + 1) ws

/-- the run that is replaced by `::` — the code's scan: longest run of zero words, the FIRST one
    among equals, and only when its length is ≥ 2 -/
def bestRun (ws : List Nat) : Option (Nat × Nat) :=
  let st := runScan ⟨none, none⟩ 0 ws
  let best := match st.cur with
    | none => st.best
    | some c => better st.best c
  match best with
  | some b => if b.2 < 2 then none else some b
  | none => none

/-- `a:b:c` -/
def joinHex : List Nat → Bytes
  | [] => []
  | [w] => hex4 w
  | w :: ws => hex4 w ++ [cColon] ++ joinHex ws

/-- `:a:b:c` -/
def colonHex (ws : List Nat) : Bytes := ws.flatMap fun w => cColon :: hex4 w

/-- the text `inet_ntop6` builds in `tmp` -/
def ntop6Text (a : Bytes) : Bytes :=
  let ws := words6 a
  match bestRun ws with
  | none => joinHex ws
  | some (b, l) =>
    if b = 0 ∧ (l = 6 ∨ (l = 5 ∧ ws.getD 5 0 = 0xffff)) then
      -- encapsulated IPv4: `::a.b.c.d` / `::ffff:a.b.c.d`
      [cColon] ++ (if l = 5 then cColon :: hex4 0xffff else []) ++ [cColon] ++ ntop4Text (a.drop 12)
    else
      let post := ws.drop (b + l)
      joinHex (ws.take b) ++ [cColon] ++ colonHex post ++ (if post = [] then [cColon] else [])

def ntop6 (a dst : Bytes) (size : Nat) : Option Bytes := ntopStore (ntop6Text a) dst size

/-! ## inet_pton4 -/

structure P4 where
  sawDigit : Bool
  octets : Nat
  done : List Nat      -- tmp[0 .. tp-tmp)
  cur : Nat            -- *tp
  nd : Nat             -- digits seen in the current field (F42: `saw_digit` counts them)
deriving Repr, DecidableEq

def P4.init : P4 := ⟨false, 0, [], 0, 0⟩

/-- F42: a field has at most three digits (POSIX inet_pton: "ddd ... a one to three digit decimal
    number between 0 and 255") -/
def pton4Step (st : P4) (ch : Nat) : Option P4 :=
  if 48 ≤ ch ∧ ch ≤ 57 then
    let nw := st.cur * 10 + (ch - 48)
    if nw > 255 then none
    else if !st.sawDigit then
      if st.octets + 1 > 4 then none
      else some { st with octets := st.octets + 1, sawDigit := true, cur := nw, nd := 1 }
    else if st.nd + 1 > 3 then none
    else some { st with cur := nw, nd := st.nd + 1 }
  else if ch = cDot ∧ st.sawDigit then
    if st.octets = 4 then none
    else some { st with sawDigit := false, done := st.done ++ [st.cur], cur := 0, nd := 0 }
  else none

def pton4Go : P4 → Bytes → Option P4
  | st, [] => some st
  | st, c :: r =>
    match pton4Step st c with
    | none => none
    | some st' => pton4Go st' r

/-- `inet_pton4` on the C string `src` (bytes before the first NUL) -/
def pton4 (src : Bytes) : Option Bytes :=
  match pton4Go P4.init (cstr src) with
  | none => none
  | some st => if st.octets < 4 then none else some (st.done ++ [st.cur])

/-! ## inet_pton6 -/

def hexVal? (c : Nat) : Option Nat :=
  if 48 ≤ c ∧ c ≤ 57 then some (c - 48)
  else if 97 ≤ c ∧ c ≤ 102 then some (c - 87)
  else if 65 ≤ c ∧ c ≤ 70 then some (c - 55)
  else none

structure P6 where
  out : Bytes                -- tmp[0 .. tp-tmp)
  colonp : Option Nat
  curtok : Bytes             -- the text from the start of the current token on
  sawX : Bool
  cnt : Nat
  val : Nat
deriving Repr, DecidableEq

/-- the main loop; result `none` = return 0; otherwise the state when the loop ends -/
def pton6Go : P6 → Bytes → Option P6
  | st, [] => some st
  | st, c :: rest =>
    match hexVal? c with
    | some d =>
      if st.cnt ≥ 4 then none
      else
        let v := st.val * 16 + d
        if v > 0xffff then none
        else pton6Go { st with val := v, sawX := true, cnt := st.cnt + 1 } rest
    | none =>
      if c = cColon then
        if !st.sawX then
          if st.colonp.isSome then none
          else pton6Go { st with curtok := rest, colonp := some st.out.length } rest
        else if rest = [] then none
        else if st.out.length + 2 > 16 then none
        else pton6Go { st with curtok := rest, out := st.out ++ [st.val / 256, st.val % 256],
                               sawX := false, cnt := 0, val := 0 } rest
      else if c = cDot ∧ st.out.length + 4 ≤ 16 then
        match pton4 st.curtok with
        | some v => some { st with out := st.out ++ v, sawX := false, cnt := 0 }
        | none => none
      else none

/-- where the loop starts: a leading `:` must be the first half of `::` and is skipped -/
def p6start (src : Bytes) : Option Bytes :=
  match src with
  | 58 :: 58 :: r => some (58 :: r)
  | 58 :: _ => none
  | _ => some src

/-- after the loop: a pending group is stored -/
def p6fin (st : P6) : Option Bytes :=
  if st.sawX then
    if st.out.length + 2 > 16 then none else some (st.out ++ [st.val / 256, st.val % 256])
  else some st.out

def pton6 (src0 : Bytes) : Option Bytes :=
  match p6start (cstr src0) with
  | none => none
  | some s =>
    match pton6Go ⟨[], none, s, false, 0, 0⟩ s with
    | none => none
    | some st =>
      match p6fin st with
      | none => none
      | some out =>
        match st.colonp with
        | some cp =>
          -- `::` seen: shift what follows it to the end, zero-fill the gap
          if out.length = 16 then none
          else some (out.take cp ++ List.replicate (16 - out.length) 0 ++ out.drop cp)
        | none => if out.length ≠ 16 then none else some out

end Usual.C14
