import Usual.C14.Str
/-!
# C14 model: `fnmatch` (usual/fnmatch.c)

Two models over wide characters (`Nat`):

* the **mirror** of the code: `classLoop` = `match_class`, `wfn` = the single-retry loop
  `wfnmatch` (with `disallow_wildcard`, the `*.` rule, `FNM_LEADING_DIR` at pattern end);
* the **reference**: `tokenize` turns a pattern into tokens (the bracket parser accepts what
  `match_class` accepts: `!`/`^` negation, `\` escapes inside brackets unless `FNM_NOESCAPE`,
  `[:class:]`; `[.x.]`/`[=x=]`/unknown classes never match; an unterminated `[` is a literal)
  and `refMatch` is a plain back-tracking matcher on tokens.  `Matches` (declarative glob
  semantics) and `refMatch_iff` live in `UsualProofs`.

Character classification is ASCII (`iswupper` … of the C/UTF-8 locale restricted to < 128).
Results: `0` match, `1` `FNM_NOMATCH`.
-/
namespace Usual.C14

structure FnFlags where
  pathname : Bool
  noescape : Bool
  period : Bool
  casefold : Bool
  leadingDir : Bool
deriving Repr, DecidableEq

/-- usual's numeric flag values: PATHNAME 1, NOESCAPE 2, PERIOD 4, CASEFOLD 8, LEADING_DIR 16 -/
def FnFlags.ofNat (n : Nat) : FnFlags :=
  ⟨n % 2 = 1, n / 2 % 2 = 1, n / 4 % 2 = 1, n / 8 % 2 = 1, n / 16 % 2 = 1⟩

def cStar : Nat := 42
def cQuest : Nat := 63
def cLB : Nat := 91
def cRB : Nat := 93
def cBSl : Nat := 92
def cBang : Nat := 33
def cCaret : Nat := 94
def cMinus : Nat := 45

def isUpperA (c : Nat) : Bool := 65 ≤ c && c ≤ 90
def isLowerA (c : Nat) : Bool := 97 ≤ c && c ≤ 122
def toUpperA (c : Nat) : Nat := if isLowerA c then c - 32 else c
def toLowerA (c : Nat) : Nat := if isUpperA c then c + 32 else c

/-- `cmp_fold` -/
def cmpFold (fl : FnFlags) (c1 c2 : Nat) : Bool :=
  c1 == c2 ||
  (fl.casefold &&
    (if isUpperA c1 && isLowerA c2 then c1 == toUpperA c2
     else if isLowerA c1 && isUpperA c2 then c1 == toLowerA c2
     else false))

/-- `range_fold` -/
def rangeFold (fl : FnFlags) (c r1 r2 : Nat) : Bool :=
  (r1 ≤ c && c ≤ r2) ||
  (fl.casefold &&
    (if isUpperA c && isLowerA r1 && isLowerA r2 then r1 ≤ toLowerA c && toLowerA c ≤ r2
     else if isLowerA c && isUpperA r1 && isUpperA r2 then r1 ≤ toUpperA c && toUpperA c ≤ r2
     else false))

/-- the twelve POSIX character classes -/
inductive CClass
  | alnum | alpha | blank | cntrl | digit | graph | lower | print | punct | space | upper | xdigit
deriving Repr, DecidableEq

def bytesOf (s : String) : List Nat := s.toList.map Char.toNat

/-- `wctype_wcsn`: the name must be shorter than 10 printable ASCII characters and known -/
def cclassOf (name : List Nat) : Option CClass :=
  if name = bytesOf "alnum" then some .alnum
  else if name = bytesOf "alpha" then some .alpha
  else if name = bytesOf "blank" then some .blank
  else if name = bytesOf "cntrl" then some .cntrl
  else if name = bytesOf "digit" then some .digit
  else if name = bytesOf "graph" then some .graph
  else if name = bytesOf "lower" then some .lower
  else if name = bytesOf "print" then some .print
  else if name = bytesOf "punct" then some .punct
  else if name = bytesOf "space" then some .space
  else if name = bytesOf "upper" then some .upper
  else if name = bytesOf "xdigit" then some .xdigit
  else none

/-- `iswctype` for ASCII -/
def inCClass (k : CClass) (c : Nat) : Bool :=
  let dig := 48 ≤ c && c ≤ 57
  let alpha := isUpperA c || isLowerA c
  match k with
  | .alnum => dig || alpha
  | .alpha => alpha
  | .blank => c == 32 || c == 9
  | .cntrl => c < 32 || c == 127
  | .digit => dig
  | .graph => 33 ≤ c && c ≤ 126
  | .lower => isLowerA c
  | .print => 32 ≤ c && c ≤ 126
  | .punct => (33 ≤ c && c ≤ 126) && !(dig || alpha)
  | .space => c == 32 || (9 ≤ c && c ≤ 13)
  | .upper => isUpperA c
  | .xdigit => dig || (65 ≤ c && c ≤ 70) || (97 ≤ c && c ≤ 102)

/-- index of the first occurrence (`wcschr`) -/
def idxOf (x : Nat) (l : List Nat) : Option Nat := l.findIdx? (· == x)

/-- `[:name:]`, `[.x.]`, `[=x=]` at the head of `p` (inside a bracket expression):
    `none` = not of that form (`parse_fail`), `some none` = `match_class` returns NULL,
    `some (some (rest, cls))` = a known class; the walk continues at `rest` -/
def namedClass (p : List Nat) : Option (Option (List Nat × CClass)) :=
  match p with
  | 91 :: x :: n1 =>
    if x = 58 ∨ x = 46 ∨ x = 61 then
      match idxOf x n1 with
      | none => none                                   -- parse_fail
      | some k =>
        if n1.getD (k + 1) 0 ≠ cRB then none           -- parse_fail
        else if x ≠ 58 then some none
        else
          match cclassOf (n1.take k) with
          | none => some none
          | some cls => some (some (n1.drop (k + 2), cls))
    else none
  | _ => none

/-! ## the mirror of `match_class` -/

/-- `match_class` from label `loop:` on.  `p` = rest of the pattern, `atStart` ⇔ `p == start`,
    `pat0` = the pattern right after `[` (what the literal-`[` fallback continues with).
    Result: `some rest` = matched, the pattern continues at `rest`; `none` = `NULL`. -/
def classLoop (fl : FnFlags) (c : Nat) (neg : Bool) (pat0 : List Nat) :
    (fuel : Nat) → (p : List Nat) → (atStart matched fallbackOk : Bool) → Option (List Nat)
  | 0, _, _, _, _ => none
  | f + 1, p, atStart, matched, fallbackOk =>
    -- named class, equivalence class or collating symbol
    match namedClass p with
    | some none => none
    | some (some (rest, cls)) => classLoop fl c neg pat0 f rest false (matched || inCClass cls c) false
    | none =>
      match p with
      | [] => if fallbackOk && c == cLB then some pat0 else none
      | p0 :: p1 =>
        if p0 = cRB ∧ !atStart then (if matched != neg then some p1 else none)
        else
          -- escape next char
          let esc := p0 = cBSl ∧ !fl.noescape
          if esc ∧ p1 = [] then none
          else
            let q := if esc then p1 else p            -- after `p++`
            let q0 := q.getD 0 0
            let q1 := q.getD 1 0
            let q2 := q.getD 2 0
            if q1 = cMinus ∧ q2 ≠ cRB ∧ q2 ≠ 0 then
              if q2 = cBSl ∧ !fl.noescape then
                let r2 := q.getD 3 0
                if r2 = 0 then none
                else classLoop fl c neg pat0 f (q.drop 4) false (matched || rangeFold fl c q0 r2) fallbackOk
              else classLoop fl c neg pat0 f (q.drop 3) false (matched || rangeFold fl c q0 q2) fallbackOk
            else classLoop fl c neg pat0 f (q.drop 1) false (matched || cmpFold fl c q0) fallbackOk

/-- `match_class(pat, c, flags)` with `pat` right after the `[` -/
def matchClass (fl : FnFlags) (pat : List Nat) (c : Nat) : Option (List Nat) :=
  let neg := pat.head? == some cBang || pat.head? == some cCaret
  let p := if neg then pat.drop 1 else pat
  classLoop fl c neg pat (pat.length + 2) p true false true

/-! ## the mirror of `wfnmatch` -/

/-- a position in the subject: previous character (`none` at the start) and the rest -/
structure SPos where
  prev : Option Nat
  rest : List Nat
deriving Repr, DecidableEq

def SPos.adv (s : SPos) : SPos :=
  match s.rest with
  | [] => s
  | x :: r => ⟨some x, r⟩

/-- `disallow_wildcard` -/
def disallow (fl : FnFlags) (s : SPos) : Bool :=
  match s.rest with
  | [] => true
  | x :: _ =>
    if x = cSlash then fl.pathname
    else if x = cDot ∧ fl.period then
      s.prev == none || (s.prev == some cSlash && fl.pathname)
    else false

/-- label `nomatch_retry:`; `none` = return FNM_NOMATCH / a result, `some` = continue the loop -/
def retryStep (fl : FnFlags) (s : SPos) (retry : Option (List Nat × SPos)) :
    Sum Nat (List Nat × SPos × Option (List Nat × SPos)) :=
  match retry with
  | none => .inl 1
  | some (rp, skip) =>
    if s.rest = [] then .inl 1
    else
      -- s = skip_s++; p = retry_p
      if skip.rest = [] then .inl (if rp = [] then 0 else 1)
      else if disallow fl skip then .inl 1
      else .inr (rp, skip.adv, some (rp, skip.adv))

/-- is the `*` directly followed by a period written in the pattern — plain, or escaped with `\\`
    unless FNM_NOESCAPE (repair F41: the escaped form was overlooked) -/
def dotNext (fl : FnFlags) (p1 : List Nat) : Bool :=
  p1.head? == some cDot || (p1.head? == some cBSl && !fl.noescape && (p1.drop 1).head? == some cDot)

/-- `wfnmatch` -/
def wfn (fl : FnFlags) : (fuel : Nat) → (p : List Nat) → (s : SPos) → (retry : Option (List Nat × SPos)) → Nat
  | 0, _, _, _ => 2                                   -- out of fuel (never with the fuel of `wfnmatch`)
  | f + 1, p, s, retry =>
    -- (a thunk: evaluated only on the paths that jump to `nomatch_retry`)
    let doRetry : Unit → Nat := fun _ =>
      match retryStep fl s retry with
      | .inl r => r
      | .inr (p', s', retry') => wfn fl f p' s' retry'
    let lit (pc : Nat) (prest : List Nat) : Nat :=
      let sc := s.rest.getD 0 0
      if sc = cSlash ∧ pc = 0 ∧ fl.leadingDir then 0
      else if !cmpFold fl pc sc then doRetry ()
      else if s.rest = [] then 0
      else wfn fl f prest s.adv retry
    match p with
    | [] => lit 0 []
    | pc :: p1 =>
      if pc = cStar then
        if dotNext fl p1 && disallow fl s then 1
        else wfn fl f p1 s (some (p1, s))
      else if pc = cQuest then
        if disallow fl s then doRetry () else wfn fl f p1 s.adv retry
      else if pc = cLB then
        if disallow fl s then doRetry ()
        else
          match matchClass fl p1 (s.rest.getD 0 0) with
          | none => doRetry ()
          | some rest => wfn fl f rest s.adv retry
      else if pc = cBSl ∧ !fl.noescape then
        match p1 with
        | [] => 1
        | e :: p2 => lit e p2
      else lit pc p1

def wfnmatch (fl : FnFlags) (pat str : List Nat) : Nat :=
  wfn fl ((pat.length + 2) * (str.length + 2) + 8) pat ⟨none, str⟩ none

/-! ## the reference: tokens -/

inductive CItem
  | ch (c : Nat)
  | range (lo hi : Nat)
  | named (k : CClass)
deriving Repr, DecidableEq

inductive Tok
  | lit (c : Nat)
  | any
  | star (dot : Bool)        -- `dot`: the `*` is directly followed by an unescaped `.`
  | cls (neg : Bool) (items : List CItem)
  | never
deriving Repr, DecidableEq

/-- outcome of parsing a bracket expression (subject independent) -/
inductive BrParse
  | closed (items : List CItem) (rest : List Nat)
  | literal              -- unterminated: `[` is an ordinary character
  | never                -- can never match

/-- the bracket parser: accepts exactly what `match_class` walks over -/
def parseClass (fl : FnFlags) :
    (fuel : Nat) → (p : List Nat) → (atStart fallbackOk : Bool) → (acc : List CItem) → BrParse
  | 0, _, _, _, _ => .never
  | f + 1, p, atStart, fallbackOk, acc =>
    match namedClass p with
    | some none => .never
    | some (some (rest, cls)) => parseClass fl f rest false false (acc ++ [.named cls])
    | none =>
      match p with
      | [] => if fallbackOk then .literal else .never
      | p0 :: p1 =>
        if p0 = cRB ∧ !atStart then .closed acc p1
        else
          let esc := p0 = cBSl ∧ !fl.noescape
          if esc ∧ p1 = [] then .never
          else
            let q := if esc then p1 else p
            let q0 := q.getD 0 0
            let q1 := q.getD 1 0
            let q2 := q.getD 2 0
            if q1 = cMinus ∧ q2 ≠ cRB ∧ q2 ≠ 0 then
              if q2 = cBSl ∧ !fl.noescape then
                let r2 := q.getD 3 0
                if r2 = 0 then .never
                else parseClass fl f (q.drop 4) false fallbackOk (acc ++ [.range q0 r2])
              else parseClass fl f (q.drop 3) false fallbackOk (acc ++ [.range q0 q2])
            else parseClass fl f (q.drop 1) false fallbackOk (acc ++ [.ch q0])

/-- pattern → tokens -/
def tokenize (fl : FnFlags) : (fuel : Nat) → List Nat → List Tok
  | 0, _ => [.never]
  | _ + 1, [] => []
  | f + 1, pc :: p1 =>
    if pc = cStar then .star (dotNext fl p1) :: tokenize fl f p1
    else if pc = cQuest then .any :: tokenize fl f p1
    else if pc = cLB then
      let neg := p1.head? == some cBang || p1.head? == some cCaret
      let body := if neg then p1.drop 1 else p1
      match parseClass fl (p1.length + 2) body true true [] with
      | .closed items rest => .cls neg items :: tokenize fl f rest
      | .literal => .lit cLB :: tokenize fl f p1
      | .never => [.never]
    else if pc = cBSl ∧ !fl.noescape then
      match p1 with
      | [] => [.never]
      | e :: p2 => .lit e :: tokenize fl f p2
    else .lit pc :: tokenize fl f p1

def itemHas (fl : FnFlags) (c : Nat) : CItem → Bool
  | .ch x => cmpFold fl c x
  | .range lo hi => rangeFold fl c lo hi
  | .named k => inCClass k c

def classHas (fl : FnFlags) (neg : Bool) (items : List CItem) (c : Nat) : Bool :=
  items.any (itemHas fl c) != neg

/-- a wildcard (`?`, `*`, bracket) may consume `x` -/
def okWild (fl : FnFlags) (x : Nat) : Bool := !(fl.pathname && x == cSlash)

/-- `*`: try every split -/
def starMatch (k : List Nat → Bool) (ok : Nat → Bool) : List Nat → Bool
  | [] => k []
  | x :: s => k (x :: s) || (ok x && starMatch k ok s)

/-- the reference matcher (flags without FNM_PERIOD) -/
def refMatch (fl : FnFlags) : List Tok → List Nat → Bool
  | [], [] => true
  | [], x :: _ => fl.leadingDir && x == cSlash
  | .never :: _, _ => false
  | .lit _ :: _, [] => false
  | .lit c :: ts, x :: s => cmpFold fl c x && refMatch fl ts s
  | .any :: _, [] => false
  | .any :: ts, x :: s => okWild fl x && refMatch fl ts s
  | .cls _ _ :: _, [] => false
  | .cls n it :: ts, x :: s => okWild fl x && classHas fl n it x && refMatch fl ts s
  | .star _ :: ts, s => starMatch (refMatch fl ts) (okWild fl) s

/-- the reference `fnmatch` on decoded strings: 0 / 1 -/
def refFnmatch (fl : FnFlags) (pat str : List Nat) : Nat :=
  if refMatch fl (tokenize fl (pat.length + 1) pat) str then 0 else 1

/-- what the property pins: the reference for flag sets without FNM_PERIOD, the mirror of the
    code with FNM_PERIOD (POSIX leaves `*.` against a leading period open) -/
def fnmatchSpec (fl : FnFlags) (pat str : List Nat) : Nat :=
  if fl.period then wfnmatch fl pat str else refFnmatch fl pat str

end Usual.C14
