import Usual.Common
import Usual.C03.Value
import Usual.C11.Utf8
import Usual.Gen.C02Tables
import Usual.C02.Float
/-!
# C02 — executable model of the JSON parser of `usual/json.c` (repaired by F03)

Mirrors `json_parse` → `parse_tokens` and everything below it, function by function:

| C                                   | here                                   |
|-------------------------------------|----------------------------------------|
| `STATE_STEPS[state][tok]`, MAPSTATE | `STEP` (table from `Gen.C02Tables`), `withTok` |
| `string_examine_chars[c]`           | `examine` (table from `Gen.C02Tables`) |
| `scan_string`                       | `scanString` (uses `C11.validateSeq`)  |
| `parse_hex`, `parse_uescape`        | `parseHex`, `parseUescape` (uses `C11.putChar`) |
| `process_escapes`                   | `processEscapes`                       |
| `parse_string`                      | `parseString` (+ `attachErr` for the position of `mk_value`) |
| `parse_number`                      | `parseNumber` (`strtol`/`strtoll` = `strtolTok`, `strtod` = parameter `sd`) |
| `parse_char4`                       | `parseChar4`                           |
| `skip_comment`, `skip_extra_comma`  | `skipComment`, `skipExtraComma`        |
| `mk_value` (attach part)            | `attach`                               |
| `open_container`, `close_container` | `openC`, `closeC`                      |
| `real_dict_add_key`                 | `addKey`                               |
| one iteration of `while (src < end)`| `step` (`classify` = the `switch`, `stepString` … `stepSlash` = the cases) |
| `parse_tokens`, `json_parse`        | `loop`, `parse`                        |

The parser is iterative and so is the model: the chain `ctx->parent → c_parent → …` is the
explicit `stack` of open containers (innermost first), `ctx->top` is `top`, `ctx->cur_key` lives
in the dict frame.  A container is attached to its parent when it is closed instead of when it
is opened (the mutable tree of the C code is filled in place; a value tree is not) — no
observable difference, the tree is handed out only after the last close.  The crit-bit tree of
a dict is replaced by what property C06 proves about it: a map sorted bytewise by key that
refuses a key already present (`C03.insertKv`; keys never contain NUL here, so the C06
precondition "no trailing zero byte" holds).  Allocation never fails (C10's concern), so "No
memory" / "Unaligned pointer" are absent.  The line counter (`ctx->linenr`, part of the message
text only) is not modelled; errors are the message *class* (`Err`).

Where the code accepts more than RFC 8259 (`01`, `1.`, `-.5`, `\f` `\v` as white space, raw
control characters in strings) the model does exactly what the code does.

Byte position = the list of bytes still ahead (`src … end`).  Loops carry explicit fuel first.
Core Lean only.
-/
namespace Usual.C02
open Usual.C03 (JVal insertKv)
open Usual.Gen.C02Tables

/-- `json_strerror` message classes (`none` = `lasterr == NULL`; never the outcome of a failed
parse — theorem `parse_total`) -/
inductive Err where
  | none
  | unexpectedEndOfToken    -- "Unexpected end of token"
  | invalidToken            -- "Invalid token"
  | numberParseFailed       -- "Number parse failed"
  | invalidHexEscape        -- "Invalid hex escape"
  | invalidUtf16Escape      -- "Invalid UTF16 escape"
  | unexpectedEndOfString   -- "Unexpected end of string"
  | invalidUtf8             -- "Invalid UTF8 sequence"
  | invalidEscapeCode       -- "Invalid escape code"
  | unexpectedSymbol        -- "Unexpected symbol: '%c'"
  | invalidSymbol           -- "Invalid symbol: '%c'"
  | containerStillOpen      -- "Container still open"
  | keyInsertionFailed      -- "Key insertion failed"
  | tooLargeKey             -- "Too large key"
  | closeContainerBug       -- "close_container bug"
  | invalidParent           -- "invalid parent" (or a NULL / non-string key: the C code would crash)
  | expectDict              -- "Expect dict"
  | onlyOneTop              -- "Only one top element is allowed"
deriving DecidableEq, Repr, Inhabited

def Err.name : Err → String
  | .none => "none"
  | .unexpectedEndOfToken => "end-of-token"
  | .invalidToken => "invalid-token"
  | .numberParseFailed => "number"
  | .invalidHexEscape => "hex-escape"
  | .invalidUtf16Escape => "utf16-escape"
  | .unexpectedEndOfString => "end-of-string"
  | .invalidUtf8 => "utf8"
  | .invalidEscapeCode => "escape-code"
  | .unexpectedSymbol => "unexpected-symbol"
  | .invalidSymbol => "invalid-symbol"
  | .containerStillOpen => "still-open"
  | .keyInsertionFailed => "key-insertion"
  | .tooLargeKey => "large-key"
  | .closeContainerBug => "close-bug"
  | .invalidParent => "invalid-parent"
  | .expectDict => "expect-dict"
  | .onlyOneTop => "one-top"

/-- `json_set_options` bits -/
structure Opts where
  relaxed : Bool
  ignoreEnc : Bool
deriving DecidableEq, Repr

def Opts.ofBits (n : Nat) : Opts :=
  ⟨n &&& JSON_PARSE_RELAXED != 0, n &&& JSON_PARSE_IGNORE_ENCODING != 0⟩

/-- the options of a context on which `json_set_options` was never called: `json_new_context`
hands out `JSON_STRICT = 0`, the documented default (json.h: "Default - do strict parsing.  No
comments, no extra comma." / "The default behavior is to validate UTF-8.") -/
def Opts.default : Opts := ⟨false, false⟩

/-! ## tables -/

/-- `STATE_STEPS[s][t]` -/
def STEP (s t : Nat) : Nat := (stateSteps.getD s []).getD t 0

/-- `string_examine_chars[(uint8_t)c] != 0` -/
def examine (c : UInt8) : Bool := stringExamineChars.getD c.toNat 0 != 0

/-! ## strings -/

/-- `utf8_validate_seq(src, end)`: only the first four bytes matter -/
def vseq (s : Bytes) : Nat := Usual.C11.validateSeqU (s.take 4)

/-- `scan_string`: number of bytes before the closing quote and the `hasesc` flag.
`chk` = `check_utf8`; `n`, `esc` are the loop variables (`src - start`, `hasesc`). -/
def scanString (chk : Bool) : Nat → Bytes → Nat → Bool → Except Err (Nat × Bool)
  | 0, _, _, _ => .error .none
  | _ + 1, [], _, _ => .error .unexpectedEndOfString
  | f + 1, c :: rest, n, esc =>
    if !examine c then scanString chk f rest (n + 1) esc
    else if c == 0x22 then .ok (n, esc)
    else if c == 0x5C then
      match rest with
      | d :: rest' =>
        if d == 0x5C || d == 0x22 then scanString chk f rest' (n + 2) true
        else scanString chk f rest (n + 1) true
      | [] => scanString chk f [] (n + 1) true
    else if c &&& 0x80 != 0 then
      if vseq (c :: rest) != 0 then
        scanString chk f ((c :: rest).drop (vseq (c :: rest))) (n + vseq (c :: rest)) esc
      else if chk then .error .invalidUtf8
      else scanString chk f rest (n + 1) esc
    else if c == 0x0A then scanString chk f rest (n + 1) esc
    else .error .invalidUtf8

def hexDig (c : UInt8) : Option Nat :=
  if 0x30 ≤ c && c ≤ 0x39 then some (c.toNat - 0x30)
  else if 0x61 ≤ c && c ≤ 0x66 then some (c.toNat - 0x61 + 10)
  else if 0x41 ≤ c && c ≤ 0x46 then some (c.toNat - 0x41 + 10)
  else none

/-- `parse_hex(s, end)`: `none` = -1 (fewer than four bytes, or a non-hex byte) -/
def parseHex : Bytes → Option Nat
  | a :: b :: c :: d :: _ =>
    match hexDig a, hexDig b, hexDig c, hexDig d with
    | some x, some y, some z, some w => some (((x * 16 + y) * 16 + z) * 16 + w)
    | _, _, _, _ => none
  | _ => none

/-- `utf8_put_char(c, dst_p, dstend)` at the end of `parse_uescape` -/
def putEsc (room : Nat) (c : Nat) (rest : Bytes) : Except Err (Bytes × Bytes) :=
  if (Usual.C11.putCharU room c).1 then .ok ((Usual.C11.putCharU room c).2.2, rest)
  else .error .invalidUtf16Escape

/-- `parse_uescape`: `src` = bytes after `\u` up to the closing quote, `room = dstend - dst`.
Result: bytes written and the remaining source. -/
def parseUescape (room : Nat) (src : Bytes) : Except Err (Bytes × Bytes) :=
  match parseHex src with
  | none => .error .invalidHexEscape
  | some c =>
    if c == 0 then .error .invalidHexEscape
    else if 0xD800 ≤ c && c ≤ 0xDFFF then
      if c ≥ 0xDC00 then .error .invalidUtf16Escape
      else
        match src.drop 4 with
        | a :: b :: r =>
          if a != 0x5C || b != 0x75 then .error .invalidUtf16Escape
          else match parseHex r with
            | none => .error .invalidUtf16Escape
            | some c2 =>
              if c2 < 0xDC00 || c2 > 0xDFFF then .error .invalidUtf16Escape
              else putEsc room (0x10000 + (c % 1024) * 1024 + c2 % 1024) (r.drop 4)
        | _ => .error .invalidUtf16Escape
    else putEsc room c (src.drop 4)

/-- the one-character escapes of `process_escapes` -/
def simpleEscape (e : UInt8) : Option UInt8 :=
  if e == 0x22 then some 0x22 else if e == 0x5C then some 0x5C else if e == 0x2F then some 0x2F
  else if e == 0x62 then some 0x08 else if e == 0x66 then some 0x0C else if e == 0x6E then some 0x0A
  else if e == 0x72 then some 0x0D else if e == 0x74 then some 0x09 else none

/-- `process_escapes` over the string body (`total` = its length = `dstend - dst` at the start);
`acc` = bytes written so far, reversed.  A backslash as the very last body byte would make the C
code read the closing quote (`\"`); `scan_string` never produces such a body. -/
def processEscapes (total : Nat) : Nat → Bytes → Bytes → Except Err Bytes
  | 0, _, _ => .error .none
  | _ + 1, [], acc => .ok acc.reverse
  | f + 1, c :: rest, acc =>
    if c != 0x5C then processEscapes total f rest (c :: acc)
    else
      match rest with
      | [] => .ok (0x22 :: acc).reverse
      | e :: rest' =>
        match simpleEscape e with
        | some b => processEscapes total f rest' (b :: acc)
        | none =>
          if e == 0x75 then
            match parseUescape (total - acc.length) rest' with
            | .error er => .error er
            | .ok (bs, r) => processEscapes total f r (bs.reverse ++ acc)
          else .error .invalidEscapeCode

/-- phase 1 of `parse_string` (`src` = bytes after the opening quote): body, `hasesc`, bytes
after the closing quote -/
def scanBody (o : Opts) (src : Bytes) : Except Err (Bytes × Bool × Bytes) :=
  match scanString (!o.ignoreEnc) (src.length + 1) src 0 false with
  | .error e => .error e
  | .ok (n, esc) => .ok (src.take n, esc, src.drop (n + 1))

/-- phase 2 of `parse_string`: the value bytes -/
def unescape (body : Bytes) (esc : Bool) : Except Err Bytes :=
  if esc then processEscapes body.length (body.length + 1) body [] else .ok body

/-! ## numbers -/

def isNumChar (b : UInt8) : Bool :=
  isDigit b || b == 0x2B || b == 0x2D || b == 0x2E || b == 0x65 || b == 0x45

def isFloatChar (b : UInt8) : Bool := b == 0x2E || b == 0x65 || b == 0x45

/-- `isfinite` on the bit pattern -/
def isFiniteBits (x : UInt64) : Bool := (x >>> 52) &&& 0x7FF != 0x7FF

/-- the digit part of `strtol`: all of `ds` must be digits, at least one -/
def strtolDigits (ds : Bytes) : Option Nat :=
  if ds.isEmpty || !ds.all isDigit then none else some (natOfDigits ds)

/-- `strtol`/`strtoll(buf, &tokend, 10)` followed by `*tokend != 0 → failed`, on a token over
`[0-9+-]`: the value when the *whole* token is `[sign] digits`, `none` otherwise -/
def strtolTok (tok : Bytes) : Option Int :=
  match tok with
  | [] => none
  | c :: r =>
    if c == 0x2D then
      (match strtolDigits r with | some n => some (-(Int.ofNat n)) | none => none)
    else if c == 0x2B then
      (match strtolDigits r with | some n => some (Int.ofNat n) | none => none)
    else
      (match strtolDigits (c :: r) with | some n => some (Int.ofNat n) | none => none)

/-- the conversion part of `parse_number` on the copied token (`buf`): `none` = `goto failed`.
`sd` = `strtod` on the token: (bits, bytes consumed). -/
def convNumber (sd : Bytes → UInt64 × Nat) (tok : Bytes) : Option JVal :=
  if tok.length ≥ NUMBER_BUF then none
  else if tok.any isFloatChar then
    (if (sd tok).2 != tok.length || !isFiniteBits (sd tok).1 then none else some (.float (sd tok).1))
  else
    match strtolTok tok with
    | none => none
    | some v =>
      if tok.length < 8 then some (.int v)
      else if v < JSON_MININT || v > JSON_MAXINT then none
      else some (.int v)

/-- `parse_number` (`src` starts at the first byte of the token): the scan over
`[0-9+-.eE]*`, the conversion, and the remaining bytes -/
def parseNumber (sd : Bytes → UInt64 × Nat) (src : Bytes) : Except Err (JVal × Bytes) :=
  match convNumber sd (src.takeWhile isNumChar) with
  | none => .error .numberParseFailed
  | some v => .ok (v, src.dropWhile isNumChar)

/-- `parse_char4` before `mk_value`: `src` = the four bytes to compare and what follows -/
def parseChar4 (exp : Bytes) (src : Bytes) : Except Err Bytes :=
  if src.length < 4 then .error .unexpectedEndOfToken
  else if src.take 4 != exp then .error .invalidToken
  else .ok (src.drop 4)

/-! ## relaxed mode helpers -/

/-- `memchr(s, '\n', …)` + 1 -/
def afterNewline : Bytes → Option Bytes
  | [] => none
  | c :: r => if c == 0x0A then some r else afterNewline r

/-- the `for (…; s + 2 <= end; s++)` loop of `skip_comment` -/
def blockEnd : Bytes → Option Bytes
  | [] => none
  | a :: t =>
    match t with
    | [] => none
    | b :: r => if a == 0x2A && b == 0x2F then some r else blockEnd t

/-- `skip_comment` (`src` = bytes after the `/`): `none` = false -/
def skipComment (src : Bytes) : Option Bytes :=
  match src with
  | [] => none
  | c :: s =>
    if c == 0x2F then
      match afterNewline s with
      | some r => some r
      | none => some []
    else if c == 0x2A then blockEnd s
    else none

/-- `isspace` in the C locale -/
def isSpace (b : UInt8) : Bool := (0x09 ≤ b && b ≤ 0x0D) || b == 0x20

/-- `skip_extra_comma` (`src` = bytes after the `,`): new position (always advanced over the
white space) and the verdict -/
def skipExtraComma (src : Bytes) (state : Nat) : Bytes × Bool :=
  let s := src.dropWhile isSpace
  let skip := match s with
    | c :: _ =>
      if c == 0x7D then state == S_DICT_COMMA_OR_CLOSE || state == S_DICT_KEY_OR_CLOSE
      else if c == 0x5D then state == S_LIST_COMMA_OR_CLOSE || state == S_LIST_VALUE_OR_CLOSE
      else false
    | [] => false
  (s, skip)

/-! ## parser state -/

/-- an open container: `list` = elements so far, newest first; `dict` = members so far (sorted)
and `ctx->cur_key` -/
inductive Frame where
  | list (elems : List JVal)
  | dict (kvs : List (Bytes × JVal)) (cur : Option JVal)
deriving Inhabited

def Frame.value : Frame → JVal
  | .list es => .list es.reverse
  | .dict kvs _ => .dict kvs

structure St where
  state : Nat
  stack : List Frame
  top : Option JVal
deriving Inhabited

/-- would the attach part of `mk_value` fail ("Only one top element is allowed")? -/
def attachErr (st : St) : Bool := st.stack.isEmpty && st.top.isSome

/-- attach part of `mk_value(ctx, …, attach = true)` -/
def attach (st : St) (v : JVal) : Except Err St :=
  match st.stack with
  | .dict kvs cur :: fs =>
    match cur with
    | some k =>
      let kvs' := match k with
        | .str ks => (insertKv ks v kvs).getD kvs
        | _ => kvs
      .ok { st with stack := .dict kvs' none :: fs }
    | none => .ok { st with stack := .dict kvs (some v) :: fs }
  | .list es :: fs => .ok { st with stack := .list (v :: es) :: fs }
  | [] => if st.top.isSome then .error .onlyOneTop else .ok { st with top := some v }

/-- `open_container` -/
def openC (st : St) (f : Frame) : Except Err St :=
  if attachErr st then .error .onlyOneTop else .ok { st with stack := f :: st.stack }

/-- `close_container` (`st.state` = the state MAPSTATE just produced) -/
def closeC (st : St) : Except Err St :=
  if st.state != S_PARENT then .error .closeContainerBug
  else
    match st.stack with
    | [] => .error .invalidParent
    | f :: fs =>
      let ns := match fs with
        | .dict _ _ :: _ => S_DICT_COMMA_OR_CLOSE
        | .list _ :: _ => S_LIST_COMMA_OR_CLOSE
        | [] => S_DONE
      attach { state := ns, stack := fs, top := st.top } f.value

/-- `real_dict_add_key(ctx, ctx->parent, ctx->cur_key)` at a `:` -/
def addKey (st : St) : Except Err St :=
  match st.stack with
  | .dict kvs cur :: _ =>
    match cur with
    | some (.str k) =>
      if k.length > JSON_MAX_KEY then .error .tooLargeKey
      else if (insertKv k .null kvs).isNone then .error .keyInsertionFailed
      else .ok st
    | _ => .error .invalidParent
  | _ => .error .expectDict

/-- outcome of one iteration of the `while (src < end)` loop of `parse_tokens` -/
inductive Step where
  | err (e : Err)
  | next (st : St) (rest : Bytes)

/-- MAPSTATE, then the rest of the `case` -/
def withTok (st : St) (tok : Nat) (k : St → Step) : Step :=
  if STEP st.state tok == 0 then .err .unexpectedSymbol
  else k { st with state := STEP st.state tok }

/-- a scalar was parsed: `mk_value` attaches it -/
def valueStep (st : St) (v : JVal) (rest : Bytes) : Step :=
  match attach st v with
  | .error e => .err e
  | .ok st' => .next st' rest

def isWsByte (c : UInt8) : Bool :=
  c == 0x0A || c == 0x20 || c == 0x09 || c == 0x0D || c == 0x0C || c == 0x0B

/-- the `case` labels of the `switch (c)` in `parse_tokens` -/
inductive CharClass where
  | ws | quote | litN | litT | litF | num | openL | openD | closeL | closeD | colon | comma | slash | other
deriving DecidableEq, Repr

def classify (c : UInt8) : CharClass :=
  if isWsByte c then .ws
  else if c == 0x22 then .quote
  else if c == 0x6E then .litN
  else if c == 0x74 then .litT
  else if c == 0x66 then .litF
  else if c == 0x2D || isDigit c then .num
  else if c == 0x5B then .openL
  else if c == 0x7B then .openD
  else if c == 0x5D then .closeL
  else if c == 0x7D then .closeD
  else if c == 0x3A then .colon
  else if c == 0x2C then .comma
  else if c == 0x2F then .slash
  else .other

/-- `case '"'` (`src` = bytes after the quote) -/
def stepString (o : Opts) (st : St) (src : Bytes) : Step :=
  withTok st T_STRING fun st =>
    match scanBody o src with
    | .error e => .err e
    | .ok (body, esc, rest) =>
      if attachErr st then .err .onlyOneTop
      else match unescape body esc with
        | .error e => .err e
        | .ok s => valueStep st (.str s) rest

/-- `case 'n' / 't' / 'f'`: `src` = the bytes `parse_char4` compares with `exp` and what follows -/
def stepLit (st : St) (exp : Bytes) (v : JVal) (src : Bytes) : Step :=
  withTok st T_OTHER fun st =>
    match parseChar4 exp src with
    | .error e => .err e
    | .ok rest => valueStep st v rest

/-- `case '-', '0' … '9'` (`src` starts at the first byte of the token) -/
def stepNumber (sd : Bytes → UInt64 × Nat) (st : St) (src : Bytes) : Step :=
  withTok st T_OTHER fun st =>
    match parseNumber sd src with
    | .error e => .err e
    | .ok (v, rest) => valueStep st v rest

/-- `case '[' / '{'` -/
def stepOpen (st : St) (tok : Nat) (f : Frame) (src : Bytes) : Step :=
  withTok st tok fun st =>
    match openC st f with
    | .error e => .err e
    | .ok st' => .next st' src

/-- `case ']' / '}'` -/
def stepClose (st : St) (tok : Nat) (src : Bytes) : Step :=
  withTok st tok fun st =>
    match closeC st with
    | .error e => .err e
    | .ok st' => .next st' src

/-- `case ':'` -/
def stepColon (st : St) (src : Bytes) : Step :=
  withTok st T_COLON fun st =>
    match addKey st with
    | .error e => .err e
    | .ok st' => .next st' src

/-- `case ','` -/
def stepComma (o : Opts) (st : St) (src : Bytes) : Step :=
  if o.relaxed && (skipExtraComma src st.state).2 then .next st (skipExtraComma src st.state).1
  else withTok st T_COMMA fun st =>
    .next st (if o.relaxed then (skipExtraComma src st.state).1 else src)

/-- `case '/'` (falls through to `default` in strict mode or when `skip_comment` says no) -/
def stepSlash (o : Opts) (st : St) (src : Bytes) : Step :=
  if o.relaxed then
    match skipComment src with
    | some rest => .next st rest
    | none => .err .invalidSymbol
  else .err .invalidSymbol

/-- one iteration: `c = *src++`, `src` = what follows -/
def step (sd : Bytes → UInt64 × Nat) (o : Opts) (st : St) (c : UInt8) (src : Bytes) : Step :=
  match classify c with
  | .ws => .next st (src.dropWhile (· == 0x20))
  | .quote => stepString o st src
  | .litN => stepLit st C_NULL .null (c :: src)
  | .litT => stepLit st C_TRUE (.bool true) (c :: src)
  | .litF => stepLit st C_ALSE (.bool false) src
  | .num => stepNumber sd st (c :: src)
  | .openL => stepOpen st T_OPEN_LIST (.list []) src
  | .openD => stepOpen st T_OPEN_DICT (.dict [] none) src
  | .closeL => stepClose st T_CLOSE_LIST src
  | .closeD => stepClose st T_CLOSE_DICT src
  | .colon => stepColon st src
  | .comma => stepComma o st src
  | .slash => stepSlash o st src
  | .other => .err .invalidSymbol

def St.init : St := { state := S_INITIAL_VALUE, stack := [], top := none }

/-- `parse_tokens` (the `while` loop and the final check) followed by `return ctx->top` -/
def loop (sd : Bytes → UInt64 × Nat) (o : Opts) : Nat → St → Bytes → Except Err JVal
  | 0, _, _ => .error .none
  | _ + 1, st, [] =>
    if st.state != S_DONE then .error .containerStillOpen
    else match st.top with
      | some v => .ok v
      | none => .error .none
  | f + 1, st, c :: src =>
    match step sd o st c src with
    | .err e => .error e
    | .next st' rest => loop sd o f st' rest

/-- `json_parse(ctx, doc, len)` with options `o`: the value tree, or the class of
`json_strerror(ctx)` -/
def parse (sd : Bytes → UInt64 × Nat) (o : Opts) (doc : Bytes) : Except Err JVal :=
  loop sd o (doc.length + 1) St.init doc

/-! ## canonical dump (shared format with `harness/C02/h.c`) -/

mutual
def dumpVal : JVal → String
  | .null => "n"
  | .bool b => if b then "t" else "f"
  | .int i => "i" ++ toString i
  | .float x => "d" ++ String.ofList (Nat.toDigits 16 x.toNat)
  | .str s => "s" ++ Usual.toHex s
  | .list l => "[" ++ dumpList l ++ "]"
  | .dict kvs => "{" ++ dumpKvs kvs ++ "}"
def dumpList : List JVal → String
  | [] => ""
  | [v] => dumpVal v
  | v :: vs => dumpVal v ++ "," ++ dumpList vs
def dumpKvs : List (Bytes × JVal) → String
  | [] => ""
  | [(k, v)] => Usual.toHex k ++ ":" ++ dumpVal v
  | (k, v) :: r => Usual.toHex k ++ ":" ++ dumpVal v ++ "," ++ dumpKvs r
end

def dumpRes : Except Err JVal → String
  | .ok v => "ok " ++ dumpVal v
  | .error e => "err " ++ e.name

end Usual.C02
