/-!
# C02 — `strtod` on number tokens: exact decimal → binary64 conversion

`json.c: parse_number` hands a NUL-terminated copy of a token over the alphabet
`[0-9 + - . e E]` to `strtod` and looks at two things only: where the conversion stopped
(`*tokend != 0` → failure) and the resulting double.  In the theorems of C02 `strtod` is a
*parameter* (`Bytes → UInt64 × Nat`: bits of the result, number of bytes consumed).  This file
is the instance the model driver runs with:

* `strtodScan` — the longest prefix `strtod` converts over that alphabet (C11 7.22.1.3:
  optional sign, non-empty digit sequence optionally containing a radix character, optional
  exponent part; hexadecimal / INF / NAN forms cannot occur over this alphabet), and
* `decToBits` — the correctly rounded (round-half-even) binary64 of `±m·10^e` computed with
  unbounded integers, subnormals and overflow to infinity included.

Agreement with glibc's `strtod` is *tested* by the correspondence run (op `f`, and every float
in every parsed document), not proved.  Core Lean only.
-/
namespace Usual.C02

abbrev Bytes := List UInt8

def isDigit (b : UInt8) : Bool := 0x30 ≤ b && b ≤ 0x39

/-- decimal value of a digit string -/
def natOfDigits (ds : Bytes) : Nat := ds.foldl (fun a d => a * 10 + (d.toNat - 0x30)) 0

/-- number of decimal digits of `m` (`0` for `0`); `fuel` ≥ that number -/
def decLen : Nat → Nat → Nat
  | 0, _ => 0
  | f + 1, m => if m = 0 then 0 else decLen f (m / 10) + 1

def pow2 (k : Nat) : Nat := 1 <<< k

/-- `q = ⌊num·2^(-e) / den⌋` with remainder and the denominator the remainder refers to -/
def scaled (num den : Nat) (e : Int) : Nat × Nat × Nat :=
  if e ≥ 0 then
    let d := den * pow2 e.toNat
    (num / d, num % d, d)
  else
    let n := num * pow2 (-e).toNat
    (n / den, n % den, den)

/-- lower `e` while the quotient has fewer than 53 bits (not below the subnormal exponent) -/
def adjDown (num den : Nat) : Nat → Int → Int
  | 0, e => e
  | f + 1, e =>
    if e > -1074 ∧ (scaled num den e).1 < pow2 52 then adjDown num den f (e - 1) else e

/-- raise `e` while the quotient has more than 53 bits -/
def adjUp (num den : Nat) : Nat → Int → Int
  | 0, e => e
  | f + 1, e => if (scaled num den e).1 ≥ pow2 53 then adjUp num den f (e + 1) else e

def signBit (neg : Bool) : UInt64 := if neg then 0x8000000000000000 else 0
def infBits (neg : Bool) : UInt64 := signBit neg ||| 0x7FF0000000000000

/-- bits of the binary64 nearest to `(-1)^neg · m · 10^e10`, ties to even; `±inf` on overflow -/
def decToBits (neg : Bool) (m : Nat) (e10 : Int) : UInt64 :=
  if m = 0 then signBit neg
  else
    let nd : Int := decLen (Nat.log2 m + 2) m
    if e10 + nd > 310 then infBits neg
    else if e10 + nd < -330 then signBit neg
    else
      let num := if e10 ≥ 0 then m * 10 ^ e10.toNat else m
      let den := if e10 ≥ 0 then 1 else 10 ^ (-e10).toNat
      let e0 : Int := (Nat.log2 num : Int) - (Nat.log2 den : Int) - 52
      let e1 : Int := if e0 < -1074 then -1074 else e0
      let e2 := adjUp num den 4 (adjDown num den 4 e1)
      let (q, r, d) := scaled num den e2
      let q1 := if 2 * r > d ∨ (2 * r = d ∧ q % 2 = 1) then q + 1 else q
      let (q2, e3) := if q1 = pow2 53 then (pow2 52, e2 + 1) else (q1, e2)
      if q2 < pow2 52 then signBit neg ||| UInt64.ofNat q2
      else
        let biased : Int := e3 + 1075
        if biased ≥ 2047 then infBits neg
        else signBit neg ||| UInt64.ofNat (biased.toNat * pow2 52 + (q2 - pow2 52))

/-- the prefix `strtod` converts: (negative, mantissa digits, decimal exponent, bytes consumed);
`none` = no conversion -/
def strtodScan (s : Bytes) : Option (Bool × Bytes × Int × Nat) :=
  let (neg, s1, n0) := match s with
    | 0x2D :: r => (true, r, 1)
    | 0x2B :: r => (false, r, 1)
    | r => (false, r, 0)
  let ip := s1.takeWhile isDigit
  let s2 := s1.dropWhile isDigit
  let (fp, s3, n1) := match s2 with
    | 0x2E :: r => (r.takeWhile isDigit, r.dropWhile isDigit, 1 + (r.takeWhile isDigit).length)
    | r => ([], r, 0)
  if ip.isEmpty && fp.isEmpty then none
  else
    let n := n0 + ip.length + n1
    let (ex, n2) : Int × Nat := match s3 with
      | c :: r =>
        if c == 0x65 || c == 0x45 then
          let (eneg, r1, k) := match r with
            | 0x2D :: r' => (true, r', 2)
            | 0x2B :: r' => (false, r', 2)
            | r' => (false, r', 1)
          let ed := r1.takeWhile isDigit
          if ed.isEmpty then (0, 0)
          else ((if eneg then -(natOfDigits ed : Int) else (natOfDigits ed : Int)), k + ed.length)
        else (0, 0)
      | [] => (0, 0)
    some (neg, ip ++ fp, ex - fp.length, n + n2)

/-- model of `strtod` on a token over `[0-9+-.eE]`: (bits of the result, bytes consumed) -/
def strtodModel (s : Bytes) : UInt64 × Nat :=
  match strtodScan s with
  | none => (0, 0)
  | some (neg, ds, e10, n) => (decToBits neg (natOfDigits ds) e10, n)

end Usual.C02
