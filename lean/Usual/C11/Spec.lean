import Usual.C11.Utf8
/-!
# C11 — specification: well-formed UTF-8 (Unicode Standard, Table 3-7) and its code points

The formal reading of the property text, in the simplest terms available: the seven rows of
Table 3-7 as byte ranges, the code point of a well-formed sequence by positional arithmetic
(Table 3-6 bit distribution), and Unicode scalar values.  Nothing here refers to the code.
-/
namespace Usual.C11

/-- row 1: `00..7F` -/
def wf1 (b0 : B) : Prop := b0 ≤ 0x7F#8
/-- row 2: `C2..DF 80..BF` -/
def wf2 (b0 b1 : B) : Prop := 0xC2#8 ≤ b0 ∧ b0 ≤ 0xDF#8 ∧ 0x80#8 ≤ b1 ∧ b1 ≤ 0xBF#8
/-- rows 3-6: `E0 A0..BF`, `E1..EC 80..BF`, `ED 80..9F`, `EE..EF 80..BF`, then `80..BF` -/
def wf3 (b0 b1 b2 : B) : Prop :=
  ((b0 = 0xE0#8 ∧ 0xA0#8 ≤ b1 ∧ b1 ≤ 0xBF#8) ∨
   (0xE1#8 ≤ b0 ∧ b0 ≤ 0xEC#8 ∧ 0x80#8 ≤ b1 ∧ b1 ≤ 0xBF#8) ∨
   (b0 = 0xED#8 ∧ 0x80#8 ≤ b1 ∧ b1 ≤ 0x9F#8) ∨
   (0xEE#8 ≤ b0 ∧ b0 ≤ 0xEF#8 ∧ 0x80#8 ≤ b1 ∧ b1 ≤ 0xBF#8)) ∧ 0x80#8 ≤ b2 ∧ b2 ≤ 0xBF#8
/-- rows 7-9: `F0 90..BF`, `F1..F3 80..BF`, `F4 80..8F`, then `80..BF 80..BF` -/
def wf4 (b0 b1 b2 b3 : B) : Prop :=
  ((b0 = 0xF0#8 ∧ 0x90#8 ≤ b1 ∧ b1 ≤ 0xBF#8) ∨
   (0xF1#8 ≤ b0 ∧ b0 ≤ 0xF3#8 ∧ 0x80#8 ≤ b1 ∧ b1 ≤ 0xBF#8) ∨
   (b0 = 0xF4#8 ∧ 0x80#8 ≤ b1 ∧ b1 ≤ 0x8F#8)) ∧
  0x80#8 ≤ b2 ∧ b2 ≤ 0xBF#8 ∧ 0x80#8 ≤ b3 ∧ b3 ≤ 0xBF#8

/-- a byte list is exactly one well-formed UTF-8 sequence (Table 3-7) -/
def WF : List B → Prop
  | [b0] => wf1 b0
  | [b0, b1] => wf2 b0 b1
  | [b0, b1, b2] => wf3 b0 b1 b2
  | [b0, b1, b2, b3] => wf4 b0 b1 b2 b3
  | _ => False

/-- code point encoded by a well-formed sequence (Table 3-6) -/
def cp1 (b0 : B) : Nat := b0.toNat
def cp2 (b0 b1 : B) : Nat := (b0.toNat - 0xC0) * 64 + (b1.toNat - 0x80)
def cp3 (b0 b1 b2 : B) : Nat :=
  (b0.toNat - 0xE0) * 4096 + (b1.toNat - 0x80) * 64 + (b2.toNat - 0x80)
def cp4 (b0 b1 b2 b3 : B) : Nat :=
  (b0.toNat - 0xF0) * 262144 + (b1.toNat - 0x80) * 4096 + (b2.toNat - 0x80) * 64 + (b3.toNat - 0x80)

def decode : List B → Nat
  | [b0] => cp1 b0
  | [b0, b1] => cp2 b0 b1
  | [b0, b1, b2] => cp3 b0 b1 b2
  | [b0, b1, b2, b3] => cp4 b0 b1 b2 b3
  | _ => 0

/-- Unicode scalar value: `0..D7FF` or `E000..10FFFF` -/
def isScalar (c : Nat) : Prop := c < 0xD800 ∨ (0xDFFF < c ∧ c ≤ 0x10FFFF)

/-- number of bytes of the UTF-8 form of a scalar value -/
def encLen (c : Nat) : Nat := if c < 0x80 then 1 else if c < 0x800 then 2 else if c < 0x10000 then 3 else 4

/-- a byte string is a concatenation of well-formed sequences none of which is NUL
(what `utf8_validate_string` is to accept) -/
def WFString (s : List B) : Prop :=
  ∃ cs : List (List B), s = cs.flatten ∧ ∀ c ∈ cs, WF c ∧ c ≠ [0#8]

instance (b0 : B) : Decidable (wf1 b0) := by unfold wf1; infer_instance
instance (b0 b1 : B) : Decidable (wf2 b0 b1) := by unfold wf2; infer_instance
instance (b0 b1 b2 : B) : Decidable (wf3 b0 b1 b2) := by unfold wf3; infer_instance
instance (b0 b1 b2 b3 : B) : Decidable (wf4 b0 b1 b2 b3) := by unfold wf4; infer_instance
instance : (s : List B) → Decidable (WF s)
  | [] => isFalse (by unfold WF; exact id)
  | [b0] => by unfold WF; infer_instance
  | [b0, b1] => by unfold WF; infer_instance
  | [b0, b1, b2] => by unfold WF; infer_instance
  | [b0, b1, b2, b3] => by unfold WF; infer_instance
  | _ :: _ :: _ :: _ :: _ :: _ => isFalse (by unfold WF; exact id)
instance (c : Nat) : Decidable (isScalar c) := by unfold isScalar; infer_instance

/-- the first `n` bytes seen through an accessor -/
def window (rd : Nat → B) (n : Nat) : List B := (List.range n).map rd

end Usual.C11
