/-!
# C11 — model of `usual/utf8.c`

Hand-written executable model of the six functions of `utf8.c`, in the shape the translator
(`extract/c2lean.py` → `Usual/Gen/C11.lean`) emits: bytes are `BitVec 8` values read through an
accessor `rd : Nat → BitVec 8` (offset from the source pointer), `avail` is the number of bytes
before the end pointer, `room` the number of bytes before the destination end pointer; C `int`
/ `unsigned` values are `BitVec 32`.

Same branch order as the C code.  Byte classes are written as ranges and the bit-fiddling of
the decoder/encoder as `% * / +` on `BitVec 32` (equal to the C's `& << >> |`; that equality is
what `UsualProofs/Bridge/C11.lean` proves against the definitions regenerated from the source),
so that the property theorems need arithmetic reasoning only.

Core Lean only (this file is linked into the driver `drv_c11`).
-/
namespace Usual.C11

abbrev B := BitVec 8

/-- a byte promoted to C `int` / `uint32_t` -/
@[inline] def z (b : B) : BitVec 32 := BitVec.zeroExtend 32 b

/-- `u8tail(c)`: trailing byte `80..BF` -/
@[inline] def isTail (b : B) : Bool := 0x80#8 ≤ b && b ≤ 0xBF#8

/-! ## utf8_validate_seq -/

/-- `utf8_validate_seq` on the window `b0 b1 b2 b3` of which `avail` bytes lie before `end`.
Returns the sequence length, 0 for invalid. -/
def validateSeqW (b0 b1 b2 b3 : B) (avail : Nat) : BitVec 32 :=
  if b0 < 0x80#8 then (if b0 = 0#8 then 0#32 else 1#32)
  else if b0 < 0xC2#8 then 0#32
  else if b0 < 0xE0#8 then
    (if avail < 2 then 0#32 else if isTail b1 then 2#32 else 0#32)
  else if b0 < 0xF0#8 then
    (if avail < 3 then 0#32
     else if (b0 = 0xE0#8 ∧ b1 < 0xA0#8) ∨ (b0 = 0xED#8 ∧ 0xA0#8 ≤ b1) then 0#32
     else if isTail b1 && isTail b2 then 3#32 else 0#32)
  else if b0 < 0xF5#8 then
    (if avail < 4 then 0#32
     else if (b0 = 0xF0#8 ∧ b1 < 0x90#8) ∨ (b0 = 0xF4#8 ∧ 0x8F#8 < b1) then 0#32
     else if isTail b1 && isTail b2 && isTail b3 then 4#32 else 0#32)
  else 0#32

def validateSeq (rd : Nat → B) (avail : Nat) : BitVec 32 :=
  validateSeqW (rd 0) (rd 1) (rd 2) (rd 3) avail

/-! ## utf8_get_char -/

/-- `-(int)c` for a byte `c`: the bit pattern of `2^32 - c`.  Evaluated in `UInt32` machine
arithmetic, because `BitVec.neg` computes `2^32` with bignum arithmetic on every call and that
dominated the enumeration of all 2^32 windows; `UsualProofs.C11.negByte_eq` (all 256 bytes,
kernel-checked) shows it is `-(z c)`. -/
@[inline] def negByte (c : B) : BitVec 32 := (0 - c.toNat.toUInt32).toBitVec

/-- result on ill-formed / truncated input: negated lead byte, one byte consumed -/
@[inline] def bad (b0 : B) : BitVec 32 × Nat := (negByte b0, 1)

/-- the value the decoder assembles from a 2/3/4 byte sequence -/
@[inline] def dec2 (b0 b1 : B) : BitVec 32 := z b0 % 32#32 * 64#32 + z b1 % 64#32
@[inline] def dec3 (b0 b1 b2 : B) : BitVec 32 :=
  z b0 % 16#32 * 4096#32 + z b1 % 64#32 * 64#32 + z b2 % 64#32
@[inline] def dec4 (b0 b1 b2 b3 : B) : BitVec 32 :=
  z b0 % 8#32 * 262144#32 + z b1 % 64#32 * 4096#32 + z b2 % 64#32 * 64#32 + z b3 % 64#32

/-- `utf8_get_char`: (returned `int`, number of bytes the source pointer advanced) -/
def getCharW (b0 b1 b2 b3 : B) (avail : Nat) : BitVec 32 × Nat :=
  if b0 < 0x80#8 then (z b0, 1)
  else if 0xC0#8 ≤ b0 ∧ b0 ≤ 0xDF#8 then
    (if avail < 2 then bad b0
     else if !isTail b1 then bad b0
     else if dec2 b0 b1 < 0x80#32 then bad b0
     else (dec2 b0 b1, 2))
  else if 0xE0#8 ≤ b0 ∧ b0 ≤ 0xEF#8 then
    (if avail < 3 then bad b0
     else if !isTail b1 || !isTail b2 then bad b0
     else if dec3 b0 b1 b2 < 0x800#32 ∨ (0xD800#32 ≤ dec3 b0 b1 b2 ∧ dec3 b0 b1 b2 ≤ 0xDFFF#32) then bad b0
     else (dec3 b0 b1 b2, 3))
  else if 0xF0#8 ≤ b0 ∧ b0 ≤ 0xF7#8 then
    (if avail < 4 then bad b0
     else if !isTail b1 || !isTail b2 || !isTail b3 then bad b0
     else if dec4 b0 b1 b2 b3 < 0x10000#32 ∨ 0x10FFFF#32 < dec4 b0 b1 b2 b3 then bad b0
     else (dec4 b0 b1 b2 b3, 4))
  else bad b0

def getChar (rd : Nat → B) (avail : Nat) : BitVec 32 × Nat :=
  getCharW (rd 0) (rd 1) (rd 2) (rd 3) avail

/-! ## utf8_put_char, utf8_char_size, utf8_seq_size -/

@[inline] def lo8 (x : BitVec 32) : B := BitVec.truncate 8 x

/-- `utf8_put_char`: (return value, bytes the destination pointer advanced, bytes stored in
order from the old destination pointer).  `(false, 0, [])` = the `no_room` exit. -/
def putChar (room : Nat) (c : BitVec 32) : Bool × Nat × List B :=
  if c < 0x80#32 then
    (if room < 1 then (false, 0, []) else (true, 1, [lo8 c]))
  else if c < 0x800#32 then
    (if room < 2 then (false, 0, [])
     else (true, 2, [lo8 (0xC0#32 + c / 64#32), lo8 (0x80#32 + c % 64#32)]))
  else if c < 0x10000#32 then
    (if room < 3 then (false, 0, [])
     else if c < 0xD800#32 ∨ 0xDFFF#32 < c then
       (true, 3, [lo8 (0xE0#32 + c / 4096#32), lo8 (0x80#32 + c / 64#32 % 64#32),
                  lo8 (0x80#32 + c % 64#32)])
     else (true, 0, []))
  else if c ≤ 0x10FFFF#32 then
    (if room < 4 then (false, 0, [])
     else (true, 4, [lo8 (0xF0#32 + c / 262144#32), lo8 (0x80#32 + c / 4096#32 % 64#32),
                     lo8 (0x80#32 + c / 64#32 % 64#32), lo8 (0x80#32 + c % 64#32)]))
  else (true, 0, [])

def charSize (c : BitVec 32) : BitVec 32 :=
  if c < 0x80#32 then 1#32 else if c < 0x800#32 then 2#32
  else if c < 0x10000#32 then 3#32 else 4#32

def seqSize (b : B) : BitVec 32 :=
  if b < 0x80#8 then 1#32 else if b < 0xC2#8 then 0#32 else if b < 0xE0#8 then 2#32
  else if b < 0xF0#8 then 3#32 else if b < 0xF5#8 then 4#32 else 0#32

/-! ## byte lists -/

/-- accessor for a byte list: the bytes from the source pointer to `end` (reads past the end
yield 0 here; the frame theorems show they never influence a result) -/
def rdOf (s : List B) : Nat → B := fun i => s.getD i 0#8

def validateSeqL (s : List B) : BitVec 32 := validateSeq (rdOf s) s.length
def getCharL (s : List B) : BitVec 32 × Nat := getChar (rdOf s) s.length

/-- `utf8_validate_string`: the loop, with explicit fuel (one unit per iteration; every
iteration consumes at least one byte, so `length + 1` is enough). -/
def validateStringF : Nat → List B → Bool
  | 0, _ => false
  | _ + 1, [] => true
  | fuel + 1, b :: rest =>
    if 0x80#8 ≤ b then
      (let n := validateSeqL (b :: rest)
       if n = 0#32 then false else validateStringF fuel ((b :: rest).drop n.toNat))
    else if b = 0#8 then false
    else validateStringF fuel rest

def validateString (s : List B) : Bool := validateStringF (s.length + 1) s

/-! ## wrappers over `UInt8` / `Int` for the driver and for other properties -/

def ofU8 (l : List UInt8) : List B := l.map (·.toBitVec)
def toU8 (l : List B) : List UInt8 := l.map (fun b => UInt8.ofBitVec b)

def validateSeqU (l : List UInt8) : Nat := (validateSeqL (ofU8 l)).toNat
def getCharU (l : List UInt8) : Int × Nat := let r := getCharL (ofU8 l); (r.1.toInt, r.2)
def putCharU (room : Nat) (c : Nat) : Bool × Nat × List UInt8 :=
  let r := putChar room (BitVec.ofNat 32 c); (r.1, r.2.1, toU8 r.2.2)
def validateStringU (l : List UInt8) : Bool := validateString (ofU8 l)

end Usual.C11
