import Usual.Common
/-!
# C08 — model of TLS server-name verification (`usual/tls/tls_verify.c`)

Byte strings are `List UInt8`.  A C string is a NUL-free list; a certificate field (ASN.1
string) is an arbitrary list, its C view is the prefix before the first NUL, and the code's
test `len != strlen(data)` is `0 ∈ data`.

The functions mirror the C statement by statement:

* `matchName`   = `tls_match_name`  (with repair F17: `*.bar.` is refused like `*.bar`)
* `scanSAN`     = the loop of `tls_check_subject_altname`
* `checkCN`     = `tls_check_common_name`
* `checkName`   = `tls_check_name`
* `handshakeRc` = the tail of `tls_handshake_client` (with repair F18: every non-zero
                  result of the name check is reported as -1, never as -2 = TLS_WANT_POLLIN)
* `inetPton4/6` = `usual/socket_pton.c` (after repair F42: an IPv4 field has 1..3 digits); the flag `strict` adds the one extra rule of
                  glibc ≥ 2.26 (`01.2.3.4` is refused: no leading zero in an octet), which is
                  the `inet_pton` actually linked on this platform (`HAVE_INET_PTON`).

Which `inet_pton` is linked is a *parameter*: everything from `scanSAN` on takes the
classifier `ipLit : Str → Option Str` (`some addr` = the name is an IP literal with these
network-order octets) and the theorems hold for every classifier.
-/
namespace Usual.C08

abbrev Str := List UInt8

def NUL : UInt8 := 0
def SPACE : UInt8 := 32
def STAR : UInt8 := 42
def DOT : UInt8 := 46
def COLON : UInt8 := 58

/-- `tolower` in the C locale -/
def lower (c : UInt8) : UInt8 := if 65 ≤ c ∧ c ≤ 90 then c + 32 else c

/-- `strcasecmp(a, b) == 0` on C strings -/
def eqi (a b : Str) : Bool := a.map lower == b.map lower

/-- `strchr(s, '.')`: the suffix starting at the first dot, `none` = NULL -/
def fromDot : Str → Option Str
  | [] => none
  | c :: cs => if c = DOT then some (c :: cs) else fromDot cs

/-- `tls_match_name(cert_name, name) == 0` -/
def matchName (cert name : Str) : Bool :=
  if eqi cert name then true
  else match cert with
    | [] => false
    | c0 :: cd =>                                           -- cd = cert_domain = &cert_name[1]
      if c0 ≠ STAR then false
      else match cd with
        | [] => false                                       -- Disallow "*"
        | d0 :: cd1 =>
          if d0 ≠ DOT then false                            -- Disallow "*foo"
          else if cd1.head? = some DOT then false           -- Disallow "*.."
          else match fromDot cd1 with                       -- next_dot = strchr(&cert_domain[1], '.')
            | none => false                                 -- Disallow "*.bar"
            | some nd =>
              -- Disallow "*.bar.." and "*.bar."   (next_dot[1] == '.' || next_dot[1] == '\0')
              if nd.tail.head? = some DOT ∨ nd.tail = [] then false
              else if name.head? = some DOT then false      -- name has no host part
              else match fromDot name with                  -- domain = strchr(name, '.')
                | none => false
                | some dom =>
                  if dom.length = 1 then false              -- name has no domain part
                  else eqi cd dom                           -- strcasecmp(cert_domain, domain) == 0

/-! ## Certificate, result -/

/-- one GENERAL_NAME of the subjectAltName extension -/
inductive SanEntry
  | dns (data : Str)                  -- dNSName (always an IA5String after decoding: IMPLICIT tag)
  | ip (data : Str)                   -- iPAddress octets
  | other (data : Str)                -- any other GENERAL_NAME type
  deriving Repr, DecidableEq

structure Cert where
  sans : List SanEntry                -- in certificate order; `[]` = no extension
  cns : List Str                      -- commonName entries of the subject; the first one counts
  deriving Repr, DecidableEq

inductive Res
  | ok | noMatch | errNulSan | errSpace | errNulCN
  deriving Repr, DecidableEq

/-- the C return value -/
def Res.rc : Res → Int
  | .ok => 0 | .noMatch => -1 | _ => -2

/-- class of the `tls_error` text left behind by `tls_check_name` -/
def Res.errClass : Res → String
  | .ok => "none" | .noMatch => "none"
  | .errNulSan => "nul-san" | .errSpace => "space" | .errNulCN => "nul-cn"

/-- loop of `tls_check_subject_altname`; `ip = ipLit name` selects GEN_IPADD / GEN_DNS -/
def scanSAN (ip : Option Str) (name : Str) : List SanEntry → Res
  | [] => .noMatch
  | e :: rest =>
    match ip, e with
    | none, .dns data =>
      if NUL ∈ data then .errNulSan                -- len != strlen(data)
      else if data = [SPACE] then .errSpace        -- strcmp(data, " ") == 0
      else if matchName data name then .ok
      else scanSAN ip name rest
    | some addr, .ip data =>
      if data = addr then .ok                      -- datalen == addrlen && memcmp == 0
      else scanSAN ip name rest
    | _, _ => scanSAN ip name rest                 -- altname->type != type

/-- `tls_check_common_name` -/
def checkCN (ip : Option Str) (name : Str) : List Str → Res
  | [] => .noMatch                                  -- X509_NAME_get_text_by_NID < 0
  | cn :: _ =>
    if NUL ∈ cn then .errNulCN
    else if ip.isSome then (if cn = name then .ok else .noMatch)      -- strcmp only
    else if matchName cn name then .ok else .noMatch

/-- `tls_check_name` -/
def checkName (ipLit : Str → Option Str) (cert : Cert) (name : Str) : Res :=
  match scanSAN (ipLit name) name cert.sans with
  | .noMatch => checkCN (ipLit name) name cert.cns
  | r => r

/-- `tls_peer_cert_contains_name` (with a peer certificate present) -/
def containsName (ipLit : Str → Option Str) (cert : Cert) (name : Str) : Bool :=
  checkName ipLit cert name == .ok

/-- result of `tls_handshake_client` once `SSL_connect` succeeded and verify_name is on:
    return code and class of the `tls_error` text -/
def handshakeRc (r : Res) : Int × String :=
  match r with
  | .ok => (0, "none")
  | .noMatch => (-1, "notpresent")
  | e => (-1, e.errClass)

/-! ### the peer-certificate query on a live connection

`tls_peer_cert_contains_name(ctx, q)` looks at `ctx->ssl_peer_cert` (recorded by `tls_handshake`
when it returns 0) and at `q` — nothing else: not `ctx->servername`, not the state flags, not
the `verify_name` setting.  That independence is the *type* of `peerContains`. -/

/-- `tls_peer_cert_contains_name`: `peer = none` = no certificate recorded (`ssl_peer_cert == NULL`) -/
def peerContains (ipLit : Str → Option Str) (peer : Option Cert) (q : Str) : Bool :=
  match peer with
  | none => false
  | some c => containsName ipLit c q

/-- client handshake result with the `verify_name` setting: with verification off
    (`tls_config_insecure_noverifyname`) the name is not looked at -/
def handshakeCfg (verifyName : Bool) (r : Res) : Int × String :=
  if verifyName then handshakeRc r else (0, "none")

/-- certificate recorded on the client by a handshake that returned `rc` -/
def recordedPeer (rc : Int) (cert : Cert) : Option Cert := if rc == 0 then some cert else none

/-! ### repeated calls on one connection (tls_handshake / tls_write / tls_read)

`tls_handshake` may be called again at any time and `tls_read`/`tls_write` call it themselves
as long as `TLS_HANDSHAKE_COMPLETE` is not set.  Every pass through `tls_handshake_client`
runs `SSL_connect` (which returns 1 at once on an established connection) and then the name
check again, so the verdict is a function of (certificate, name) only. -/

inductive Call
  | hs | wr | rd
  deriving Repr, DecidableEq

/-- the part of `struct tls` that matters here: `state & TLS_HANDSHAKE_COMPLETE` -/
structure Client where
  complete : Bool
  deriving Repr, DecidableEq

/-- one call driven to its definite answer, on a connection whose TLS exchange itself succeeds;
    `r` = `tls_check_name(cert, servername)`.  Result: new state, success?, tls_error class. -/
def clientCall (r : Res) (c : Client) (k : Call) : Client × Bool × String :=
  let viaHandshake : Client × Bool × String :=
    let (rc, cls) := handshakeRc r
    if rc == 0 then ({ complete := true }, true, cls) else (c, false, cls)
  match k with
  | .hs => viaHandshake
  | .wr | .rd => if c.complete then (c, true, "none") else viaHandshake

/-- results of a script of calls -/
def runCalls (r : Res) : Client → List Call → List (Bool × String)
  | _, [] => []
  | c, k :: ks =>
    let (c', ok, cls) := clientCall r c k
    (ok, cls) :: runCalls r c' ks

/-! ## inet_pton (usual/socket_pton.c; `strict` = glibc's extra leading-zero rule) -/

/-- `inet_pton4` loop. `done` = finished octets (reversed), `cur` = `*tp`, `nd` = `saw_digit`
    (number of digits of the current field, 0 = none yet).  A field has one to three digits
    (repair F42 of the compat function; the platform function never accepted more: a fourth
    digit means a leading zero or a value above 255). -/
def pton4Loop (strict : Bool) : Str → Nat → Nat → List UInt8 → Nat → Option Str
  | [], _, octets, done, cur =>
    if octets < 4 then none else some ((UInt8.ofNat cur :: done).reverse)
  | ch :: rest, nd, octets, done, cur =>
    if 48 ≤ ch ∧ ch ≤ 57 then
      let new := cur * 10 + (ch.toNat - 48)
      if strict ∧ nd > 0 ∧ cur = 0 then none
      else if new > 255 then none
      else if nd = 0 ∧ octets + 1 > 4 then none
      else if nd + 1 > 3 then none                         -- "ddd": one to three digits
      else pton4Loop strict rest (nd + 1) (if nd = 0 then octets + 1 else octets) done new
    else if ch = DOT ∧ nd > 0 then
      if octets = 4 then none else pton4Loop strict rest 0 octets (UInt8.ofNat cur :: done) 0
    else none

def inetPton4 (strict : Bool) (src : Str) : Option Str := pton4Loop strict src 0 0 [] 0

def hexDigitVal (c : UInt8) : Option Nat :=
  if 48 ≤ c ∧ c ≤ 57 then some (c.toNat - 48)
  else if 97 ≤ c ∧ c ≤ 102 then some (c.toNat - 87)
  else if 65 ≤ c ∧ c ≤ 70 then some (c.toNat - 55)
  else none

/-- the code after the loop of `inet_pton6` -/
def pton6Fin (out : Str) (colonp : Option Nat) (saw : Bool) (val : Nat) : Option Str :=
  let out? : Option Str :=
    if saw then
      (if out.length + 2 > 16 then none
       else some (out ++ [UInt8.ofNat (val / 256), UInt8.ofNat (val % 256)]))
    else some out
  match out? with
  | none => none
  | some o =>
    match colonp with
    | some cp =>
      if o.length = 16 then none
      else some (o.take cp ++ List.replicate (16 - o.length) 0 ++ o.drop cp)
    | none => if o.length = 16 then some o else none

/-- `inet_pton6` loop. `out` = bytes written so far (`tp - tmp = out.length`),
    `colonp` = offset of the `::`, `curtok` = start of the current token -/
def pton6Loop (strict : Bool) : Str → Str → Str → Option Nat → Bool → Nat → Nat → Option Str
  | [], _, out, cp, saw, _, val => pton6Fin out cp saw val
  | ch :: rest, curtok, out, cp, saw, cnt, val =>
    match hexDigitVal ch with
    | some d =>
      if cnt ≥ 4 then none
      else
        let v := val * 16 + d
        if v > 0xffff then none else pton6Loop strict rest curtok out cp true (cnt + 1) v
    | none =>
      if ch = COLON then
        if !saw then
          (if cp.isSome then none else pton6Loop strict rest rest out (some out.length) false cnt val)
        else if rest = [] then none
        else if out.length + 2 > 16 then none
        else pton6Loop strict rest rest
               (out ++ [UInt8.ofNat (val / 256), UInt8.ofNat (val % 256)]) cp false 0 0
      else if ch = DOT ∧ out.length + 4 ≤ 16 then
        match inetPton4 strict curtok with
        | some a => pton6Fin (out ++ a) cp false val
        | none => none
      else none

def inetPton6 (strict : Bool) (src : Str) : Option Str :=
  match src with
  | c0 :: rest =>
    if c0 = COLON then
      (match rest with
       | c1 :: _ => if c1 = COLON then pton6Loop strict rest rest [] none false 0 0 else none
       | [] => none)
    else pton6Loop strict src src [] none false 0 0
  | [] => pton6Loop strict [] [] [] none false 0 0

/-- the classifier used by `tls_check_subject_altname` / `tls_check_common_name`:
    AF_INET first, then AF_INET6 -/
def ipLit (strict : Bool) (name : Str) : Option Str :=
  match inetPton4 strict name with
  | some a => some a
  | none => inetPton6 strict name

/-! ## op-line interface for the driver -/

def parseEntry (w : String) : Option (Cert → Cert) :=
  match w.splitOn ":" with
  | [k, h] =>
    match Usual.parseHex h with
    | none => none
    | some d =>
      if k == "cn" then some fun c => { c with cns := c.cns ++ [d] }
      else if k == "san-dns" then some fun c => { c with sans := c.sans ++ [.dns d] }
      else if k == "san-ip" then some fun c => { c with sans := c.sans ++ [.ip d] }
      else if k == "san-mail" then some fun c => { c with sans := c.sans ++ [.other d] }
      else none
  | _ => none

def parseName (w : String) : Option Str :=
  match w.splitOn ":" with
  | ["name", h] =>
    match Usual.parseHex h with
    | some d => if NUL ∈ d then none else some d
    | none => none
  | _ => none

def parseEntries : List String → Cert → Option Cert
  | [], c => some c
  | w :: ws, c =>
    match parseEntry w with
    | some f => parseEntries ws (f c)
    | none => none

def modeOf (m : String) : Option Bool :=
  if m == "g" then some true else if m == "c" then some false else none

/-! ### exhaustive-pairs range hash (driver only; mirrors `do_xpairs` of the harness) -/

def xcount (k maxlen : Nat) : Nat := (List.range (maxlen + 1)).foldl (fun n l => n + k ^ l) 0

/-- length of string number `idx` and its index among the strings of that length -/
def xlen (k : Nat) : Nat → Nat → Nat → Nat → Nat × Nat
  | 0, idx, _, len => (len, idx)
  | fuel + 1, idx, p, len => if idx ≥ p then xlen k fuel (idx - p) (p * k) (len + 1) else (len, idx)

def xdigits (alpha : Array UInt8) : Nat → Nat → Str → Str
  | 0, _, acc => acc
  | len + 1, idx, acc => xdigits alpha len (idx / alpha.size) (alpha[idx % alpha.size]! :: acc)

def xstring (alpha : Array UInt8) (idx : Nat) : Str :=
  let (len, r) := xlen alpha.size 32 idx 1 0
  xdigits alpha len r []

def fnvStep (h : UInt64) (v : UInt64) : UInt64 :=
  (List.range 8).foldl (fun h i => (h ^^^ ((v >>> (8 * i.toUInt64)) &&& 0xff)) * 0x100000001b3) h

def clsIndex (r : Res) : UInt64 :=
  match r with
  | .errNulSan => 1 | .errSpace => 2 | .errNulCN => 3 | _ => 0

def xpairsLoop (strict : Bool) (cn : Bool) (alpha : Array UInt8) (nn : Nat) :
    Nat → Nat → UInt64 → Nat → Nat → Nat → UInt64 × Nat × Nat × Nat
  | 0, _, h, a, b, c => (h, a, b, c)
  | k + 1, p, h, a, b, c =>
    let cs := xstring alpha (p / nn)
    let ns := xstring alpha (p % nn)
    let cert : Cert := if cn then ⟨[], [cs]⟩ else ⟨[.dns cs], []⟩
    let r := checkName (ipLit strict) cert ns
    let v : UInt64 := (r.rc + 2).toNat.toUInt64 ||| (clsIndex r <<< 4) |||
                      ((if containsName (ipLit strict) cert ns then (1 : UInt64) else 0) <<< 8)
    let h := fnvStep h v
    match r with
    | .ok => xpairsLoop strict cn alpha nn k (p + 1) h (a + 1) b c
    | .noMatch => xpairsLoop strict cn alpha nn k (p + 1) h a (b + 1) c
    | _ => xpairsLoop strict cn alpha nn k (p + 1) h a b (c + 1)

def hex16 (v : UInt64) : String :=
  String.ofList ((List.range 16).map fun i => Usual.hexDigit ((v >>> (4 * (15 - i).toUInt64)) &&& 0xf).toNat)

def runLine (line : String) : String :=
  if line.trimAscii.toString == "#case" then "#case" else
  match Usual.words line with
  | ["pton", m, h] =>
    match modeOf m, Usual.parseHex h with
    | some strict, some s =>
      if NUL ∈ s then "bad-op" else
      match inetPton4 strict s with
      | some a => "4:" ++ Usual.toHex a
      | none =>
        match inetPton6 strict s with
        | some a => "6:" ++ Usual.toHex a
        | none => "none"
    | _, _ => "bad-op"
  | "hsq" :: m :: flags :: rest =>
    let qws := rest.filter (·.startsWith "q:")
    let ews := rest.filter (fun w => !(w.startsWith "q:"))
    let qs := qws.filterMap fun w => parseName ("name:" ++ (w.drop 2).toString)
    let okFlags := flags.length ≥ 1 && flags.length ≤ 5 && flags.toList.all (fun ch => "vnsftme".toList.contains ch)
    if okFlags && qs.length == qws.length && qs.length ≥ 1 && qs.length ≤ 12 && ews.length ≥ 1 && ews.length < 61
        && (rest.getLast!).startsWith "name:" then
      match modeOf m, parseName (ews.getLast!), parseEntries ews.dropLast ⟨[], []⟩ with
      | some strict, some name, some cert =>
        let verify := !(flags.toList.contains 'n')
        let (rc, cls) := handshakeCfg verify (checkName (ipLit strict) cert name)
        let peer := recordedPeer rc cert
        let ans := fun (p : Option Cert) => ",".intercalate (qs.map fun q => if peerContains (ipLit strict) p q then "1" else "0")
        let base := s!"hs={if rc == 0 then "ok" else "fail"} err={cls} q={ans peer}"
        -- mutual: the server records the client's certificate (the same one) whatever the client decides
        if flags.toList.contains 'm' then base ++ s!" sq={ans (some cert)}" else base
      | _, _, _ => "bad-op"
    else "bad-op"
  | "hsr" :: m :: script :: rest =>
    let calls := script.toList.filterMap fun ch =>
      if ch == 'h' then some Call.hs else if ch == 'w' then some Call.wr
      else if ch == 'r' then some Call.rd else none
    if rest.length ≥ 1 && rest.length < 61 && script.length ≥ 1 && script.length ≤ 8
        && calls.length == script.length then
      match modeOf m, parseName (rest.getLast!), parseEntries rest.dropLast ⟨[], []⟩ with
      | some strict, some name, some cert =>
        let r := checkName (ipLit strict) cert name
        let outs := (runCalls r ⟨false⟩ calls).map fun (ok, cls) => if ok then "ok" else "fail:" ++ cls
        "calls=" ++ ",".intercalate outs
      | _, _, _ => "bad-op"
    else "bad-op"
  | ["noise", k] => if k == "1" || k == "2" || k == "3" then "ok" else "bad-op"   -- frame: no effect
  | ["cnew"] => "ok"
  | ["creset"] => "ok"
  | ["cfail", m, nm] =>
    -- a connect attempt that fails before any handshake; it must leave nothing behind that a
    -- later connect on the same context would be judged by
    match modeOf m, parseName nm with
    | some _, some _ => "connect=fail"
    | _, _ => "bad-op"
  | ["xpairs", m, kind, ah, lc, ln, lo, hi] =>
    match modeOf m, Usual.parseHex ah, lc.toNat?, ln.toNat?, lo.toNat?, hi.toNat? with
    | some strict, some al, some lc, some ln, some lo, some hi =>
      let k := al.length
      if (kind == "san-dns" || kind == "cn") && 2 ≤ k && k ≤ 8 && !(al.contains NUL)
          && lc ≤ 7 && ln ≤ 7 && lo ≤ hi && hi ≤ xcount k lc * xcount k ln then
        let (h, a, b, c) := xpairsLoop strict (kind == "cn") al.toArray (xcount k ln) (hi - lo) lo
                              0xcbf29ce484222325 0 0 0
        s!"h={hex16 h} ok={a} nomatch={b} err={c}"
      else "bad-op"
    | _, _, _, _, _, _ => "bad-op"
  | op :: m :: rest =>
    -- `chs` = handshake on a re-used client context: judged by the name of ITS connect call,
    -- exactly like `hs` (the model has no state to carry over)
    -- `hsn` = the same handshake reached through tls_connect_servername
    if (op == "cert" || op == "hs" || op == "chs" || op == "hsn") && rest.length ≥ 1 && rest.length < 62 then
      match modeOf m, parseName (rest.getLast!), parseEntries rest.dropLast ⟨[], []⟩ with
      | some strict, some name, some cert =>
        let r := checkName (ipLit strict) cert name
        if op == "cert" then
          s!"rc={r.rc} err={r.errClass} contains={if containsName (ipLit strict) cert name then 1 else 0}"
        else
          let (rc, cls) := handshakeRc r
          s!"hs={if rc == 0 then "ok" else "fail"} err={cls}"
      | _, _, _ => "bad-op"
    else "bad-op"
  | _ => "bad-op"

end Usual.C08
