import Usual.C08.TlsName
/-!
# C08 — the property's wording as predicates (the formal reading of the statement)

"accepts a certificate for a requested server name only if a subjectAltName dNSName (or,
failing that, the subject Common Name) equals the name case-insensitively, or is a wildcard
of the form `*.` followed by at least two non-empty labels whose suffix equals the requested
name with its first non-empty label removed — the wildcard never spans more than one label,
never stands for part of a label, and is never applied to IP literals, which match only an
identical iPAddress entry or a byte-identical Common Name.  A certificate name with an
embedded NUL, or a dNSName consisting of a single space, is … never a match."

Reading choices (each is the stricter / literal one):
* "`*.` followed by at least two non-empty labels": the two labels that directly follow
  `*.` are non-empty (`*.a.b`, `*.a.b.`, `*.a.b..c` qualify; `*.b`, `*.b.`, `*..a.b`,
  `*.a..b` do not).  The unchanged code accepted `*.b.` — defect F17.
* "the requested name with its first non-empty label removed": the name is
  `label ++ dom` with a non-empty dot-free first label and `dom` beginning with a dot; a name
  that starts with a dot has no such label and is never covered by a wildcard.
* "or, failing that, the subject Common Name": the Common Name (the first one of the
  subject) is consulted whenever the subjectAltName scan produced neither a match nor an
  error — also when a subjectAltName extension is present (this is what the code does and
  the statement allows: it only bounds what may be accepted).
* "IP literal": a name the linked `inet_pton` accepts for AF_INET or AF_INET6 (`ipLit`).
-/
namespace Usual.C08

/-- a non-empty label: at least one byte, no dot -/
def IsLabel (l : Str) : Prop := l ≠ [] ∧ DOT ∉ l

/-- `*.` followed by at least two non-empty labels:
    `c = "*." ++ l1 ++ "." ++ l2 ++ rest` where `rest` is empty or begins a further label -/
def WildcardForm (c : Str) : Prop :=
  ∃ l1 l2 rest, c = [STAR, DOT] ++ l1 ++ [DOT] ++ l2 ++ rest ∧ IsLabel l1 ∧ IsLabel l2 ∧
    (rest = [] ∨ rest.head? = some DOT)

/-- the wildcard `c` covers `n`: `n` is one non-empty label `lbl` followed by `dom`, and the
    wildcard without its star equals `dom` up to ASCII case -/
def WildcardCovers (c n : Str) : Prop :=
  WildcardForm c ∧
  ∃ lbl dom, n = lbl ++ dom ∧ IsLabel lbl ∧ dom.head? = some DOT ∧ eqi c.tail dom = true

/-- a (DNS) certificate name covers the requested name -/
def NameCovers (c n : Str) : Prop := eqi c n = true ∨ WildcardCovers c n

/-- The certificate covers the requested name by the rules of the property.
    `ipLit` says which names are IP literals (and their octets): the linked `inet_pton`. -/
def Covers (ipLit : Str → Option Str) (cert : Cert) (name : Str) : Prop :=
  match ipLit name with
  | none =>
      (∃ d, SanEntry.dns d ∈ cert.sans ∧ NUL ∉ d ∧ d ≠ [SPACE] ∧ NameCovers d name) ∨
      (∃ cn, cert.cns.head? = some cn ∧ NUL ∉ cn ∧ NameCovers cn name)
  | some addr =>
      SanEntry.ip addr ∈ cert.sans ∨ (cert.cns.head? = some name ∧ NUL ∉ name)

/-- a certificate name that must be reported, never matched -/
def MaliciousDns (d : Str) : Prop := NUL ∈ d ∨ d = [SPACE]

/-- no malicious dNSName in the certificate (only relevant when the name is not an IP literal,
    because dNSNames are not looked at otherwise) -/
def CleanSans (sans : List SanEntry) : Prop := ∀ d, SanEntry.dns d ∈ sans → ¬ MaliciousDns d

end Usual.C08
