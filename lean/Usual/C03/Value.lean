/-!
# JSON values (shared by C02 — parser model — and C03 — render / builder model)

`JVal` is the *abstract* value tree the property talks about:

* `int i`     — `JSON_INT`, a mathematical integer (the C field is `int64_t`),
* `float b`   — `JSON_FLOAT`, the IEEE-754 binary64 **bit pattern** (so `-0.0`, subnormals
                and every payload are distinguished; no float arithmetic anywhere),
* `str s`     — `JSON_STRING`, the bytes (without the terminating NUL),
* `list l`    — `JSON_LIST`, elements in list order,
* `dict kvs`  — `JSON_DICT`, members in the order `json_dict_iter` visits them = crit-bit
                walk order = strictly ascending **bytewise** key order (`keyLt`, a proper
                prefix is smaller; identical to `Usual.C06.keyLt`).  Document order is NOT kept.

Equality of two `JVal`s is plain structural equality (`=` / `JVal.beq`); because dict members
are kept sorted and keys are unique (`JVal.Sorted`) this is "equal key sets, equal values".

Core Lean only.
-/
namespace Usual.C03

inductive JVal where
  | null
  | bool (b : Bool)
  | int (i : Int)
  | float (bits : UInt64)
  | str (s : List UInt8)
  | list (l : List JVal)
  | dict (kvs : List (List UInt8 × JVal))
deriving Repr, Inhabited

/-- standard bytewise lexicographic order on byte strings (a proper prefix is smaller) -/
def keyLt : List UInt8 → List UInt8 → Bool
  | [], [] => false
  | [], _ :: _ => true
  | _ :: _, [] => false
  | x :: xs, y :: ys => x < y || (x == y && keyLt xs ys)

/-! ## structural equality (executable) -/

mutual
def JVal.beq : JVal → JVal → Bool
  | .null, .null => true
  | .bool a, .bool b => a == b
  | .int a, .int b => a == b
  | .float a, .float b => a == b
  | .str a, .str b => a == b
  | .list a, .list b => beqList a b
  | .dict a, .dict b => beqKvs a b
  | _, _ => false
def beqList : List JVal → List JVal → Bool
  | [], [] => true
  | x :: xs, y :: ys => x.beq y && beqList xs ys
  | _, _ => false
def beqKvs : List (List UInt8 × JVal) → List (List UInt8 × JVal) → Bool
  | [], [] => true
  | (k, x) :: xs, (k', y) :: ys => k == k' && x.beq y && beqKvs xs ys
  | _, _ => false
end

instance : BEq JVal := ⟨JVal.beq⟩

/-! ## depth and size -/

mutual
/-- nesting depth: scalars 0, a container 1 + the deepest element -/
def JVal.depth : JVal → Nat
  | .list l => depthList l + 1
  | .dict kvs => depthKvs kvs + 1
  | _ => 0
def depthList : List JVal → Nat
  | [] => 0
  | v :: vs => max v.depth (depthList vs)
def depthKvs : List (List UInt8 × JVal) → Nat
  | [] => 0
  | (_, v) :: r => max v.depth (depthKvs r)
end

mutual
/-- number of nodes of the tree (dict keys are not counted separately) -/
def JVal.size : JVal → Nat
  | .list l => sizeList l + 1
  | .dict kvs => sizeKvs kvs + 1
  | _ => 1
def sizeList : List JVal → Nat
  | [] => 0
  | v :: vs => v.size + sizeList vs
def sizeKvs : List (List UInt8 × JVal) → Nat
  | [] => 0
  | (_, v) :: r => v.size + sizeKvs r
end

/-- what `json_value_size` reports for a value tree: bytes of a string, element count of a
container, 0 otherwise -/
def JVal.valueSize : JVal → Nat
  | .str s => s.length
  | .list l => l.length
  | .dict kvs => kvs.length
  | _ => 0

/-! ## sortedness of dict members -/

/-- keys strictly ascending (hence unique) -/
def keysSorted : List (List UInt8 × JVal) → Bool
  | [] => true
  | [_] => true
  | (k, _) :: (k', v') :: r => keyLt k k' && keysSorted ((k', v') :: r)

mutual
/-- every dict in the tree has strictly ascending keys -/
def JVal.sorted : JVal → Bool
  | .list l => sortedList l
  | .dict kvs => keysSorted kvs && sortedKvs kvs
  | _ => true
def sortedList : List JVal → Bool
  | [] => true
  | v :: vs => v.sorted && sortedList vs
def sortedKvs : List (List UInt8 × JVal) → Bool
  | [] => true
  | (_, v) :: r => v.sorted && sortedKvs r
end

/-- insert a member into a sorted member list; `none` = key already present -/
def insertKv (k : List UInt8) (v : JVal) :
    List (List UInt8 × JVal) → Option (List (List UInt8 × JVal))
  | [] => some [(k, v)]
  | (k', v') :: r =>
    if keyLt k k' then some ((k, v) :: (k', v') :: r)
    else if k == k' then none
    else match insertKv k v r with
      | none => none
      | some r' => some ((k', v') :: r')

/-! ## `beq` is structural equality; decidable equality -/

mutual
theorem JVal.beq_iff : ∀ (a b : JVal), a.beq b = true ↔ a = b
  | .null, b => by cases b <;> simp [JVal.beq]
  | .bool x, b => by cases b <;> simp [JVal.beq]
  | .int x, b => by cases b <;> simp [JVal.beq]
  | .float x, b => by cases b <;> simp [JVal.beq]
  | .str x, b => by cases b <;> simp [JVal.beq]
  | .list x, b => by
      cases b <;> simp [JVal.beq]
      exact beqList_iff x _
  | .dict x, b => by
      cases b <;> simp [JVal.beq]
      exact beqKvs_iff x _
theorem beqList_iff : ∀ (a b : List JVal), beqList a b = true ↔ a = b
  | [], b => by cases b <;> simp [beqList]
  | x :: xs, b => by
      cases b with
      | nil => simp [beqList]
      | cons y ys => simp [beqList, JVal.beq_iff x y, beqList_iff xs ys]
theorem beqKvs_iff : ∀ (a b : List (List UInt8 × JVal)), beqKvs a b = true ↔ a = b
  | [], b => by cases b <;> simp [beqKvs]
  | (k, x) :: xs, b => by
      cases b with
      | nil => simp [beqKvs]
      | cons y ys =>
        obtain ⟨k', y⟩ := y
        simp [beqKvs, JVal.beq_iff x y, beqKvs_iff xs ys, and_assoc]
end
instance : DecidableEq JVal := fun a b =>
  if h : a.beq b = true then isTrue ((JVal.beq_iff a b).1 h)
  else isFalse (fun e => h ((JVal.beq_iff a b).2 e))

end Usual.C03
