import Usual.C03.Value
/-!
# RFC 8259 reference recogniser / evaluator (specification side of C02 and C03)

Written from the grammar of RFC 8259 (and RFC 3629 §4 for UTF-8), *not* from `json.c`.
`Rfc.parse strtod doc = some v` means: `doc` is a JSON text in the sense of RFC 8259 §2
(UTF-8 encoded, §8.1), all object names inside one object are distinct (§4 "SHOULD be unique"
— documents with repeated names are outside this reference: `none`), every `\uXXXX` escape
denotes a Unicode scalar value, alone or as a surrogate pair (§7; a lone surrogate has no
UTF-8 form: `none`), and `v` is its value:

* `false`/`true`/`null` → `.bool`/`.null`;
* number (§6: `[ minus ] int [ frac ] [ exp ]`): without `frac`/`exp` and with magnitude
  ≤ 2^53 − 1 → `.int`; every other number → `.float (strtod token)` where the parameter
  `strtod` maps the token bytes to the bits of the finite binary64 it denotes (`none`, or a
  non-finite result = not representable → the document has no value here: `none`);
* string (§7) → `.str` of the UTF-8 bytes after un-escaping (`\u0000` gives a 0 byte);
* array → `.list` in order;  object → `.dict` with members sorted bytewise by name.

A byte that cannot continue the production in progress makes the result `none`; e.g. `1.` or
`1e` is `none` right in `number` — equivalent to the grammar, because no production lets
`.`/`e`/`E` follow a complete value.

Recursion is on an explicit `fuel` (first argument).  `value`/`elems`/`members` call each other
with `fuel - 1` and every second call consumes a byte, so `2 * length + 2` is always enough
(`parse` uses that); `strBody` uses one unit per character.

Core Lean only.
-/
namespace Usual.C03.Rfc

abbrev Bytes := List UInt8

/-! ## §2 white space and structural characters -/

/-- `ws = *( %x20 / %x09 / %x0A / %x0D )` -/
def isWs (b : UInt8) : Bool := b == 0x20 || b == 0x09 || b == 0x0A || b == 0x0D

def skipWs : Bytes → Bytes
  | [] => []
  | b :: r => if isWs b then skipWs r else b :: r

/-- remove the literal `p` from the front -/
def stripPrefix : Bytes → Bytes → Option Bytes
  | [], r => some r
  | _ :: _, [] => none
  | p :: ps, b :: r => if p == b then stripPrefix ps r else none

/-! ## §6 numbers -/

def isDigit (b : UInt8) : Bool := 0x30 ≤ b && b ≤ 0x39

/-- longest prefix of digits -/
def digits : Bytes → Bytes
  | [] => []
  | b :: r => if isDigit b then b :: digits r else []

/-- what follows the longest prefix of digits -/
def afterDigits : Bytes → Bytes
  | [] => []
  | b :: r => if isDigit b then afterDigits r else b :: r

/-- decimal value of a digit string -/
def natOfDigits (ds : Bytes) : Nat := ds.foldl (fun a d => a * 10 + (d.toNat - 0x30)) 0

/-- `int = zero / ( digit1-9 *DIGIT )`: (consumed, rest) -/
def intPart : Bytes → Option (Bytes × Bytes)
  | [] => none
  | b :: r =>
    if b == 0x30 then some ([b], r)
    else if 0x31 ≤ b && b ≤ 0x39 then some (b :: digits r, afterDigits r)
    else none

/-- `[ frac ]`, `frac = decimal-point 1*DIGIT`: (consumed — `[]` when absent, rest) -/
def fracPart : Bytes → Option (Bytes × Bytes)
  | 0x2E :: r => if digits r == [] then none else some (0x2E :: digits r, afterDigits r)
  | r => some ([], r)

/-- `[ exp ]`, `exp = e [ minus / plus ] 1*DIGIT`: (consumed — `[]` when absent, rest) -/
def expPart : Bytes → Option (Bytes × Bytes)
  | [] => some ([], [])
  | b :: r =>
    if b == 0x65 || b == 0x45 then
      match r with
      | [] => none
      | s :: r' =>
        if s == 0x2B || s == 0x2D then
          (if digits r' == [] then none else some (b :: s :: digits r', afterDigits r'))
        else
          (if digits r == [] then none else some (b :: digits r, afterDigits r))
    else some ([], b :: r)

def maxInt : Nat := 2 ^ 53 - 1

/-- exponent field all ones = infinity / NaN -/
def isFiniteBits (x : UInt64) : Bool := (x >>> 52) &&& 0x7FF != 0x7FF

/-- `number = [ minus ] int [ frac ] [ exp ]` and its value -/
def number (strtod : Bytes → Option UInt64) (inp : Bytes) : Option (JVal × Bytes) :=
  let neg := match inp with | 0x2D :: _ => true | _ => false
  let r0 := if neg then inp.drop 1 else inp
  match intPart r0 with
  | none => none
  | some (ip, r1) =>
    match fracPart r1 with
    | none => none
    | some (fp, r2) =>
      match expPart r2 with
      | none => none
      | some (ep, r3) =>
        if fp == [] && ep == [] && natOfDigits ip ≤ maxInt then
          some (.int (if neg then - (natOfDigits ip : Int) else (natOfDigits ip : Int)), r3)
        else
          match strtod ((if neg then [0x2D] else []) ++ ip ++ fp ++ ep) with
          | none => none
          | some x => if isFiniteBits x then some (.float x, r3) else none

/-! ## RFC 3629 UTF-8 -/

/-- `UTF8-tail = %x80-BF` -/
def isTail (b : UInt8) : Bool := 0x80 ≤ b && b ≤ 0xBF

/-- length of the well-formed UTF-8 sequence at the front (RFC 3629 §4 `UTF8-char`) -/
def utf8Len : Bytes → Option Nat
  | [] => none
  | b0 :: r =>
    if b0 ≤ 0x7F then some 1                                          -- UTF8-1
    else if 0xC2 ≤ b0 && b0 ≤ 0xDF then                              -- UTF8-2
      match r with
      | b1 :: _ => if isTail b1 then some 2 else none
      | _ => none
    else if 0xE0 ≤ b0 && b0 ≤ 0xEF then                              -- UTF8-3
      match r with
      | b1 :: b2 :: _ =>
        if ((b0 == 0xE0 && 0xA0 ≤ b1 && b1 ≤ 0xBF) ||
            (0xE1 ≤ b0 && b0 ≤ 0xEC && isTail b1) ||
            (b0 == 0xED && 0x80 ≤ b1 && b1 ≤ 0x9F) ||
            (0xEE ≤ b0 && isTail b1)) && isTail b2 then some 3 else none
      | _ => none
    else if 0xF0 ≤ b0 && b0 ≤ 0xF4 then                              -- UTF8-4
      match r with
      | b1 :: b2 :: b3 :: _ =>
        if ((b0 == 0xF0 && 0x90 ≤ b1 && b1 ≤ 0xBF) ||
            (0xF1 ≤ b0 && b0 ≤ 0xF3 && isTail b1) ||
            (b0 == 0xF4 && 0x80 ≤ b1 && b1 ≤ 0x8F)) && isTail b2 && isTail b3 then some 4 else none
      | _ => none
    else none

/-- UTF-8 form of a Unicode scalar value (RFC 3629 §3 table) -/
def utf8Enc (c : Nat) : Bytes :=
  if c < 0x80 then [UInt8.ofNat c]
  else if c < 0x800 then [UInt8.ofNat (0xC0 + c / 64), UInt8.ofNat (0x80 + c % 64)]
  else if c < 0x10000 then
    [UInt8.ofNat (0xE0 + c / 4096), UInt8.ofNat (0x80 + c / 64 % 64), UInt8.ofNat (0x80 + c % 64)]
  else
    [UInt8.ofNat (0xF0 + c / 262144), UInt8.ofNat (0x80 + c / 4096 % 64),
     UInt8.ofNat (0x80 + c / 64 % 64), UInt8.ofNat (0x80 + c % 64)]

/-! ## §7 strings -/

/-- `HEXDIG` (both cases) -/
def hexVal (b : UInt8) : Option Nat :=
  if 0x30 ≤ b && b ≤ 0x39 then some (b.toNat - 0x30)
  else if 0x61 ≤ b && b ≤ 0x66 then some (b.toNat - 0x61 + 10)
  else if 0x41 ≤ b && b ≤ 0x46 then some (b.toNat - 0x41 + 10)
  else none

/-- `4HEXDIG` at the front: (value, rest) -/
def hex4 : Bytes → Option (Nat × Bytes)
  | a :: b :: c :: d :: r =>
    match hexVal a, hexVal b, hexVal c, hexVal d with
    | some x, some y, some z, some w => some (((x * 16 + y) * 16 + z) * 16 + w, r)
    | _, _, _, _ => none
  | _ => none

/-- after `\u`: one scalar value, or a high surrogate followed by `\u` + low surrogate -/
def uEscape (inp : Bytes) : Option (Bytes × Bytes) :=
  match hex4 inp with
  | none => none
  | some (u, r) =>
    if u < 0xD800 || 0xDFFF < u then some (utf8Enc u, r)
    else if u < 0xDC00 then
      match r with
      | 0x5C :: 0x75 :: r' =>
        match hex4 r' with
        | none => none
        | some (l, r'') =>
          if 0xDC00 ≤ l && l ≤ 0xDFFF then
            some (utf8Enc (0x10000 + (u - 0xD800) * 1024 + (l - 0xDC00)), r'')
          else none
      | _ => none
    else none

/-- after the `escape` character `\`: (bytes denoted, rest) -/
def escape : Bytes → Option (Bytes × Bytes)
  | [] => none
  | b :: r =>
    if b == 0x22 then some ([0x22], r)          -- \"
    else if b == 0x5C then some ([0x5C], r)     -- \\
    else if b == 0x2F then some ([0x2F], r)     -- \/
    else if b == 0x62 then some ([0x08], r)     -- \b
    else if b == 0x66 then some ([0x0C], r)     -- \f
    else if b == 0x6E then some ([0x0A], r)     -- \n
    else if b == 0x72 then some ([0x0D], r)     -- \r
    else if b == 0x74 then some ([0x09], r)     -- \t
    else if b == 0x75 then uEscape r            -- \uXXXX
    else none

/-- one `char` (not the closing quotation mark): `unescaped` (one UTF-8 encoded code point
≥ U+0020 other than `"` and `\`) or an escape: (bytes denoted, rest) -/
def strChar : Bytes → Option (Bytes × Bytes)
  | [] => none
  | b :: r =>
    if b == 0x5C then escape r
    else if b == 0x22 || b < 0x20 then none
    else match utf8Len (b :: r) with
      | none => none
      | some n => some ((b :: r).take n, (b :: r).drop n)

/-- `*char quotation-mark` (the opening quotation mark is already consumed): (value, rest) -/
def strBody : Nat → Bytes → Option (Bytes × Bytes)
  | 0, _ => none
  | _ + 1, [] => none
  | fuel + 1, b :: r =>
    if b == 0x22 then some ([], r)
    else match strChar (b :: r) with
      | none => none
      | some (bs, r') =>
        match strBody fuel r' with
        | none => none
        | some (s, r'') => some (bs ++ s, r'')

/-- string after its opening quotation mark -/
def string (inp : Bytes) : Option (Bytes × Bytes) := strBody (inp.length + 1) inp

/-! ## §4 objects: unique names, sorted -/

/-- members in document order → members sorted by name; `none` when a name repeats -/
def mkDict : List (Bytes × JVal) → Option (List (Bytes × JVal))
  | [] => some []
  | (k, v) :: r =>
    match mkDict r with
    | none => none
    | some d => insertKv k v d

/-! ## §3 values, §5 arrays, §4 objects -/

mutual
/-- `value` at the front (no leading white space): (value, rest) -/
def value (strtod : Bytes → Option UInt64) : Nat → Bytes → Option (JVal × Bytes)
  | 0, _ => none
  | _ + 1, [] => none
  | fuel + 1, b :: r =>
    if b == 0x5B then                                   -- begin-array = ws [ ws
      match skipWs r with
      | [] => none
      | c :: r' =>
        if c == 0x5D then some (.list [], r')           -- end-array
        else match elems strtod fuel (c :: r') with
          | none => none
          | some (l, r'') => some (.list l, r'')
    else if b == 0x7B then                              -- begin-object = ws { ws
      match skipWs r with
      | [] => none
      | c :: r' =>
        if c == 0x7D then some (.dict [], r')           -- end-object
        else match members strtod fuel (c :: r') with
          | none => none
          | some (ms, r'') =>
            match mkDict ms with
            | none => none
            | some d => some (.dict d, r'')
    else if b == 0x22 then                              -- string
      match string r with
      | none => none
      | some (s, r') => some (.str s, r')
    else if b == 0x66 then                              -- false
      match stripPrefix [0x61, 0x6C, 0x73, 0x65] r with
      | none => none
      | some r' => some (.bool false, r')
    else if b == 0x6E then                              -- null
      match stripPrefix [0x75, 0x6C, 0x6C] r with
      | none => none
      | some r' => some (.null, r')
    else if b == 0x74 then                              -- true
      match stripPrefix [0x72, 0x75, 0x65] r with
      | none => none
      | some r' => some (.bool true, r')
    else number strtod (b :: r)

/-- `value *( value-separator value ) end-array`, `value-separator = ws , ws`: (elements, rest) -/
def elems (strtod : Bytes → Option UInt64) : Nat → Bytes → Option (List JVal × Bytes)
  | 0, _ => none
  | fuel + 1, inp =>
    match value strtod fuel inp with
    | none => none
    | some (v, r) =>
      match skipWs r with
      | [] => none
      | c :: r' =>
        if c == 0x2C then
          match elems strtod fuel (skipWs r') with
          | none => none
          | some (vs, r'') => some (v :: vs, r'')
        else if c == 0x5D then some ([v], r')
        else none

/-- `member *( value-separator member ) end-object`, `member = string name-separator value`,
`name-separator = ws : ws`: (members in document order, rest) -/
def members (strtod : Bytes → Option UInt64) : Nat → Bytes → Option (List (Bytes × JVal) × Bytes)
  | 0, _ => none
  | _ + 1, [] => none
  | fuel + 1, q :: r =>
    if q == 0x22 then
      match string r with
      | none => none
      | some (k, r1) =>
        match skipWs r1 with
        | [] => none
        | c :: r2 =>
          if c == 0x3A then
            match value strtod fuel (skipWs r2) with
            | none => none
            | some (v, r3) =>
              match skipWs r3 with
              | [] => none
              | c' :: r4 =>
                if c' == 0x2C then
                  match members strtod fuel (skipWs r4) with
                  | none => none
                  | some (ms, r5) => some ((k, v) :: ms, r5)
                else if c' == 0x7D then some ([(k, v)], r4)
                else none
          else none
    else none
end

/-- `JSON-text = ws value ws` -/
def parse (strtod : Bytes → Option UInt64) (doc : Bytes) : Option JVal :=
  match value strtod (2 * doc.length + 2) (skipWs doc) with
  | none => none
  | some (v, r) =>
    match skipWs r with
    | [] => some v
    | _ :: _ => none

/-- the document is a JSON text with a value in this reference -/
def valid (strtod : Bytes → Option UInt64) (doc : Bytes) : Prop := (parse strtod doc).isSome

end Usual.C03.Rfc
