import Usual.C03.Render
import Usual.C06.CBTree
/-!
# C03 — model of the JSON builder API (usual/json.c) as a heap of value cells

A `Heap` is the memory pool of one `JsonContext`: cell `i` is the `i`-th `JsonValue` that
`mk_value` handed out (ids stand for pointers).  A cell keeps what the C struct keeps:

* `attached`  ⇔ `get_next(jv) != UNATTACHED` (the sentinel `mk_value(..., attach = false)`
  stores; `json_list_append` / `json_dict_put` overwrite it and `is_unattached` tests it),
* lists: the chain `first → … → last` as the id list `elems`, and the field `u.v_size` kept
  **as the code keeps it** (`real_list_append` increments it),
* dicts: the crit-bit tree of `usual/cbtree.c` (the model of property C06, `Usual.C06.insert`
  / `walk`; an entry is the key string and the id of the value its key node points to), and
  `u.v_size` as `real_dict_add_key` keeps it.  `cyc` = the proposed repair F38 (cycle check in the two attaching calls) is present.
  `f2fixed = false` is the code *before* repair
  F2 (`v_size++` before `cbtree_insert`), `true` the repaired code (after a successful insert).

`step` = one public builder call (`Op`), returning the new heap and what the call returned.
A `none` id is the `NULL` pointer (a constructor that failed); an id that does not exist is
treated the same.  Allocation failure is not modelled (property C10).

Core Lean only.
-/
namespace Usual.C03

open Usual.C06 (Entry T walk)

inductive Node where
  | null
  | bool (b : Bool)
  | int (i : Int)
  | float (x : UInt64)
  | str (s : Bytes)
  | list (elems : List Nat) (vsize : Nat)
  | dict (tree : Option T) (vsize : Nat)
deriving Repr

structure Cell where
  node : Node
  attached : Bool
deriving Repr

structure Heap where
  cells : List Cell := []
  /-- `c_parent` of the containers that have been attached: (container id, id of the container
  it sits in); the newest entry for an id is the valid one -/
  par : List (Nat × Nat) := []
deriving Repr

/-- a scalar given inline to the convenience calls `json_list_append_*` / `json_dict_put_*` -/
inductive Scalar where
  | null
  | bool (b : Bool)
  | int (i : Int)
  | float (x : UInt64)
  | str (s : Bytes)
deriving Repr

inductive Op where
  | new (s : Scalar)                      -- json_new_null/bool/int/float/string
  | newList                               -- json_new_list
  | newDict                               -- json_new_dict
  | append (l v : Option Nat)             -- json_list_append
  | appendS (l : Nat) (s : Scalar)        -- json_list_append_null/bool/int/float/string
  | put (d : Option Nat) (k : Bytes) (v : Option Nat)   -- json_dict_put
  | putS (d : Nat) (k : Bytes) (s : Scalar)             -- json_dict_put_null/…
  | seal (v : Option Nat)                 -- model only: the value is a json_parse result (its
                                          -- `next` is a real link or NULL, never UNATTACHED)
deriving Repr

/-- what a call returns: a pointer (`none` = NULL) or a bool -/
inductive Ret where
  | ptr (p : Option Nat)
  | flag (b : Bool)
deriving Repr, DecidableEq

namespace Heap

def get (h : Heap) (p : Option Nat) : Option Cell :=
  match p with
  | none => none
  | some i => h.cells[i]?

/-- `mk_value(ctx, type, extra, false)`: a fresh unattached cell -/
def alloc (h : Heap) (n : Node) : Heap × Nat :=
  ({ h with cells := h.cells ++ [⟨n, false⟩] }, h.cells.length)

def setCell (h : Heap) (i : Nat) (c : Cell) : Heap := { h with cells := h.cells.set i c }

/-- `json_new_*` for scalars: the refusals happen before `mk_value` -/
def newScalar (h : Heap) : Scalar → Heap × Option Nat
  | .null => let (h', i) := h.alloc .null; (h', some i)
  | .bool b => let (h', i) := h.alloc (.bool b); (h', some i)
  | .int i =>
    if i < -maxInt || i > maxInt then (h, none)          -- errno = ERANGE; return NULL
    else let (h', j) := h.alloc (.int i); (h', some j)
  | .float x =>
    if !isFinite x then (h, none)                         -- !isfinite(val)
    else let (h', j) := h.alloc (.float x); (h', some j)
  | .str s =>
    if !validString s then (h, none)                      -- !utf8_validate_string
    else let (h', j) := h.alloc (.str s); (h', some j)

/-- `set_next(val, NULL)`: the value stops being `UNATTACHED` -/
def markAttached (h : Heap) (vi : Nat) : Heap :=
  match h.cells[vi]? with
  | some c => h.setCell vi ⟨c.node, true⟩
  | none => h

/-- `real_list_append`: link at the end of the chain, `v_size++` -/
def pushElem (h : Heap) (li vi : Nat) : Heap :=
  match h.cells[li]? with
  | some ⟨.list es n, la⟩ => h.setCell li ⟨.list (es ++ [vi]) (n + 1), la⟩
  | _ => h

/-- store the new tree and size of a dict -/
def setDict (h : Heap) (di : Nat) (t : Option T) (n : Nat) : Heap :=
  match h.cells[di]? with
  | some ⟨.dict _ _, da⟩ => h.setCell di ⟨.dict t n, da⟩
  | _ => h

/-- list or dict (`get_container(jv) != NULL`) -/
def isContainer (h : Heap) (i : Nat) : Bool :=
  match h.cells[i]? with
  | some ⟨.list _ _, _⟩ => true
  | some ⟨.dict _ _, _⟩ => true
  | _ => false

/-- `set_parent(val, parent)`: only containers have a `c_parent` field -/
def setParent (h : Heap) (vi li : Nat) : Heap :=
  if h.isContainer vi then { h with par := (vi, li) :: h.par } else h

/-- `get_container(jv)->c_parent` (`none` = NULL) -/
def parentOf (h : Heap) (i : Nat) : Option Nat :=
  match h.par.find? (fun p => p.1 == i) with
  | some p => some p.2
  | none => none

/-- `is_self_or_ancestor(anc, jv)` of repair F38: walk the `c_parent` chain from `jv`.  The C
loop has no bound; the model's `fuel` (cells + 1) is never exhausted on a reachable heap, where
the chain visits distinct cells — should it be, the model refuses (`true`). -/
def selfOrAncestor (h : Heap) (anc : Nat) : Nat → Nat → Bool
  | 0, _ => true
  | fuel + 1, jv =>
    if jv == anc then true
    else match h.parentOf jv with
      | none => false
      | some p => selfOrAncestor h anc fuel p

/-- `json_list_append`; `cyc` = repair F38 present (refuse a container that is the list itself
or one of the containers the list sits in) -/
def listAppend (cyc : Bool) (h : Heap) (l v : Option Nat) : Heap × Bool :=
  match v, h.get v with
  | some vi, some vc =>                                   -- if (!val) return false
    match l, h.get l with
    | some li, some ⟨.list _ _, _⟩ =>                     -- has_type(list, JSON_LIST)
      if vc.attached then (h, false)                      -- !is_unattached(val)
      else if cyc && h.selfOrAncestor vi (h.cells.length + 1) li then (h, false)
      else                                                -- set_parent; set_next(val, NULL); real_list_append
        (((h.markAttached vi).setParent vi li).pushElem li vi, true)
    | _, _ => (h, false)
  | _, _ => (h, false)

/-- `JSON_MAX_KEY`: `real_dict_add_key` refuses longer names ("Too large key") -/
def jsonMaxKey : Nat := 1024 * 1024

/-- `json_dict_put` (with `real_dict_add_key`); the key node itself is not given an id -/
def dictPut (f2fixed cyc : Bool) (h : Heap) (d : Option Nat) (k : Bytes) (v : Option Nat) : Heap × Bool :=
  match v, h.get v with
  | some vi, some vc =>
    match d, h.get d with
    | some di, some ⟨.dict t n, _⟩ =>
      if vc.attached then (h, false)
      else if cyc && h.selfOrAncestor vi (h.cells.length + 1) di then (h, false)
      else if !validString k then (h, false)              -- json_new_string(key) == NULL
      else if k.length > jsonMaxKey then (h, false)       -- "Too large key"
      else
        match Usual.C06.insert t ⟨k, vi⟩ with
        | none =>                                         -- "Key insertion failed"
          (if f2fixed then (h, false) else (h.setDict di t (n + 1), false))
        | some t' =>                                      -- set_next(kjv, val); set_next(val, NULL)
          (((h.markAttached vi).setParent vi di).setDict di t' (n + 1), true)
    | _, _ => (h, false)
  | _, _ => (h, false)

/-- `get_context(jv)`: containers know their context, everything else gives NULL (and then
`mk_value(NULL, …)` returns NULL) -/
def hasContext (h : Heap) (i : Nat) : Bool :=
  match h.cells[i]? with
  | some ⟨.list _ _, _⟩ => true
  | some ⟨.dict _ _, _⟩ => true
  | _ => false

def step (f2fixed cyc : Bool) (h : Heap) : Op → Heap × Ret
  | .new s => let (h', p) := h.newScalar s; (h', .ptr p)
  | .newList => let (h', i) := h.alloc (.list [] 0); (h', .ptr (some i))
  | .newDict => let (h', i) := h.alloc (.dict none 0); (h', .ptr (some i))
  | .append l v => let (h', b) := h.listAppend cyc l v; (h', .flag b)
  | .appendS l s =>
    if h.hasContext l then
      let (h1, p) := h.newScalar s
      let (h2, b) := h1.listAppend cyc (some l) p
      (h2, .flag b)
    else (h, .flag false)
  | .put d k v => let (h', b) := h.dictPut f2fixed cyc d k v; (h', .flag b)
  | .putS d k s =>
    if h.hasContext d then
      let (h1, p) := h.newScalar s
      let (h2, b) := h1.dictPut f2fixed cyc (some d) k p
      (h2, .flag b)
    else (h, .flag false)
  | .seal v =>
    match v, h.get v with
    | some vi, some _ => (h.markAttached vi, .flag true)
    | _, _ => (h, .flag false)

/-- run a history from a heap; returns the final heap and all return values -/
def run (f2fixed cyc : Bool) (h : Heap) : List Op → Heap × List Ret
  | [] => (h, [])
  | op :: ops =>
    let (h1, r) := h.step f2fixed cyc op
    let (h2, rs) := h1.run f2fixed cyc ops
    (h2, r :: rs)

/-! ## observers -/

/-- `json_value_size` -/
def valueSize (h : Heap) (p : Option Nat) : Nat :=
  match h.get p with
  | some ⟨.str s, _⟩ => s.length
  | some ⟨.list _ n, _⟩ => n
  | some ⟨.dict _ n, _⟩ => n
  | _ => 0

/-- what `json_list_iter` / `json_dict_iter` visit: for a list the element ids, for a dict the
value ids in walk order (`none` = the iterator returns false: not a container) -/
def iter (h : Heap) (p : Option Nat) : Option (List Nat) :=
  match h.get p with
  | some ⟨.list es _, _⟩ => some es
  | some ⟨.dict t _, _⟩ => some ((walk t).map (·.obj))
  | _ => none

/-- the children of a cell (ids it links to) -/
def children (c : Cell) : List Nat :=
  match c.node with
  | .list es _ => es
  | .dict t _ => (walk t).map (·.obj)
  | _ => []

/-- all `some` -/
def optList {α : Type} : List (Option α) → Option (List α)
  | [] => some []
  | none :: _ => none
  | some a :: r => match optList r with | none => none | some l => some (a :: l)

/-- the value tree hanging off a cell; `none` when `fuel` runs out (cyclic structures, which
the API lets one build by appending a container to itself or to one of its descendants) -/
def toVal (h : Heap) : Nat → Nat → Option JVal
  | 0, _ => none
  | fuel + 1, i =>
    match h.cells[i]? with
    | none => none
    | some c =>
      match c.node with
      | .null => some .null
      | .bool b => some (.bool b)
      | .int n => some (.int n)
      | .float x => some (.float x)
      | .str s => some (.str s)
      | .list es _ =>
        match optList (es.map (toVal h fuel)) with
        | none => none
        | some l => some (.list l)
      | .dict t _ =>
        match optList ((walk t).map (fun e => toVal h fuel e.obj)) with
        | none => none
        | some l => some (.dict ((walk t).map (·.key) |>.zip l))

/-- value tree of a cell (any acyclic structure fits in `cells.length` levels) -/
def value (h : Heap) (i : Nat) : Option JVal := h.toVal (h.cells.length + 1) i

end Heap

/-! ## a value tree as a builder history (used for trees that come from `json_parse`) -/

mutual
/-- ops that build `v` on a heap whose next free id is `base`; returns the ops, the id of the
root and the next free id -/
def buildOps : JVal → Nat → List Op × Nat × Nat
  | .null, base => ([.new .null], base, base + 1)
  | .bool b, base => ([.new (.bool b)], base, base + 1)
  | .int i, base => ([.new (.int i)], base, base + 1)
  | .float x, base => ([.new (.float x)], base, base + 1)
  | .str s, base => ([.new (.str s)], base, base + 1)
  | .list l, base =>
    let (ops, nxt) := buildElems l base (base + 1)
    (.newList :: ops, base, nxt)
  | .dict kvs, base =>
    let (ops, nxt) := buildMembers kvs base (base + 1)
    (.newDict :: ops, base, nxt)
def buildElems : List JVal → Nat → Nat → List Op × Nat
  | [], _, nxt => ([], nxt)
  | v :: vs, parent, nxt =>
    let (o1, root, n1) := buildOps v nxt
    let (o2, n2) := buildElems vs parent n1
    (o1 ++ [.append (some parent) (some root)] ++ o2, n2)
def buildMembers : List (Bytes × JVal) → Nat → Nat → List Op × Nat
  | [], _, nxt => ([], nxt)
  | (k, v) :: r, parent, nxt =>
    let (o1, root, n1) := buildOps v nxt
    let (o2, n2) := buildMembers r parent n1
    (o1 ++ [.put (some parent) k (some root)] ++ o2, n2)
end

mutual
/-- what `json_parse` additionally demands of an RFC value (C02's `okV`, executable): no string or
name contains a 0 byte (`\u0000` is refused) and no name is longer than `JSON_MAX_KEY` — measured
on the **decoded** name (`json_value_size(key)` after un-escaping), not on its literal -/
def JVal.parseable : JVal → Bool
  | .str s => !s.contains 0
  | .list l => parseableList l
  | .dict kvs => parseableKvs kvs
  | _ => true
def parseableList : List JVal → Bool
  | [] => true
  | v :: vs => v.parseable && parseableList vs
def parseableKvs : List (Bytes × JVal) → Bool
  | [] => true
  | (k, v) :: r => !k.contains 0 && decide (k.length ≤ Heap.jsonMaxKey) && v.parseable && parseableKvs r
end

/-- the history the model runs for a tree that came from `json_parse`: build it through the
builder calls on a heap whose next free id is `base`, then seal the root (a parsed value is never
`UNATTACHED`).  `UsualProofs/C03/Load.lean` proves this puts exactly `v` at id `base`. -/
def loadOps (v : JVal) (base : Nat) : List Op :=
  (buildOps v base).1 ++ [.seal (some (buildOps v base).2.1)]

end Usual.C03
