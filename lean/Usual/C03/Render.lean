import Usual.C03.Rfc
/-!
# C03 — model of `json_render` (usual/json.c) on value trees

One definition per C function, same decisions in the same order:

* `escapeChar`   = `escape_char` (`\"`, `\\`, `\b \f \n \r \t`, otherwise `\u%04x`),
* `escBody`      = the loop of `render_string`: a byte is escaped when it is `"`, `\`, `< 0x20`,
                   or the first byte of `E2 80 A8` / `E2 80 A9` (U+2028 / U+2029, emitted as
                   ` ` / ` `); the C code then sets `last = s + 3` but still advances
                   `s` by one, so the two tail bytes are examined and — being covered by `last`
                   — not copied: the `skip` argument is `last - s` when positive,
* `renderInt`    = `snprintf("%" PRIi64)`,
* `renderFloat`  = `dtostr_dot` (`snprintf("%.17g")`, radix `.`) = the parameter `fmt17`, then
                   `.0` appended when the text contains neither `.` nor `e`
                   (non-finite doubles would print `inf.0`/`nan.0`; they cannot be built:
                   `json_new_float` and the parser refuse them),
* `render`       = `render_any` → `render_list` / `render_dict` with the `sep` bookkeeping of
                   `list_elem_writer` / `dict_elem_writer` (`first = true` ⇔ `state.sep == 0`).

Core Lean only.
-/
namespace Usual.C03

abbrev Bytes := List UInt8

/-! ## strings -/

/-- lowercase hex digit -/
def hexLower (n : Nat) : UInt8 :=
  if n < 10 then UInt8.ofNat (0x30 + n) else UInt8.ofNat (0x61 + (n - 10))

/-- `%04x` for values below 0x10000 -/
def hex04 (c : Nat) : Bytes :=
  [hexLower (c / 4096 % 16), hexLower (c / 256 % 16), hexLower (c / 16 % 16), hexLower (c % 16)]

/-- `escape_char` -/
def escapeChar (c : Nat) : Bytes :=
  0x5C ::
    (if c == 0x22 || c == 0x5C then [UInt8.ofNat c]
     else if c == 0x08 then [0x62]
     else if c == 0x0C then [0x66]
     else if c == 0x0A then [0x6E]
     else if c == 0x0D then [0x72]
     else if c == 0x09 then [0x74]
     else 0x75 :: hex04 c)

/-- does the escape condition of `render_string` hold at a byte `b` followed by `r`? -/
def needsEscape (b : UInt8) (r : Bytes) : Bool :=
  b == 0x22 || b == 0x5C || b < 0x20 ||
  (b == 0xE2 && match r with
    | b1 :: b2 :: _ => b1 == 0x80 && (b2 == 0xA8 || b2 == 0xA9)
    | _ => false)

/-- the loop of `render_string`; `skip` = bytes ahead that `last` already covers -/
def escBody : Nat → Bytes → Bytes
  | _, [] => []
  | skip, b :: r =>
    if needsEscape b r then
      (if b == 0xE2 then
        escapeChar (0x2028 + ((r.getD 1 0).toNat - 0xA8)) ++ escBody 2 r
       else escapeChar b.toNat ++ escBody 0 r)
    else if skip > 0 then escBody (skip - 1) r
    else b :: escBody 0 r

/-- `render_string` -/
def renderString (s : Bytes) : Bytes := 0x22 :: (escBody 0 s ++ [0x22])

/-! ## numbers -/

/-- decimal digits of `n`, most significant first (`fuel` > number of digits) -/
def decAux : Nat → Nat → Bytes → Bytes
  | 0, _, acc => acc
  | fuel + 1, n, acc =>
    if n < 10 then UInt8.ofNat (0x30 + n) :: acc
    else decAux fuel (n / 10) (UInt8.ofNat (0x30 + n % 10) :: acc)

def decNat (n : Nat) : Bytes := decAux (n + 1) n []

/-- `render_int`: `%lld` -/
def renderInt (i : Int) : Bytes :=
  if i < 0 then 0x2D :: decNat i.natAbs else decNat i.natAbs

/-- `render_float`: `%.17g` text, plus `.0` when it has neither `.` nor `e` -/
def renderFloat (fmt17 : UInt64 → Bytes) (x : UInt64) : Bytes :=
  let t := fmt17 x
  if t.contains 0x2E || t.contains 0x65 then t else t ++ [0x2E, 0x30]

/-! ## values -/

mutual
/-- `render_any` -/
def render (fmt17 : UInt64 → Bytes) : JVal → Bytes
  | .null => [0x6E, 0x75, 0x6C, 0x6C]
  | .bool true => [0x74, 0x72, 0x75, 0x65]
  | .bool false => [0x66, 0x61, 0x6C, 0x73, 0x65]
  | .int i => renderInt i
  | .float x => renderFloat fmt17 x
  | .str s => renderString s
  | .list l => 0x5B :: (renderElems fmt17 true l ++ [0x5D])
  | .dict kvs => 0x7B :: (renderMembers fmt17 true kvs ++ [0x7D])
/-- `json_list_iter` with `list_elem_writer`; `first` ⇔ `state.sep == 0` -/
def renderElems (fmt17 : UInt64 → Bytes) : Bool → List JVal → Bytes
  | _, [] => []
  | first, v :: vs =>
    (if first then [] else [0x2C]) ++ (render fmt17 v ++ renderElems fmt17 false vs)
/-- `json_dict_iter` with `dict_elem_writer` -/
def renderMembers (fmt17 : UInt64 → Bytes) : Bool → List (Bytes × JVal) → Bytes
  | _, [] => []
  | first, (k, v) :: r =>
    (if first then [] else [0x2C]) ++
      (renderString k ++ (0x3A :: (render fmt17 v ++ renderMembers fmt17 false r)))
end

/-! ## well-formed values (what the builder and the parser can produce) -/

/-- model of `utf8_validate_string` on the bytes of a C string: a concatenation of well-formed
UTF-8 sequences (RFC 3629), none of them NUL.  `fuel` > length. -/
def validStr : Nat → Bytes → Bool
  | 0, _ => false
  | _ + 1, [] => true
  | fuel + 1, b :: r =>
    if b == 0 then false
    else match Rfc.utf8Len (b :: r) with
      | none => false
      | some n => validStr fuel ((b :: r).drop n)

def validString (s : Bytes) : Bool := validStr (s.length + 1) s

def maxInt : Int := 2 ^ 53 - 1

/-- `isfinite` on the bit pattern -/
def isFinite (x : UInt64) : Bool := Rfc.isFiniteBits x

mutual
/-- integers within ±(2^53−1), finite doubles, valid NUL-free UTF-8 strings and names, names
strictly ascending -/
def JVal.wf : JVal → Bool
  | .int i => decide (-maxInt ≤ i) && decide (i ≤ maxInt)
  | .float x => isFinite x
  | .str s => validString s
  | .list l => wfList l
  | .dict kvs => keysSorted kvs && wfKvs kvs
  | _ => true
def wfList : List JVal → Bool
  | [] => true
  | v :: vs => v.wf && wfList vs
def wfKvs : List (Bytes × JVal) → Bool
  | [] => true
  | (k, v) :: r => validString k && v.wf && wfKvs r
end

/-- the rendered double is a complete RFC 8259 number token of the non-integer class
(`Rfc.number` reads all of it and classifies it as float, whatever `strtod` says) -/
def floatTok (t : Bytes) : Bool :=
  match Rfc.number (fun _ => some 0) t with
  | some (.float _, []) => true
  | _ => false

end Usual.C03
