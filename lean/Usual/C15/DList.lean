import Usual.C15.Store
import Usual.C15.ListSort
/-! Model of usual/list.h (`struct List`), usual/statlist.h (`struct StatList`) and the link
    handling of `list_sort` (usual/list.c) over a node store.

    Nodes (heads and items alike) are `Nat` ids, 0 = NULL; `next`/`prev` are the two pointer
    fields.  Every inline function is transcribed assignment by assignment, in the C order. -/
namespace Usual.C15.DList
open Usual.C15

structure DL where
  next : Store
  prev : Store

def empty : DL := { next := Store.empty, prev := Store.empty }

def setNext (s : DL) (n v : Nat) : DL := { s with next := s.next.set n v }
def setPrev (s : DL) (n v : Nat) : DL := { s with prev := s.prev.set n v }

/-- list_init -/
def listInit (s : DL) (l : Nat) : DL := setPrev (setNext s l l) l l

/-- list_empty -/
def listEmpty (s : DL) (l : Nat) : Bool := s.next.get l == l

/-- list_prepend -/
def listPrepend (s : DL) (l item : Nat) : DL :=
  let s := setNext s item (s.next.get l)        -- item->next = list->next
  let s := setPrev s item l                     -- item->prev = list
  let s := setPrev s (s.next.get l) item        -- list->next->prev = item
  setNext s l item                              -- list->next = item

/-- list_append -/
def listAppend (s : DL) (l item : Nat) : DL :=
  let s := setNext s item l                     -- item->next = list
  let s := setPrev s item (s.prev.get l)        -- item->prev = list->prev
  let s := setNext s (s.prev.get l) item        -- list->prev->next = item
  setPrev s l item                              -- list->prev = item

/-- list_del -/
def listDel (s : DL) (item : Nat) : DL :=
  let s := setNext s (s.prev.get item) (s.next.get item)   -- item->prev->next = item->next
  let s := setPrev s (s.next.get item) (s.prev.get item)   -- item->next->prev = item->prev
  setPrev (setNext s item item) item item                  -- item->next = item->prev = item

/-- list_pop: new store and the popped item (0 = NULL) -/
def listPop (s : DL) (l : Nat) : DL × Nat :=
  if listEmpty s l then (s, 0) else (listDel s (s.next.get l), s.next.get l)

def listFirst (s : DL) (l : Nat) : Nat := if listEmpty s l then 0 else s.next.get l
def listLast (s : DL) (l : Nat) : Nat := if listEmpty s l then 0 else s.prev.get l

/-- list_for_each: items reached from `p` through `next` until the head `l` (at most `fuel`) -/
def walkNext (s : DL) (l : Nat) : Nat → Nat → List Nat
  | 0, _ => []
  | fuel + 1, p => if p = l then [] else p :: walkNext s l fuel (s.next.get p)

/-- list_for_each_reverse -/
def walkPrev (s : DL) (l : Nat) : Nat → Nat → List Nat
  | 0, _ => []
  | fuel + 1, p => if p = l then [] else p :: walkPrev s l fuel (s.prev.get p)

def toList (s : DL) (l : Nat) (fuel : Nat) : List Nat := walkNext s l fuel (s.next.get l)
def toListRev (s : DL) (l : Nat) (fuel : Nat) : List Nat := walkPrev s l fuel (s.prev.get l)

/-! ### StatList: a `List` head plus `cur_count` (a C `int`) -/

structure SL where
  head : Nat
  count : Int

def statInit (s : DL) (l : Nat) : DL × SL := (listInit s l, { head := l, count := 0 })
def statPrepend (s : DL) (sl : SL) (item : Nat) : DL × SL :=
  (listPrepend s sl.head item, { sl with count := sl.count + 1 })
def statAppend (s : DL) (sl : SL) (item : Nat) : DL × SL :=
  (listAppend s sl.head item, { sl with count := sl.count + 1 })
def statRemove (s : DL) (sl : SL) (item : Nat) : DL × SL :=
  (listDel s item, { sl with count := sl.count - 1 })
def statPop (s : DL) (sl : SL) : DL × SL × Nat :=
  let r := listPop s sl.head
  (r.1, if r.2 ≠ 0 then { sl with count := sl.count - 1 } else sl, r.2)
/-- statlist_put_before(list, item, pos) = list_append(pos, item); count++ -/
def statPutBefore (s : DL) (sl : SL) (item pos : Nat) : DL × SL :=
  (listAppend s pos item, { sl with count := sl.count + 1 })
/-- statlist_put_after(list, item, pos) = list_prepend(pos, item); count++ -/
def statPutAfter (s : DL) (sl : SL) (item pos : Nat) : DL × SL :=
  (listPrepend s pos item, { sl with count := sl.count + 1 })

/-! ### list_sort on the links

    The element sequence is what the `while (list->next != list)` loop peels off (`toList`);
    it is sorted by `ListSort.listSort` (the merges only ever write `next` fields, and leave the
    NULL-terminated chain `chainNext`); then the tail of `list_sort` is transcribed:
    `list->next = p; for (p = list; p->next; p = p->next) p->next->prev = p;
     list->prev = p; p->next = list;` -/

/-- the singly linked, NULL-terminated result of the merges -/
def chainNext (s : DL) : List Nat → DL
  | [] => s
  | [x] => setNext s x 0
  | x :: y :: rest => chainNext (setNext s x y) (y :: rest)

/-- the `for (p = list; p->next; p = p->next) p->next->prev = p;` loop and the two closing stores -/
def fixPrev (l : Nat) : Nat → DL → Nat → DL
  | 0, s, _ => s
  | fuel + 1, s, p =>
    if s.next.get p = 0 then setNext (setPrev s l p) p l
    else fixPrev l fuel (setPrev s (s.next.get p) p) (s.next.get p)

def listSort (le : Nat → Nat → Bool) (s : DL) (l : Nat) (fuel : Nat) : DL :=
  if listEmpty s l then s
  else
    let items := toList s l fuel
    let sorted := ListSort.listSort le items
    let s := chainNext s sorted
    let s := setNext s l (sorted.headD 0)
    fixPrev l (fuel + 1) s l

end Usual.C15.DList
