import Usual.C15.Store
import Usual.C15.ListSort
/-! Model of usual/list.h (`struct List`), usual/statlist.h (`struct StatList`) and the link
    handling of `list_sort` (usual/list.c) over a node store.

    Nodes (heads and items alike) are `Nat` ids, 0 = NULL; `next`/`prev` are the two pointer
    fields.  Every inline function is transcribed assignment by assignment, in the C order. -/
namespace Usual.C15.DList
open Usual.C15

structure DL where
  next : Store
  prev : Store

def empty : DL := { next := Store.empty, prev := Store.empty }

def setNext (s : DL) (n v : Nat) : DL := { s with next := s.next.set n v }
def setPrev (s : DL) (n v : Nat) : DL := { s with prev := s.prev.set n v }

/-- list_init -/
def listInit (s : DL) (l : Nat) : DL := setPrev (setNext s l l) l l

/-- list_empty -/
def listEmpty (s : DL) (l : Nat) : Bool := s.next.get l == l

/-- list_prepend -/
def listPrepend (s : DL) (l item : Nat) : DL :=
  let s := setNext s item (s.next.get l)        -- item->next = list->next
  let s := setPrev s item l                     -- item->prev = list
  let s := setPrev s (s.next.get l) item        -- list->next->prev = item
  setNext s l item                              -- list->next = item

/-- list_append -/
def listAppend (s : DL) (l item : Nat) : DL :=
  let s := setNext s item l                     -- item->next = list
  let s := setPrev s item (s.prev.get l)        -- item->prev = list->prev
  let s := setNext s (s.prev.get l) item        -- list->prev->next = item
  setPrev s l item                              -- list->prev = item

/-- list_del -/
def listDel (s : DL) (item : Nat) : DL :=
  let s := setNext s (s.prev.get item) (s.next.get item)   -- item->prev->next = item->next
  let s := setPrev s (s.next.get item) (s.prev.get item)   -- item->next->prev = item->prev
  setPrev (setNext s item item) item item                  -- item->next = item->prev = item

/-- list_pop: new store and the popped item (0 = NULL) -/
def listPop (s : DL) (l : Nat) : DL × Nat :=
  if listEmpty s l then (s, 0) else (listDel s (s.next.get l), s.next.get l)

def listFirst (s : DL) (l : Nat) : Nat := if listEmpty s l then 0 else s.next.get l
def listLast (s : DL) (l : Nat) : Nat := if listEmpty s l then 0 else s.prev.get l

/-- list_for_each: items reached from `p` through `next` until the head `l` (at most `fuel`) -/
def walkNext (s : DL) (l : Nat) : Nat → Nat → List Nat
  | 0, _ => []
  | fuel + 1, p => if p = l then [] else p :: walkNext s l fuel (s.next.get p)

/-- list_for_each_reverse -/
def walkPrev (s : DL) (l : Nat) : Nat → Nat → List Nat
  | 0, _ => []
  | fuel + 1, p => if p = l then [] else p :: walkPrev s l fuel (s.prev.get p)

def toList (s : DL) (l : Nat) (fuel : Nat) : List Nat := walkNext s l fuel (s.next.get l)
def toListRev (s : DL) (l : Nat) (fuel : Nat) : List Nat := walkPrev s l fuel (s.prev.get l)

/-! ### StatList: a `List` head plus `cur_count` (a C `int`) -/

structure SL where
  head : Nat
  count : Int

def statInit (s : DL) (l : Nat) : DL × SL := (listInit s l, { head := l, count := 0 })
def statPrepend (s : DL) (sl : SL) (item : Nat) : DL × SL :=
  (listPrepend s sl.head item, { sl with count := sl.count + 1 })
def statAppend (s : DL) (sl : SL) (item : Nat) : DL × SL :=
  (listAppend s sl.head item, { sl with count := sl.count + 1 })
def statRemove (s : DL) (sl : SL) (item : Nat) : DL × SL :=
  (listDel s item, { sl with count := sl.count - 1 })
def statPop (s : DL) (sl : SL) : DL × SL × Nat :=
  let r := listPop s sl.head
  (r.1, if r.2 ≠ 0 then { sl with count := sl.count - 1 } else sl, r.2)
/-- statlist_put_before(list, item, pos) = list_append(pos, item); count++ -/
def statPutBefore (s : DL) (sl : SL) (item pos : Nat) : DL × SL :=
  (listAppend s pos item, { sl with count := sl.count + 1 })
/-- statlist_put_after(list, item, pos) = list_prepend(pos, item); count++ -/
def statPutAfter (s : DL) (sl : SL) (item pos : Nat) : DL × SL :=
  (listPrepend s pos item, { sl with count := sl.count + 1 })

/-! ### list_sort on the links (usual/list.c), at pointer level

    `merge` and `list_sort` are transcribed over the node store: the merges read and write
    `next` fields only (singly linked, NULL = 0 terminated runs; `res` is the dummy head on the C
    stack, so `tail == res` is `tail = none` and `res->next` is the separate value `rn`), the
    64-slot `stack[]` is a list of run heads (0 = NULL) for slots 0 .. top-1, and the closing
    loop restores `prev`.  `fuel` bounds every loop by the number of nodes. -/

/-- the `while (p && q)` loop of merge() and its closing `tail->next = p ? p : q`;
    returns the store and `res->next` -/
def mergeLoop (le : Nat → Nat → Bool) : Nat → DL → Nat → Nat → Option Nat → Nat → DL × Nat
  | 0, s, _, _, _, rn => (s, rn)
  | fuel + 1, s, p, q, tail, rn =>
    if p ≠ 0 ∧ q ≠ 0 then
      let e := if le p q then p else q                       -- cmp_func(p, q) <= 0 ? p : q
      let p' := if le p q then s.next.get p else p           -- p = p->next
      let q' := if le p q then q else s.next.get q           -- q = q->next
      match tail with                                        -- tail->next = e; tail = e
      | none => mergeLoop le fuel s p' q' (some e) e
      | some t => mergeLoop le fuel (setNext s t e) p' q' (some e) rn
    else
      let r := if p ≠ 0 then p else q                        -- tail->next = p ? p : q
      match tail with
      | none => (s, r)
      | some t => (setNext s t r, rn)

/-- merge(cmp_func, p, q) -/
def ptrMerge (le : Nat → Nat → Bool) (fuel : Nat) (s : DL) (p q : Nat) : DL × Nat :=
  mergeLoop le fuel s p q none 0

/-- `for (i = 0; i < top && stack[i]; i++) { p = merge(stack[i], p); stack[i] = NULL; }
     stack[i] = p; if (i == top) top++;` -/
def carryP (le : Nat → Nat → Bool) (fuel : Nat) : DL → List Nat → Nat → DL × List Nat
  | s, [], p => (s, [p])
  | s, r :: rest, p =>
    if r = 0 then (s, p :: rest)
    else
      let m := ptrMerge le fuel s r p
      let c := carryP le fuel m.1 rest m.2
      (c.1, 0 :: c.2)

/-- `while (list->next != list) { p = list->next; list->next = p->next; p->next = NULL; ... }` -/
def peelLoop (le : Nat → Nat → Bool) (fuel l : Nat) : Nat → DL → List Nat → DL × List Nat
  | 0, s, st => (s, st)
  | k + 1, s, st =>
    if s.next.get l = l then (s, st)
    else
      let p := s.next.get l
      let s := setNext s l (s.next.get p)
      let s := setNext s p 0
      let c := carryP le fuel s st p
      peelLoop le fuel l k c.1 c.2

/-- `for (p = NULL, i = 0; i < top; i++) p = merge(cmp_func, stack[i], p);` -/
def collapseP (le : Nat → Nat → Bool) (fuel : Nat) : DL → List Nat → Nat → DL × Nat
  | s, [], p => (s, p)
  | s, r :: rest, p =>
    let m := ptrMerge le fuel s r p
    collapseP le fuel m.1 rest m.2

/-- the `for (p = list; p->next; p = p->next) p->next->prev = p;` loop and the two closing stores -/
def fixPrev (l : Nat) : Nat → DL → Nat → DL
  | 0, s, _ => s
  | fuel + 1, s, p =>
    if s.next.get p = 0 then setNext (setPrev s l p) p l
    else fixPrev l fuel (setPrev s (s.next.get p) p) (s.next.get p)

/-- list_sort(list, cmp_func) -/
def listSort (le : Nat → Nat → Bool) (s : DL) (l : Nat) (fuel : Nat) : DL :=
  if listEmpty s l then s
  else
    let pl := peelLoop le (fuel + 1) l fuel s []
    let cl := collapseP le (fuel + 1) pl.1 pl.2 0
    let s := setNext cl.1 l cl.2                  -- list->next = p
    fixPrev l (fuel + 1) s l

end Usual.C15.DList
