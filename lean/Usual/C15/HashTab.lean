import Usual.C15.Store
/-! Model of usual/hashtab-impl.h: a chain of fixed-size open-addressing tables.

    Mirrors the code: `CALC_POS`, `NEXT_POS` (p ↦ (5p+1) & mask), `MAX_USED`, the probe loop of
    `hashtab_lookup` (with and without insert, growth by chaining a fresh table of the same size
    when the *last* table is at `MAX_USED`), `_hashtab_slot_can_move` (the walking loop),
    `hashtab_delete` (inner scan / outer move loop / final clear and `used--`), `hashtab_stats`
    and `hashtab_copy`.  Pointers to value slots are (table index, slot) pairs; values are
    `Nat`, 0 = NULL = empty slot.  `cmp cur arg` is the user's `cmp_fn`; `arg = none` is a NULL
    `arg` (never matches, exactly as the C short-circuits `arg && cmp_fn(..)`).
    Loops that the C would spin in forever on a full table return `none`/`spin` here (fuel =
    table size); the theorems show this never happens on a table built through the API. -/
namespace Usual.C15.HashTab
open Usual.C15

structure Table where
  size : Nat
  used : Nat
  keys : Store
  vals : Store

def mask (t : Table) : Nat := t.size - 1
def calcPos (t : Table) (key : Nat) : Nat := key &&& mask t
def nextPos (t : Table) (p : Nat) : Nat := (p * 5 + 1) &&& mask t
def maxUsed (t : Table) : Nat := t.size * 75 / 100

/-- hashtab_create: cx_alloc0 ⇒ every slot zero -/
def create (size : Nat) : Table := { size := size, used := 0, keys := Store.empty, vals := Store.empty }

/-- does the slot's value satisfy `arg && cmp_fn(value, arg)` -/
def argMatch (cmp : Nat → Nat → Bool) (v : Nat) : Option Nat → Bool
  | none => false
  | some a => cmp v a

inductive PR where
  | found (p : Nat)
  | empty (p : Nat)
  | spin
deriving Repr, DecidableEq

/-- the `while (h->tab[pos].value)` loop of hashtab_lookup inside one table -/
def probe (cmp : Nat → Nat → Bool) (t : Table) (key : Nat) (arg : Option Nat) : Nat → Nat → PR
  | 0, _ => .spin
  | fuel + 1, pos =>
    if t.vals.get pos = 0 then .empty pos
    else if t.keys.get pos = key ∧ argMatch cmp (t.vals.get pos) arg = true then .found pos
    else probe cmp t key arg fuel (nextPos t pos)

def probe0 (cmp : Nat → Nat → Bool) (t : Table) (key : Nat) (arg : Option Nat) : PR :=
  probe cmp t key arg t.size (calcPos t key)

inductive LR where
  | found (ti p : Nat)     -- value slot p of table number ti
  | none
  | spin
deriving Repr, DecidableEq

/-- hashtab_lookup(h, key, false, arg) -/
def lookup (cmp : Nat → Nat → Bool) (key : Nat) (arg : Option Nat) : List Table → Nat → LR
  | [], _ => .none
  | t :: rest, ti =>
    match probe0 cmp t key arg with
    | .found p => .found ti p
    | .empty _ => lookup cmp key arg rest (ti + 1)
    | .spin => .spin

/-- store key and value into slot p, `used++` -/
def put (t : Table) (p key val : Nat) : Table :=
  { t with used := t.used + 1, keys := t.keys.set p key, vals := t.vals.set p val }

inductive IR where
  | new
  | exists (v : Nat)
  | spin
deriving Repr, DecidableEq

/-- hashtab_lookup(h, key, true, arg) followed by the caller's `*slot = val` when the slot is
    new (val ≠ 0). -/
def insert (cmp : Nat → Nat → Bool) (key val : Nat) (arg : Option Nat) : List Table → List Table × IR
  | [] => ([], .spin)
  | [t] =>
    match probe0 cmp t key arg with
    | .found p => ([t], .exists (t.vals.get p))
    | .empty p =>
      if t.used ≥ maxUsed t then
        let n := create t.size
        ([t, put n (calcPos n key) key val], .new)
      else ([put t p key val], .new)
    | .spin => ([t], .spin)
  | t :: t2 :: rest =>
    match probe0 cmp t key arg with
    | .found p => (t :: t2 :: rest, .exists (t.vals.get p))
    | .empty _ =>
      let r := insert cmp key val arg (t2 :: rest)
      (t :: r.1, r.2)
    | .spin => (t :: t2 :: rest, .spin)

/-- the `for` of _hashtab_slot_can_move -/
def canMoveWalk (t : Table) (src kpos : Nat) : Nat → Nat → Bool
  | 0, _ => true
  | fuel + 1, pos =>
    if pos = src then true
    else if pos = kpos then false
    else canMoveWalk t src kpos fuel (nextPos t pos)

/-- _hashtab_slot_can_move -/
def canMove (t : Table) (dst src : Nat) : Bool :=
  let kpos := calcPos t (t.keys.get src)
  if kpos = src then false
  else if kpos = dst then true
  else canMoveWalk t src kpos t.size (nextPos t dst)

/-- inner `for` of hashtab_delete: first movable slot after the hole, stop at the first empty one -/
def scan (t : Table) (dst : Nat) : Nat → Nat → Option Nat
  | 0, _ => none
  | fuel + 1, pos =>
    if t.vals.get pos = 0 then none
    else if canMove t dst pos = true then some pos
    else scan t dst fuel (nextPos t pos)

/-- `tab[dst] = tab[src]` -/
def moveSlot (t : Table) (dst src : Nat) : Table :=
  let t1 := { t with keys := t.keys.set dst (t.keys.get src) }
  { t1 with vals := t1.vals.set dst (t1.vals.get src) }

/-- `tab[dst].value = 0; tab[dst].key = 0; used--` -/
def clearSlot (t : Table) (dst : Nat) : Table :=
  { t with vals := t.vals.set dst 0, keys := t.keys.set dst 0, used := t.used - 1 }

/-- outer loop of hashtab_delete starting from the slot being freed -/
def compact : Nat → Table → Nat → Option Table
  | 0, _, _ => none
  | fuel + 1, t, dst =>
    match scan t dst (t.size - 1) (nextPos t dst) with
    | some src => compact fuel (moveSlot t dst src) src
    | none => some (clearSlot t dst)

/-- hashtab_delete -/
def delete (cmp : Nat → Nat → Bool) (key : Nat) (arg : Option Nat) : List Table → Option (List Table)
  | [] => some []
  | t :: rest =>
    match probe0 cmp t key arg with
    | .found p => (compact t.size t p).map (· :: rest)
    | .empty _ => (delete cmp key arg rest).map (t :: ·)
    | .spin => none

/-- hashtab_stats: (nitem, ntab) -/
def stats (h : List Table) : Nat × Nat := ((h.map (·.used)).sum, h.length)

/-- inner loop of hashtab_copy over the slots i .. of one old table -/
def copyFrom (src : Table) : Nat → Nat → List Table → Option (List Table)
  | 0, _, acc => some acc
  | n + 1, i, acc =>
    if src.vals.get i = 0 then copyFrom src n (i + 1) acc
    else
      let r := insert (fun _ _ => false) (src.keys.get i) (src.vals.get i) none acc
      match r.2 with
      | .new => copyFrom src n (i + 1) r.1
      | _ => none

/-- hashtab_copy (allocation never fails in the model) -/
def copyChain : List Table → List Table → Option (List Table)
  | [], acc => some acc
  | t :: rest, acc =>
    match copyFrom t t.size 0 acc with
    | some acc' => copyChain rest acc'
    | none => none

def copy (h : List Table) (newsize : Nat) : Option (List Table) := copyChain h [create newsize]

/-! ### Specification view -/

/-- pairs stored in one table, in slot order -/
def tableContents (t : Table) : List (Nat × Nat) :=
  (List.range t.size).filterMap fun i =>
    if t.vals.get i = 0 then none else some (t.keys.get i, t.vals.get i)

/-- all stored (key, value) pairs: the multimap the chain stands for -/
def contents (h : List Table) : List (Nat × Nat) := h.flatMap tableContents

end Usual.C15.HashTab
