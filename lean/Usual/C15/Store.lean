/-! `Store`: a total map `Nat → Nat` backed by an `Array` (default 0, grows on demand).
    Stands for "memory indexed by node id / slot number / address" in the C15 models, so that the
    driver runs in O(1) per access while the theorems only ever use `get_set`. -/
namespace Usual.C15

abbrev Store := Array Nat

namespace Store

def empty : Store := #[]

def get (s : Store) (i : Nat) : Nat := s.getD i 0

def set (s : Store) (i v : Nat) : Store :=
  if i < s.size then s.setIfInBounds i v
  else (s ++ Array.replicate (i - s.size) 0).push v

theorem get_set (s : Store) (i v j : Nat) :
    (s.set i v).get j = if j = i then v else s.get j := by
  unfold Store.set Store.get
  simp only [Array.getD_eq_getD_getElem?]
  by_cases h : i < s.size
  · simp only [h, if_true, Array.getElem?_setIfInBounds]
    by_cases hj : j = i
    · subst hj; simp
    · have : ¬ i = j := fun e => hj e.symm
      simp [hj, this]
  · simp only [h, if_false, Array.getElem?_push, Array.getElem?_append, Array.getElem?_replicate]
    simp only [Array.size_append, Array.size_replicate]
    by_cases hj : j = i
    · subst hj
      have : j = s.size + (j - s.size) := by omega
      simp [← this]
    · have : ¬ j = s.size + (i - s.size) := by omega
      simp only [this, hj, if_false]
      by_cases hjs : j < s.size
      · simp [hjs]
      · simp only [hjs, if_false]
        have : s[j]? = none := by simp; omega
        rw [this]
        split <;> simp

theorem get_set_eq (s : Store) (i v : Nat) : (s.set i v).get i = v := by
  rw [get_set]; simp

theorem get_set_ne (s : Store) (i v j : Nat) (h : j ≠ i) : (s.set i v).get j = s.get j := by
  rw [get_set]; simp [h]

theorem get_empty (i : Nat) : empty.get i = 0 := by simp [empty, get]

end Store
end Usual.C15

namespace Usual.C15

/-- the same for signed contents (SHList offsets are `ptrdiff_t`) -/
abbrev IStore := Array Int

namespace IStore

def empty : IStore := #[]

def get (s : IStore) (i : Nat) : Int := s.getD i 0

def set (s : IStore) (i : Nat) (v : Int) : IStore :=
  if i < s.size then s.setIfInBounds i v
  else (s ++ Array.replicate (i - s.size) 0).push v

theorem get_set (s : IStore) (i : Nat) (v : Int) (j : Nat) :
    (s.set i v).get j = if j = i then v else s.get j := by
  unfold IStore.set IStore.get
  simp only [Array.getD_eq_getD_getElem?]
  by_cases h : i < s.size
  · simp only [h, if_true, Array.getElem?_setIfInBounds]
    by_cases hj : j = i
    · subst hj; simp
    · have : ¬ i = j := fun e => hj e.symm
      simp [hj, this]
  · simp only [h, if_false, Array.getElem?_push, Array.getElem?_append, Array.getElem?_replicate]
    simp only [Array.size_append, Array.size_replicate]
    by_cases hj : j = i
    · subst hj
      have : j = s.size + (j - s.size) := by omega
      simp [← this]
    · have : ¬ j = s.size + (i - s.size) := by omega
      simp only [this, hj, if_false]
      by_cases hjs : j < s.size
      · simp [hjs]
      · simp only [hjs, if_false]
        have : s[j]? = none := by simp; omega
        rw [this]
        split <;> simp

theorem get_empty (i : Nat) : empty.get i = 0 := by simp [empty, get]

end IStore
end Usual.C15
