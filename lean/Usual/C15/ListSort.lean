/-! Model of `merge`/`list_sort` of usual/list.c on the sequence of elements.

    `merge` takes from the first list when `cmp(p, q) <= 0` (`le p q = true`).  `list_sort`
    peels elements off the front one by one and pushes each through the binary-counter stack
    (`carry`: `for (i = 0; i < top && stack[i]; i++) { p = merge(stack[i], p); stack[i] = NULL; }
    stack[i] = p; if (i == top) top++;`), then folds the remaining fragments
    (`collapse`: `for (p = NULL, i = 0; i < top; i++) p = merge(stack[i], p)`).
    The stack is the list of slots 0 .. top-1 (the C array has 64 slots: lists shorter than 2^64). -/
namespace Usual.C15.ListSort
variable {α : Type}

/-- inner loop of merge() while the head `x` of `p` is fixed: elements of `q` that compare
    strictly below `x` go first; `k` continues with the rest of `p` once `x` has been taken -/
def mergeGo (le : α → α → Bool) (x : α) (k : List α → List α) : List α → List α
  | [] => x :: k []
  | y :: ys => if le x y then x :: k (y :: ys) else y :: mergeGo le x k ys

/-- merge(): take from p when cmp(p,q) <= 0.  (Written as two nested structural recursions so
    that it also evaluates inside the kernel; `merge_cons_cons` is the loop body of the C code.) -/
def merge (le : α → α → Bool) : List α → List α → List α
  | [], q => q
  | x :: xs, q => mergeGo le x (fun zs => merge le xs zs) q

theorem merge_nil_left (le : α → α → Bool) (q : List α) : merge le [] q = q := rfl

theorem merge_nil_right (le : α → α → Bool) : ∀ p : List α, merge le p [] = p
  | [] => rfl
  | x :: xs => by
    show x :: merge le xs [] = x :: xs
    rw [merge_nil_right le xs]

theorem merge_cons_cons (le : α → α → Bool) (x : α) (xs : List α) (y : α) (ys : List α) :
    merge le (x :: xs) (y :: ys) =
      if le x y then x :: merge le xs (y :: ys) else y :: merge le (x :: xs) ys := rfl

/-- carry step of the counter: merge the new run into the stack slots (slot i holds a run or
    nothing; runs in LOWER slots hold LATER elements) -/
def carry (le : α → α → Bool) : List (Option (List α)) → List α → List (Option (List α))
  | [], p => [some p]
  | none :: rest, p => some p :: rest
  | some r :: rest, p => none :: carry le rest (merge le r p)

/-- final pass: p = merge(stack[i], p) for i = 0 .. top-1 -/
def collapse (le : α → α → Bool) : List (Option (List α)) → List α → List α
  | [], p => p
  | none :: rest, p => collapse le rest p
  | some r :: rest, p => collapse le rest (merge le r p)

def listSort (le : α → α → Bool) (l : List α) : List α :=
  collapse le (l.foldl (fun st x => carry le st [x]) []) []

end Usual.C15.ListSort
