import Usual.C15.Store
/-! Model of usual/heap.c: implicit binary tree in an array, `save_pos` callback as a log.

    Elements are `Nat` ids (0 = NULL); `better a b` is the user's `is_better` callback.
    `pos` is what the `save_pos(ptr, i)` callbacks have written into the elements so far
    (`pos.get x` = last index reported for element `x`).  Statement-by-statement transcription
    of `set`, `swap`, `bubble_up`, `bubble_down`, `rebalance`, `heap_reserve`, `heap_push`,
    `heap_remove`, `heap_pop`, `heap_top`, `heap_get_obj`; allocation never fails here. -/
namespace Usual.C15.Heap
open Usual.C15

structure Heap where
  data : Store
  used : Nat
  allocated : Nat
  pos : Store

def init : Heap := { data := Store.empty, used := 0, allocated := 0, pos := Store.empty }

def getParent (i : Nat) : Nat := (i - 1) / 2
def getChild (i childNr : Nat) : Nat := 2 * i + 1 + childNr

/-- `set`: `h->data[i] = ptr; save_pos(ptr, i)` -/
def set (h : Heap) (i ptr : Nat) : Heap :=
  { h with data := h.data.set i ptr, pos := h.pos.set ptr i }

/-- `swap` -/
def swap (h : Heap) (i1 i2 : Nat) : Heap :=
  let tmp := h.data.get i1
  let h1 := set h i1 (h.data.get i2)
  set h1 i2 tmp

def isBetter (better : Nat → Nat → Bool) (h : Heap) (i1 i2 : Nat) : Bool :=
  better (h.data.get i1) (h.data.get i2)

/-- `bubble_up` (fuel ≥ i suffices) -/
def bubbleUp (better : Nat → Nat → Bool) : Nat → Heap → Nat → Heap
  | 0, h, _ => h
  | fuel + 1, h, i =>
    if i > 0 then
      let p := getParent i
      if isBetter better h i p = false then h
      else bubbleUp better fuel (swap h i p) p
    else h

/-- `bubble_down` (fuel ≥ used suffices) -/
def bubbleDown (better : Nat → Nat → Bool) : Nat → Heap → Nat → Heap
  | 0, h, _ => h
  | fuel + 1, h, i =>
    let c := getChild i 0
    if c < h.used then
      let c := if c + 1 < h.used ∧ isBetter better h (c + 1) c = true then c + 1 else c
      if isBetter better h c i = false then h
      else bubbleDown better fuel (swap h i c) c
    else h

/-- `rebalance` -/
def rebalance (better : Nat → Nat → Bool) (h : Heap) (pos : Nat) : Heap :=
  if pos = 0 then bubbleDown better h.used h pos
  else if pos = h.used - 1 then bubbleUp better pos h pos
  else if isBetter better h pos (getParent pos) = true then bubbleUp better pos h pos
  else bubbleDown better h.used h pos

/-- `heap_reserve` (the realloc always succeeds) -/
def reserve (h : Heap) (extra : Nat) : Heap :=
  if h.used + extra < h.allocated then h
  else
    let n1 := h.allocated * 2
    let n2 := if n1 < 32 then 32 else n1
    let n3 := if n2 < h.used + extra then h.used + extra else n2
    { h with allocated := n3 }

/-- `heap_push` -/
def push (better : Nat → Nat → Bool) (h : Heap) (ptr : Nat) : Heap :=
  let h1 := if h.used ≥ h.allocated then reserve h 1 else h
  let pos := h1.used
  let h2 := { h1 with used := h1.used + 1 }
  let h3 := set h2 pos ptr
  bubbleUp better pos h3 pos

/-! #### the same with the allocator as an oracle: `ok = false` means `cx_realloc` returns NULL -/

/-- does `heap_reserve(h, extra)` call the allocator at all -/
def reserveAllocs (h : Heap) (extra : Nat) : Bool := !decide (h.used + extra < h.allocated)

/-- `heap_reserve` → (heap, return value) -/
def reserveO (ok : Bool) (h : Heap) (extra : Nat) : Heap × Bool :=
  if h.used + extra < h.allocated then (h, true)
  else if ok then (reserve h extra, true)          -- h->data = tmp; h->allocated = newalloc
  else (h, false)                                  -- if (!tmp) return false;

/-- `heap_push` → (heap, return value) -/
def pushO (ok : Bool) (better : Nat → Nat → Bool) (h : Heap) (ptr : Nat) : Heap × Bool :=
  if h.used ≥ h.allocated then
    let r := reserveO ok h 1
    if r.2 = false then (h, false)                 -- if (!heap_reserve(h, 1)) return false;
    else (push better h ptr, true)
  else (push better h ptr, true)

/-- `heap_remove`: new heap and the removed object (0 = NULL) -/
def remove (better : Nat → Nat → Bool) (h : Heap) (pos : Nat) : Heap × Nat :=
  if pos ≥ h.used then (h, 0)
  else
    let obj := h.data.get pos
    let last := h.used - 1
    let h1 := { h with used := last }
    let h2 := if pos < last then rebalance better (set h1 pos (h1.data.get last)) pos else h1
    ({ h2 with data := h2.data.set last 0 }, obj)

def pop (better : Nat → Nat → Bool) (h : Heap) : Heap × Nat := remove better h 0
def top (h : Heap) : Nat := if h.used > 0 then h.data.get 0 else 0
def getObj (h : Heap) (pos : Nat) : Nat := if pos < h.used then h.data.get pos else 0

/-- the elements in the heap, in array order -/
def toList (h : Heap) : List Nat := (List.range h.used).map h.data.get

/-- heap order, as a runnable check: no element is better than its parent -/
def orderedB (better : Nat → Nat → Bool) (h : Heap) : Bool :=
  (List.range h.used).all fun i => i = 0 || !isBetter better h i (getParent i)

/-- every element's saved position is its index, as a runnable check -/
def posOkB (h : Heap) : Bool :=
  (List.range h.used).all fun i => h.pos.get (h.data.get i) == i

end Usual.C15.Heap
