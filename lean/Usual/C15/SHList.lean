import Usual.C15.Store
/-! Model of usual/shlist.h: circular list for shared memory whose links are byte offsets
    *relative to the node that holds them* (`ptrdiff_t next, prev`).

    Memory is indexed by absolute address (`Nat`); `next.get a` / `prev.get a` are the two
    fields of the node located at address `a`.  `shlist_get_next(node) = (char *)node +
    node->next`, `_shlist_set_next(node, x): node->next = (char *)x - (char *)node`.
    `relocate` is `memmove` of a whole region to another address. -/
namespace Usual.C15.SHList
open Usual.C15

structure Mem where
  next : IStore
  prev : IStore

def emptyMem : Mem := { next := IStore.empty, prev := IStore.empty }

def getNext (m : Mem) (node : Nat) : Nat := ((node : Int) + m.next.get node).toNat
def getPrev (m : Mem) (node : Nat) : Nat := ((node : Int) + m.prev.get node).toNat
def setNext (m : Mem) (node nxt : Nat) : Mem := { m with next := m.next.set node ((nxt : Int) - (node : Int)) }
def setPrev (m : Mem) (node prv : Nat) : Mem := { m with prev := m.prev.set node ((prv : Int) - (node : Int)) }

/-- shlist_init -/
def init (m : Mem) (l : Nat) : Mem :=
  { next := m.next.set l 0, prev := m.prev.set l 0 }

/-- shlist_append -/
def append (m : Mem) (l node : Nat) : Mem :=
  let last := getPrev m l
  let m := setNext m node l
  let m := setPrev m node last
  let m := setNext m last node
  setPrev m l node

/-- shlist_prepend -/
def prepend (m : Mem) (l node : Nat) : Mem :=
  let first := getNext m l
  let m := setNext m node first
  let m := setPrev m node l
  let m := setNext m l node
  setPrev m first node

/-- shlist_remove -/
def remove (m : Mem) (node : Nat) : Mem :=
  let nxt := getNext m node
  let prv := getPrev m node
  let m := setPrev m nxt prv
  let m := setNext m prv nxt
  init m node

/-- shlist_empty -/
def isEmpty (m : Mem) (l : Nat) : Bool := m.next.get l == 0

/-- shlist_first / shlist_last: `none` = NULL -/
def first (m : Mem) (l : Nat) : Option Nat := if isEmpty m l then none else some (getNext m l)
def last (m : Mem) (l : Nat) : Option Nat := if isEmpty m l then none else some (getPrev m l)

/-- shlist_pop -/
def pop (m : Mem) (l : Nat) : Mem × Option Nat :=
  match first m l with
  | none => (m, none)
  | some node => (remove m node, some node)

/-- shlist_for_each -/
def walkNext (m : Mem) (l : Nat) : Nat → Nat → List Nat
  | 0, _ => []
  | fuel + 1, p => if p = l then [] else p :: walkNext m l fuel (getNext m p)

def walkPrev (m : Mem) (l : Nat) : Nat → Nat → List Nat
  | 0, _ => []
  | fuel + 1, p => if p = l then [] else p :: walkPrev m l fuel (getPrev m p)

def toList (m : Mem) (l fuel : Nat) : List Nat := walkNext m l fuel (getNext m l)
def toListRev (m : Mem) (l fuel : Nat) : List Nat := walkPrev m l fuel (getPrev m l)

/-- memmove(new, old, len): the words of [old, old+len) now live at [new, new+len); the old
    place is not looked at again (modelled as a fresh memory holding only the moved bytes) -/
def relocate (m : Mem) (old len new : Nat) : Mem :=
  (List.range len).foldl
    (fun acc k => { next := acc.next.set (new + k) (m.next.get (old + k)),
                    prev := acc.prev.set (new + k) (m.prev.get (old + k)) })
    emptyMem

end Usual.C15.SHList
