/-! Shared helpers for the models and drivers (core Lean only, no Mathlib). -/
namespace Usual

/-- hex digit value -/
def hexVal (c : Char) : Option Nat :=
  if '0' ≤ c ∧ c ≤ '9' then some (c.toNat - '0'.toNat)
  else if 'a' ≤ c ∧ c ≤ 'f' then some (c.toNat - 'a'.toNat + 10)
  else if 'A' ≤ c ∧ c ≤ 'F' then some (c.toNat - 'A'.toNat + 10)
  else none

/-- parse "0a1bff" into bytes; "-" is the empty string -/
def parseHex (s : String) : Option (List UInt8) :=
  if s == "-" then some [] else
  let rec go : List Char → List UInt8 → Option (List UInt8)
    | [], acc => some acc.reverse
    | [_], _ => none
    | a :: b :: rest, acc =>
      match hexVal a, hexVal b with
      | some x, some y => go rest (UInt8.ofNat (x * 16 + y) :: acc)
      | _, _ => none
  go s.toList []

def hexDigit (n : Nat) : Char :=
  if n < 10 then Char.ofNat (n + '0'.toNat) else Char.ofNat (n - 10 + 'a'.toNat)

/-- render bytes as lowercase hex; empty list is "-" -/
def toHex (l : List UInt8) : String :=
  if l.isEmpty then "-" else
  String.ofList (l.flatMap fun b => [hexDigit (b.toNat / 16), hexDigit (b.toNat % 16)])

/-- split an input line into words -/
def words (line : String) : List String :=
  (line.trimAscii.toString.splitOn " ").filter (· ≠ "")

/-- Generic stdin loop: `step` maps state and line to new state and output line(s). -/
partial def lineLoop {σ : Type} (h : IO.FS.Stream) (out : IO.FS.Stream) (s : σ)
    (step : σ → String → σ × String) : IO Unit := do
  let line ← h.getLine
  if line.isEmpty then
    out.flush
    return ()
  let (s', o) := step s line
  out.putStrLn o
  lineLoop h out s' step

def runDriver {σ : Type} (init : σ) (step : σ → String → σ × String) : IO Unit := do
  let stdin ← IO.getStdin
  let stdout ← IO.getStdout
  lineLoop stdin stdout init step

end Usual
