import Usual.C16.Bytes
/-! C16 — **SpookyHash V2** (Bob Jenkins, "SpookyHash: a 128-bit noncryptographic hash",
version 2 of August 5 2012), one-shot `Hash128`, written as a *specification*: the state is an
array of 64-bit words, every mixing function is one loop over a row index with the published
rotation table, indices are taken modulo the number of variables.  Nothing here is derived from
the macros of usual/hashing/spooky.c; the model of that file (`Usual.C16.Spooky`) is proved
equal to this specification in `UsualProofs/C16/SpkPub.lean`.

Published description (SpookyV2.h / SpookyV2.cpp):

* `sc_const = 0xdeadbeefdeadbeef`, `sc_numVars = 12`, `sc_blockSize = 96`, `sc_bufSize = 192`;
  all message words are little-endian 64-bit.
* **Mix** (one 96-byte block `data[0..11]` into `s[0..11]`), for `i = 0..11`:
  `s[i] += data[i];  s[i+2] ^= s[i+10];  s[i+11] ^= s[i];  s[i] = Rot64(s[i], r_i);
  s[i+11] += s[i+1]` with `r = 11,32,43,31,17,28,39,57,55,54,22,46` (indices mod 12).
* **EndPartial**, for `i = 0..11`: `h[i+11] += h[i+1];  h[i+2] ^= h[i+11];
  h[i+1] = Rot64(h[i+1], r_i)` with `r = 44,15,34,21,38,33,10,13,38,53,42,54`.
* **End**: `h[i] += data[i]` for all `i`, then EndPartial three times.
* **ShortMix** on `h[0..3]`, for `i = 0..11`: `h[i+2] = Rot64(h[i+2], r_i);  h[i+2] += h[i+3];
  h[i] ^= h[i+2]` with `r = 50,52,30,41,54,48,38,37,62,34,5,36` (indices mod 4).
* **ShortEnd**, for `i = 0..10`: `h[i+3] ^= h[i+2];  h[i+2] = Rot64(h[i+2], r_i);
  h[i+3] += h[i+2]` with `r = 15,52,26,51,28,9,47,54,32,25,63`.
* **Short** (messages shorter than `sc_bufSize`): `h = (seed1, seed2, sc_const, sc_const)`; for
  every whole 32 bytes `h[2] += w0; h[3] += w1; ShortMix; h[0] += w2; h[1] += w3`; if at least
  16 bytes remain `h[2] += w0; h[3] += w1; ShortMix` once more; then `h[3] += length << 56` and
  the last 0..15 bytes, zero-padded to 16, are added as two words to `h[2], h[3]` — when no
  byte remains `sc_const` is added to both instead; ShortEnd; result `(h[0], h[1])`.
* **Long**: `h = (seed1, seed2, sc_const) × 4`; Mix every whole 96-byte block; the remaining
  `< 96` bytes are zero-padded to 96 with the last byte set to their count; End; result
  `(h[0], h[1])`. -/
namespace Usual.C16.SpookyV2
open Usual.C16

def scConst : UInt64 := 0xdeadbeefdeadbeef
def numVars : Nat := 12
def blockSize : Nat := numVars * 8
def bufSize : Nat := 2 * blockSize

def mixRot : List Nat := [11, 32, 43, 31, 17, 28, 39, 57, 55, 54, 22, 46]
def endPartialRot : List Nat := [44, 15, 34, 21, 38, 33, 10, 13, 38, 53, 42, 54]
def shortMixRot : List Nat := [50, 52, 30, 41, 54, 48, 38, 37, 62, 34, 5, 36]
def shortEndRot : List Nat := [15, 52, 26, 51, 28, 9, 47, 54, 32, 25, 63]

/-- `h[i]` -/
@[inline] def g (h : List UInt64) (i : Nat) : UInt64 := h.getD i 0
/-- `Rot64(x, k)`: left rotation by `k` bits -/
@[inline] def rot (x : UInt64) (k : Nat) : UInt64 := rol64 x (UInt64.ofNat k)

/-- row `i` of Mix -/
def mixRow (d h : List UInt64) (i : Nat) : List UInt64 :=
  let h := h.set i (g h i + g d i)
  let h := h.set ((i + 2) % 12) (g h ((i + 2) % 12) ^^^ g h ((i + 10) % 12))
  let h := h.set ((i + 11) % 12) (g h ((i + 11) % 12) ^^^ g h i)
  let h := h.set i (rot (g h i) (mixRot.getD i 0))
  h.set ((i + 11) % 12) (g h ((i + 11) % 12) + g h ((i + 1) % 12))

def mix (d h : List UInt64) : List UInt64 := (List.range 12).foldl (mixRow d) h

/-- row `i` of EndPartial -/
def endPartialRow (h : List UInt64) (i : Nat) : List UInt64 :=
  let h := h.set ((i + 11) % 12) (g h ((i + 11) % 12) + g h ((i + 1) % 12))
  let h := h.set ((i + 2) % 12) (g h ((i + 2) % 12) ^^^ g h ((i + 11) % 12))
  h.set ((i + 1) % 12) (rot (g h ((i + 1) % 12)) (endPartialRot.getD i 0))

def endPartial (h : List UInt64) : List UInt64 := (List.range 12).foldl endPartialRow h

/-- End: add the last block, three EndPartial -/
def endFn (d h : List UInt64) : List UInt64 :=
  endPartial (endPartial (endPartial ((List.range 12).map fun i => g h i + g d i)))

/-- row `i` of ShortMix -/
def shortMixRow (h : List UInt64) (i : Nat) : List UInt64 :=
  let h := h.set ((i + 2) % 4) (rot (g h ((i + 2) % 4)) (shortMixRot.getD i 0))
  let h := h.set ((i + 2) % 4) (g h ((i + 2) % 4) + g h ((i + 3) % 4))
  h.set (i % 4) (g h (i % 4) ^^^ g h ((i + 2) % 4))

def shortMix (h : List UInt64) : List UInt64 := (List.range 12).foldl shortMixRow h

/-- row `i` of ShortEnd -/
def shortEndRow (h : List UInt64) (i : Nat) : List UInt64 :=
  let h := h.set ((i + 3) % 4) (g h ((i + 3) % 4) ^^^ g h ((i + 2) % 4))
  let h := h.set ((i + 2) % 4) (rot (g h ((i + 2) % 4)) (shortEndRot.getD i 0))
  h.set ((i + 3) % 4) (g h ((i + 3) % 4) + g h ((i + 2) % 4))

def shortEnd (h : List UInt64) : List UInt64 := (List.range 11).foldl shortEndRow h

/-- the first `n` little-endian 64-bit words of `p` (bytes beyond the end read as zero) -/
def wordsLE (n : Nat) (p : List UInt8) : List UInt64 := (List.range n).map (w64 p)

/-- `h[2] += w0; h[3] += w1; ShortMix` on the 16 bytes at the front of `p` -/
def shortHalf (h : List UInt64) (p : List UInt8) : List UInt64 :=
  let h := h.set 2 (g h 2 + w64 p 0)
  let h := h.set 3 (g h 3 + w64 p 1)
  shortMix h

/-- `n` whole 32-byte sets -/
def shortSets : Nat → List UInt64 → List UInt8 → List UInt64
  | 0, h, _ => h
  | n + 1, h, p =>
    let h := shortHalf h p
    let h := h.set 0 (g h 0 + w64 p 2)
    let h := h.set 1 (g h 1 + w64 p 3)
    shortSets n h (p.drop 32)

/-- Short -/
def short (msg : List UInt8) (seed1 seed2 : UInt64) : UInt64 × UInt64 :=
  let length := msg.length
  let h := shortSets (length / 32) [seed1, seed2, scConst, scConst] msg
  let p := msg.drop (32 * (length / 32))
  let hp : List UInt64 × List UInt8 := if p.length ≥ 16 then (shortHalf h p, p.drop 16) else (h, p)
  let h := hp.1
  let p := hp.2                                   -- the last 0..15 bytes
  let h := h.set 3 (g h 3 + (UInt64.ofNat length <<< 56))
  let h :=
    if p.length = 0 then (h.set 2 (g h 2 + scConst)).set 3 (g h 3 + scConst)
    else (h.set 2 (g h 2 + w64 p 0)).set 3 (g h 3 + w64 p 1)
  let h := shortEnd h
  (g h 0, g h 1)

/-- `n` whole 96-byte blocks -/
def longBlocks : Nat → List UInt64 → List UInt8 → List UInt64
  | 0, h, _ => h
  | n + 1, h, p => longBlocks n (mix (wordsLE 12 p) h) (p.drop 96)

/-- the long path -/
def long (msg : List UInt8) (seed1 seed2 : UInt64) : UInt64 × UInt64 :=
  let length := msg.length
  let h := [seed1, seed2, scConst, seed1, seed2, scConst, seed1, seed2, scConst, seed1, seed2, scConst]
  let h := longBlocks (length / blockSize) h msg
  let rem := msg.drop (blockSize * (length / blockSize))
  let last := rem ++ zeros (blockSize - 1 - rem.length) ++ [UInt8.ofNat rem.length]
  let h := endFn (wordsLE 12 last) h
  (g h 0, g h 1)

/-- `SpookyHash::Hash128(message, length, &hash1, &hash2)` -/
def hash128 (msg : List UInt8) (seed1 seed2 : UInt64) : UInt64 × UInt64 :=
  if msg.length < bufSize then short msg seed1 seed2 else long msg seed1 seed2

/-- `SpookyHash::Hash32`: low 32 bits of the first word, both seeds equal -/
def hash32 (msg : List UInt8) (seed : UInt32) : UInt32 :=
  (hash128 msg seed.toUInt64 seed.toUInt64).1.toUInt32

end Usual.C16.SpookyV2
