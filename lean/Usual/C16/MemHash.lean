import Usual.C16.Spooky
import Usual.C16.XXHash
/-! C16 — `memhash_seed` (usual/hashing/memhash.c): SpookyHash with `hash[0] = seed,
hash[1] = 0`, low 32 bits of the first word, when pointers or longs are 64 bits wide;
XXH32 otherwise. -/
namespace Usual.C16.MemHash

/-- `wide` = `sizeof(void *) == 8 || sizeof(long) == 8` (true on this host) -/
def memhashSeed (wide : Bool) (data : List UInt8) (seed : UInt32) : UInt32 :=
  if wide then (Usual.C16.Spooky.spookyhash data seed.toUInt64 0).1.toUInt32
  else Usual.C16.XXHash.xxh32 data seed

end Usual.C16.MemHash
