import Usual.C16.Bytes
/-! C16 — **SipHash-c-d** as defined in J.-P. Aumasson, D. J. Bernstein, "SipHash: a fast
short-input PRF" (2012), section 2 — a specification that imports nothing from the model of
usual/hashing/siphash.c.

* *Initialization.*  `v0 = k0 ⊕ 736f6d6570736575`, `v1 = k1 ⊕ 646f72616e646f6d`,
  `v2 = k0 ⊕ 6c7967656e657261`, `v3 = k1 ⊕ 7465646279746573`: the constants are the ASCII string
  "somepseudorandomlygeneratedbytes" read as four big-endian 64-bit words (they are *computed*
  from the string here).
* *Compression.*  The `b`-byte message is parsed into `w = ⌈(b+1)/8⌉` little-endian words; the
  last word holds the last `b mod 8` bytes, null bytes, and the byte `b mod 256`.  For each word
  `m_i`: `v3 ⊕= m_i`, `c` iterations of SipRound, `v0 ⊕= m_i`.
* *Finalization.*  `v2 ⊕= ff`, `d` iterations of SipRound, output `v0 ⊕ v1 ⊕ v2 ⊕ v3`.
* *SipRound* (Figure 2.1, in the order of the paper's listing):
  `v0 += v1; v2 += v3; v1 <<<= 13; v3 <<<= 16; v1 ⊕= v0; v3 ⊕= v2; v0 <<<= 32;`
  `v2 += v1; v0 += v3; v1 <<<= 17; v3 <<<= 21; v1 ⊕= v2; v3 ⊕= v0; v2 <<<= 32`. -/
namespace Usual.C16.SipHashPaper
open Usual.C16

/-- "somepseudorandomlygeneratedbytes" -/
def initString : List UInt8 :=
  [115, 111, 109, 101, 112, 115, 101, 117,    -- somepseu
   100, 111, 114, 97, 110, 100, 111, 109,     -- dorandom
   108, 121, 103, 101, 110, 101, 114, 97,     -- lygenera
   116, 101, 100, 98, 121, 116, 101, 115]     -- tedbytes

/-- big-endian 64-bit word number `n` of a byte string -/
def be64 (l : List UInt8) (n : Nat) : UInt64 := le64 ((l.drop (8 * n)).take 8).reverse

/-- rotation amounts of SipRound, per state word, in the order they are applied:
    v0: 32 · v1: 13, 17 · v2: 32 · v3: 16, 21 -/
def rotByVar : List (List Nat) := [[32], [13, 17], [32], [16, 21]]
@[inline] def r (v k : Nat) : UInt64 := UInt64.ofNat ((rotByVar.getD v []).getD k 0)

structure State where
  v0 : UInt64
  v1 : UInt64
  v2 : UInt64
  v3 : UInt64

def sipRound (s : State) : State :=
  let v0 := s.v0; let v1 := s.v1; let v2 := s.v2; let v3 := s.v3
  let v0 := v0 + v1; let v2 := v2 + v3
  let v1 := rol64 v1 (r 1 0); let v3 := rol64 v3 (r 3 0)
  let v1 := v1 ^^^ v0; let v3 := v3 ^^^ v2
  let v0 := rol64 v0 (r 0 0)
  let v2 := v2 + v1; let v0 := v0 + v3
  let v1 := rol64 v1 (r 1 1); let v3 := rol64 v3 (r 3 1)
  let v1 := v1 ^^^ v2; let v3 := v3 ^^^ v0
  let v2 := rol64 v2 (r 2 0)
  ⟨v0, v1, v2, v3⟩

/-- `n` iterations of SipRound -/
def rounds : Nat → State → State
  | 0, s => s
  | n + 1, s => rounds n (sipRound s)

def init (k0 k1 : UInt64) : State :=
  ⟨k0 ^^^ be64 initString 0, k1 ^^^ be64 initString 1, k0 ^^^ be64 initString 2, k1 ^^^ be64 initString 3⟩

def compress (c : Nat) (s : State) (m : UInt64) : State :=
  let s := rounds c { s with v3 := s.v3 ^^^ m }
  { s with v0 := s.v0 ^^^ m }

def finalize (d : Nat) (s : State) : UInt64 :=
  let s := rounds d { s with v2 := s.v2 ^^^ 0xff }
  s.v0 ^^^ s.v1 ^^^ s.v2 ^^^ s.v3

/-- the padded message: `m ‖ 0^(7 - b mod 8) ‖ (b mod 256)` -/
def pad (m : List UInt8) : List UInt8 :=
  m ++ zeros (7 - m.length % 8) ++ [UInt8.ofNat (m.length % 256)]

/-- the first `n` little-endian 64-bit words -/
def words : Nat → List UInt8 → List UInt64
  | 0, _ => []
  | n + 1, msg => le64 msg :: words n (msg.drop 8)

/-- SipHash-c-d -/
def siphash (c d : Nat) (k0 k1 : UInt64) (m : List UInt8) : UInt64 :=
  finalize d ((words (m.length / 8 + 1) (pad m)).foldl (compress c) (init k0 k1))

/-- SipHash-2-4 -/
def siphash24 (k0 k1 : UInt64) (m : List UInt8) : UInt64 := siphash 2 4 k0 k1 m

end Usual.C16.SipHashPaper
