/-! C16 — byte/word helpers shared by the hash models (core Lean only).

`le32`/`le64` read a little-endian word from the *front* of a byte list; missing bytes read
as zero (`List.getD _ 0`), i.e. a load from a list shorter than the word is the load from the
zero-padded list.  On this little-endian host this is what `memcpy(&tmp, p, 4)`,
`h32dec`, `le64dec` and a direct `*(uint64_t *)p` deliver. -/
namespace Usual.C16

@[inline] def b32 (l : List UInt8) (i : Nat) : UInt32 := (l.getD i 0).toUInt32
@[inline] def b64 (l : List UInt8) (i : Nat) : UInt64 := (l.getD i 0).toUInt64

/-- little-endian 32-bit load of the first 4 bytes (zero-padded) -/
def le32 (l : List UInt8) : UInt32 :=
  b32 l 0 ||| (b32 l 1 <<< 8) ||| (b32 l 2 <<< 16) ||| (b32 l 3 <<< 24)

/-- little-endian 64-bit load of the first 8 bytes (zero-padded) -/
def le64 (l : List UInt8) : UInt64 :=
  b64 l 0 ||| (b64 l 1 <<< 8) ||| (b64 l 2 <<< 16) ||| (b64 l 3 <<< 24) |||
  (b64 l 4 <<< 32) ||| (b64 l 5 <<< 40) ||| (b64 l 6 <<< 48) ||| (b64 l 7 <<< 56)

/-- `n`-th 32-bit word of a buffer -/
@[inline] def w32 (l : List UInt8) (n : Nat) : UInt32 := le32 (l.drop (4 * n))
/-- `n`-th 64-bit word of a buffer -/
@[inline] def w64 (l : List UInt8) (n : Nat) : UInt64 := le64 (l.drop (8 * n))

@[inline] def rol32 (x : UInt32) (k : UInt32) : UInt32 := (x <<< k) ||| (x >>> (32 - k))
@[inline] def rol64 (x : UInt64) (k : UInt64) : UInt64 := (x <<< k) ||| (x >>> (64 - k))

/-- `k` zero bytes -/
def zeros (k : Nat) : List UInt8 := List.replicate k 0

end Usual.C16
