import Usual.Gen.C16Crc
/-! C16 — `calc_crc32` (usual/hashing/crc32.c), table driven, and the bit-level definition of
CRC-32/ISO-HDLC (reflected polynomial 0xEDB88320, init and final inversion) as the spec. -/
namespace Usual.C16.Crc32

/-- `crc_tab[i]` — the table regenerated from crc32.c on every run -/
@[inline] def tab (i : Nat) : UInt32 := Usual.Gen.C16Crc.crcTab.getD i 0

/-- `static inline uint32_t crc32(uint32_t prev, uint8_t c)`:
    `crc_tab[(prev ^ c) & 0xFF] ^ (prev >> 8)` -/
@[inline] def step (prev : UInt32) (c : UInt8) : UInt32 :=
  tab ((prev ^^^ c.toUInt32) &&& 0xFF).toNat ^^^ (prev >>> 8)

/-- `calc_crc32(data, len, init)`: `crc = init ^ ~0; while (len--) crc = crc32(crc, *p++);
    return crc ^ ~0;` -/
def calcCrc32 (data : List UInt8) (init : UInt32) : UInt32 :=
  (data.foldl step (init ^^^ 0xFFFFFFFF)) ^^^ 0xFFFFFFFF

/-! ### Spec: bit-at-a-time division by the reflected polynomial -/

/-- one bit of the reflected division: shift right, xor the polynomial when a 1 falls out -/
def bitStep (x : UInt32) : UInt32 :=
  if x &&& 1 = 1 then (x >>> 1) ^^^ 0xEDB88320 else x >>> 1

/-- eight bits -/
def bit8 (x : UInt32) : UInt32 :=
  bitStep (bitStep (bitStep (bitStep (bitStep (bitStep (bitStep (bitStep x)))))))

/-- feed one message byte -/
def bitwiseByte (crc : UInt32) (c : UInt8) : UInt32 := bit8 (crc ^^^ c.toUInt32)

/-- CRC-32/ISO-HDLC of `data` continuing from a previous result `init` (0 to start) -/
def crc32Bitwise (data : List UInt8) (init : UInt32) : UInt32 :=
  (data.foldl bitwiseByte (init ^^^ 0xFFFFFFFF)) ^^^ 0xFFFFFFFF

end Usual.C16.Crc32
