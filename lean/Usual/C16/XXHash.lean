import Usual.C16.Bytes
/-! C16 — `xxhash` (usual/hashing/xxhash.c) = XXH32, and the algorithm as the XXH32
specification describes it (steps 1–6) as the spec. -/
namespace Usual.C16.XXHash
open Usual.C16

def P1 : UInt32 := 2654435761
def P2 : UInt32 := 2246822519
def P3 : UInt32 := 3266489917
def P4 : UInt32 := 668265263
def P5 : UInt32 := 374761393

structure Acc where
  v1 : UInt32
  v2 : UInt32
  v3 : UInt32
  v4 : UInt32

/-- `v += read32(p) * PRIME32_2; v = rol32(v, 13); v *= PRIME32_1` -/
@[inline] def round (v w : UInt32) : UInt32 := rol32 (v + w * P2) 13 * P1

/-- the `do { … } while (p <= limit)` loop over 16-byte stripes, `n` iterations -/
def stripes : Nat → Acc → List UInt8 → Acc
  | 0, v, _ => v
  | n + 1, v, p =>
    stripes n ⟨round v.v1 (w32 p 0), round v.v2 (w32 p 1), round v.v3 (w32 p 2),
               round v.v4 (w32 p 3)⟩ (p.drop 16)

/-- `rol32(v1, 1) + rol32(v2, 7) + rol32(v3, 12) + rol32(v4, 18)` -/
@[inline] def converge (v : Acc) : UInt32 :=
  rol32 v.v1 1 + rol32 v.v2 7 + rol32 v.v3 12 + rol32 v.v4 18

/-- `h32 += read32(p) * PRIME32_3; h32 = rol32(h32, 17) * PRIME32_4` -/
@[inline] def wordStep (h w : UInt32) : UInt32 := rol32 (h + w * P3) 17 * P4

/-- `while (p <= bEnd - 4) { …; p += 4; }`, `n` iterations -/
def words4 : Nat → UInt32 → List UInt8 → UInt32
  | 0, h, _ => h
  | n + 1, h, p => words4 n (wordStep h (le32 p)) (p.drop 4)

/-- `h32 += (*p) * PRIME32_5; h32 = rol32(h32, 11) * PRIME32_1` -/
@[inline] def byteStep (h : UInt32) (b : UInt8) : UInt32 := rol32 (h + b.toUInt32 * P5) 11 * P1

/-- final avalanche -/
@[inline] def avalanche (h : UInt32) : UInt32 :=
  let h := h ^^^ (h >>> 15)
  let h := h * P2
  let h := h ^^^ (h >>> 13)
  let h := h * P3
  h ^^^ (h >>> 16)

def initAcc (seed : UInt32) : Acc := ⟨seed + P1 + P2, seed + P2, seed + 0, seed - P1⟩

/-- `xxhash(input, len, seed)` -/
def xxh32 (data : List UInt8) (seed : UInt32) : UInt32 :=
  let len := data.length
  let hp : UInt32 × List UInt8 :=
    if len ≥ 16 then
      let n := len / 16
      (converge (stripes n (initAcc seed) data), data.drop (16 * n))
    else (seed + P5, data)
  let h := hp.1 + UInt32.ofNat len
  let p := hp.2
  let m := p.length / 4
  let h := words4 m h p
  let p := p.drop (4 * m)
  avalanche (p.foldl byteStep h)

/-! ### Spec (XXH32 specification, "XXH32 algorithm description", steps 1–6)

Step 1/2: four lanes; lane `j` consumes the 32-bit little-endian words `j, j+4, j+8, …` of the
`len/16` whole stripes.  Step 3: convergence (or `seed + PRIME32_5` when the input is shorter
than 16 bytes).  Step 4: add the input length.  Step 5: consume the remaining (< 16) bytes,
first by 4-byte words, then by bytes.  Step 6: avalanche. -/

/-- lane `j` after `n` stripes: fold `round` over the words `4*i + j`, `i < n` -/
def lane (data : List UInt8) (j n : Nat) (v0 : UInt32) : UInt32 :=
  (List.range n).foldl (fun v i => round v (w32 data (4 * i + j))) v0

/-- the first `n` little-endian 32-bit words of `p` -/
def words : Nat → List UInt8 → List UInt32
  | 0, _ => []
  | n + 1, p => le32 p :: words n (p.drop 4)

def xxh32Spec (data : List UInt8) (seed : UInt32) : UInt32 :=
  let len := data.length
  let n := len / 16
  let acc :=
    if len < 16 then seed + P5
    else rol32 (lane data 0 n (seed + P1 + P2)) 1 + rol32 (lane data 1 n (seed + P2)) 7
       + rol32 (lane data 2 n (seed + 0)) 12 + rol32 (lane data 3 n (seed - P1)) 18
  let acc := acc + UInt32.ofNat len
  let rest := data.drop (16 * n)
  let acc := (words (rest.length / 4) rest).foldl wordStep acc
  let acc := (rest.drop (4 * (rest.length / 4))).foldl byteStep acc
  avalanche acc

end Usual.C16.XXHash
