import Usual.C16.Bytes
/-! C16 — **XXH32** as in the xxHash specification ("XXH32 algorithm description", steps 1–6), a
specification that imports nothing from the model of usual/hashing/xxhash.c.

    PRIME32_1 = 0x9E3779B1   PRIME32_2 = 0x85EBCA77   PRIME32_3 = 0xC2B2AE3D
    PRIME32_4 = 0x27D4EB2F   PRIME32_5 = 0x165667B1

1. accumulators `acc1 = seed + PRIME32_1 + PRIME32_2`, `acc2 = seed + PRIME32_2`, `acc3 = seed`,
   `acc4 = seed - PRIME32_1`;
2. every 16-byte stripe = four little-endian lanes; `accN = ((accN + laneN·PRIME32_2) <<< 13)·PRIME32_1`;
3. `acc = (acc1 <<< 1) + (acc2 <<< 7) + (acc3 <<< 12) + (acc4 <<< 18)`; inputs shorter than 16
   bytes start from `acc = seed + PRIME32_5` instead;
4. `acc += length`;
5. remaining input: while ≥ 4 bytes `acc = ((acc + lane·PRIME32_3) <<< 17)·PRIME32_4`, then per
   byte `acc = ((acc + byte·PRIME32_5) <<< 11)·PRIME32_1`;
6. avalanche `acc ^= acc >> 15; acc *= PRIME32_2; acc ^= acc >> 13; acc *= PRIME32_3; acc ^= acc >> 16`. -/
namespace Usual.C16.XXH32Spec
open Usual.C16

def primes : List UInt32 := [0x9E3779B1, 0x85EBCA77, 0xC2B2AE3D, 0x27D4EB2F, 0x165667B1]
/-- `PRIME32_n` -/
@[inline] def prime (n : Nat) : UInt32 := primes.getD (n - 1) 0

def roundRot : Nat := 13
def mergeRot : List Nat := [1, 7, 12, 18]
def wordRot : Nat := 17
def byteRot : Nat := 11
def avalancheShift : List Nat := [15, 13, 16]

@[inline] def rotl (x : UInt32) (k : Nat) : UInt32 := rol32 x (UInt32.ofNat k)

/-- step 2 for one lane -/
def round (acc lane : UInt32) : UInt32 := rotl (acc + lane * prime 2) roundRot * prime 1

/-- lane `j` (0..3) after `n` stripes: words `4i + j`, `i < n` -/
def lane (data : List UInt8) (j n : Nat) (acc0 : UInt32) : UInt32 :=
  (List.range n).foldl (fun acc i => round acc (w32 data (4 * i + j))) acc0

/-- step 1, accumulator `j` -/
def initAcc (seed : UInt32) (j : Nat) : UInt32 :=
  [seed + prime 1 + prime 2, seed + prime 2, seed + 0, seed - prime 1].getD j 0

/-- step 3 -/
def merge (accs : List UInt32) : UInt32 :=
  rotl (accs.getD 0 0) (mergeRot.getD 0 0) + rotl (accs.getD 1 0) (mergeRot.getD 1 0)
    + rotl (accs.getD 2 0) (mergeRot.getD 2 0) + rotl (accs.getD 3 0) (mergeRot.getD 3 0)

def wordStep (acc lane : UInt32) : UInt32 := rotl (acc + lane * prime 3) wordRot * prime 4
def byteStep (acc : UInt32) (b : UInt8) : UInt32 := rotl (acc + b.toUInt32 * prime 5) byteRot * prime 1

def avalanche (acc : UInt32) : UInt32 :=
  let acc := acc ^^^ (acc >>> UInt32.ofNat (avalancheShift.getD 0 0))
  let acc := acc * prime 2
  let acc := acc ^^^ (acc >>> UInt32.ofNat (avalancheShift.getD 1 0))
  let acc := acc * prime 3
  acc ^^^ (acc >>> UInt32.ofNat (avalancheShift.getD 2 0))

/-- the first `n` little-endian 32-bit words -/
def words : Nat → List UInt8 → List UInt32
  | 0, _ => []
  | n + 1, p => le32 p :: words n (p.drop 4)

def xxh32 (data : List UInt8) (seed : UInt32) : UInt32 :=
  let len := data.length
  let n := len / 16
  let acc :=
    if len < 16 then seed + prime 5
    else merge ((List.range 4).map fun j => lane data j n (initAcc seed j))
  let acc := acc + UInt32.ofNat len
  let rest := data.drop (16 * n)
  let acc := (words (rest.length / 4) rest).foldl wordStep acc
  let acc := (rest.drop (4 * (rest.length / 4))).foldl byteStep acc
  avalanche acc

end Usual.C16.XXH32Spec
