import Usual.C16.Bytes
/-! C16 — Bob Jenkins' **lookup3** `hashlittle2` (lookup3.c, May 2006) with `*pc = *pb = 0` as a
specification that imports nothing from the model of usual/hashing/lookup3.c.

`mix` and `final` are written by their rotation schedules over the state array `v = (a, b, c)`:

* `mix`: for `i = 0..5`, with `x = i mod 3`, `y = (i+1) mod 3`, `z = (i+2) mod 3`:
  `v[x] -= v[z]; v[x] ^= rot(v[z], r_i); v[z] += v[y]`, `r = 4, 6, 8, 16, 19, 4`
  (the published macro: `a -= c; a ^= rot(c,4); c += b; b -= a; b ^= rot(a,6); a += c; …`).
* `final`: for `i = 0..6`, with `x = (i+2) mod 3`, `y = (i+1) mod 3`:
  `v[x] ^= v[y]; v[x] -= rot(v[y], r_i)`, `r = 14, 11, 25, 16, 4, 14, 24`
  (`c ^= b; c -= rot(b,14); a ^= c; a -= rot(c,11); …`).
* `hashlittle2`: `a = b = c = 0xdeadbeef + length + *pc; c += *pb`; every 12 bytes while more than
  12 remain: add three little-endian words, `mix`; the last 1..12 bytes are added byte by byte
  (`switch` with fall-through: `k[i] << 8·(i mod 4)` into word `i div 4`), `final`; a
  zero-length key returns without `final`.  Result `(*pb, *pc)` = `(b, c)`. -/
namespace Usual.C16.Lookup3Pub
open Usual.C16

def mixRot : List Nat := [4, 6, 8, 16, 19, 4]
def finalRot : List Nat := [14, 11, 25, 16, 4, 14, 24]
def initConst : UInt32 := 0xdeadbeef

@[inline] def g (v : List UInt32) (i : Nat) : UInt32 := v.getD i 0
@[inline] def rot (x : UInt32) (k : Nat) : UInt32 := rol32 x (UInt32.ofNat k)

def mixRow (v : List UInt32) (i : Nat) : List UInt32 :=
  let v := v.set (i % 3) (g v (i % 3) - g v ((i + 2) % 3))
  let v := v.set (i % 3) (g v (i % 3) ^^^ rot (g v ((i + 2) % 3)) (mixRot.getD i 0))
  v.set ((i + 2) % 3) (g v ((i + 2) % 3) + g v ((i + 1) % 3))

def mix (v : List UInt32) : List UInt32 := (List.range 6).foldl mixRow v

def finalRow (v : List UInt32) (i : Nat) : List UInt32 :=
  let v := v.set ((i + 2) % 3) (g v ((i + 2) % 3) ^^^ g v ((i + 1) % 3))
  v.set ((i + 2) % 3) (g v ((i + 2) % 3) - rot (g v ((i + 1) % 3)) (finalRot.getD i 0))

def final (v : List UInt32) : List UInt32 := (List.range 7).foldl finalRow v

/-- add byte `i` of the block: `k[i] << 8·(i mod 4)` into word `i div 4` -/
def addByte (k : List UInt8) (v : List UInt32) (i : Nat) : List UInt32 :=
  v.set (i / 4) (g v (i / 4) + (b32 k i <<< UInt32.ofNat (8 * (i % 4))))

/-- one whole 12-byte block: bytes 0..11 in ascending order, then `mix` -/
def block (v : List UInt32) (k : List UInt8) : List UInt32 :=
  mix ((List.range 12).foldl (addByte k) v)

def blocks : Nat → List UInt32 → List UInt8 → List UInt32
  | 0, v, _ => v
  | n + 1, v, k => blocks n (block v k) (k.drop 12)

/-- the `switch(length)`: bytes `length-1` down to `0` (case 12 falls through to case 1) -/
def tail (len : Nat) (v : List UInt32) (k : List UInt8) : List UInt32 :=
  ((List.range len).reverse).foldl (addByte k) v

/-- `hashlittle2(key, length, &pc, &pb)` with `pc = pb = 0`; returns `(pb << 32) | pc` -/
def hashlittle2 (key : List UInt8) : UInt64 :=
  let length := key.length
  let i : UInt32 := initConst + UInt32.ofNat length
  let n := (length - 1) / 12                         -- iterations of `while (length > 12)`
  let v := blocks n [i, i, i] key
  let r := length - 12 * n
  let v := if r = 0 then v else final (tail r v (key.drop (12 * n)))
  ((g v 1).toUInt64 <<< 32) ||| (g v 2).toUInt64

end Usual.C16.Lookup3Pub
