import Usual.C16.Bytes
/-! C16 — `hash_lookup3` (usual/hashing/lookup3.c) and Bob Jenkins' published `hashlittle2`
(lookup3.c, May 2006) with both seeds zero as the spec. -/
namespace Usual.C16.Lookup3
open Usual.C16

abbrev St := UInt32 × UInt32 × UInt32

/-- `mix(a,b,c)` -/
@[inline] def mix (s : St) : St :=
  let (a, b, c) := s
  let a := a - c; let a := a ^^^ rol32 c 4;  let c := c + b
  let b := b - a; let b := b ^^^ rol32 a 6;  let a := a + c
  let c := c - b; let c := c ^^^ rol32 b 8;  let b := b + a
  let a := a - c; let a := a ^^^ rol32 c 16; let c := c + b
  let b := b - a; let b := b ^^^ rol32 a 19; let a := a + c
  let c := c - b; let c := c ^^^ rol32 b 4;  let b := b + a
  (a, b, c)

/-- `final(a,b,c)` -/
@[inline] def final (s : St) : St :=
  let (a, b, c) := s
  let c := c ^^^ b; let c := c - rol32 b 14
  let a := a ^^^ c; let a := a - rol32 c 11
  let b := b ^^^ a; let b := b - rol32 a 25
  let c := c ^^^ b; let c := c - rol32 b 16
  let a := a ^^^ c; let a := a - rol32 c 4
  let b := b ^^^ a; let b := b - rol32 a 14
  let c := c ^^^ b; let c := c - rol32 b 24
  (a, b, c)

/-- `a += buf[0]; b += buf[1]; c += buf[2];` where `buf` holds the first 12 bytes of `p`
    (a shorter `p` is zero-padded: `buf[0] = buf[1] = buf[2] = 0; simple_memcpy(buf, p, len)`) -/
@[inline] def addWords (s : St) (p : List UInt8) : St :=
  let (a, b, c) := s
  (a + w32 p 0, b + w32 p 1, c + w32 p 2)

/-- `while (len > 12) { memcpy(buf, p, 12); a += buf[0]; …; mix(a,b,c); p += 12; len -= 12; }`
    — `n` iterations -/
def loop : Nat → St → List UInt8 → St
  | 0, s, _ => s
  | n + 1, s, p => loop n (mix (addWords s p)) (p.drop 12)

/-- `(uint64_t)b << 32 | c` -/
@[inline] def result (s : St) : UInt64 :=
  let (_, b, c) := s
  (b.toUInt64 <<< 32) ||| c.toUInt64

/-- start value `a = b = c = 0xdeadbeef + len` -/
@[inline] def start (len : Nat) : St :=
  let i : UInt32 := 0xdeadbeef + UInt32.ofNat len
  (i, i, i)

/-- `hash_lookup3(data, len)` -/
def hashLookup3 (data : List UInt8) : UInt64 :=
  let len := data.length
  if len = 0 then result (start len) else
  let n := (len - 1) / 12
  let s := loop n (start len) data
  result (final (addWords s (data.drop (12 * n))))

/-! ### Spec: `hashlittle2(key, length, &pc, &pb)` with `*pc = *pb = 0`, the byte-at-a-time
(endian-neutral) branch of the published lookup3.c; the result is `*pb` in the high and `*pc`
in the low half, as `hash_lookup3` returns it. -/

/-- one 12-byte block: `a += k[0]; a += ((uint32_t)k[1])<<8; … c += ((uint32_t)k[11])<<24; mix` -/
def specBlock (s : St) (k : List UInt8) : St :=
  let (a, b, c) := s
  let a := a + b32 k 0; let a := a + (b32 k 1 <<< 8); let a := a + (b32 k 2 <<< 16)
  let a := a + (b32 k 3 <<< 24)
  let b := b + b32 k 4; let b := b + (b32 k 5 <<< 8); let b := b + (b32 k 6 <<< 16)
  let b := b + (b32 k 7 <<< 24)
  let c := c + b32 k 8; let c := c + (b32 k 9 <<< 8); let c := c + (b32 k 10 <<< 16)
  let c := c + (b32 k 11 <<< 24)
  mix (a, b, c)

def specLoop : Nat → St → List UInt8 → St
  | 0, s, _ => s
  | n + 1, s, k => specLoop n (specBlock s k) (k.drop 12)

/-- `switch(length)` over the last 1..12 bytes, all cases fall through -/
def specTail (r : Nat) (s : St) (k : List UInt8) : St :=
  let (a, b, c) := s
  let c := if r ≥ 12 then c + (b32 k 11 <<< 24) else c
  let c := if r ≥ 11 then c + (b32 k 10 <<< 16) else c
  let c := if r ≥ 10 then c + (b32 k 9 <<< 8) else c
  let c := if r ≥ 9 then c + b32 k 8 else c
  let b := if r ≥ 8 then b + (b32 k 7 <<< 24) else b
  let b := if r ≥ 7 then b + (b32 k 6 <<< 16) else b
  let b := if r ≥ 6 then b + (b32 k 5 <<< 8) else b
  let b := if r ≥ 5 then b + b32 k 4 else b
  let a := if r ≥ 4 then a + (b32 k 3 <<< 24) else a
  let a := if r ≥ 3 then a + (b32 k 2 <<< 16) else a
  let a := if r ≥ 2 then a + (b32 k 1 <<< 8) else a
  let a := if r ≥ 1 then a + b32 k 0 else a
  (a, b, c)

def hashlittle2Spec (key : List UInt8) : UInt64 :=
  let length := key.length
  let s := start length
  let n := (length - 1) / 12
  let s := specLoop n s key
  let r := length - 12 * n
  if r = 0 then result s            -- `case 0: *pc=c; *pb=b; return;` (zero-length input)
  else result (final (specTail r s (key.drop (12 * n))))

end Usual.C16.Lookup3
