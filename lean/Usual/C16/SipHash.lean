import Usual.C16.Bytes
/-! C16 — `siphash24` (usual/hashing/siphash.c) and SipHash-2-4 as the paper defines it. -/
namespace Usual.C16.SipHash
open Usual.C16

structure St where
  v0 : UInt64
  v1 : UInt64
  v2 : UInt64
  v3 : UInt64

/-- `SIP_ROUND1` -/
@[inline] def round (s : St) : St :=
  let v0 := s.v0; let v1 := s.v1; let v2 := s.v2; let v3 := s.v3
  let v0 := v0 + v1; let v1 := rol64 v1 13; let v1 := v1 ^^^ v0; let v0 := rol64 v0 32
  let v2 := v2 + v3; let v3 := rol64 v3 16; let v3 := v3 ^^^ v2
  let v0 := v0 + v3; let v3 := rol64 v3 21; let v3 := v3 ^^^ v0
  let v2 := v2 + v1; let v1 := rol64 v1 17; let v1 := v1 ^^^ v2; let v2 := rol64 v2 32
  ⟨v0, v1, v2, v3⟩

/-- `sip_compress(2)`: `v3 ^= m; 2 rounds; v0 ^= m` -/
def compress (s : St) (m : UInt64) : St :=
  let s := round (round { s with v3 := s.v3 ^^^ m })
  { s with v0 := s.v0 ^^^ m }

/-- `sip_finalize(4)` and the result `v0 ^ v1 ^ v2 ^ v3` -/
def finalize (s : St) : UInt64 :=
  let s := round (round (round (round { s with v2 := s.v2 ^^^ 0xff })))
  s.v0 ^^^ s.v1 ^^^ s.v2 ^^^ s.v3

def init (k0 k1 : UInt64) : St :=
  ⟨k0 ^^^ 0x736f6d6570736575, k1 ^^^ 0x646f72616e646f6d,
   k0 ^^^ 0x6c7967656e657261, k1 ^^^ 0x7465646279746573⟩

/-- `for (; s < end; s += 8) { m = le64dec(s); sip_compress(2); }` — `n` whole words -/
def loop : Nat → St → List UInt8 → St
  | 0, s, _ => s
  | n + 1, s, l => loop n (compress s (le64 l)) (l.drop 8)

/-- the `switch (len & 7)` with its fall-through cases, on the bytes `s` after the last
    whole word: `m = (uint64_t)len << 56; case 7: m |= (uint64_t)s[6] << 48; … case 1: m |= s[0]` -/
def tail (len : Nat) (s : List UInt8) : UInt64 :=
  let r := len % 8
  let m : UInt64 := (UInt64.ofNat len) <<< 56
  let m := if r ≥ 7 then m ||| (b64 s 6 <<< 48) else m
  let m := if r ≥ 6 then m ||| (b64 s 5 <<< 40) else m
  let m := if r ≥ 5 then m ||| (b64 s 4 <<< 32) else m
  let m := if r ≥ 4 then m ||| (b64 s 3 <<< 24) else m
  let m := if r ≥ 3 then m ||| (b64 s 2 <<< 16) else m
  let m := if r ≥ 2 then m ||| (b64 s 1 <<< 8) else m
  let m := if r ≥ 1 then m ||| (b64 s 0) else m
  m

/-- `siphash24(data, len, k0, k1)` -/
def siphash24 (data : List UInt8) (k0 k1 : UInt64) : UInt64 :=
  let len := data.length
  let s := loop (len / 8) (init k0 k1) data
  let s := compress s (tail len (data.drop (8 * (len / 8))))
  finalize s

/-! ### Spec: SipHash-2-4 as in the paper (Aumasson, Bernstein 2012, §2.2)

The `b`-byte message is parsed into `w = ⌈(b+1)/8⌉` little-endian 64-bit words where the last
word holds the last `b mod 8` bytes, then null bytes, and ends with the byte `b mod 256`. -/

/-- the padded message -/
def pad (data : List UInt8) : List UInt8 :=
  data ++ zeros (7 - data.length % 8) ++ [UInt8.ofNat (data.length % 256)]

/-- the first `n` little-endian 64-bit words of `msg` -/
def words : Nat → List UInt8 → List UInt64
  | 0, _ => []
  | n + 1, msg => le64 msg :: words n (msg.drop 8)

/-- SipHash-2-4: initialise from the key, compress every word of the padded message with 2
    rounds each, finalise with 4 rounds -/
def siphash24Spec (data : List UInt8) (k0 k1 : UInt64) : UInt64 :=
  finalize ((words (data.length / 8 + 1) (pad data)).foldl compress (init k0 k1))

end Usual.C16.SipHash
