import Usual.C16.Bytes
/-! C16 — `spookyhash` (usual/hashing/spooky.c): SpookyHash V2, 128-bit, one-shot, with its
short (< 192 bytes) and long paths.  The four mixing functions are transcribed statement by
statement from the macros `ShortMix`, `ShortEnd`, `Mix`, `EndPartial`. -/
namespace Usual.C16.Spooky
open Usual.C16

/-- `sc_const` -/
def sc : UInt64 := 0xdeadbeefdeadbeef

/-! ### Short path -/

/-- the four variables `a b c d` of `Short` (`h0 h1 h2 h3` of the macros) -/
structure S4 where
  h0 : UInt64
  h1 : UInt64
  h2 : UInt64
  h3 : UInt64

/-- `ShortMix(h0,h1,h2,h3)` -/
def shortMix (s : S4) : S4 :=
  let h0 := s.h0; let h1 := s.h1; let h2 := s.h2; let h3 := s.h3
  let h2 := rol64 h2 50; let h2 := h2 + h3; let h0 := h0 ^^^ h2
  let h3 := rol64 h3 52; let h3 := h3 + h0; let h1 := h1 ^^^ h3
  let h0 := rol64 h0 30; let h0 := h0 + h1; let h2 := h2 ^^^ h0
  let h1 := rol64 h1 41; let h1 := h1 + h2; let h3 := h3 ^^^ h1
  let h2 := rol64 h2 54; let h2 := h2 + h3; let h0 := h0 ^^^ h2
  let h3 := rol64 h3 48; let h3 := h3 + h0; let h1 := h1 ^^^ h3
  let h0 := rol64 h0 38; let h0 := h0 + h1; let h2 := h2 ^^^ h0
  let h1 := rol64 h1 37; let h1 := h1 + h2; let h3 := h3 ^^^ h1
  let h2 := rol64 h2 62; let h2 := h2 + h3; let h0 := h0 ^^^ h2
  let h3 := rol64 h3 34; let h3 := h3 + h0; let h1 := h1 ^^^ h3
  let h0 := rol64 h0 5; let h0 := h0 + h1; let h2 := h2 ^^^ h0
  let h1 := rol64 h1 36; let h1 := h1 + h2; let h3 := h3 ^^^ h1
  ⟨h0, h1, h2, h3⟩

/-- `ShortEnd(h0,h1,h2,h3)` -/
def shortEnd (s : S4) : S4 :=
  let h0 := s.h0; let h1 := s.h1; let h2 := s.h2; let h3 := s.h3
  let h3 := h3 ^^^ h2; let h2 := rol64 h2 15; let h3 := h3 + h2
  let h0 := h0 ^^^ h3; let h3 := rol64 h3 52; let h0 := h0 + h3
  let h1 := h1 ^^^ h0; let h0 := rol64 h0 26; let h1 := h1 + h0
  let h2 := h2 ^^^ h1; let h1 := rol64 h1 51; let h2 := h2 + h1
  let h3 := h3 ^^^ h2; let h2 := rol64 h2 28; let h3 := h3 + h2
  let h0 := h0 ^^^ h3; let h3 := rol64 h3 9; let h0 := h0 + h3
  let h1 := h1 ^^^ h0; let h0 := rol64 h0 47; let h1 := h1 + h0
  let h2 := h2 ^^^ h1; let h1 := rol64 h1 54; let h2 := h2 + h1
  let h3 := h3 ^^^ h2; let h2 := rol64 h2 32; let h3 := h3 + h2
  let h0 := h0 ^^^ h3; let h3 := rol64 h3 25; let h0 := h0 + h3
  let h1 := h1 ^^^ h0; let h0 := rol64 h0 63; let h1 := h1 + h0
  ⟨h0, h1, h2, h3⟩

/-- `c += p64[0]; d += p64[1]; ShortMix(a,b,c,d)` -/
@[inline] def shortAbsorb16 (s : S4) (p : List UInt8) : S4 :=
  shortMix { s with h2 := s.h2 + w64 p 0, h3 := s.h3 + w64 p 1 }

/-- `for (; u.p64 < end; u.p64 += 4) { c += p64[0]; d += p64[1]; ShortMix; a += p64[2];
    b += p64[3]; }` — `n` whole sets of 32 bytes -/
def shortLoop : Nat → S4 → List UInt8 → S4
  | 0, s, _ => s
  | n + 1, s, p =>
    let s := shortAbsorb16 s p
    shortLoop n { s with h0 := s.h0 + w64 p 2, h1 := s.h1 + w64 p 3 } (p.drop 32)

/-- `d += ((uint64_t)length) << 56; switch (remainder) { … }` on the last `r = 0..15` bytes `p`
    (fall-through inside the groups 15→12, 11→8, 7→4, 3→1) -/
def shortTail (length r : Nat) (s : S4) (p : List UInt8) : S4 :=
  let c := s.h2
  let d := s.h3 + (UInt64.ofNat length <<< 56)
  if r ≥ 12 then
    let d := if r ≥ 15 then d + (b64 p 14 <<< 48) else d
    let d := if r ≥ 14 then d + (b64 p 13 <<< 40) else d
    let d := if r ≥ 13 then d + (b64 p 12 <<< 32) else d
    let d := d + (w32 p 2).toUInt64
    let c := c + w64 p 0
    { s with h2 := c, h3 := d }
  else if r ≥ 8 then
    let d := if r ≥ 11 then d + (b64 p 10 <<< 16) else d
    let d := if r ≥ 10 then d + (b64 p 9 <<< 8) else d
    let d := if r ≥ 9 then d + b64 p 8 else d
    let c := c + w64 p 0
    { s with h2 := c, h3 := d }
  else if r ≥ 4 then
    let c := if r ≥ 7 then c + (b64 p 6 <<< 48) else c
    let c := if r ≥ 6 then c + (b64 p 5 <<< 40) else c
    let c := if r ≥ 5 then c + (b64 p 4 <<< 32) else c
    let c := c + (w32 p 0).toUInt64
    { s with h2 := c, h3 := d }
  else if r ≥ 1 then
    let c := if r ≥ 3 then c + (b64 p 2 <<< 16) else c
    let c := if r ≥ 2 then c + (b64 p 1 <<< 8) else c
    let c := c + b64 p 0
    { s with h2 := c, h3 := d }
  else
    { s with h2 := c + sc, h3 := d + sc }

/-- `Short(message, length, &hash1, &hash2)` -/
def short (data : List UInt8) (hash1 hash2 : UInt64) : UInt64 × UInt64 :=
  let length := data.length
  let remainder := length % 32
  let s : S4 := ⟨hash1, hash2, sc, sc⟩
  let spr : S4 × List UInt8 × Nat :=
    if length > 15 then
      let n := length / 32
      let s := shortLoop n s data
      let p := data.drop (32 * n)
      if remainder ≥ 16 then (shortAbsorb16 s p, p.drop 16, remainder - 16)
      else (s, p, remainder)
    else (s, data, remainder)
  let s := shortEnd (shortTail length spr.2.2 spr.1 spr.2.1)
  (s.h0, s.h1)

/-- Short as SpookyV2 describes it: whole 32-byte sets, one more 16-byte half set when at
    least 16 bytes remain, then the last 0..15 bytes *zero-padded to 16 bytes* and added as two
    little-endian words (`sc_const` twice when nothing remains), the length in the top byte
    of `d`. -/
def shortSpec (data : List UInt8) (hash1 hash2 : UInt64) : UInt64 × UInt64 :=
  let length := data.length
  let s := shortLoop (length / 32) ⟨hash1, hash2, sc, sc⟩ data
  let p := data.drop (32 * (length / 32))
  let sp : S4 × List UInt8 := if p.length ≥ 16 then (shortAbsorb16 s p, p.drop 16) else (s, p)
  let s := sp.1
  let p := sp.2
  let d := s.h3 + (UInt64.ofNat length <<< 56)
  let s : S4 :=
    if p.length = 0 then { s with h2 := s.h2 + sc, h3 := d + sc }
    else { s with h2 := s.h2 + w64 p 0, h3 := d + w64 p 1 }
  let s := shortEnd s
  (s.h0, s.h1)

/-! ### Long path -/

structure S12 where
  h0 : UInt64
  h1 : UInt64
  h2 : UInt64
  h3 : UInt64
  h4 : UInt64
  h5 : UInt64
  h6 : UInt64
  h7 : UInt64
  h8 : UInt64
  h9 : UInt64
  h10 : UInt64
  h11 : UInt64

/-- `Mix(data, s0, …, s11)` on the 96-byte block at the front of `p` -/
def mix (s : S12) (p : List UInt8) : S12 :=
  let s0 := s.h0; let s1 := s.h1; let s2 := s.h2; let s3 := s.h3; let s4 := s.h4; let s5 := s.h5
  let s6 := s.h6; let s7 := s.h7; let s8 := s.h8; let s9 := s.h9; let s10 := s.h10; let s11 := s.h11
  let d0 := w64 p 0; let d1 := w64 p 1; let d2 := w64 p 2; let d3 := w64 p 3
  let d4 := w64 p 4; let d5 := w64 p 5; let d6 := w64 p 6; let d7 := w64 p 7
  let d8 := w64 p 8; let d9 := w64 p 9; let d10 := w64 p 10; let d11 := w64 p 11
  let s0 := s0 + d0; let s2 := s2 ^^^ s10; let s11 := s11 ^^^ s0; let s0 := rol64 s0 11; let s11 := s11 + s1
  let s1 := s1 + d1; let s3 := s3 ^^^ s11; let s0 := s0 ^^^ s1; let s1 := rol64 s1 32; let s0 := s0 + s2
  let s2 := s2 + d2; let s4 := s4 ^^^ s0; let s1 := s1 ^^^ s2; let s2 := rol64 s2 43; let s1 := s1 + s3
  let s3 := s3 + d3; let s5 := s5 ^^^ s1; let s2 := s2 ^^^ s3; let s3 := rol64 s3 31; let s2 := s2 + s4
  let s4 := s4 + d4; let s6 := s6 ^^^ s2; let s3 := s3 ^^^ s4; let s4 := rol64 s4 17; let s3 := s3 + s5
  let s5 := s5 + d5; let s7 := s7 ^^^ s3; let s4 := s4 ^^^ s5; let s5 := rol64 s5 28; let s4 := s4 + s6
  let s6 := s6 + d6; let s8 := s8 ^^^ s4; let s5 := s5 ^^^ s6; let s6 := rol64 s6 39; let s5 := s5 + s7
  let s7 := s7 + d7; let s9 := s9 ^^^ s5; let s6 := s6 ^^^ s7; let s7 := rol64 s7 57; let s6 := s6 + s8
  let s8 := s8 + d8; let s10 := s10 ^^^ s6; let s7 := s7 ^^^ s8; let s8 := rol64 s8 55; let s7 := s7 + s9
  let s9 := s9 + d9; let s11 := s11 ^^^ s7; let s8 := s8 ^^^ s9; let s9 := rol64 s9 54; let s8 := s8 + s10
  let s10 := s10 + d10; let s0 := s0 ^^^ s8; let s9 := s9 ^^^ s10; let s10 := rol64 s10 22; let s9 := s9 + s11
  let s11 := s11 + d11; let s1 := s1 ^^^ s9; let s10 := s10 ^^^ s11; let s11 := rol64 s11 46; let s10 := s10 + s0
  ⟨s0, s1, s2, s3, s4, s5, s6, s7, s8, s9, s10, s11⟩

/-- `EndPartial(h0, …, h11)` -/
def endPartial (s : S12) : S12 :=
  let h0 := s.h0; let h1 := s.h1; let h2 := s.h2; let h3 := s.h3; let h4 := s.h4; let h5 := s.h5
  let h6 := s.h6; let h7 := s.h7; let h8 := s.h8; let h9 := s.h9; let h10 := s.h10; let h11 := s.h11
  let h11 := h11 + h1; let h2 := h2 ^^^ h11; let h1 := rol64 h1 44
  let h0 := h0 + h2; let h3 := h3 ^^^ h0; let h2 := rol64 h2 15
  let h1 := h1 + h3; let h4 := h4 ^^^ h1; let h3 := rol64 h3 34
  let h2 := h2 + h4; let h5 := h5 ^^^ h2; let h4 := rol64 h4 21
  let h3 := h3 + h5; let h6 := h6 ^^^ h3; let h5 := rol64 h5 38
  let h4 := h4 + h6; let h7 := h7 ^^^ h4; let h6 := rol64 h6 33
  let h5 := h5 + h7; let h8 := h8 ^^^ h5; let h7 := rol64 h7 10
  let h6 := h6 + h8; let h9 := h9 ^^^ h6; let h8 := rol64 h8 13
  let h7 := h7 + h9; let h10 := h10 ^^^ h7; let h9 := rol64 h9 38
  let h8 := h8 + h10; let h11 := h11 ^^^ h8; let h10 := rol64 h10 53
  let h9 := h9 + h11; let h0 := h0 ^^^ h9; let h11 := rol64 h11 42
  let h10 := h10 + h0; let h1 := h1 ^^^ h10; let h0 := rol64 h0 54
  ⟨h0, h1, h2, h3, h4, h5, h6, h7, h8, h9, h10, h11⟩

/-- `End(data, h0, …, h11)`: add the 12 words of the last block, three `EndPartial`s -/
def endMix (s : S12) (p : List UInt8) : S12 :=
  let s : S12 :=
    ⟨s.h0 + w64 p 0, s.h1 + w64 p 1, s.h2 + w64 p 2, s.h3 + w64 p 3, s.h4 + w64 p 4,
     s.h5 + w64 p 5, s.h6 + w64 p 6, s.h7 + w64 p 7, s.h8 + w64 p 8, s.h9 + w64 p 9,
     s.h10 + w64 p 10, s.h11 + w64 p 11⟩
  endPartial (endPartial (endPartial s))

/-- `while (u.p64 < end) { Mix(u.p64, …); u.p64 += sc_numVars; }` — `n` whole 96-byte blocks
    (the `memcpy` variant for unaligned input on strict-alignment hosts reads the same bytes) -/
def longLoop : Nat → S12 → List UInt8 → S12
  | 0, s, _ => s
  | n + 1, s, p => longLoop n (mix s p) (p.drop 96)

/-- the last partial block: `memcpy(buf, end, remainder); memset(buf+remainder, 0,
    sc_blockSize-remainder); ((uint8_t *)buf)[sc_blockSize-1] = remainder;` -/
def lastBlock (rem : List UInt8) : List UInt8 :=
  (rem ++ zeros (96 - rem.length)).set 95 (UInt8.ofNat rem.length)

/-- the long path of `spookyhash` (length ≥ 192) -/
def long (data : List UInt8) (hash1 hash2 : UInt64) : UInt64 × UInt64 :=
  let length := data.length
  let s : S12 := ⟨hash1, hash2, sc, hash1, hash2, sc, hash1, hash2, sc, hash1, hash2, sc⟩
  let n := length / 96
  let s := longLoop n s data
  let s := endMix s (lastBlock (data.drop (96 * n)))
  (s.h0, s.h1)

/-- `spookyhash(message, length, &hash1, &hash2)`; `sc_bufSize = 192` -/
def spookyhash (data : List UInt8) (hash1 hash2 : UInt64) : UInt64 × UInt64 :=
  if data.length < 192 then short data hash1 hash2 else long data hash1 hash2

end Usual.C16.Spooky
