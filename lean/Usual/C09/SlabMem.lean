import Usual.C09.Slab
/-! C09 model: what the slab allocator (usual/slab.c) writes to memory.  The allocator state
    (`Usual.C09.Slab`) is unchanged; this file adds the memory effect of `grow`, `slab_alloc` and
    `slab_free`: `cx_alloc0` zero-fills a new fragment, list operations store pointers (values not
    modelled: taken from an arbitrary `junk` memory) into the `struct List` at the start of the
    object handled, of the free object that becomes/was its list neighbour, of the fragment header
    and into `struct Slab`, and `slab_alloc` finally runs `init_func(obj)` or
    `memset(obj, 0, final_size)`. -/
namespace Usual.C09

/-- `sizeof(struct List)` -/
def listSize : Nat := 16

def inRange (a n x : Nat) : Bool := decide (a ≤ x) && decide (x < a + n)

/-- `memset(a, 0, n)` -/
def memZero (m : Mem) (a n : Nat) : Mem := fun x => if inRange a n x then 0 else m x

/-- pointer stores into the byte ranges `rs` (address, length); the stored values are whatever
    `junk` holds there -/
def memStore (junk m : Mem) (rs : List (Nat × Nat)) : Mem :=
  fun x => if rs.any (fun r => inRange r.1 r.2 x) then junk x else m x

/-- the callback given to `slab_create` (`none` = NULL): address of the object, memory before,
    memory after -/
abbrev InitFn := Option (Nat → Mem → Mem)

/-- memory after `grow(slab)` obtained a fragment at `a`: zero-filled by `cx_alloc0`, then list
    nodes initialised/linked in the fragment headers, in every new object and in `struct Slab` -/
def slabGrowMem (junk m : Mem) (s : Slab) (a : Nat) : Mem :=
  memStore junk (memZero m a (slabGrowReq s))
    ((a, slabFragHdr) :: (s.hdr, sizeofSlab) ::
      (s.frags.map (fun f => (f.1, slabFragHdr)) ++
       (slabObjs (a + slabFragHdr) s.finalSize (slabGrowCount s)).map (fun o => (o, listSize))))

/-- `statlist_pop(&slab->freelist)`: unlinks `o`; touches its own list node, the node of the new
    first free object and the list head in `struct Slab` -/
def slabPopMem (junk m : Mem) (s : Slab) (o : Nat) (rest : List Nat) : Mem :=
  memStore junk m ((o, listSize) :: (s.hdr, sizeofSlab) :: (rest.head?.map (fun p => (p, listSize))).toList)

/-- the last step of `slab_alloc`: `slab->init_func(item)` or `memset(item, 0, final_size)` -/
def slabInitMem (init : InitFn) (o fs : Nat) (m1 : Mem) : Mem :=
  match init with
  | some f => f o m1
  | none => memZero m1 o fs

/-- `slab_alloc(slab)` with memory: new state, result, memory.  `pa` = parent's answer if `grow`
    is needed. -/
def slabAllocM (junk : Mem) (init : InitFn) (s : Slab) (m : Mem) (pa : Option Nat) :
    Slab × Option Nat × Mem :=
  let grown : Slab × Mem :=
    match s.freelist, pa with
    | [], some a => (slabGrow s a, slabGrowMem junk m s a)
    | _, _ => (s, m)
  match grown.1.freelist with
  | [] => (grown.1, none, grown.2)
  | o :: rest =>
    let m1 := slabPopMem junk grown.2 grown.1 o rest
    ({ grown.1 with freelist := rest }, some o, slabInitMem init o s.finalSize m1)

/-- `slab_free(slab, obj)` with memory: `list_init(item)`, `statlist_prepend`: touches the node of
    `obj`, the node of the previous first free object and the list head in `struct Slab` -/
def slabFreeM (junk : Mem) (s : Slab) (m : Mem) (obj : Nat) : Slab × Mem :=
  (slabFree s obj,
   memStore junk m ((obj, listSize) :: (s.hdr, sizeofSlab) :: (s.freelist.head?.map (fun p => (p, listSize))).toList))

end Usual.C09
