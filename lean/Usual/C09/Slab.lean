import Usual.C09.Pool
/-! C09 model: slab allocator (usual/slab.c: `init_slab`, `grow`, `slab_alloc`, `slab_free`,
    `slab_destroy`) over abstract addresses.  Follows the code after repair F21 (fragment size and
    object offsets computed in `size_t`). -/
namespace Usual.C09

/-- `sizeof(struct SlabFrag)` -/
def slabFragHdr : Nat := 16
/-- `sizeof(struct Slab)` on LP64 -/
def sizeofSlab : Nat := 120

structure Slab where
  hdr : Nat                    -- address of `struct Slab`
  finalSize : Nat              -- `final_size`
  total : Nat                  -- `total_count`
  freelist : List Nat          -- free objects, list head first
  frags : List (Nat × Nat)     -- fragments (address, bytes) in `fraglist` order
deriving Repr, Inhabited

/-- `final_size` as computed by `init_slab(obj_size, align)` (stored in an `unsigned`) -/
def slabFinalSize (objSize align : Nat) : Nat :=
  let align := if align < 8 then 0 else align
  let fs := (if align = 0 then alignUp objSize 8 else alignUp objSize align) % 2 ^ 32
  if fs < 16 then 16 else fs

/-- `slab_create`: `pa` is the parent's answer to a request of `sizeofSlab` bytes -/
def slabCreate (objSize align : Nat) (pa : Option Nat) : Option Slab :=
  pa.map fun a => { hdr := a, finalSize := slabFinalSize objSize align, total := 0,
                    freelist := [], frags := [] }

/-- number of objects in the next fragment (`grow`) -/
def slabGrowCount (s : Slab) : Nat :=
  let c := s.total
  let c := if c < 50 then 16 * 1024 / s.finalSize else c
  if c < 50 then 50 else c

/-- bytes `grow` asks from the parent -/
def slabGrowReq (s : Slab) : Nat := slabGrowCount s * s.finalSize + slabFragHdr

/-- addresses of `count` objects of size `fs` starting at `area` -/
def slabObjs (area fs n : Nat) : List Nat := (List.range n).map fun i => area + i * fs

/-- `grow(slab)` when the parent returned `a` -/
def slabGrow (s : Slab) (a : Nat) : Slab :=
  let count := slabGrowCount s
  { s with freelist := s.freelist ++ slabObjs (a + slabFragHdr) s.finalSize count,
           total := s.total + count,
           frags := s.frags ++ [(a, slabGrowReq s)] }

/-- does `slab_alloc` have to call the parent? -/
def slabAllocReq (s : Slab) : Option Nat :=
  match s.freelist with
  | _ :: _ => none
  | [] => some (slabGrowReq s)

/-- `slab_alloc(slab)`; `pa` = parent's answer if `grow` is needed -/
def slabAlloc (s : Slab) (pa : Option Nat) : Slab × Option Nat :=
  match s.freelist with
  | o :: rest => ({ s with freelist := rest }, some o)
  | [] =>
    match pa with
    | none => (s, none)
    | some a =>
      let s' := slabGrow s a
      match s'.freelist with
      | o :: rest => ({ s' with freelist := rest }, some o)
      | [] => (s', none)

/-- `slab_free(slab, obj)` -/
def slabFree (s : Slab) (obj : Nat) : Slab := { s with freelist := obj :: s.freelist }

/-- `slab_destroy`: regions released, in order -/
def slabDestroy (s : Slab) : List (Nat × Nat) := s.frags ++ [(s.hdr, sizeofSlab)]

end Usual.C09
