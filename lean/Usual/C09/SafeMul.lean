/-! C09 model: `safe_mul_*` (usual/bits.h, macro `_USUAL_MUL_SAFE_`), `is_power_of_2`,
    and the size computations of `reallocarray` (usual/base.c) and `talloc_array` &c
    (`_talloc_const_name`, `_talloc_realloc` in usual/talloc.c).  Core Lean only. -/
namespace Usual.C09

/-- body of `_USUAL_MUL_SAFE_(type, max)` with the constants of the type spelled out:
    `lim` = `unsafe`, `mx` = `max`, `md` = 2^bits (the product is computed in the C type).
    `none` = `return false`, `some v` = `*res_p = v; return true`; three exits in source order. -/
def safeMulCore (lim mx md a b : Nat) : Option Nat :=
  if a < lim ∧ b < lim then some ((a * b) % md)     -- goto safe
  else if a = 0 ∨ b = 0 then some ((a * b) % md)    -- goto safe
  else if mx / a ≥ b then some ((a * b) % md)       -- goto safe
  else none                                         -- return false

/-- `_USUAL_MUL_SAFE_(type, max)` instantiated at an unsigned type of `w` bits; `a`, `b` are the
    (already converted) operands.  `type unsafe = (type)(1) << (sizeof(type) * 8/2)`. -/
def safeMul (w a b : Nat) : Option Nat :=
  safeMulCore (1 <<< (w / 2)) (2 ^ w - 1) (2 ^ w) a b

/-- `is_power_of_2(unsigned int n)`: `(n > 0) && !(n & (n - 1))` -/
def isPowerOf2 (n : Nat) : Bool := decide (n > 0) && (n &&& (n - 1)) == 0

/-- `reallocarray(p, count, size)` of base.c: the byte count handed to `realloc`, or `none`
    when it fails with ENOMEM before calling `realloc` (64-bit `size_t`). -/
def reallocarrayReq (count size : Nat) : Option Nat := safeMul 64 count size

/-- `_talloc_const_name(parent, elem_size, count, ...)` (behind `talloc_array`,
    `talloc_zero_array`, `talloc_array_size`, `talloc_array_ptrtype`): payload size of the
    object that is allocated, or `none` when NULL is returned before allocating. -/
def tallocArrayReq (elemSize count : Nat) : Option Nat := safeMul 64 elemSize count

/-- `TALLOC_MAXLEN` (0x10000000, 256MB) -/
def tallocMaxLen : Nat := 0x10000000

/-- `_talloc_realloc(parent, ptr, elem_size, count, name)` (behind `talloc_realloc`): new payload
    size, or `none` when NULL is returned by the two size checks. -/
def tallocReallocReq (elemSize count : Nat) : Option Nat :=
  match safeMul 64 elemSize count with
  | none => none
  | some size => if size > tallocMaxLen then none else some size
end Usual.C09
