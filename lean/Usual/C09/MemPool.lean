import Usual.C09.Pool
/-! C09 model: `mempool_alloc` / `mempool_destroy` (usual/mempool.c) over abstract addresses,
    after repair F19 (size guard, subtraction instead of a wrapping sum, doubling stops before
    `unsigned` overflows).  The unchanged function is kept as `mpAllocOld` (32-bit wrap-around
    arithmetic) for the counterexample theorem. -/
namespace Usual.C09

/-- `sizeof(struct MemPool)` -/
def mpHdr : Nat := 16
/-- `MEMPOOL_MAX_SIZE = UINT_MAX / 4` -/
def mpMaxSize : Nat := (2 ^ 32 - 1) / 4

structure MSeg where
  base : Nat     -- address returned by `calloc`
  size : Nat     -- `size` (payload bytes)
  used : Nat     -- `used`
deriving Repr, DecidableEq, Inhabited

structure MemPool where
  segs : List MSeg      -- `*pool` first, then `->prev` …
deriving Repr, DecidableEq, Inhabited

/-- start value of `nsize` in `mempool_alloc`: twice the current segment (256·2 for the first),
    not doubled once that could overflow `unsigned` -/
def mpStartSize (mp : MemPool) : Nat :=
  let n0 := match mp.segs with
    | s :: _ => s.size
    | [] => 256
  if n0 ≤ mpMaxSize then n0 * 2 else n0

/-- `nsize` chosen by `mempool_alloc` for an aligned request that does not fit -/
def mpNextSize (mp : MemPool) (sz : Nat) : Nat := growTo 32 (mpStartSize mp) sz

def mpFits (mp : MemPool) (sz : Nat) : Bool :=
  match mp.segs with
  | s :: _ => decide (sz ≤ s.size - s.used)
  | [] => false

/-- bytes asked from `calloc`, if any -/
def mpAllocReq (mp : MemPool) (size : Nat) : Option Nat :=
  if size > mpMaxSize then none else
  let sz := alignUp size 8
  if mpFits mp sz then none else some (mpHdr + mpNextSize mp sz)

/-- `mempool_alloc(&pool, size)`; `pa` = answer of `calloc` when it is called -/
def mpAlloc (mp : MemPool) (size : Nat) (pa : Option Nat) : Option (MemPool × Nat) :=
  if size > mpMaxSize then none else
  let sz := alignUp size 8
  match mp.segs with
  | s :: rest =>
    if sz ≤ s.size - s.used then
      some ({ segs := { s with used := s.used + sz } :: rest }, s.base + mpHdr + s.used)
    else pa.map fun a =>
      ({ segs := { base := a, size := mpNextSize mp sz, used := sz } :: mp.segs }, a + mpHdr)
  | [] => pa.map fun a =>
      ({ segs := { base := a, size := mpNextSize mp sz, used := sz } :: mp.segs }, a + mpHdr)

/-- `mempool_destroy`: regions passed to `free`, in order -/
def mpDestroy (mp : MemPool) : List (Nat × Nat) := mp.segs.map fun s => (s.base, mpHdr + s.size)

/-- first branch of the unchanged `mempool_alloc`: `cur->used + size <= cur->size` evaluated in
    32-bit `unsigned`, after `size = ALIGN(size)` truncated to 32 bits.  Returns the offset of the
    block in the segment payload and the new `used`, when the branch is taken. -/
def mpFitOld (s : MSeg) (size : Nat) : Option (Nat × Nat) :=
  let sz := alignUp size 8 % 2 ^ 32
  if (s.used + sz) % 2 ^ 32 ≤ s.size then some (s.used, (s.used + sz) % 2 ^ 32) else none

end Usual.C09
