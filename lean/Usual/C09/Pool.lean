import Usual.C09.SafeMul
/-! C09 model: the append-only pool allocator of usual/cxextra.c (`cx_new_pool`,
    `cx_new_pool_from_area`, `new_seg`, `pool_alloc`, `pool_free`, `pool_guess_old_len`,
    `pool_realloc`, `pool_destroy`) together with the `cx_alloc`/`cx_realloc`/`cx_free`
    wrappers of usual/cxalloc.c, over abstract `Nat` addresses.

    The model follows the code *after* the repairs F04 (realloc keeps `seg_pos` aligned) and
    F05 (alignment slack in `new_seg`, `size_t nsize`, size guard, lower bound 512, empty first
    segment when the area is too small).  The unchanged functions are kept as `…Old` for the
    counterexample theorems.

    The parent allocator is an oracle: every function that may call `cx_alloc(pool->parent, n)`
    takes the parent's answer `pa : Option Nat` (`none` = NULL) as an argument and
    `…Req` says whether and with which size the parent is called.  Core Lean only. -/
namespace Usual.C09

/-- memory contents (used where the models say what is copied or initialised) -/
abbrev Mem := Nat → UInt8

/-- `CUSTOM_ALIGN(x, a)` for a power of two `a` (`(x + a - 1) & ~(a - 1)`) -/
def alignUp (x a : Nat) : Nat := (x + a - 1) / a * a

/-- `POOL_HDR = ALIGN(sizeof(struct CxPoolSeg))` on LP64 -/
def poolHdr : Nat := 32
/-- `sizeof(struct CxPool)` on LP64 -/
def sizeofPool : Nat := 80
/-- `POOL_MAX_SIZE = SIZE_MAX / 4` -/
def poolMaxSize : Nat := (2 ^ 64 - 1) / 4

/-- one `struct CxPoolSeg` plus the parent region it lives in -/
structure Seg where
  base : Nat      -- address of the parent region (= address of the segment / pool header)
  size : Nat      -- bytes of the parent region
  hdrEnd : Nat    -- `seg + 1` (`head + 1` for the first segment)
  start : Nat     -- seg_start
  pos : Nat       -- seg_pos
  stop : Nat      -- seg_end
deriving Repr, DecidableEq, Inhabited

/-- `struct CxPool` -/
structure Pool where
  align : Nat
  segs : List Seg            -- `pool->last` first, then `->prev` …; the last entry is `first_seg`
  lastPtr : Option Nat       -- `last_ptr` (`none` = NULL)
  allowFree : Bool           -- `allow_free_first`
deriving Repr, DecidableEq, Inhabited

/-- `(void *)CUSTOM_ALIGN((seg + 1), pool->align)` of `pool_guess_old_len` -/
def Seg.cstart (s : Seg) (align : Nat) : Nat := alignUp s.hdrEnd align

/-! ### creation -/

/-- `cx_new_pool_from_area(parent, buf, size, allow_free, align)` -/
def fromArea (buf size : Nat) (allowFree : Bool) (align : Nat) : Option Pool :=
  if size < sizeofPool then none else
  if align ≠ 0 ∧ isPowerOf2 align = false then none else
  let align := if align = 0 then 8 else align
  let stop := buf + size
  let st := alignUp (buf + sizeofPool) align
  let start := if st > stop then stop else st
  some { align := align,
         segs := [{ base := buf, size := size, hdrEnd := buf + sizeofPool,
                    start := start, pos := start, stop := stop }],
         lastPtr := none, allowFree := allowFree }

/-- size of the parent request made by `cx_new_pool(parent, initial_size, align)` -/
def newPoolReq (initial : Nat) : Nat :=
  sizeofPool + (if initial < 1024 then 1024 else initial)

/-- `cx_new_pool(parent, initial_size, align)`; `pa` is the parent's answer to `newPoolReq` -/
def newPool (initial align : Nat) (pa : Option Nat) : Option Pool :=
  match pa with
  | none => none
  | some area => fromArea area (newPoolReq initial) true align

/-! ### pool_alloc -/

/-- `while (nsize < size) nsize *= 2;` -/
def growTo : Nat → Nat → Nat → Nat
  | 0, n, _ => n
  | fuel + 1, n, size => if n < size then growTo fuel (n * 2) size else n

/-- the starting value of `nsize` in `pool_alloc`: twice the current segment, at least 512 -/
def segSizeStart (p : Pool) : Nat :=
  let n0 := match p.segs with
    | s :: _ => 2 * (s.stop - s.start)
    | [] => 512
  if n0 < 512 then 512 else n0

/-- the `nsize` computed by `pool_alloc` for an (aligned) request `sz` that does not fit -/
def nextSegSize (p : Pool) (sz : Nat) : Nat := growTo 64 (segSizeStart p) sz

/-- does the (aligned) request fit into the current segment? -/
def fits (p : Pool) (sz : Nat) : Bool :=
  match p.segs with
  | s :: _ => decide (s.pos + sz ≤ s.stop)
  | [] => false

/-- byte count `new_seg` asks from the parent: `POOL_HDR + pool->align + nsize` -/
def segAlloc (p : Pool) (nsize : Nat) : Nat := poolHdr + p.align + nsize

/-- parent request made by `pool_alloc(pool, size)`, if any -/
def allocReq (p : Pool) (size : Nat) : Option Nat :=
  if size > poolMaxSize then none else
  let sz := alignUp size p.align
  if fits p sz then none else some (segAlloc p (nextSegSize p sz))

/-- `new_seg(pool, nsize)` when the parent returned `pa` -/
def newSeg (p : Pool) (nsize pa : Nat) : Seg :=
  let alloc := segAlloc p nsize
  let st := alignUp (pa + poolHdr) p.align
  { base := pa, size := alloc, hdrEnd := pa + poolHdr, start := st, pos := st, stop := pa + alloc }

/-- first branch of `pool_alloc`: carve `sz` bytes out of the current segment `s` -/
def allocFit (p : Pool) (s : Seg) (rest : List Seg) (sz : Nat) : Pool × Nat :=
  ({ p with segs := { s with pos := s.pos + sz } :: rest, lastPtr := some s.pos }, s.pos)

/-- second branch of `pool_alloc`: `new_seg` succeeded with parent address `a` -/
def allocNew (p : Pool) (sz a : Nat) : Pool × Nat :=
  let n := newSeg p (nextSegSize p sz) a
  ({ p with segs := { n with pos := n.pos + sz } :: p.segs, lastPtr := some n.pos }, n.pos)

/-- `pool_alloc(pool, size)`; result `none` = NULL, else the new pool state and the pointer -/
def alloc (p : Pool) (size : Nat) (pa : Option Nat) : Option (Pool × Nat) :=
  if size > poolMaxSize then none else
  let sz := alignUp size p.align
  match p.segs with
  | s :: rest =>
    if s.pos + sz ≤ s.stop then some (allocFit p s rest sz)
    else pa.map (allocNew p sz)
  | [] => pa.map (allocNew p sz)

/-! ### pool_free, pool_realloc -/

/-- `pool_free(pool, ptr)`: only the last block is really released -/
def free (p : Pool) (ptr : Nat) : Pool :=
  if p.lastPtr ≠ some ptr then p else
  match p.segs with
  | s :: rest => { p with segs := { s with pos := ptr } :: rest, lastPtr := none }
  | [] => p

/-- `cx_free(pool, ptr)` of usual/cxalloc.c: `if (ptr) c_free(ctx, ptr)`; `none` = NULL -/
def cxFree (p : Pool) (ptr : Option Nat) : Pool :=
  match ptr with
  | none => p
  | some q => free p q

/-- `pool_free` as it would run if `cx_free` handed it NULL (address 0) unfiltered: the comparison
    `pool->last_ptr != ptr` is false when `last_ptr` is NULL too, and `seg_pos` becomes NULL -/
def freeUnfilteredNull (p : Pool) : Pool :=
  if p.lastPtr ≠ none then p else
  match p.segs with
  | s :: rest => { p with segs := { s with pos := 0 } :: rest, lastPtr := none }
  | [] => p

/-- `pool_guess_old_len(pool, ptr)` -/
def guessOldLen (align : Nat) : List Seg → Nat → Nat
  | [], _ => 0
  | s :: rest, ptr =>
    if s.cstart align ≤ ptr ∧ ptr < s.pos then s.pos - ptr else guessOldLen align rest ptr

/-- parent request made by `pool_realloc(pool, ptr, len)`, if any -/
def reallocReq (p : Pool) (ptr len : Nat) : Option Nat :=
  if len > poolMaxSize then none else
  if p.lastPtr ≠ some ptr then allocReq p len else
  match p.segs with
  | s :: _ =>
    let alen := alignUp len p.align
    if s.pos - (s.pos - ptr) + alen ≤ s.stop then none else allocReq p alen
  | [] => none

/-- `pool_realloc` when `ptr` is not the last block: allocate, copy `min(guess, len)` bytes -/
def reallocOther (p : Pool) (ptr len : Nat) (pa : Option Nat) : Option (Pool × Nat × Nat) :=
  let olen := guessOldLen p.align p.segs ptr
  (alloc p len pa).map fun r => (r.1, r.2, if olen > len then len else olen)

/-- `pool_realloc` when `ptr` is the last block (which lies in the current segment `s`) -/
def reallocLast (p : Pool) (s : Seg) (rest : List Seg) (ptr len : Nat) (pa : Option Nat) :
    Option (Pool × Nat × Nat) :=
  let olen := s.pos - ptr
  let alen := alignUp len p.align           -- F04
  if s.pos - olen + alen ≤ s.stop then
    some ({ p with segs := { s with pos := ptr + alen } :: rest }, ptr, 0)
  else
    (alloc p alen pa).map fun r => (r.1, r.2, olen)

/-- `pool_realloc(pool, ptr, len)`: `none` = NULL; else new state, new pointer and the number of
    bytes `memcpy`ed from `ptr` to the new pointer (0 when the block stays in place) -/
def realloc (p : Pool) (ptr len : Nat) (pa : Option Nat) : Option (Pool × Nat × Nat) :=
  if len > poolMaxSize then none else
  if p.lastPtr ≠ some ptr then reallocOther p ptr len pa
  else
    match p.segs with
    | s :: rest => reallocLast p s rest ptr len pa
    | [] => none

/-! ### pool_destroy -/

def Seg.region (s : Seg) : Nat × Nat := (s.base, s.size)

/-- `pool_destroy(pool)`: the regions handed to `cx_free(pool->parent, …)`, in call order -/
def destroy (p : Pool) : List (Nat × Nat) :=
  (p.segs.dropLast.map Seg.region) ++
    (if p.allowFree then (p.segs.getLast?.map Seg.region).toList else [])

/-! ### cx_* wrappers (usual/cxalloc.c) -/

/-- `cx_alloc(pool, len)` -/
def cxAlloc (p : Pool) (len : Nat) (pa : Option Nat) : Option (Pool × Nat) :=
  if len = 0 then none else alloc p len pa

def cxAllocReq (p : Pool) (len : Nat) : Option Nat :=
  if len = 0 then none else allocReq p len

/-! ### the unchanged code (for the counterexample theorems) -/

/-- `new_seg` before F05: no slack for the alignment of `seg_start` -/
def newSegOld (p : Pool) (nsize pa : Nat) : Seg :=
  let alloc := poolHdr + nsize
  let st := alignUp (pa + poolHdr) p.align
  { base := pa, size := alloc, hdrEnd := pa + poolHdr, start := st, pos := st, stop := pa + alloc }

/-- `while (nsize < size) nsize *= 2;` with `unsigned nsize` (32 bit) -/
def growToOld : Nat → Nat → Nat → Nat
  | 0, n, _ => n
  | fuel + 1, n, size => if n < size then growToOld fuel ((n * 2) % 2 ^ 32) size else n

/-- `pool_alloc` before F05 (`unsigned nsize`, no guard, no lower bound); `fuel` bounds the loop,
    `none` stands for NULL *or* for a loop that has not ended after `fuel` rounds -/
def allocOld (fuel : Nat) (p : Pool) (size : Nat) (pa : Option Nat) : Option (Pool × Nat) :=
  let sz := alignUp size p.align
  match p.segs with
  | s :: rest =>
    if s.pos + sz ≤ s.stop then
      some ({ p with segs := { s with pos := s.pos + sz } :: rest, lastPtr := some s.pos }, s.pos)
    else
      let nsize := growToOld fuel ((2 * (s.stop - s.start)) % 2 ^ 32) sz
      if nsize < sz then none else
      match pa with
      | none => none
      | some a =>
        let n := newSegOld p nsize a
        some ({ p with segs := { n with pos := n.pos + sz } :: s :: rest, lastPtr := some n.pos }, n.pos)
  | [] => none

/-- the in-place branch of `pool_realloc` before F04: `seg_pos = p + len` (unaligned) -/
def reallocLastOld (p : Pool) (ptr len : Nat) : Option (Pool × Nat) :=
  match p.segs with
  | s :: rest =>
    if s.pos - (s.pos - ptr) + len ≤ s.stop then
      some ({ p with segs := { s with pos := ptr + len } :: rest }, ptr)
    else none
  | [] => none

end Usual.C09
