import Usual.C09.SafeMul
import Usual.C09.Pool
import Usual.C09.TreeAlloc
import Usual.C09.Slab
import Usual.C09.MemPool
/-! C09: composition of the allocator models into stacks (pool in tree in talloc-backed cx …)
    over one tracking base allocator, as exercised by harness/C09/h.c.  This file is glue for the
    model driver: each layer calls the model of the layer below exactly where the C code calls
    `cx_alloc/cx_realloc/cx_free` on its parent.  Base regions get abstract addresses
    `(n+1)·2^40 + mis` where `mis` (the address modulo 4096 the harness's base allocator is told
    to produce) comes from the op line. -/
namespace Usual.C09

/-- `THSIZE` of talloc.c (LP64) -/
def tallocHdr : Nat := 88

/-- a live region of the base (tracking) allocator -/
structure Reg where
  addr : Nat
  size : Nat
deriving Repr, Inhabited

inductive AK where
  | trk
  | talloc (root cx : Nat) (kids : List (Nat × Nat))     -- children: (header address, payload len)
  | troot (t : TNode) (real : Nat)
  | tsub (root : Nat)
  | pool (p : Pool) (parent : Nat) (buf : Option Nat)
  | slab (s : Slab) (parent : Nat) (objSize align : Nat)
  | mp (m : MemPool)
deriving Inhabited

structure Blk where
  slot : Nat
  ptr : Nat
  len : Nat
deriving Repr, Inhabited

structure World where
  slots : List (Nat × AK)
  regs : List Reg
  nreg : Nat
  blks : List (Nat × Blk)
  failNext : Bool := false      -- the next request to the base allocator fails (op `failnext`)
deriving Inhabited

def World.init : World := { slots := [(0, .trk)], regs := [], nreg := 0, blks := [], failNext := false }

def World.slot (w : World) (i : Nat) : Option AK := (w.slots.find? (·.1 == i)).map (·.2)
def World.setSlot (w : World) (i : Nat) (k : AK) : World :=
  { w with slots := (i, k) :: w.slots.filter (·.1 != i) }
def World.delSlot (w : World) (i : Nat) : World := { w with slots := w.slots.filter (·.1 != i) }
def World.blk (w : World) (i : Nat) : Option Blk := (w.blks.find? (·.1 == i)).map (·.2)
def World.setBlk (w : World) (i : Nat) (b : Blk) : World :=
  { w with blks := (i, b) :: w.blks.filter (·.1 != i) }
def World.delBlk (w : World) (i : Nat) : World := { w with blks := w.blks.filter (·.1 != i) }

def regionSpan : Nat := 2 ^ 40

/-! ### base allocator -/

def trkAlloc (w : World) (len mis : Nat) : World × Nat :=
  let a := (w.nreg + 1) * regionSpan + mis
  ({ w with regs := { addr := a, size := len } :: w.regs, nreg := w.nreg + 1 }, a)

/-- largest request the harness's base allocator serves (beyond: NULL) -/
def trkMax : Nat := 2 ^ 40

/-- `cx_alloc(base, len)` as the harness's base allocator behaves -/
def trkAllocO (w : World) (len mis : Nat) : World × Option Nat :=
  if w.failNext then ({ w with failNext := false }, none) else
  if len > trkMax then (w, none) else
  let (w', a) := trkAlloc w len mis
  (w', some a)

def trkFree (w : World) (a : Nat) : World := { w with regs := w.regs.filter (·.addr != a) }

/-! ### cx_alloc / cx_realloc / cx_free on any slot -/

/-- the tree root node a tree slot belongs to: (root slot, node, real) -/
def World.treeOf (w : World) (slot : Nat) : Option (Nat × TNode × Nat) :=
  match w.slot slot with
  | some (.troot t real) => some (slot, t, real)
  | some (.tsub r) => match w.slot r with
    | some (.troot t real) => some (r, t, real)
    | _ => none
  | _ => none

def cxAllocW : Nat → World → Nat → Nat → Nat → World × Option Nat
  | 0, w, _, _, _ => (w, none)
  | fuel + 1, w, slot, len, mis =>
    if len = 0 then (w, none) else
    match w.slot slot with
    | some .trk => trkAllocO w len mis
    | some (.talloc root cx kids) =>
      if len > tallocMaxLen then (w, none) else
      (match trkAllocO w (alignUp len 8 + tallocHdr) mis with
       | (w', some a) => (w'.setSlot slot (.talloc root cx (kids ++ [(a, len)])), some (a + tallocHdr))
       | (w', none) => (w', none))
    | some (.pool p parent buf) =>
      let (w1, pa) := match cxAllocReq p len with
        | some req => cxAllocW fuel w parent req mis
        | none => (w, none)
      (match cxAlloc p len pa with
       | some (p', q) => (w1.setSlot slot (.pool p' parent buf), some q)
       | none => (w1, none))
    | some _ =>
      (match w.treeOf slot with
       | some (r, t, real) =>
         (match treeReq len with
          | none => (w, none)
          | some req =>
            let (w1, pa) := cxAllocW fuel w real req mis
            match treeAlloc t slot len pa with
            | some (t', q) => (w1.setSlot r (.troot t' real), some q)
            | none => (w1, none))
       | none => (w, none))
    | none => (w, none)

def cxFreeW : Nat → World → Nat → Nat → World
  | 0, w, _, _ => w
  | fuel + 1, w, slot, ptr =>
    match w.slot slot with
    | some .trk => trkFree w ptr
    | some (.talloc root cx kids) =>
      (trkFree w (ptr - tallocHdr)).setSlot slot (.talloc root cx (kids.filter (·.1 + tallocHdr != ptr)))
    | some (.pool p parent buf) => w.setSlot slot (.pool (free p ptr) parent buf)
    | some _ =>
      (match w.treeOf slot with
       | some (r, t, real) =>
         let w1 := w.setSlot r (.troot (treeFree t slot ptr) real)
         cxFreeW fuel w1 real (ptr - treeHdr)
       | none => w)
    | none => w

/-- `cx_free(slot, ptr)` with the NULL filter of usual/cxalloc.c (`none` = NULL: nothing happens,
    the allocator's `c_free` is not called) -/
def cxFreeOptW (fuel : Nat) (w : World) (slot : Nat) (ptr : Option Nat) : World :=
  match ptr with
  | none => w
  | some p => cxFreeW fuel w slot p

def cxReallocW : Nat → World → Nat → Nat → Nat → Nat → World × Option Nat
  | 0, w, _, _, _, _ => (w, none)
  | fuel + 1, w, slot, ptr, len, mis =>
    if len = 0 then (cxFreeW (fuel + 1) w slot ptr, none) else
    match w.slot slot with
    | some .trk =>
      -- the tracking allocator always moves
      (match trkAllocO w len mis with
       | (w1, some a) => (trkFree w1 ptr, some a)
       | (w1, none) => (w1, none))
    | some (.talloc root cx kids) =>
      if len > tallocMaxLen then (w, none) else
      (match kids.find? (·.1 + tallocHdr == ptr) with
       | none => (w, none)
       | some (h, olen) =>
         if olen = len then (w, some ptr) else
         (match trkAllocO w (alignUp len 8 + tallocHdr) mis with
          | (w1, some a) =>
            let w2 := trkFree w1 h
            (w2.setSlot slot (.talloc root cx (kids.map fun k => if k.1 == h then (a, len) else k)),
             some (a + tallocHdr))
          | (w1, none) => (w1, none)))
    | some (.pool p parent buf) =>
      let (w1, pa) := match reallocReq p ptr len with
        | some req => cxAllocW fuel w parent req mis
        | none => (w, none)
      (match realloc p ptr len pa with
       | some (p', q, _) => (w1.setSlot slot (.pool p' parent buf), some q)
       | none => (w1, none))
    | some _ =>
      (match w.treeOf slot with
       | some (r, t, real) =>
         (match treeReq len with
          | none => (w, none)
          | some req =>
            let (w1, pa) := cxReallocW fuel w real (ptr - treeHdr) req mis
            let (t', q) := treeRealloc t slot ptr len pa
            (w1.setSlot r (.troot t' real), q))
       | none => (w, none))
    | none => (w, none)

def freeAll (fuel : Nat) (w : World) (slot : Nat) : List Nat → World
  | [] => w
  | a :: rest => freeAll fuel (cxFreeW fuel w slot a) slot rest

mutual
def TNode.ids : TNode → List Nat
  | .mk i _ _ subs => i :: idsL subs
def idsL : List TNode → List Nat
  | [] => []
  | t :: ts => t.ids ++ idsL ts
end

/-- slots that disappear when `slot` is destroyed -/
def World.destroySet (w : World) (slot : Nat) : List Nat :=
  match w.treeOf slot with
  | some (_, t, _) => (match t.find slot with
    | some n => n.ids
    | none => [slot])
  | none => [slot]

/-- the slot a given slot takes its memory from (pool parent, slab parent, tree real) -/
def World.parentOf (w : World) (slot : Nat) : Option Nat :=
  match w.slot slot with
  | some (.pool _ parent _) => some parent
  | some (.slab _ parent _ _) => some parent
  | some (.troot _ real) => some real
  | _ => none

/-- may `slot` be destroyed now?  (no surviving allocator depends on it) -/
def World.canDestroy (w : World) (slot : Nat) : Bool :=
  let d := w.destroySet slot
  w.slots.all fun (i, _) =>
    d.contains i || match w.parentOf i with
      | some par => !d.contains par
      | none => true

def fuelW : Nat := 16

/-- `cx_destroy(slot)` (plus what the harness itself releases afterwards: the caller-owned area
    of `cx_new_pool_from_area(..., allow_free = false)`, the root object of a talloc stack) -/
def destroyW (w : World) (slot : Nat) : World :=
  let dset := w.destroySet slot
  let w1 : World := match w.slot slot with
    | some (.talloc root cx kids) =>
      let w1 := (kids.map (·.1)).foldl trkFree w
      trkFree (trkFree w1 cx) root
    | some (.pool p parent buf) =>
      let w1 := freeAll fuelW w parent ((destroy p).map (·.1))
      (match buf with
       | some b => cxFreeW fuelW w1 parent b
       | none => w1)
    | some (.slab s parent _ _) => freeAll fuelW w parent ((slabDestroy s).map (·.1))
    | some (.mp m) => ((mpDestroy m).map (·.1)).foldl trkFree w
    | some (.troot t real) => freeAll fuelW w real t.destroyList
    | some (.tsub r) =>
      (match w.slot r with
       | some (.troot t real) =>
         (match t.find slot with
          | some n =>
            let w1 := w.setSlot r (.troot (t.remove slot) real)
            freeAll fuelW w1 real n.destroyList
          | none => w)
       | _ => w)
    | _ => w
  { w1 with slots := w1.slots.filter (fun (i, _) => !dset.contains i),
            blks := w1.blks.filter (fun (_, b) => !dset.contains b.slot) }

end Usual.C09
