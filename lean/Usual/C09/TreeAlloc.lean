/-! C09 model: the tree allocator of usual/cxextra.c (`cx_new_tree`, `tree_alloc`, `tree_realloc`,
    `tree_free`, `tree_destroy`) over abstract addresses.  A tree remembers every allocation
    (a 16-byte `struct CxTreeItem` header in front of each block, all taken from the `real`
    allocator of the root) and its sub-trees; destroying a tree releases its items, then its
    sub-trees (recursively), then its own `struct CxTree`.
    Follows the code after repair F20 (`TREE_HDR + len` is refused when it would wrap). -/
namespace Usual.C09

/-- `TREE_HDR = sizeof(struct CxTreeItem)` -/
def treeHdr : Nat := 16
/-- `sizeof(struct CxTree)` on LP64 -/
def sizeofTree : Nat := 72
/-- `SIZE_MAX` -/
def sizeMax : Nat := 2 ^ 64 - 1

/-- one `struct CxTree`: allocator id, address of the struct, the items (address obtained from
    `real`, bytes requested) in `alloc_list` order, sub-trees in `subtree_list` order -/
inductive TNode where
  | mk (id : Nat) (hdr : Nat) (items : List (Nat × Nat)) (subs : List TNode)
deriving Repr, Inhabited

namespace TNode
def id : TNode → Nat | .mk i _ _ _ => i
def hdr : TNode → Nat | .mk _ h _ _ => h
def items : TNode → List (Nat × Nat) | .mk _ _ its _ => its
def subs : TNode → List TNode | .mk _ _ _ s => s
end TNode

mutual
/-- apply `f` to the node with allocator id `id` -/
def TNode.update (f : TNode → TNode) (id : Nat) : TNode → TNode
  | .mk i h its subs => if i = id then f (.mk i h its subs) else .mk i h its (updateL f id subs)
def updateL (f : TNode → TNode) (id : Nat) : List TNode → List TNode
  | [] => []
  | t :: ts => t.update f id :: updateL f id ts
end

mutual
/-- the node with allocator id `id` -/
def TNode.find (id : Nat) : TNode → Option TNode
  | .mk i h its subs => if i = id then some (.mk i h its subs) else findL id subs
def findL (id : Nat) : List TNode → Option TNode
  | [] => none
  | t :: ts => match t.find id with
    | some r => some r
    | none => findL id ts
end

mutual
/-- `tree_destroy(tree)`: addresses passed to `cx_free(tree->real, …)`, in call order:
    the items, then everything of each sub-tree, then the `struct CxTree` itself -/
def TNode.destroyList : TNode → List Nat
  | .mk _ h its subs => its.map (·.1) ++ destroyListL subs ++ [h]
def destroyListL : List TNode → List Nat
  | [] => []
  | t :: ts => t.destroyList ++ destroyListL ts
end

mutual
/-- every address the tree holds from `real` -/
def TNode.regions : TNode → List Nat
  | .mk _ h its subs => h :: its.map (·.1) ++ regionsL subs
def regionsL : List TNode → List Nat
  | [] => []
  | t :: ts => t.regions ++ regionsL ts
end

mutual
/-- unlink the sub-tree with id `id` (`list_del(&tree->subtree_node)`) -/
def TNode.remove (id : Nat) : TNode → TNode
  | .mk i h its subs => .mk i h its (removeL id subs)
def removeL (id : Nat) : List TNode → List TNode
  | [] => []
  | t :: ts => if t.id = id then ts else t.remove id :: removeL id ts
end

/-- bytes `tree_alloc(tree, len)` / `tree_realloc(tree, ptr, len)` ask from `real`;
    `none` when `TREE_HDR + len` would wrap (F20) -/
def treeReq (len : Nat) : Option Nat :=
  if len > sizeMax - treeHdr then none else some (treeHdr + len)

/-- `tree_alloc` succeeded: `real` returned `pa` -/
def treeAddItem (pa len : Nat) : TNode → TNode
  | .mk i h its subs => .mk i h (its ++ [(pa, treeHdr + len)]) subs

/-- `list_del(&item->node)` for the block at user address `ptr` -/
def treeDelItem (ptr : Nat) : TNode → TNode
  | .mk i h its subs => .mk i h (its.filter (fun it => it.1 + treeHdr != ptr)) subs

/-- `cx_new_tree(parent)` with `parent` a tree: register at the end of `subtree_list` -/
def treeAddSub (newId hdrAddr : Nat) : TNode → TNode
  | .mk i h its subs => .mk i h its (subs ++ [.mk newId hdrAddr [] []])

/-- failure path of `tree_realloc`: the unlinked item goes back to the end of `alloc_list` -/
def treeReaddItems (old : List (Nat × Nat)) : TNode → TNode
  | .mk i h its subs => .mk i h (its ++ old) subs

/-- `cx_alloc(tree id, len)`; `pa` = answer of `real` to `treeReq len` -/
def treeAlloc (t : TNode) (id len : Nat) (pa : Option Nat) : Option (TNode × Nat) :=
  if len = 0 then none else
  match treeReq len, pa with
  | some _, some a => some (t.update (treeAddItem a len) id, a + treeHdr)
  | _, _ => none

/-- `cx_free(tree id, ptr)` -/
def treeFree (t : TNode) (id ptr : Nat) : TNode := t.update (treeDelItem ptr) id

/-- `tree_realloc`: `pa` = answer of `cx_realloc(real, item, TREE_HDR + len)`.
    The item is unlinked and the (new or old) item appended at the end of `alloc_list`. -/
def treeRealloc (t : TNode) (id ptr len : Nat) (pa : Option Nat) : TNode × Option Nat :=
  match treeReq len, pa with
  | some _, some a => ((t.update (treeDelItem ptr) id).update (treeAddItem a len) id, some (a + treeHdr))
  | some _, none =>
    -- failure: old item re-appended at the end
    let old := match t.find id with
      | some n => (n.items.filter (fun it => it.1 + treeHdr == ptr))
      | none => []
    ((t.update (treeDelItem ptr) id).update (treeReaddItems old) id, none)
  | none, _ => (t, none)

end Usual.C09
