import Usual.Common
/-!
# Crit-bit tree of `usual/cbtree.c` — executable model

Keys are byte strings handled as infinite, zero-padded bit strings (MSB first).  A leaf
carries the stored object (`Entry`: its key and an object id standing for the user pointer);
an internal node carries the bit position tested and two children (`child[0]`, `child[1]`).
`Option (T Entry)` is `tree->root` (`none` = NULL).

Every function mirrors the C function of the same name: `getBit` = `get_bit`, `findCrit` =
`find_crit_bit` (common part, then the longer key against the zero padding, `8 - fls(c)`),
`rawLookup`, `lookup` (+ `key_matches`), `insertAt`, `insert`, `delete` (sibling takes the
node's place; free callback logged), `walk` (child 0 then child 1, stops when the callback
says so), `destroyLog`.
-/
namespace Usual.C06

abbrev Key := List UInt8

/-- key bytes as naturals (< 256) -/
def toNats (k : Key) : List Nat := k.map UInt8.toNat

/-- `get_bit` on the byte values: bit `pos` of the zero-padded key, MSB first -/
def getBitN (k : List Nat) (pos : Nat) : Bool :=
  match k[pos / 8]? with
  | some b => b.testBit (7 - pos % 8)
  | none => false

def getBit (k : Key) (pos : Nat) : Bool := getBitN (toNats k) pos

/-- index of the highest set bit of a non-zero byte (`fls(c) - 1`) as a comparison cascade -/
def hiBit (c : Nat) : Nat :=
  if c ≥ 128 then 7 else if c ≥ 64 then 6 else if c ≥ 32 then 5 else if c ≥ 16 then 4
  else if c ≥ 8 then 3 else if c ≥ 4 then 2 else if c ≥ 2 then 1 else 0

/-- `8 - fls(c)`: MSB-first index of the highest set bit -/
def firstBit (c : Nat) : Nat := 7 - hiBit c

/-- second loop of `find_crit_bit`: the rest of the longer key against the zero padding.
    `i` = index of the byte under examination. -/
def critTail : List Nat → Nat → Option Nat
  | [], _ => none
  | x :: xs, i => if x ≠ 0 then some (i * 8 + firstBit x) else critTail xs (i + 1)

/-- `find_crit_bit`: first the common part, then the longer key against zero padding.
    `none` = SAME_KEY. -/
def findCritN : List Nat → List Nat → Nat → Option Nat
  | [], b, i => critTail b i
  | x :: xs, [], i => critTail (x :: xs) i
  | x :: xs, y :: ys, i =>
    if x ≠ y then some (i * 8 + firstBit (x ^^^ y)) else findCritN xs ys (i + 1)

def findCrit (a b : Key) : Option Nat := findCritN (toNats a) (toNats b) 0

/-- a stored object: the key its `obj_key_cb` reports and an id standing for the pointer -/
structure Entry where
  key : Key
  obj : Nat
deriving DecidableEq, Repr

inductive T where
  | leaf (e : Entry)
  | node (b : Nat) (l r : T)
deriving Repr

/-- in-order list of stored objects (child 0 before child 1) -/
def T.entries : T → List Entry
  | .leaf e => [e]
  | .node _ l r => l.entries ++ r.entries

/-- number of internal nodes (= allocations made by `new_node` still live) -/
def T.nodes : T → Nat
  | .leaf _ => 0
  | .node _ l r => l.nodes + r.nodes + 1

/-- `raw_lookup`: walk nodes until an external pointer is found -/
def T.rawLookup : T → Key → Entry
  | .leaf e, _ => e
  | .node b l r, k => if getBit k b then r.rawLookup k else l.rawLookup k

/-- `key_matches` -/
def keyMatches (e : Entry) (k : Key) : Bool := e.key == k

/-- `cbtree_lookup` -/
def lookup (root : Option T) (k : Key) : Option Entry :=
  match root with
  | none => none
  | some t => let e := t.rawLookup k; if keyMatches e k then some e else none

/-- `insert_at`: descend while `bitpos < newbit`, then splice a new node -/
def T.insertAt (t : T) (n : Nat) (e : Entry) : T :=
  match t with
  | .node b l r =>
    if b < n then
      (if getBit e.key b then .node b l (r.insertAt n e) else .node b (l.insertAt n e) r)
    else
      (if getBit e.key n then .node n t (.leaf e) else .node n (.leaf e) t)
  | .leaf _ =>
      (if getBit e.key n then .node n t (.leaf e) else .node n (.leaf e) t)

/-- `cbtree_insert`: `none` = refused (same zero-padded key already present) -/
def insert (root : Option T) (e : Entry) : Option (Option T) :=
  match root with
  | none => some (some (.leaf e))
  | some t =>
    match findCrit e.key (t.rawLookup e.key).key with
    | none => none
    | some n => some (some (t.insertAt n e))

/-- `cbtree_delete` below the root: `none` = key not present; `some (e, none)` = the last
    leaf was removed; `some (e, some t')` = remaining tree.  `e` is the entry handed to the
    free callback. -/
def T.delete : T → Key → Option (Entry × Option T)
  | .leaf x, k => if keyMatches x k then some (x, none) else none
  | .node b l r, k =>
    if getBit k b then
      match r.delete k with
      | none => none
      | some (e, none) => some (e, some l)
      | some (e, some r') => some (e, some (.node b l r'))
    else
      match l.delete k with
      | none => none
      | some (e, none) => some (e, some r)
      | some (e, some l') => some (e, some (.node b l' r))

def delete (root : Option T) (k : Key) : Option (Entry × Option T) :=
  match root with
  | none => none
  | some t => t.delete k

/-- `cbtree_walk` with a callback that answers `false` at the `stop`-th object
    (`stop = 0`: never).  Returns the objects visited and the overall result. -/
def walkUntil (root : Option T) (stop : Nat) : List Entry × Bool :=
  let all := match root with | none => [] | some t => t.entries
  if stop = 0 ∨ all.length < stop then (all, true) else (all.take stop, false)

def walk (root : Option T) : List Entry :=
  match root with | none => [] | some t => t.entries

/-- objects handed to the free callback by `cbtree_destroy`, in order -/
def destroyLog (root : Option T) : List Entry := walk root

/-- live allocations of the tree: the `CBTree` struct plus one per internal node -/
def liveAllocs (root : Option T) : Nat :=
  1 + (match root with | none => 0 | some t => t.nodes)

/-- pre-order dump used as the *internal* projection in the correspondence run -/
def T.dump : T → String
  | .leaf e => s!"#{e.obj}"
  | .node b l r => s!"({b} {l.dump} {r.dump})"

def dump (root : Option T) : String :=
  match root with | none => "nil" | some t => t.dump

end Usual.C06
