import Usual.C06.CBTree
/-!
# `usual/strpool.c` and `usual/mdict.c` on top of the crit-bit tree — executable models

Object ids stand for the pointers the C code hands out (`struct PStr *`, `struct MDictElem *`);
they are allocated sequentially, so "the same handle" is "the same id".
-/
namespace Usual.C06

/-! ## StrPool -/

structure StrPool where
  tree : Option T := none
  count : Int := 0
  refs : List (Nat × Nat) := []      -- id ↦ refcnt of the live PStr objects
  nextId : Nat := 1
deriving Repr

def refOf (refs : List (Nat × Nat)) (id : Nat) : Option Nat :=
  (refs.find? (·.1 == id)).map (·.2)

def setRef (refs : List (Nat × Nat)) (id n : Nat) : List (Nat × Nat) :=
  refs.map fun p => if p.1 == id then (id, n) else p

/-- `strpool_get`: `none` = NULL result -/
def StrPool.get (sp : StrPool) (s : Key) : StrPool × Option Nat :=
  match lookup sp.tree s with
  | some e =>
    let n := (refOf sp.refs e.obj).getD 0
    ({ sp with refs := setRef sp.refs e.obj (n + 1) }, some e.obj)
  | none =>
    let id := sp.nextId
    match insert sp.tree ⟨s, id⟩ with
    | none => ({ sp with nextId := id + 1 }, none)          -- refused: object freed again
    | some t' =>
      ({ tree := t', count := sp.count + 1, refs := sp.refs ++ [(id, 1)], nextId := id + 1 }, some id)

def StrPool.incref (sp : StrPool) (id : Nat) : StrPool :=
  match refOf sp.refs id with
  | some n => { sp with refs := setRef sp.refs id (n + 1) }
  | none => sp

/-- the string of a live handle -/
def StrPool.strOf (sp : StrPool) (id : Nat) : Option Key :=
  ((walk sp.tree).find? (·.obj == id)).map (·.key)

/-- `strpool_decref` on a live handle; returns whether the string was released -/
def StrPool.decref (sp : StrPool) (id : Nat) : StrPool × Bool :=
  match refOf sp.refs id with
  | none => (sp, false)
  | some n =>
    if n > 1 then ({ sp with refs := setRef sp.refs id (n - 1) }, false)
    else
      match sp.strOf id with
      | none => (sp, false)
      | some k =>
        let t' := match delete sp.tree k with
          | some (_, t') => t'
          | none => sp.tree
        ({ sp with tree := t', count := sp.count - 1, refs := sp.refs.filter (·.1 != id) }, true)

/-- live allocations: the pool struct, the tree, one block per string -/
def StrPool.live (sp : StrPool) : Nat := 1 + liveAllocs sp.tree + sp.refs.length

/-! ## MDict -/

abbrev Val := Option (List UInt8)          -- `none` = NULL value

structure MDict where
  tree : Option T := none
  vals : List (Nat × Val) := []             -- element id ↦ value
  nextId : Nat := 1
deriving Repr

def valOf (vals : List (Nat × Val)) (id : Nat) : Val :=
  match vals.find? (·.1 == id) with
  | some p => p.2
  | none => none

def setVal (vals : List (Nat × Val)) (id : Nat) (v : Val) : List (Nat × Val) :=
  vals.map fun p => if p.1 == id then (id, v) else p

/-- `mdict_get_buf`: `none` = key absent, `some none` = present with NULL value -/
def MDict.get (d : MDict) (k : Key) : Option Val :=
  (lookup d.tree k).map fun e => valOf d.vals e.obj

/-- insert-or-replace shared by `mdict_put_str` and `mdict_urldecode`; `false` = refused by
    the tree (only possible for keys that differ in trailing zero bytes alone) -/
def MDict.put (d : MDict) (k : Key) (v : Val) : MDict × Bool :=
  match lookup d.tree k with
  | some e => ({ d with vals := setVal d.vals e.obj v }, true)
  | none =>
    let id := d.nextId
    match insert d.tree ⟨k, id⟩ with
    | none => ({ d with nextId := id + 1 }, false)
    | some t' => ({ tree := t', vals := d.vals ++ [(id, v)], nextId := id + 1 }, true)

def MDict.del (d : MDict) (k : Key) : MDict × Bool :=
  match delete d.tree k with
  | none => (d, false)
  | some (e, t') => ({ d with tree := t', vals := d.vals.filter (·.1 != e.obj) }, true)

/-- key/value pairs in walk order -/
def MDict.pairs (d : MDict) : List (Key × Val) :=
  (walk d.tree).map fun e => (e.key, valOf d.vals e.obj)

/-- live allocations: dict struct, tree, and per element: element + key buffer (+ value buffer) -/
def MDict.live (d : MDict) : Nat :=
  1 + liveAllocs d.tree + (d.pairs.map fun p => 2 + (if p.2.isSome then 1 else 0)).sum

/-! ### urlencode -/

def hexTbl (n : Nat) : UInt8 :=
  if n < 10 then UInt8.ofNat (48 + n) else UInt8.ofNat (87 + n)

def isAlnum (c : UInt8) : Bool :=
  (48 ≤ c && c ≤ 57) || (65 ≤ c && c ≤ 90) || (97 ≤ c && c ≤ 122)

/-- `urlenc_str` for one byte -/
def urlencByte (c : UInt8) : List UInt8 :=
  if c == 32 then [43]
  else if isAlnum c then [c]
  else if c == 46 || c == 95 then [c]
  else [37, hexTbl (c.toNat / 16), hexTbl (c.toNat % 16)]

def urlencStr (s : List UInt8) : List UInt8 := s.flatMap urlencByte

def urlencElem (p : Key × Val) : List UInt8 :=
  urlencStr p.1 ++ (match p.2 with | none => [] | some v => 61 :: urlencStr v)

/-- `mdict_urlencode` of the pairs in walk order -/
def urlencode : List (Key × Val) → List UInt8
  | [] => []
  | [p] => urlencElem p
  | p :: q :: rest => urlencElem p ++ 38 :: urlencode (q :: rest)

/-! ### urldecode -/

def gethex (c : UInt8) : Option Nat :=
  if 48 ≤ c && c ≤ 57 then some (c.toNat - 48)
  else if 97 ≤ c && c ≤ 102 then some (c.toNat - 97 + 10)
  else if 65 ≤ c && c ≤ 70 then some (c.toNat - 65 + 10)
  else none

/-- `urldec_str`: decode up to `&`, `=` or the end; `none` = error (truncated or bad `%XX`).
    Returns the decoded bytes and the unconsumed rest. -/
def urldecStr : List UInt8 → Option (List UInt8 × List UInt8)
  | [] => some ([], [])
  | c :: rest =>
    if c == 37 then
      match rest with
      | h1 :: h2 :: rest' =>
        match gethex h1, gethex h2 with
        | some a, some b =>
          (urldecStr rest').map fun (d, r) => (UInt8.ofNat (a * 16 + b) :: d, r)
        | _, _ => none
      | _ => none
    else if c == 43 then (urldecStr rest).map fun (d, r) => (32 :: d, r)
    else if c == 38 || c == 61 then some ([], c :: rest)
    else (urldecStr rest).map fun (d, r) => (c :: d, r)

/-- the pair loop of `mdict_urldecode` as a pure parser: pairs in input order, and whether
    the whole text was accepted (pairs read before an error are still delivered, as in C) -/
def urldecodePairs (fuel : Nat) (s : List UInt8) : List (Key × Val) × Bool :=
  match fuel with
  | 0 => ([], true)
  | fuel + 1 =>
    if s.isEmpty then ([], true) else
    match urldecStr s with
    | none => ([], false)
    | some (k, r) =>
      if r.head? = some 61 then
        match urldecStr r.tail with
        | none => ([], false)
        | some (v, r2) =>
          let r3 := if r2.head? = some 38 then r2.tail else r2
          let (ps, ok) := urldecodePairs fuel r3
          ((k, some v) :: ps, ok)
      else
        let r1 := if r.head? = some 38 then r.tail else r
        let (ps, ok) := urldecodePairs fuel r1
        ((k, none) :: ps, ok)

/-- `mdict_urldecode`: put the parsed pairs one by one -/
def MDict.putAll (d : MDict) : List (Key × Val) → MDict × Bool
  | [] => (d, true)
  | (k, v) :: rest =>
    let (d', ok) := d.put k v
    if ok then d'.putAll rest else (d', false)

def MDict.urldecode (d : MDict) (s : List UInt8) : MDict × Bool :=
  let (ps, ok) := urldecodePairs (s.length + 1) s
  let (d', ok') := d.putAll ps
  (d', ok && ok')

end Usual.C06
