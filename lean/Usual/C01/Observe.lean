import Usual.C01.Talloc
/-!
# Observers and Bool-valued invariants of the talloc model

Everything here is evaluated by the driver on every state of a correspondence run and is the
subject of the theorems in `UsualProofs`.
-/
namespace Usual.C01

/-! ## what the public query functions return -/

/-- `talloc_total_size` / `talloc_total_blocks` (`talloc_report_depth_cb` + `calc_bytes_and_count`) -/
def totals : Nat → State → Id → Nat × Nat
  | 0, _, _ => (0, 0)
  | f + 1, s, t =>
    match s.get t with
    | none => (0, 0)
    | some o =>
      if o.pending then (0, 0)
      else if isRef o then (0, 1)
      else o.children.foldl
        (fun (acc : Nat × Nat) c => let r := totals f s c; (acc.1 + r.1, acc.2 + r.2)) (o.size, 1)

/-- `talloc_is_parent(parent, ptr)` -/
def isParent : Nat → State → Id → Id → Bool
  | 0, _, _, _ => false
  | f + 1, s, p, c =>
    match s.get c with
    | none => false
    | some co =>
      match co.parent with
      | none => false
      | some q => if q = p then true else isParent f s p q

/-- `talloc_reference_count` -/
def refCount (s : State) (o : Id) : Nat :=
  match s.get o with
  | some ob => ob.refs.length
  | none => 0

/-- would `talloc_size(ctx, n)` succeed now -/
def admits (cfg : Cfg) (s : State) (ctx : Option Id) (n : Nat) : Bool :=
  (hdrAlloc cfg s (cxOf s ctx) ctx n false .plain false).2

/-- the `.memlimit` chunks that `apply_memlimit(t, ..)` visits, nearest first -/
def limitsAbove (cfg : Cfg) : Nat → State → Option Id → List Id
  | 0, _, _ => []
  | f + 1, s, t =>
    match t with
    | none => []
    | some t =>
      match s.get t with
      | none => []
      | some o =>
        if !o.useLim then []
        else if !o.hasLim then limitsAbove cfg f s o.parent
        else
          match findLim s o.children with
          | none => if cfg.fixGone then limitsAbove cfg f s o.parent else []
          | some l =>
            match s.get l with
            | none => []
            | some _ => l :: limitsAbove cfg f s o.parent

/-- a charge of `d` more bytes stays within the limit recorded in chunk `l` -/
def fits (s : State) (d : Int) (l : Id) : Bool :=
  match s.get l with
  | some lb => decide ((lb.lcur : Int) + d ≤ (lb.lmax : Int))
  | none => true

/-- bisection for the largest admissible `n ≤ hi` given `admits lo` -/
def bisect (cfg : Cfg) (s : State) (ctx : Option Id) : Nat → Nat → Nat → Nat
  | 0, lo, _ => lo
  | f + 1, lo, hi =>
    if lo < hi then
      let mid := (lo + hi + 1) / 2
      if admits cfg s ctx mid then bisect cfg s ctx f mid hi else bisect cfg s ctx f lo (mid - 1)
    else lo

def PROBE_HI : Nat := 1 <<< 17

/-- largest admissible request under `ctx` (`none` = not even 0 bytes) capped at `PROBE_HI` -/
def maxAdmissible (cfg : Cfg) (s : State) (ctx : Option Id) : Option Nat :=
  if admits cfg s ctx 0 then some (bisect cfg s ctx 24 0 PROBE_HI) else none

/-! ## what "an operation that reports failure changes nothing" compares -/

/-- an object with its destructor script (which counts refusals) and its memlimit counter (C19
treats it exactly) blanked -/
def absObj (o : Obj) : Obj := { o with dtor := .none, lcur := 0 }

/-- the heap up to destructor scripts / memlimit counters, and the null context; the log and the
ghost flags are not part of it -/
def absState (s : State) : List (Option Obj) × Option Id := (s.heap.map (Option.map absObj), s.nullCtx)

/-! ## structural invariant (C01) -/

def ids (s : State) : List Id := List.range s.heap.length

/-- `P` holds for every live object -/
def allObjs (s : State) (P : Id → Obj → Bool) : Bool :=
  (ids s).all fun x => match s.get x with
    | some o => P x o
    | none => true

def plainAt (s : State) (a : Id) : Bool :=
  match s.get a with
  | some o => o.kind == .plain
  | none => false

/-- internal chunks (TRef, `.memlimit`) come before the plain children -/
def orderOK (s : State) : List Id → Bool
  | [] => true
  | a :: rest => (!plainAt s a || rest.all (plainAt s)) && orderOK s rest

/-- clauses of the structural invariant for one live object -/
def objOK (s : State) (x : Id) (o : Obj) : Bool :=
  -- the parent is a live plain object that lists x as child (unless x is being freed)
  (match o.parent with
    | none => true
    | some p => match s.get p with
      | some po => po.kind == .plain && (po.children.contains x || o.pending)
      | none => false) &&
  -- children are live, point back and are not being freed; no duplicates
  o.children.all (fun c => match s.get c with
    | some co => co.parent == some x && !co.pending
    | none => false) &&
  decide o.children.Nodup &&
  -- incoming references are live TRef chunks for x; no duplicates
  o.refs.all (fun r => match s.get r with
    | some ro => ro.kind == .ref x
    | none => false) &&
  decide o.refs.Nodup &&
  -- a TRef chunk is registered with its live target
  (match o.kind with
    | .ref t => (match s.get t with
        | some tb => tb.refs.contains x
        | none => false)
    | _ => true) &&
  -- internal chunks are leaves without destructor
  (o.kind == .plain || (o.children.isEmpty && o.refs.isEmpty && o.dtor == .none && !o.pending)) &&
  (!o.pending || o.refs.isEmpty) &&
  orderOK s o.children

def nullOKb (s : State) : Bool :=
  match s.nullCtx with
  | none => true
  | some n => match s.get n with
    | some nb => nb.kind == .plain && !nb.pending && nb.parent == none && nb.refs.isEmpty
    | none => false

/-- the invariant that also holds inside a free (pending objects allowed) -/
def wfpOK (s : State) : Bool :=
  allObjs s (objOK s) && nullOKb s

/-- the invariant between operations: `wfpOK` and no FLAG_PENDING anywhere -/
def wfOK (s : State) : Bool :=
  wfpOK s && allObjs s fun _ o => !o.pending

/-- parent chains end (no cycle): climbing from x reaches the top within `heap.length` steps -/
def chainEnds : Nat → State → Option Id → Bool
  | 0, _, p => p.isNone
  | f + 1, s, p =>
    match p with
    | none => true
    | some q => match s.get q with
      | some qo => chainEnds f s qo.parent
      | none => false

def acyclicOK (s : State) : Bool :=
  (ids s).all fun x => chainEnds s.heap.length s (some x) || !s.live x

/-! ## accounting invariant (C19) -/

/-- proper ancestors of x along parent pointers, nearest first -/
def ancestors : Nat → State → Id → List Id
  | 0, _, _ => []
  | f + 1, s, x =>
    match s.get x with
    | none => []
    | some o =>
      match o.parent with
      | none => []
      | some p => p :: ancestors f s p

def charge (o : Obj) : Nat := totalSize o.size

/-- Σ charge over the objects beneath `ctx`, the `.memlimit` chunk `l` of `ctx` excepted -/
def chargeBeneath (s : State) (ctx l : Id) : Nat :=
  ((ids s).map fun x =>
    match s.get x with
    | some o => if x ≠ l && (ancestors s.heap.length s x).contains ctx then charge o else 0
    | none => 0).sum

/-- every `.memlimit` chunk (of a context) carries exactly the charge of what is beneath its context -/
def acctOK (s : State) : Bool :=
  (ids s).all fun l => match s.get l with
    | some lo =>
      if isLimit lo then
        match lo.parent with
        | some ctx => lo.lcur == chargeBeneath s ctx l
        | none => true
      else true
    | none => true

/-- flags: HAS ⇒ USE, USE is inherited downwards (the `.memlimit` chunk itself, a leaf, is
exempt: it is allocated before the flag is set), HAS ⇔ a `.memlimit` child exists -/
def flagsOK (s : State) : Bool :=
  (ids s).all fun x => match s.get x with
    | some o =>
      (!o.hasLim || o.useLim) &&
      (o.hasLim == (findLim s o.children).isSome) &&
      (match o.parent with
        | some p => (match s.get p with
            | some po => !po.useLim || o.useLim || isLimit o
            | none => true)
        | none => true)
    | none => true

/-- number of live regions obtained from allocation context `cx` -/
def liveRegions (s : State) (cx : Nat) : Nat :=
  ((ids s).filter fun x => match s.get x with
    | some o => o.cx == cx
    | none => false).length

end Usual.C01
