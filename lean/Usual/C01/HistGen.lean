import Usual.Common
import Usual.C01.Talloc
import Usual.C01.Observe
import Usual.C01.Drv
/-! History generator for C01 / C19, guided by the model state so that every generated
history stays inside the property's quantifier (live arguments, acyclic holder graph).
Not part of any theorem; it only chooses inputs. -/
namespace Usual.C01.Drv
open Usual Usual.C01

/-- everything reachable from `o` in the holder graph (children; a TRef child also leads to its
target), `o` included -/
def holdReach : Nat → State → List Id → List Id → List Id
  | 0, _, _, seen => seen
  | f + 1, s, work, seen =>
    match work with
    | [] => seen
    | x :: rest =>
      if seen.contains x then holdReach f s rest seen
      else
        match s.get x with
        | none => holdReach f s rest seen
        | some o =>
          let extra := match o.kind with
            | .ref t => [t]
            | _ => []
          holdReach f s (o.children ++ extra ++ rest) (x :: seen)

def hdesc (s : State) (o : Id) : List Id :=
  holdReach (s.heap.length * s.heap.length + 4 * s.heap.length + 16) s [o] []

structure Rng where
  s : UInt64

def Rng.next (r : Rng) : Rng × UInt64 :=
  let s := r.s + 0x9E3779B97F4A7C15
  let z := (s ^^^ (s >>> 30)) * 0xBF58476D1CE4E5B9
  let z := (z ^^^ (z >>> 27)) * 0x94D049BB133111EB
  (⟨s⟩, z ^^^ (z >>> 31))

structure GSt where
  rng : Rng
  d : DSt
  nextSlot : Nat := 0
  lines : Array String := #[]
  /-- C19 profile: probe after every op -/
  probes : Bool := false

abbrev G := StateM GSt

def below (n : Nat) : G Nat := do
  let g ← get
  let (r, v) := g.rng.next
  set { g with rng := r }
  return if n == 0 then 0 else v.toNat % n

def chance (num den : Nat) : G Bool := do return (← below den) < num

def pick {α} [Inhabited α] (l : List α) : G α := do
  let i ← below l.length
  return l.getD i default

def emit (line : String) : G Unit := do
  let g ← get
  let (d', _) := stepLine g.d line
  set { g with d := d', lines := g.lines.push line }

def liveSlots : G (List (Nat × Id)) := do return userIds (← get).d

def slotW : Option Nat → String
  | some n => toString n
  | none => "-"

def SIZES : List Nat := [0, 1, 7, 8, 9, 16, 24, 100, 4095, 4096]
def HUGE : List Nat := [MAXLEN + 1, MAXLEN + 1, MAXLEN + 1, MAXLEN + 1, MAXLEN + 1, MAXLEN + 1, MAXLEN + 2, MAXLEN * 16, MAXLEN, MAXLEN - 1]

def pickSize : G Nat := do
  if ← chance 1 60 then pick HUGE else pick SIZES

def failW : G String := do return if ← chance 1 14 then " F" else ""

/-- a live slot, or rarely a dead / never used one -/
def pickObj : G (Option (Nat × Id)) := do
  let ls ← liveSlots
  if ls.isEmpty then return none
  return some (← pick ls)

def pickCtx : G (Option (Option (Nat × Id))) := do
  -- outer none: nothing to pick; inner none: NULL
  if ← chance 1 7 then return some none
  match ← pickObj with
  | some x => return some (some x)
  | none => return some none

def genAlloc (maxObjs : Nat) : G Unit := do
  let g ← get
  if g.nextSlot ≥ maxObjs then return
  let ls ← liveSlots
  let par ← if ls.isEmpty || (← chance 1 5) then pure none else (do let p ← pick ls; pure (some p.1))
  let sz ← pickSize
  let cx ← if par.isNone && (← chance 1 2) then pure 1 else pure 0
  let f ← failW
  modify fun g => { g with nextSlot := g.nextSlot + 1 }
  emit s!"alloc {g.nextSlot} {slotW par} {sz} {cx}{f}"

def dtorWords : List String := ["none", "accept", "accept", "refuse 1", "refuse 1", "refuse 2", "refuse 1000", "reenter"]

def genOp (maxObjs : Nat) : G Unit := do
  let k ← below 100
  let s := (← get).d.s
  if k < 17 then genAlloc maxObjs
  else if k < 27 then
    if let some o ← pickObj then emit s!"free {o.1}"
  else if k < 32 then
    if let some o ← pickObj then emit s!"fchildren {o.1}"
  else if k < 47 then
    -- reference ctx -> o, ctx not held (transitively) by o
    if let some o ← pickObj then
      match ← pickCtx with
      | some (some c) =>
        if !(hdesc s o.2).contains c.2 then emit s!"ref {c.1} {o.1}{← failW}"
      | some none => emit s!"ref - {o.1}{← failW}"
      | none => pure ()
  else if k < 59 then
    -- unlink: mostly from a real holder
    if let some o ← pickObj then
      match s.get o.2 with
      | none => pure ()
      | some ob =>
        let holders : List (Option Id) := ob.parent :: ob.refs.filterMap fun r => (s.get r).map (·.parent)
        let g ← get
        if ← chance 4 5 then
          let h ← pick holders
          match h with
          | none => emit s!"unlink - {o.1}"
          | some hid =>
            if g.d.s.nullCtx == some hid then emit s!"unlink - {o.1}"
            else match idSlot g.d hid with
              | some hs => emit s!"unlink {hs} {o.1}"
              | none => pure ()
        else
          match ← pickCtx with
          | some (some c) => emit s!"unlink {c.1} {o.1}"
          | _ => emit s!"unlink - {o.1}"
  else if k < 67 then
    if let some o ← pickObj then
      match ← pickCtx with
      | some (some c) =>
        if !(hdesc s o.2).contains c.2 then emit s!"{← pick ["steal", "move"]} {c.1} {o.1}"
      | _ => emit s!"{← pick ["steal", "move"]} - {o.1}"
  else if k < 73 then
    -- reparent old new o: old mostly a real holder
    if let some o ← pickObj then
      match s.get o.2 with
      | none => pure ()
      | some ob =>
        let g ← get
        let holders : List (Option Id) := ob.parent :: ob.refs.filterMap fun r => (s.get r).map (·.parent)
        let h ← pick holders
        let oldW ← (do
          if ← chance 1 6 then
            match ← pickCtx with
            | some (some c) => pure (toString c.1)
            | _ => pure "-"
          else
            match h with
            | none => pure "-"
            | some hid =>
              if g.d.s.nullCtx == some hid then pure "-"
              else match idSlot g.d hid with
                | some hs => pure (toString hs)
                | none => pure "-")
        match ← pickCtx with
        | some (some c) =>
          if !(hdesc s o.2).contains c.2 then emit s!"reparent {oldW} {c.1} {o.1}"
        | _ => emit s!"reparent {oldW} - {o.1}"
  else if k < 83 then
    if let some o ← pickObj then
      match (if (← get).d.autofree == some o.2 then none else s.get o.2) with
      | none => pure ()   -- (the autofree context is not reallocated: the library keeps its address)
      | some ob =>
        let par ← (do
          if ← chance 1 5 then
            match ← pickCtx with
            | some (some c) => pure (toString c.1)
            | _ => pure "-"
          else match ob.parent with
            | none => pure "-"
            | some p => match idSlot (← get).d p with
              | some ps => pure (toString ps)
              | none => pure "-")
        let sz ← (do
          let r ← below 10
          if r < 3 then pure (ob.size + 1)
          else if r < 5 then pure (ob.size - 1)
          else if r < 6 then pure 0
          else pickSize)
        emit s!"realloc {par} {o.1} {sz}{← failW}"
  else if k < 93 then
    -- (not on the autofree context: its destructor is the library's, which resets the static pointer)
    if let some o ← pickObj then
      if (← get).d.autofree != some o.2 then emit s!"dtor {o.1} {← pick dtorWords}"
  else if k < 95 then
    -- the autofree context: ask for it (fresh after it was freed), sometimes leave the process
    let g ← get
    if ← chance 1 4 then emit "exit"
    else
      let isLive := (g.d.autofree.filter fun i => g.d.s.live i).isSome
      if isLive then emit s!"autofree {g.nextSlot}"
      else if g.nextSlot < maxObjs + 2 then
        modify fun g => { g with nextSlot := g.nextSlot + 1 }
        emit s!"autofree {g.nextSlot}"
  else if k < 97 then
    -- memory limits belong to the c19 profile (property C19); here: one more unlink through
    -- the NULL context
    if let some o ← pickObj then emit s!"unlink - {o.1}"
  else if k < 99 then emit s!"nullon{← failW}"
  else emit "nulloff"

/-- C19 profile: 1–3 nested limited contexts and an unlimited sibling -/
def genC19Setup : G (List Nat) := do
  emit "alloc 0 - 0 0"
  emit "alloc 1 0 0 0"     -- unlimited sibling
  let depth := 1 + (← below 3)
  let mut par := 0
  let mut lims : List Nat := []
  for i in [0:depth] do
    let slot := 2 + i
    emit s!"alloc {slot} {par} {← pick [0, 8, 40]} 0"
    -- sometimes something exists before the limit is set
    lims := lims ++ [slot]
    par := slot
  modify fun g => { g with nextSlot := 2 + depth }
  -- pre-existing children under some contexts
  if ← chance 1 2 then
    let g ← get
    emit s!"alloc {g.nextSlot} {← pick lims} {← pick [10, 100, 500]} 0"
    modify fun g => { g with nextSlot := g.nextSlot + 1 }
  for l in lims.reverse do
    let mx ← pick [400, 1000, 2000, 5000, 20000]
    emit s!"limit {l} {mx}"
  return lims

def probeAll (lims : List Nat) : G Unit := do
  let g ← get
  for l in lims do
    if (slotId g.d l).isSome then emit s!"probe {l}"
  -- a deep child and the sibling
  let ls ← liveSlots
  if let some x := ls.getLast? then emit s!"probe {x.1}"
  if (slotId g.d 1).isSome then emit "probe 1"

def genC19Op (lims : List Nat) (maxObjs : Nat) : G Unit := do
  let k ← below 100
  let g ← get
  let s := g.d.s
  let ls ← liveSlots
  if ls.isEmpty then return
  let inLim := ls.filter fun p => (ancestors s.heap.length s p.2 ++ [p.2]).any fun a =>
    lims.any fun l => slotId g.d l == some a
  let ctxs := if inLim.isEmpty then ls else inLim
  if k < 25 then
    -- allocation with a size around the remaining headroom
    if g.nextSlot < maxObjs then
      let c ← pick ctxs
      let sz ← (do
        match maxAdmissible g.d.cfg s (some c.2) with
        | some n =>
          if n ≥ PROBE_HI then pickSize
          else
            let r ← below 8
            pure (if r == 0 then n else if r == 1 then n + 1 else if r == 2 then n - 7
                  else if r == 3 then n + 8 else if r == 4 then n / 2 else if r == 5 then n / 3
                  else if r == 6 then 8 else 1)
        | none => pick [0, 1, 8])
      modify fun g => { g with nextSlot := g.nextSlot + 1 }
      emit s!"alloc {g.nextSlot} {c.1} {sz} 0{← failW}"
  else if k < 45 then
    -- realloc by ±1 across alignment boundaries / to the headroom
    let o ← pick ctxs
    match s.get o.2 with
    | none => pure ()
    | some ob =>
      let r ← below 8
      let par := match ob.parent with
        | some p => (match idSlot g.d p with | some ps => toString ps | none => "-")
        | none => "-"
      let room := match maxAdmissible g.d.cfg s ob.parent with
        | some n => if n ≥ PROBE_HI then 4096 else n
        | none => 0
      let sz := if r == 0 then ob.size + 1 else if r == 1 then ob.size - 1
        else if r == 2 then (ob.size / 8) * 8 + 8 else if r == 3 then (ob.size / 8) * 8 + 9
        else if r == 4 then ob.size + room + THSIZE else if r == 5 then ob.size + room + THSIZE + 8
        else if r == 6 then ob.size / 2 else ob.size + 17
      emit s!"realloc {par} {o.1} {sz}{← failW}"
  else if k < 60 then
    -- steal in / out
    let o ← pick ls
    let c ← pick ls
    if !(hdesc s o.2).contains c.2 then emit s!"{← pick ["steal", "steal", "move"]} {c.1} {o.1}"
  else if k < 68 then
    let o ← pick ls
    emit s!"free {o.1}"
  else if k < 72 then
    let o ← pick ls
    emit s!"fchildren {o.1}"
  else if k < 80 then
    let o ← pick ls
    let c ← pick ls
    if !(hdesc s o.2).contains c.2 then emit s!"ref {c.1} {o.1}{← failW}"
  else if k < 88 then
    let o ← pick ls
    match s.get o.2 with
    | none => pure ()
    | some ob =>
      let holders : List (Option Id) := ob.parent :: ob.refs.filterMap fun r => (s.get r).map (·.parent)
      match ← pick holders with
      | none => emit s!"unlink - {o.1}"
      | some hid => match idSlot g.d hid with
        | some hs => emit s!"unlink {hs} {o.1}"
        | none => pure ()
  else if k < 94 then
    let o ← pick ls
    let mx ← pick [0, 0, 200, 400, 1000, 2000, 5000]
    emit s!"limit {o.1} {mx}{← failW}"
  else if k < 98 then
    let o ← pick ls
    emit s!"dtor {o.1} {← pick dtorWords}"
  else genAlloc maxObjs

/-- a reference `ctx -> o` if it keeps the holder graph acyclic -/
def tryRef (ctx o : Nat) : G Unit := do
  let g ← get
  match slotId g.d ctx, slotId g.d o with
  | some c, some i => if !(hdesc g.d.s i).contains c then emit s!"ref {ctx} {o}"
  | _, _ => pure ()

/-- structured start of a c01 history: a subtree of depth 3-4 under object 1 with references from
sibling branches inside the subtree and from a context outside it, several refusing destructors,
then the subtree is freed / unlinked / its children are freed.  Reaches repeated promotion (the
context of the first reference is itself inside the freed subtree), several `throw_child` in one
call and `talloc_free_children` over referenced children. -/
def genDeepSetup : G Unit := do
  emit "alloc 0 - 0 0"
  emit s!"alloc 1 0 {← pick SIZES} 0"
  emit s!"alloc 2 1 {← pick SIZES} 0"
  emit s!"alloc 3 1 {← pick SIZES} 0"
  emit s!"alloc 4 2 {← pick SIZES} 0"
  emit s!"alloc 5 {← pick [2, 3, 4]} {← pick SIZES} 0"
  emit s!"alloc 6 {← pick [0, 0, 3, 5]} {← pick SIZES} 0"
  emit "alloc 7 0 0 0"
  modify fun g => { g with nextSlot := 8 }
  -- references: from a sibling branch inside, from outside, from the parent itself
  let nref := 1 + (← below 4)
  for _ in [0:nref] do
    let o ← pick [2, 4, 4, 5, 5, 6]
    let c ← pick [3, 3, 7, 7, 0, 1, 5, 6]
    if c != o then tryRef c o
  -- destructors
  let ndt := ← below 4
  for _ in [0:ndt] do
    emit s!"dtor {← pick [2, 3, 4, 5, 6]} {← pick ["refuse 1", "refuse 1", "refuse 2", "accept", "reenter"]}"
  -- the call under test
  let k ← below 6
  if k == 0 then emit "free 1"
  else if k == 1 then emit "unlink 0 1"
  else if k == 2 then emit "fchildren 1"
  else if k == 3 then emit "fchildren 0"
  else if k == 4 then emit s!"free {← pick [2, 3]}"
  else emit "free 0"

def genCase (profile : String) : G Unit := do
  emit "#case"
  if profile == "c19" then
    let lims ← genC19Setup
    probeAll lims
    let n := 1 + (← below 40)
    for _ in [0:n] do
      let before := (← get).lines.size
      genC19Op lims 12
      if (← get).lines.size > before then probeAll lims
  else
    if ← chance 1 4 then emit "nullon"
    if ← chance 1 4 then genDeepSetup
    let n := 1 + (← below 60)
    for _ in [0:n] do genOp 12

def genMain (seed count : Nat) (profile : String) (cfg : Cfg) : IO Unit := do
  let stdout ← IO.getStdout
  -- the generator's state advances by a constant per draw: hash the seed so that different seeds
  -- start at unrelated points of the cycle (adjacent starting points give overlapping streams)
  let r0 : Rng := ⟨UInt64.ofNat (seed * 0x9E3779B97F4A7C15 + 0x1234567)⟩
  let mut rng : Rng := ⟨(r0.next).2 ^^^ ((r0.next).1.next).2 <<< 1⟩
  for _ in [0:count] do
    let g0 : GSt := { rng := rng, d := { cfg := cfg } }
    let (_, g) := (genCase profile).run g0
    rng := g.rng
    for l in g.lines do stdout.putStrLn l
  stdout.flush

/-! ## bounded-exhaustive histories: every allocation shape of three objects, then every
sequence of `depth` operations from the alphabet below whose arguments are live and keep the
holder graph acyclic -/

def exhAlphabet (d : DSt) : List String :=
  let ls := userIds d
  let ctxs : List (String × Option Id) := ("-", none) :: ls.map fun p => (toString p.1, some p.2)
  ls.flatMap fun o =>
    let hd := hdesc d.s o.2
    [s!"free {o.1}", s!"fchildren {o.1}", s!"realloc - {o.1} 9"] ++
    (match d.s.get o.2 with
      | some ob => if ob.dtor == .none then [s!"dtor {o.1} refuse 1"] else []
      | none => []) ++
    ctxs.flatMap fun c =>
      let acyc := match c.2 with
        | some ci => !hd.contains ci
        | none => true
      [s!"unlink {c.1} {o.1}"] ++
        (if acyc then [s!"ref {c.1} {o.1}", (if o.1 % 2 == 1 then s!"move {c.1} {o.1}" else s!"steal {c.1} {o.1}")] else [])

partial def exhDfs (out : IO.FS.Stream) (depth : Nat) (d : DSt) (pref : Array String) : IO Unit := do
  if depth == 0 then
    out.putStrLn "#case"
    for l in pref do out.putStrLn l
  else
    let alpha := exhAlphabet d
    if alpha.isEmpty then
      out.putStrLn "#case"
      for l in pref do out.putStrLn l
    else
      for op in alpha do
        let (d', _) := stepLine d op
        exhDfs out (depth - 1) d' (pref.push op)

def exhMain (depth : Nat) (cfg : Cfg) : IO Unit := do
  let out ← IO.getStdout
  let shapes : List (List String) :=
    (["-", "0"].flatMap fun p1 => ["-", "0", "1"].flatMap fun p2 =>
      [[s!"alloc 0 - 8 0", s!"alloc 1 {p1} 8 0", s!"alloc 2 {p2} 8 0"]]) ++
    [["alloc 0 - 8 1", "alloc 1 0 8 0", "alloc 2 1 8 0"],
     ["nullon", "alloc 0 - 8 1", "alloc 1 0 8 0", "alloc 2 0 8 0"]]
  for sh in shapes do
    let d := sh.foldl (fun d l => (stepLine d l).1) ({ cfg := cfg } : DSt)
    exhDfs out depth d sh.toArray
  out.flush

end Usual.C01.Drv
